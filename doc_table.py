#!/usr/bin/env python3
"""doc_table.py: regenerates the "per property, as built" table and the findings summary of DESIGN.md §0
from props/*.json, evidence/*.json and known-findings.json (between the TABLE0 / FINDINGS0 markers)."""
import json, glob, os, re
R = os.path.dirname(os.path.abspath(__file__))
rows = ["| id | theorems | `_partial` | `_false` | correspondence components | regenerated facts | source-equals-model modules | -race stress |",
        "|---|---|---|---|---|---|---|---|"]
for f in sorted(glob.glob(os.path.join(R, "props", "C*.json"))):
    pid = os.path.basename(f)[:3]
    c = json.load(open(f))
    try:
        e = json.load(open(os.path.join(R, "evidence", pid + ".json")))["coverage"]
    except Exception:
        e = {}
    th = [t.split(".")[-1] for t in e.get("theorems", [])]
    part = [t for t in th if t.endswith("_partial")]
    fal = [t for t in th if t.endswith("_false")]
    comps = []
    for x in c.get("components", []):
        if x["comp"] not in comps:
            comps.append(x["comp"])
    facts = [x for x in c.get("facts", []) if not x.startswith("Fn_")]
    fn = [m.split(".")[-1] for m in c.get("lean", []) if ".Facts.Fn" in m]
    st = (c.get("stress") or {}).get("run", "—")
    rows.append(f"| {pid} | {len(th)} | {', '.join(part) or '—'} | {', '.join(fal) or '—'} | {', '.join(comps) or '—'} | "
                f"{', '.join(facts) or '—'} | {', '.join(fn) or '—'} | {st.replace('|', ' / ')} |")
k = json.load(open(os.path.join(R, "known-findings.json")))["findings"]
fixed = [x["id"] for x in k if x["status"] == "fixed"]
known = [x["id"] for x in k if x["status"] == "known"]
fin = (f"`known-findings.json` is the authoritative record of what was re-found by the machinery and what happened to it: "
       f"{len(fixed)} repaired by `fix:` commits in `/repo` ({', '.join(fixed)}) and {len(known)} recorded as known findings "
       f"({', '.join(known)}), each with a replayable witness under `corpus/`.")
p = os.path.join(R, "DESIGN.md")
s = open(p).read()
s = re.sub(r"<!-- TABLE0 BEGIN -->.*?<!-- TABLE0 END -->", "<!-- TABLE0 BEGIN -->\n" + "\n".join(rows) + "\n<!-- TABLE0 END -->", s, flags=re.S)
s = re.sub(r"<!-- FINDINGS0 BEGIN -->.*?<!-- FINDINGS0 END -->", "<!-- FINDINGS0 BEGIN -->\n" + fin + "\n<!-- FINDINGS0 END -->", s, flags=re.S)
open(p, "w").write(s)
print(len(rows) - 2, "rows;", len(fixed), "fixed;", len(known), "known")

/-
Model of pkg/gcc/rate_calculator.go `rateCalculator.run` in the panic monad.

Times are ns as `Int`; an acknowledgment that did not arrive has `arrival = none`
(`Arrival.IsZero()`).  The two places where Go could panic are modelled as checked accesses:
`history = history[del:]` (slice bound) and `history[0]` (index).  The division
`float64(bits) / dt.Seconds()` is a FLOAT division: for `dt = 0` (identical arrival times, or a
window that shrank to the newest packet) it yields ±Inf or NaN and `int(…)` of that is an
implementation-defined integer — not a crash (an integer division would panic).  The result of
the whole expression is therefore an ORACLE `f bits dt`, arbitrary for every `dt` including 0
and negative values (decreasing arrival times).
-/
import Interceptor.Base.Res
namespace Interceptor.RateCalc

structure Ack where
  arrival : Option Int
  size : Int
  deriving Repr, DecidableEq

structure St where
  history : List (Int × Int)   -- (arrival, size) of the received packets in the window
  sum : Int
  init : Bool
  deriving Repr

def St.start : St := { history := [], sum := 0, init := false }

/-- the deletion loop: number of leading entries strictly before `deadline` and their sizes. -/
def delCount (deadline : Int) : List (Int × Int) → Nat × Int
  | [] => (0, 0)
  | (a, sz) :: rest =>
    if a < deadline then
      let r := delCount deadline rest
      (r.1 + 1, r.2 + sz)
    else (0, 0)

/-- `xs[n:]`. -/
def sliceFrom {α} (site : String) (xs : List α) (n : Nat) : Res (List α) :=
  if n ≤ xs.length then .ok (xs.drop n) else .panic site

/-- one acknowledgment; returns the new state and the values passed to `onRateUpdate`. -/
def step (window : Int) (f : Int → Int → Int) (st : St) (next : Ack) : Res (St × List Int) :=
  match next.arrival with
  | none => .ok (st, [])                                   -- `continue`
  | some arr =>
    let history := st.history ++ [(arr, next.size)]
    let sum := st.sum + next.size
    if !st.init then .ok ({ history := history, sum := sum, init := true }, [next.size * 8]) else
    let d := delCount (arr - window) history
    match sliceFrom "rate_calculator.go:52 history[del:]" history d.1 with
    | .panic s => .panic s
    | .err e => .err e
    | .ok h' =>
      let sum := sum - d.2
      if h'.length = 0 then .ok ({ history := h', sum := sum, init := true }, [0]) else
      match idx "rate_calculator.go:58 history[0]" h' 0 with
      | .panic s => .panic s
      | .err e => .err e
      | .ok h0 =>
        let dt := arr - h0.1
        .ok ({ history := h', sum := sum, init := true }, [f (8 * sum) dt])

def run (window : Int) (f : Int → Int → Int) : St → List Ack → Res (St × List Int)
  | st, [] => .ok (st, [])
  | st, a :: as =>
    match step window f st a with
    | .ok (st', out) =>
      match run window f st' as with
      | .ok (st'', out') => .ok (st'', out ++ out')
      | .err e => .err e
      | .panic s => .panic s
    | .err e => .err e
    | .panic s => .panic s

end Interceptor.RateCalc

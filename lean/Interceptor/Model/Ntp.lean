/-
Model of internal/ntp/ntp.go over the exact binary64 model.  A `time.Time` is its UnixNano
(`Int`, nanoseconds since 1970).
-/
import Interceptor.Base.F64
namespace Interceptor.Ntp
open Interceptor.F64

/-- `ToNTP(t)`. -/
def toNTP (ns : Int) : Nat :=
  let s := add (div (ofInt ns) 1000000000) 2208988800
  let ip := toUint32 s
  let fp := toUint32 (mul (sub s (ofInt ip)) 4294967295)
  ip * 4294967296 + fp

/-- `ToNTP32(t)`: middle 32 bits. -/
def toNTP32 (ns : Int) : Nat := (toNTP ns / 65536) % 4294967296

/-- `ToTime(t)` as UnixNano. -/
def toTime (t : Nat) : Int :=
  let seconds := t / 4294967296
  let fractional := div (ofInt ((t % 4294967296 : Nat) : Int)) 4294967295
  let d : Int := (seconds : Int) * 1000000000 + toInt64 (mul fractional 1000000000)
  d - 2208988800 * 1000000000

/-- `ToTime32(t, reference)`. -/
def toTime32 (t : Nat) (refNs : Int) : Int :=
  let referenceNTP := (toNTP refNs / 281474976710656) * 281474976710656   -- & 0xFFFF000000000000
  let tu64 := ((t * 65536) % 281474976710656) + referenceNTP               -- (t<<16)&0x0000FFFFFFFF0000 | ref
  toTime tu64

end Interceptor.Ntp

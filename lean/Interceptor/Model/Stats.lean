/-
Model of pkg/stats (stats_recorder.go, interceptor.go), transcribed branch by branch, on the
tree that carries the three `fix:` commits of C19 (F-34: an incoming FIR is counted for the
streams named in its FCI entries, whatever the media SSRC of its header; F-29: the XR case of recordIncomingRTCP no
longer `return`s out of the loop; F-27: BindRTCPReader hands the recorders the attributes
returned by the inner reader).  The code before the F-29 fix is kept as
`recordIncomingRTCPUnfixed` for the negative theorem.

Conventions: `time.Time` = UnixNano (`Int`); `time.Duration` = ns (`Int`); `float64` = a `Rat`
on the binary64 grid (Base/F64); uint32/uint64/int64 counters are unbounded `Nat`/`Int`
(overflow needs > 2^32 packets of one kind); parsed RTCP/RTP structures are inputs (the
harness parses with the real pion/rtcp, pion/rtp).
-/
import Interceptor.Base.F64
import Interceptor.Model.Ntp
import Interceptor.Model.Unwrapper
namespace Interceptor.Stats
open Interceptor.F64

/-! ## parsed packets -/

/-- `rtcp.ReceptionReport`. -/
structure Report where
  ssrc : Nat
  fl : Nat      -- FractionLost (uint8)
  tl : Nat      -- TotalLost
  lsn : Nat     -- LastSequenceNumber (uint32)
  jit : Nat
  lsr : Nat     -- LastSenderReport
  dlsr : Nat    -- Delay
  deriving Repr, DecidableEq

/-- `rtcp.DLRRReport`. -/
structure DlrrSub where
  ssrc : Nat
  lrr : Nat
  dlrr : Nat
  deriving Repr, DecidableEq

/-- the XR report blocks the recorder looks at. -/
inductive XrBlock
  | rrtr (ntp : Nat)
  | dlrr (subs : List DlrrSub)
  deriving Repr, DecidableEq

inductive Rtcp
  | sr (ssrc ntp pc oc : Nat) (reports : List Report)
  | rr (ssrc : Nat) (reports : List Report)
  | xr (ssrc : Nat) (blocks : List XrBlock)
  | nack (sender media : Nat)
  | pli (sender media : Nat)
  | fir (sender media : Nat) (entries : List Nat)
  | other (dest : List Nat)       -- any other packet type: only DestinationSSRC() matters
  deriving Repr, DecidableEq

def XrBlock.dest : XrBlock → List Nat
  | .rrtr _ => []
  | .dlrr subs => subs.map (·.ssrc)

/-- `pkt.DestinationSSRC()` of pion/rtcp v1.2.17. -/
def Rtcp.dest : Rtcp → List Nat
  | .sr ssrc _ _ _ reports => reports.map (·.ssrc) ++ [ssrc]
  | .rr _ reports => reports.map (·.ssrc)
  | .xr ssrc blocks => ssrc :: (blocks.map XrBlock.dest).flatten
  | .nack _ media => [media]
  | .pli _ media => [media]
  | .fir _ _ entries => entries
  | .other d => d

/-- an RTP packet as the recorder sees it: header fields, `header.MarshalSize()`, and the
payload length (outgoing) or the length of the buffer read (incoming). -/
structure Rtp where
  ssrc : Nat
  seq : Nat
  ts : Nat
  hs : Nat
  len : Nat
  deriving Repr, DecidableEq

/-- `rtp.Header.MarshalSize()` for a header with `cc` CSRCs, extension profile class `xp`
(0 none, 1 one-byte, 2 two-byte, 3 other) and extension payload lengths `xs`. -/
def marshalSize (cc xp : Nat) (xs : List Nat) : Nat :=
  let size := 12 + cc * 4
  if xp = 0 then size else
  let extSize :=
    if xp = 1 then 4 + (xs.map (1 + ·)).sum
    else if xp = 2 then 4 + (xs.map (2 + ·)).sum
    else 4 + xs.headD 0
  size + ((extSize + 3) / 4) * 4

/-! ## internalStats -/

structure IStats where
  unwr : Unwrapper.State := none          -- inboundSequencerNumber
  seqInit : Bool := false
  firstSeq : Int := 0
  highestSeq : Int := 0
  arrInit : Bool := false
  lastArrival : Int := 0
  lastArrivalRTP : Nat := 0
  lastTransit : Int := 0
  remFirstInit : Bool := false
  remFirst : Int := 0
  lastSRs : List Nat := []
  lastRRTs : List Nat := []
  -- InboundRTPStreamStats
  inPR : Nat := 0
  inLost : Int := 0
  inJitter : Rat := 0
  inLastTs : Option Int := none
  inHB : Nat := 0
  inB : Nat := 0
  inFIR : Nat := 0
  inPLI : Nat := 0
  inNACK : Nat := 0
  -- OutboundRTPStreamStats
  outPS : Nat := 0
  outBS : Nat := 0
  outHB : Nat := 0
  outNACK : Nat := 0
  outFIR : Nat := 0
  outPLI : Nat := 0
  -- RemoteInboundRTPStreamStats
  riPR : Nat := 0
  riLost : Int := 0
  riJitter : Rat := 0
  riRTT : Int := 0
  riTotRTT : Int := 0
  riFL : Rat := 0
  riN : Nat := 0
  -- RemoteOutboundRTPStreamStats
  roPS : Nat := 0
  roBS : Nat := 0
  roTs : Option Int := none
  roReports : Nat := 0
  roRTT : Int := 0
  roTotRTT : Int := 0
  roN : Nat := 0

/-! ## helpers -/

/-- `time.Duration.Seconds()`. -/
def durSeconds (d : Int) : Rat :=
  add (ofInt (d.tdiv 1000000000)) (div (ofInt (d.tmod 1000000000)) 1000000000)

/-- `time.Duration(float64(x) / 65536.0 * float64(time.Second))`. -/
def delayNs (x : Nat) : Int := toInt64 (mul (div (ofInt x) 65536) 1000000000)

/-- `(v & 0x0000FFFFFFFF0000) >> 16 == uint64(mid)`. -/
def midMatches (mid v : Nat) : Bool := (v / 65536) % 4294967296 == mid

/-- two's-complement wrap of an `int64` sum (`TotalRoundTripTime +=`; a single bogus report
with a far-away NTP time is enough to make the running total overflow). -/
def wrap64 (x : Int) : Int := (x + 9223372036854775808) % 18446744073709551616 - 9223372036854775808

/-- `append` then keep the last `max` entries. -/
def pushTrim (l : List Nat) (v : Nat) : List Nat :=
  let l' := l ++ [v]
  if l'.length > 5 then l'.drop (l'.length - 5) else l'

/-- the order in which `for i := min(max, len) - 1; i >= 0; i--` visits the slice. -/
def searchOrder (l : List Nat) : List Nat := (l.take 5).reverse

/-! ## the recorder -/

/-- `recordIncomingRTP`; `p.len` is `len(buf)`. -/
def recordIncomingRTP (ssrc : Nat) (rate : Rat) (st : IStats) (now : Int) (p : Rtp) : IStats :=
  if p.ssrc ≠ ssrc then st else
  let (u', sn) := Unwrapper.unwrap st.unwr p.seq
  let st := { st with unwr := u' }
  let st := if !st.seqInit then { st with firstSeq := sn, seqInit := true } else st
  let st := if sn > st.highestSeq then { st with highestSeq := sn } else st
  let st := { st with inPR := st.inPR + 1 }
  let expected : Int := st.highestSeq - st.firstSeq + 1
  let st := { st with inLost := expected - (st.inPR : Int) }
  let st :=
    if !st.arrInit then
      { st with lastArrival := now, lastArrivalRTP := p.ts, arrInit := true }
    else
      let units := mul (durSeconds (now - st.lastArrival)) rate
      let arrival := (st.lastArrivalRTP + toUint32 units) % 4294967296
      let transit : Int := (arrival : Int) - (p.ts : Int)
      let d := transit - st.lastTransit
      let d := if d < 0 then -d else d
      let dSec := div (ofInt d) rate
      { st with
        lastTransit := transit
        inJitter := add st.inJitter (mul (1 / 16) (sub dSec st.inJitter))
        lastArrival := now
        lastArrivalRTP := p.ts }
  let payloadLen : Int := (p.len : Int) - (p.hs : Int)
  { st with
    inLastTs := some now
    inHB := st.inHB + p.hs
    inB := st.inB + ((p.hs : Int) + payloadLen).toNat }

/-- `recordOutgoingRTP`; `p.len` is `len(payload)`. -/
def recordOutgoingRTP (ssrc : Nat) (st : IStats) (p : Rtp) : IStats :=
  if p.ssrc ≠ ssrc then st else
  let st := { st with outPS := st.outPS + 1, outBS := st.outBS + (p.hs + p.len), outHB := st.outHB + p.hs }
  if !st.remFirstInit then { st with remFirst := (p.seq : Int), remFirstInit := true } else st

/-- one iteration of the loop of `recordIncomingRR`. -/
def rrStep (ssrc : Nat) (rate : Rat) (now : Int) (st : IStats) (r : Report) : IStats :=
  if r.ssrc ≠ ssrc then st else
  let st :=
    if st.remFirstInit then
      let cycles := r.lsn / 65536 % 65536
      let nr := r.lsn % 65536
      let highest := cycles * 65536 + nr
      let expected : Int := (highest : Int) - st.remFirst + 1
      let received : Int := max (expected - (r.tl : Int)) 0
      { st with riPR := received.toNat }
    else st
  let st := { st with riLost := (r.tl : Int), riJitter := div (ofInt r.jit) rate }
  let st :=
    if r.dlsr ≠ 0 ∧ r.lsr ≠ 0 then
      match (searchOrder st.lastSRs).find? (midMatches r.lsr) with
      | some lastReport =>
        let rtt := (now - delayNs r.dlsr) - Ntp.toTime lastReport
        { st with riRTT := rtt, riTotRTT := wrap64 (st.riTotRTT + rtt), riN := st.riN + 1 }
      | none => st
    else st
  { st with riFL := div (ofInt r.fl) 256 }

def recordIncomingRR (ssrc : Nat) (rate : Rat) (st : IStats) (reports : List Report) (now : Int) : IStats :=
  reports.foldl (rrStep ssrc rate now) st

/-- the innermost loop of `recordIncomingXR` (no `break`: every matching entry counts). -/
def dlrrHit (now : Int) (dlrr : Nat) (lrr : Nat) (st : IStats) (lastRR : Nat) : IStats :=
  if midMatches lrr lastRR then
    let rtt := (now - delayNs dlrr) - Ntp.toTime lastRR
    { st with roRTT := rtt, roTotRTT := wrap64 (st.roTotRTT + rtt), roN := st.roN + 1 }
  else st

def dlrrSubStep (ssrc : Nat) (now : Int) (st : IStats) (x : DlrrSub) : IStats :=
  if x.lrr ≠ 0 ∧ x.dlrr ≠ 0 ∧ x.ssrc = ssrc then
    (searchOrder st.lastRRTs).foldl (dlrrHit now x.dlrr x.lrr) st
  else st

def xrInBlock (ssrc : Nat) (now : Int) (st : IStats) : XrBlock → IStats
  | .dlrr subs => subs.foldl (dlrrSubStep ssrc now) st
  | .rrtr _ => st

def recordIncomingXR (ssrc : Nat) (st : IStats) (blocks : List XrBlock) (now : Int) : IStats :=
  blocks.foldl (xrInBlock ssrc now) st

/-- the `switch` of `recordIncomingRTCP` for a packet that passed the destination check. -/
def inSwitch (ssrc : Nat) (rate : Rat) (now : Int) (st : IStats) : Rtcp → IStats
  | .nack _ media => if media = ssrc then { st with outNACK := st.outNACK + 1 } else st
  | .fir _ _ _ => { st with outFIR := st.outFIR + 1 }   -- the FCI entries were matched by the destination check
  | .pli _ media => if media = ssrc then { st with outPLI := st.outPLI + 1 } else st
  | .rr _ reports => recordIncomingRR ssrc rate st reports now
  | .sr _ ntp pc oc reports =>
    let st := { st with roPS := pc, roBS := oc, roTs := some (Ntp.toTime ntp), roReports := st.roReports + 1 }
    recordIncomingRR ssrc rate st reports now
  | .xr _ blocks => recordIncomingXR ssrc st blocks now
  | .other _ => st

/-- the FIR case of the switch before `fix: stats: count an incoming FIR for the stream named in
its FCI entries` (F-34): it also wanted the media SSRC of the header to be the stream's. -/
def firInUnfixed (ssrc : Nat) (st : IStats) (media : Nat) : IStats :=
  if media = ssrc then { st with outFIR := st.outFIR + 1 } else st

/-- one iteration of the loop of `recordIncomingRTCP` (fixed code). -/
def inStep (ssrc : Nat) (rate : Rat) (now : Int) (st : IStats) (pkt : Rtcp) : IStats :=
  if !(pkt.dest.contains ssrc) then st else inSwitch ssrc rate now st pkt

def recordIncomingRTCP (ssrc : Nat) (rate : Rat) (st : IStats) (pkts : List Rtcp) (now : Int) : IStats :=
  pkts.foldl (inStep ssrc rate now) st

/-- the code before `fix: stats: keep processing a compound packet after an XR`: the XR case
`return`s, so the rest of the compound packet is dropped (F-29). -/
def recordIncomingRTCPUnfixed (ssrc : Nat) (rate : Rat) (st : IStats) (pkts : List Rtcp) (now : Int) : IStats :=
  match pkts with
  | [] => st
  | pkt :: rest =>
    if !(pkt.dest.contains ssrc) then recordIncomingRTCPUnfixed ssrc rate st rest now else
    match pkt with
    | .xr _ blocks => recordIncomingXR ssrc st blocks now
    | _ => recordIncomingRTCPUnfixed ssrc rate (inSwitch ssrc rate now st pkt) rest now

def xrOutBlock (st : IStats) : XrBlock → IStats
  | .rrtr ntp => { st with lastRRTs := pushTrim st.lastRRTs ntp }
  | .dlrr _ => st

/-- one iteration of the loop of `recordOutgoingRTCP`. -/
def outStep (ssrc : Nat) (st : IStats) (pkt : Rtcp) : IStats :=
  match pkt with
  | .fir _ _ _ => if !(pkt.dest.contains ssrc) then st else { st with inFIR := st.inFIR + 1 }
  | .pli _ _ => if !(pkt.dest.contains ssrc) then st else { st with inPLI := st.inPLI + 1 }
  | .nack _ _ => if !(pkt.dest.contains ssrc) then st else { st with inNACK := st.inNACK + 1 }
  | .sr _ ntp _ _ _ =>
    if !(pkt.dest.contains ssrc) then st else { st with lastSRs := pushTrim st.lastSRs ntp }
  | .xr _ blocks => blocks.foldl xrOutBlock st
  | .rr _ _ => st
  | .other _ => st

def recordOutgoingRTCP (ssrc : Nat) (st : IStats) (pkts : List Rtcp) : IStats :=
  pkts.foldl (outStep ssrc) st

/-! ## the interceptor: one recorder per bound SSRC; RTCP fanned out to all -/

/-- what passes through the interceptor (`now` = the value of `r.now()` at that moment). -/
inductive Event
  | bind (ssrc rate : Nat)                 -- BindLocalStream / BindRemoteStream → getRecorder
  | rtpIn (now : Int) (via : Nat) (p : Rtp)   -- read through the reader bound for stream `via`
  | rtpOut (via : Nat) (p : Rtp)              -- written through the writer bound for stream `via`
  | rtcpIn (now : Int) (pkts : List Rtcp)
  | rtcpOut (pkts : List Rtcp)
  | close
  deriving Repr, DecidableEq

structure Rec where
  ssrc : Nat
  rate : Rat        -- float64(info.ClockRate)
  running : Bool
  st : IStats

/-- what one event does to one *running* recorder's statistics
(`Queue*` → `record*`; RTP only reaches the recorder of the stream it travels on). -/
def recStep (ssrc : Nat) (rate : Rat) (st : IStats) : Event → IStats
  | .rtpIn now via p => if via = ssrc then recordIncomingRTP ssrc rate st now p else st
  | .rtpOut via p => if via = ssrc then recordOutgoingRTP ssrc st p else st
  | .rtcpIn now pkts => recordIncomingRTCP ssrc rate st pkts now
  | .rtcpOut pkts => recordOutgoingRTCP ssrc st pkts
  | .bind _ _ => st
  | .close => st

/-- one event on one recorder: `Stop` clears `running`; a stopped recorder drops everything. -/
def Rec.step (e : Event) (r : Rec) : Rec :=
  match e with
  | .close => { r with running := false }
  | _ => if r.running then { r with st := recStep r.ssrc r.rate r.st e } else r

def Rec.new (ssrc rate : Nat) : Rec :=
  { ssrc := ssrc, rate := ofInt (rate : Int), running := true, st := {} }

/-- the interceptor's `recorders` map (insertion order; keys unique). -/
abbrev Icpt := List Rec

def Icpt.step (i : Icpt) (e : Event) : Icpt :=
  match e with
  | .bind ssrc rate => if i.any (·.ssrc == ssrc) then i else i ++ [Rec.new ssrc rate]
  | _ => i.map (Rec.step e)

def Icpt.run (evs : List Event) : Icpt := evs.foldl Icpt.step []

/-- `Getter.Get(ssrc)`. -/
def Icpt.get (i : Icpt) (ssrc : Nat) : Option IStats := (i.find? (·.ssrc == ssrc)).map (·.st)

end Interceptor.Stats

/-
Model of pkg/rfc8888 (stream_log.go, recorder.go, the report loop of interceptor.go), transcribed
branch by branch from the code WITH the fixes F-10 (a duplicate keeps the first arrival), F-11
(even per-stream budget), F-12 (saturate before converting to uint16), F-13 (the packet hand-off
selects on close).  A `time.Time` is its UnixNano (`Int`); Go's int64 sequence numbers are `Int`.
The unwrapper and the NTP conversion are the models of C20.
-/
import Interceptor.Base.F64
import Interceptor.Model.Ntp
import Interceptor.Model.Unwrapper
namespace Interceptor.Rfc8888
open Interceptor.F64

/-- `packetReport`. -/
structure Entry where
  arrival : Int
  ecn : Nat
  deriving Repr, DecidableEq

/-- `rtcp.CCFeedbackMetricBlock`. -/
structure Metric where
  received : Bool
  ecn : Nat
  ato : Nat
  deriving Repr, DecidableEq

/-- `rtcp.CCFeedbackReportBlock`. -/
structure Block where
  ssrc : Nat
  begin : Nat
  metrics : List Metric
  deriving Repr, DecidableEq

/-- `rtcp.CCFeedbackReport` (sender SSRC is always 0). -/
structure Report where
  ts : Nat
  blocks : List Block
  deriving Repr, DecidableEq

/-- `map[int64]*packetReport` as an association list. -/
abbrev Log := List (Int × Entry)

def lookup : Log → Int → Option Entry
  | [], _ => none
  | (k, e) :: m, n => if k = n then some e else lookup m n

/-- `delete(l.log, k)`. -/
def erase (m : Log) (k : Int) : Log := m.filter (fun p => !(p.1 = k))

/-- the truncation loop `for seq := range l.log { if seq < newNext { delete } }`. -/
def dropBelow (m : Log) (newNext : Int) : Log := m.filter (fun p => !(p.1 < newNext))

/-- Go `uint16(x)` of an int64. -/
def u16 (x : Int) : Nat := (x % 65536).toNat

/-! ### arrival time offset -/

/-- `t.Sub(u)`: saturating int64 nanoseconds. -/
def subSat (t u : Int) : Int :=
  let d := t - u
  if d > 9223372036854775807 then 9223372036854775807
  else if d < -9223372036854775808 then -9223372036854775808 else d

/-- `time.Duration.Seconds()`: `float64(d / Second) + float64(d % Second) / 1e9` (Go `/`, `%` truncate). -/
def seconds (d : Int) : Rat :=
  add (ofInt (Int.tdiv d 1000000000)) (div (ofInt (Int.tmod d 1000000000)) 1000000000)

/-- the float64 value `base.Sub(arrival).Seconds() * 1024.0`. -/
def atoFloat (base arrival : Int) : Rat := mul (seconds (subSat base arrival)) 1024

/-- `getArrivalTimeOffset(base, arrival)` (fixed code: the comparison is done on the float). -/
def getATO (base arrival : Int) : Nat :=
  if base < arrival then 0x1FFF else
  let x := atoFloat base arrival
  if x ≥ 8190 then 0x1FFE else toUint16 x

/-! ### streamLog -/

structure StreamLog where
  ssrc : Nat
  seq : Unwrapper.State
  init : Bool
  next : Int      -- nextSequenceNumberToReport
  last : Int      -- lastSequenceNumberReceived
  log : Log

def StreamLog.new (ssrc : Nat) : StreamLog := ⟨ssrc, none, false, 0, 0, []⟩

/-- `add` after the unwrapping (any int64 value). -/
def addU (l : StreamLog) (ts : Int) (u : Int) (ecn : Nat) : StreamLog :=
  let l := if l.init then l else { l with init := true, next := u }
  if u < l.next then l else
  let l := match lookup l.log u with
    | some _ => l                                     -- F-10 fix: the first copy stays
    | none => { l with log := (u, ⟨ts, ecn⟩) :: l.log }
  if l.last < u then { l with last := u } else l

/-- `streamLog.add`. -/
def add (l : StreamLog) (ts : Int) (sn : Nat) (ecn : Nat) : StreamLog :=
  let r := Unwrapper.unwrap l.seq sn
  addU { l with seq := r.1 } ts r.2 ecn

/-- one metric block. -/
def mkMetric (ref : Int) : Option Entry → Metric
  | some e => ⟨true, e.ecn, getATO ref e.arrival⟩
  | none => ⟨false, 0, 0⟩

/-- the mutable variables of the emit loop. -/
structure LoopSt where
  log : Log
  next : Int
  lastReceived : Int
  gap : Bool

/-- body of `for i := offset; i <= last; i++`. -/
def loopStep (st : LoopSt) (i : Int) (received : Bool) : LoopSt :=
  if st.gap then st else
  let st := if received ∧ i = st.next then
      { st with log := erase st.log i, next := st.next + 1, lastReceived := i } else st
  if i > st.lastReceived + 1 then { st with gap := true } else st

/-- `n` iterations of the emit loop starting at `i`. -/
def loop (ref : Int) : Nat → Int → LoopSt → LoopSt × List Metric
  | 0, _, st => (st, [])
  | n + 1, i, st =>
    let r := lookup st.log i
    let rest := loop ref n (i + 1) (loopStep st i r.isSome)
    (rest.1, mkMetric ref r :: rest.2)

/-- the truncate-to-budget step at the top of `metricsAfter`. -/
def truncate (l : StreamLog) (maxBlocks : Int) : StreamLog :=
  if l.last - l.next + 1 > maxBlocks then
    let newNext := l.last - maxBlocks + 1
    { l with log := dropBelow l.log newNext, next := newNext }
  else l

/-- `streamLog.metricsAfter(reference, maxReportBlocks)`, `maxReportBlocks ≥ 0`. -/
def metricsAfter (l : StreamLog) (ref : Int) (maxBlocks : Int) : StreamLog × Block :=
  if l.log.isEmpty then (l, ⟨l.ssrc, u16 l.next, []⟩) else
  let l := truncate l maxBlocks
  let offset := l.next
  let r := loop ref (l.last - offset + 1).toNat offset ⟨l.log, l.next, l.next, false⟩
  ({ l with log := r.1.log, next := r.1.next }, ⟨l.ssrc, u16 offset, r.2⟩)

/-! ### Recorder -/

/-- `Recorder.streams` in insertion order (the Go map has no order; reports are compared sorted). -/
structure Recorder where
  streams : List (Nat × StreamLog)

def Recorder.new : Recorder := ⟨[]⟩

def upd (ts : Int) (ssrc sn ecn : Nat) : List (Nat × StreamLog) → List (Nat × StreamLog)
  | [] => [(ssrc, add (StreamLog.new ssrc) ts sn ecn)]
  | (k, l) :: rest => if k = ssrc then (k, add l ts sn ecn) :: rest else (k, l) :: upd ts ssrc sn ecn rest

/-- `Recorder.AddPacket`. -/
def addPacket (r : Recorder) (ts : Int) (ssrc sn ecn : Nat) : Recorder := ⟨upd ts ssrc sn ecn r.streams⟩

/-- `maxReportBlocksPerStream` (fixed code: rounded down to an even number). -/
def perStream (maxSize : Int) (k : Nat) : Int :=
  let maxReportBlocks := max (Int.tdiv (maxSize - 12 - 8 * (k : Int)) 2) 0
  let p := Int.tdiv maxReportBlocks (k : Int)
  p - Int.tmod p 2                                      -- F-11 fix

def buildAll (now budget : Int) : List (Nat × StreamLog) → List (Nat × StreamLog) × List Block
  | [] => ([], [])
  | (k, l) :: rest =>
    let r := metricsAfter l now budget
    let rs := buildAll now budget rest
    ((k, r.1) :: rs.1, r.2 :: rs.2)

/-- `Recorder.BuildReport(now, maxSize)`. -/
def buildReport (r : Recorder) (now : Int) (maxSize : Int) : Recorder × Report :=
  let ts := Ntp.toNTP32 now
  if r.streams.isEmpty then (r, ⟨ts, []⟩) else
  let rs := buildAll now (perStream maxSize r.streams.length) r.streams
  (⟨rs.1⟩, ⟨ts, rs.2⟩)

/-- `CCFeedbackReportBlock.len()` of pion/rtcp: 8 bytes of header, 2 per metric block, padded to 32 bit. -/
def blockLen (b : Block) : Nat := 8 + 2 * (b.metrics.length + b.metrics.length % 2)

/-- `len(CCFeedbackReport.Marshal())`: header 8, blocks, timestamp 4. -/
def marshalledLen (r : Report) : Nat := 12 + (r.blocks.map blockLen).sum

/-! ### the interceptor's loop (interceptor.go), as a deterministic machine over virtual time -/

structure Pkt where
  arrival : Int
  ssrc : Nat
  sn : Nat

structure Icpt where
  recd : Recorder := Recorder.new
  now : Int := 946684800000000000          -- synctest epoch
  interval : Int := 100000000
  maxSize : Int := 1200
  loopRunning : Bool := false               -- BindRTCPWriter started the goroutine
  tickerAt : Option Int := none             -- time of the next tick (ticker exists after the first packet)
  pending : List Pkt := []                  -- Reads blocked in the hand-off (no loop yet)
  closed : Bool := false

/-- the loop takes one packet. -/
def Icpt.deliver (s : Icpt) (p : Pkt) : Icpt :=
  let s := { s with recd := addPacket s.recd p.arrival p.ssrc p.sn 0 }
  match s.tickerAt with
  | none => { s with tickerAt := some (s.now + s.interval) }
  | some _ => s

/-- `BindRTCPWriter`. -/
def Icpt.bindWriter (s : Icpt) : Icpt :=
  if s.closed ∨ s.loopRunning then s else
  let s := { s with loopRunning := true }
  let s' := s.pending.foldl Icpt.deliver { s with pending := [] }
  s'

/-- result of a `Read` through the bound reader. -/
inductive ReadRes | ok | blocked

/-- the reader returned by `BindRemoteStream`, on a well-formed packet. -/
def Icpt.read (s : Icpt) (ssrc sn : Nat) : Icpt × ReadRes :=
  let p : Pkt := ⟨s.now, ssrc, sn⟩
  if s.closed then (s, .ok)                               -- F-13 fix: `case <-s.close`
  else if s.loopRunning then (s.deliver p, .ok)
  else ({ s with pending := s.pending ++ [p] }, .blocked)

/-- advance virtual time by `d` ns; every tick in `(now, now+d]` builds one report (fuel = ticks). -/
def Icpt.advance (s : Icpt) (d : Int) : Icpt × List Report :=
  let target := s.now + d
  match s.tickerAt with
  | none => ({ s with now := target }, [])
  | some t0 =>
    if s.closed ∨ s.interval ≤ 0 then ({ s with now := target }, []) else
    let n := if target < t0 then 0 else ((target - t0) / s.interval + 1).toNat
    let rec go : Nat → Int → Recorder → List Report → Recorder × List Report
      | 0, _, r, acc => (r, acc.reverse)
      | k + 1, t, r, acc =>
        let b := buildReport r t s.maxSize
        go k (t + s.interval) b.1 (b.2 :: acc)
    let res := go n t0 s.recd []
    ({ s with now := target, recd := res.1, tickerAt := some (t0 + (n : Int) * s.interval) }, res.2)

/-- `Close`: returns the number of blocked Reads it released. -/
def Icpt.close (s : Icpt) : Icpt × Nat :=
  ({ s with closed := true, loopRunning := false, pending := [] }, s.pending.length)

end Interceptor.Rfc8888

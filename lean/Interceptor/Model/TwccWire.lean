/-
The model's feedback packet as the specification decoder's input: the fields pion/rtcp writes
after the two SSRCs (24-bit reference time) and the bytes that follow them.
-/
import Interceptor.Model.Twcc
import Interceptor.Spec.Twcc
namespace Interceptor.Twcc

def Packet.toWire (p : Packet) : TwccSpec.Wire :=
  { base := p.base, count := p.count, ref := p.ref % 16777216, fbCount := p.fbCount, body := p.body }

end Interceptor.Twcc

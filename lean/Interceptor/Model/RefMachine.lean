/-
Abstract interleaving machine for the reference counting of RetainablePacket (C04, concurrent
clause).  Threads are not named: every atomic action of every thread is a step that may fire
whenever its guard holds, so the reachable states cover all schedules of
  writers        new ; (store | drop | nothing — a repeat of the highest number is neither stored nor released)
  Add / Clear    evict*            (each `Release` of a ring occupant is its own step)
  resend thread  get(Retain) ; write ; release     — one per NACK request, any number at once
  unbind / close evict*            (Clear)
at the granularity "critical section of rtpBufferMutex / countMu".  Splitting Add and Clear into
single evictions admits more interleavings than the buffer lock allows; safety over the larger set
is the stronger statement.
-/
namespace Interceptor.RefMachine

structure St where
  next : Nat                 -- packet ids are allocated in order
  cnt : Nat → Nat            -- RetainablePacket.count
  freed : Nat → Bool         -- header/buffer have been handed back to the sync.Pool
  ring : List Nat            -- packets referenced from RTPBuffer.packets
  hand : List Nat            -- created by a writer, not (yet) stored or dropped
  inflight : List Nat        -- retained by a resend goroutine between Get and Release

def init : St := { next := 0, cnt := fun _ => 0, freed := fun _ => false, ring := [], hand := [], inflight := [] }

/-- `Release`: decrement; at zero the storage goes back to the pool. -/
def rel (s : St) (id : Nat) : St :=
  { s with cnt := fun j => if j = id then s.cnt id - 1 else s.cnt j,
           freed := fun j => if j = id then (s.cnt id - 1 == 0 || s.freed id) else s.freed j }

inductive Step : St → St → Prop
  /-- `NewPacket`: count 1, owned by the writer. -/
  | new (s : St) : Step s { s with next := s.next + 1, cnt := fun j => if j = s.next then 1 else s.cnt j,
                                   hand := s.next :: s.hand }
  /-- `packets[idx] = packet`. -/
  | store (s : St) (id : Nat) (h : id ∈ s.hand) : Step s { s with hand := s.hand.erase id, ring := id :: s.ring }
  /-- late packet outside the window: released by `Add`. -/
  | drop (s : St) (id : Nat) (h : id ∈ s.hand) : Step s (rel { s with hand := s.hand.erase id } id)
  /-- `prevPacket.Release(); packets[idx] = nil` in `Add` or `Clear`. -/
  | evict (s : St) (id : Nat) (h : id ∈ s.ring) : Step s (rel { s with ring := s.ring.erase id } id)
  /-- `Get` under the buffer lock: `Retain` succeeds only on a live packet. -/
  | get (s : St) (id : Nat) (h : id ∈ s.ring) (hc : s.cnt id ≠ 0) :
      Step s { s with cnt := fun j => if j = id then s.cnt id + 1 else s.cnt j, inflight := id :: s.inflight }
  /-- the downstream `Write` of a resend goroutine reads header and payload. -/
  | write (s : St) (id : Nat) (h : id ∈ s.inflight) : Step s s
  /-- `p.Release()` after the write. -/
  | release (s : St) (id : Nat) (h : id ∈ s.inflight) : Step s (rel { s with inflight := s.inflight.erase id } id)

inductive Reachable : St → Prop
  | init : Reachable init
  | step {s t : St} : Reachable s → Step s t → Reachable t

end Interceptor.RefMachine

/-
Model of pkg/rtpfb: convertTWCC (twcc_receiver.go), convertCCFB / convertMetricBlock
(ccfb_receiver.go), history (history.go) and Interceptor.processFeedback (interceptor.go),
transcribed from the code AFTER the fixes
  F-16 (bounds check of RecvDeltas[recvDeltaIndex] → feedback ignored),
  F-15 (decoding stops at PacketStatusCount),
  F-17 (reported packets are deleted from history.packets; IsTWCC recorded),
  F-18 (write lock; no sequential effect),
  F-40 (`acked`: buildReport reports nothing before the first packet has been acknowledged as
        arrived; `cleanBefore` sets `cleanUntil = counter`, no `counter - 1` on uint64).
Every Go index expression of the decoders is a checked access of the panic monad.
Times are Z-time `Int`s; Go's saturating `Time.Sub` / wrapping `int64` are unbounded except
for the one subtraction from `math.MaxInt64` in processFeedback, which wraps.
-/
import Interceptor.Base.Res
import Interceptor.Model.FeedbackTypes
namespace Interceptor.Rtpfb
open Interceptor Interceptor.Feedback

/-- `rtpfb.acknowledgement`. -/
structure RAck where
  seq : Nat
  arrived : Bool
  arrival : Int
  ecn : Nat
  deriving Repr, DecidableEq

/-- how a loop of `convertTWCC` ends: fell through (`cont`), `return acks`, or `return nil`;
`acks` are the acknowledgements appended by this loop. -/
inductive Out where
  | cont (acks : List RAck) (offset di : Nat) (ts : Int)
  | ret (acks : List RAck)
  | retNil
  deriving Repr

def Out.prepend (as : List RAck) : Out → Out
  | .cont bs o d t => .cont (as ++ bs) o d t
  | .ret bs => .ret (as ++ bs)
  | .retNil => .retNil

/-- body of both inner loops (one status symbol), then the remaining symbols. -/
def symLoop (fb : Twcc) : List Nat → Nat → Nat → Int → Res Out
  | [], offset, di, ts => .ok (.cont [] offset di ts)
  | s :: ss, offset, di, ts =>
    if offset ≥ fb.count then .ok (.ret [])                       -- F-15 fix
    else
      let seqNr := (fb.base + offset % 65536) % 65536
      if s = symNotReceived then do
        let r ← symLoop fb ss (offset + 1) di ts
        pure (r.prepend [⟨seqNr, false, 0, 0⟩])
      else if s = symSmall ∨ s = symLarge then
        if di ≥ fb.deltas.length then .ok .retNil                  -- F-16 fix
        else do
          let d ← idx "twcc_receiver.go: feedback.RecvDeltas[recvDeltaIndex]" fb.deltas di
          let ts' := ts + d * 1000
          let r ← symLoop fb ss (offset + 1) (di + 1) ts'
          pure (r.prepend [⟨seqNr, true, ts', 0⟩])
      else if s = symNoDelta then do
        let r ← symLoop fb ss (offset + 1) di ts
        pure (r.prepend [⟨seqNr, true, 0, 0⟩])
      else
        symLoop fb ss (offset + 1) di ts                            -- no case of the switch matches

/-- one iteration of the loop over `feedback.PacketChunks` (the type switch). -/
def chunkStep (fb : Twcc) (c : Chunk) (offset di : Nat) (ts : Int) : Res Out :=
  match c with
  | .rl sym run => symLoop fb (List.replicate run sym) offset di ts
  | .sv syms => symLoop fb syms offset di ts
  | .other => .ok (.cont [] offset di ts)

/-- the loop over `feedback.PacketChunks`. -/
def chunkLoop (fb : Twcc) : List Chunk → Nat → Nat → Int → Res Out
  | [], offset, di, ts => .ok (.cont [] offset di ts)
  | c :: cs, offset, di, ts => do
    let o ← chunkStep fb c offset di ts
    match o with
    | .cont as o' d' t' => do
      let r ← chunkLoop fb cs o' d' t'
      pure (r.prepend as)
    | .ret as => pure (.ret as)
    | .retNil => pure .retNil

/-- `convertTWCC`. -/
def convertTWCC (fb : Twcc) : Res (List RAck) := do
  match ← chunkLoop fb fb.chunks 0 0 (refTime fb.ref) with
  | .cont as _ _ _ => pure as
  | .ret as => pure as
  | .retNil => pure []

/-- checked element write `xs[i] = v`. -/
def setIdx {α} (site : String) (xs : List α) (i : Nat) (v : α) : Res (List α) :=
  if i < xs.length then .ok (xs.set i v) else .panic site

/-- loop of `convertMetricBlock`: (latestArrival, reports). -/
def metricLoop (ref : Int) (begin : Nat) : List Metric → Nat → Int → List RAck → Res (Int × List RAck)
  | [], _, latest, reports => .ok (latest, reports)
  | m :: ms, i, latest, reports =>
    let seq := (begin + i % 65536) % 65536
    if m.received then
      let arrival : Int := if m.ato ≠ 0x1FFF then ref - atoNs m.ato else 0
      let latest' := if m.ato ≠ 0x1FFF ∧ arrival > latest then arrival else latest
      do
        let reports' ← setIdx "ccfb_receiver.go: reports[i]" reports i ⟨seq, true, arrival, m.ecn⟩
        metricLoop ref begin ms (i + 1) latest' reports'
    else do
      let reports' ← setIdx "ccfb_receiver.go: reports[i]" reports i ⟨seq, false, 0, 0⟩
      metricLoop ref begin ms (i + 1) latest reports'

/-- `convertMetricBlock`. -/
def convertMetricBlock (ref : Int) (begin : Nat) (blocks : List Metric) : Res (Int × List RAck) :=
  metricLoop ref begin blocks 0 0 (List.replicate blocks.length ⟨0, false, 0, 0⟩)

/-- Go map assignment `m[k] = v` on an association list (replace or append). -/
def ainsert {κ ν} [BEq κ] (m : List (κ × ν)) (k : κ) (v : ν) : List (κ × ν) :=
  if m.any (·.1 == k) then m.map (fun e => if e.1 == k then (k, v) else e) else m ++ [(k, v)]

def alookup {κ ν} [BEq κ] (m : List (κ × ν)) (k : κ) : Option ν := (m.find? (·.1 == k)).map (·.2)

def aerase {κ ν} [BEq κ] (m : List (κ × ν)) (k : κ) : List (κ × ν) := m.filter (fun e => !(e.1 == k))

/-- report-block loop of `convertCCFB`: (result map, latestArrival, foundLatestArrival). -/
def blockLoop (ref : Int) : List Block → List (Nat × List RAck) → Int → Bool →
    Res (List (Nat × List RAck) × Int × Bool)
  | [], res, latest, found => .ok (res, latest, found)
  | b :: bs, res, latest, found => do
    let (la, acks) ← convertMetricBlock ref b.begin b.metrics
    let res' := ainsert res b.ssrc acks
    if la > latest then blockLoop ref bs res' la true else blockLoop ref bs res' latest found

/-- `convertCCFB`: (ackDelay, acks per SSRC). -/
def convertCCFB (fb : Ccfb) : Res (Int × List (Nat × List RAck)) := do
  let (res, latest, found) ← blockLoop fb.ref fb.blocks [] 0 false
  pure (if found then fb.ref - latest else 0, res)

/-! ### history -/

/-- `rtpfb.PacketReport`. -/
structure PR where
  ssrc : Nat
  ctr : Nat
  rtpSeq : Nat
  isTwcc : Bool
  twSeq : Nat
  size : Int
  arrived : Bool
  dep : Int
  arr : Int
  ecn : Nat
  deriving Repr, DecidableEq

structure Hist where
  counter : Nat := 0
  twcc : List (Nat × Nat) := []
  ss : List ((Nat × Nat) × Nat) := []
  packets : List (Nat × PR) := []
  acked : Bool := false
  highestAcked : Nat := 0
  nextReport : Nat := 0
  cleanUntil : Nat := 0
  deriving Repr

/-- `history.addOutgoing`. -/
def addOutgoing (h : Hist) (ssrc rtpSeq : Nat) (isTwcc : Bool) (twSeq : Nat) (size dep : Int) : Hist :=
  { h with
    twcc := if isTwcc then ainsert h.twcc twSeq h.counter else h.twcc
    ss := if isTwcc then h.ss else ainsert h.ss (ssrc, rtpSeq) h.counter
    packets := ainsert h.packets h.counter ⟨ssrc, h.counter, rtpSeq, isTwcc, twSeq, size, false, dep, 0, 0⟩
    counter := h.counter + 1 }

/-- `history.onFeedback`: (state, Some rtt when the packet is known). -/
def onFeedback (h : Hist) (ts : Int) (counter : Nat) (a : RAck) : Hist × Option Int :=
  match alookup h.packets counter with
  | none => (h, none)
  | some p =>
    let p' := { p with arrived := a.arrived, arr := a.arrival, ecn := a.ecn }
    ({ h with packets := ainsert h.packets counter p'
              acked := h.acked || a.arrived
              highestAcked := if a.arrived ∧ h.highestAcked < p.ctr then p.ctr else h.highestAcked },
     some (ts - p.dep))

/-- `history.onTWCCFeedback`. -/
def onTWCCFeedback (h : Hist) (ts : Int) (a : RAck) : Hist × Option Int :=
  match alookup h.twcc a.seq with
  | none => (h, none)
  | some c => onFeedback h ts c a

/-- `history.onCCFBFeedback`. -/
def onCCFBFeedback (h : Hist) (ts : Int) (ssrc : Nat) (a : RAck) : Hist × Option Int :=
  match alookup h.ss (ssrc, a.seq) with
  | none => (h, none)
  | some c => onFeedback h ts c a

/-- `history.delete`. -/
def delete (h : Hist) (p : PR) : Hist :=
  { h with
    twcc := if p.isTwcc then aerase h.twcc p.twSeq else h.twcc
    ss := aerase h.ss (p.ssrc, p.rtpSeq)
    packets := aerase h.packets p.ctr }

/-- loop of `buildReport` over the counters `is`. -/
def reportLoop : List Nat → Hist → List PR → Hist × List PR
  | [], h, acc => (h, acc.reverse)
  | i :: is, h, acc =>
    match alookup h.packets i with
    | none => reportLoop is h acc
    | some p =>
      let h1 := delete h p
      let h2 := if p.ctr ≥ h1.nextReport then { h1 with nextReport := p.ctr + 1 } else h1
      reportLoop is h2 (p :: acc)

/-- body of the loop of `history.cleanBefore`. -/
def cleanStep (h : Hist) (i : Nat) : Hist :=
  match alookup h.packets i with
  | some p => delete h p
  | none => h

/-- `history.cleanBefore`. -/
def cleanBefore (h : Hist) (counter : Nat) : Hist :=
  let h' := (List.range' h.cleanUntil (counter - h.cleanUntil)).foldl cleanStep h
  { h' with cleanUntil := counter }

/-- `history.buildReport` (`!h.acked || h.nextReport > h.highestAcked` → nil: F-40 fix). -/
def buildReport (h : Hist) : Hist × List PR :=
  if h.acked = false ∨ h.nextReport > h.highestAcked then (h, [])
  else
    let (h1, res) := reportLoop (List.range' h.nextReport (h.highestAcked + 1 - h.nextReport)) h []
    (cleanBefore h1 h1.nextReport, res)

/-! ### Interceptor.processFeedback -/

inductive Pkt where
  | twcc (fb : Twcc)
  | ccfb (fb : Ccfb)
  | other                -- any other rtcp.Packet (receiver report, PLI, …): no case of the type switch

def maxInt64 : Int := 2 ^ 63 - 1
def wrap64 (x : Int) : Int := (x + 2 ^ 63) % 2 ^ 64 - 2 ^ 63

def applyTwccAcks (ts : Int) : List RAck → Hist → Int → Hist × Int
  | [], h, sh => (h, sh)
  | a :: as, h, sh =>
    match onTWCCFeedback h ts a with
    | (h', some rtt) => applyTwccAcks ts as h' (if rtt < sh then rtt else sh)
    | (h', none) => applyTwccAcks ts as h' sh

def applyCcfbAcks (ts : Int) (ssrc : Nat) : List RAck → Hist → Int → Hist × Int
  | [], h, sh => (h, sh)
  | a :: as, h, sh =>
    match onCCFBFeedback h ts ssrc a with
    | (h', some rtt) => applyCcfbAcks ts ssrc as h' (if rtt < sh then rtt else sh)
    | (h', none) => applyCcfbAcks ts ssrc as h' sh

/-- the packet loop of `processFeedback`: (history, shortestRTT, ackDelay). -/
def pktLoop (ts : Int) : List Pkt → Hist → Int → Int → Res (Hist × Int × Int)
  | [], h, sh, ad => .ok (h, sh, ad)
  | .twcc fb :: ps, h, sh, ad => do
    let acks ← convertTWCC fb
    let (h', sh') := applyTwccAcks ts acks h sh
    pktLoop ts ps h' sh' ad
  | .ccfb fb :: ps, h, sh, _ => do
    let (ad', perSsrc) ← convertCCFB fb
    -- Go iterates the map in unspecified order; distinct SSRCs touch distinct packets and
    -- min / max commute, so the order is unobservable
    let (h', sh') := perSsrc.foldl (fun (acc : Hist × Int) e => applyCcfbAcks ts e.1 e.2 acc.1 acc.2) (h, sh)
    pktLoop ts ps h' sh' ad'
  | .other :: ps, h, sh, ad => pktLoop ts ps h sh ad

/-- `processFeedback`: (history, rtt, reports). -/
def processFeedback (h : Hist) (ts : Int) (pkts : List Pkt) : Res (Hist × Int × List PR) := do
  let (h1, sh, ad) ← pktLoop ts pkts h maxInt64 0
  let (h2, prs) := buildReport h1
  pure (h2, wrap64 (sh - ad), prs)

end Interceptor.Rtpfb

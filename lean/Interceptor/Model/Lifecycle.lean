/-
Parametric lifecycle skeleton of an interceptor (C11).  One transition system, instantiated per
interceptor by a parameter record; the parameters are the facts the translator regenerates from
the source (Gen/LifecycleFacts.lean) and that the correspondence harness observes.

Time is virtual milliseconds.  An API call either returns or stays blocked; blocked calls are
released by the event that the code waits for (loop start or close).
-/
namespace Interceptor.Lifecycle

/-- what the periodic tick reports about. -/
inductive EmitRule where
  | none          -- no periodic RTCP of its own (or data dependent: not predicted)
  | remoteBound   -- one report per bound remote stream (receiver reports, interval PLI)
  | localBound    -- one report per bound local stream (sender reports)
  | remoteGap     -- bound remote streams with a gap in what was read (NACK generator)
  deriving DecidableEq, Repr

structure Params where
  /-- BindRTCPWriter starts a ticker goroutine (tracked by a WaitGroup; Close waits for it). -/
  hasLoop : Bool
  interval : Nat := 10
  emits : EmitRule := .none
  /-- BindRemoteStream asks the loop for an immediate report through a pending queue and a
  non-blocking wake-up (interval PLI). -/
  immediateOnBind : Bool := false
  /-- every RTP read hands the packet to the loop over an unbuffered channel, selecting on close
  (twcc sender, rfc8888): without a loop the read waits for Close. -/
  readHandoff : Bool := false
  /-- every NACK read starts a (tracked) retransmission goroutine (NACK responder). -/
  resendsOnNack : Bool := false
  deriving Repr

/-- a call that did not return when it was issued. -/
inductive Waiting where
  | handoff            -- a read waiting for the loop (or close)
  | forcePLI (s : Nat) -- a BindRemoteStream waiting to queue its immediate PLI
  deriving DecidableEq, Repr

structure St where
  p : Params
  now : Nat := 0
  loopStart : Option Nat := none
  closed : Bool := false
  remote : List Nat := []        -- currently bound remote SSRCs
  loc : List Nat := []           -- currently bound local SSRCs
  readers : List Nat := []       -- SSRCs for which the harness holds a reader wrapper
  writers : List Nat := []
  hasRtcpReader : Bool := false
  reads : List (Nat × Nat) := [] -- reads since the last bind, per remote SSRC
  queued : List Nat := []        -- immediate-PLI requests not yet served (no loop yet)
  waiting : List Waiting := []
  emitted : List Nat := []       -- media SSRCs mentioned since the last flush
  blocked : Nat := 0
  written : List Nat := []       -- local SSRCs with at least one write since the case started
  loops : List Nat := []         -- start times of all loop goroutines (a second BindRTCPWriter starts a second one)
  deriving Repr

def insertSorted (x : Nat) : List Nat → List Nat
  | [] => [x]
  | y :: ys => if x < y then x :: y :: ys else if x = y then y :: ys else y :: insertSorted x ys

def addAll (xs : List Nat) (acc : List Nat) : List Nat := xs.foldl (fun a x => insertSorted x a) acc

def loopRunning (s : St) : Bool := s.loopStart.isSome && !s.closed

def readsOf (s : St) (ssrc : Nat) : Nat := ((s.reads.find? (·.1 == ssrc)).map (·.2)).getD 0

def setReads (s : St) (ssrc n : Nat) : St :=
  { s with reads := (ssrc, n) :: s.reads.filter (·.1 != ssrc) }

/-- outcome of an API call. -/
inductive Outcome where
  | ret | blocked | unbound
  deriving DecidableEq, Repr

def note (s : St) (o : Outcome) : St := if o = .blocked then { s with blocked := s.blocked + 1 } else s

/-- BindRTCPWriter. -/
def bindW (s : St) : St × Outcome :=
  if s.closed || !s.p.hasLoop then (s, .ret) else
  -- a (further) loop goroutine starts: it drains the queue and releases everybody waiting for a loop
  let fromQueue := s.queued
  let fromWaiting := s.waiting.filterMap fun w => match w with | .forcePLI x => some x | .handoff => none
  let boundNow := s.waiting.filterMap fun w => match w with | .forcePLI x => some x | .handoff => none
  ({ s with loopStart := some (s.loopStart.getD s.now), loops := s.loops ++ [s.now], queued := [], waiting := [],
            readers := addAll boundNow s.readers,
            emitted := addAll (fromQueue ++ fromWaiting) s.emitted }, .ret)

def bindRemote (s : St) (ssrc : Nat) : St × Outcome :=
  let s := setReads { s with remote := insertSorted ssrc s.remote, readers := insertSorted ssrc s.readers } ssrc 0
  if !s.p.immediateOnBind then (s, .ret) else
  if s.closed then (s, .ret) else                 -- requests after Close are dropped
  if s.loopStart.isSome then
    ({ s with emitted := insertSorted ssrc s.emitted }, .ret)
  else
    -- no loop yet: the request is queued (never blocks) and served when a loop starts
    ({ s with queued := s.queued ++ [ssrc] }, .ret)

def bindLocal (s : St) (ssrc : Nat) : St × Outcome :=
  ({ s with loc := insertSorted ssrc s.loc, writers := insertSorted ssrc s.writers }, .ret)

def unbindRemote (s : St) (ssrc : Nat) : St × Outcome :=
  ({ s with remote := s.remote.filter (· != ssrc) }, .ret)

def unbindLocal (s : St) (ssrc : Nat) : St × Outcome :=
  ({ s with loc := s.loc.filter (· != ssrc) }, .ret)

def write (s : St) (ssrc : Nat) : St × Outcome :=
  if s.writers.contains ssrc then ({ s with written := insertSorted ssrc s.written }, .ret) else (s, .unbound)

def read (s : St) (ssrc : Nat) : St × Outcome :=
  if !s.readers.contains ssrc then (s, .unbound) else
  let s := setReads s ssrc (readsOf s ssrc + 1)
  if s.p.readHandoff && !s.closed && s.loopStart.isNone then
    ({ s with waiting := s.waiting ++ [.handoff] }, .blocked)
  else (s, .ret)

def rtcpRead (s : St) : St × Outcome := if s.hasRtcpReader then (s, .ret) else (s, .unbound)

/-- Close: the loop stops, everybody waiting is released. -/
def close (s : St) : St × Outcome :=
  let released := s.waiting.filterMap fun w => match w with | .forcePLI x => some x | .handoff => none
  ({ s with closed := true, waiting := [], readers := addAll released s.readers }, .ret)

/-- the SSRCs a tick reports about. -/
def tickSet (s : St) : List Nat :=
  match s.p.emits with
  | .none => []
  | .remoteBound => s.remote
  | .localBound => s.loc
  | .remoteGap => s.remote.filter fun x => readsOf s x ≥ 2

/-- number of ticks in the half-open interval (now, now+ms]. -/
def ticksIn (s : St) (ms : Nat) : Nat :=
  if s.closed then 0 else
  (s.loops.map fun t0 => (s.now + ms - t0) / s.p.interval - (s.now - t0) / s.p.interval).sum

def advance (s : St) (ms : Nat) : St :=
  let e := if ticksIn s ms > 0 then addAll (tickSet s) s.emitted else s.emitted
  { s with now := s.now + ms, emitted := e }

def flush (s : St) : St × List Nat := ({ s with emitted := [] }, s.emitted)

end Interceptor.Lifecycle

/-
Model of chain.go / registry.go / noop.go / errors.go and of the RTP/RTCP reader and writer
wrappers returned by the `Bind*` methods of the non-buffering interceptors (C01).

Generic part (any packet type `π`, any world `ω`):
* a writer wrapper is a pure function over the explicit world state: on one packet it either
  rejects (returns `(0, err)` without calling the next writer) or passes a packet on and then
  writes a list of packets of its own (FEC) to the next writer;
* `writeVia` runs a packet through the wrappers exactly as the closures built by
  `Chain.BindLocalStream` / `BindRTCPWriter` nest (the list is outermost first, i.e. the reverse
  of `Chain.interceptors`); the bottom writer is a parameter that may fail at any call;
* a reader wrapper maps the inner reader's result to its own result; `readVia` folds them
  innermost first, as `Chain.BindRemoteStream` / `BindRTCPReader` do;
* `flattenErrs` / `multiError.Is` on lists; `Registry.Build`.

Concrete part: one wrapper model per interceptor (`localWrap`, `remoteWrap`, `rtcpReadWrap`,
`rtcpWriteWrap`), 5–15 lines each, transcribed from the `Bind*` closures.
-/
import Interceptor.Base.RtpHeader
namespace Interceptor.Chain
open Interceptor.Rtp

/-! ## generic: writers -/

/-- what a writer wrapper does with one packet. -/
inductive Act (π ε : Type) where
  /-- `return 0, err` without calling the next writer -/
  | reject (e : ε)
  /-- `writer.Write(p, …)`, then `writer.Write(q, …)` for each `q` of `after`; returns the
  result of the first call, its error joined with the errors of the others -/
  | pass (p : π) (after : List π)

/-- a writer wrapper over world `ω`. -/
abbrev Wrapper (ω π ε : Type) := ω → π → ω × Act π ε

/-- result of a Write: `n` and the list of errors joined (`[]` = nil). -/
abbrev Ret (ε : Type) := Int × List ε

/-- who produced a packet seen at the bottom. -/
inductive Tag where
  | app | inj
  deriving DecidableEq, Repr

/-- run one packet through the wrappers (outermost first) down to the bottom writer.
`bottom k p` is the result of the `k`-th call of the bottom writer (any fault schedule).
Returns the new world, the calls made to the bottom writer in order, and the result. -/
def writeVia {ω π ε : Type} (bottom : Nat → π → Ret ε) :
    List (Wrapper ω π ε) → Tag → π → ω → Nat → ω × List (Tag × π) × Ret ε
  | [], tag, p, w, k => (w, [(tag, p)], bottom k p)
  | m :: inner, tag, p, w, k =>
    match m w p with
    | (w1, .reject e) => (w1, [], (0, [e]))
    | (w1, .pass p' after) =>
      let r1 := writeVia bottom inner tag p' w1 k
      let r2 := after.foldl
        (fun (acc : ω × List (Tag × π) × List ε) q =>
          let r := writeVia bottom inner .inj q acc.1 (k + acc.2.1.length)
          (r.1, acc.2.1 ++ r.2.1, acc.2.2 ++ r.2.2.2))
        (r1.1, r1.2.1, r1.2.2.2)
      (r2.1, r2.2.1, (r1.2.2.1, r2.2.2))

/-- the application packets among the bottom calls. -/
def appCalls {π : Type} (calls : List (Tag × π)) : List π :=
  (calls.filter (·.1 = .app)).map (·.2)

/-- a sequence of application writes through the chain. -/
def writeAll {ω π ε : Type} (bottom : Nat → π → Ret ε) (ms : List (Wrapper ω π ε)) :
    List π → ω → Nat → ω × List (Tag × π) × List (Ret ε)
  | [], w, _ => (w, [], [])
  | p :: ps, w, k =>
    let r := writeVia bottom ms .app p w k
    let rest := writeAll bottom ms ps r.1 (k + r.2.1.length)
    (rest.1, r.2.1 ++ rest.2.1, r.2.2 :: rest.2.2)

/-! ## generic: readers -/

/-- result of a Read: `n`, the bytes, or `n` and an error. -/
inductive ReadRes (β ε : Type) where
  | ok (n : Int) (b : β)
  | err (n : Int) (e : ε)
  deriving DecidableEq, Repr

abbrev RWrapper (ω β ε : Type) := ω → ReadRes β ε → ω × ReadRes β ε

/-- wrappers innermost first (= the order of `Chain.interceptors`). -/
def readVia {ω β ε : Type} (ms : List (RWrapper ω β ε)) (w : ω) (r : ReadRes β ε) : ω × ReadRes β ε :=
  ms.foldl (fun acc m => m acc.1 acc.2) (w, r)

/-! ## errors.go -/

/-- errors as `Chain.Close` sees them: sentinels, `fmt.Errorf("%w")` wrappers, nested `multiError`s. -/
inductive CErr where
  | sentinel (k : Nat)
  | wrapped (e : CErr)
  | multi (es : List CErr)
  deriving Repr

mutual
/-- `errors.Is(e, sentinel k)` (with `multiError.Is`). -/
def CErr.is : CErr → Nat → Bool
  | .sentinel j, k => j == k
  | .wrapped e, k => e.is k
  | .multi es, k => CErr.isAny es k
def CErr.isAny : List CErr → Nat → Bool
  | [], _ => false
  | e :: es, k => e.is k || CErr.isAny es k
end

/-- `flattenErrs`: drop the nils; nil if nothing is left, else a `multiError`. -/
def flattenErrs (errs : List (Option CErr)) : Option CErr :=
  match errs.filterMap id with
  | [] => none
  | es => some (.multi es)

/-- `Chain.Close`: every member's Close, in order, on the world; errors flattened. -/
def closeAll {ω : Type} (ms : List (ω → ω × Option CErr)) (w : ω) : ω × Option CErr :=
  let r := ms.foldl (fun (acc : ω × List (Option CErr)) c => let x := c acc.1; (x.1, acc.2 ++ [x.2])) (w, [])
  (r.1, flattenErrs r.2)

/-- `Chain.Unbind*Stream`: every member's Unbind, in order. -/
def unbindAll {ω : Type} (ms : List (ω → ω)) (w : ω) : ω := ms.foldl (fun acc u => u acc) w

/-- `Registry.Build`: `none` = a factory failed; `some []` stands for `&NoOp{}`. -/
def registryBuild {ι : Type} (factories : List (Option ι)) : Option (List ι) :=
  factories.mapM id

/-! ## concrete wrappers -/

/-- an RTP packet as the writers see it (`app` is model-level provenance, invisible to the code). -/
structure Pkt where
  hdr : Header
  payload : Bytes
  app : Bool := true
  deriving DecidableEq, Repr

inductive WErr where
  | bottom | shortbuf | padoverflow | unknownstream | ccnoext
  | ext (e : ExtErr)
  | parse | twccext
  deriving DecidableEq, Repr

/-- the members of a chain. -/
inductive Kind where
  | noop | nackgen | nackresp | rr | sr | twccsend | hdrext | rfc8888 | rtpfb | stats
  | pdsend | pdrecv | pli | cc
  | fec (nm nf : Nat)
  | mock (closeErr : Option CErr)
  deriving Repr

/-- the fields of `StreamInfo` the wrappers look at. -/
structure StreamCfg where
  ssrc : Nat
  nack : Bool := false
  rtx : Bool := false
  fec : Bool := false
  fecSsrc : Nat := 0
  fecPt : Nat := 0
  twId : Nat := 0
  pli : Bool := false
  deriving DecidableEq, Repr

/-- per-mock counters. -/
structure MockCnt where
  close : Nat := 0
  bindL : Nat := 0
  bindR : Nat := 0
  unbindL : Nat := 0
  unbindR : Nat := 0
  bindCW : Nat := 0
  bindCR : Nat := 0
  seenW : Nat := 0
  seenR : Nat := 0
  seenCW : Nat := 0
  seenCR : Nat := 0
  deriving DecidableEq, Repr

/-- the explicit state of all members (`idx` = position in `Chain.interceptors`). -/
structure World where
  /-- flexfec: (member, media ssrc) ↦ (sequence number, does `Packet.MarshalTo` succeed) of the open batch -/
  fecBatch : List ((Nat × Nat) × List (Nat × Bool)) := []
  /-- cc: member ↦ ssrcs added to the pacer -/
  ccBound : List (Nat × List Nat) := []
  mocks : List (Nat × MockCnt) := []
  deriving Repr

def World.mock (w : World) (i : Nat) : MockCnt := (w.mocks.lookup i).getD {}
def World.setMock (w : World) (i : Nat) (f : MockCnt → MockCnt) : World :=
  { w with mocks := (i, f (w.mock i)) :: w.mocks.filter (·.1 != i) }

def consecutiveSeqs : List Nat → Bool
  | a :: b :: rest => (b == (a + 1) % 65536) && consecutiveSeqs (b :: rest)
  | _ => true

/-- `rtp.Packet.MarshalTo` succeeds (the FlexFEC encoder drops a repair packet if one of the
media packets it covers does not marshal). -/
def packetMarshals (p : Pkt) : Bool :=
  !(p.hdr.padding && p.hdr.paddingSize == 0) && (marshal p.hdr).isSome

/-- number of repair packets `EncodeFec` returns for a full batch: none unless the sequence numbers
are consecutive; repair packet `j` covers the media packets `i ≡ j (mod nf)` and is dropped if
one of them does not marshal. -/
def fecCount (batch : List (Nat × Bool)) (nf : Nat) : Nat :=
  if consecutiveSeqs (batch.map (·.1)) then
    ((List.range nf).filter fun j =>
      decide (j < batch.length) &&
      ((List.range batch.length).all fun i => i % nf != j || (batch.getD i (0, true)).2)).length
  else 0

/-- `PacketFactoryCopy.NewPacket` fails? (`some e`), as called by the NACK responder. -/
def responderRejects (cfg : StreamCfg) (p : Pkt) : Option WErr :=
  if p.payload.length > 1460 then some .shortbuf
  else if cfg.rtx ∧ p.hdr.padding ∧ p.hdr.paddingSize = 0 ∧ p.payload ≠ [] then
    -- RTX form (after the fixes F-05 and 818a065): the whole payload is kept behind the 2-byte OSN prefix; the
    -- padding count is the last byte of the ORIGINAL payload and may cover at most that payload
    if p.payload.getLast?.getD 0 > p.payload.length then some .padoverflow else none
  else none

/-- has the header a well-formed transport-cc element under `id`? -/
def validTwcc (h : Header) (id : Nat) : Bool :=
  match getExtension h id with
  | some b => decide (b.length ≥ 2)
  | none => false

/-- the RTP writer wrapper returned by member `idx` of kind `k` from `BindLocalStream(cfg, ·)`.
Members whose `BindLocalStream` returns the writer itself are the identity wrapper. -/
def localWrap (idx : Nat) (k : Kind) (cfg : StreamCfg) : Wrapper World Pkt WErr := fun w p =>
  match k with
  | .nackresp =>
    if !cfg.nack ∨ p.hdr.ssrc ≠ cfg.ssrc then (w, .pass p [])
    else match responderRejects cfg p with
      | some e => (w, .reject e)
      | none => (w, .pass p [])
  | .hdrext =>
    if cfg.twId = 0 then (w, .pass p [])
    else match setExtension p.hdr cfg.twId [0, 0] with   -- the number itself is masked (C15 covers it)
      | .error e => (w, .reject (.ext e))
      | .ok h' => (w, .pass { p with hdr := h' } [])
  | .fec nm nf =>
    if !cfg.fec ∨ p.hdr.ssrc ≠ cfg.ssrc then (w, .pass p [])
    else
      let batch := ((w.fecBatch.lookup (idx, cfg.ssrc)).getD []) ++ [(p.hdr.seq, packetMarshals p)]
      let rest := w.fecBatch.filter (·.1 != (idx, cfg.ssrc))
      if batch.length = nm then
        let n := fecCount batch nf
        let fecPkt : Pkt := { hdr := { ssrc := cfg.fecSsrc, pt := cfg.fecPt }, payload := [], app := false }
        ({ w with fecBatch := ((idx, cfg.ssrc), []) :: rest }, .pass p (List.replicate n fecPkt))
      else ({ w with fecBatch := ((idx, cfg.ssrc), batch) :: rest }, .pass p [])
  | .cc =>
    if !((w.ccBound.lookup idx).getD []).contains p.hdr.ssrc then (w, .reject .unknownstream)
    else if cfg.twId ≠ 0 ∧ !validTwcc p.hdr cfg.twId then (w, .reject .ccnoext)
    else (w, .pass p [])
  | .mock _ =>
    (if p.app then w.setMock idx (fun c => { c with seenW := c.seenW + 1 }) else w, .pass p [])
  | _ => (w, .pass p [])   -- sr, rtpfb, stats, pdsend record and forward; the others do not wrap

/-- a packet as the readers see it: the wire bytes and what pion/rtp's parser says about them. -/
structure RPkt where
  bytes : Bytes
  /-- `Header.Unmarshal(bytes)` succeeds -/
  parses : Bool
  /-- the parsed header (meaningful if `parses`) -/
  hdr : Header := {}
  deriving DecidableEq, Repr

/-- the RTP reader wrapper returned by member `idx` from `BindRemoteStream(cfg, ·)`. -/
def remoteWrap (idx : Nat) (k : Kind) (cfg : StreamCfg) : RWrapper World RPkt WErr := fun w r =>
  let parsing : ReadRes RPkt WErr → ReadRes RPkt WErr := fun r =>
    match r with
    | .err _ e => .err 0 e
    | .ok n b => if b.parses then .ok n b else .err 0 .parse
  match k with
  | .nackgen => if cfg.nack then (w, parsing r) else (w, r)
  | .rr | .rfc8888 | .pdrecv => (w, parsing r)
  | .twccsend =>
    if cfg.twId = 0 then (w, r) else
    match parsing r with
    | .ok n b =>
      match getExtension b.hdr cfg.twId with
      | some e => if e.length < 2 then (w, .err 0 .twccext) else (w, .ok n b)
      | none => (w, .ok n b)
    | e => (w, e)
  | .stats =>
    match r with
    | .err _ e => (w, .err 0 e)
    | r => (w, r)
  | .mock _ =>
    match r with
    | .ok n b => (w.setMock idx (fun c => { c with seenR := c.seenR + 1 }), .ok n b)
    | r => (w, r)
  | _ => (w, r)

/-- an RTCP compound as the readers see it. -/
structure CPkt where
  bytes : Bytes
  /-- `rtcp.Unmarshal(bytes)` succeeds -/
  parses : Bool
  deriving DecidableEq, Repr

/-- the RTCP reader wrapper returned by `BindRTCPReader`. -/
def rtcpReadWrap (idx : Nat) (k : Kind) : RWrapper World CPkt WErr := fun w r =>
  let parsing : ReadRes CPkt WErr → ReadRes CPkt WErr := fun r =>
    match r with
    | .err _ e => .err 0 e
    | .ok n b => if b.parses then .ok n b else .err 0 .parse
  match k with
  | .nackresp | .rr | .pdrecv | .cc => (w, parsing r)
  | .rtpfb =>      -- returns `n, attr, err`: keeps n on both error paths
    match r with
    | .ok n b => if b.parses then (w, .ok n b) else (w, .err n .parse)
    | r => (w, r)
  | .stats =>
    match r with
    | .err _ e => (w, .err 0 e)
    | r => (w, r)
  | .mock _ =>
    match r with
    | .ok n b => (w.setMock idx (fun c => { c with seenCR := c.seenCR + 1 }), .ok n b)
    | r => (w, r)
  | _ => (w, r)

/-- the RTCP writer wrapper returned by `BindRTCPWriter` (packets are opaque: marshalled bytes). -/
def rtcpWriteWrap (idx : Nat) (k : Kind) : Wrapper World (Bytes × Bool) WErr := fun w p =>
  match k with
  | .mock _ => (if p.2 then w.setMock idx (fun c => { c with seenCW := c.seenCW + 1 }) else w, .pass p [])
  | _ => (w, .pass p [])   -- stats and pdsend record and forward; the others return the writer itself

/-- `Close` of member `idx`. -/
def closeOf (idx : Nat) (k : Kind) : World → World × Option CErr := fun w =>
  match k with
  | .mock e => (w.setMock idx (fun c => { c with close := c.close + 1 }), e)
  | _ => (w, none)

/-- wire form of a packet handed to the readers: header, payload, RFC 3550 padding. -/
def wire (h : Header) (payload : Bytes) : Option Bytes :=
  (marshal h).map fun hb =>
    hb ++ payload ++ (if h.padding ∧ h.paddingSize > 0 then List.replicate (h.paddingSize - 1) 0 ++ [h.paddingSize % 256] else [])

end Interceptor.Chain

/-
The stream filter shared by the NACK generator and the NACK responder (pkg/nack/nack.go,
`streamSupportNack`): a stream is bound exactly when its StreamInfo lists the feedback
`{Type: "nack", Parameter: ""}` SOMEWHERE in `RTCPFeedback` — whatever stands before or after it
(`{nack, pli}`, `{goog-remb}`, `{transport-cc}`, a second `{nack}` …).

Op lines name a feedback list by a decimal code (`fbl=<code>`): one digit per entry, first entry
first; `0` alone is the empty list.  The digits are a fixed alphabet of entries and near-duplicates.
-/
namespace Interceptor.StreamFilter

/-- one `interceptor.RTCPFeedback`: (Type, Parameter). -/
abbrev Feedback := String × String

/-- `streamSupportNack`, branch by branch: the loop returns true at the first entry that is a plain `nack`. -/
def streamSupportNack : List Feedback → Bool
  | [] => false
  | fb :: rest => if fb.1 == "nack" && fb.2 == "" then true else streamSupportNack rest

/-- the alphabet of the op-line code. -/
def entryOfDigit : Nat → Option Feedback
  | 1 => some ("nack", "")
  | 2 => some ("nack", "pli")
  | 3 => some ("goog-remb", "")
  | 4 => some ("transport-cc", "")
  | 5 => some ("ccm", "fir")
  | 6 => some ("nack", "rpsi")
  | 7 => some ("NACK", "")
  | 8 => some ("", "nack")
  | 9 => some ("nack ", "")
  | _ => none

/-- decimal digits of `n`, most significant first (`fuel` bounds the length). -/
def digits (n : Nat) : List Nat :=
  (Nat.toDigits 10 n).map fun c => c.toNat - '0'.toNat

/-- the feedback list a code stands for; `none` for a code with a digit 0 inside. -/
def feedbackOfCode (code : Nat) : Option (List Feedback) :=
  if code == 0 then some [] else (digits code).mapM entryOfDigit

/-- is a stream whose StreamInfo carries the list `code` bound by generator / responder? -/
def boundByCode (code : Nat) : Option Bool := (feedbackOfCode code).map streamSupportNack

/-- the rule in one line: bound iff a plain `nack` entry is present. -/
theorem streamSupportNack_iff (l : List Feedback) :
    streamSupportNack l = true ↔ ("nack", "") ∈ l := by
  induction l with
  | nil => simp [streamSupportNack]
  | cons fb rest ih =>
    obtain ⟨a, b⟩ := fb
    by_cases h : (a == "nack" && b == "") = true
    · have h' := h
      simp only [Bool.and_eq_true, beq_iff_eq] at h'
      simp [streamSupportNack, h'.1, h'.2]
    · have hne : ¬ (("nack", "") : Feedback) = (a, b) := by
        intro he
        apply h
        have h1 : a = "nack" := (congrArg Prod.fst he).symm
        have h2 : b = "" := (congrArg Prod.snd he).symm
        simp [h1, h2]
      simp only [streamSupportNack, h, Bool.false_eq_true, if_false, ih, List.mem_cons, hne, false_or]

/-- order does not matter. -/
theorem streamSupportNack_perm {l₁ l₂ : List Feedback} (h : l₁.Perm l₂) :
    streamSupportNack l₁ = streamSupportNack l₂ := by
  have := streamSupportNack_iff l₁
  have := streamSupportNack_iff l₂
  have hm : ("nack", "") ∈ l₁ ↔ (("nack", "") : Feedback) ∈ l₂ := h.mem_iff
  cases h1 : streamSupportNack l₁ <;> cases h2 : streamSupportNack l₂ <;> simp_all

example : boundByCode 3521 = some true := by decide
example : boundByCode 21 = some true := by decide
example : boundByCode 2 = some false := by decide
example : boundByCode 7896 = some false := by decide
example : boundByCode 0 = some false := by decide
example : boundByCode 101 = none := by decide

end Interceptor.StreamFilter

/-
C13 — the world with a heap of caller-owned buffers, and interceptors that keep either a
*copy* of what they were handed or an *alias* into the caller's memory.

* `Heap = BufId → Bytes`: the caller's memory.  A header object is a record of scalars plus
  slice-typed fields (CSRC list, one payload per extension element); the slice-typed fields, the
  payload / read buffer and the attributes map live in the heap under the ids the call names.
* `Call`: the *contents* of one call into the interceptor (`w`rite, `r`ead, RTCP read/write,
  time passing, `flush` = the interceptor's goroutines get to run, …).
* `Op`: what the caller does: `call ids c` — it puts the contents `c` into its buffers `ids` and
  calls; `scribble id b` — it overwrites one of its buffers (any time after a call returned).
* `Machine`: the interceptor's logic as a function of the *contents* it has been handed
  (state, step, emissions); it never sees a buffer id.
* `Policy`: per kind of caller memory, whether the storing sites of the interceptor copy
  (`true`) or alias (`false`) — as the regenerated retention facts say (`Facts/C13.lean`).
* `step`: the interceptor logs what it was handed as `Val`s (`copy bytes` / `alias id`, per
  policy); whatever it emits is computed from the log **resolved against the heap at emission
  time** — "emissions read through aliases at emission time".  The model performs no heap write
  of its own: the heap after a call is the heap the caller set up (`no_write_to_caller`).

Core Lean only (linked into the driver).
-/
import Interceptor.Base.RtpHeader
namespace Interceptor.Alias
open Interceptor.Rtp

abbrev BufId := Nat
abbrev Heap := BufId → Bytes

def Heap.set (h : Heap) (id : BufId) (b : Bytes) : Heap := fun i => if i = id then b else h i

/-- a value kept by an interceptor. -/
inductive Val where
  | copy (b : Bytes)
  | alias (id : BufId)
  deriving Repr, DecidableEq

def Val.read (h : Heap) : Val → Bytes
  | .copy b => b
  | .alias id => h id

def Val.isCopy : Val → Bool
  | .copy _ => true
  | .alias _ => false

/-- what kind of call this is; all packet-derived data is in the other fields of `Call`. -/
inductive Kind where
  | w | r | nack | ack | cr | cw | adv (us : Nat) | get | close | flush
  deriving Repr, DecidableEq

/-- contents of one call.  `hdr`: header (scalars, CSRC, extension payloads); `pl`: the payload
(`w`), the payload part of the read buffer (`r`), the contents of the read buffer in parsed form
(`nack`, `ack`, `cr`) or of the RTCP packet slice (`cw`); `att`: the attributes, flattened. -/
structure Call where
  kind : Kind
  hdr : Header := {}
  pl : Bytes := []
  att : Bytes := []
  deriving Repr, DecidableEq

/-- the caller's buffers named by a call: payload / read buffer / packet slice, CSRC array,
attributes map, and the first of the consecutive ids of the extension payloads. -/
structure Ids where
  pl : BufId
  csrc : BufId
  att : BufId
  ext : BufId
  deriving Repr, DecidableEq

/-- `true` = every storing site for this kind of memory copies. -/
structure Policy where
  payload : Bool
  csrc : Bool
  ext : Bool
  att : Bool
  deriving Repr, DecidableEq

def Policy.copyAll : Policy := ⟨true, true, true, true⟩
def Policy.allCopy (p : Policy) : Bool := p.payload && p.csrc && p.ext && p.att

/-- a logged call: scalars by value, slice-typed data as `Val`s. -/
structure LCall where
  kind : Kind
  hdr : Header               -- scalars; `csrc` / `extensions` of this field are not used
  csrc : Val
  exts : List (Nat × Val)
  pl : Val
  att : Val
  deriving Repr

def keep (copy : Bool) (id : BufId) (b : Bytes) : Val := if copy then .copy b else .alias id

def encExts (copy : Bool) : BufId → List (Nat × Bytes) → List (Nat × Val)
  | _, [] => []
  | b, e :: r => (e.1, keep copy b e.2) :: encExts copy (b + 1) r

/-- what the interceptor keeps of a call, per policy. -/
def encode (pol : Policy) (ids : Ids) (c : Call) : LCall :=
  { kind := c.kind, hdr := c.hdr
    csrc := keep pol.csrc ids.csrc c.hdr.csrc
    exts := encExts pol.ext ids.ext c.hdr.extensions
    pl := keep pol.payload ids.pl c.pl
    att := keep pol.att ids.att c.att }

/-- the contents a logged call stands for *now*. -/
def resolve (h : Heap) (l : LCall) : Call :=
  { kind := l.kind
    hdr := { l.hdr with csrc := l.csrc.read h, extensions := l.exts.map fun e => (e.1, e.2.read h) }
    pl := l.pl.read h
    att := l.att.read h }

def fillExts (h : Heap) : BufId → List (Nat × Bytes) → Heap
  | _, [] => h
  | b, e :: r => fillExts (h.set b e.2) (b + 1) r

/-- calls that hand caller-owned memory to the interceptor. -/
def Kind.carries : Kind → Bool
  | .w | .r | .nack | .ack | .cr | .cw => true
  | _ => false

/-- the caller puts the contents of a call into its buffers (calls that carry no memory leave
the heap alone). -/
def fill (h : Heap) (ids : Ids) (c : Call) : Heap :=
  if c.kind.carries then
    fillExts (((h.set ids.pl c.pl).set ids.csrc c.hdr.csrc).set ids.att c.att) ids.ext c.hdr.extensions
  else h

/-- the interceptor's logic over contents. -/
structure Machine (ε : Type) where
  σ : Type
  init : σ
  step : σ → Call → σ × List ε

/-- emissions of the last call of a history (run from the initial state). -/
def Machine.lastOut {ε} (M : Machine ε) (cs : List Call) : List ε :=
  match cs.getLast? with
  | none => []
  | some c => (M.step (cs.dropLast.foldl (fun s c => (M.step s c).1) M.init) c).2

inductive Op where
  | call (ids : Ids) (c : Call)
  | scribble (id : BufId) (b : Bytes)
  deriving Repr

structure St where
  heap : Heap := fun _ => []
  log : List LCall := []

/-- one operation of the caller.  A call: the caller's buffers hold the contents, the
interceptor logs what it keeps (per policy) and emits what its logic says on the log as it
resolves *now*.  A scribble changes the heap only. -/
def step {ε} (pol : Policy) (M : Machine ε) (s : St) : Op → St × List ε
  | .scribble id b => ({ s with heap := s.heap.set id b }, [])
  | .call ids c =>
    let heap := fill s.heap ids c
    let log := s.log ++ [encode pol ids c]
    ({ heap := heap, log := log }, M.lastOut (log.map (resolve heap)))

/-- emissions of a run, one list per call (scribbles are the caller's own business). -/
def emissionsFrom {ε} (pol : Policy) (M : Machine ε) : St → List Op → List (List ε)
  | _, [] => []
  | s, .scribble id b :: ops => emissionsFrom pol M (step pol M s (.scribble id b)).1 ops
  | s, .call ids c :: ops =>
    let r := step pol M s (.call ids c)
    r.2 :: emissionsFrom pol M r.1 ops

def emissions {ε} (pol : Policy) (M : Machine ε) (ops : List Op) : List (List ε) :=
  emissionsFrom pol M {} ops

/-- final heap of a run. -/
def heapAfter {ε} (pol : Policy) (M : Machine ε) : St → List Op → Heap
  | s, [] => s.heap
  | s, op :: ops => heapAfter pol M (step pol M s op).1 ops

/-- the calls of a run, ids and scribbles erased. -/
def erase : List Op → List Call
  | [] => []
  | .call _ c :: ops => c :: erase ops
  | .scribble _ _ :: ops => erase ops

/-- the reference semantics: the interceptor's logic on the contents alone. -/
def pureFrom {ε} (M : Machine ε) : List Call → List Call → List (List ε)
  | _, [] => []
  | log, c :: cs => M.lastOut (log ++ [c]) :: pureFrom M (log ++ [c]) cs

def pureEmissions {ε} (M : Machine ε) (cs : List Call) : List (List ε) := pureFrom M [] cs

/-- `ops'` is `ops` with scribbles inserted at arbitrary places. -/
inductive Scribbled : List Op → List Op → Prop where
  | nil : Scribbled [] []
  | keep (op : Op) {a b} : Scribbled a b → Scribbled (op :: a) (op :: b)
  | ins (id : BufId) (bs : Bytes) {a b} : Scribbled a b → Scribbled a (.scribble id bs :: b)

/-- the heap as the caller alone makes it: its own fills and scribbles. -/
def callerHeap : Heap → List Op → Heap
  | h, [] => h
  | h, .call ids c :: ops => callerHeap (fill h ids c) ops
  | h, .scribble id b :: ops => callerHeap (h.set id b) ops

/-- buffer ids of the `k`-th allocation of the caller (64 ids apart: payload, CSRC, attributes,
extension payloads). -/
def idsAt (k : Nat) : Ids := ⟨64 * k, 64 * k + 1, 64 * k + 2, 64 * k + 3⟩

/-- the run with a fresh allocation per call. -/
def freshOps : Nat → List Call → List Op
  | _, [] => []
  | k, c :: cs => .call (idsAt k) c :: freshOps (k + 1) cs

/-- the run with ONE allocation reused for every call and overwritten (`scr c`: any list of
scribbles) as soon as the call has returned. -/
def reuseOps (scr : Call → List (BufId × Bytes)) : List Call → List Op
  | [] => []
  | c :: cs => .call (idsAt 0) c :: ((scr c).map fun p => Op.scribble p.1 p.2) ++ reuseOps scr cs

/-! ### a tiny machine for the witnesses: `flush` emits every payload written so far -/

def echo : Machine Bytes where
  σ := List Bytes
  init := []
  step := fun s c =>
    match c.kind with
    | .w => (s ++ [c.pl], [])
    | .flush => (s, s)
    | _ => (s, [])

end Interceptor.Alias

/-
Model of pkg/report/sender_stream.go (+ the per-tick loop of sender_interceptor.go), transcribed
branch by branch from the code *with the F-09 repair* (`|| stream.packetCount == 0` in the
first-packet-of-frame test).  uint16/uint32 are `Nat` with explicit `%`.
-/
import Interceptor.Base.Seq16
import Interceptor.Model.GoTime
import Interceptor.Model.Ntp
namespace Interceptor.SenderReport
open Interceptor Interceptor.F64 Interceptor.GoTime

abbrev M32 : Nat := 4294967296

/-- `senderStream`. -/
structure Stream where
  ssrc : Nat
  rate : Nat                    -- clockRate (uint32; `float64(clockRate)` is exact)
  useLatest : Bool
  lastTs : Nat := 0             -- lastRTPTimeRTP
  lastTime : Option Int := none -- lastRTPTimeTime (none = zero time.Time)
  lastSN : Nat := 0             -- lastRTPSN
  packetCount : Nat := 0
  octetCount : Nat := 0
  deriving Repr, DecidableEq

/-- `newSenderStream`. -/
def new (ssrc rate : Nat) (useLatest : Bool) : Stream := { ssrc, rate, useLatest }

/-- one RTP packet as the stream sees it. -/
structure Pkt where
  now : Int
  seq : Nat
  ts : Nat
  len : Nat
  deriving Repr, DecidableEq

/-- the condition under which `processRTP` takes the packet as the new reference. -/
def accepts (s : Stream) (seq : Nat) : Bool :=
  let diff := sub16 seq s.lastSN
  s.useLatest || s.packetCount == 0 || (decide (0 < diff) && decide (diff < 32768))

/-- `processRTP(now, header, payload)`. -/
def processRTP (s : Stream) (p : Pkt) : Stream :=
  let s1 :=
    if accepts s p.seq then
      let s' := { s with lastSN := p.seq }
      if p.ts ≠ s.lastTs ∨ s.packetCount = 0 then
        { s' with lastTs := p.ts, lastTime := some p.now }
      else s'
    else s
  { s1 with packetCount := (s.packetCount + 1) % M32, octetCount := (s.octetCount + p.len) % M32 }

/-- a sender report. -/
structure SR where
  ssrc : Nat
  ntp : Nat
  rtp : Nat
  packetCount : Nat
  octetCount : Nat
  deriving Repr, DecidableEq

/-- `uint32(now.Sub(lastRTPTimeTime).Seconds() * clockRate)`. -/
def elapsedTicks (rate : Nat) (elapsedNs : Int) : Nat :=
  toUint32 (mul (seconds elapsedNs) (ofInt rate))

/-- `generateReport(now)`. -/
def generateReport (s : Stream) (now : Int) : SR :=
  { ssrc := s.ssrc
    ntp := Ntp.toNTP now
    rtp := (s.lastTs + elapsedTicks s.rate (GoTime.sub now s.lastTime)) % M32
    packetCount := s.packetCount
    octetCount := s.octetCount }

/-- fold of `processRTP` over a send history. -/
def run (s : Stream) (ps : List Pkt) : Stream := ps.foldl processRTP s

/-! The interceptor: `streams` (a sync.Map keyed by SSRC) as an association list kept sorted by
SSRC (the harness sorts what came out of `Range`). -/

abbrev Streams := List Stream

def store (ss : Streams) (s : Stream) : Streams :=
  match ss with
  | [] => [s]
  | x :: xs => if s.ssrc < x.ssrc then s :: x :: xs else if s.ssrc = x.ssrc then s :: xs else x :: store xs s

def delete (ss : Streams) (ssrc : Nat) : Streams := ss.filter (·.ssrc ≠ ssrc)

def update (ss : Streams) (ssrc : Nat) (f : Stream → Stream) : Streams :=
  ss.map fun s => if s.ssrc = ssrc then f s else s

/-- one tick of `loop`. -/
def tick (ss : Streams) (now : Int) : List SR := ss.map (generateReport · now)

end Interceptor.SenderReport

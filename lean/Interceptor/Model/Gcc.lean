/-
Control skeleton of pkg/gcc (send_side_bwe.go, rate_controller.go, loss_based_bwe.go, state.go,
gcc.go).  Every floating-point stage is an ORACLE: the events carry the integer a stage
produced (`int(…)` of an arbitrary float, including what `int(NaN)`/`int(±Inf)` yield), and the
arrival-group / Kalman / threshold / overuse stages collapse into "some usage".  What is modelled
exactly: `clampInt`, `state.transition`, `rateController.onDelayStats`
(`target := clampInt(raw, min, max)`, first call only initialises, `hold` publishes nothing),
`lossBasedBandwidthEstimator` (own clamp to [100 k, 100 M], `bitrate ≤ 0` reset,
`min(wanted, bitrate)`), `SendSideBWE.onDelayUpdate` (min of the two — clamped to the
configured bounds since the F-20 fix —, publish to pacer and callback iff changed, stats),
`WriteRTCP`'s closed check and `Close`.
-/
namespace Interceptor.Gcc

inductive Usage where
  | over | under | normal
  deriving DecidableEq, Repr

inductive State where
  | increase | decrease | hold
  deriving DecidableEq, Repr

/-- `state.transition`. -/
def State.transition : State → Usage → State
  | .hold, .over => .decrease
  | .hold, .normal => .increase
  | .hold, .under => .hold
  | .increase, .over => .decrease
  | .increase, .normal => .increase
  | .increase, .under => .hold
  | .decrease, .over => .decrease
  | .decrease, .normal => .hold
  | .decrease, .under => .hold

/-- `clampInt(b, minVal, maxVal) = max(minVal, min(maxVal, b))`. -/
def clampInt (b lo hi : Int) : Int := max lo (min hi b)

structure Cfg where
  min : Int
  max : Int
  init : Int
  deriving Repr

structure Stats where
  lossT : Int
  delayT : Int
  usage : Usage
  state : State
  deriving DecidableEq, Repr

structure St where
  latest : Int              -- SendSideBWE.latestBitrate
  rcTarget : Int            -- rateController.target
  rcInit : Bool             -- rateController.init
  lossBitrate : Int         -- lossBasedBandwidthEstimator.bitrate
  stats : Option Stats      -- latestStats (`none` = zero value)
  closed : Bool
  receivers : Bool          -- the two delayController goroutines are ranging over the ack pipes
  pacer : List Int          -- ghost: arguments of pacer.SetTargetBitrate, in order
  cbs : List Int            -- ghost: arguments of onTargetBitrateChange, in order of the `go` statements
  deriving Repr

def St.init (c : Cfg) : St :=
  { latest := c.init, rcTarget := c.init, rcInit := false, lossBitrate := c.init, stats := none,
    closed := false, receivers := true, pacer := [], cbs := [] }

def lossMin : Int := 100000
def lossMax : Int := 100000000

/-- what happens inside one `WriteRTCP` (and the goroutines it feeds), as far as control goes. -/
inductive Ev where
  /-- `updateLossEstimate`: `none` = neither branch taken, `some raw` = the increase or decrease
  branch assigned `clampInt(int(<float expression>), 100k, 100M)`. -/
  | lossUpdate (raw : Option Int)
  /-- the overuse detector delivered a DelayStats with this usage to `rateController.onDelayStats`;
  `raw` is the value `increase(now)` resp. `decrease()` returns. -/
  | delayStats (usage : Usage) (raw : Int)
  | close
  deriving Repr

/-- `lossController.getEstimate(wanted)`: the new `bitrate` (also the reported loss target). -/
def lossEstimate (lossBitrate wanted : Int) : Int :=
  min wanted (if lossBitrate ≤ 0 then clampInt wanted lossMin lossMax else lossBitrate)

/-- the value `onDelayUpdate` publishes (`fixed = false`: before the F-20 fix, without the clamp). -/
def combine (fixed : Bool) (c : Cfg) (wanted lb : Int) : Int :=
  if fixed then clampInt (min wanted lb) c.min c.max else min wanted lb

/-- `onDelayUpdate`. -/
def publish (fixed : Bool) (c : Cfg) (st : St) (wanted : Int) (usage : Usage) (state : State) : St :=
  let lb := lossEstimate st.lossBitrate wanted
  let bitrate := combine fixed c wanted lb
  let stats := some { lossT := lb, delayT := wanted, usage := usage, state := state }
  if bitrate ≠ st.latest then
    { st with lossBitrate := lb, latest := bitrate, pacer := st.pacer ++ [bitrate], cbs := st.cbs ++ [bitrate],
              stats := stats }
  else { st with lossBitrate := lb, stats := stats }

def execG (fixed : Bool) (c : Cfg) (st : St) : Ev → St
  | .lossUpdate none => st
  | .lossUpdate (some raw) => if st.closed then st else { st with lossBitrate := clampInt raw lossMin lossMax }
  | .delayStats usage raw =>
    if st.closed then st else
    if !st.rcInit then { st with rcInit := true } else
    -- `c.delayStats = ds` (ds.State is the zero value, stateIncrease) then `.transition(ds.Usage)`
    let state := State.increase.transition usage
    if state = .hold then st else
    let target := clampInt raw c.min c.max
    publish fixed c { st with rcTarget := target } target usage state
  | .close => { st with closed := true, receivers := false }

/-- the code as it is now (with the F-20 fix). -/
def exec := execG true
def run (c : Cfg) (st : St) (evs : List Ev) : St := evs.foldl (exec c) st
def runG (fixed : Bool) (c : Cfg) (st : St) (evs : List Ev) : St := evs.foldl (execG fixed c) st

inductive Err where
  | closed
  deriving DecidableEq, Repr

/-- `WriteRTCP`: under `closeLock.RLock`, first the closed check, then the events. -/
def writeRTCP (c : Cfg) (st : St) (evs : List Ev) : Except Err St :=
  if st.closed then .error .closed else .ok (run c st (evs.filter (fun e => match e with | .close => false | _ => true)))

/-- `SendSideBWE.Close()` with a pacer whose `Close` returns an error or not: the ack pipes are
closed, the estimator is marked closed (`close(e.close)`) and only then the pacer is closed and
ITS error returned — so the estimator is closed whatever the pacer answers.
Returns (closed afterwards, "Close returned the pacer's error"). -/
def closeG (pacerErr : Bool) : Bool × Bool := (true, pacerErr)

/-! ## trace acceptance -/

/-- what the harness observes after one feedback. -/
structure Obs where
  target : Int
  pacer : List Int        -- SetTargetBitrate calls since the previous observation
  cbs : List Int          -- callback values since the previous observation, sorted
  stats : Option Stats
  deriving Repr

def insertSorted (x : Int) : List Int → List Int
  | [] => [x]
  | y :: ys => if x ≤ y then x :: y :: ys else y :: insertSorted x ys
def sortInts (xs : List Int) : List Int := xs.foldr insertSorted []

/-- last element of a list, `prev` if it is empty. -/
def lastD : Int → List Int → Int
  | prev, [] => prev
  | _, x :: xs => lastD x xs

/-- consecutive values differ, starting from `prev`. -/
def chainDistinct : Int → List Int → Bool
  | _, [] => true
  | prev, x :: xs => decide (x ≠ prev) && chainDistinct x xs

/-- the acceptor: is this observation one the skeleton allows after a state whose published
target was `prev` and whose stats were (`prevUpd`) / were not yet set?  Returns the reason on
rejection. -/
def accepts (c : Cfg) (prev : Int) (prevUpd : Bool) (o : Obs) : Option String :=
  if o.target < c.min then some "below-min"
  else if o.target > c.max then some "above-max"
  else if o.target ≤ 0 then some "non-positive"
  else if lastD prev o.pacer ≠ o.target then some "getter-differs-from-last-pacer-rate"
  else if sortInts o.pacer ≠ o.cbs then some "callbacks-differ-from-pacer-rates"
  else if !chainDistinct prev o.pacer then some "publish-without-change"
  else if o.pacer.any (fun p => p < c.min || p > c.max) then some "published-out-of-bounds"
  else match o.stats with
    | none => if prevUpd then some "stats-reset" else if !o.pacer.isEmpty then some "publish-without-stats" else none
    | some s =>
      if s.delayT < c.min || s.delayT > c.max then some "delay-target-not-clamped"
      else if s.lossT > s.delayT then some "loss-target-above-wanted"
      else if o.target ≠ clampInt (min s.delayT s.lossT) c.min c.max then some "target-not-min-of-estimates"
      else if !((s.usage = .over && s.state = .decrease) || (s.usage = .normal && s.state = .increase)) then
        some "state-not-transition-of-usage"
      else none

/-- the observation the harness makes after a batch of events that led from `st` to `st'`:
the getter, the pacer calls and (sorted) callback values since `st`, the stats. -/
def observe (st st' : St) : Obs :=
  { target := st'.latest, pacer := st'.pacer.drop st.pacer.length,
    cbs := sortInts (st'.cbs.drop st.cbs.length), stats := st'.stats }

end Interceptor.Gcc

/-
Model of pkg/twcc/header_extension_interceptor.go.

* `negotiatedId`  — the URI lookup of `BindLocalStream` (first matching entry wins, `uint8(e.ID)`,
  0 = pass the writer through unchanged).
* `alloc`         — `atomic.AddUint32(&h.nextSequenceNr, 1) - 1` followed by `uint16(..)`: one
  atomic step `(n, c) := (c mod 2^16, (c+1) mod 2^32)`.
* `write`         — the writer closure: allocate, nil check, `SetExtension`, forward.
* `Machine`       — k writer threads; each Write is two steps (atomic allocation, then the
  forward to the bottom writer); a schedule is an arbitrary list of thread ids.
-/
import Interceptor.Base.RtpHeader
namespace Interceptor.TwccHdr
open Interceptor.Rtp

abbrev M32 : Nat := 4294967296

/-- one `RTPHeaderExtension{URI, ID}` of the StreamInfo: is the URI the transport-cc one, and the id (Go `int`). -/
abbrev ExtDecl := Bool × Int

/-- the lookup loop of `BindLocalStream`: `uint8(e.ID)` of the first entry with the transport-cc URI, else 0. -/
def negotiatedId (exts : List ExtDecl) : Nat :=
  match exts.find? (·.1) with
  | some e => (e.2 % 256).toNat
  | none => 0

/-- the atomic step: number handed out, new counter. -/
def alloc (c : Nat) : Nat × Nat := (c % 65536, (c + 1) % M32)

inductive Err where
  | headerNil
  | ext (e : ExtErr)
  | bottom
  deriving DecidableEq, Repr

/-- what one Write of a *negotiated* stream does, up to the call of the next writer:
new counter, and either the header handed to the next writer or the error returned. -/
def stamp (c : Nat) (id : Nat) (h : Option Header) : Nat × Except Err Header :=
  let (n, c') := alloc c
  match h with
  | none => (c', .error .headerNil)
  | some h =>
    match setExtension h id (be16 n) with
    | .error e => (c', .error (.ext e))
    | .ok h' => (c', .ok h')

/-- result of the bottom writer for one call: `(n, failed?)`. -/
abbrev BottomRes := Int × Bool

/-- observable result of one Write through the interceptor. -/
structure WriteOut where
  /-- what reached the next writer (at most one call); the header is `none` for Go's nil. -/
  forwarded : Option (Option Header × Bytes)
  /-- `(n, err)` returned to the caller. -/
  ret : Int × Option Err
  deriving DecidableEq, Repr

/-- a complete Write on a stream bound with extension id `id` (0 = not negotiated: the
interceptor returned the next writer itself). `bottom` is the result the next writer will give. -/
def write (c : Nat) (id : Nat) (h : Option Header) (payload : Bytes) (bottom : BottomRes) :
    Nat × WriteOut :=
  let bret : Int × Option Err := (bottom.1, if bottom.2 then some .bottom else none)
  if id = 0 then
    -- the caller talks to the bottom writer directly (a nil header is the bottom writer's business)
    (c, { forwarded := some (h, payload), ret := bret })
  else
    match stamp c id h with
    | (c', .error e) => (c', { forwarded := none, ret := (0, some e) })
    | (c', .ok h') => (c', { forwarded := some (some h', payload), ret := bret })

/-- the inputs `SetExtension` accepts for a non-zero id: exactly the complement of what pion/rtp rejects. -/
def accepts (h : Header) (id : Nat) : Bool :=
  !h.extension || (h.profile == profOneByte && decide (1 ≤ id ∧ id ≤ 14)) ||
    (h.profile == profTwoByte && decide (1 ≤ id))

/-! ### concurrency: k writer threads over one shared counter -/

/-- machine state: the counter, the (thread, number) pairs of the atomic steps (newest first),
threads that have allocated but not yet forwarded, and what reached the bottom writer
(thread, number), newest first. -/
structure Machine where
  c : Nat
  logR : List (Nat × Nat) := []
  pend : List (Nat × Nat) := []
  outR : List (Nat × Nat) := []
  deriving DecidableEq, Repr

/-- thread `t` takes its next step: the atomic allocation if it is not inside a Write,
otherwise the forward of the packet stamped with *its* number. -/
def Machine.step (m : Machine) (t : Nat) : Machine :=
  match m.pend.lookup t with
  | none =>
    let (n, c') := alloc m.c
    { m with c := c', logR := (t, n) :: m.logR, pend := (t, n) :: m.pend }
  | some n =>
    { m with pend := m.pend.erase (t, n), outR := (t, n) :: m.outR }

def Machine.run (m : Machine) (sched : List Nat) : Machine := sched.foldl Machine.step m

def Machine.init (c0 : Nat) : Machine := { c := c0 }

/-- numbers in the order of the atomic steps. -/
def Machine.numbers (m : Machine) : List Nat := m.logR.reverse.map (·.2)
/-- (thread, number) in the order in which they reached the bottom writer. -/
def Machine.out (m : Machine) : List (Nat × Nat) := m.outR.reverse

/-- numbers handed out by `k` consecutive atomic steps from counter `c0`. -/
def assigned (c0 : Nat) : Nat → List Nat
  | 0 => []
  | k + 1 => (alloc c0).1 :: assigned (alloc c0).2 k

/-! ### the verdict computed on a finished concurrent run (same function in the Go harness) -/

/-- expected multiplicity of value `v` in a run of `n` consecutive numbers mod 2^16 starting at `c0`. -/
def expectedCount (c0 n v : Nat) : Nat :=
  let off := (v + 65536 - c0 % 65536) % 65536
  if off < n then (n - off + 65535) / 65536 else 0

/-- is `xs` (as a multiset) one run of consecutive values mod 2^16 starting at `c0`? -/
def isRun (c0 : Nat) (xs : List Nat) : Bool :=
  let n := xs.length
  let counts : Array Nat := xs.foldl (fun a v => a.modify (v % 65536) (· + 1)) (Array.replicate 65536 0)
  (List.range 65536).all fun v => counts[v]! == expectedCount c0 n v

end Interceptor.TwccHdr

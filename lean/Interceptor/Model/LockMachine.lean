/-
Abstract machine for the lock-discipline theorem (C10): threads acquire and release
reader/writer mutexes; a state records, per mutex, the exclusive holder and the shared holders.
-/
namespace Interceptor.LockMachine

abbrev Tid := Nat
abbrev Mutex := Nat

structure MState where
  writer : Option Tid := none
  readers : List Tid := []

/-- lock state: one `MState` per mutex. -/
abbrev LState := Mutex → MState

inductive Ev where
  | lock (t : Tid) (m : Mutex)
  | rlock (t : Tid) (m : Mutex)
  | unlock (t : Tid) (m : Mutex)
  | runlock (t : Tid) (m : Mutex)

def set (s : LState) (m : Mutex) (v : MState) : LState := fun m' => if m' = m then v else s m'

/-- the step relation of sync.RWMutex (a sync.Mutex is the `lock/unlock` fragment). -/
inductive Step : LState → Ev → LState → Prop where
  | lock (s t m) : (s m).writer = none → (s m).readers = [] →
      Step s (.lock t m) (set s m { writer := some t, readers := [] })
  | rlock (s t m) : (s m).writer = none →
      Step s (.rlock t m) (set s m { writer := none, readers := t :: (s m).readers })
  | unlock (s t m) : (s m).writer = some t →
      Step s (.unlock t m) (set s m { writer := none, readers := (s m).readers })
  | runlock (s t m) : t ∈ (s m).readers →
      Step s (.runlock t m) (set s m { writer := (s m).writer, readers := (s m).readers.erase t })

inductive Reach : LState → Prop where
  | init : Reach (fun _ => {})
  | step {s e s'} : Reach s → Step s e s' → Reach s'

def holdsW (s : LState) (t : Tid) (m : Mutex) : Prop := (s m).writer = some t
def holdsR (s : LState) (t : Tid) (m : Mutex) : Prop := t ∈ (s m).readers

/-- mutual exclusion invariant: an exclusive holder excludes all shared holders. -/
def Excl (s : LState) : Prop := ∀ m, (s m).writer ≠ none → (s m).readers = []

end Interceptor.LockMachine

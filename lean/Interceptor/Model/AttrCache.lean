/-
Model of the parse cache in `interceptor.Attributes` (attributes.go): `GetRTPHeader(raw)` /
`GetRTCPPackets(raw)` return the value cached under a private key if there is one, and otherwise parse
`raw`, cache the result **only if parsing succeeded**, and return it.  The parsers (pion/rtp, pion/rtcp)
are parameters: `parse : Raw → Option H`.

On top of it: what a chain of readers may do with the pair (bytes, attributes) it hands outwards.  A member
either *observes* (looks at the header through the cache and hands on the same bytes with the same
attributes) or *replaces* the packet (the jitter buffer: hands on other bytes) — and then has to hand on
attributes that do not carry the parse of the packet it read.
-/
namespace Interceptor.Model.AttrCache

/-- the cache slot of one kind (RTP header or RTCP packets) in an attributes map -/
structure Attrs (H : Type) where
  cached : Option H := none

variable {Raw H : Type}

/-- `Attributes.GetRTPHeader` / `GetRTCPPackets`: result (none = the parse error is returned) and the map afterwards -/
def look (parse : Raw → Option H) (a : Attrs H) (raw : Raw) : Option H × Attrs H :=
  match a.cached with
  | some h => (some h, a)
  | none =>
    match parse raw with
    | some h => (some h, { cached := some h })
    | none => (none, a)

/-- the cache describes these bytes -/
def Coherent (parse : Raw → Option H) (a : Attrs H) (raw : Raw) : Prop :=
  ∀ h, a.cached = some h → parse raw = some h

/-- what one member of a chain of readers does with the packet it read from the member inside it -/
inductive Member (Raw : Type) where
  | pass                      -- hands on bytes and attributes untouched, never looks
  | observe                   -- looks at the header through the cache, hands on the same bytes and attributes
  | replace (raw' : Raw)      -- hands on another packet, with fresh attributes (jitter buffer after F-42)
  | replaceStale (raw' : Raw) -- hands on another packet with the attributes of the packet it read (before F-42)

/-- one member: what it saw (for `observe`: the header it got and the parse of the bytes it holds), what it hands on -/
def Member.step (parse : Raw → Option H) (m : Member Raw) (raw : Raw) (a : Attrs H) :
    Option (Option H × Option H) × Raw × Attrs H :=
  match m with
  | .pass => (none, raw, a)
  | .observe => let r := look parse a raw; (some (r.1, parse raw), raw, r.2)
  | .replace raw' => (none, raw', {})
  | .replaceStale raw' => (none, raw', a)

/-- a chain, innermost member first: the observations made on the way out, and what the application receives -/
def run (parse : Raw → Option H) : List (Member Raw) → Raw → Attrs H → List (Option H × Option H) × Raw × Attrs H
  | [], raw, a => ([], raw, a)
  | m :: ms, raw, a =>
    let (o, raw', a') := m.step parse raw a
    let (os, raw'', a'') := run parse ms raw' a'
    (match o with | some x => x :: os | none => os, raw'', a'')

/-- members that keep the rule "other bytes ⇒ fresh attributes" -/
def Member.wellBehaved : Member Raw → Bool
  | .replaceStale _ => false
  | _ => true

end Interceptor.Model.AttrCache

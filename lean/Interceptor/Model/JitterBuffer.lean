/-
Model of pkg/jitterbuffer (priority_queue.go, jitter_buffer.go, receiver_interceptor.go),
transcribed branch by branch from the *fixed* code (fix commits for F-21, F-22a, F-22b, F-23).

* `PQ` is the PriorityQueue at HEAP level: `nodes` is the heap (index = address of a `node`,
  nodes are never freed), `next/prev : Option Nat` are the Go pointers and are manipulated
  exactly as the Go code manipulates them.  Every traversal carries fuel = number of nodes + 1
  and yields `.panic "loop"` when the fuel runs out, so a cyclic list (F-21) is expressible.
  `.panic "nil"` is a nil-pointer dereference, `.panic "dangling"` cannot occur (all pointers
  are indices that were allocated) and is there to make the functions total.
* `uint16` fields are `Nat` with explicit `% 65536`.
* The JitterBuffer is written once, over an abstract queue implementation `QImpl`; the driver
  instantiates it with the heap-level queue (`heapImpl`), `Spec/JitterBuffer.lean` with the
  list-level queue.  Unobservable statistics counters (`stats`) are not modelled; the events
  emitted to listeners are.
-/
import Interceptor.Base.Res
namespace Interceptor.JitterBuffer

/-- an `*rtp.Packet`: sequence number, timestamp, the identity of the object (`obj`), and its
marshalled size (used by the interceptor model only). -/
structure Pkt where
  seq : Nat
  ts : Nat
  obj : Nat
  size : Nat := 0
  deriving DecidableEq, Repr, Inhabited

structure Node where
  val : Option Pkt
  next : Option Nat
  prev : Option Nat
  prio : Nat
  deriving Repr, Inhabited

structure PQ where
  nodes : Array Node := #[]
  head : Option Nat := none      -- `q.next`
  length : Nat := 0              -- uint16
  deriving Repr, Inhabited

def inc16 (n : Nat) : Nat := (n + 1) % 65536
def dec16 (n : Nat) : Nat := (n + 65535) % 65536

namespace PQ

def fuel (ns : Array Node) : Nat := ns.size + 1

/-- `Find`: `for next != nil { if next.priority == sqNum { return next.val, nil }; next = next.next }`. -/
def findLoop (ns : Array Node) (sq : Nat) : Nat → Option Nat → Res (Option Pkt)
  | _, none => .err "notfound"
  | 0, some _ => .panic "loop"
  | f + 1, some i =>
    match ns[i]? with
    | none => .panic "dangling"
    | some n => if n.prio = sq then .ok n.val else findLoop ns sq f n.next

def find (q : PQ) (sq : Nat) : Res (Option Pkt) := findLoop q.nodes sq (fuel q.nodes) q.head

/-- the scan of `Push`: `for head != nil { if priority <= head.priority { break }; prev = head; head = head.next }`;
returns `(head, prev)`. -/
def pushScan (ns : Array Node) (prio : Nat) : Nat → Option Nat → Nat → Res (Option Nat × Nat)
  | _, none, prev => .ok (none, prev)
  | 0, some _, _ => .panic "loop"
  | f + 1, some i, prev =>
    match ns[i]? with
    | none => .panic "dangling"
    | some n => if prio ≤ n.prio then .ok (some i, prev) else pushScan ns prio f n.next i

/-- `Push` (fixed code: the head comparison is `<=`, F-21). -/
def push (q : PQ) (val : Pkt) (prio : Nat) : Res PQ :=
  -- (the fields are read first so that the compiled driver can update the node array in place)
  let qhead := q.head
  let qlength := q.length
  let nodes := q.nodes
  let new := nodes.size
  let fl := fuel nodes
  let ns := nodes.push { val := some val, next := none, prev := none, prio := prio }
  match qhead with
  | none => .ok { nodes := ns, head := some new, length := inc16 qlength }
  | some h =>
    match ns[h]? with
    | none => .panic "dangling"
    | some hn =>
      if prio ≤ hn.prio then
        -- newPq.next = q.next; q.next.prev = newPq; q.next = newPq
        let ns := ns.modify new (fun x => { x with next := some h })
        let ns := ns.modify h (fun x => { x with prev := some new })
        .ok { nodes := ns, head := some new, length := inc16 qlength }
      else
        match pushScan ns prio fl (some h) h with
        | .ok (none, p) =>
          -- prev.next = newPq; newPq.prev = prev
          let ns := ns.modify p (fun x => { x with next := some new })
          let ns := ns.modify new (fun x => { x with prev := some p })
          .ok { nodes := ns, head := qhead, length := inc16 qlength }
        | .ok (some c, p) =>
          -- newPq.next = head; newPq.prev = prev; prev.next = newPq; head.prev = newPq
          let ns := ns.modify new (fun x => { x with next := some c, prev := some p })
          let ns := ns.modify p (fun x => { x with next := some new })
          let ns := ns.modify c (fun x => { x with prev := some new })
          .ok { nodes := ns, head := qhead, length := inc16 qlength }
        | .err e => .err e
        | .panic s => .panic s

/-- `Pop`: removes the first element. -/
def pop (q : PQ) : Res (Option Pkt × PQ) :=
  match q.head with
  | none => .err "invalid"
  | some h =>
    match q.nodes[h]? with
    | none => .panic "dangling"
    | some hn =>
      .ok (hn.val, { nodes := q.nodes.modify h (fun x => { x with val := none }),
                     head := hn.next, length := dec16 q.length })

/-- the loop shared by `PopAt` and `PopAtTimestamp` (`pred` is the test on the node). -/
def popLoop (ns : Array Node) (pred : Node → Res Bool) :
    Nat → Option Nat → Option Nat → Res (Option Pkt × Array Node)
  | _, none, _ => .err "notfound"
  | 0, some _, _ => .panic "loop"
  | f + 1, some i, prev =>
    match ns[i]? with
    | none => .panic "dangling"
    | some n =>
      match pred n with
      | .ok true =>
        match prev with
        | none => .panic "nil"
        | some p =>
          -- pos.val = nil; prev.next = pos.next; if prev.next != nil { prev.next.prev = prev }
          let ns1 := ns.modify i (fun x => { x with val := none })
          let ns2 := ns1.modify p (fun x => { x with next := n.next })
          let ns3 := match n.next with
            | none => ns2
            | some nx => ns2.modify nx (fun x => { x with prev := some p })
          .ok (n.val, ns3)
      | .ok false => popLoop ns pred f n.next (some i)
      | .err e => .err e
      | .panic s => .panic s

def popBy (q : PQ) (pred : Node → Res Bool) : Res (Option Pkt × PQ) :=
  match q.head with
  | none => .err "invalid"
  | some h =>
    match q.nodes[h]? with
    | none => .panic "dangling"
    | some hn =>
      match pred hn with
      | .ok true =>
        .ok (hn.val, { nodes := q.nodes.modify h (fun x => { x with val := none }),
                       head := hn.next, length := dec16 q.length })
      | .ok false =>
        -- pos := q.next; prev := q.next.prev
        match popLoop q.nodes pred (fuel q.nodes) (some h) hn.prev with
        | .ok (v, ns) => .ok (v, { nodes := ns, head := q.head, length := dec16 q.length })
        | .err e => .err e
        | .panic s => .panic s
      | .err e => .err e
      | .panic s => .panic s

def predSeq (sq : Nat) (n : Node) : Res Bool := .ok (n.prio == sq)
/-- `pos.val.Timestamp == timestamp` (nil `val` is a nil dereference). -/
def predTs (ts : Nat) (n : Node) : Res Bool :=
  match n.val with
  | none => .panic "nil"
  | some p => .ok (p.ts == ts)

def popAt (q : PQ) (sq : Nat) : Res (Option Pkt × PQ) := popBy q (predSeq sq)
def popAtTs (q : PQ) (ts : Nat) : Res (Option Pkt × PQ) := popBy q (predTs ts)

/-- `Clear`: `for next != nil { next.prev = nil; next = next.next }`. -/
def clearLoop (ns : Array Node) : Nat → Option Nat → Res (Array Node)
  | _, none => .ok ns
  | 0, some _ => .panic "loop"
  | f + 1, some i =>
    match ns[i]? with
    | none => .panic "dangling"
    | some n => clearLoop (ns.modify i (fun x => { x with prev := none })) f n.next

/-- `Clear` (fixed code: also `q.next = nil`, F-22a). -/
def clear (q : PQ) : Res PQ :=
  match clearLoop q.nodes (fuel q.nodes) q.head with
  | .ok ns => .ok { nodes := ns, head := none, length := 0 }
  | .err e => .err e
  | .panic s => .panic s

/-- the reachable nodes in list order (for the driver's `chain` observable); `none` on a cycle. -/
def walk (ns : Array Node) : Nat → Option Nat → Option (List Nat)
  | _, none => some []
  | 0, some _ => none
  | f + 1, some i =>
    match ns[i]? with
    | none => none
    | some n => (walk ns f n.next).map (i :: ·)

end PQ

/-- what the JitterBuffer needs from a queue. An `err` result leaves the queue unchanged. -/
structure QImpl where
  Q : Type
  empty : Q
  length : Q → Nat
  push : Q → Pkt → Nat → Res Q
  find : Q → Nat → Res (Option Pkt)
  popAt : Q → Nat → Res (Option Pkt × Q)
  popAtTs : Q → Nat → Res (Option Pkt × Q)
  clear : Q → Res Q

@[reducible] def heapImpl : QImpl where
  Q := PQ
  empty := {}
  length := fun q => q.length
  push := PQ.push
  find := PQ.find
  popAt := PQ.popAt
  popAtTs := PQ.popAtTs
  clear := PQ.clear

inductive St where
  | buffering | emitting
  deriving DecidableEq, Repr, Inhabited

inductive Ev where
  | start | overflow | playing | underflow
  deriving DecidableEq, Repr

structure JB (I : QImpl) where
  q : I.Q
  minStart : Nat := 50
  overflowLen : Nat := 100
  lastSeq : Nat := 0
  head : Nat := 0
  ready : Bool := false
  state : St := .buffering

/-- result of an exported method: return value (`ok none` for methods without a packet
result) and the events emitted, in order. -/
structure Out where
  ret : Res (Option Pkt)
  evs : List Ev := []

namespace JB
variable {I : QImpl}

/-- `New(WithMinimumPacketCount(m))`; `none` = no option (50). -/
def new (I : QImpl) (m : Option Nat) : JB I := { q := I.empty, minStart := m.getD 50 }

def updateState (jb : JB I) : JB I × List Ev :=
  if I.length jb.q ≥ jb.minStart ∧ jb.state = .buffering then
    ({ jb with state := .emitting, ready := true }, [.playing])
  else (jb, [])

def push (jb : JB I) (p : Pkt) : JB I × Out :=
  let len := I.length jb.q
  let ev1 := if len = 0 then [Ev.start] else []
  let ev2 := if len > jb.overflowLen then [Ev.overflow] else []
  let head := if !jb.ready ∧ len = 0 then p.seq else jb.head
  match I.push jb.q p p.seq with
  | .ok q' =>
    let (jb', ev3) := updateState { jb with q := q', head := head, lastSeq := p.seq }
    (jb', { ret := .ok none, evs := ev1 ++ ev2 ++ ev3 })
  | .err e => (jb, { ret := .err e, evs := ev1 ++ ev2 })
  | .panic s => (jb, { ret := .panic s, evs := ev1 ++ ev2 })

def peek (jb : JB I) (playoutHead : Bool) : Out :=
  if I.length jb.q < 1 then { ret := .err "underrun" }
  else if playoutHead ∧ jb.state = .emitting then { ret := I.find jb.q jb.head }
  else { ret := I.find jb.q jb.lastSeq }

def peekAtSequence (jb : JB I) (sq : Nat) : Out := { ret := I.find jb.q sq }

/-- common tail of `Pop`, `PopAtSequence` (`adv = true`) and `PopAtTimestamp` (`adv = false`). -/
def popWith (jb : JB I) (r : Res (Option Pkt × I.Q)) (adv : Bool) : JB I × Out :=
  match r with
  | .ok (v, q') =>
    let (jb', ev) := updateState
      { jb with q := q', head := if adv then (jb.head + 1) % 65536 else jb.head }
    (jb', { ret := .ok v, evs := ev })
  | .err e => (jb, { ret := .err e, evs := [.underflow] })
  | .panic s => (jb, { ret := .panic s })

def pop (jb : JB I) : JB I × Out :=
  if jb.state ≠ .emitting then (jb, { ret := .err "buffering" })
  else popWith jb (I.popAt jb.q jb.head) true

def popAtSequence (jb : JB I) (sq : Nat) : JB I × Out :=
  if jb.state ≠ .emitting then (jb, { ret := .err "buffering" })
  else popWith jb (I.popAt jb.q sq) true

def popAtTimestamp (jb : JB I) (ts : Nat) : JB I × Out :=
  if jb.state ≠ .emitting then (jb, { ret := .err "buffering" })
  else popWith jb (I.popAtTs jb.q ts) false

def setPlayoutHead (jb : JB I) (h : Nat) : JB I := { jb with head := h }

/-- `Clear(resetState)` (fixed code: `resetState` also clears `playoutReady`, F-22b). -/
def clear (jb : JB I) (reset : Bool) : JB I × Out :=
  match I.clear jb.q with
  | .ok q' =>
    let jb := { jb with q := q' }
    (if reset then { jb with lastSeq := 0, state := .buffering, minStart := 50, ready := false } else jb,
     { ret := .ok none })
  | .err e => (jb, { ret := .err e })
  | .panic s => (jb, { ret := .panic s })

end JB

/-! ### the interceptor's read path (`BindRemoteStream` closure) -/

/-- outcome of one `Read` through the interceptor: bytes reported, error class, packet written to `b`. -/
structure ReadOut where
  n : Nat
  err : String := "-"
  pkt : Option Pkt := none

/-- one read: the upstream reader filled `n` bytes (`uerr`: it failed) of a buffer of `blen` bytes;
`p` is the parsed form of those bytes (`p.size = n`).  Fixed code: `Unmarshal(buf[:n])` (F-23);
a header needs 12 bytes. -/
def intRead {I : QImpl} (jb : JB I) (p : Pkt) (n blen : Nat) (uerr : Bool) : JB I × ReadOut :=
  if uerr then (jb, { n := n, err := "upstream" })
  else if n < 12 then (jb, { n := 0, err := "unmarshal" })
  else
    let (jb1, o1) := jb.push { p with size := n }
    match o1.ret with
    | .panic s => (jb1, { n := 0, err := "panic:" ++ s })
    | _ =>
      if jb1.state = .emitting then
        let (jb2, o2) := jb1.pop
        match o2.ret with
        | .ok (some v) =>
          if v.size ≤ blen then (jb2, { n := v.size, pkt := some v })
          else (jb2, { n := 0, err := "short" })
        | .ok none => (jb2, { n := 0, err := "panic:nil" })
        | .err e => (jb2, { n := 0, err := e })
        | .panic s => (jb2, { n := 0, err := "panic:" ++ s })
      else (jb1, { n := n, err := "buffering" })

end Interceptor.JitterBuffer

/-
Model of internal/cc/feedback_adapter.go (FeedbackAdapter), transcribed branch by branch
from the code AFTER `fix: feedback adapter consumes a receive delta for every received TWCC
symbol` (F-14).  Two behaviours that existing tests pin are modelled as they are:
  * zero-valued Acknowledgments are emitted for numbers that are not in the history
    (test worksOnSequenceNumberWrapAround),
  * symbols beyond PacketStatusCount are decoded (F-15, test ignoresPossiblyInFlightPackets).
Every Go index / slice expression is a checked access of the panic monad.
Go's `int64` durations are unbounded `Int` here.
-/
import Interceptor.Base.Res
import Interceptor.Model.FeedbackTypes
namespace Interceptor.FeedbackAdapter
open Interceptor Interceptor.Feedback

/-- `cc.Acknowledgment`; times in Z-time, `arrival = 0` is the zero `time.Time`. -/
structure Ack where
  seq : Nat
  ssrc : Nat
  size : Int
  departure : Int
  arrival : Int
  ecn : Nat
  deriving Repr, DecidableEq

/-- the zero value `Acknowledgment{}`. -/
def Ack.zero : Ack := ⟨0, 0, 0, 0, 0, 0⟩

/-- `feedbackHistory`: the evict list, most recently added first (the map is its index). -/
abbrev Hist := List Ack

def lruSize : Nat := 250

def sameKey (ssrc seq : Nat) (a : Ack) : Bool := a.ssrc == ssrc && a.seq == seq

/-- `feedbackHistory.get`. -/
def get (h : Hist) (ssrc seq : Nat) : Option Ack := h.find? (sameKey ssrc seq)

/-- `feedbackHistory.add` (+ `removeOldest`). -/
def add (h : Hist) (a : Ack) : Hist :=
  if h.any (sameKey a.ssrc a.seq) then
    a :: h.eraseP (sameKey a.ssrc a.seq)          -- MoveToFront; ent.Value = ack
  else
    let h' := a :: h                                -- PushFront
    if h'.length > lruSize then h'.dropLast else h' -- removeOldest (Back)

/-- `onSentTWCC`: `hdr` = `header.MarshalSize()` (pion/rtp, a parameter). -/
def onSentTWCC (h : Hist) (ts : Int) (tw : Nat) (hdr size : Int) : Hist :=
  add h ⟨tw, 0, hdr + size, ts, 0, 0⟩

/-- `onSentRFC8888`. -/
def onSentRFC8888 (h : Hist) (ts : Int) (ssrc seq : Nat) (size : Int) : Hist :=
  add h ⟨seq, ssrc, size, ts, 0, 0⟩

/-- the entry written to `result[resultIndex]` for sequence number `i`. -/
def entry (h : Hist) (i : Nat) (arrival : Option Int) : Ack :=
  match get h 0 i with
  | some a => (match arrival with | some t => { a with arrival := t } | none => a)
  | none => Ack.zero

/-- the symbol loop shared by `unpackRunLengthChunk` (`syms` = the symbol repeated) and
`unpackStatusVectorChunk`: returns (deltaIndex, refTime, result). -/
def symLoop (h : Hist) (deltas : List Int) : List Nat → Nat → Nat → Int → Res (Nat × Int × List Ack)
  | [], _, di, ref => .ok (di, ref, [])
  | s :: ss, i, di, ref =>
    if s = symNotReceived then do              -- received := symbol != TypeTCCPacketNotReceived
      let (di', r, rest) ← symLoop h deltas ss ((i + 1) % 65536) di ref
      pure (di', r, entry h i none :: rest)
    else if (deltas.length : Int) - 1 < (di : Int) then .err "invalid"
    else do
      let d ← idx "feedback_adapter.go: deltas[deltaIndex]" deltas di
      let ref' := ref + d * 1000
      let (di', r, rest) ← symLoop h deltas ss ((i + 1) % 65536) (di + 1) ref'
      pure (di', r, entry h i (some ref') :: rest)

/-- `unpackRunLengthChunk`. -/
def unpackRunLengthChunk (h : Hist) (start : Nat) (ref : Int) (sym run : Nat) (deltas : List Int) :=
  symLoop h deltas (List.replicate run sym) start 0 ref

/-- `unpackStatusVectorChunk`. -/
def unpackStatusVectorChunk (h : Hist) (start : Nat) (ref : Int) (syms : List Nat) (deltas : List Int) :=
  symLoop h deltas syms start 0 ref

/-- checked slice `xs[n:]`. -/
def sliceFrom {α} (site : String) (xs : List α) (n : Nat) : Res (List α) :=
  if n ≤ xs.length then .ok (xs.drop n) else .panic site

/-- the chunk loop of `OnTransportCCFeedback`. -/
def chunkLoop (h : Hist) : List Chunk → Nat → Int → List Int → Res (List Ack)
  | [], _, _, _ => .ok []
  | c :: cs, index, ref, deltas =>
    match c with
    | .other => .err "invalid"
    | .rl sym run => do
      let (n, ref', acks) ← unpackRunLengthChunk h index ref sym run deltas
      let deltas' ← sliceFrom "feedback_adapter.go: recvDeltas[n:]" deltas n
      let rest ← chunkLoop h cs ((index + acks.length) % 65536) ref' deltas'
      pure (acks ++ rest)
    | .sv syms => do
      let (n, ref', acks) ← unpackStatusVectorChunk h index ref syms deltas
      let deltas' ← sliceFrom "feedback_adapter.go: recvDeltas[n:]" deltas n
      let rest ← chunkLoop h cs ((index + acks.length) % 65536) ref' deltas'
      pure (acks ++ rest)

/-- `OnTransportCCFeedback`. -/
def onTWCC (h : Hist) (fb : Twcc) : Res (List Ack) :=
  chunkLoop h fb.chunks fb.base (refTime fb.ref) fb.deltas

/-- metric-block loop of `OnRFC8888Feedback` for one report block. -/
def metricLoop (h : Hist) (ref : Int) (ssrc begin : Nat) : List Metric → Nat → List Ack
  | [], _ => []
  | m :: ms, i =>
    let seq := (begin + i % 65536) % 65536
    match get h ssrc seq with
    | some a =>
      (if m.received then { a with arrival := ref - atoNs m.ato, ecn := m.ecn } else a)
        :: metricLoop h ref ssrc begin ms (i + 1)
    | none => metricLoop h ref ssrc begin ms (i + 1)

/-- `OnRFC8888Feedback`. -/
def onCCFB (h : Hist) (fb : Ccfb) : List Ack :=
  fb.blocks.flatMap fun b => metricLoop h fb.ref b.ssrc b.begin b.metrics 0

end Interceptor.FeedbackAdapter

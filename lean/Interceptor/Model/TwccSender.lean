/-
Model of the goroutine of pkg/twcc/sender_interceptor.go (`SenderInterceptor.loop`): it owns the
Recorder, records every arriving packet with `time.Since(startTime)` in µs, starts a ticker when
the first packet has arrived and, on every tick, writes the non-empty result of
`BuildFeedbackPacket`.  Time is virtual (µs since `NewInterceptor`).
-/
import Interceptor.Model.Twcc
namespace Interceptor.Twcc

structure Sender where
  rcd : Recorder := {}
  media : Nat := 0
  interval : Int := 100000
  now : Int := 0
  started : Bool := false      -- the first packet has been received: the ticker exists
  nextTick : Int := 0
  deriving Inhabited

/-- a packet with transport-wide number `seq` is read from the bound remote stream now. -/
def Sender.pkt (s : Sender) (seq : Nat) : Sender :=
  let s1 := { s with rcd := s.rcd.record s.media seq s.now }
  if s.started then s1 else { s1 with started := true, nextTick := s.now + s.interval }

/-- ticks up to `target` (inclusive), in order; returns the batches written. -/
def Sender.ticks : Nat → Sender → Int → Array (List Packet) → Sender × Array (List Packet)
  | 0, s, _, out => (s, out)
  | fuel + 1, s, target, out =>
    if s.started ∧ s.nextTick ≤ target then
      let (r, pkts) := s.rcd.build
      let s := { s with rcd := r, nextTick := s.nextTick + s.interval }
      Sender.ticks fuel s target (if pkts.isEmpty then out else out.push pkts)
    else (s, out)

/-- the virtual clock advances by `us` µs. -/
def Sender.adv (s : Sender) (us : Int) : Sender × List (List Packet) :=
  let target := s.now + us
  let (s, out) := Sender.ticks ((us / s.interval).toNat + 2) s target #[]
  ({ s with now := target }, out.toList)

end Interceptor.Twcc

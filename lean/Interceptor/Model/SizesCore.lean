/-
C12 — small models of the stateful cores that have no model of their own in this directory:
the RTP ring buffer of the NACK responder (internal/rtpbuffer/rtpbuffer.go, occupancy only), the
arrival-time ring of the TWCC recorder (pkg/twcc/arrival_time_map.go + the part of twcc.go that
moves its window), and the sliding window of the GCC rate calculator (pkg/gcc/rate_calculator.go).
Each mirrors the Go code branch by branch as far as the *number of retained entries* depends on it.
-/
import Interceptor.Model.Unwrapper
namespace Interceptor.Sizes

/-! ### internal/rtpbuffer: which slots hold a packet -/

structure Ring where
  size : Nat
  slots : Array Bool          -- `packets[i] != nil`
  highest : Nat := 0          -- highestAdded
  started : Bool := false

def Ring.new (size : Nat) : Ring := { size := size, slots := Array.replicate size false }

/-- `for i := highestAdded + 1; i != seq; i++ { packets[i % size] = nil }` (`n` iterations). -/
def clearRange (size : Nat) (slots : Array Bool) (i : Nat) : Nat → Array Bool
  | 0 => slots
  | n + 1 => clearRange size (slots.setIfInBounds (i % 65536 % size) false) (i + 1) n

/-- `RTPBuffer.Add` (occupancy only). -/
def Ring.add (r : Ring) (seq : Nat) : Ring :=
  if !r.started then
    { r with slots := r.slots.setIfInBounds (seq % r.size) true, highest := seq, started := true }
  else
    let diff := (seq + 65536 - r.highest) % 65536
    if diff = 0 then r
    else if diff < 32768 then
      let s1 := clearRange r.size r.slots (r.highest + 1) (diff - 1)
      { r with slots := s1.setIfInBounds (seq % r.size) true, highest := seq }
    else if (r.highest + 65536 - seq) % 65536 ≥ r.size then r      -- too old: dropped (fix of F-04)
    else { r with slots := r.slots.setIfInBounds (seq % r.size) true }

def Ring.used (r : Ring) : Nat := r.slots.toList.countP (· = true)

/-! ### pkg/twcc: arrival time ring -/

def minCapacity : Nat := 128
def maxNumberOfPackets : Int := 32768
def packetWindowUs : Int := 500000

structure AMap where
  arr : Array Int := #[]       -- arrivalTimes (nil = empty array)
  begin_ : Int := 0
  end_ : Int := 0

namespace AMap

def cap (m : AMap) : Nat := m.arr.size

/-- `sn & (capacity-1)` for a power-of-two capacity. -/
def idx (c : Nat) (sn : Int) : Nat := (sn % (c : Int)).toNat

def get (m : AMap) (sn : Int) : Int :=
  if sn < m.begin_ ∨ sn ≥ m.end_ then -1 else m.arr.getD (idx m.cap sn) 0

/-- the copy loop of `reallocate` over `[sn, sn+n)`. -/
def copyLoop (m : AMap) (c : Nat) (buf : Array Int) (sn : Int) : Nat → Array Int
  | 0 => buf
  | n + 1 => copyLoop m c (buf.setIfInBounds (idx c sn) (m.get sn)) (sn + 1) n

def reallocate (m : AMap) (c : Nat) : AMap :=
  { m with arr := copyLoop m c (Array.replicate c 0) m.begin_ (m.end_ - m.begin_).toNat }

/-- `for newCapacity < newSize { newCapacity *= 2 }`. -/
def growCap (c newSize : Nat) : Nat → Nat
  | 0 => c
  | f + 1 => if c < newSize then growCap (c * 2) newSize f else c

/-- `for newCapacity >= 2*max(newSize, minCapacity) { newCapacity /= 2 }`. -/
def shrinkCap (c newSize : Nat) : Nat → Nat
  | 0 => c
  | f + 1 => if c ≥ 2 * max newSize minCapacity then shrinkCap (c / 2) newSize f else c

def adjustToSize (m : AMap) (newSize : Nat) : AMap :=
  let m1 := if newSize > m.cap then m.reallocate (growCap m.cap newSize 64) else m
  if m1.cap > max minCapacity (newSize * 4) then m1.reallocate (shrinkCap m1.cap newSize 64) else m1

def setAt (m : AMap) (sn v : Int) : AMap := { m with arr := m.arr.setIfInBounds (idx m.cap sn) v }

def setNotReceived (m : AMap) (sn : Int) : Nat → AMap
  | 0 => m
  | n + 1 => setNotReceived (m.setAt sn (-1)) (sn + 1) n

/-- `AddPacket`. -/
def addPacket (m : AMap) (sn t : Int) : AMap :=
  if m.cap = 0 then
    let m1 := ({ m with begin_ := sn, end_ := sn } : AMap).reallocate minCapacity
    ({ m1 with begin_ := sn, end_ := sn + 1 } : AMap).setAt sn t
  else if sn ≥ m.begin_ ∧ sn < m.end_ then m.setAt sn t
  else if sn < m.begin_ then
    let newSize := (m.end_ - sn).toNat
    if (newSize : Int) > maxNumberOfPackets then m
    else
      let m1 := (m.adjustToSize newSize).setAt sn t
      let m2 := m1.setNotReceived (sn + 1) (m1.begin_ - (sn + 1)).toNat
      { m2 with begin_ := sn }
  else
    let newEnd := sn + 1
    if newEnd ≥ m.end_ + maxNumberOfPackets then
      ({ m with begin_ := sn, end_ := newEnd } : AMap).setAt sn t
    else
      let m1 : AMap := if m.begin_ < newEnd - maxNumberOfPackets then { m with begin_ := newEnd - maxNumberOfPackets } else m
      let m2 := m1.adjustToSize (newEnd - m1.begin_).toNat
      let m3 := m2.setNotReceived m2.end_ (sn - m2.end_).toNat
      ({ m3 with end_ := newEnd } : AMap).setAt sn t

/-- the `for begin < checkTo && get(begin) <= limit { begin++ }` loop. -/
def skipOld (m : AMap) (checkTo limit : Int) : Nat → AMap
  | 0 => m
  | f + 1 => if m.begin_ < checkTo ∧ m.get m.begin_ ≤ limit then skipOld { m with begin_ := m.begin_ + 1 } checkTo limit f else m

/-- `RemoveOldPackets`. -/
def removeOldPackets (m : AMap) (sn limit : Int) : AMap :=
  let m1 := m.skipOld (min sn m.end_) limit (m.end_ - m.begin_).toNat
  m1.adjustToSize (m1.end_ - m1.begin_).toNat

def span (m : AMap) : Nat := (m.end_ - m.begin_).toNat

end AMap

/-- `twcc.Recorder` as far as the window of the arrival map depends on it. -/
structure TwccRec where
  unw : Unwrapper.State := none
  start : Option Int := none
  m : AMap := {}

/-- `maybeCullOldPackets`. -/
def TwccRec.cull (r : TwccRec) (u t : Int) : TwccRec :=
  match r.start with
  | some s => if s ≥ r.m.end_ ∧ t ≥ packetWindowUs then { r with m := r.m.removeOldPackets u (t - packetWindowUs) } else r
  | none => r

/-- `if r.startSequenceNumber == nil || unwrappedSN < *r.startSequenceNumber { setStart }`. -/
def TwccRec.lowerStart (r : TwccRec) (u : Int) : TwccRec :=
  match r.start with
  | some s => if u < s then { r with start := some u } else r
  | none => { r with start := some u }

/-- the rest of `Record`: first arrival only; the report pointer never lies before the map. -/
def TwccRec.insert (r : TwccRec) (u t : Int) : TwccRec :=
  if r.m.get u ≥ 0 then r
  else
    let r := { r with m := r.m.addPacket u t }
    match r.start with
    | some s => if s < r.m.begin_ then { r with start := some r.m.begin_ } else r
    | none => r

/-- `Recorder.Record`. -/
def TwccRec.record (r : TwccRec) (seq : Nat) (t : Int) : TwccRec :=
  let (unw, u) := Unwrapper.unwrap r.unw seq
  ((({ r with unw := unw } : TwccRec).cull u t).lowerStart u).insert u t

/-- `BuildFeedbackPacket` when every received packet of `[start, end)` fits into the feedback
packets built (the last number of the range is always a received one): the report pointer moves
to the end of the map; the map itself is not touched. -/
def TwccRec.build (r : TwccRec) : TwccRec :=
  match r.start with
  | some s => if s < r.m.end_ then { r with start := some r.m.end_ } else r
  | none => r

/-! ### pkg/gcc: sliding window of the rate calculator (`history` of `rateCalculator.run`) -/

/-- the `for _, ack := range history { if !ack.Arrival.Before(deadline) break; del++ }` loop. -/
def dropOld (deadline : Int) : List Int → List Int
  | [] => []
  | a :: h => if a < deadline then dropOld deadline h else a :: h

structure RateCalc where
  window : Int
  init : Bool := false
  history : List Int := []      -- arrival times (ns) of the retained acknowledgements

/-- one acknowledgement with a non-zero arrival time. -/
def RateCalc.ack (c : RateCalc) (arrival : Int) : RateCalc :=
  let h := c.history ++ [arrival]
  if !c.init then { c with init := true, history := h }
  else { c with history := dropOld (arrival - c.window) h }

end Interceptor.Sizes

/-
C12 — `size` of every stateful core, defined ON the component models of this directory
(ReceiveLog, Rtpfb, FeedbackAdapter, Rfc8888, Stats, JitterBuffer, FlexFec, Pacing) and on the
small ring / window models of `SizesCore`, plus the event machine the correspondence drives:
one state per interceptor kind, one step per event (bind, packet, 1 ms of virtual time, the
kind's feedback event, unbind, close).  `size` returns exactly the vector the Go harness reads
through the `VerifSizes` accessors (keys sorted).
-/
import Interceptor.Model.SizesCore
import Interceptor.Model.ReceiveLog
import Interceptor.Model.Rtpfb
import Interceptor.Model.FeedbackAdapter
import Interceptor.Model.Rfc8888
import Interceptor.Model.Stats
import Interceptor.Model.FlexFec
import Interceptor.Model.Pacing
import Interceptor.Spec.JitterBuffer
namespace Interceptor.Sizes
open Interceptor

/-- association-list update / erase for maps keyed by SSRC. -/
def put {α} (m : List (Nat × α)) (k : Nat) (v : α) : List (Nat × α) := (k, v) :: m.filter (·.1 != k)
def del {α} (m : List (Nat × α)) (k : Nat) : List (Nat × α) := m.filter (·.1 != k)
def sumBy {α} (f : α → Nat) (l : List α) : Nat := (l.map f).foldl (· + ·) 0

/-! ### nack generator: `ReceiveLog.Gen` + which SSRCs have an entry in `nackCountLogs` -/

/-- Go map entries of `nackCountLogs[ssrc]`: created by `++` only, so exactly the non-zero counters. -/
def nzCount (c : ReceiveLog.Counts) : Nat := c.fold (fun n _ v => if v ≠ 0 then n + 1 else n) 0

structure NackGen where
  g : ReceiveLog.Gen
  present : List Nat := []        -- keys of the outer map `nackCountLogs`
  writer : Bool
  ivl : Nat

/-- is the outer entry of one stream present after a tick (mirrors the three `continue`/delete paths). -/
def presentAfter (cfg : ReceiveLog.Cfg) (st : ReceiveLog.Stream) : Bool :=
  let m := ReceiveLog.missing st.log cfg.skip
  let r := ReceiveLog.tickStream cfg st
  if m.isEmpty then true
  else if cfg.max > 0 ∧ r.2.isNone then true
  else nzCount r.1.counts != 0

def NackGen.tick (s : NackGen) : NackGen :=
  let pres := (s.g.streams.filter fun p => presentAfter s.g.cfg p.2).map (·.1)
  { s with g := (ReceiveLog.tick s.g).1, present := pres }

def NackGen.size (s : NackGen) : List (String × Nat) :=
  [("countents", sumBy (fun p => nzCount p.2.counts) s.g.streams), ("counts", s.present.length),
   ("logs", s.g.streams.length), ("logwords", s.g.streams.length * (s.g.cfg.size / 64))]

/-! ### nack responder -/

structure NackResp where
  rsize : Nat
  streams : List (Nat × Ring) := []

def NackResp.packet (s : NackResp) (ssrc seq : Nat) : NackResp :=
  { s with streams := s.streams.map fun p => if p.1 == ssrc then (p.1, p.2.add seq) else p }

def NackResp.size (s : NackResp) : List (String × Nat) :=
  [("slots", sumBy (fun p => p.2.size) s.streams), ("streams", s.streams.length),
   ("used", sumBy (fun p => p.2.used) s.streams)]

/-! ### twcc sender interceptor -/

structure Twcc where
  r : TwccRec := {}
  ivl : Nat
  tickAt : Option Nat := none      -- ms at which the ticker was created (first packet)

def Twcc.size (s : Twcc) : List (String × Nat) := [("cap", s.r.m.cap), ("span", s.r.m.span)]

/-! ### rfc8888 -/

def rfcSize (s : Rfc8888.Icpt) : List (String × Nat) :=
  [("entries", sumBy (fun p => p.2.log.length) s.recd.streams), ("streams", s.recd.streams.length)]

/-! ### rtpfb -/

structure RtpFb where
  h : Rtpfb.Hist := {}
  twcc : Bool
  pending : List (Nat × Nat) := []   -- (ssrc, seq) the remote received since the last feedback, newest first
  tw : Nat := 0                      -- transport-wide sequence number of the next packet written (TWCC mode)

def RtpFb.packet (s : RtpFb) (ssrc seq : Nat) (lost : Bool) : RtpFb :=
  let key := if s.twcc then s.tw % 65536 else seq
  { s with h := Rtpfb.addOutgoing s.h ssrc seq s.twcc (if s.twcc then s.tw % 65536 else 0) 0 0,
           pending := if lost then s.pending else (ssrc, key) :: s.pending,
           tw := s.tw + 1 }

def RtpFb.feedback (s : RtpFb) : RtpFb :=
  if s.twcc ∧ s.pending.isEmpty then s else
  let h := s.pending.reverse.foldl (fun h p =>
    if s.twcc then (Rtpfb.onTWCCFeedback h 0 ⟨p.2, true, 0, 0⟩).1
    else (Rtpfb.onCCFBFeedback h 0 p.1 ⟨p.2, true, 0, 0⟩).1) s.h
  { s with h := (Rtpfb.buildReport h).1, pending := [] }

def histSize (h : Rtpfb.Hist) : List (String × Nat) :=
  [("packets", h.packets.length), ("ssrcseq", h.ss.length), ("twcc", h.twcc.length)]

/-! ### stats -/

def statsSize (i : Stats.Icpt) : List (String × Nat) :=
  [("recorders", i.length), ("rrts", sumBy (fun r => r.st.lastRRTs.length) i), ("srs", sumBy (fun r => r.st.lastSRs.length) i)]

structure StatsS where
  i : Stats.Icpt := []
  n : Nat := 0

/-- the n-th feedback event of the stats harness for one bound stream, at `g` ms: an outgoing compound
packet (one or two sender reports, an XR with 1..4 RRTR blocks), then an incoming receiver report
with 1..3 report blocks for the stream. -/
def statsFeedback (i : Stats.Icpt) (n g ssrc : Nat) : Stats.Icpt × Nat :=
  let b := n * 1048576
  let srs : List Stats.Rtcp := if n % 2 = 1 then [.sr ssrc b 0 0 [], .sr ssrc (b + 1) 0 0 []] else [.sr ssrc b 0 0 []]
  let xr : Stats.Rtcp := .xr ssrc ((List.range (1 + n % 4)).map fun j => .rrtr (b + 16 + j))
  let i1 := Stats.Icpt.step i (.rtcpOut (srs ++ [xr]))
  let reports : List Stats.Report := (List.range (1 + n % 3)).map fun j =>
    ⟨ssrc, (n + j) % 256, n % 1000, (n + j) % 4294967296, j, 0, 0⟩
  (Stats.Icpt.step i1 (.rtcpIn (946684800000000000 + (g : Int) * 1000000) [.rr 9 reports]), n)

/-! ### jitter buffer interceptor -/

abbrev JB := JitterBuffer.JB JitterBuffer.listImpl

def jbSize (j : JB) : List (String × Nat) := [("length", JitterBuffer.listImpl.length j.q), ("nodes", List.length (α := JitterBuffer.Entry) j.q)]

/-! ### flexfec -/

structure Fec where
  media : Nat
  fec : Nat
  streams : List (Nat × FlexFec.Icpt) := []

def be16 (v : Nat) : List Nat := [(v / 256) % 256, v % 256]
def be32 (v : Nat) : List Nat := [(v / 16777216) % 256, (v / 65536) % 256, (v / 256) % 256, v % 256]

/-- the marshalled media packet the harness writes. -/
def mediaBytes (ssrc seq : Nat) : List Nat := [128, 96] ++ be16 seq ++ be32 (seq * 90) ++ be32 ssrc ++ [1, 2, 3, 4]

def Fec.size (s : Fec) : List (String × Nat) :=
  [("pending", sumBy (fun p => p.2.buffer.length) s.streams), ("streams", s.streams.length)]

/-! ### leaky bucket pacer, pacing interceptor: the ghost histories of the models are dropped
after every step (they do not influence the queues; `Props/C12` proves it) -/

abbrev LSt := Pacing.LSt Unit

/-- the ghost histories, and the log of writer calls (only read to look up the failure schedule
`fails`, which this machine never sets), are dropped. -/
def forgetL (s : LSt) : LSt := { s with processed := [], delivered := [], calls := [] }

def leakySize (s : LSt) : List (String × Nat) := [("queue", s.queue.length), ("writers", s.writers.length)]

abbrev PSt := Pacing.St Nat Pacing.FTB

def forgetP (s : PSt) : PSt := { s with delivered := [], accepted := [] }

def pcfg : Pacing.Cfg Nat Pacing.FTB := { sz := id, cap := 1000000, ivlUs := 5000, lm := Pacing.ftb }

structure PacingS where
  st : PSt
  closed : Bool := false

def PacingS.size (s : PacingS) : List (String × Nat) :=
  [("chan", s.st.chan.length), ("factory", if s.closed then 0 else 1), ("held", s.st.chan.length + s.st.loc.length)]

/-! ### the machine -/

inductive K where
  | nackgen (s : NackGen)
  | nackresp (s : NackResp)
  | rr (streams : List Nat)
  | sr (streams : List Nat)
  | twcc (s : Twcc)
  | rfc8888 (s : Rfc8888.Icpt)
  | rtpfb (s : RtpFb)
  | ccadapter (h : FeedbackAdapter.Hist)
  | stats (s : StatsS)
  | jitter (j : JB)
  | flexfec (s : Fec)
  | leaky (s : LSt)
  | pacing (s : PacingS)

/-- events of one interceptor; `g` is the virtual time in ms since it was created. -/
inductive Ev where
  | bind (ssrc : Nat)
  | packet (g ssrc seq : Nat) (lost : Bool)
  | adv (g' : Nat)                 -- virtual time reaches g' ms (1 ms after g' - 1): timers fire
  | feedback (g : Nat) (bound : List Nat)   -- the kind's feedback event at g ms (streams currently bound, ascending)
  | unbind (ssrc : Nat)
  | close

def insSorted (l : List Nat) (x : Nat) : List Nat := if l.contains x then l else x :: l

def getOk {α} (d : α) : Res α → α
  | .ok a => a
  | _ => d

def K.step (k : K) (closed : Bool) : Ev → K
  | .bind ssrc =>
    match k with
    | .nackgen s => .nackgen { s with g := ReceiveLog.bind s.g ssrc }
    | .nackresp s => .nackresp { s with streams := put s.streams ssrc (Ring.new s.rsize) }
    | .rr l => .rr (insSorted l ssrc)
    | .sr l => .sr (insSorted l ssrc)
    | .stats s => .stats { s with i := s.i.step (.bind ssrc 90000) }
    | .flexfec s => .flexfec { s with streams := put s.streams ssrc (FlexFec.Icpt.new s.media s.fec ssrc 118 (ssrc + 1000)) }
    | .leaky s => .leaky (if s.writers.contains ssrc then s else forgetL (getOk s (Pacing.lexec (fun _ => 12) Pacing.lItem s (.bind ssrc))))
    | k => k
  | .packet g ssrc seq lost =>
    match k with
    | .nackgen s => if lost then k else .nackgen { s with g := ReceiveLog.rtp s.g ssrc seq }
    | .nackresp s => .nackresp (s.packet ssrc seq)
    | .twcc s =>
      if lost ∨ closed then k else
      .twcc { s with r := s.r.record seq ((g : Int) * 1000), tickAt := s.tickAt.orElse fun _ => some g }
    | .rfc8888 s => if lost then k else .rfc8888 (s.read ssrc seq).1
    | .rtpfb s => .rtpfb (s.packet ssrc seq lost)
    | .ccadapter h => .ccadapter (FeedbackAdapter.onSentTWCC h 0 seq 20 4)
    | .stats s => .stats { s with i := s.i.step (.rtpOut ssrc ⟨ssrc, seq, seq * 90, 12, 4⟩) }
    | .jitter j => if lost then k else .jitter (JitterBuffer.intRead j ⟨seq, seq * 90, 0, 16⟩ 16 1500 false).1
    | .flexfec s =>
      .flexfec { s with streams := s.streams.map fun p => if p.1 == ssrc then (p.1, (p.2.write (mediaBytes ssrc seq)).1) else p }
    | .leaky s => .leaky (forgetL (getOk s (Pacing.lexec (fun _ => 12) Pacing.lItem s (.write [0, 0, 0, 0] () ssrc [1, 2, 3, 4]))))
    | .pacing s =>
      if s.closed then k else
      match Pacing.accept pcfg s.st 16 with
      | some st => .pacing { s with st := forgetP (Pacing.drainAll st) }
      | none => k
    | k => k
  | .adv g' =>
    if closed then k else
    match k with
    | .nackgen s => if s.writer ∧ g' % s.ivl = 0 then .nackgen s.tick else k
    | .twcc s =>
      match s.tickAt with
      | some t0 => if g' > t0 ∧ (g' - t0) % s.ivl = 0 then .twcc { s with r := s.r.build } else k
      | none => k
    | .rfc8888 s => .rfc8888 (s.advance 1000000).1
    | .leaky s => if g' % 5 = 0 then .leaky (forgetL (getOk s (Pacing.lexec (fun _ => 12) Pacing.lItem s (.tick (g' * 1000000))))) else k
    | .pacing s => if g' % 5 = 0 then .pacing { s with st := forgetP (Pacing.exec pcfg s.st (.tick (g' * 1000000))) } else k
    | k => k
  | .feedback g bound =>
    match k with
    | .rtpfb s => .rtpfb s.feedback
    | .stats s =>
      let r := bound.foldl (fun (acc : Stats.Icpt × Nat) ssrc => statsFeedback acc.1 (acc.2 + 1) g ssrc) (s.i, s.n)
      .stats { i := r.1, n := r.2 }
    | k => k
  | .unbind ssrc =>
    match k with
    | .nackgen s => .nackgen { s with g := ReceiveLog.unbind s.g ssrc, present := s.present.filter (· != ssrc) }
    | .nackresp s => .nackresp { s with streams := del s.streams ssrc }
    | .rr l => .rr (l.filter (· != ssrc))
    | .sr l => .sr (l.filter (· != ssrc))
    | .jitter j => .jitter (j.clear true).1
    | .flexfec s => .flexfec { s with streams := del s.streams ssrc }
    | k => k
  | .close =>
    match k with
    | .nackresp s => .nackresp { s with streams := [] }
    | .rfc8888 s => .rfc8888 s.close.1
    | .stats s => .stats { s with i := s.i.step .close }
    | .jitter j => .jitter (j.clear true).1
    | .pacing s => .pacing { s with closed := true }
    | k => k

def K.size : K → List (String × Nat)
  | .nackgen s => s.size
  | .nackresp s => s.size
  | .rr l => [("streams", l.length), ("words", 128 * l.length)]
  | .sr l => [("streams", l.length)]
  | .twcc s => s.size
  | .rfc8888 s => rfcSize s
  | .rtpfb s => histSize s.h
  | .ccadapter h => [("list", h.length), ("map", h.length)]
  | .stats s => statsSize s.i
  | .jitter j => jbSize j
  | .flexfec s => s.size
  | .leaky s => leakySize s
  | .pacing s => s.size

/-- configuration of `new`. -/
structure NewCfg where
  kind : String
  ivl : Nat := 100
  writer : Bool := true
  size : Nat := 0
  max : Nat := 0
  media : Nat := 5
  fec : Nat := 2
  rate : Nat := 1000000
  twccMode : Bool := true

def K.new (c : NewCfg) : Option K :=
  match c.kind with
  | "nackgen" => some (.nackgen { g := { cfg := ⟨if c.size = 0 then 512 else c.size, 0, c.max⟩, streams := [] }, writer := c.writer, ivl := c.ivl })
  | "nackresp" => some (.nackresp { rsize := if c.size = 0 then 1024 else c.size })
  | "rr" => some (.rr [])
  | "sr" => some (.sr [])
  | "twcc" => some (.twcc { ivl := c.ivl })
  | "rfc8888" => some (.rfc8888 (({ interval := (c.ivl : Int) * 1000000 } : Rfc8888.Icpt).bindWriter))
  | "rtpfb" => some (.rtpfb { twcc := c.twccMode })
  | "ccadapter" => some (.ccadapter [])
  | "stats" => some (.stats {})
  | "jitter" => some (.jitter (JitterBuffer.JB.new JitterBuffer.listImpl none))
  | "flexfec" => some (.flexfec { media := c.media, fec := c.fec })
  | "leaky" => some (.leaky (Pacing.LSt.init c.rate))
  | "pacing" => some (.pacing { st := Pacing.St.init (Pacing.FTB.init c.rate (Pacing.burstOf c.rate 5000)) })
  | _ => none

/-! ### phases: the deterministic schedule shared with the Go harness -/

inductive Workload | inorder | loss | dup | reorder | idle
  deriving DecidableEq, Repr

/-- the deliveries of one slot: `r = g % p`. -/
def slotPackets (w : Workload) (p r seq : Nat) : List (Nat × Bool) :=
  match w with
  | .inorder => [(seq, false)]
  | .loss => [(seq, r = p - 1)]
  | .dup => if r = p - 1 then [(seq, false), (seq, false)] else [(seq, false)]
  | .reorder =>
    if r = p - 2 then [((seq + 1) % 65536, false)]
    else if r = p - 1 then [((seq + 65535) % 65536, false)]
    else [(seq, false)]
  | .idle => []

/-- the driver's state around the interceptor. -/
structure M where
  k : K
  next : List (Nat × Nat) := []     -- next sequence number per stream
  bound : List Nat := []
  g : Nat := 0
  closed : Bool := false

def M.ev (m : M) (e : Ev) : M := { m with k := m.k.step m.closed e }

def sortedBound (m : M) : List Nat := (m.bound.toArray.qsort (· < ·)).toList

/-- one slot of a phase: the stream is `ssrc + g % rr` (round-robin over `rr` streams). -/
def M.slot (m : M) (w : Workload) (ssrc0 rr p fb : Nat) : M :=
  let ssrc := ssrc0 + m.g % rr
  let seq := ((m.next.find? (·.1 == ssrc)).map (·.2)).getD 0
  let m1 := (slotPackets w p (m.g % p) seq).foldl (fun m q => m.ev (.packet m.g ssrc q.1 q.2)) m
  let m2 := { m1 with next := put m1.next ssrc ((seq + 1) % 65536), g := m1.g + 1 }
  let m3 := m2.ev (.adv m2.g)
  if fb > 0 ∧ m3.g % fb = 0 then m3.ev (.feedback m3.g (sortedBound m3)) else m3

def M.phase (m : M) (w : Workload) (ssrc0 rr p fb : Nat) : Nat → M
  | 0 => m
  | n + 1 => (m.slot w ssrc0 rr p fb).phase w ssrc0 rr p fb n

/-- the stream's sequence number jumps forward by `d`. -/
def M.jump (m : M) (ssrc d : Nat) : M :=
  let seq := ((m.next.find? (·.1 == ssrc)).map (·.2)).getD 0
  { m with next := put m.next ssrc ((seq + d) % 65536) }

def M.size (m : M) : List (String × Nat) := m.k.size

end Interceptor.Sizes

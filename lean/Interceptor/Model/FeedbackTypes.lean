/-
Parsed form of the feedback packets that pion/rtcp hands to the decoders (C09 / C02).
The decoders are modelled over ALL values of these types (any run length, any status count,
any delta list, any metric list), which over-approximates what rtcp.Unmarshal can return.
Times are `Int` nanoseconds since Go's zero `time.Time` ("Z-time"); `0` is `time.Time{}`.
-/
namespace Interceptor.Feedback

/-- `rtcp.PacketStatusChunk`: run-length chunk, status-vector chunk (the symbol size is
irrelevant once the symbol list is parsed), or any other implementation of the interface. -/
inductive Chunk where
  | rl (sym run : Nat)
  | sv (syms : List Nat)
  | other
  deriving Repr, DecidableEq

/-- `rtcp.TransportLayerCC` (fields the decoders read). `deltas` are `RecvDelta.Delta` in µs. -/
structure Twcc where
  base : Nat
  count : Nat
  ref : Nat
  chunks : List Chunk
  deltas : List Int
  deriving Repr

/-- `rtcp.CCFeedbackMetricBlock`. -/
structure Metric where
  received : Bool
  ecn : Nat
  ato : Nat
  deriving Repr, DecidableEq

/-- `rtcp.CCFeedbackReportBlock`. -/
structure Block where
  ssrc : Nat
  begin : Nat
  metrics : List Metric
  deriving Repr

/-- `rtcp.CCFeedbackReport`; `ref` is the reference time the code derives from
`ReportTimestamp` with `ntp.ToTime` / `ntp.ToTime32` (C20's business; a parameter here). -/
structure Ccfb where
  ref : Int
  blocks : List Block
  deriving Repr

/-- symbol constants of pion/rtcp. -/
def symNotReceived : Nat := 0
def symSmall : Nat := 1
def symLarge : Nat := 2
def symNoDelta : Nat := 3

/-- `time.Time{}.Add(time.Duration(ReferenceTime) * 64 * time.Millisecond)` in Z-time. -/
def refTime (ref : Nat) : Int := (ref : Int) * 64000000

/-- `time.Duration(ato) * time.Second / 1024`, also the value of the float expression
`time.Duration(float64(ato)/1024.0*float64(time.Second))` (exact in binary64 for ato < 2^16). -/
def atoNs (ato : Nat) : Int := ((ato * 1000000000 / 1024 : Nat) : Int)

end Interceptor.Feedback

/-
Model of pkg/report/receiver_stream.go (+ the dispatch and per-tick loop of
receiver_interceptor.go), transcribed branch by branch from the code *with the F-07 repair*
(the jitter's timestamp difference is `float64(int32(ts - lastTs))`).  uint16/uint32 are `Nat`
with explicit `%`; the 128×64-bit history is an `Array Bool` of 8192 positions; `jitter` is an
exact binary64 value (`Rat`, Base/F64).
-/
import Interceptor.Base.Seq16
import Interceptor.Model.GoTime
namespace Interceptor.ReceiverReport
open Interceptor Interceptor.F64 Interceptor.GoTime

abbrev M32 : Nat := 4294967296
/-- `size * packetsPerHistoryEntry` = 128 · 64. -/
abbrev W : Nat := 8192

/-- `receiverStream` (without the random receiverSSRC, which the harness masks). -/
structure Stream where
  ssrc : Nat
  rate : Nat                        -- clockRate (uint32; `float64(clockRate)` is exact)
  bits : Array Bool := Array.replicate W false   -- packets
  started : Bool := false
  cycles : Nat := 0                 -- seqnumCycles (uint16)
  last : Nat := 0                   -- lastSeqnum
  lastReport : Nat := 0             -- lastReportSeqnum
  lastTs : Nat := 0                 -- lastRTPTimeRTP
  lastTime : Option Int := none     -- lastRTPTimeTime
  jitter : Rat := 0
  lsr : Nat := 0                    -- lastSenderReport
  lsrTime : Option Int := none      -- lastSenderReportTime (none = zero time.Time)
  totalLost : Nat := 0

/-- `newReceiverStream`. -/
def new (ssrc rate : Nat) : Stream := { ssrc, rate }

/-- `setReceived` / `delReceived`: position `seq % 8192`. -/
def setBit (b : Array Bool) (seq : Nat) (v : Bool) : Array Bool := b.setIfInBounds (seq % W) v
/-- `getReceived`. -/
def getBit (b : Array Bool) (seq : Nat) : Bool := b.getD (seq % W) false

/-- `for i := start; i != end; i++ { delReceived(i) }` with `n` iterations (uint16 counter). -/
def clearRange (b : Array Bool) (start : Nat) : Nat → Array Bool
  | 0 => b
  | n + 1 => clearRange (setBit b start false) (add16 start 1) n

/-- `for i := start; i != end; i++ { if !getReceived(i) { ret++ } }` with `n` iterations. -/
def countMissing (b : Array Bool) (start : Nat) : Nat → Nat
  | 0 => 0
  | n + 1 => (if getBit b start then 0 else 1) + countMissing b (add16 start 1) n

/-- `int32(a - b)` on uint32 operands (the repaired timestamp difference). -/
def sdiff32 (a b : Nat) : Int :=
  let d := (a + M32 - b % M32) % M32
  if d < 2147483648 then (d : Int) else (d : Int) - 4294967296

/-- the jitter sample `|D|`: arrival difference in timestamp units minus the timestamp
difference (RFC 3550 A.8), all in binary64. -/
def jitterD (rate : Nat) (elapsedNs : Int) (ts lastTs : Nat) : Rat :=
  let d := F64.sub (mul (seconds elapsedNs) (ofInt rate)) (ofInt (sdiff32 ts lastTs))
  if d < 0 then -d else d

/-- `jitter += (D - jitter) / 16`. -/
def jitterStep (j d : Rat) : Rat := add j (div (F64.sub d j) 16)

/-- `processRTP(now, header)`. -/
def processRTP (s : Stream) (now : Int) (seq ts : Nat) : Stream :=
  if !s.started then
    { s with started := true, bits := setBit s.bits seq true, last := seq, lastReport := sub16 seq 1,
             lastTs := ts, lastTime := some now }
  else
    let bits1 := setBit s.bits seq true
    let diff := sub16 seq s.last
    let s1 : Stream :=
      if 0 < diff ∧ diff < 32768 then
        { s with cycles := if seq < s.last then (s.cycles + 1) % 65536 else s.cycles,
                 bits := clearRange bits1 (add16 s.last 1) (diff - 1),
                 last := seq }
      else { s with bits := bits1 }
    { s1 with jitter := jitterStep s.jitter (jitterD s.rate (GoTime.sub now s.lastTime) ts s.lastTs),
              lastTs := ts, lastTime := some now }

/-- `processSenderReport(now, sr)`. -/
def processSR (s : Stream) (now : Int) (ntp : Nat) : Stream :=
  { s with lsr := (ntp / 65536) % M32, lsrTime := some now }

/-- one `rtcp.ReceptionReport`. -/
structure RR where
  ssrc : Nat
  ext : Nat          -- LastSequenceNumber
  fraction : Nat     -- FractionLost
  totalLost : Nat
  jitter : Nat
  lsr : Nat
  delay : Nat
  deriving Repr, DecidableEq

/-- `totalSinceReport`. -/
def expectedInterval (s : Stream) : Nat := sub16 s.last s.lastReport

/-- `totalLostSinceReport` (before the 24-bit clamp, which cannot bind: it is < 65536). -/
def lostInterval (s : Stream) : Nat :=
  if s.last = s.lastReport then 0
  else countMissing s.bits (add16 s.lastReport 1) (expectedInterval s - 1)

/-- `uint8(float64(lost*256) / float64(total))`; `total = 0` gives 0/0 = NaN whose conversion is
implementation-defined in Go: amd64 yields 0 (checked by the correspondence). -/
def fractionLost (lost total : Nat) : Nat :=
  if total = 0 then 0 else toUint8 (div (ofInt ((lost * 256 % M32 : Nat) : Int)) (ofInt (total : Int)))

/-- `generateReport(now)`: the report and the state after it. -/
def generateReport (s : Stream) (now : Int) : RR × Stream :=
  let total := expectedInterval s
  let lost := lostInterval s
  let totalLost1 := (s.totalLost + lost) % M32
  let lost' := if lost > 16777215 then 16777215 else lost
  let totalLost2 := if totalLost1 > 16777215 then 16777215 else totalLost1
  ({ ssrc := s.ssrc
     ext := (s.cycles * 65536 + s.last) % M32
     fraction := fractionLost lost' total
     totalLost := totalLost2
     jitter := toUint32 s.jitter
     lsr := s.lsr
     delay := match s.lsrTime with
       | none => 0
       | some t => toUint32 (mul (seconds (max (now - t) 0)) 65536) },
   { s with totalLost := totalLost2, lastReport := s.last })

/-! The interceptor: `streams` (a sync.Map keyed by SSRC) as a list kept sorted by SSRC. -/

abbrev Streams := List Stream

def store (ss : Streams) (s : Stream) : Streams :=
  match ss with
  | [] => [s]
  | x :: xs => if s.ssrc < x.ssrc then s :: x :: xs else if s.ssrc = x.ssrc then s :: xs else x :: store xs s

def delete (ss : Streams) (ssrc : Nat) : Streams := ss.filter (·.ssrc ≠ ssrc)

def update (ss : Streams) (ssrc : Nat) (f : Stream → Stream) : Streams :=
  ss.map fun s => if s.ssrc = ssrc then f s else s

/-- one tick of `loop`: a report per stream. -/
def tick (ss : Streams) (now : Int) : List RR × Streams :=
  let rs := ss.map (generateReport · now)
  (rs.map (·.1), rs.map (·.2))

end Interceptor.ReceiverReport

/-
Go `time` pieces shared by the report models.  A `time.Time` is its UnixNano (`Int`); the zero
`time.Time{}` is `none`.  `Duration.Seconds()` over the exact binary64 model.
-/
import Interceptor.Base.F64
namespace Interceptor.GoTime
open Interceptor.F64

/-- `time.Duration` max value: `Time.Sub` saturates here when the true difference overflows
(the only case that occurs: a real instant minus the zero `time.Time`, year 1). -/
def maxDuration : Int := 9223372036854775807

/-- `now.Sub(t)` for a real `now` (years 1970..2262) and `t` either real or the zero time. -/
def sub (now : Int) (t : Option Int) : Int :=
  match t with
  | none => maxDuration
  | some u => now - u

/-- `Duration.Seconds()`: `sec := d / Second; nsec := d % Second; float64(sec) + float64(nsec)/1e9`
(Go integer division truncates toward zero). -/
def seconds (d : Int) : Rat :=
  add (ofInt (d.tdiv 1000000000)) (div (ofInt (d.tmod 1000000000)) 1000000000)

/-- the virtual clock of a synctest bubble starts here: 2000-01-01 00:00:00 UTC. -/
def epoch2000 : Int := 946684800000000000

end Interceptor.GoTime

/-
Model of internal/rtpbuffer (rtpbuffer.go, packet_factory.go, retainable_packet.go) and of
pkg/nack/responder_interceptor.go, transcribed branch by branch from the *fixed* code
(fix F-04: a late Add outside the window is dropped and released; fix F-05: the pooled
payload buffer is 1460+2 bytes so the RTX prefix never truncates the payload; fix F-06: `Close`
sets `closed`, after which NACKs are ignored, and waits for the resend goroutines in flight;
fix F-36: legacy padding is measured against the original payload, not the RTX prefix).
Core Lean only.
-/
import Interceptor.Base.Seq16
namespace Interceptor.RtpBuffer
open Interceptor

/-! ### RTPBuffer -/

/-- `seq % r.size` (kept as a named function so that proofs can treat it abstractly). -/
def ix (size x : Nat) : Nat := x % size

/-- `RTPBuffer{packets, size, highestAdded, started}`; `α` is the stored packet. -/
structure Buf (α : Type) where
  slots : Array (Option α)
  size : Nat
  highest : Nat
  started : Bool

/-- the sizes `NewRTPBuffer` accepts: `1<<i` for `i` in `0..15`. -/
def validSize (n : Nat) : Bool :=
  [1, 2, 4, 8, 16, 32, 64, 128, 256, 512, 1024, 2048, 4096, 8192, 16384, 32768].contains n

def Buf.new {α : Type} (size : Nat) : Option (Buf α) :=
  if validSize size then some { slots := Array.replicate size none, size := size, highest := 0, started := false }
  else none

/-- content of slot `i` (`r.packets[i]`, `nil` = `none`). -/
def slot {α : Type} (s : Array (Option α)) (i : Nat) : Option α := (s[i]?).getD none

/-- the loop `for i := highestAdded+1; i != seq; i++ { release; packets[i%size] = nil }`, run
for `n` iterations from `i`: resulting slots. -/
def clearSlots {α : Type} (size : Nat) : Array (Option α) → Nat → Nat → Array (Option α)
  | s, _, 0 => s
  | s, i, n + 1 => clearSlots size (s.setIfInBounds (ix size i) none) (add16 i 1) n

/-- the packets `Release`d by that loop, in order. -/
def clearRel {α : Type} (size : Nat) : Array (Option α) → Nat → Nat → List α
  | _, _, 0 => []
  | s, i, n + 1 => (slot s (ix size i)).toList ++ clearRel size (s.setIfInBounds (ix size i) none) (add16 i 1) n

/-- `Add`: new buffer and the packets on which `Release` is called, in order. -/
def add {α : Type} (seqOf : α → Nat) (b : Buf α) (p : α) : Buf α × List α :=
  let seq := seqOf p
  if b.started = false then
    ({ b with slots := b.slots.setIfInBounds (ix b.size seq) (some p), highest := seq, started := true }, [])
  else
    let diff := sub16 seq b.highest
    if diff = 0 then (b, [])
    else if diff < 32768 then
      let rel := clearRel b.size b.slots (add16 b.highest 1) (diff - 1)
      let s := clearSlots b.size b.slots (add16 b.highest 1) (diff - 1)
      let idx := ix b.size seq
      ({ b with slots := s.setIfInBounds idx (some p), highest := seq }, rel ++ (slot s idx).toList)
    else if sub16 b.highest seq ≥ b.size then
      (b, [p])                                   -- too old: dropped and released (fix F-04)
    else
      let idx := ix b.size seq
      ({ b with slots := b.slots.setIfInBounds idx (some p) }, (slot b.slots idx).toList)

/-- `Get` without the reference counting (the `Retain` is accounted by the caller). -/
def get {α : Type} (seqOf : α → Nat) (b : Buf α) (seq : Nat) : Option α :=
  let diff := sub16 b.highest seq
  if diff ≥ 32768 then none
  else if diff ≥ b.size then none
  else
    match slot b.slots (ix b.size seq) with
    | none => none
    | some p => if seqOf p ≠ seq then none else some p

/-- `Clear`: new buffer and the released packets in slot order. -/
def clear {α : Type} (b : Buf α) : Buf α × List α :=
  ({ b with slots := Array.replicate b.slots.size none, started := false },
   b.slots.toList.filterMap id)

/-! ### RTP header and PacketFactoryCopy.NewPacket -/

structure Hdr where
  version : Nat
  padding : Bool
  extension : Bool
  marker : Bool
  pt : Nat
  seq : Nat
  ts : Nat
  ssrc : Nat
  csrc : List Nat
  profile : Nat
  exts : List (Nat × List Nat)
  paddingSize : Nat
  deriving Repr, DecidableEq, Inhabited

/-- a stored packet: the original sequence number (ring key), header and payload as they will be
written on a retransmission. -/
structure Pkt where
  seq : Nat
  hdr : Hdr
  payload : List Nat
  deriving Repr, DecidableEq, Inhabited

def maxPayloadLen : Nat := 1460

/-- big-endian 16 bit. -/
def be16 (n : Nat) : List Nat := [n / 256 % 256, n % 256]

/-- `rtxSsrc != 0 && rtxPayloadType != 0`. -/
def rtxOn (rtxSsrc rtxPt : Nat) : Bool := rtxSsrc ≠ 0 && rtxPt ≠ 0

inductive NPErr | short | padding
  deriving Repr, DecidableEq

/-- `PacketFactoryCopy.NewPacket`. `rtxSeq` is the value the RTX sequencer returns if asked.
Result: the packet (or error) and whether the sequencer was advanced. -/
def newPacket (h : Hdr) (payload : List Nat) (rtxSsrc rtxPt rtxSeq : Nat) : Except NPErr Pkt × Bool :=
  if payload.length > maxPayloadLen then (.error .short, false)
  else if rtxOn rtxSsrc rtxPt then
    -- copy(buffer[2:], payload); payload = buffer[:size+2]; PutUint16(payload, seq)
    let pl := be16 h.seq ++ payload
    let h1 := { h with ssrc := rtxSsrc, pt := rtxPt, seq := rtxSeq }
    if h1.padding then
      -- the count is the last byte of the original payload and may cover at most that payload,
      -- never the 2-byte prefix (fix F-36)
      if h1.paddingSize = 0 ∧ pl.length > 2 then
        let paddingLength := pl.getLastD 0
        if paddingLength > pl.length - 2 then (.error .padding, true)
        else
          (.ok { seq := h.seq, hdr := { h1 with padding := false, paddingSize := 0 },
                 payload := pl.take (pl.length - paddingLength) }, true)
      else
        (.ok { seq := h.seq, hdr := { h1 with padding := false, paddingSize := 0 }, payload := pl }, true)
    else (.ok { seq := h.seq, hdr := h1, payload := pl }, true)
  else (.ok { seq := h.seq, hdr := h, payload := payload }, false)

/-! ### NACK pair expansion (`rtcp.NackPair.Range`, external: written out) -/

def pairSeqs (pid blp : Nat) : List Nat :=
  pid :: ((List.range 16).filter (fun i => blp / 2 ^ i % 2 = 1)).map (fun i => add16 pid (i + 1))

def expand (pairs : List (Nat × Nat)) : List Nat :=
  pairs.flatMap (fun pr => pairSeqs pr.1 pr.2)

/-! ### ResponderInterceptor -/

/-- one `BindLocalStream` call; `buf = none` when the stream filter rejected it (plain
pass-through writer). The index in `Resp.streams` is the harness' writer id. -/
structure Stream where
  ssrc : Nat
  rtxSsrc : Nat
  rtxPt : Nat
  buf : Option (Buf Pkt)

/-- a resend goroutine blocked inside the downstream `Write` (the harness can hold it there):
stream index, retained packet, remaining requests. -/
structure Pending where
  w : Nat
  held : Pkt
  rest : List Nat

structure Resp where
  size : Nat
  streams : Array Stream
  bound : List (Nat × Nat)      -- `n.streams`: ssrc ↦ stream index
  rtxNext : Nat                 -- next value of the RTX sequencer
  hold : Bool
  pending : Option Pending
  closed : Bool                 -- `n.closed`: set by Close, never reset; NACKs are ignored afterwards
  closeWaiting : Bool           -- a `Close` is blocked in `resends.Wait()` behind the pending resend

def Resp.new (size rtxStart : Nat) : Option Resp :=
  if validSize size then
    some { size := size, streams := #[], bound := [], rtxNext := rtxStart, hold := false, pending := none,
           closed := false, closeWaiting := false }
  else none

def lookupBound (bound : List (Nat × Nat)) (ssrc : Nat) : Option Nat :=
  (bound.find? (·.1 = ssrc)).map (·.2)

/-- `BindLocalStream`. `fb` = the stream info carries plain `nack` feedback. -/
def Resp.bind (r : Resp) (ssrc rtxSsrc rtxPt : Nat) (fb : Bool) : Resp :=
  if fb then
    let w := r.streams.size
    { r with streams := r.streams.push { ssrc, rtxSsrc, rtxPt, buf := Buf.new r.size },
             bound := (ssrc, w) :: r.bound.filter (·.1 ≠ ssrc) }
  else
    { r with streams := r.streams.push { ssrc, rtxSsrc, rtxPt, buf := none } }

inductive WriteOut
  | passed (h : Hdr) (payload : List Nat)   -- reached the bottom writer
  | err (e : NPErr)
  | badWriter

/-- the writer returned by `BindLocalStream` for stream `w`. -/
def Resp.write (r : Resp) (w : Nat) (h : Hdr) (payload : List Nat) : Resp × WriteOut :=
  match r.streams[w]? with
  | none => (r, .badWriter)
  | some st =>
    match st.buf with
    | none => (r, .passed h payload)
    | some b =>
      if h.ssrc ≠ st.ssrc then (r, .passed h payload)
      else
        let (res, adv) := newPacket h payload st.rtxSsrc st.rtxPt r.rtxNext
        let r := { r with rtxNext := if adv then add16 r.rtxNext 1 else r.rtxNext }
        match res with
        | .error e => (r, .err e)
        | .ok p =>
          let b' := (add Pkt.seq b p).1
          ({ r with streams := r.streams.setIfInBounds w { st with buf := some b' } }, .passed h payload)

def clearStream (r : Resp) (w : Nat) : Resp :=
  match r.streams[w]? with
  | some st =>
    match st.buf with
    | some b => { r with streams := r.streams.setIfInBounds w { st with buf := some (clear b).1 } }
    | none => r
  | none => r

/-- `UnbindLocalStream`. -/
def Resp.unbind (r : Resp) (ssrc : Nat) : Resp :=
  match lookupBound r.bound ssrc with
  | none => r
  | some w => clearStream { r with bound := r.bound.filter (·.1 ≠ ssrc) } w

/-- `Close`: marks the interceptor closed, unbinds and clears every stream; it then waits for the
resend goroutines in flight (`closeWaiting` while one is held inside the downstream `Write`). -/
def Resp.close (r : Resp) : Resp :=
  r.bound.foldl (fun r e => clearStream r e.2)
    { r with bound := [], closed := true, closeWaiting := r.closeWaiting || r.pending.isSome }

def streamGet (r : Resp) (w seq : Nat) : Option Pkt :=
  match r.streams[w]? with
  | some st => match st.buf with
    | some b => get Pkt.seq b seq
    | none => none
  | none => none

/-- the loop of `resendPackets` over the requested numbers for stream `w`, with nothing holding
the downstream writer: the packets written, in order. -/
def resendAll (r : Resp) (w : Nat) (seqs : List Nat) : List Pkt :=
  seqs.filterMap (streamGet r w)

/-- same loop while the harness holds the downstream writer: runs up to the first packet found
and stays blocked in its `Write`. -/
def resendHeld (r : Resp) (w : Nat) : List Nat → Option Pending
  | [] => none
  | x :: xs =>
    match streamGet r w x with
    | some p => some { w := w, held := p, rest := xs }
    | none => resendHeld r w xs

/-- the reader of `BindRTCPReader` for one NACK followed by `resendPackets`: (new state, packets
written now as (stream index, packet)). After `Close` no resend is started. -/
def Resp.nack (r : Resp) (ssrc : Nat) (pairs : List (Nat × Nat)) : Resp × List (Nat × Pkt) :=
  if r.closed then (r, [])
  else
    match lookupBound r.bound ssrc with
    | none => (r, [])
    | some w =>
      if r.hold then ({ r with pending := resendHeld r w (expand pairs) }, [])
      else (r, (resendAll r w (expand pairs)).map (fun p => (w, p)))

/-- the harness releases the downstream writer: the blocked `Write` completes with the retained
packet, the goroutine goes on with the rest of its requests against the *current* buffer; a `Close`
waiting for it returns. -/
def Resp.resume (r : Resp) : Resp × List (Nat × Pkt) :=
  match r.pending with
  | none => ({ r with hold := false, closeWaiting := false }, [])
  | some pd =>
    ({ r with hold := false, pending := none, closeWaiting := false },
     (pd.w, pd.held) :: (resendAll r pd.w pd.rest).map (fun p => (pd.w, p)))

end Interceptor.RtpBuffer

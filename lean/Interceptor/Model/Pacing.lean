/-
Model of pkg/pacing/interceptor.go (+ rate_limit_pacer.go) and pkg/gcc/leaky_bucket_pacer.go.

Pacing interceptor.  State: the buffered channel `i.queue` (`chan`), the loop-local slice
(`loc`), the limiter, and two ghost lists (`accepted`, `delivered`).  Events: `accept p`
(the `select` in the writer returned by BindLocalStream took the send case), `drain` (the
loop's `case pkt := <-i.queue`), `tick now` (the loop's `case now := <-ticker.C`: release the
head while `Budget(now) > 8*len`, charging `AllowN`), `setRate`, `close`.  Every interleaving
of writers with the loop is a list of these events (a send that happens while the loop is in
the middle of a tick only appends to `chan`, which the tick does not read, so it commutes to
after the tick).

The token bucket golang.org/x/time/rate is a *parameter* (`Limiter`).  Two instances:
`xtb` — exact integer arithmetic in units of 10⁻⁹ bit (the idealisation the envelope and
liveness theorems are about), and `ftb` — the same algorithm with every binary64 rounding of
x/time/rate v0.14.0 mirrored over exact rationals (`rne`), which the driver runs so that
virtual-time delivery instants match the implementation exactly.
-/
import Interceptor.Base.Res
namespace Interceptor.Pacing

/-! ## the limiter parameter -/

/-- `pacer` interface of pkg/pacing: times in ns, amounts in bits. -/
structure Limiter (L : Type) where
  /-- `Budget(now) > n` -/
  budgetGt : L → Nat → Nat → Bool
  /-- state after `AllowN(now, n)` (the result is ignored by the loop) -/
  allow : L → Nat → Nat → L
  /-- `SetRate(rate, burst)` at `now` (`SetLimit` then `SetBurst`, both read `time.Now()`) -/
  setRate : L → Nat → Nat → Nat → L

/-- `burst(rate, interval)`: `max(8*1500, int(float64(rate)/float64(1000/interval.Milliseconds())))`
for intervals of 1 ms .. 1 s (the float division of two integers below 2^53 by an integer
≤ 1000 truncates to the integer quotient).  `ivlUs` is the interval in µs. -/
def burstOf (rate ivlUs : Nat) : Nat :=
  let ms := if ivlUs = 0 then 1 else ivlUs / 1000
  max 12000 (rate / (1000 / ms))

/-! ## exact token bucket

Amounts are integers in units of `1/g` bit (`g = 10⁹` makes `rate·Δt[ns]` an integer number of
units); `d` is the saturation value of `time.Duration` (2^63-1 ns), met only while `last` is the
zero time.  The theorems hold for every `g` and `d`. -/

def giga : Nat := 1000000000
/-- `time.Duration` saturates at 2^63-1 ns. -/
def maxDur : Nat := 9223372036854775807

structure XTB where
  tokens : Nat          -- 1/g bit
  last : Option Nat     -- ns; `none` = the zero time.Time
  rate : Nat            -- bit/s
  burst : Nat           -- bit
  deriving Repr, DecidableEq

namespace XTB
/-- `advance`: tokens available at `t` (does not change the state). -/
def advance (g d : Nat) (tb : XTB) (t : Nat) : Nat :=
  let el := match tb.last with
    | none => d
    | some l => t - l            -- `if t.Before(last) { last = t }`: truncated subtraction
  min (tb.burst * g) (tb.tokens + el * tb.rate)

def budgetGt (g d : Nat) (tb : XTB) (now n : Nat) : Bool := decide (n * g < tb.advance g d now)

/-- `reserveN(t, n, 0)`: granted iff `n ≤ burst` and the tokens cover `n`. -/
def allow (g d : Nat) (tb : XTB) (now n : Nat) : XTB :=
  if n ≤ tb.burst ∧ n * g ≤ tb.advance g d now then
    { tb with tokens := tb.advance g d now - n * g, last := some now }
  else tb

def setRate (g d : Nat) (tb : XTB) (now r b : Nat) : XTB :=
  let tb1 : XTB := { tb with tokens := tb.advance g d now, last := some now, rate := r }
  { tb1 with tokens := tb1.advance g d now, last := some now, burst := b }

def init (g : Nat) (rate burst : Nat) : XTB := { tokens := burst * g, last := none, rate := rate, burst := burst }
end XTB

def xtbG (g d : Nat) : Limiter XTB := ⟨XTB.budgetGt g d, XTB.allow g d, XTB.setRate g d⟩
/-- the instance in ns and 10⁻⁹ bit. -/
def xtb : Limiter XTB := xtbG giga maxDur

/-! ## binary64 token bucket (x/time/rate v0.14.0 as compiled: float64 tokens) -/

def pow2 (e : Int) : Rat :=
  if e ≥ 0 then ((2 ^ e.toNat : Nat) : Rat) else 1 / ((2 ^ (-e).toNat : Nat) : Rat)

/-- round-to-nearest-even of a positive rational to the binary64 grid (normal range). -/
def rnePos (q : Rat) : Rat :=
  let n := q.num.toNat
  let d := q.den
  let e0 : Int := (Nat.log2 n : Int) - (Nat.log2 d : Int)
  let e : Int := if q < pow2 e0 then e0 - 1 else if pow2 (e0 + 1) ≤ q then e0 + 1 else e0
  let sh : Int := e - 52
  let a := if sh ≥ 0 then n else n * 2 ^ (-sh).toNat
  let b := if sh ≥ 0 then d * 2 ^ sh.toNat else d
  let fl := a / b
  let r := a % b
  let m := if 2 * r < b then fl else if 2 * r > b then fl + 1 else if fl % 2 = 0 then fl else fl + 1
  (m : Rat) * pow2 sh

def rne (q : Rat) : Rat :=
  if q = 0 then 0 else if q < 0 then - rnePos (-q) else rnePos q

structure FTB where
  tokens : Rat
  last : Option Nat
  rate : Nat
  burst : Nat

namespace FTB
/-- `time.Duration.Seconds()`. -/
def seconds (ns : Nat) : Rat :=
  rne (((ns / giga : Nat) : Rat) + rne (((ns % giga : Nat) : Rat) / (giga : Rat)))

def tokensFromDuration (rate ns : Nat) : Rat :=
  if rate = 0 then 0 else rne (seconds ns * (rate : Rat))

def advance (tb : FTB) (t : Nat) : Rat :=
  let el := match tb.last with
    | none => maxDur
    | some l => min (t - l) maxDur
  let tokens := rne (tb.tokens + tokensFromDuration tb.rate el)
  if tokens > (tb.burst : Rat) then (tb.burst : Rat) else tokens

def budgetGt (tb : FTB) (now n : Nat) : Bool := decide ((n : Rat) < tb.advance now)

/-- `durationFromTokens` (ns, truncated; `none` = InfDuration). -/
def durationFromTokens (rate : Nat) (tokens : Rat) : Option Int :=
  if rate = 0 then none else
  let d := rne (rne (tokens / (rate : Rat)) * (giga : Rat))
  if d > (maxDur : Rat) then none else some d.floor

def allow (tb : FTB) (now n : Nat) : FTB :=
  let tokens := rne (tb.advance now - (n : Rat))
  let waitOk : Bool :=
    if tokens < 0 then
      match durationFromTokens tb.rate (-tokens) with
      | none => false
      | some w => decide (w ≤ 0)
    else true
  if n ≤ tb.burst ∧ waitOk then { tb with tokens := tokens, last := some now } else tb

def setRate (tb : FTB) (now r b : Nat) : FTB :=
  let tb1 : FTB := { tb with tokens := tb.advance now, last := some now, rate := r }
  { tb1 with tokens := tb1.advance now, last := some now, burst := b }

def init (rate burst : Nat) : FTB := { tokens := (burst : Rat), last := none, rate := rate, burst := burst }
end FTB

def ftb : Limiter FTB := ⟨FTB.budgetGt, FTB.allow, FTB.setRate⟩

/-! ## the interceptor -/

structure St (α L : Type) where
  chan : List α          -- i.queue
  loc : List α           -- `queue` of loop()
  delivered : List α     -- ghost: packets handed to their stream's next writer, in order
  accepted : List α      -- ghost: packets whose Write returned nil
  lim : L
  closed : Bool

inductive Ev (α : Type) where
  | accept (p : α)
  | drain
  | tick (now : Nat)
  | setRate (now r : Nat)
  | close
  deriving Repr

/-- configuration: packet size in bytes, channel capacity, interval (µs), limiter. -/
structure Cfg (α L : Type) where
  sz : α → Nat
  cap : Nat
  ivlUs : Nat
  lm : Limiter L

/-- the `for len(queue) > 0 && Budget(now) > 8*len { AllowN; pop; Write }` loop of one tick:
returns the limiter, the packets released (in order) and the remaining local queue. -/
def releaseLoop {α L} (c : Cfg α L) (now : Nat) : L → List α → L × List α × List α
  | lim, [] => (lim, [], [])
  | lim, p :: l =>
    if c.lm.budgetGt lim now (8 * c.sz p) then
      let r := releaseLoop c now (c.lm.allow lim now (8 * c.sz p)) l
      (r.1, p :: r.2.1, r.2.2)
    else (lim, [], p :: l)

/-- `Write` on a bound stream: `none` = errPacerOverflow (`default` case of the select).
After Close the select may take either the send or the closed case; the model takes the send
(a superset of what can reach the queue; nothing is released after Close by the driver). -/
def accept {α L} (c : Cfg α L) (st : St α L) (p : α) : Option (St α L) :=
  if st.chan.length < c.cap then
    some { st with chan := st.chan ++ [p], accepted := st.accepted ++ [p] }
  else none

def exec {α L} (c : Cfg α L) (st : St α L) : Ev α → St α L
  | .accept p => (accept c st p).getD st
  | .drain =>
    match st.chan with
    | [] => st
    | p :: ch => { st with chan := ch, loc := st.loc ++ [p] }
  | .tick now =>
    let r := releaseLoop c now st.lim st.loc
    { st with lim := r.1, delivered := st.delivered ++ r.2.1, loc := r.2.2 }
  | .setRate now r => { st with lim := c.lm.setRate st.lim now r (burstOf r c.ivlUs) }
  | .close => { st with closed := true }

def run {α L} (c : Cfg α L) (st : St α L) (evs : List (Ev α)) : St α L := evs.foldl (exec c) st

def St.init {α L} (lim : L) : St α L :=
  { chan := [], loc := [], delivered := [], accepted := [], lim := lim, closed := false }

/-- all of `chan` moved to the local queue (what `synctest.Wait()` after a Write achieves). -/
def drainAll {α L} (st : St α L) : St α L := { st with chan := [], loc := st.loc ++ st.chan }

/-! ## leaky bucket pacer -/

/-- pooled buffer size (`make([]byte, 1460)`). -/
def poolSize : Nat := 1460

structure Item (H : Type) where
  hdr : H
  ssrc : Nat
  buf : List Nat     -- `*item.payload`: the whole buffer
  size : Nat         -- `item.size = len(payload)`
  deriving Repr

/-- `copy(dst, src)`: overwrites the first `min(len dst, len src)` bytes. -/
def copyInto (dst src : List Nat) : List Nat := src.take dst.length ++ dst.drop src.length

/-- `Write` after the fix: payloads larger than the pooled buffer get their own buffer.
`pooled` is the buffer `pool.Get()` returned (1460 bytes of stale content). -/
def lItem {H} (pooled : List Nat) (hdr : H) (ssrc : Nat) (payload : List Nat) : Item H :=
  let buf := if payload.length > pooled.length then List.replicate payload.length 0 else pooled
  { hdr := hdr, ssrc := ssrc, buf := copyInto buf payload, size := payload.length }

/-- `Write` before the fix (F-19). -/
def lItemUnfixed {H} (pooled : List Nat) (hdr : H) (ssrc : Nat) (payload : List Nat) : Item H :=
  { hdr := hdr, ssrc := ssrc, buf := copyInto pooled payload, size := payload.length }

/-- `(*next.payload)[:next.size]`. -/
def sliceTo (buf : List Nat) (size : Nat) : Res (List Nat) :=
  if size ≤ buf.length then .ok (buf.take size) else .panic "leaky_bucket_pacer.go:155 (*buf)[:size]"

/-- one packet handed to a writer: stream, header, payload. -/
structure Out (H : Type) where
  ssrc : Nat
  hdr : H
  payload : List Nat
  deriving Repr

structure LSt (H : Type) where
  queue : List (Item H)
  target : Nat            -- p.targetBitrate
  lastSent : Nat          -- ns
  writers : List Nat      -- keys of ssrcToWriter
  processed : List (Item H × Bool)   -- ghost: dequeued items, with "a writer was registered"
  delivered : List (Out H)           -- ghost: every packet handed to a writer (also when that Write failed)
  /-- environment: (ssrc, k) = the k-th call (1-based, counted per SSRC) of that stream's next
  writer returns `(0, err)` -/
  fails : List (Nat × Nat) := []
  /-- SSRCs of the writer calls made so far (newest first) -/
  calls : List Nat := []

/-- `SetTargetBitrate`: `int(1.5 * float64(rate))`. -/
def leakyTarget (rate : Nat) : Nat := 3 * rate / 2

/-- `AddStream` for `s` replaces the failure schedule of that stream. -/
def rebindFails (fails : List (Nat × Nat)) (s : Nat) (fl : List Nat) : List (Nat × Nat) :=
  fails.filter (fun x => x.1 != s) ++ fl.map (fun k => (s, k))

/-- does the next call of the writer of `ssrc` succeed? -/
def writerOk {H} (st : LSt H) (ssrc : Nat) : Bool := !(st.fails.contains (ssrc, st.calls.count ssrc + 1))

/-- the pop loop of one tick.  `n` of the bottom writer is `hsz hdr + size`, or 0 with an error
(the error is only logged: `lastSent` is still updated, nothing is charged, the buffer goes back
to the pool once). -/
def leakyLoop {H} (hsz : H → Nat) (now : Nat) :
    List (Item H) → (budget : Int) → LSt H → Res (LSt H)
  | [], _, st => .ok { st with queue := [] }
  | it :: q, budget, st =>
    if budget > 0 then
      if st.writers.contains it.ssrc then
        match sliceTo it.buf it.size with
        | .ok pl =>
          leakyLoop hsz now q (budget - (if writerOk st it.ssrc then ((hsz it.hdr + it.size : Nat) : Int) else 0))
            { st with lastSent := now, calls := it.ssrc :: st.calls, processed := st.processed ++ [(it, true)],
                      delivered := st.delivered ++ [⟨it.ssrc, it.hdr, pl⟩] }
        | .err e => .err e
        | .panic s => .panic s
      else
        leakyLoop hsz now q budget { st with processed := st.processed ++ [(it, false)] }
    else .ok { st with queue := it :: q }

/-- `budget := int(float64(now.Sub(lastSent).Milliseconds()) * float64(target) / 8000.0)`
(exact for `ms * target < 2^53`). -/
def leakyBudget (now lastSent target : Nat) : Nat := ((now - lastSent) / 1000000) * target / 8000

def leakyTick {H} (hsz : H → Nat) (st : LSt H) (now : Nat) : Res (LSt H) :=
  leakyLoop hsz now st.queue (leakyBudget now st.lastSent st.target : Nat) st

inductive LEv (H : Type) where
  | write (pooled : List Nat) (hdr : H) (ssrc : Nat) (payload : List Nat)
  | bind (ssrc : Nat)
  | setRate (r : Nat)
  | tick (now : Nat)
  /-- environment: from now on the writer of `ssrc` fails at these calls (counted per SSRC, 1-based);
  the harness attaches such a schedule to the writer given to `AddStream` -/
  | setFails (ssrc : Nat) (fails : List Nat)

def lexec {H} (hsz : H → Nat) (mk : List Nat → H → Nat → List Nat → Item H)
    (st : LSt H) : LEv H → Res (LSt H)
  | .write pooled hdr ssrc payload => .ok { st with queue := st.queue ++ [mk pooled hdr ssrc payload] }
  | .bind s => .ok { st with writers := s :: st.writers }
  | .setFails s fl => .ok { st with fails := rebindFails st.fails s fl }
  | .setRate r => .ok { st with target := leakyTarget r }
  | .tick now => leakyTick hsz st now

def lrun {H} (hsz : H → Nat) (mk : List Nat → H → Nat → List Nat → Item H) :
    LSt H → List (LEv H) → Res (LSt H)
  | st, [] => .ok st
  | st, e :: es =>
    match lexec hsz mk st e with
    | .ok st' => lrun hsz mk st' es
    | .err x => .err x
    | .panic s => .panic s

def LSt.init {H} (rate : Nat) : LSt H :=
  { queue := [], target := rate, lastSent := 0, writers := [], processed := [], delivered := [] }

end Interceptor.Pacing

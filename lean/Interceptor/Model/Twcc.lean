/-
Model of pkg/twcc/twcc.go (Recorder, feedback, chunk) and pkg/twcc/arrival_time_map.go,
transcribed branch by branch.  Core Lean only (the driver links this file).

Conventions
* Go `int64`/`int` are unbounded `Int`/`Nat` (sequence numbers stay below 2^47, times below 2^62).
* `uint16` fields are `Nat` reduced `% 65536` where the Go code's wrap-around is observable
  (`nextSequenceNumber`); `sequenceNumberCount` is only ever incremented and read once, so it
  is kept unreduced and reduced in `getRTCP`.
* Go slices that are appended to are `Array`s (same cost model); loops are structural recursion
  with an explicit iteration count computed exactly as the Go loop bound.
-/
import Interceptor.Base.Seq16
import Interceptor.Model.Unwrapper
namespace Interceptor.Twcc

/-! ## packet status symbols and chunks (rtcp.TypeTCCPacket…) -/

inductive Sym where
  | nr      -- TypeTCCPacketNotReceived = 0
  | small   -- TypeTCCPacketReceivedSmallDelta = 1
  | large   -- TypeTCCPacketReceivedLargeDelta = 2
  deriving DecidableEq, Repr, Inhabited

def Sym.code : Sym → Nat
  | .nr => 0
  | .small => 1
  | .large => 2

/-- rtcp.PacketStatusChunk as built by `chunk.encode` (before marshalling). -/
inductive Chunk where
  | run (s : Sym) (n : Nat)     -- RunLengthChunk{PacketStatusSymbol, RunLength}
  | vec1 (l : List Sym)         -- StatusVectorChunk{SymbolSize: one bit, SymbolList}
  | vec2 (l : List Sym)         -- StatusVectorChunk{SymbolSize: two bit, SymbolList}
  deriving DecidableEq, Repr, Inhabited

def maxRunLengthCap : Nat := 8191
def maxOneBitCap : Nat := 14
def maxTwoBitCap : Nat := 7

/-- `type chunk struct`. -/
structure ChunkSt where
  hasLarge : Bool := false
  hasDiff : Bool := false
  deltas : Array Sym := #[]
  deriving Repr, Inhabited

/-- `c.deltas[0]` (the Go code only evaluates it on a non-empty slice). -/
def ChunkSt.first (c : ChunkSt) : Sym := c.deltas.getD 0 .nr

/-- `chunk.canAdd`. -/
def ChunkSt.canAdd (c : ChunkSt) (d : Sym) : Bool :=
  if c.deltas.size < maxTwoBitCap then true
  else if c.deltas.size < maxOneBitCap ∧ c.hasLarge = false ∧ d ≠ .large then true
  else if c.deltas.size < maxRunLengthCap ∧ c.hasDiff = false ∧ d = c.first then true
  else false

/-- `chunk.add`. -/
def ChunkSt.add (c : ChunkSt) (d : Sym) : ChunkSt :=
  let ds := c.deltas.push d
  { deltas := ds
    hasLarge := c.hasLarge || decide (d = .large)
    hasDiff := c.hasDiff || decide (d ≠ ds.getD 0 .nr) }

/-- `chunk.encode`: the emitted chunk and the state left behind (`reset` or the carried-over tail). -/
def ChunkSt.encode (c : ChunkSt) : Chunk × ChunkSt :=
  if c.hasDiff = false then
    (.run c.first (c.deltas.size % 65536), {})
  else if c.deltas.size = maxOneBitCap then
    (.vec1 c.deltas.toList, {})
  else
    let minCap := min maxTwoBitCap c.deltas.size
    let out := c.deltas.extract 0 minCap
    let rest := c.deltas.extract minCap c.deltas.size
    let tmp := rest.getD 0 .nr
    (.vec2 out.toList,
      { deltas := rest
        hasDiff := rest.any (fun d => decide (tmp ≠ d))
        hasLarge := rest.any (fun d => decide (d = .large)) })

/-! ## feedback -/

/-- `type feedback struct` (the `rtcp` field is represented by sender/media/fbCount). -/
structure Feedback where
  sender : Nat
  media : Nat
  fbCount : Nat
  base : Nat := 0          -- baseSequenceNumber uint16
  ref64 : Int := 0         -- refTimestamp64MS
  lastUS : Int := 0        -- lastTimestampUS
  nextSeq : Nat := 0       -- nextSequenceNumber uint16
  count : Nat := 0         -- sequenceNumberCount (unreduced)
  len : Nat := 0
  last : ChunkSt := {}
  chunks : Array Chunk := #[]
  deltas : Array (Sym × Int) := #[]   -- rtcp.RecvDelta{Type, Delta µs}
  deriving Repr, Inhabited

def newFeedback (sender media count : Nat) : Feedback :=
  { sender := sender, media := media, fbCount := count }

/-- `feedback.setBase`; Go's `/` truncates toward zero. -/
def Feedback.setBase (f : Feedback) (seq : Nat) (timeUS : Int) : Feedback :=
  let r := timeUS.tdiv 64000
  { f with base := seq, nextSeq := seq, ref64 := r, lastUS := r * 64000 }

/-- the rounding of `addReceived`: nearest multiple of 250 µs, half away from zero. -/
def delta250 (deltaUS : Int) : Int :=
  if deltaUS ≥ 0 then (deltaUS + 125).tdiv 250 else (deltaUS - 125).tdiv 250

/-- `maxDeltaBytes`: cap on the recv delta bytes of one feedback (keeps the packet below 64 KiB). -/
def maxDeltaBytes : Nat := 0xC000

/-- one iteration of `if !canAdd(sym) { chunks = append(chunks, encode()) }; lastChunk.add(sym)`. -/
def Feedback.pushSym (f : Feedback) (s : Sym) : Feedback :=
  let f := if f.last.canAdd s then f else
    let (ch, l) := f.last.encode
    { f with chunks := f.chunks.push ch, last := l }
  { f with last := f.last.add s }

/-- the `for ; f.nextSequenceNumber != sequenceNumber; f.nextSequenceNumber++` loop body, `n` times. -/
def Feedback.addNRs : Nat → Feedback → Feedback
  | 0, f => f
  | n + 1, f =>
    let f := f.pushSym .nr
    Feedback.addNRs n { f with count := f.count + 1 }

/-- `feedback.addReceived`; `none` = `false` (nothing modified). -/
def Feedback.addReceived (f : Feedback) (seq : Nat) (timeUS : Int) : Option Feedback :=
  let deltaUS := timeUS - f.lastUS
  let d := delta250 deltaUS
  if d < -32768 ∨ d > 32767 then none else
  -- the packet would outgrow what a 16 bit length can describe
  if f.len ≥ maxDeltaBytes then none else
  let rounded := d * 250
  -- the loop runs uint16(seq - next) times and leaves next = seq
  let f := Feedback.addNRs (sub16 seq f.nextSeq) f
  let f := { f with nextSeq := seq }
  let (sym, f) :=
    if d ≥ 0 ∧ d ≤ 255 then (Sym.small, { f with len := f.len + 1 })
    else (Sym.large, { f with len := f.len + 2 })
  let f := f.pushSym sym
  some { f with
    deltas := f.deltas.push (sym, rounded)
    lastUS := f.lastUS + rounded
    count := f.count + 1
    nextSeq := (f.nextSeq + 1) % 65536 }

/-- the feedback as an rtcp.TransportLayerCC (before marshalling). -/
structure Packet where
  sender : Nat
  media : Nat
  base : Nat
  count : Nat          -- PacketStatusCount uint16
  ref : Nat            -- ReferenceTime uint32
  fbCount : Nat
  chunks : List Chunk
  deltas : List (Sym × Int)
  hdrLength : Nat      -- Header.Length
  padding : Bool
  deriving Repr, Inhabited

/-- `for len(f.lastChunk.deltas) > 0 { chunks = append(chunks, encode()) }`. -/
def flushChunks : Nat → ChunkSt → Array Chunk → Array Chunk
  | 0, _, cs => cs
  | fuel + 1, c, cs =>
    if c.deltas.size > 0 then
      let (ch, c') := c.encode
      flushChunks fuel c' (cs.push ch)
    else cs

/-- `feedback.getRTCP`. -/
def Feedback.getRTCP (f : Feedback) : Packet :=
  let chunks := flushChunks (f.last.deltas.size + 1) f.last f.chunks
  let padLen := 20 + chunks.size * 2 + f.len
  let padding := padLen % 4 ≠ 0
  let padLen := if padLen % 4 = 0 then padLen else padLen + (4 - padLen % 4)
  { sender := f.sender, media := f.media, base := f.base
    count := f.count % 65536
    ref := (f.ref64 % 4294967296).toNat
    fbCount := f.fbCount
    chunks := chunks.toList
    deltas := f.deltas.toList
    hdrLength := (padLen / 4 - 1) % 65536
    padding := padding }

/-! ## arrival time map -/

def minCapacity : Nat := 128
def maxNumberOfPackets : Int := 32768

/-- `type packetArrivalTimeMap struct`; `arrivalTimes == nil` is `buf.size = 0`. -/
structure ArrivalMap where
  buf : Array Int := #[]
  beginSN : Int := 0
  endSN : Int := 0
  deriving Repr, Inhabited

namespace ArrivalMap

def cap (m : ArrivalMap) : Nat := m.buf.size

/-- `sn & (cap-1)` on a two's-complement int64 with `cap` a power of two = Euclidean remainder. -/
def slot (capacity : Nat) (sn : Int) : Nat := (sn % (capacity : Int)).toNat

def get (m : ArrivalMap) (sn : Int) : Int :=
  if sn < m.beginSN ∨ sn ≥ m.endSN then -1 else m.buf.getD (slot m.cap sn) 0

def set (m : ArrivalMap) (sn t : Int) : ArrivalMap :=
  { m with buf := m.buf.setIfInBounds (slot m.cap sn) t }

def hasReceived (m : ArrivalMap) (sn : Int) : Bool := m.get sn ≥ 0

def clamp (m : ArrivalMap) (sn : Int) : Int :=
  if sn < m.beginSN then m.beginSN
  else if m.endSN < sn then m.endSN
  else sn

/-- the copy loop of `reallocate`. -/
def reallocLoop (m : ArrivalMap) (newCap : Nat) : Nat → Int → Array Int → Array Int
  | 0, _, nb => nb
  | n + 1, sn, nb => reallocLoop m newCap n (sn + 1) (nb.setIfInBounds (slot newCap sn) (m.get sn))

def reallocate (m : ArrivalMap) (newCap : Nat) : ArrivalMap :=
  { m with buf := reallocLoop m newCap (m.endSN - m.beginSN).toNat m.beginSN (Array.replicate newCap 0) }

/-- `for newCapacity < newSize { newCapacity *= 2 }`. -/
def growCap : Nat → Nat → Int → Nat
  | 0, c, _ => c
  | fuel + 1, c, n => if (c : Int) < n then growCap fuel (c * 2) n else c

/-- `for newCapacity >= 2*max(newSize, minCapacity) { newCapacity /= 2 }`. -/
def shrinkCap : Nat → Nat → Int → Nat
  | 0, c, _ => c
  | fuel + 1, c, n => if (c : Int) ≥ 2 * max n (minCapacity : Int) then shrinkCap fuel (c / 2) n else c

def adjustToSize (m : ArrivalMap) (newSize : Int) : ArrivalMap :=
  let m := if newSize > (m.cap : Int) then m.reallocate (growCap 64 m.cap newSize) else m
  if (m.cap : Int) > max (minCapacity : Int) (newSize * 4) then
    m.reallocate (shrinkCap 64 m.cap newSize)
  else m

def setNRLoop (capacity : Nat) : Nat → Int → Array Int → Array Int
  | 0, _, b => b
  | n + 1, sn, b => setNRLoop capacity n (sn + 1) (b.setIfInBounds (slot capacity sn) (-1))

def setNotReceived (m : ArrivalMap) (s e : Int) : ArrivalMap :=
  { m with buf := setNRLoop m.cap (e - s).toNat s m.buf }

/-- `AddPacket`. -/
def addPacket (m : ArrivalMap) (sn t : Int) : ArrivalMap :=
  if m.cap = 0 then
    let m := m.reallocate minCapacity
    ({ m with beginSN := sn, endSN := sn + 1 }).set sn t
  else if sn ≥ m.beginSN ∧ sn < m.endSN then
    m.set sn t
  else if sn < m.beginSN then
    let newSize := m.endSN - sn
    if newSize > maxNumberOfPackets then m
    else
      let m := m.adjustToSize newSize
      let m := m.set sn t
      let m := m.setNotReceived (sn + 1) m.beginSN
      { m with beginSN := sn }
  else
    let newEnd := sn + 1
    if newEnd ≥ m.endSN + maxNumberOfPackets then
      ({ m with beginSN := sn, endSN := newEnd }).set sn t
    else
      let m := if m.beginSN < newEnd - maxNumberOfPackets then
        { m with beginSN := newEnd - maxNumberOfPackets } else m
      let m := m.adjustToSize (newEnd - m.beginSN)
      let m := m.setNotReceived m.endSN sn
      ({ m with endSN := newEnd }).set sn t

def removeLoop : Nat → ArrivalMap → Int → Int → ArrivalMap
  | 0, m, _, _ => m
  | fuel + 1, m, checkTo, limit =>
    if m.beginSN < checkTo ∧ m.get m.beginSN ≤ limit then
      removeLoop fuel { m with beginSN := m.beginSN + 1 } checkTo limit
    else m

/-- `RemoveOldPackets`. -/
def removeOld (m : ArrivalMap) (sn limit : Int) : ArrivalMap :=
  let checkTo := min sn m.endSN
  let m := removeLoop (checkTo - m.beginSN).toNat m checkTo limit
  m.adjustToSize (m.endSN - m.beginSN)

def findLoop (m : ArrivalMap) : Nat → Int → Option (Int × Int)
  | 0, _ => none
  | fuel + 1, seq =>
    if seq < m.endSN then
      let t := m.get seq
      if t ≥ 0 then some (seq, t) else findLoop m fuel (seq + 1)
    else none

/-- `FindNextAtOrAfter`; `none` = `(-1, -1, false)`. -/
def findNext (m : ArrivalMap) (sn : Int) : Option (Int × Int) :=
  let s := m.clamp sn
  findLoop m (m.endSN - s).toNat s

end ArrivalMap

/-! ## Recorder -/

def packetWindowMicroseconds : Int := 500000
def maxMissingSequenceNumbers : Int := 0x7FFE

structure Recorder where
  map : ArrivalMap := {}
  unw : Unwrapper.State := none
  start : Option Int := none      -- startSequenceNumber *int64
  sender : Nat := 0
  media : Nat := 0
  fbCnt : Nat := 0                -- uint8
  held : Nat := 0
  deriving Inhabited

def newRecorder (sender : Nat) : Recorder := { sender := sender }

/-- `Recorder.Record`. -/
def Recorder.record (r : Recorder) (ssrc seq : Nat) (t : Int) : Recorder :=
  let r := { r with media := ssrc }
  let (u, sn) := Unwrapper.unwrap r.unw seq
  let r := { r with unw := u }
  -- maybeCullOldPackets
  let r := match r.start with
    | some s =>
      if s ≥ r.map.endSN ∧ t ≥ packetWindowMicroseconds then
        { r with map := r.map.removeOld sn (t - packetWindowMicroseconds) }
      else r
    | none => r
  let r := match r.start with
    | none => { r with start := some sn }
    | some s => if sn < s then { r with start := some sn } else r
  if r.map.hasReceived sn then r else
  let r := { r with map := r.map.addPacket sn t, held := r.held + 1 }
  match r.start with
  | some s => if s < r.map.beginSN then { r with start := some r.map.beginSN } else r
  | none => r

/-- how the loop of `maybeBuildFeedbackPacket` ends. -/
inductive LoopEnd where
  | done (fb : Option Feedback) (next : Int) (cnt : Nat)
  | abort (seq : Int) (cnt : Nat)     -- `setStartSequenceNumber(seq); return nil`

/-- the `for seq := startSNInclusive; seq < endSNExclusive; seq++` loop. -/
def mbLoop (r : Recorder) (beginIncl endExcl : Int) :
    Nat → Int → Option Feedback → Int → Nat → LoopEnd
  | 0, _, fb, next, cnt => .done fb next cnt
  | fuel + 1, seq, fb, next, cnt =>
    if seq < endExcl then
      match r.map.findNext seq with
      | none => .done fb next cnt
      | some (found, t) =>
        if found ≥ endExcl then .done fb next cnt
        else
          match fb with
          | none =>
            let fb0 := newFeedback r.sender r.media cnt
            let cnt := (cnt + 1) % 256
            let base := max beginIncl (found - maxMissingSequenceNumbers)
            let fb1 := fb0.setBase (base % 65536).toNat t
            match fb1.addReceived (found % 65536).toNat t with
            | none => .abort found cnt
            | some fb2 => mbLoop r beginIncl endExcl fuel (found + 1) (some fb2) (found + 1) cnt
          | some fbx =>
            match fbx.addReceived (found % 65536).toNat t with
            | none => .done (some fbx) next cnt
            | some fb2 => mbLoop r beginIncl endExcl fuel (found + 1) (some fb2) (found + 1) cnt
    else .done fb next cnt

/-- `maybeBuildFeedbackPacket`. -/
def Recorder.maybeBuild (r : Recorder) (beginIncl endExcl : Int) : Recorder × Option Feedback :=
  let s := r.map.clamp beginIncl
  let e := r.map.clamp endExcl
  match mbLoop r beginIncl e (e - s).toNat s none beginIncl r.fbCnt with
  | .done fb next cnt => ({ r with start := some next, fbCnt := cnt }, fb)
  | .abort seq cnt => ({ r with start := some seq, fbCnt := cnt }, none)

/-- the `for *r.startSequenceNumber < endSN` loop of `BuildFeedbackPacket`. -/
def buildLoop (endSN : Int) : Nat → Recorder → Array Packet → Recorder × Array Packet
  | 0, r, acc => (r, acc)
  | fuel + 1, r, acc =>
    match r.start with
    | none => (r, acc)
    | some s =>
      if s < endSN then
        match r.maybeBuild s endSN with
        | (r, none) => (r, acc)
        | (r, some fb) => buildLoop endSN fuel r (acc.push fb.getRTCP)
      else (r, acc)

/-- `Recorder.BuildFeedbackPacket`. -/
def Recorder.build (r : Recorder) : Recorder × List Packet :=
  match r.start with
  | none => (r, [])
  | some s =>
    let endSN := r.map.endSN
    let (r, acc) := buildLoop endSN ((endSN - s).toNat + 1) r #[]
    ({ r with held := 0 }, acc.toList)

/-! ## wire view: what pion/rtcp's Marshal writes and Unmarshal returns (library = parameter) -/

def deltaSize : Sym × Int → Nat
  | (.small, _) => 1
  | _ => 2

/-- `TransportLayerCC.MarshalSize` (Go computes it in uint16; unbounded here, see Props). -/
def Packet.marshalSize (p : Packet) : Nat :=
  let n := 20 + 2 * p.chunks.length + (p.deltas.map deltaSize).sum
  if n % 4 = 0 then n else (n / 4 + 1) * 4

/-- symbols of a status vector packed MSB first into `k` slots of base `B` (2 for one-bit, 4 for
two-bit symbols); a value is truncated to its slot (`setNBitsOfUint16`); missing symbols are zero bits. -/
def packSyms (B : Nat) : Nat → List Sym → Nat
  | 0, _ => 0
  | _ + 1, [] => 0
  | k + 1, s :: rest => (s.code % B) * B ^ k + packSyms B k rest

/-- `RunLengthChunk.Marshal` / `StatusVectorChunk.Marshal` as a 16-bit word. -/
def Chunk.word : Chunk → Nat
  | .run s n => s.code * 8192 + n % 8192
  | .vec1 l => 32768 + packSyms 2 14 l
  | .vec2 l => 32768 + 16384 + packSyms 4 7 l

/-- `RecvDelta.Marshal`: ticks of 250 µs; one byte, or two bytes big endian two's complement. -/
def deltaBytes : Sym × Int → List Nat
  | (.small, d) => [((d.tdiv 250) % 256).toNat]
  | (_, d) => let v := ((d.tdiv 250) % 65536).toNat; [v / 256, v % 256]

/-- the bytes `TransportLayerCC.Marshal` writes after the `fb pkt count` byte. -/
def Packet.body (p : Packet) : List Nat :=
  let cs := p.chunks.flatMap fun c => [c.word / 256, c.word % 256]
  let ds := p.deltas.flatMap deltaBytes
  let raw := cs ++ ds
  let padN := p.marshalSize - 20 - raw.length
  if padN = 0 then raw
  else raw ++ List.replicate (padN - 1) 0 ++ [if p.padding then padN else 0]

end Interceptor.Twcc

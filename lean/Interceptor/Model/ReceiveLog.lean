/-
Model of pkg/nack/receive_log.go (transcribed branch by branch) and of the tick body of
pkg/nack/generator_interceptor.go (`loop`, one bound SSRC at a time).

`uint16` values are `Nat` with explicit `% 65536` (`add16`/`sub16` of Base/Seq16).  The packed
`[]uint64` bitmap is an `Array Bool` with one entry per slot (`seq % size`).  `size` is a
parameter (the Go constructor admits 64,128,…,32768; the theorems need `0 < size ≤ 32768` and
`size ∣ 65536`).  The per-number NACK counters (Go `map[uint16]uint16`) are a `Std.HashMap`
read only through `cnt` (absent key = 0, as a Go map read).
-/
import Std.Data.HashMap
import Interceptor.Base.Seq16
namespace Interceptor.ReceiveLog

structure Log where
  size : Nat
  bits : Array Bool
  end_ : Nat
  lc : Nat            -- lastConsecutive
  started : Bool

/-- `newReceiveLog` accepts exactly these sizes. -/
def validSize (size : Nat) : Bool :=
  [64, 128, 256, 512, 1024, 2048, 4096, 8192, 16384, 32768].contains size

def new (size : Nat) : Log :=
  { size := size, bits := Array.replicate size false, end_ := 0, lc := 0, started := false }

/-- `getReceived(seq)`. -/
def getBit (l : Log) (q : Nat) : Bool := l.bits.getD (q % l.size) false

/-- `setReceived(seq)` (`v = true`) / `delReceived(seq)` (`v = false`). -/
def setBit (l : Log) (q : Nat) (v : Bool) : Log :=
  { l with bits := l.bits.setIfInBounds (q % l.size) v }

/-- `for i := start; n times; i++ { delReceived(i) }`. -/
def clearFrom (l : Log) (i : Nat) : Nat → Log
  | 0 => l
  | n + 1 => clearFrom (setBit l i false) (add16 i 1) n

/-- the loop of `fixLastConsecutive`: `for ; i != end+1 && getReceived(i); i++ {}`; the fuel is
the distance from the start to `end+1`, so running out of fuel is exactly `i == end+1`. -/
def fixScan (l : Log) (i : Nat) : Nat → Nat
  | 0 => i
  | n + 1 => if getBit l i then fixScan l (add16 i 1) n else i

def fixLastConsecutive (l : Log) : Log :=
  let i := fixScan l (add16 l.lc 1) (sub16 l.end_ l.lc)
  { l with lc := sub16 i 1 }

/-- `receiveLog.add`. -/
def add (l : Log) (seq : Nat) : Log :=
  if !l.started then
    { (setBit l seq true) with end_ := seq, started := true, lc := seq }
  else
    let diff := sub16 seq l.end_
    if diff = 0 then l
    else if diff < 32768 then
      -- positive diff: clear the slots between end and seq, move end, re-anchor the cursor
      let l1 := clearFrom l (add16 l.end_ 1) (diff - 1)
      let l2 := { l1 with end_ := seq }
      let l3 :=
        if add16 l2.lc 1 = seq then { l2 with lc := seq }
        else if sub16 seq l2.lc > l2.size then fixLastConsecutive { l2 with lc := sub16 seq l2.size }
        else l2
      setBit l3 seq true
    else if sub16 l.end_ seq ≥ l.size then l      -- older than the window: ignored (fix of F-01)
    else if add16 l.lc 1 = seq then
      setBit (fixLastConsecutive { l with lc := seq }) seq true
    else
      setBit l seq true

/-- `receiveLog.missingSeqNumbers(skipLastN, buf)`. -/
def missing (l : Log) (skip : Nat) : List Nat :=
  if skip > sub16 l.end_ l.lc then []          -- distance test (fix of F-02)
  else
    let until_ := sub16 l.end_ skip
    ((List.range (sub16 until_ l.lc)).map (fun j => add16 (add16 l.lc 1) j)).filter
      (fun i => !getBit l i)

/-! ### tick body of the generator, for one SSRC -/

abbrev Counts := Std.HashMap Nat Nat

/-- Go map read `nackCountLogs[ssrc][seq]`. -/
def cnt (c : Counts) (x : Nat) : Nat := c.getD x 0

/-- the `for _, missingSeq := range missing` loop under `maxNacksPerPacket > 0`:
returns the filtered list and the updated counters. -/
def limit (max : Nat) : List Nat → Counts → List Nat × Counts
  | [], c => ([], c)
  | x :: xs, c =>
    let n := cnt c x
    if n < max then
      let r := limit max xs (c.insert x ((n + 1) % 65536))
      (x :: r.1, r.2)
    else limit max xs c                          -- the counter saturates at the limit (fix of F-03)

/-- `for nackSeq := range counts { if !slices.Contains(missing, nackSeq) { delete } }`, as the
map that keeps exactly the entries of the numbers in `m`. -/
def prune (c : Counts) (m : List Nat) : Counts :=
  m.foldl (fun acc x => acc.insert x (cnt c x)) ∅

/-- one iteration of `for ssrc, receiveLog := range n.receiveLogs` given the missing list:
new counters and the numbers put into the NACK (none = no packet for this SSRC). -/
def tickCounts (max : Nat) (m : List Nat) (c : Counts) : Counts × Option (List Nat) :=
  if m.isEmpty then (∅, none)               -- counters of the SSRC reset, `continue`
  else
    let c1 := prune c m                      -- pruning loop (runs first: fix of F-03b)
    if max > 0 then
      let r := limit max m c1
      if r.1.isEmpty then (r.2, none)        -- `if count == 0 { continue }`
      else (r.2, some r.1)
    else (c1, some m)

structure Stream where
  log : Log
  counts : Counts

structure Cfg where
  size : Nat
  skip : Nat
  max : Nat

def tickStream (cfg : Cfg) (st : Stream) : Stream × Option (List Nat) :=
  let r := tickCounts cfg.max (missing st.log cfg.skip) st.counts
  ({ st with counts := r.1 }, r.2)

/-- the interceptor: configuration and the bound streams (Go: two maps keyed by SSRC). -/
structure Gen where
  cfg : Cfg
  streams : List (Nat × Stream)

def lookup (g : Gen) (ssrc : Nat) : Option Stream := (g.streams.find? (·.1 == ssrc)).map (·.2)

def erase (ss : List (Nat × Stream)) (ssrc : Nat) : List (Nat × Stream) := ss.filter (·.1 != ssrc)

/-- `BindRemoteStream` of a stream that passes the filter: a fresh log; the counters of an SSRC
that is already bound are kept (only `UnbindRemoteStream` deletes them). -/
def bind (g : Gen) (ssrc : Nat) : Gen :=
  let c : Counts := match lookup g ssrc with
    | some st => st.counts
    | none => ∅
  { g with streams := (ssrc, { log := new g.cfg.size, counts := c }) :: erase g.streams ssrc }

def unbind (g : Gen) (ssrc : Nat) : Gen := { g with streams := erase g.streams ssrc }

/-- a successfully read and parsed RTP packet on the reader returned by the latest bind. -/
def rtp (g : Gen) (ssrc seq : Nat) : Gen :=
  { g with streams := g.streams.map fun p => if p.1 == ssrc then (p.1, { p.2 with log := add p.2.log seq }) else p }

/-- one ticker event: every bound stream is processed on its own. -/
def tick (g : Gen) : Gen × List (Nat × List Nat) :=
  let rs := g.streams.map fun p => (p.1, tickStream g.cfg p.2)
  ({ g with streams := rs.map fun p => (p.1, p.2.1) },
   rs.filterMap fun p => p.2.2.map fun l => (p.1, l))

end Interceptor.ReceiveLog

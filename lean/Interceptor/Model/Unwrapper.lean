/-
Model of internal/sequencenumber/unwrapper.go (transcribed branch by branch).
State `none` = not initialised; `some last` = lastUnwrapped.
Go's int64 is modelled as unbounded `Int` (overflow would need > 2^47 wraps; stated in DESIGN §5).
-/
namespace Interceptor.Unwrapper

/-- `isNewer(value, previous uint16)`. -/
def isNewer (value prev : Nat) : Bool :=
  let d := (value + 65536 - prev) % 65536
  if d = 32768 then decide (value > prev)
  else decide (value ≠ prev) && decide (d < 32768)

/-- One `Unwrap` call on an initialised unwrapper. -/
def step (last : Int) (i : Nat) : Int :=
  let lw : Nat := (last % 65536).toNat            -- uint16(u.lastUnwrapped)
  let delta : Int := ((i + 65536 - lw) % 65536 : Nat)  -- int64(i - lastWrapped), never negative
  if isNewer i lw then
    last + delta                                   -- `if delta < 0` is dead code
  else if delta > 0 ∧ last + delta - 65536 ≥ 0 then
    last + (delta - 65536)
  else
    last + delta

abbrev State := Option Int

def unwrap (s : State) (i : Nat) : State × Int :=
  match s with
  | none => (some (i : Int), (i : Int))
  | some last => let r := step last i; (some r, r)

/-- unwrap a whole list from a given state. -/
def unwrapAll : State → List Nat → List Int
  | _, [] => []
  | s, i :: is => let (s', r) := unwrap s i; r :: unwrapAll s' is

end Interceptor.Unwrapper

/-
Model of pkg/flexfec: util/bitarray.go, flexfec_coverage.go, flexfec_encoder_03.go
(FlexEncoder03.EncodeFec / encodeFlexFecPacket) and encoder_interceptor.go, transcribed branch by
branch.  Core Lean only.

A media packet is identified with its marshalled bytes (`Bytes`, each element < 256): pion/rtp's
`MarshalTo` is a parameter of the model (trusted base); the harness only feeds packets whose
re-marshalling is the identity, so `MarshalSize()` is the length of the byte list and the scratch
buffer after `MarshalTo` holds exactly those bytes (the buffer is cleared first since the fix for
the stale-padding defect, see corpus/C14/F-33.ops).

uint64 words are `Nat` with explicit `% 2^64` where Go truncates.
-/
namespace Interceptor.FlexFec

abbrev Bytes := List Nat

def two64 : Nat := 18446744073709551616

/-! ### util/bitarray.go -/

/-- `util.BitArray`: `lo` = leftmost 64 bits, `hi` = rightmost 64 bits (both < 2^64). -/
structure BitArray where
  lo : Nat
  hi : Nat
deriving Repr, DecidableEq, Inhabited

def BitArray.empty : BitArray := ⟨0, 0⟩

/-- `SetBit`.  `63 - hiBitIndex` is computed in uint32: for an index ≥ 128 the shift count
wraps to ≥ 64 and the shifted value is 0. -/
def BitArray.setBit (b : BitArray) (i : Nat) : BitArray :=
  if i < 64 then { b with lo := b.lo ||| (1 <<< (63 - i)) }
  else if i - 64 ≤ 63 then { b with hi := b.hi ||| (1 <<< (63 - (i - 64))) }
  else b

/-- `GetBit` (returns 0 or 1). -/
def BitArray.getBit (b : BitArray) (i : Nat) : Nat :=
  if i < 64 then (if b.lo &&& (1 <<< (63 - i)) > 0 then 1 else 0)
  else if i - 64 ≤ 63 then (if b.hi &&& (1 <<< (63 - (i - 64))) > 0 then 1 else 0)
  else 0

/-! ### flexfec_coverage.go -/

def maxMediaPackets : Nat := 110
def maxFecPackets : Nat := 110

/-- `extractMask1`: `uint16(mask.Lo >> 49)`. -/
def mask1 (b : BitArray) : Nat := (b.lo >>> 49) % 65536
/-- `extractMask2`: `uint32((mask.Lo << 15) >> 33)`. -/
def mask2 (b : BitArray) : Nat := (((b.lo <<< 15) % two64) >>> 33) % 4294967296
/-- `extractMask3_03`: `((mask.Lo << 46) | (mask.Hi >> 18)) >> 1`. -/
def mask3 (b : BitArray) : Nat := ((((b.lo <<< 46) % two64) ||| (b.hi >>> 18)) >>> 1)

/-- inner loop of `UpdateCoverage` for one FEC row: `c := i; for c < n { SetBit(c); c += f }`
(`fuel` ≥ number of iterations; `n` suffices because `f ≥ 1` whenever a row is filled). -/
def fillRow (f n : Nat) : Nat → Nat → BitArray → BitArray
  | 0, _, b => b
  | fuel + 1, c, b => if c < n then fillRow f n fuel (c + f) (b.setBit c) else b

/-- `resetCoverage` followed by the fill loops: rows `i < f` are filled, the others stay zero.
(For `f > 110` the Go code indexes out of range; the drivers reject such ops.) -/
def buildMasks (n f : Nat) : List BitArray :=
  (List.range maxFecPackets).map fun i => if i < f then fillRow f n n i BitArray.empty else BitArray.empty

structure Coverage where
  masks : List BitArray
  numFec : Nat
  numMedia : Nat
  media : List Bytes
deriving Repr, Inhabited

/-- `UpdateCoverage`. -/
def Coverage.update (c : Coverage) (media : List Bytes) (f : Nat) : Coverage :=
  let n := media.length
  if n = 0 ∨ n > maxMediaPackets then c
  else
    let c := { c with media := media }
    if f = c.numFec ∧ n = c.numMedia then c     -- same shape: the table is reused
    else { c with numFec := f, numMedia := n, masks := buildMasks n f }

/-- `NewCoverage`. -/
def newCoverage (media : List Bytes) (f : Nat) : Option Coverage :=
  let n := media.length
  if n = 0 ∨ n > maxMediaPackets then none
  else some (Coverage.update ⟨List.replicate maxFecPackets BitArray.empty, 0, 0, []⟩ media f)

def Coverage.row (c : Coverage) (i : Nat) : BitArray := c.masks.getD i BitArray.empty

/-- `GetCoveredBy`: indices `j < numMedia` with `GetBit(j) == 1`, ascending. -/
def Coverage.coveredBy (c : Coverage) (i : Nat) : List Nat :=
  (List.range c.numMedia).filter fun j => (c.row i).getBit j == 1

/-! ### flexfec_encoder_03.go -/

/-- FlexFEC-03 masks have 15 + 31 + 63 = 109 positions (fix for F-28: larger batches are rejected). -/
def maxFlexFec03MediaPackets : Nat := 109

def seqOf (p : Bytes) : Nat := p.getD 2 0 * 256 + p.getD 3 0

/-- `mediaPackets[i].SequenceNumber != mediaPackets[i-1].SequenceNumber+1` for no `i`. -/
def consecutive : List Bytes → Bool
  | a :: b :: rest => (seqOf b == (seqOf a + 1) % 65536) && consecutive (b :: rest)
  | _ => true

/-- `dst[i] ^= src[i]` for `i < len(src)`.  The repair buffer has the maximum length, so the third
equation (Go: index out of range) is unreachable; it is written zero-extending so that the
function is total and has a uniform pointwise law. -/
def xorInto : Bytes → Bytes → Bytes
  | d :: ds, s :: ss => (d ^^^ s) :: xorInto ds ss
  | ds, [] => ds
  | [], ss => ss

/-- the running xor of one FEC packet: header bytes 0..7 and the repair payload. -/
structure Acc where
  h0 : Nat
  h1 : Nat
  l2 : Nat
  l3 : Nat
  t4 : Nat
  t5 : Nat
  t6 : Nat
  t7 : Nat
  rep : Bytes
deriving Repr, Inhabited

/-- one iteration of the xor loop of `encodeFlexFecPacket` on a marshalled media packet. -/
def Acc.step (a : Acc) (p : Bytes) : Acc :=
  let len := (p.length - 12) % 65536            -- uint16(MarshalSize() - BaseRTPHeaderSize)
  { h0 := (a.h0 ^^^ p.getD 0 0) &&& 63          -- xor, then clear the first two bits
    h1 := a.h1 ^^^ p.getD 1 0
    l2 := a.l2 ^^^ (len >>> 8)
    l3 := a.l3 ^^^ (len % 256)
    t4 := a.t4 ^^^ p.getD 4 0
    t5 := a.t5 ^^^ p.getD 5 0
    t6 := a.t6 ^^^ p.getD 6 0
    t7 := a.t7 ^^^ p.getD 7 0
    rep := xorInto a.rep (p.drop 12) }

def be16 (v : Nat) : Bytes := [(v >>> 8) % 256, v % 256]
def be32 (v : Nat) : Bytes := [(v >>> 24) % 256, (v >>> 16) % 256, (v >>> 8) % 256, v % 256]
def be64 (v : Nat) : Bytes :=
  [(v >>> 56) % 256, (v >>> 48) % 256, (v >>> 40) % 256, (v >>> 32) % 256,
   (v >>> 24) % 256, (v >>> 16) % 256, (v >>> 8) % 256, v % 256]

/-- set the k bit (top bit of the first byte of a mask field). -/
def setK : Bytes → Bytes
  | b :: bs => (b ||| 128) :: bs
  | [] => []

/-- the mask fields with their k bits, as written at offset 18 of the FEC header. -/
def maskBytes (m1 m2 m3 : Nat) : Bytes :=
  if m2 = 0 ∧ m3 = 0 then setK (be16 m1)
  else if m3 = 0 then be16 m1 ++ setK (be32 m2)
  else be16 m1 ++ be32 m2 ++ setK (be64 m3)

/-- the media packets an FEC packet covers. -/
def Coverage.coveredPackets (c : Coverage) (i : Nat) : List Bytes :=
  (c.coveredBy i).map fun j => c.media.getD j []

/-- the FlexFEC payload (header ++ repair payload) of FEC packet `i`; `none` when it covers
nothing (`!mediaPackets.HasNext()`). -/
def fecPayload (c : Coverage) (i baseSn : Nat) : Option Bytes :=
  let ps := c.coveredPackets i
  let b := c.row i
  let m1 := mask1 b
  let m2 := mask2 b
  let m3 := mask3 b
  match ps with
  | [] => none
  | first :: _ =>
    let maxPayload := ps.foldl (fun m p => max m (p.length - 12)) 0
    let a := ps.foldl Acc.step ⟨0, 0, 0, 0, 0, 0, 0, 0, List.replicate maxPayload 0⟩
    some ([a.h0, a.h1, a.l2, a.l3, a.t4, a.t5, a.t6, a.t7, 1, 0, 0, 0]
          ++ (first.drop 8).take 4          -- SSRC of the first covered media packet
          ++ be16 baseSn
          ++ maskBytes m1 m2 m3
          ++ a.rep)

/-- an emitted FEC RTP packet (Version 2, no padding/extension/marker/CSRC). -/
structure FecPkt where
  ssrc : Nat
  pt : Nat
  seq : Nat
  ts : Nat
  payload : Bytes
deriving Repr, Inhabited

structure Encoder where
  pt : Nat
  ssrc : Nat
  fecSn : Nat
  cov : Option Coverage
deriving Repr, Inhabited

def Encoder.new (pt ssrc : Nat) : Encoder := ⟨pt, ssrc, 1000, none⟩

/-- the loop `for fecPacketIndex := range numFecPackets` of `EncodeFec`. -/
def encodeLoop (c : Coverage) (pt ssrc baseSn : Nat) : List Nat → Nat → Nat × List FecPkt
  | [], sn => (sn, [])
  | i :: is, sn =>
    match fecPayload c i baseSn with
    | none => encodeLoop c pt ssrc baseSn is sn
    | some pl =>
      let (sn', rest) := encodeLoop c pt ssrc baseSn is ((sn + 1) % 65536)
      (sn', ⟨ssrc, pt, sn, 54243243, pl⟩ :: rest)

/-- the coverage `EncodeFec` works with: `NewCoverage` for a fresh encoder, `UpdateCoverage` otherwise. -/
def nextCov (e : Encoder) (media : List Bytes) (f : Nat) : Option Coverage :=
  match e.cov with
  | none => newCoverage media f
  | some c => some (c.update media f)

/-- `EncodeFec`: `none` = Go `nil`. -/
def Encoder.encodeFec (e : Encoder) (media : List Bytes) (f : Nat) : Encoder × Option (List FecPkt) :=
  if media.length = 0 ∨ media.length > maxFlexFec03MediaPackets then (e, none)
  else if !consecutive media then (e, none)
  else
    match nextCov e media f with
    | none => ({ e with cov := none }, none)
    | some c =>
      let r := encodeLoop c e.pt e.ssrc (seqOf (media.getD 0 [])) (List.range f) e.fecSn
      ({ e with cov := some c, fecSn := r.1 }, some r.2)

/-! ### media packets pion/rtp cannot marshal

`encodeFlexFecPacket` marshals every covered packet into a scratch buffer; when `MarshalTo` fails
(padding bit with padding size 0, a generic-profile extension whose payload is not a multiple of four
bytes, …) it returns `false`: that repair packet is not emitted and no repair sequence number is consumed.
The packets at the positions `bad` of the batch are the ones that fail; their bytes in `media` are
placeholders (only the sequence number is read, by `consecutive`).  Repair packets that do not cover a
bad position are what they would have been. -/

/-- does FEC packet `i` cover a packet that cannot be marshalled? -/
def Coverage.coversBad (c : Coverage) (bad : List Nat) (i : Nat) : Bool :=
  (c.coveredBy i).any fun j => bad.contains j

/-- the loop of `EncodeFec` when the packets at the positions `bad` fail to marshal. -/
def encodeLoopBad (c : Coverage) (pt ssrc baseSn : Nat) (bad : List Nat) : List Nat → Nat → Nat × List FecPkt
  | [], sn => (sn, [])
  | i :: is, sn =>
    if c.coversBad bad i then encodeLoopBad c pt ssrc baseSn bad is sn else
    match fecPayload c i baseSn with
    | none => encodeLoopBad c pt ssrc baseSn bad is sn
    | some pl =>
      let (sn', rest) := encodeLoopBad c pt ssrc baseSn bad is ((sn + 1) % 65536)
      (sn', ⟨ssrc, pt, sn, 54243243, pl⟩ :: rest)

/-- `EncodeFec` offered a batch whose packets at the positions `bad` cannot be marshalled. -/
def Encoder.encodeFecBad (e : Encoder) (media : List Bytes) (f : Nat) (bad : List Nat) :
    Encoder × Option (List FecPkt) :=
  if media.length = 0 ∨ media.length > maxFlexFec03MediaPackets then (e, none)
  else if !consecutive media then (e, none)
  else
    match nextCov e media f with
    | none => ({ e with cov := none }, none)
    | some c =>
      let r := encodeLoopBad c e.pt e.ssrc (seqOf (media.getD 0 [])) bad (List.range f) e.fecSn
      ({ e with cov := some c, fecSn := r.1 }, some r.2)

/-! ### encoder_interceptor.go -/

/-- stream state of the interceptor for the bound media SSRC. -/
structure Icpt where
  numMedia : Nat
  numFec : Nat
  mediaSsrc : Nat
  active : Bool           -- FEC PT and FEC SSRC both non-zero at bind time
  enc : Encoder
  buffer : List Bytes
deriving Repr, Inhabited

def Icpt.new (n f ssrc fpt fssrc : Nat) : Icpt :=
  ⟨n, f, ssrc, fpt != 0 && fssrc != 0, Encoder.new fpt fssrc, []⟩

def ssrcOf (p : Bytes) : Nat :=
  ((p.getD 8 0 * 256 + p.getD 9 0) * 256 + p.getD 10 0) * 256 + p.getD 11 0

/-- marshalled form of an emitted FEC packet (what reaches the wire). -/
def FecPkt.marshal (p : FecPkt) : Bytes :=
  [128, p.pt % 256] ++ be16 p.seq ++ be32 p.ts ++ be32 p.ssrc ++ p.payload

/-- one `Write`: the packets handed to the next writer, in order.  The batch holds copies of the
caller's header and payload (fix for F-26). -/
def Icpt.write (s : Icpt) (p : Bytes) : Icpt × List Bytes × List FecPkt :=
  if !s.active then (s, [p], [])
  else if ssrcOf p != s.mediaSsrc then (s, [p], [])
  else
    let buf := s.buffer ++ [p]
    if buf.length = s.numMedia then
      let (e, r) := s.enc.encodeFec buf s.numFec
      ({ s with enc := e, buffer := [] }, [p], r.getD [])
    else ({ s with buffer := buf }, [p], [])

/-- one `Write` when the packets at the positions `bad` of the batch being collected (this packet included, if it is
one of them) cannot be marshalled by pion/rtp: they are forwarded and buffered like any other packet; the repair packets
that cover one of them are not produced. -/
def Icpt.writeBad (s : Icpt) (p : Bytes) (bad : List Nat) : Icpt × List Bytes × List FecPkt :=
  if !s.active then (s, [p], [])
  else if ssrcOf p != s.mediaSsrc then (s, [p], [])
  else
    let buf := s.buffer ++ [p]
    if buf.length = s.numMedia then
      let (e, r) := s.enc.encodeFecBad buf s.numFec bad
      ({ s with enc := e, buffer := [] }, [p], r.getD [])
    else ({ s with buffer := buf }, [p], [])

/-- The error path of one `Write` when the next writer fails on the calls whose index is in `fail`
(0 = the media packet, 1.. = the repair packets after it): every call is still made — a failed
media write does not suppress the repair packets, a failed repair write does not suppress the
later ones — the errors are joined, and the count returned to the application is the media
write's (`mediaN`, or 0 when that call failed).  State changes do not depend on failures.
Result: per call whether it succeeded, the returned count, the number of joined errors. -/
def writeOutcome (calls : Nat) (fail : List Nat) (mediaN : Nat) : List Bool × Nat × Nat :=
  let oks := (List.range calls).map fun i => !fail.contains i
  (oks, if fail.contains 0 then 0 else mediaN, (oks.filter (· == false)).length)

end Interceptor.FlexFec

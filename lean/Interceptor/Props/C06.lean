/-
C06 — receiver reports follow RFC 3550 for the observed reception history.
Model: Model/ReceiverReport.lean (the code with the F-07 repair); spec: Spec/ReceiverReport.lean
(recounts over the event history: extended sequence numbers, received set, saturating sums, the
A.8 jitter recurrence, last SR).  Each theorem equates what the model's reports carry over an
arbitrary history of RTP packets, sender reports and report ticks (`runEv`) with the spec's recount.
Only property theorems live here; the simulation invariants are in Proofs/Receiver*.lean.
-/
import Interceptor.Proofs.ReceiverLoss
set_option linter.unusedVariables false
namespace Interceptor.ReceiverReport
open Interceptor Interceptor.F64 Interceptor.GoTime Interceptor.ReceiverReport.Spec

/-- ★ T1 `ext_highest`: over any history (any number of sequence-number cycles; the 16-bit cycle
counter wraps with the 32-bit field) every report's `LastSequenceNumber` is the extended highest
sequence number received — cycles in the upper 16 bits — modulo 2^32, and 0 before any packet. -/
theorem ext_highest (ssrc rate : Nat) (evs : List Ev) (hwf : ∀ e ∈ evs, e.wf) :
    (runEv (new ssrc rate) evs).map (·.ext) = extReports none evs :=
  ext_run (new ssrc rate) none evs hwf ⟨rfl, rfl, rfl⟩

/-- ★ T1, step form: a packet ahead of the highest by `d < 2^15` advances the extended highest by
exactly `d`; any other packet leaves it. -/
theorem ext_highest_step (h seq : Nat) (hs : seq < 65536) :
    highest (some h) seq = (if ahead h seq then h + sub16 seq (h % 65536) else h) := by
  simp only [highest, extend]; split <;> simp_all

/-- T2 ★ `loss_eq_spec` under the explicit hypothesis `H8192` (every packet ahead of the highest
keeps the open report interval within 8192 numbers; every other packet is less than 8192 behind
the highest): every report's fraction-lost is `⌊256·lost/expected⌋` with `expected = h₁ − h₀` and
`lost` = the numbers of `(h₀, h₁]` not received so far (0 for an empty interval), and its
cumulative-lost is the saturating sum of the interval losses.  Without `H8192` the statement is
false: `loss_eq_spec_unrestricted_false` (F-08). -/
theorem loss_eq_spec (ssrc rate : Nat) (evs : List Ev) (hwf : ∀ e ∈ evs, e.wf)
    (hH : H8192 none evs) :
    (runEv (new ssrc rate) evs).map lossObs = (lossReports none evs).map specObs :=
  loss_run0 (new ssrc rate) evs hwf hH ⟨rfl, rfl, rfl, rfl, rfl⟩

/-- the F-08 witness: 10001 is lost, then a packet 8193 behind the highest arrives and lands on
10001's bitmap position. -/
def f08Witness : List Ev := [.rtp 0 10000 0, .report 0, .rtp 0 10002 0, .rtp 0 1809 0, .report 0]

set_option maxRecDepth 100000 in
/-- F-08: the unrestricted statement is false — on `f08Witness` the code reports cumulative lost 0
where one packet of the interval was never received (corpus/C06/F-08.ops). -/
theorem loss_eq_spec_unrestricted_false :
    ¬ (∀ (evs : List Ev), (∀ e ∈ evs, e.wf) →
        (runEv (new 1 90000) evs).map lossObs = (lossReports none evs).map specObs) := by
  intro h
  have h1 := h f08Witness (by intro e he; simp [f08Witness] at he; rcases he with h | h | h | h | h <;> subst h <;> simp [Ev.wf, M32])
  have h2 := congrArg (List.map Prod.snd) h1
  simp only [List.map_map] at h2
  have hm : (List.map (Prod.snd ∘ lossObs) (runEv (new 1 90000) f08Witness)) = [0, 0] := by decide
  have hsp : (List.map (Prod.snd ∘ specObs) (lossReports none f08Witness)) = [0, 1] := by decide
  rw [hm, hsp] at h2
  exact absurd h2 (by decide)

/-- ★ T3 `fraction_floor`: the float expression `uint8(float64(l·256)/float64(e))` (binary64,
round-to-nearest-even, truncating conversion) equals `⌊256·l/e⌋` for `0 ≤ l < e ≤ 65535`. -/
theorem fraction_floor (l e : Nat) (hl : l < e) (he : e ≤ 65535) :
    fractionLost l e = l * 256 / e :=
  fractionLost_eq_floor l e hl he

/-- ★ T4 `cumulative_sat`: over any history (no hypothesis on the bitmap) the cumulative-lost of
the k-th report is `min(2^24−1, Σ_{i≤k} interval loss_i)` for the interval losses the stream
computed at its reports. -/
theorem cumulative_sat (ssrc rate : Nat) (evs : List Ev) :
    (runEv (new ssrc rate) evs).map (·.totalLost) =
      ((intervalLosses (new ssrc rate) evs).scanl (· + ·) 0).tail.map (min 16777215) := by
  rw [cumulative_run (new ssrc rate) evs (by simp [new])]
  exact satSums_eq _ _ 0 (by simp [new])

/-- ★ T5 `jitter_rec`: over any history the jitter field of every report is `uint32` of the
RFC 3550 A.8 recurrence `J += (|D| − J)/16` run in binary64 over the packets so far, with
`D = Δarrival·rate − (ts − ts')`; the first packet only sets the reference. -/
theorem jitter_rec (ssrc rate : Nat) (evs : List Ev) :
    (runEv (new ssrc rate) evs).map (·.jitter) = jitterReports rate none 0 evs :=
  jitter_run (new ssrc rate) none 0 evs ⟨rfl, rfl⟩

/-- ★ T5 `jitter_wrap_safe`: for unwrapped (true) timestamps `a`, `b` within ±2^31 of each other
the jitter sample computed from their 32-bit wrapped values is the one computed from the true
difference — so it is invariant under adding 2^32·k to any timestamp.  (False on the unrepaired
code, which took `float64(ts) − float64(lastTs)`: F-07, corpus/C06/F-07.ops.) -/
theorem jitter_wrap_safe (rate : Nat) (elapsed a b : Int)
    (h1 : -2147483648 ≤ a - b) (h2 : a - b < 2147483648) :
    jitterD rate elapsed (a % 4294967296).toNat (b % 4294967296).toNat =
      (let d := F64.sub (mul (seconds elapsed) (ofInt rate)) (ofInt (a - b)); if d < 0 then -d else d) := by
  simp only [jitterD, sdiff32_exact a b h1 h2]

/-- ★ T5 corollary: adding multiples of 2^32 to either unwrapped timestamp changes nothing. -/
theorem jitter_wrap_invariant (rate : Nat) (elapsed a b k1 k2 : Int) :
    jitterD rate elapsed ((a + k1 * 4294967296) % 4294967296).toNat ((b + k2 * 4294967296) % 4294967296).toNat =
      jitterD rate elapsed (a % 4294967296).toNat (b % 4294967296).toNat := by
  rw [Int.add_mul_emod_self_right, Int.add_mul_emod_self_right]

/-- ★ T6 `lsr_dlsr`: over any history every report carries, for the most recent sender report
`(ntp, t)` delivered to the stream, `LSR = (ntp >> 16) mod 2^32` and
`DLSR = uint32(float64 seconds(max(now − t, 0)) · 65536)` (binary64-exact; 0 for a sender report stamped after the report instant: F-43), and `(0, 0)` before any. -/
theorem lsr_dlsr (ssrc rate : Nat) (evs : List Ev) :
    (runEv (new ssrc rate) evs).map (fun r => (r.lsr, r.delay)) = lsrReports none evs :=
  lsr_run (new ssrc rate) none evs ⟨rfl, rfl⟩

/-- ★ T6 `dlsr_early_zero` (F-43): a sender report stamped AFTER the instant the report is generated for (the tick
took its time before it walked the streams; the sender report was read meanwhile) arrived "just now": the delay is 0,
not `uint32` of a negative number of seconds (18 hours on amd64 before the repair). -/
theorem dlsr_early_zero (ntp : Nat) (t now : Int) (h : now ≤ t) (es : List Ev) :
    lsrReports (some (ntp, t)) (.report now :: es) = ((ntp / 65536) % M32, 0) :: lsrReports (some (ntp, t)) es := by
  have hm : max (now - t) 0 = 0 := by omega
  simp only [lsrReports, hm]
  have : toUint32 (mul (seconds 0) 65536) = 0 := by decide +kernel
  rw [this]

/-- ★ T6 `dlsr_late_unchanged`: for a sender report stamped before the report instant the clamp changes nothing. -/
theorem dlsr_late_unchanged (ntp : Nat) (t now : Int) (h : t ≤ now) (es : List Ev) :
    lsrReports (some (ntp, t)) (.report now :: es) =
      ((ntp / 65536) % M32, toUint32 (mul (seconds (now - t)) 65536)) :: lsrReports (some (ntp, t)) es := by
  have hm : max (now - t) 0 = now - t := by omega
  simp only [lsrReports, hm]

/-- T6, dispatch: a sender report is applied only to the stream bound for its SSRC. -/
theorem sr_foreign_ignored (ss : Streams) (ssrc : Nat) (f : Stream → Stream) (s : Stream)
    (hs : s ∈ ss) (hne : s.ssrc ≠ ssrc) : s ∈ update ss ssrc f := by
  simp only [update, List.mem_map]
  exact ⟨s, hs, by simp [hne]⟩

/-- non-vacuity of `loss_eq_spec`: a history with loss, a late arrival, a sequence wrap and two
reports satisfies `H8192`, and the reports carry fraction 85 = ⌊256·1/3⌋, then 0. -/
example :
    let evs : List Ev := [.rtp 0 65534 0, .rtp 1 0 10, .report 2, .rtp 3 3 20, .rtp 4 2 30, .report 5]
    (∀ e ∈ evs, e.wf) ∧ H8192 none evs ∧ (lossReports none evs).map specObs = [(85, 1), (85, 2)] := by
  refine ⟨?_, ?_, by decide⟩
  · intro e he; simp at he; rcases he with h | h | h | h | h | h <;> subst h <;> simp [Ev.wf, M32]
  · simp [H8192, lossRtp, ahead, extend, highest, sub16, lostIn]

end Interceptor.ReceiverReport

/-
C01 — media transparency of any chain of pass-through interceptors.
Only property theorems live here.  Model: `Model/Chain.lean`; helper lemmas: `Proofs/Chain.lean`.
-/
import Interceptor.Proofs.Chain
set_option linter.unusedVariables false
namespace Interceptor.Chain
open Interceptor.Rtp

variable {ω π ε β : Type}

/-- a writer wrapper is transparent on the guard `G` up to the relation `R`: on every packet that
meets the guard it calls the next writer with a related packet (and possibly injects packets of
its own *after* it), and the packet it passes on meets the guard again. -/
def Transparent (G : π → Prop) (R : π → π → Prop) (m : Wrapper ω π ε) : Prop :=
  ∀ w p, G p → ∃ w' p' after, m w p = (w', .pass p' after) ∧ R p p' ∧ G p'

/-- a reader wrapper is transparent on `G`: a successful inner read of bytes meeting the guard is
handed on with the same `n` and bytes; a failed inner read is returned as an error and leaves the
state untouched (nothing is accounted). -/
def ReadTransparent (G : β → Prop) (m : RWrapper ω β ε) : Prop :=
  (∀ w n b, G b → ∃ w', m w (.ok n b) = (w', .ok n b)) ∧
  (∀ w n e, ∃ n', m w (.err n e) = (w, .err n' e))

/-! ### 1. composition -/

/-- ★ T1 `chain_transparent` (writers; RTP and RTCP alike — the packet type is a parameter).
For EVERY list of transparent wrappers (any order, any subset, any length, any world state), any
bottom writer (any fault schedule) and any packet meeting the guard: the bottom writer is called
with the application's packet exactly once, as the FIRST call (index `k`), with a related
packet; every other call is an injected packet and comes after it; the caller receives the
bottom writer's `n` for its packet, and every error the bottom writer returned for it. -/
theorem chain_transparent (G : π → Prop) (R : π → π → Prop)
    (hrefl : ∀ p, R p p) (htrans : ∀ a b c, R a b → R b c → R a c)
    (bottom : Nat → π → Ret ε) (ms : List (Wrapper ω π ε))
    (hms : ∀ m ∈ ms, Transparent G R m) (tag : Tag) (p : π) (w : ω) (k : Nat) (hp : G p) :
    ∃ p' rest, (writeVia bottom ms tag p w k).2.1 = (tag, p') :: rest ∧ (∀ c ∈ rest, c.1 = Tag.inj) ∧
      R p p' ∧ (writeVia bottom ms tag p w k).2.2.1 = (bottom k p').1 ∧
      (∀ e ∈ (bottom k p').2, e ∈ (writeVia bottom ms tag p w k).2.2.2) := by
  induction ms generalizing p w with
  | nil =>
    exact ⟨p, [], by simp [writeVia_nil], by simp, hrefl p, by simp [writeVia_nil], by simp [writeVia_nil]⟩
  | cons m inner ih =>
    obtain ⟨w1, p1, after, hm, hR, hG⟩ := hms m List.mem_cons_self w p hp
    obtain ⟨p2, rest1, hc, hinj, hR2, hn, he⟩ :=
      ih (fun m' hm' => hms m' (List.mem_cons_of_mem _ hm')) p1 w1 hG
    have Hinj : ∀ q w k, ∀ c ∈ (writeVia bottom inner .inj q w k).2.1, c.1 = Tag.inj := by
      intro q w k c hc; rcases writeVia_tags bottom inner .inj q w k c hc with h | h <;> exact h
    obtain ⟨extra, more, h1, h2, h3⟩ := injFold_spec bottom inner k Hinj after
      ((writeVia bottom inner tag p1 w1 k).1, (writeVia bottom inner tag p1 w1 k).2.1,
       (writeVia bottom inner tag p1 w1 k).2.2.2)
    rw [writeVia_pass bottom m inner tag p p1 after w w1 k hm]
    refine ⟨p2, rest1 ++ extra, ?_, ?_, htrans _ _ _ hR hR2, hn, ?_⟩
    · simp only []; rw [h1]; simp only []; rw [hc]; rfl
    · intro c hc'
      rcases List.mem_append.mp hc' with h | h
      · exact hinj c h
      · exact h3 c h
    · intro e hem
      simp only []; rw [h2]
      exact List.mem_append_left _ (he e hem)

/-- ★ T1r `chain_read_transparent` (readers; RTP and RTCP alike): for every list of transparent
reader wrappers, bytes that meet the guard reach the application with the same `n` and the same
bytes, and an error of the wrapped reader reaches the application as an error while NO member's
state changes (a packet whose read failed is not accounted anywhere). -/
theorem chain_read_transparent (G : β → Prop) (ms : List (RWrapper ω β ε))
    (hms : ∀ m ∈ ms, ReadTransparent G m) (w : ω) :
    (∀ n b, G b → ∃ w', readVia ms w (.ok n b) = (w', .ok n b)) ∧
    (∀ n e, ∃ n', readVia ms w (.err n e) = (w, .err n' e)) := by
  induction ms generalizing w with
  | nil => exact ⟨fun n b _ => ⟨w, rfl⟩, fun n e => ⟨n, rfl⟩⟩
  | cons m rest ih =>
    have hm := hms m List.mem_cons_self
    have hrest := fun w => ih (fun m' h => hms m' (List.mem_cons_of_mem _ h)) w
    constructor
    · intro n b hb
      obtain ⟨w1, h1⟩ := hm.1 w n b hb
      obtain ⟨w2, h2⟩ := (hrest w1).1 n b hb
      exact ⟨w2, by simp only [readVia, List.foldl_cons, h1] at h2 ⊢; exact h2⟩
    · intro n e
      obtain ⟨n1, h1⟩ := hm.2 w n e
      obtain ⟨n2, h2⟩ := (hrest w).2 n1 e
      exact ⟨n2, by simp only [readVia, List.foldl_cons, h1] at h2 ⊢; exact h2⟩

/-! ### 2. order -/

/-- ★ T2 `chain_order`: for every transparent chain, every list of application writes that meet
the guard and every fault schedule of the bottom writer, the application packets among the
bottom calls are exactly the written packets — one each, in the order written, each related to
its original — however many packets the members inject in between; and one result per write. -/
theorem chain_order (G : π → Prop) (R : π → π → Prop)
    (hrefl : ∀ p, R p p) (htrans : ∀ a b c, R a b → R b c → R a c)
    (bottom : Nat → π → Ret ε) (ms : List (Wrapper ω π ε))
    (hms : ∀ m ∈ ms, Transparent G R m) (ps : List π) (hps : ∀ p ∈ ps, G p) (w : ω) (k : Nat) :
    Pointwise R ps (appCalls (writeAll bottom ms ps w k).2.1) ∧
      (writeAll bottom ms ps w k).2.2.length = ps.length := by
  induction ps generalizing w k with
  | nil => exact ⟨by simp only [writeAll, appCalls, List.filter_nil, List.map_nil]; exact Pointwise.nil, by simp [writeAll]⟩
  | cons p ps ih =>
    obtain ⟨p', rest, hc, hinj, hR, _, _⟩ :=
      chain_transparent G R hrefl htrans bottom ms hms .app p w k (hps p List.mem_cons_self)
    have ih' := ih (fun q hq => hps q (List.mem_cons_of_mem _ hq))
      (writeVia bottom ms .app p w k).1 (k + (writeVia bottom ms .app p w k).2.1.length)
    have happ : appCalls (writeVia bottom ms .app p w k).2.1 = [p'] := by
      rw [hc]
      have : rest.filter (fun c => decide (c.1 = Tag.app)) = [] := by
        rw [List.filter_eq_nil_iff]; intro c hc'; simp [hinj c hc']
      simp [appCalls, List.filter_cons, this]
    constructor
    · simp only [writeAll]
      have : appCalls ((writeVia bottom ms .app p w k).2.1 ++
          (writeAll bottom ms ps (writeVia bottom ms .app p w k).1
            (k + (writeVia bottom ms .app p w k).2.1.length)).2.1) =
          p' :: appCalls (writeAll bottom ms ps (writeVia bottom ms .app p w k).1
            (k + (writeVia bottom ms .app p w k).2.1.length)).2.1 := by
        simp only [appCalls, List.filter_append, List.map_append] at happ ⊢
        rw [happ]; rfl
      rw [this]
      exact Pointwise.cons hR ih'.1
    · simp only [writeAll, List.length_cons]
      rw [ih'.2]

/-! ### 3. the wrappers of the library -/

/-- what the wrappers may change on an RTP packet: nothing but the header's extension block. -/
def RtpRel (a b : Pkt) : Prop :=
  b.payload = a.payload ∧ b.app = a.app ∧ sameButExtensions a.hdr b.hdr

theorem rtpRel_refl (p : Pkt) : RtpRel p p := by simp [RtpRel, sameButExtensions]

theorem rtpRel_trans (a b c : Pkt) (h1 : RtpRel a b) (h2 : RtpRel b c) : RtpRel a c := by
  obtain ⟨p1, a1, s1⟩ := h1
  obtain ⟨p2, a2, s2⟩ := h2
  refine ⟨p2.trans p1, a2.trans a1, ?_⟩
  unfold sameButExtensions at *
  obtain ⟨x1, x2, x3, x4, x5, x6, x7, x8, x9⟩ := s1
  obtain ⟨y1, y2, y3, y4, y5, y6, y7, y8, y9⟩ := s2
  exact ⟨x1.trans y1, x2.trans y2, x3.trans y3, x4.trans y4, x5.trans y5, x6.trans y6, x7.trans y7,
    x8.trans y8, x9.trans y9⟩

/-- the explicit, decidable guard of the RTP writer side: the points where the real code rejects
are exactly its complement (run against the implementation as the class `guards`):
the NACK responder's packet factory accepts the packet (payload ≤ 1460 bytes, no RTX padding
overflow), the negotiated transport-cc id is a one-byte id, and an existing extension block is
RFC 8285 (one- or two-byte). -/
def LocalGuard (cfg : StreamCfg) (p : Pkt) : Prop :=
  responderRejects cfg p = none ∧ cfg.twId ≤ 14 ∧
    (p.hdr.extension = false ∨ p.hdr.profile = profOneByte ∨ p.hdr.profile = profTwoByte)

instance (cfg : StreamCfg) (p : Pkt) : Decidable (LocalGuard cfg p) := by
  unfold LocalGuard; infer_instance

theorem responderRejects_congr (cfg : StreamCfg) (a b : Pkt) (h : RtpRel a b) :
    responderRejects cfg b = responderRejects cfg a := by
  obtain ⟨hp, _, hs⟩ := h
  unfold sameButExtensions at hs
  obtain ⟨_, h2, _, _, h5, _, _, _, h9⟩ := hs
  simp [responderRejects, hp, ← h2, ← h5, ← h9]

/-- ★ T3 `local_transparent` — `<x>_transparent` for every RTP writer wrapper of the library
except cc: nackgen, nackresp, rr, sr, twccsend, hdrext, rfc8888, rtpfb, stats, pdsend, pdrecv,
pli, flexfec (any batch size), mock and NoOp, for every stream configuration and every state:
under `LocalGuard` the wrapper passes the packet on with identical payload and a header that
differs at most in the extension block, and the guard holds again for what it passes on. -/
theorem local_transparent (idx : Nat) (k : Kind) (cfg : StreamCfg) (hk : k ≠ .cc) :
    Transparent (LocalGuard cfg) RtpRel (localWrap idx k cfg) := by
  intro w p hg
  have keep : ∀ w' after, ∃ w'' p' after', ((w', Act.pass p after) : World × Act Pkt WErr) = (w'', .pass p' after') ∧
      RtpRel p p' ∧ LocalGuard cfg p' := fun w' after => ⟨w', p, after, rfl, rtpRel_refl p, hg⟩
  cases k with
  | cc => exact absurd rfl hk
  | nackresp =>
    simp only [localWrap]
    split
    · exact keep _ _
    · rw [hg.1]; exact keep _ _
  | hdrext =>
    simp only [localWrap]
    split
    · exact keep _ _
    · rename_i hid
      obtain ⟨hrej, hle, hprof⟩ := hg
      have hacc : TwccHdrAccepts p.hdr cfg.twId := by
        unfold TwccHdrAccepts
        rcases hprof with h | h | h
        · exact Or.inl h
        · exact Or.inr (Or.inl ⟨h, by omega, hle⟩)
        · exact Or.inr (Or.inr ⟨h, by omega⟩)
      obtain ⟨h', hset, hsame, hprof'⟩ := setExtension_accepts p.hdr cfg.twId [0, 0] (by simp) hacc
      rw [hset]
      refine ⟨w, { p with hdr := h' }, [], rfl, ⟨rfl, rfl, hsame⟩, ?_, hle, Or.inr hprof'⟩
      rw [responderRejects_congr cfg p { p with hdr := h' } ⟨rfl, rfl, hsame⟩]; exact hrej
  | fec nm nf =>
    simp only [localWrap]
    split
    · exact keep _ _
    · split <;> exact keep _ _
  | mock e => simp only [localWrap]; exact keep _ _
  | noop => exact keep _ _
  | nackgen => exact keep _ _
  | rr => exact keep _ _
  | sr => exact keep _ _
  | twccsend => exact keep _ _
  | rfc8888 => exact keep _ _
  | rtpfb => exact keep _ _
  | stats => exact keep _ _
  | pdsend => exact keep _ _
  | pdrecv => exact keep _ _
  | pli => exact keep _ _

/-- T3 (cc, standalone because its guard depends on the binding state): the cc interceptor with a
pass-through pacer forwards a packet unchanged iff its SSRC was added to the pacer and — when the
stream negotiated transport-cc — the header already carries a well-formed transport-cc element
(i.e. the header-extension interceptor sits *above* it); otherwise it rejects (excluded points). -/
theorem cc_transparent (idx : Nat) (cfg : StreamCfg) (w : World) (p : Pkt)
    (hb : ((w.ccBound.lookup idx).getD []).contains p.hdr.ssrc = true)
    (ht : cfg.twId = 0 ∨ validTwcc p.hdr cfg.twId = true) :
    localWrap idx .cc cfg w p = (w, .pass p []) := by
  simp only [localWrap, hb]
  rcases ht with h | h <;> simp [h]

/-- the guard of the RTP reader side: the bytes parse as an RTP header and a transport-cc element
under the negotiated id, if present, has its two bytes. -/
def RemoteGuard (cfg : StreamCfg) (b : RPkt) : Prop :=
  b.parses = true ∧ (cfg.twId = 0 ∨ ∀ e, getExtension b.hdr cfg.twId = some e → 2 ≤ e.length)

/-- ★ T3r `remote_transparent`: every RTP reader wrapper of the library (all kinds), for every
stream configuration: same `n`, same bytes on success under `RemoteGuard`; on an inner error the
error is returned and the state is unchanged. -/
theorem remote_transparent (idx : Nat) (k : Kind) (cfg : StreamCfg) :
    ReadTransparent (RemoteGuard cfg) (remoteWrap idx k cfg) := by
  constructor
  · intro w n b hg
    obtain ⟨hp, ht⟩ := hg
    cases k <;> simp only [remoteWrap, hp, if_true] <;> try exact ⟨_, rfl⟩
    · split <;> exact ⟨_, rfl⟩
    · split
      · exact ⟨_, rfl⟩
      · rename_i hid
        rcases ht with h0 | hall
        · exact absurd h0 hid
        · cases hx : getExtension b.hdr cfg.twId with
          | none => exact ⟨_, rfl⟩
          | some e =>
            have := hall e hx
            simp only []
            rw [if_neg (by omega)]
            exact ⟨_, rfl⟩
  · intro w n e
    cases k <;> simp only [remoteWrap] <;> try exact ⟨_, rfl⟩
    · split <;> exact ⟨_, rfl⟩
    · split <;> exact ⟨_, rfl⟩

/-- ★ T3c `rtcp_read_transparent`: every RTCP reader wrapper, on compounds pion/rtcp parses. -/
theorem rtcp_read_transparent (idx : Nat) (k : Kind) :
    ReadTransparent (fun b : CPkt => b.parses = true) (rtcpReadWrap idx k) := by
  constructor
  · intro w n b hp
    cases k <;> simp only [rtcpReadWrap, hp, if_true] <;> exact ⟨_, rfl⟩
  · intro w n e
    cases k <;> simp only [rtcpReadWrap] <;> exact ⟨_, rfl⟩

/-- ★ T3w `rtcp_write_transparent`: every RTCP writer wrapper forwards the application's packets
unchanged, unconditionally. -/
theorem rtcp_write_transparent (idx : Nat) (k : Kind) :
    Transparent (fun _ : Bytes × Bool => True) (fun a b => b = a) (rtcpWriteWrap idx k) := by
  intro w p _
  cases k <;> simp only [rtcpWriteWrap] <;> exact ⟨_, p, [], rfl, rfl, trivial⟩

/-- ★ T1+T3 `library_chain_transparent`: any chain of the library's members without cc (any
order, subset, length, configuration, state) is transparent for RTP writes under `LocalGuard`,
for any fault schedule of the bottom writer. -/
theorem library_chain_transparent (kinds : List (Nat × Kind)) (hcc : ∀ ik ∈ kinds, ik.2 ≠ .cc)
    (cfg : StreamCfg) (bottom : Nat → Pkt → Ret WErr) (p : Pkt) (w : World) (k : Nat)
    (hp : LocalGuard cfg p) :
    let r := writeVia bottom ((kinds.map fun ik => localWrap ik.1 ik.2 cfg).reverse) .app p w k
    ∃ p' rest, r.2.1 = (Tag.app, p') :: rest ∧ (∀ c ∈ rest, c.1 = Tag.inj) ∧ RtpRel p p' ∧
      r.2.2.1 = (bottom k p').1 ∧ ∀ e ∈ (bottom k p').2, e ∈ r.2.2.2 := by
  apply chain_transparent (LocalGuard cfg) RtpRel rtpRel_refl rtpRel_trans
  · intro m hm
    rw [List.mem_reverse, List.mem_map] at hm
    obtain ⟨ik, hik, rfl⟩ := hm
    exact local_transparent ik.1 ik.2 cfg (hcc ik hik)
  · exact hp

/-- non-vacuity: the chain `[hdrext, nackresp, flexfec 2/1, stats]` on a stream with NACK, RTX, FEC
and transport-cc id 5; the second packet completes the FEC batch; the bottom writer fails the
injected repair packet: the application packet is first, unchanged but for the extension. -/
example :
    let cfg : StreamCfg := { ssrc := 7, nack := true, rtx := true, fec := true, fecSsrc := 9, fecPt := 49, twId := 5 }
    let ms := ([(0, Kind.hdrext), (1, .nackresp), (2, .fec 2 1), (3, .stats)].map
      fun ik => localWrap ik.1 ik.2 cfg).reverse
    let bottom : Nat → Pkt → Ret WErr := fun _ q => if q.app then (3, []) else (0, [.bottom])
    let p1 : Pkt := { hdr := { ssrc := 7, seq := 10, csrc := [1] }, payload := [1, 2, 3] }
    let p2 : Pkt := { hdr := { ssrc := 7, seq := 11, padding := true, paddingSize := 4 }, payload := [4] }
    LocalGuard cfg p1 ∧ LocalGuard cfg p2 ∧
    (let r1 := writeVia bottom ms .app p1 {} 0
     let r2 := writeVia bottom ms .app p2 r1.1 1
     r1.2.1.map (·.1) = [Tag.app] ∧ r2.2.1.map (·.1) = [Tag.app, Tag.inj] ∧
     r2.2.2 = (3, [WErr.bottom]) ∧
     (r2.2.1.head?.map fun c => (c.2.payload, c.2.hdr.extensions)) = some ([4], [(5, [0, 0])])) := by
  decide

/-! ### 4. Close, Unbind, errors.go -/

theorem isAny_iff (es : List CErr) (k : Nat) : CErr.isAny es k = true ↔ ∃ e ∈ es, e.is k = true := by
  induction es with
  | nil => simp [CErr.isAny]
  | cons e es ih => simp [CErr.isAny, ih]

/-- ★ T4a `close_errors_preserved` (`flattenErrs` + `multiError.Is`): the error `Chain.Close`
returns is nil iff every member returned nil, and otherwise `errors.Is(result, target)` holds
exactly when it holds for the error of some member — every Close error is in the returned
multi-error, also through nested chains and `%w` wrapping, and nothing else is. -/
theorem close_errors_preserved (errs : List (Option CErr)) (k : Nat) :
    (flattenErrs errs = none ↔ ∀ e ∈ errs, e = none) ∧
    ((∃ r, flattenErrs errs = some r ∧ r.is k = true) ↔ ∃ e, some e ∈ errs ∧ e.is k = true) := by
  have hmem : ∀ e, e ∈ errs.filterMap id ↔ some e ∈ errs := by
    intro e; simp [List.mem_filterMap]
  constructor
  · unfold flattenErrs
    constructor
    · intro h e he
      cases hf : errs.filterMap id with
      | nil =>
        cases e with
        | none => rfl
        | some x => have := (hmem x).mpr he; rw [hf] at this; simp at this
      | cons a as => rw [hf] at h; simp at h
    · intro h
      have : errs.filterMap id = [] := by
        rw [List.filterMap_eq_nil_iff]; intro e he; rw [h e he]; rfl
      rw [this]
  · unfold flattenErrs
    cases hf : errs.filterMap id with
    | nil =>
      constructor
      · rintro ⟨r, hr, _⟩; simp at hr
      · rintro ⟨e, he, _⟩; have := (hmem e).mpr he; rw [hf] at this; simp at this
    | cons a as =>
      constructor
      · rintro ⟨r, hr, hk⟩
        simp only [Option.some.injEq] at hr
        subst hr
        simp only [CErr.is] at hk
        obtain ⟨e, he, hek⟩ := (isAny_iff _ _).mp hk
        exact ⟨e, (hmem e).mp (hf ▸ he), hek⟩
      · rintro ⟨e, he, hek⟩
        refine ⟨_, rfl, ?_⟩
        simp only [CErr.is]
        exact (isAny_iff _ _).mpr ⟨e, hf ▸ (hmem e).mpr he, hek⟩

/-- ★ T4b `chain_close`: `Chain.Close` runs the Close of EVERY member exactly once, in chain
order, on the state left by its predecessors — also when earlier members return errors — and
returns `flattenErrs` of exactly the errors they returned, in order. -/
theorem chain_close (ms : List (ω → ω × Option CErr)) (w : ω) :
    (closeAll ms w).1 = ms.foldl (fun acc c => (c acc).1) w ∧
    ∃ errs : List (Option CErr), errs.length = ms.length ∧ (closeAll ms w).2 = flattenErrs errs ∧
      ∀ i (hi : i < ms.length),
        errs[i]? = some ((ms[i]) ((ms.take i).foldl (fun acc c => (c acc).1) w)).2 := by
  have key : ∀ (ms : List (ω → ω × Option CErr)) (w : ω) (acc : List (Option CErr)),
      (ms.foldl (fun (a : ω × List (Option CErr)) c => ((c a.1).1, a.2 ++ [(c a.1).2])) (w, acc)).1
        = ms.foldl (fun a c => (c a).1) w ∧
      ∃ errs : List (Option CErr), errs.length = ms.length ∧
        (ms.foldl (fun (a : ω × List (Option CErr)) c => ((c a.1).1, a.2 ++ [(c a.1).2])) (w, acc)).2 = acc ++ errs ∧
        ∀ i (hi : i < ms.length),
          errs[i]? = some ((ms[i]) ((ms.take i).foldl (fun a c => (c a).1) w)).2 := by
    intro ms
    induction ms with
    | nil => intro w acc; exact ⟨rfl, [], rfl, by simp, by simp⟩
    | cons c cs ih =>
      intro w acc
      obtain ⟨h1, errs, hl, h2, h3⟩ := ih (c w).1 (acc ++ [(c w).2])
      refine ⟨by simpa [List.foldl_cons] using h1, (c w).2 :: errs, by simp [hl], ?_, ?_⟩
      · simp only [List.foldl_cons]; rw [h2]; simp
      · intro i hi
        cases i with
        | zero => simp
        | succ j =>
          have := h3 j (by simpa using hi)
          simpa [List.foldl_cons] using this
  obtain ⟨h1, errs, hl, h2, h3⟩ := key ms w []
  refine ⟨?_, errs, hl, ?_, h3⟩
  · simpa [closeAll] using h1
  · simp only [closeAll]; rw [h2]; simp

/-- ★ T4c `chain_unbind`: `Chain.Unbind{Local,Remote}Stream` reaches every member exactly once,
in chain order. -/
theorem chain_unbind (us : List (ω → ω)) (w : ω) (u : ω → ω) :
    unbindAll (us ++ [u]) w = u (unbindAll us w) ∧ unbindAll ([] : List (ω → ω)) w = w := by
  simp [unbindAll, List.foldl_append]

/-- non-vacuity of T4: three counting mocks around a real member; the first and the last fail. -/
example :
    let ms := [(0, Kind.mock (some (.sentinel 1))), (1, .stats), (2, .mock none),
               (3, .mock (some (.multi [.wrapped (.sentinel 3)])))].map fun ik => closeOf ik.1 ik.2
    let r := closeAll ms ({} : World)
    (r.1.mock 0).close = 1 ∧ (r.1.mock 2).close = 1 ∧ (r.1.mock 3).close = 1 ∧
    (r.2.map fun e => (e.is 1, e.is 2, e.is 3)) = some (true, false, true) := by
  decide

/-! ### 5. Registry.Build -/

/-- ★ T5 `registry_build`: `Build` succeeds iff every factory succeeds, and then the chain holds
the factories' interceptors in the order of `Add`; an empty registry builds the empty chain
(`&NoOp{}`), through which the application talks to the bottom writer directly. -/
theorem registry_build {ι : Type} (fs : List (Option ι)) :
    (∀ ks, registryBuild fs = some ks ↔ fs = ks.map some) ∧
    (registryBuild fs = none ↔ none ∈ fs) ∧
    registryBuild ([] : List (Option ι)) = some [] := by
  refine ⟨?_, ?_, rfl⟩
  · induction fs with
    | nil => intro ks; cases ks <;> simp [registryBuild]
    | cons f fs ih =>
      intro ks
      simp only [registryBuild] at ih ⊢
      cases f with
      | none => cases ks <;> simp
      | some a =>
        simp only [List.mapM_cons, id]
        cases hr : List.mapM id fs with
        | none =>
          have h0 : ∀ ks : List ι, fs ≠ ks.map some := fun ks h => by
            have := (ih ks).mpr h; rw [hr] at this; cases this
          cases ks with
          | nil => simp
          | cons k ks => simp; intro _; exact h0 ks
        | some ks' =>
          have h1 : ∀ ks : List ι, ks' = ks ↔ fs = ks.map some := fun ks => by
            have := ih ks; rw [hr] at this; simpa using this
          cases ks with
          | nil => simp
          | cons k ks => simp; intro _; exact h1 ks
  · induction fs with
    | nil => simp [registryBuild]
    | cons f fs ih =>
      cases f with
      | none => simp [registryBuild]
      | some a =>
        simp only [registryBuild] at ih ⊢
        simp only [List.mapM_cons, id, List.mem_cons]
        cases hr : List.mapM id fs with
        | none => simp [hr] at ih ⊢; exact ih
        | some ks => simp [hr] at ih ⊢; exact ih

/-- the empty chain (NoOp) is the bottom writer itself. -/
theorem noop_chain (bottom : Nat → π → Ret ε) (tag : Tag) (p : π) (w : ω) (k : Nat) :
    writeVia bottom ([] : List (Wrapper ω π ε)) tag p w k = (w, [(tag, p)], bottom k p) :=
  writeVia_nil bottom tag p w k

end Interceptor.Chain

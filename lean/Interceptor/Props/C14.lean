/-
C14 — FlexFEC-03 repair packets recover any single loss in their group.
Only property theorems live here (helpers: Proofs/FlexFec*.lean).  Model: Model/FlexFec.lean
(the Go code after the three `fix:` commits F-28, F-26, F-C14a); spec: Spec/FlexFecDecode.lean.
-/
import Interceptor.Proofs.FlexFecEnc
set_option linter.unusedVariables false
namespace Interceptor.FlexFec
open Interceptor.FlexFecSpec (parseHeader FecHeader slice maskBits recoverAt)

/-- ★ 1 `covered`: in the table built for `n ≤ 110` media and `1 ≤ f ≤ 110` FEC packets every media
packet `j < n` is covered by FEC packet `j % f`. -/
theorem covered (n f j : Nat) (hf : 1 ≤ f) (hf110 : f ≤ 110) (hn : n ≤ 110) (hj : j < n)
    (media : List Bytes) :
    j ∈ (Coverage.mk (buildMasks n f) f n media).coveredBy (j % f) := by
  have hlt : j % f < f := Nat.mod_lt _ (by omega)
  unfold Coverage.coveredBy Coverage.row
  rw [List.mem_filter, List.mem_range]
  refine ⟨hj, ?_⟩
  rw [getBit_beq_one _ _ (by omega), bitOf_buildMasks n f (j % f) j (by omega) (by omega) (by omega)]
  simp [hlt, hj]

example : 7 ∈ (Coverage.mk (buildMasks 10 3) 3 10 []).coveredBy 1 := by decide

/-- ★ 2a `mask_names_cover` (bit level, every BitArray): the three FlexFEC-03 mask fields
`extractMask1/2/3_03` name exactly the set bits among positions 0..108 — read as the draft lays
them out (15 + 31 + 63 bits, most significant first). -/
theorem mask_names_cover (b : BitArray) (hhi : b.hi < 2 ^ 64) :
    maskBits (mask1 b) 15 0 ++ maskBits (mask2 b) 31 15 ++ maskBits (mask3 b) 63 46
      = (List.range 109).filter (bitOf b) :=
  masks_name_bits b hhi

example : maskBits (mask1 ⟨2 ^ 63 + 2 ^ 17, 2 ^ 19⟩) 15 0 ++ maskBits (mask2 ⟨2 ^ 63 + 2 ^ 17, 2 ^ 19⟩) 31 15
    ++ maskBits (mask3 ⟨2 ^ 63 + 2 ^ 17, 2 ^ 19⟩) 63 46 = [0, 46, 108] := by decide

/-- 2b the statement cannot be extended to 110 positions (F-28): in the table for 110 media packets
FEC row 0 covers index 109 but no mask field names it.  (`MaxMediaPackets` is still 110 in
flexfec_coverage.go; since the fix `FlexEncoder03.EncodeFec` rejects batches of more than 109.) -/
theorem mask_names_cover_110_false :
    109 ∈ (Coverage.mk (buildMasks 110 1) 1 110 []).coveredBy 0 ∧
    109 ∉ (let b := (buildMasks 110 1).getD 0 BitArray.empty
           maskBits (mask1 b) 15 0 ++ maskBits (mask2 b) 31 15 ++ maskBits (mask3 b) 63 46) := by
  decide

/-- ★ 2c `mask_names_cover` (header level): for a well-formed table with at most 109 media packets
the spec's parser reads from the header the encoder writes exactly the covered indices, the
SN base, and (3, below) recovers. -/
theorem recover_exact (c : Coverage) (hok : TableOk c) (hv : ValidMedia c.media)
    (i : Nat) (hi : i < 110) (j : Nat) (hj : j ∈ c.coveredBy i) :
    ∃ pl h, fecPayload c i (seqOf (c.media.getD 0 [])) = some pl
      ∧ parseHeader pl = some h
      ∧ h.positions = c.coveredBy i
      ∧ h.snBase = seqOf (c.media.getD 0 [])
      ∧ recoverAt pl h j (((c.coveredBy i).filter (· != j)).map (fun k => c.media.getD k []))
          = some (c.media.getD j []) := by
  have hnd := coveredBy_nodup c i
  have hcov := coveredBy_eq c hok i hi
  have hb := row_bounds c hok i hi
  have hmemL : ∀ k ∈ c.coveredBy i, k < c.media.length := fun k hk => by
    have := (mem_coveredBy c hok i k hi).1 hk
    rw [← hok.n]; exact this.2.1
  have hgmem : ∀ k ∈ c.coveredBy i, c.media.getD k [] ∈ c.media := fun k hk => getD_mem _ _ (hmemL k hk)
  have hjlen := hmemL j hj
  have h0mem : c.media.getD 0 [] ∈ c.media := getD_mem _ _ (by omega)
  have hbase : seqOf (c.media.getD 0 []) < 65536 := seqOf_lt _ (hv.bytes _ h0mem)
  obtain ⟨k0, L', hL⟩ : ∃ k0 L', c.coveredBy i = k0 :: L' := by
    cases h : c.coveredBy i with
    | nil => rw [h] at hj; simp at hj
    | cons a l => exact ⟨a, l, rfl⟩
  have hk0 : k0 ∈ c.coveredBy i := by rw [hL]; simp
  obtain ⟨mp, a, ha, hpl⟩ := fecPayload_eq c i (seqOf (c.media.getD 0 [])) k0 L' hL
  rw [← hL] at ha
  have hfirst12 := (hv.len12 _ (hgmem k0 hk0)).1
  obtain ⟨f0, f1, f2, f3, f4, f5, f6, f7, s0, s1, s2, s3, frest, hfirst⟩ := exists_cons12 _ hfirst12
  have hs4 : ((c.media.getD k0 []).drop 8).take 4 = [s0, s1, s2, s3] := by rw [hfirst]; rfl
  have hh0 : a.h0 < 64 := by rw [← ha]; exact foldl_step_h0_lt _ _ (show (0 : Nat) < 64 by decide)
  obtain ⟨h, hparse, hpos, hsize, hssrc, hsn⟩ :=
    parse_payload (c.row i) hb a.h0 a.h1 a.l2 a.l3 a.t4 a.t5 a.t6 a.t7 s0 s1 s2 s3
      (seqOf (c.media.getD 0 [])) a.rep hh0 hbase
  rw [hs4] at hpl
  refine ⟨_, h, hpl, hparse, by rw [hpos, hcov], hsn, ?_⟩
  apply recoverAt_core (c.coveredBy i) hnd (fun k => c.media.getD k []) j hj
    (fun k hk => (hv.len12 _ (hgmem k hk)).1) (hv.len12 _ (hgmem j hj)).2
    (hv.bytes _ (hgmem j hj)) (hv.ver _ (hgmem j hj)) mp _ h j a ha
  · rfl
  · exact hsize
  · rw [hssrc]
    have : slice (c.media.getD k0 []) 8 4 = [s0, s1, s2, s3] := hs4
    rw [← this]
    exact hv.ssrc _ (hgmem k0 hk0) _ (hgmem j hj)
  · rw [hsn]
    exact (hv.seqs j hjlen).symm

/-- ★ 4 `repair_headers`: every repair packet of one `EncodeFec` call carries the configured FEC SSRC
and payload type, their sequence numbers are `s, s+1, …` (mod 2^16) from the encoder's counter `s`,
and the counter advances by exactly the number of packets emitted (so the numbering continues
across successive batches); a rejected batch leaves the counter alone. -/
theorem repair_headers (e : Encoder) (media : List Bytes) (f : Nat) (hsn : e.fecSn < 65536) :
    (e.encodeFec media f).1.pt = e.pt ∧ (e.encodeFec media f).1.ssrc = e.ssrc ∧
    (match (e.encodeFec media f).2 with
     | none => (e.encodeFec media f).1.fecSn = e.fecSn
     | some out =>
        (∀ q ∈ out, q.ssrc = e.ssrc ∧ q.pt = e.pt ∧ q.ts = 54243243) ∧
        out.map (·.seq) = (List.range out.length).map (fun t => (e.fecSn + t) % 65536) ∧
        (e.encodeFec media f).1.fecSn = (e.fecSn + out.length) % 65536) := by
  by_cases h : media.length = 0 ∨ media.length > maxFlexFec03MediaPackets
  · rw [encodeFec_size e media f h]; exact ⟨rfl, rfl, rfl⟩
  · cases h2 : consecutive media with
    | false => rw [encodeFec_order e media f h h2]; exact ⟨rfl, rfl, rfl⟩
    | true =>
      cases h3 : nextCov e media f with
      | none => rw [encodeFec_nocov e media f h h2 h3]; exact ⟨rfl, rfl, rfl⟩
      | some c =>
        rw [encodeFec_accept e media f c h h2 h3]
        exact ⟨rfl, rfl, encodeLoop_headers c e.pt e.ssrc (seqOf (media.getD 0 [])) (List.range f) e.fecSn hsn⟩

example : ((Encoder.new 49 7777).encodeFec
    [[128, 96, 0, 1, 0, 0, 0, 10, 0, 0, 0, 7, 1], [128, 96, 0, 2, 0, 0, 0, 11, 0, 0, 0, 7, 2, 3]] 2).2.map
      (·.map (·.seq)) = some [1000, 1001] := by decide

/-- ★ 5 `interceptor_order`: a write hands the media packet itself (unmodified) to the next writer
first; repair packets follow only when this packet completes a batch of the bound SSRC, they are
exactly `EncodeFec` of the batch in arrival order, and the batch is then empty again; packets of
other SSRCs and unconfigured streams pass through untouched. -/
theorem interceptor_order (s : Icpt) (p : Bytes) :
    (s.write p).2.1 = [p] ∧
    ((s.active = false ∨ ssrcOf p ≠ s.mediaSsrc) → (s.write p).2.2 = [] ∧ (s.write p).1 = s) ∧
    (s.active = true → ssrcOf p = s.mediaSsrc → s.buffer.length + 1 = s.numMedia →
      (s.write p).1.buffer = [] ∧
      (s.write p).2.2 = ((s.enc.encodeFec (s.buffer ++ [p]) s.numFec).2).getD []) ∧
    (s.active = true → ssrcOf p = s.mediaSsrc → s.buffer.length + 1 ≠ s.numMedia →
      (s.write p).1.buffer = s.buffer ++ [p] ∧ (s.write p).2.2 = []) := by
  unfold Icpt.write
  by_cases ha : s.active = true
  · by_cases hs : ssrcOf p = s.mediaSsrc
    · by_cases hn : s.buffer.length + 1 = s.numMedia
      · simp [ha, hs, hn]
      · simp [ha, hs, hn]
    · simp [ha, hs]
  · simp [ha]

/-- ★ 6 `coverage_reuse`: `UpdateCoverage` keeps the invariant "the table is the one built for the
stored shape" — in particular when a batch of equal shape reuses the table unchanged — and after an
accepted batch the stored shape and media are the new ones. -/
theorem coverage_reuse (c : Coverage) (media : List Bytes) (f : Nat) (h : MasksOk c) :
    MasksOk (c.update media f) ∧
    (f = c.numFec → media.length = c.numMedia → (c.update media f).masks = c.masks) ∧
    (1 ≤ media.length → media.length ≤ 110 →
      (c.update media f).media = media ∧ (c.update media f).numMedia = media.length ∧
      (c.update media f).numFec = f) := by
  refine ⟨update_masksOk c media f h, ?_, update_shape c media f⟩
  intro h1 h2
  unfold Coverage.update
  simp only []
  split
  · rfl
  · rw [if_pos ⟨h1, h2⟩]

example : ((⟨buildMasks 3 2, 2, 3, []⟩ : Coverage).update [[1], [2], [3]] 2).masks = buildMasks 3 2 := by
  decide

/-- ★ 3+ `encode_protects` (the pieces tied to `EncodeFec`): from any encoder state whose table
satisfies the invariant (a new encoder does), an accepted batch (1..109 consecutive packets,
`f ≤ 110`) is encoded against a well-formed table for exactly this batch, so `covered`,
`recover_exact` and `repair_headers` apply to the packets it returns. -/
theorem encode_protects (e : Encoder) (media : List Bytes) (f : Nat)
    (he : ∀ c, e.cov = some c → MasksOk c)
    (hn1 : 1 ≤ media.length) (hn : media.length ≤ 109) (hc : consecutive media = true) :
    ∃ c, (e.encodeFec media f).1.cov = some c ∧ TableOk c ∧ c.media = media ∧ c.numFec = f ∧
      (e.encodeFec media f).2
        = some (encodeLoop c e.pt e.ssrc (seqOf (media.getD 0 [])) (List.range f) e.fecSn).2 := by
  have h1 : ¬ (media.length = 0 ∨ media.length > maxFlexFec03MediaPackets) := by
    unfold maxFlexFec03MediaPackets; omega
  obtain ⟨c, h3, s1, s2, s3⟩ := nextCov_some e media f hn1 (by omega)
  rw [encodeFec_accept e media f c h1 hc h3]
  exact ⟨c, rfl, ⟨nextCov_masksOk e media f he c h3, by rw [s1, s2], by rw [s2]; exact hn⟩, s1, s3, rfl⟩

/-- the invariant needed by `encode_protects` holds for a new encoder and is preserved by every
`EncodeFec` call (accepted or rejected). -/
theorem encode_invariant (e : Encoder) (media : List Bytes) (f : Nat)
    (he : ∀ c, e.cov = some c → MasksOk c) :
    (∀ c, (Encoder.new e.pt e.ssrc).cov = some c → MasksOk c) ∧
    (∀ c, (e.encodeFec media f).1.cov = some c → MasksOk c) := by
  refine ⟨fun c h => by simp [Encoder.new] at h, ?_⟩
  by_cases h : media.length = 0 ∨ media.length > maxFlexFec03MediaPackets
  · rw [encodeFec_size e media f h]; exact he
  · cases h2 : consecutive media with
    | false => rw [encodeFec_order e media f h h2]; exact he
    | true =>
      cases h3 : nextCov e media f with
      | none => rw [encodeFec_nocov e media f h h2 h3]; intro c hc; simp at hc
      | some c =>
        rw [encodeFec_accept e media f c h h2 h3]
        intro c' hc'
        have : c = c' := by simpa using hc'
        rw [← this]
        exact nextCov_masksOk e media f he c h3

/-- `bad_free_unchanged`: the model of a batch in which pion/rtp fails to marshal the packets at the positions `bad`
(`Encoder.encodeFecBad`: the repair packets covering one of them are not produced) is the model of `EncodeFec` when no
packet fails — every theorem above is about that function. -/
theorem bad_free_unchanged (e : Encoder) (media : List Bytes) (f : Nat) :
    e.encodeFecBad media f [] = e.encodeFec media f := by
  have hloop : ∀ (c : Coverage) (pt ssrc b : Nat) (is : List Nat) (sn : Nat),
      encodeLoopBad c pt ssrc b [] is sn = encodeLoop c pt ssrc b is sn := by
    intro c pt ssrc b is
    induction is with
    | nil => intro sn; simp [encodeLoopBad, encodeLoop]
    | cons i is ih =>
      intro sn
      have hcb : c.coversBad [] i = false := by simp [Coverage.coversBad]
      simp only [encodeLoopBad, encodeLoop, hcb, ih]
      simp
  unfold Encoder.encodeFecBad Encoder.encodeFec
  simp only [hloop]

/-- the interceptor's `Write` likewise. -/
theorem write_bad_free_unchanged (s : Icpt) (p : Bytes) : s.writeBad p [] = s.write p := by
  unfold Icpt.writeBad Icpt.write
  simp only [bad_free_unchanged]

example : (Encoder.new 96 7).encodeFecBad [[128, 96, 0, 1, 0, 0, 0, 10, 0, 0, 0, 7, 1]] 1 []
    = (Encoder.new 96 7).encodeFec [[128, 96, 0, 1, 0, 0, 0, 10, 0, 0, 0, 7, 1]] 1 := bad_free_unchanged _ _ _

/-- non-vacuity of `recover_exact`/`encode_protects`: a concrete accepted batch (CSRC-less packets of
different lengths, sequence numbers across the wrap) satisfies `ValidMedia`. -/
example : ValidMedia [[128, 96, 255, 255, 0, 0, 0, 10, 0, 0, 0, 7, 1],
                      [160, 224, 0, 0, 0, 0, 0, 11, 0, 0, 0, 7, 2, 3, 0, 2]] :=
  ⟨by decide, by decide, by decide, by decide, by decide⟩

end Interceptor.FlexFec

/-
C02 — no untrusted packet can crash or wedge an interceptor.  This module collects, under the
property's name, the totality statements proved per component (so that `./check C02` audits
them together); the decoders' own theorems live in Props/C02Feedback.lean (TWCC / CCFB decoders
and the rtpfb history: no panic for EVERY parsed input), Props/C02Queue.lean (jitter-buffer queue:
every traversal terminates, no cycle is ever created; the interceptor never reports more bytes
than the buffer holds) and Props/C17.lean (`leaky_total`: no out-of-range slice in the pacer).
-/
import Interceptor.Props.C02Feedback
import Interceptor.Props.C02Queue
import Interceptor.Props.C17
import Interceptor.Props.C01
namespace Interceptor.C02
open Interceptor.Chain Interceptor.Pacing

/-- ★ pass-through readers never report more bytes than the wrapped reader returned: through any chain
of read-transparent members a successful read hands the application the same `n` and the same
bytes, and a failed read stays a failed read (instance of C01's reader transparency). -/
theorem reader_len_passthrough {ω ε β : Type} (G : β → Prop) (ms : List (RWrapper ω β ε))
    (hms : ∀ m ∈ ms, ReadTransparent G m) (w : ω) :
    (∀ n b, G b → ∃ w', readVia ms w (.ok n b) = (w', .ok n b)) ∧
    (∀ n e, ∃ n', readVia ms w (.err n e) = (w, .err n' e)) :=
  chain_read_transparent G ms hms w

/-- ★ the leaky-bucket pacer never slices beyond its buffer, for outgoing packets of every size and
every event sequence (writes, ticks, rate changes). -/
theorem pacer_total {H : Type} (hsz : H → Nat) (evs : List (LEv H)) (st : LSt H)
    (h : ∀ it ∈ st.queue, ItemOk it) : ∃ st', lrun hsz lItem st evs = .ok st' :=
  leaky_total hsz evs st h

end Interceptor.C02

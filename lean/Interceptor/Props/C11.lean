/-
C11 — lifecycle: Close and Unbind stop activity and never strand a caller.
Theorems over the parametric lifecycle skeleton (Model/Lifecycle.lean), for EVERY parameter
vector, every state and every operation unless a hypothesis says otherwise.  The parameter
vectors of the real interceptors are tied to the source by Facts/C11.lean (regenerated facts)
and to the running code by the `lifecycle` correspondence (every call issued from its own
goroutine under testing/synctest).
-/
import Interceptor.Model.Lifecycle
set_option linter.unusedVariables false
namespace Interceptor.Lifecycle

/-- the operations of the skeleton. -/
inductive Op where
  | bindW | bindRemote (s : Nat) | bindLocal (s : Nat) | unbindRemote (s : Nat) | unbindLocal (s : Nat)
  | write (s : Nat) | read (s : Nat) | rtcpRead | close | advance (ms : Nat) | flush

def step (s : St) : Op → St × Outcome
  | .bindW => bindW s
  | .bindRemote x => bindRemote s x
  | .bindLocal x => bindLocal s x
  | .unbindRemote x => unbindRemote s x
  | .unbindLocal x => unbindLocal s x
  | .write x => write s x
  | .read x => read s x
  | .rtcpRead => rtcpRead s
  | .close => close s
  | .advance ms => (advance s ms, .ret)
  | .flush => ((flush s).1, .ret)

def run (s : St) (ops : List Op) : St := ops.foldl (fun st o => (step st o).1) s

/-! projections of `bindRemote` (proved once by case analysis on the state's booleans) -/

theorem bindRemote_ret (s : St) (x : Nat) : (bindRemote s x).2 = .ret := by
  obtain ⟨⟨hasLoop, interval, emits, imm, rh, rn⟩, now, loopStart, closed, remote, loc, readers, writers, hr, reads,
    queued, waiting, emitted, blocked, written, loops⟩ := s
  cases imm <;> cases closed <;> cases loopStart <;> rfl

theorem bindRemote_remote (s : St) (x : Nat) : (bindRemote s x).1.remote = insertSorted x s.remote := by
  obtain ⟨⟨hasLoop, interval, emits, imm, rh, rn⟩, now, loopStart, closed, remote, loc, readers, writers, hr, reads,
    queued, waiting, emitted, blocked, written, loops⟩ := s
  cases imm <;> cases closed <;> cases loopStart <;> rfl

theorem bindRemote_closed (s : St) (x : Nat) : (bindRemote s x).1.closed = s.closed := by
  obtain ⟨⟨hasLoop, interval, emits, imm, rh, rn⟩, now, loopStart, closed, remote, loc, readers, writers, hr, reads,
    queued, waiting, emitted, blocked, written, loops⟩ := s
  cases imm <;> cases closed <;> cases loopStart <;> rfl

theorem bindRemote_emitted_closed (s : St) (x : Nat) (h : s.closed = true) :
    (bindRemote s x).1.emitted = s.emitted := by
  obtain ⟨⟨hasLoop, interval, emits, imm, rh, rn⟩, now, loopStart, closed, remote, loc, readers, writers, hr, reads,
    queued, waiting, emitted, blocked, written, loops⟩ := s
  simp only at h; subst h
  cases imm <;> cases loopStart <;> rfl

theorem bindRemote_reads (s : St) (x : Nat) :
    (bindRemote s x).1.reads = (x, 0) :: s.reads.filter (·.1 != x) := by
  obtain ⟨⟨hasLoop, interval, emits, imm, rh, rn⟩, now, loopStart, closed, remote, loc, readers, writers, hr, reads,
    queued, waiting, emitted, blocked, written, loops⟩ := s
  cases imm <;> cases closed <;> cases loopStart <;> rfl

/-- ★ after Close nobody is left waiting inside the interceptor (no stranded caller). -/
theorem close_releases_all (s : St) : (close s).1.waiting = [] ∧ (close s).1.closed = true := by
  simp [close]

/-- ★ once closed, every call returns (or reports an unbound stream): nothing blocks. -/
theorem after_close_nothing_blocks (s : St) (h : s.closed = true) (o : Op) :
    (step s o).2 ≠ .blocked := by
  cases o <;> simp [step, bindW, bindRemote_ret, bindRemote_remote, bindRemote_closed, bindLocal, unbindRemote, unbindLocal, write, read,
    rtcpRead, close, h, setReads] <;> (repeat' split) <;> simp_all

/-- `closed` is stable. -/
theorem closed_stable (s : St) (h : s.closed = true) (o : Op) : (step s o).1.closed = true := by
  cases o <;> simp [step, bindW, bindRemote_ret, bindRemote_remote, bindRemote_closed, bindLocal, unbindRemote, unbindLocal, write, read,
    rtcpRead, close, advance, flush, h, setReads] <;> (repeat' split) <;> simp_all

/-- ★ after Close nothing more is emitted: no operation adds to the emitted set. -/
theorem no_emission_after_close (s : St) (h : s.closed = true) (o : Op) :
    ∀ x, x ∈ (step s o).1.emitted → x ∈ s.emitted := by
  cases o with
  | bindRemote y => intro x hx; simpa [step, bindRemote_emitted_closed s y h] using hx
  | _ =>
    simp [step, bindW, bindLocal, unbindRemote, unbindLocal, write, read,
      rtcpRead, close, advance, flush, ticksIn, h, setReads] <;> (repeat' split) <;> simp_all

theorem no_emission_after_close_run (s : St) (h : s.closed = true) (ops : List Op) :
    ∀ x, x ∈ (run s ops).emitted → x ∈ s.emitted := by
  induction ops generalizing s with
  | nil => intro x hx; exact hx
  | cons o os ih =>
    intro x hx
    have hc := closed_stable s h o
    exact no_emission_after_close s h o x (ih (step s o).1 hc x hx)

/-- ★ a call blocks only in the one situation the code has: a hand-off read (twcc sender, rfc8888)
while the interceptor is open and no loop has been started yet. -/
theorem blocks_only_without_loop (s : St) (o : Op) (h : (step s o).2 = .blocked) :
    s.closed = false ∧ s.loopStart = none ∧ s.p.readHandoff = true := by
  cases o <;> simp [step, bindW, bindRemote_ret, bindRemote_remote, bindRemote_closed, bindLocal, unbindRemote, unbindLocal, write, read,
    rtcpRead, close, setReads] at h ⊢ <;> (repeat' split at h) <;> simp_all

/-- ★ interceptors without hand-off reads never block a caller. -/
theorem plain_never_blocks (s : St) (hr : s.p.readHandoff = false) (o : Op) : (step s o).2 ≠ .blocked := by
  intro h
  have := blocks_only_without_loop s o h
  simp_all

/-- ★ Bind, Unbind and Close never block, whatever lifecycle calls preceded them (after the F-30b
repair this holds for every parameter vector, including the interval-PLI shape). -/
theorem lifecycle_calls_never_block (s : St) (x : Nat) :
    (bindW s).2 = .ret ∧ (bindLocal s x).2 = .ret ∧ (bindRemote s x).2 = .ret ∧
    (unbindLocal s x).2 = .ret ∧ (unbindRemote s x).2 = .ret ∧ (close s).2 = .ret := by
  refine ⟨?_, rfl, ?_, rfl, rfl, rfl⟩
  · simp only [bindW]; split <;> rfl
  · exact bindRemote_ret s x

/-- the code before the F-30b repair (a channel of capacity one that only the loop drains): a second
BindRemoteStream before any RTCP writer blocked — kept as the witness of the repaired defect. -/
def bindRemoteUnrepaired (s : St) (ssrc : Nat) : Outcome :=
  if s.p.immediateOnBind && !s.closed && s.loopStart.isNone && !s.queued.isEmpty then .blocked else .ret

theorem bind_never_blocks_unrepaired_false :
    ¬ (∀ (s : St) (x : Nat), bindRemoteUnrepaired s x = .ret) := by
  intro h
  have := h { p := { hasLoop := true, emits := .remoteBound, immediateOnBind := true }, queued := [1] } 2
  revert this; decide

/-- ★ a blocked caller is released by Close and by the start of a loop. -/
theorem released_by_loop_start (s : St) (hc : s.closed = false) (hl : s.p.hasLoop = true) :
    (bindW s).1.waiting = [] := by
  simp [bindW, hc, hl]

/-- ★ Unbind stops reports about the stream: after UnbindRemoteStream x no tick reports x for the
remote-stream rules, and after UnbindLocalStream x none for the local rule. -/
theorem unbind_remote_stops (s : St) (x : Nat) (h : s.p.emits ≠ .localBound) :
    x ∉ tickSet (unbindRemote s x).1 := by
  unfold tickSet unbindRemote
  cases he : s.p.emits <;> simp_all [List.mem_filter]

theorem unbind_local_stops (s : St) (x : Nat) (h : s.p.emits = .localBound) :
    x ∉ tickSet (unbindLocal s x).1 := by
  unfold tickSet unbindLocal
  simp [h, List.mem_filter]

/-- a stream stays unreported while it is not bound again. -/
def notRebinding (x : Nat) : Op → Prop
  | .bindRemote y => y ≠ x
  | .bindLocal y => y ≠ x
  | _ => True

theorem mem_insertSorted (a x : Nat) (l : List Nat) : a ∈ insertSorted x l ↔ a = x ∨ a ∈ l := by
  induction l with
  | nil => simp [insertSorted]
  | cons y ys ih =>
    unfold insertSorted
    split
    · simp
    · split
      · subst_vars; simp
      · simp [ih]; constructor <;> (intro h; rcases h with h | h | h <;> simp_all)

theorem remote_unchanged (s : St) (x : Nat) (o : Op) (hn : notRebinding x o) (hx : x ∉ s.remote) :
    x ∉ (step s o).1.remote := by
  cases o <;> simp [step, bindW, bindRemote_ret, bindRemote_remote, bindRemote_closed, bindLocal, unbindRemote, unbindLocal, write, read,
    rtcpRead, close, advance, flush, setReads, notRebinding] at hn ⊢ <;> (repeat' split) <;>
    simp_all [mem_insertSorted, List.mem_filter] <;> omega

/-- ★ after UnbindRemoteStream x, no later tick reports x until x is bound again (remote rules). -/
theorem unbind_remote_stops_run (s : St) (x : Nat) (ops : List Op) (hn : ∀ o ∈ ops, notRebinding x o) :
    x ∉ (run (unbindRemote s x).1 ops).remote := by
  have h0 : x ∉ (unbindRemote s x).1.remote := by simp [unbindRemote, List.mem_filter]
  generalize (unbindRemote s x).1 = t at h0
  induction ops generalizing t with
  | nil => exact h0
  | cons o os ih =>
    exact ih (fun o' ho' => hn o' (by simp [ho'])) (step t o).1
      (remote_unchanged t x o (hn o (by simp)) h0)

/-- ★ binding the same SSRC again starts from fresh per-stream state. -/
theorem rebind_fresh (s : St) (x : Nat) : readsOf (bindRemote s x).1 x = 0 := by
  simp [readsOf, bindRemote_reads]

/-- non-vacuity: a reachable state in which a hand-off read is waiting, and Close releases it. -/
example :
    let s0 : St := { p := { hasLoop := true, readHandoff := true } }
    let s1 := (bindRemote s0 1).1
    (read s1 1).2 = .blocked ∧ (close (read s1 1).1).1.waiting = [] := by decide

end Interceptor.Lifecycle

/-
C19 — stream statistics equal a recount of the observed traffic.
Only property theorems live here.  Model: Model/Stats.lean (the stats interceptor and its
recorders, on the tree with the F-29, F-27 and F-34 fixes); spec: Spec/Stats.lean (counts, sums and
"last matching report" over the event history); helper lemmas: Proofs/Stats*.lean.
-/
import Interceptor.Proofs.StatsRtt
set_option linter.unusedVariables false
namespace Interceptor.Stats
open Interceptor.Stats.Spec Interceptor.F64

/-- ★ T1 `counters_eq_recount`: for every history (any interleaving of binds, incoming/outgoing
RTP on any stream with any header SSRC, incoming/outgoing compound RTCP packets of any
composition and order, close) and every SSRC `s`: `Get(s)` is nil exactly when the recount says
there is no recorder, and otherwise *every* additive counter (packets / bytes / header bytes
received and sent, NACK / PLI / FIR in each direction, sender reports received) equals the
recount over the window in which the recorder of `s` was active. -/
theorem counters_eq_recount (s : Nat) (evs : List Event) :
    ((Icpt.run evs).get s).map countersOf = recount s evs := by
  rw [get_eq_fold]
  unfold recount window
  cases activation s evs with
  | none => rfl
  | some a => simp [fold_counters_init]

/-- non-vacuity: two streams, a compound packet with an XR in front of a NACK. -/
example : ((Icpt.run [.bind 1 90000, .bind 2 8000, .rtpOut 1 ⟨1, 7, 0, 12, 100⟩,
      .rtcpIn 0 [.xr 9 [], .nack 9 1, .pli 9 2]]).get 1).map countersOf
    = some { inPR := 0, inHB := 0, inB := 0, inFIR := 0, inPLI := 0, inNACK := 0, outPS := 1, outBS := 112,
             outHB := 12, outNACK := 1, outFIR := 0, outPLI := 0, roReports := 0 } := by
  rw [counters_eq_recount]; decide

/-- T1 on the code *before* `fix: stats: keep processing a compound RTCP packet after an
ExtendedReport` is false (F-29): `[XR, NACK]` counts no NACK. -/
theorem counters_eq_recount_unfixed_false :
    ¬ (∀ (s : Nat) (rate : Rat) (now : Int) (pkts : List Rtcp),
        countersOf (recordIncomingRTCPUnfixed s rate {} pkts now) = recountW s [.rtcpIn now pkts]) := by
  intro h
  have := congrArg Counters.outNACK (h 1 90000 0 [.xr 1 [], .nack 2 1])
  revert this
  decide

/-- ★ T2 `per_ssrc_isolation`: the statistics of `s` are a function of the sub-history that
concerns `s` alone — erasing every RTP packet that travels on another stream or carries
another SSRC, every binding of another stream, every incoming RTCP packet whose destinations
do not include `s` and every outgoing FIR/PLI/NACK/SR/RR/other packet that does not name `s`
(from inside whichever compound packets they sit in) changes nothing. -/
theorem per_ssrc_isolation (s : Nat) (evs : List Event) :
    (Icpt.run evs).get s = (Icpt.run (restrict s evs)).get s := by
  unfold Icpt.get
  rw [find_run, find_run, foldl_proj_restrict s evs none (fun r hr => by cases hr)]

/-- non-vacuity: the restriction really erases foreign traffic. -/
example : restrict 1 [.bind 1 90000, .bind 2 8000, .rtpOut 2 ⟨2, 7, 0, 12, 100⟩, .rtpOut 1 ⟨2, 7, 0, 12, 100⟩,
      .rtcpIn 0 [.nack 9 2, .nack 9 1, .xr 2 [.dlrr [⟨2, 5, 5⟩]]], .rtcpOut [.pli 1 2, .rr 1 []]]
    = [.bind 1 90000, .rtcpIn 0 [.nack 9 1], .rtcpOut []] := by decide

/-- ★ T3 `lost_formula`: `PacketsLost` of the inbound stream is expected − received over the
unwrapped sequence numbers of the packets received on stream `s` (with SSRC `s`), in arrival
order: `(highest − first + 1) − count`, `highest` being the running maximum (from 0: unwrapped
numbers are non-negative, C20 `unwrap_nonneg`), `first` the first one; 0 before any packet. -/
theorem lost_formula (s : Nat) (evs : List Event) :
    ((Icpt.run evs).get s).map (·.inLost) = (window s evs).map fun w => lostOf (unwrapped s w) := by
  rw [get_eq_fold]
  unfold window
  cases activation s evs with
  | none => rfl
  | some a => simp [fold_lost]

/-- non-vacuity: wrap-around with one packet missing and one duplicate: 65534, 0, 0 → expected 3,
received 3 → lost 0; then 2 → expected 5, received 4 → lost 1. -/
example : ((Icpt.run [.bind 1 90000, .rtpIn 0 1 ⟨1, 65534, 0, 12, 12⟩, .rtpIn 0 1 ⟨1, 0, 0, 12, 12⟩,
      .rtpIn 0 1 ⟨1, 0, 0, 12, 12⟩, .rtpIn 0 1 ⟨1, 2, 0, 12, 12⟩]).get 1).map (·.inLost) = some 1 := by
  rw [lost_formula]; decide

/-- ★ T4 `remote_from_latest_matching_report`: the remote-inbound loss figures (`PacketsLost`,
`Jitter`, `FractionLost`) are those of the most recent reception report block about `s` among
all incoming SR/RR packets (anywhere in any compound packet), by the WebRTC-stats formulas
`TotalLost`, `jitter / clockRate`, `fractionLost / 256` in exact binary64 arithmetic; all zero
if there is none.  The clock rate is that of the first binding of `s`. -/
theorem remote_from_latest_matching_report (s : Nat) (evs : List Event) :
    ((Icpt.run evs).get s).map remoteLossOf
      = (activation s evs).map fun a => remoteOf (ofInt (a.1 : Int)) (reportsFor s a.2).getLast? := by
  rw [get_eq_fold]
  cases activation s evs with
  | none => rfl
  | some a => simp [fold_remote_init]

/-- non-vacuity: the later block (inside an SR behind an XR) wins over the earlier RR. -/
example : (reportsFor 1 [.rtcpIn 0 [.rr 9 [⟨1, 10, 3, 0, 90, 0, 0⟩, ⟨2, 0, 0, 0, 0, 0, 0⟩]],
      .rtcpIn 5 [.xr 9 [], .sr 9 0 0 0 [⟨1, 128, 4, 0, 180, 0, 0⟩]]]).getLast?
    = some ⟨1, 128, 4, 0, 180, 0, 0⟩ := by decide

/-- T4, round-trip time, one report block: when a report block about `s` with non-zero LSR and
DLSR is processed and the search over the remembered sender reports (most recent first, at most
5) finds the NTP time `v` whose middle 32 bits are the LSR, then
`RoundTripTime = now − DLSR/65536 s − ToTime(v)` (binary64 / int64 exactly as the code computes
it), the measurement count goes up by one and the total by that RTT (int64 wrap-around).  The
history-level statement is `rtt_from_latest_matching_report` below. -/
theorem rtt_from_lsr_dlsr_step (s : Nat) (rate : Rat) (now : Int) (st : IStats) (r : Report) (v : Nat)
    (hs : r.ssrc = s) (hd : r.dlsr ≠ 0) (hl : r.lsr ≠ 0)
    (hf : (searchOrder st.lastSRs).find? (midMatches r.lsr) = some v) :
    (rrStep s rate now st r).riRTT = rttOf now r.dlsr v ∧
    (rrStep s rate now st r).riN = st.riN + 1 ∧
    (rrStep s rate now st r).riTotRTT = wrap64 (st.riTotRTT + rttOf now r.dlsr v) := by
  unfold rrStep rttOf
  cases hi : st.remFirstInit <;> simp [hs, hd, hl, hf]

/-- ★ the memory the RTT search runs over is itself a recount: at any moment the recorder of `s`
remembers exactly the last five NTP times of the sender reports sent that name `s`, and the
last five receiver-reference times sent (any XR), oldest first. -/
theorem sr_memory_eq_recount (s : Nat) (evs : List Event) :
    ((Icpt.run evs).get s).map (fun st => (st.lastSRs, st.lastRRTs))
      = (window s evs).map fun w => (lastN 5 (srTimes s w), lastN 5 (rrtrTimes w)) := by
  rw [get_eq_fold]
  unfold window
  cases activation s evs with
  | none => rfl
  | some a => simp [fold_mem_init]

/-- T4, round-trip time right after a report (corollary form): after any active window `w`, a
receiver report carrying a block about `s` whose LSR is found, most recent first, among the
last five sender reports sent for `s` in `w` gives `RoundTripTime = now − DLSR − ToTime(that SR)`. -/
theorem rtt_after_report (s : Nat) (rate : Rat) (w : List Event) (now : Int) (x : Nat) (r : Report) (v : Nat)
    (hs : r.ssrc = s) (hd : r.dlsr ≠ 0) (hl : r.lsr ≠ 0)
    (hf : (searchOrder (lastN 5 (srTimes s w))).find? (midMatches r.lsr) = some v) :
    ((w ++ [Event.rtcpIn now [Rtcp.rr x [r]]]).foldl (recStep s rate) {}).riRTT = rttOf now r.dlsr v := by
  rw [List.foldl_append]
  have hm := (fold_mem_init s rate w).1
  have hc : (Rtcp.rr x [r]).dest.contains s = true := by simp [Rtcp.dest, hs]
  simp only [List.foldl_cons, List.foldl_nil, recStep, recordIncomingRTCP]
  rw [inStep_hit _ _ _ _ _ hc]
  simp only [inSwitch, recordIncomingRR, List.foldl_cons, List.foldl_nil]
  exact (rtt_from_lsr_dlsr_step s rate now _ r v hs hd hl (by rw [hm]; exact hf)).1

/-- non-vacuity of the hypotheses of `rtt_after_report`: six SRs sent, the LSR of the
second (the oldest still remembered) is found; that of the first is not. -/
example : (searchOrder (lastN 5 (srTimes 1 [.rtcpOut [.sr 1 (10 * 65536) 0 0 [], .sr 1 (20 * 65536) 0 0 []],
      .rtcpOut [.sr 1 (30 * 65536) 0 0 [], .sr 2 (35 * 65536) 0 0 [], .sr 2 (40 * 65536) 0 0 [⟨1, 0, 0, 0, 0, 0, 0⟩]],
      .rtcpOut [.sr 1 (50 * 65536) 0 0 [], .sr 1 (60 * 65536) 0 0 []]]))).find? (midMatches 20) = some (20 * 65536)
    ∧ (searchOrder (lastN 5 (srTimes 1 [.rtcpOut [.sr 1 (10 * 65536) 0 0 [], .sr 1 (20 * 65536) 0 0 []],
      .rtcpOut [.sr 1 (30 * 65536) 0 0 [], .sr 2 (35 * 65536) 0 0 [], .sr 2 (40 * 65536) 0 0 [⟨1, 0, 0, 0, 0, 0, 0⟩]],
      .rtcpOut [.sr 1 (50 * 65536) 0 0 [], .sr 1 (60 * 65536) 0 0 []]]))).find? (midMatches 10) = none := by
  decide

/-- … and no measurement is recorded when LSR or DLSR is zero or no remembered SR matches. -/
theorem rtt_unchanged_without_match (s : Nat) (rate : Rat) (now : Int) (st : IStats) (r : Report)
    (h : r.dlsr = 0 ∨ r.lsr = 0 ∨ (searchOrder st.lastSRs).find? (midMatches r.lsr) = none) :
    (rrStep s rate now st r).riRTT = st.riRTT ∧ (rrStep s rate now st r).riN = st.riN ∧
    (rrStep s rate now st r).riTotRTT = st.riTotRTT := by
  by_cases hs : r.ssrc = s
  · cases hi : st.remFirstInit <;> rcases h with h | h | h <;> simp [rrStep, hs, hi, h]
  · simp [rrStep, hs]

/-- non-vacuity of the RTT formula: SR sent at NTP second 3155673600 (2000-01-01), report
processed 1.5 s later with DLSR = 0.5 s: round-trip time exactly one second. -/
example : (rrStep 1 90000 946684801500000000 { lastSRs := [3155673600 * 4294967296] }
      ⟨1, 0, 0, 0, 0, 3155673600 * 65536 % 4294967296, 32768⟩).riRTT = 1000000000 := by
  decide +kernel

/-- T4, remote `PacketsReceived`, per report block: once a packet has been sent,
`PacketsReceived = max (extended highest − first sent + 1 − TotalLost, 0)`. -/
theorem remote_packets_received_formula (s : Nat) (rate : Rat) (now : Int) (st : IStats) (r : Report)
    (hs : r.ssrc = s) (hi : st.remFirstInit = true) (hlsn : r.lsn < 4294967296) :
    (rrStep s rate now st r).riPR = (max ((r.lsn : Int) - st.remFirst + 1 - (r.tl : Int)) 0).toNat := by
  unfold rrStep
  have : (r.lsn / 65536 % 65536 * 65536 + r.lsn % 65536 : Nat) = r.lsn := by omega
  simp only [hs, ne_eq, not_true_eq_false, if_false, hi, if_true, this]
  repeat' split
  all_goals rfl

/-- T4, DLRR, one remembered time: each remembered receiver-reference time whose middle 32 bits
equal `LastRR` yields one measurement `now − DLRR/65536 s − ToTime(v)` (history level:
`dlrr_rtt_from_history`). -/
theorem rtt_from_dlrr_step (now : Int) (dlrr lrr : Nat) (st : IStats) (v : Nat) (h : midMatches lrr v = true) :
    (dlrrHit now dlrr lrr st v).roRTT = rttOf now dlrr v ∧ (dlrrHit now dlrr lrr st v).roN = st.roN + 1 ∧
    (dlrrHit now dlrr lrr st v).roTotRTT = wrap64 (st.roTotRTT + rttOf now dlrr v) := by
  unfold dlrrHit rttOf
  simp [h]

/-- ★ T4 `rtt_from_latest_matching_report`, round-trip time at history level: at every query
`RoundTripTime`, `TotalRoundTripTime` and `RoundTripTimeMeasurements` of the remote-inbound
stream are the last element, the (int64) sum and the number of `rttHits s w` — the list, in
arrival order, over every incoming compound packet of the window, of `now − DLSR − ToTime(SR)`
for each report block about `s` (in SR or RR, anywhere in the compound) with non-zero LSR and
DLSR whose LSR is found, most recent first, among the last five sender reports that had been
*sent for `s` before that packet*.  So a `RoundTripTime` seen later stems from the most recent
such block, judged against the sender reports sent before it; 0 if there never was one. -/
theorem rtt_from_latest_matching_report (s : Nat) (evs : List Event) :
    ((Icpt.run evs).get s).map remoteInboundRtt = (window s evs).map fun w => rttFiguresOf (rttHits s w) := by
  rw [get_eq_fold]
  unfold window
  cases activation s evs with
  | none => rfl
  | some a => simp [fold_rtt_init]

/-- non-vacuity: SR sent, a first report misses (LSR of nothing sent), a second one hits, later
traffic (another SR out, a report with DLSR = 0) leaves the value alone: one measurement. -/
example : rttFiguresOf (rttHits 1 [.rtcpOut [.sr 1 (3155673600 * 4294967296) 0 0 []],
      .rtcpIn 946684801000000000 [.rr 9 [⟨1, 0, 0, 0, 0, 77, 65536⟩]],
      .rtcpIn 946684801500000000 [.xr 9 [], .rr 9 [⟨2, 0, 0, 0, 0, 0, 0⟩, ⟨1, 0, 0, 0, 0, 3155673600 * 65536 % 4294967296, 32768⟩]],
      .rtcpOut [.sr 1 (3155673700 * 4294967296) 0 0 []],
      .rtcpIn 946684809000000000 [.rr 9 [⟨1, 0, 0, 0, 0, 3155673700 * 65536 % 4294967296, 0⟩]]])
    = { rtt := 1000000000, total := 1000000000, n := 1 } := by
  decide +kernel

/-- ★ T4, DLRR at history level: `RoundTripTime`, total and count of the remote-outbound stream
are the last element, the sum and the number of `dlrrHits s w`: for every incoming XR, every DLRR
sub-report about `s` with non-zero LastRR and DLRR, every one of the last five
receiver-reference times sent before that packet whose middle bits equal LastRR (most recent
first; the code does not stop at the first) yields `now − DLRR − ToTime(that time)`. -/
theorem dlrr_rtt_from_history (s : Nat) (evs : List Event) :
    ((Icpt.run evs).get s).map remoteOutboundRtt = (window s evs).map fun w => rttFiguresOf (dlrrHits s w) := by
  rw [get_eq_fold]
  unfold window
  cases activation s evs with
  | none => rfl
  | some a => simp [fold_ro_init]

/-- non-vacuity: the same reference time sent twice is matched twice by one sub-report. -/
example : (rttFiguresOf (dlrrHits 1 [.rtcpOut [.xr 1 [.rrtr (3155673600 * 4294967296)], .xr 1 [.rrtr (3155673600 * 4294967296)]],
      .rtcpIn 946684801500000000 [.xr 9 [.dlrr [⟨2, 5, 5⟩, ⟨1, 3155673600 * 65536 % 4294967296, 32768⟩]]]])).n = 2 := by
  decide +kernel

/-- ★ FIR addressing (F-34, fixed): in both directions a FIR is addressed to `s` iff one of its
FCI entries names `s` (RFC 5104 §4.3.1: the media-source field of the header is unused and
SHALL be 0) — the recount `counters_eq_recount` uses for incoming FIR is the same predicate as
for outgoing FIR — … -/
theorem fir_in_addressing_rfc5104 (s : Nat) (p : Rtcp) : isFirInFor s p = isFirOutFor s p := by
  cases p <;> rfl

/-- … and the recorder counts an incoming FIR with an FCI entry for `s` whatever its header says. -/
theorem fir_in_counted_per_fci_entry (s : Nat) (rate : Rat) (now : Int) (st : IStats) (sender media : Nat)
    (es : List Nat) (h : s ∈ es) :
    (inStep s rate now st (.fir sender media es)).outFIR = st.outFIR + 1 := by
  have hc : (Rtcp.fir sender media es).dest.contains s = true := by simpa [Rtcp.dest] using h
  rw [inStep_hit _ _ _ _ _ hc]
  rfl

/-- non-vacuity: a compliant FIR (media SSRC 0) inside a compound packet. -/
example : ((Icpt.run [.bind 1 90000, .rtcpIn 0 [.xr 9 [], .fir 9 0 [2, 1]]]).get 1).map (·.outFIR) = some 1 := by
  decide

/-- The same statement on the code *before* `fix: stats: count an incoming FIR for the stream
named in its FCI entries` is false (F-34): media SSRC 0, FCI entry for stream 1 — not counted. -/
theorem fir_in_counted_unfixed_false :
    ¬ (∀ (s : Nat) (st : IStats) (media : Nat), (firInUnfixed s st media).outFIR = st.outFIR + 1) := by
  intro h
  have := h 1 {} 0
  revert this
  decide

end Interceptor.Stats

/-
C10 — freedom from data races: the lock discipline implies race freedom on the abstract
lock machine, and the discipline is checked on the facts regenerated from /repo
(`Facts/C10.lean: facts_ok`).  The step from the syntactic lock sets of the facts to the
running program (the translator's lock-set computation, the Go memory model) is trusted.
-/
import Interceptor.Model.LockMachine
import Interceptor.Facts.LockDiscipline
set_option linter.unusedVariables false
namespace Interceptor.LockMachine
open Interceptor.Facts

theorem excl_init : Excl (fun _ => {}) := by
  intro m h; rfl

theorem excl_step {s e s'} (h : Excl s) (st : Step s e s') : Excl s' := by
  cases st with
  | lock t m hw hr =>
    intro m' hne; unfold set at *; by_cases hm : m' = m <;> simp_all [Excl]
  | rlock t m hw =>
    intro m' hne; unfold set at *; by_cases hm : m' = m <;> simp_all [Excl]
  | unlock t m hw =>
    intro m' hne; unfold set at *; by_cases hm : m' = m <;> simp_all [Excl]
  | runlock t m hr =>
    intro m' hne; unfold set at *
    by_cases hm : m' = m
    · subst hm
      simp only [if_true] at hne ⊢
      have := h m' hne
      simp [this] at hr
    · simp_all [Excl]

/-- ★ mutual exclusion holds in every reachable state of the mutex machine. -/
theorem excl_reach {s} (h : Reach s) : Excl s := by
  induction h with
  | init => exact excl_init
  | step _ st ih => exact excl_step ih st

/-- ★ an exclusive holder excludes every other holder (exclusive or shared). -/
theorem exclusive_excludes {s t1 t2 m} (h : Reach s) (hw : holdsW s t1 m)
    (ho : holdsW s t2 m ∨ holdsR s t2 m) : t1 = t2 := by
  cases ho with
  | inl h2 => unfold holdsW at *; rw [hw] at h2; exact Option.some.inj h2
  | inr h2 =>
    have := excl_reach h m (by unfold holdsW at hw; rw [hw]; simp)
    unfold holdsR at h2; rw [this] at h2; cases h2

/-- thread `t` holds (at least) the locks of a static lock set. -/
def Holds (s : LState) (t : Tid) (locks : List (Nat × Mode)) : Prop :=
  ∀ p ∈ locks, (p.2 = .w → holdsW s t p.1) ∧ (p.2 = .r → holdsR s t p.1 ∨ holdsW s t p.1)

theorem holds_of_siteHoldsW {s : LState} {t : Tid} {site : Site} {l : Nat}
    (hs : Holds s t site.locks) (h : site.holdsW l = true) : holdsW s t l := by
  unfold Site.holdsW at h
  obtain ⟨p, hp, hpl⟩ := List.any_eq_true.mp h
  simp only [Bool.and_eq_true, beq_iff_eq] at hpl
  have := (hs p hp).1 hpl.2
  rw [hpl.1] at this; exact this

theorem holds_of_siteHolds {s : LState} {t : Tid} {site : Site} {l : Nat}
    (hs : Holds s t site.locks) (h : site.holds l = true) : holdsW s t l ∨ holdsR s t l := by
  unfold Site.holds at h
  obtain ⟨p, hp, hpl⟩ := List.any_eq_true.mp h
  simp only [beq_iff_eq] at hpl
  have hh := hs p hp
  cases hm : p.2 with
  | w => left; have := hh.1 hm; rw [hpl] at this; exact this
  | r =>
    cases hh.2 hm with
    | inl h1 => right; rw [hpl] at h1; exact h1
    | inr h1 => left; rw [hpl] at h1; exact h1

/-- ★ discipline ⇒ no race (guarded fields): if the facts of a field satisfy `guardedOk l`, two
live access sites of which one modifies the field can be simultaneously enabled — each thread
holding the locks its site holds syntactically — only in one and the same thread. -/
theorem guarded_no_race {l : Nat} {sites : List Site} {s1 s2 : Site} {st : LState} {t1 t2 : Tid}
    (hok : guardedOk l sites = true) (h1 : s1 ∈ sites) (h2 : s2 ∈ sites)
    (l1 : s1.ctor = false) (l2 : s2.ctor = false) (hw : s1.writes = true)
    (hr : Reach st) (hh1 : Holds st t1 s1.locks) (hh2 : Holds st t2 s2.locks) : t1 = t2 := by
  unfold guardedOk at hok
  have a1 := List.all_eq_true.mp hok s1 h1
  have a2 := List.all_eq_true.mp hok s2 h2
  simp only [l1, l2, Bool.false_or, hw, if_true] at a1 a2
  have w1 := holds_of_siteHoldsW hh1 a1
  by_cases hw2 : s2.writes = true
  · simp only [hw2, if_true] at a2
    exact exclusive_excludes hr w1 (Or.inl (holds_of_siteHoldsW hh2 a2))
  · simp only [hw2] at a2
    exact exclusive_excludes hr w1 (holds_of_siteHolds hh2 (by simpa using a2))

/-- ★ immutable fields: no live site modifies the field, so no conflicting pair exists. -/
theorem immutable_no_conflict {sites : List Site} {s : Site}
    (hok : immutableOk sites = true) (h : s ∈ sites) (hl : s.ctor = false) : s.writes = false := by
  have := List.all_eq_true.mp hok s h
  simpa [hl] using this

/-- ★ atomic fields: every live access is an atomic operation (linearizable by sync/atomic). -/
theorem atomic_only {sites : List Site} {s : Site}
    (hok : atomicOk sites = true) (h : s ∈ sites) (hl : s.ctor = false) : s.kind = .atomic := by
  have := List.all_eq_true.mp hok s h
  simpa [hl] using this

/-- ★ lock-order: a graph accepted by `acyclic` has no self-loop edge surviving the pruning, in
particular no thread can wait for a lock it already holds through a recorded edge. -/
theorem acyclic_no_self_edge (es : List (Nat × Nat)) (a : Nat) (h : (a, a) ∈ es) :
    (a, a) ∈ pruneOnce es := by
  unfold pruneOnce
  simp only [List.mem_filter]
  exact ⟨h, List.any_eq_true.mpr ⟨(a, a), h, by simp⟩⟩

/-- non-vacuity: a reachable state with a writer, and a site list satisfying `guardedOk`. -/
example : Reach (set (fun _ => {}) 3 { writer := some 7, readers := [] }) :=
  Reach.step Reach.init (Step.lock _ 7 3 rfl rfl)
example : guardedOk 3 [{ ctx := 0, kind := .write, ctor := false, locks := [(3, .w)] },
    { ctx := 1, kind := .read, ctor := false, locks := [(3, .r), (4, .w)] }] = true := by decide

end Interceptor.LockMachine

/-
C07 — sender reports count what was sent and map RTP time to wall time.
Model: Model/SenderReport.lean (the code with the F-09 repair).  Only property theorems live here.
Forced hypothesis (named where used): a history shorter than 2^32 packets — `packetCount == 0` is
the code's first-packet test and the uint32 wraps.
-/
import Interceptor.Proofs.SenderReport
set_option linter.unusedVariables false
namespace Interceptor.SenderReport
open Interceptor Interceptor.F64 Interceptor.GoTime Interceptor.SenderReport.Spec

/-- ★ T1 `counts_eq_recount`: after any send history the counters are the number of packets and
the sum of the payload lengths, both modulo 2^32 (any start state with in-range counters). -/
theorem counts_eq_recount (s : Stream) (ps : List Pkt)
    (h1 : s.packetCount < M32) (h2 : s.octetCount < M32) :
    (run s ps).packetCount = (s.packetCount + ps.length) % M32 ∧
    (run s ps).octetCount = (s.octetCount + (ps.map (·.len)).sum) % M32 :=
  counts_run s ps h1 h2

/-- ★ T1 at the observable: the report of a freshly bound stream after a history carries the
recount of that history. -/
theorem report_counts_eq_recount (ssrc rate : Nat) (l : Bool) (ps : List Pkt) (now : Int) :
    (generateReport (run (new ssrc rate l) ps) now).packetCount = Spec.packetCount ps ∧
    (generateReport (run (new ssrc rate l) ps) now).octetCount = Spec.octetCount ps := by
  obtain ⟨a, b⟩ := counts_eq_recount (new ssrc rate l) ps (Nat.zero_lt_succ _) (Nat.zero_lt_succ _)
  simp only [generateReport, Spec.packetCount, Spec.octetCount]
  rw [a, b]; simp [new]

/-- ★ T2 `reference_monotone` (step form, any state past the first packet): without
use-latest-packet the reference sequence number either stays or moves forward in half-range
order, and a packet that is not newer leaves the whole reference (sequence number, RTP
timestamp, wall time) untouched. -/
theorem reference_monotone (s : Stream) (p : Pkt) (hl : s.useLatest = false) (hc : s.packetCount ≠ 0) :
    let s' := processRTP s p
    (isNewer16 p.seq s.lastSN = true ∧ s'.lastSN = p.seq) ∨
    (isNewer16 p.seq s.lastSN = false ∧ s'.lastSN = s.lastSN ∧ s'.lastTs = s.lastTs ∧ s'.lastTime = s.lastTime) := by
  have hc' : (s.packetCount == 0) = false := by simpa using hc
  unfold processRTP accepts isNewer16
  simp only [hl, hc', Bool.false_or]
  split
  · left; split <;> simp_all
  · right; simp_all

/-- ★ T2, use-latest-packet: the reference sequence number is the last one written. -/
theorem reference_latest (s : Stream) (p : Pkt) (hl : s.useLatest = true) :
    (processRTP s p).lastSN = p.seq := by
  unfold processRTP accepts
  simp only [hl, Bool.true_or, if_true]
  split <;> rfl

/-- ★ T2 over histories: on a stream bound without use-latest-packet, every packet after the
first (history shorter than 2^32) moves the reference sequence number forward or not at all. -/
theorem reference_monotone_trace (ssrc rate : Nat) (ps : List Pkt) (p : Pkt)
    (hne : ps ≠ []) (hlen : ps.length < M32) :
    let s := run (new ssrc rate false) ps
    (processRTP s p).lastSN = s.lastSN ∨ isNewer16 (processRTP s p).lastSN s.lastSN = true := by
  intro s
  have hc : s.packetCount ≠ 0 := by
    have := (counts_eq_recount (new ssrc rate false) ps (Nat.zero_lt_succ _) (Nat.zero_lt_succ _)).1
    have hl : 0 < ps.length := List.length_pos_iff.mpr hne
    show (run (new ssrc rate false) ps).packetCount ≠ 0
    rw [this]; simp only [new, M32] at *; omega
  have hl : s.useLatest = false := run_useLatest _ _
  rcases reference_monotone s p hl hc with ⟨h1, h2⟩ | ⟨_, h2, _⟩
  · right; rw [h2]; exact h1
  · left; exact h2

/-- ★ T2 over histories, use-latest-packet: the reference is the last packet written. -/
theorem reference_latest_trace (ssrc rate : Nat) (ps : List Pkt) (p : Pkt) :
    (run (new ssrc rate true) (ps ++ [p])).lastSN = p.seq := by
  simp only [run, List.foldl_append, List.foldl_cons, List.foldl_nil]
  exact reference_latest _ p (run_useLatest _ _)

/-- ★ T3 `first_of_frame`: after any non-empty history shorter than 2^32 packets on a freshly
bound stream, the reference candidates (first packet; then every packet with use-latest-packet,
else every packet newer in half-range order than the newest candidate) split as
`pre ++ q :: rest` where `rest` all carry `q`'s timestamp and the candidate before `q` does not;
the stream's reference is `q`: its RTP timestamp and *its* wall-clock time (the first packet of
the frame, not a later one), and the reference sequence number is the last candidate's.
(False on the unrepaired code when the first packet has RTP timestamp 0: F-09.) -/
theorem first_of_frame (ssrc rate : Nat) (l : Bool) (ps : List Pkt)
    (hne : ps ≠ []) (hlen : ps.length < M32) :
    let s := run (new ssrc rate l) ps
    ∃ pre q rest, accepted l ps = pre ++ q :: rest ∧ (∀ r ∈ rest, r.ts = q.ts) ∧
      (∀ x, pre.getLast? = some x → x.ts ≠ q.ts) ∧
      s.lastTs = q.ts ∧ s.lastTime = some q.now ∧ s.lastSN = lastSeq 0 (accepted l ps) := by
  intro s
  suffices h : FrameInv s (accepted l ps) ∧ accepted l ps ≠ [] by
    exact h.1
  show FrameInv (run (new ssrc rate l) ps) (accepted l ps) ∧ accepted l ps ≠ []
  induction ps using List.reverseRecOn with
  | nil => exact absurd rfl hne
  | append_singleton qs p ih =>
    cases qs with
    | nil =>
      refine ⟨⟨[], p, [], rfl, by simp, by simp, ?_, ?_, ?_⟩, by simp [accepted]⟩ <;>
        simp [run, processRTP, accepts, new, lastSeq, accepted, acceptedFrom]
    | cons q0 qs =>
      have hlen' : (q0 :: qs).length < M32 := by simp only [List.length_append, List.length_cons, List.length_nil, M32] at hlen ⊢; omega
      obtain ⟨ihI, ihN⟩ := ih (by simp) hlen'
      have hc : (run (new ssrc rate l) (q0 :: qs)).packetCount ≠ 0 := by
        have := (counts_eq_recount (new ssrc rate l) (q0 :: qs) (Nat.zero_lt_succ _) (Nat.zero_lt_succ _)).1
        rw [this]; simp only [new, List.length_cons, M32] at hlen' ⊢; omega
      have hstep := frameInv_step _ _ p hc ihN ihI
      rw [run_useLatest] at hstep
      have hacc : accepted l (q0 :: qs ++ [p]) = accepted l (q0 :: qs) ++
          (if l || isNewer16 p.seq (lastSeq 0 (accepted l (q0 :: qs))) then [p] else []) := by
        simp only [accepted, List.cons_append]
        rw [acceptedFrom_snoc]
        simp only [lastSeq_cons, List.cons_append]
      constructor
      · rw [hacc]
        have hrun : run (new ssrc rate l) (q0 :: qs ++ [p]) = processRTP (run (new ssrc rate l) (q0 :: qs)) p := by
          simp only [run, List.foldl_append, List.foldl_cons, List.foldl_nil]
        rw [hrun]; exact hstep
      · rw [hacc]; simp [accepted]

/-- F-09: on the code before the repair `first_of_frame` fails — after a first packet with RTP
timestamp 0 the reference time is still the zero `time.Time` (witness: corpus/C07/F-09.ops). -/
theorem first_of_frame_unrepaired_false :
    ¬ (∀ (ps : List Pkt), ps ≠ [] → ∃ q, (ps.foldl processRTPUnrepaired (new 1 90000 false)).lastTime = some q) := by
  intro h
  obtain ⟨q, hq⟩ := h [⟨946684800000000000, 100, 0, 100⟩] (by simp)
  have hn : (([⟨946684800000000000, 100, 0, 100⟩] : List Pkt).foldl processRTPUnrepaired
      (new 1 90000 false)).lastTime = none := by decide
  rw [hn] at hq; cases hq

/-- ★ T4 `rtptime_formula` (F64-exact): the report's RTP timestamp is the reference timestamp
advanced, modulo 2^32, by `uint32(float64(elapsed seconds) * float64(rate))`, each float
operation being the exact rational one rounded to nearest-even binary64. -/
theorem rtptime_formula (s : Stream) (t now : Int) (h : s.lastTime = some t) :
    (generateReport s now).rtp =
      (s.lastTs + toUint32 (rne (seconds (now - t) * rne (s.rate : Int)))) % M32 := by
  simp only [generateReport, elapsedTicks, GoTime.sub, h, mul, ofInt]

/-- ★ T5 `ntp_field`: the NTP field is `ToNTP` of the report instant (C20 covers `ToNTP`). -/
theorem ntp_field (s : Stream) (now : Int) : (generateReport s now).ntp = Ntp.toNTP now := rfl

/-- non-vacuity (T1–T3): a three-packet history with a two-packet frame and a late packet. -/
example :
    let ps : List Pkt := [⟨10, 7, 0, 100⟩, ⟨20, 8, 0, 50⟩, ⟨30, 6, 9000, 1⟩, ⟨40, 9, 3000, 7⟩]
    let s := run (new 1 90000 false) ps
    s.packetCount = 4 ∧ s.octetCount = 158 ∧ s.lastSN = 9 ∧ s.lastTs = 3000 ∧ s.lastTime = some 40 ∧
    (run (new 1 90000 false) (ps.take 3)).lastTime = some 10 := by decide

end Interceptor.SenderReport

/-
C09.T4 `generator_compat` (TWCC half) — composition of C05 (Props/C05.lean: the recorder model
emits feedback whose independent decoding is exactly the recorded arrivals) with C09's decoders:
every feedback packet the C05 model can emit, in the parsed form pion/rtcp hands over
(`toParsed`: Proofs/TwccCompat.lean), is decoded
  * by `rtpfb.convertTWCC` to exactly one acknowledgement per status of the C05 decoding
    (`TwccSpec.decode` of the marshalled bytes), same number, arrived ⇔ the status carries a time,
    arrival = that time;
  * by `cc.FeedbackAdapter.OnTransportCCFeedback` to the history entries of exactly those numbers
    with those times — followed by `pad` further "lost" entries for the numbers after the declared
    range (the chunk padding; known finding F-15).
Only property theorems live here. The RFC 8888 half (composition with the C08 model) is not proved;
it is covered by the `ccfb-recorder` correspondence classes.
-/
import Interceptor.Props.C05
import Interceptor.Props.C09
import Interceptor.Proofs.TwccCompat
set_option linter.unusedVariables false
namespace Interceptor.C09Compat
open Interceptor Interceptor.Twcc Interceptor.TwccSpec

/-- T4 per packet, rtpfb (`generator_compat_packet`): for every feedback the recorder can assemble,
`convertTWCC` of its parsed form returns `entryToRAck` of each entry of the C05 structured decoding,
in order — and (C05.T4) the entries carrying a time are exactly the logged `(number, time)` pairs,
within 125 µs modulo the reference-time range, all others "not received". -/
theorem generator_compat_packet {f : Feedback} {log : List (Nat × Int)} (h : BuiltLog f log)
    (hc : f.count < 65536) (hr : 0 ≤ f.ref64) :
    Rtpfb.convertTWCC (toParsed f.getRTCP) = .ok (f.getRTCP.decodeStruct.map entryToRAck) ∧
    f.getRTCP.decodeStruct.length = f.getRTCP.count ∧
    ReportsAll ((f.getRTCP.decodeStruct.map (shiftEntry (f.ref64 / 16777216 * 1073741824000))).filter
      (fun e => e.time.isSome)) log ∧
    (∀ e ∈ f.getRTCP.decodeStruct, e.time = none → e.status = 0) := by
  obtain ⟨d1, d2, d3⟩ := decode_sound_packet h hc hr
  refine ⟨?_, d1, d2, d3⟩
  rw [C09.convertTWCC_eq_spec, decodeTWCC_toParsed (builtLog_built h) hc]
  simp only [filterMap_entryConv]

/-- T4 per packet, adapter: for every history `H`, the adapter returns the history entry of each
number of the C05 decoding with that entry's time, then `pad` entries for the numbers after the
declared range, reported as lost (F-15: the padding symbols of the last chunk). -/
theorem generator_compat_packet_adapter {f : Feedback} {log : List (Nat × Int)} (h : BuiltLog f log)
    (hc : f.count < 65536) (hb : f.base < 65536) (H : FeedbackAdapter.Hist) :
    ∃ pad, FeedbackAdapter.onTWCC H (toParsed f.getRTCP) =
      .ok ((f.getRTCP.decodeStruct.map entryConv ++
          Feedback.Spec.number (f.getRTCP.base + f.getRTCP.count) (List.replicate pad .lost)).map
        fun e => FeedbackAdapter.entry H e.1 e.2.time) := by
  obtain ⟨pad, hp⟩ := decodeTWCCAll_toParsed (builtLog_built h) hc
  refine ⟨pad, ?_⟩
  rw [C09.onTWCC_eq_spec H (toParsed f.getRTCP) hb (chunkOK_toParsed _), hp]

/-- ★ T4 `generator_compat` (TWCC): in every reachable recorder state, `BuildFeedbackPacket` returns
packets that partition the received numbers from the cursor on (C05.T4/T5); for each packet, the
independent decoder accepts its bytes, and BOTH C09 decoders, fed the parsed form, return exactly
that decoding: rtpfb one acknowledgement per status (arrived ⇔ timed, arrival = the decoded time,
which is within 125 µs of the recorded arrival modulo 2^24·64 ms), the adapter the history entries
of the same numbers with the same times (plus trailing "lost" padding entries, F-15). -/
theorem generator_compat {r : Recorder} (hr : Reach r) (s : Int) (hs : r.start = some s) :
    ∃ groups : List (Feedback × List (Int × Int)),
      r.build.2 = groups.map (fun g => g.1.getRTCP) ∧
      (groups.map (·.2)).flatten = received r.map s r.map.endSN ∧
      ∀ g ∈ groups, ∃ es : List Entry,
        TwccSpec.decode g.1.getRTCP.toWire = some es ∧
        Rtpfb.convertTWCC (toParsed g.1.getRTCP) = .ok (es.map entryToRAck) ∧
        (∀ H : FeedbackAdapter.Hist, ∃ pad, FeedbackAdapter.onTWCC H (toParsed g.1.getRTCP) =
          .ok ((es.map entryConv ++
              Feedback.Spec.number (g.1.getRTCP.base + g.1.getRTCP.count) (List.replicate pad .lost)).map
            fun e => FeedbackAdapter.entry H e.1 e.2.time)) ∧
        (∃ K : Int, K % 1073741824000 = 0 ∧
          ReportsAll ((es.map (shiftEntry K)).filter (fun e => e.time.isSome)) (g.2.map wire)) ∧
        (∀ e ∈ es, e.time = none → e.status = 0) := by
  obtain ⟨groups, g1, g2, g3, _⟩ := (build_spec r (reach_inv hr)).2 s hs
  refine ⟨groups, g1, g2, ?_⟩
  intro g hg
  obtain ⟨B, c, hcov, hb, _, _, _⟩ := covers_mem g3 g hg
  have hcnt : g.1.count < 65536 := by have := hcov.count; omega
  have hbase : g.1.base < 65536 := by rw [hcov.base]; omega
  obtain ⟨c1, d1, d2, d3⟩ := generator_compat_packet hcov.built hcnt hcov.ref
  refine ⟨_, wire_decode (builtLog_built hcov.built) hcnt, c1, ?_, ⟨_, by omega, d2⟩, d3⟩
  intro H
  exact generator_compat_packet_adapter hcov.built hcnt hbase H

/-- non-vacuity: a reachable recorder with one recorded packet has a cursor. -/
example : ∃ r : Recorder, Reach r ∧ r.start ≠ none :=
  ⟨(newRecorder 1).record 2 10 1000, .record 2 10 1000 (.new 1), by decide⟩

end Interceptor.C09Compat

/-
C20 — the property theorems restated on the code itself: on the Lean definitions that
extract/fn.go regenerates from internal/sequencenumber/unwrapper.go and internal/ntp/ntp.go on every run
(Gen/Fn_sequencenumber.lean, Gen/Fn_ntp.lean).  Each statement follows from the model theorem and the
source-equals-model theorem of Facts/Fn*.lean; nothing here mentions the hand-written model in its
statement except as the definition of "the true value" where the property itself does.
-/
import Interceptor.Facts.FnUnwrapper
import Interceptor.Facts.FnNtpTime
import Interceptor.Props.C20
import Interceptor.Props.C20Ntp
import Interceptor.Props.C20NtpRoundTrip
set_option linter.unusedVariables false
namespace Interceptor.C20Src
open Interceptor.Gen.Fn Interceptor.GoSem Interceptor.Facts.FnUnwrapper

/-- run the translated `Unwrap` over a list of 16-bit numbers, collecting the results. -/
def srcRun : S_sequencenumber_Unwrapper → List Nat → List Int
  | _, [] => []
  | u, i :: is => let r := sequencenumber_Unwrapper_Unwrap u i; r.1 :: srcRun r.2 is

/-- the state bound under which int64 cannot overflow during `n` further calls. -/
def Room (u : S_sequencenumber_Unwrapper) (n : Nat) : Prop :=
  -4611686018427387904 + 65536 * (n : Int) ≤ u.lastUnwrapped ∧
    u.lastUnwrapped ≤ 4611686018427387904 - 65536 * (n : Int)

theorem step_near (last : Int) (i : Nat) (hi : i < 65536) :
    last - 65536 ≤ Unwrapper.step last i ∧ Unwrapper.step last i ≤ last + 65536 := by
  have h1 := Unwrapper.unwrap_not_far_below last i hi
  constructor
  · omega
  · unfold Unwrapper.step Unwrapper.isNewer
    simp only []
    split <;> (try split) <;> simp_all <;> omega

/-- one translated call keeps the room for the remaining calls. -/
theorem room_step (u : S_sequencenumber_Unwrapper) (i : Nat) (hi : i < 65536) (n : Nat) (h : Room u (n + 1))
    (hinit : u.init = false → u.lastUnwrapped = 0) :
    Room (sequencenumber_Unwrapper_Unwrap u i).2 n ∧ (sequencenumber_Unwrapper_Unwrap u i).2.init = true := by
  have hb : -4611686018427387904 ≤ u.lastUnwrapped ∧ u.lastUnwrapped ≤ 4611686018427387904 := by
    unfold Room at h; omega
  have e := unwrap_src_eq_model u i hi hb
  simp only at e
  obtain ⟨ini, last⟩ := u
  cases ini
  · simp [sequencenumber_Unwrapper_Unwrap, Room] at h hinit ⊢
    subst hinit; omega
  · simp only [absU, Unwrapper.unwrap, if_true] at e
    have h2 := step_near last i hi
    have e1 := congrArg Prod.fst e
    have e2 := congrArg Prod.snd e
    simp only at e1 e2
    split at e1
    · rename_i hini
      simp only [Option.some.injEq] at e1
      refine ⟨?_, hini⟩
      unfold Room at h ⊢
      simp only at h
      rw [e1]; omega
    · simp at e1

/-- ★ the translated code, run from a fresh unwrapper over any list of 16-bit numbers short enough for
int64 (2^45 calls), returns exactly what the model returns. -/
theorem srcRun_eq_model (is : List Nat) (hi : ∀ i ∈ is, i < 65536) (hlen : is.length ≤ 35184372088832) :
    srcRun {} is = Unwrapper.unwrapAll none is := by
  have key : ∀ (is : List Nat) (u : S_sequencenumber_Unwrapper), (∀ i ∈ is, i < 65536) → Room u is.length →
      (u.init = false → u.lastUnwrapped = 0) → srcRun u is = Unwrapper.unwrapAll (absU u) is := by
    intro is
    induction is with
    | nil => intros; rfl
    | cons i is ih =>
      intro u hi hr hinit
      have hi0 : i < 65536 := hi i (by simp)
      have hb : -4611686018427387904 ≤ u.lastUnwrapped ∧ u.lastUnwrapped ≤ 4611686018427387904 := by
        unfold Room at hr; simp only [List.length_cons] at hr; omega
      have e := unwrap_src_eq_model u i hi0 hb
      simp only at e
      obtain ⟨r1, r2⟩ := room_step u i hi0 is.length (by simpa using hr) hinit
      simp only [srcRun, Unwrapper.unwrapAll]
      rw [← e]
      simp only
      congr 1
      exact ih _ (fun j hj => hi j (by simp [hj])) r1 (by intro h; rw [r2] at h; exact absurd h (by decide))
  have := key is {} hi (by unfold Room; simp; omega) (by intro _; rfl)
  simpa [absU] using this

/-- ★ T4 on the code: the translated `Unwrap`, started fresh, reconstructs exactly (relative to the first
value's epoch) any stream whose consecutive true values differ by less than 2^15 and which stays above that
epoch. -/
theorem unwrap_exact_src (v0 : Int) (vs : List Int) (h0 : 0 ≤ v0)
    (hstep : Unwrapper.Chain (fun a b => b - a < 32768 ∧ a - b < 32768) v0 vs)
    (hfloor : ∀ v ∈ vs, v0 - v0 % 65536 ≤ v) (hlen : vs.length < 35184372088832) :
    srcRun {} ((v0 :: vs).map fun v => (v % 65536).toNat)
      = (v0 :: vs).map (fun v => v - (v0 - v0 % 65536)) := by
  rw [srcRun_eq_model _ (by intro i hi; simp only [List.mem_map] at hi; obtain ⟨v, _, rfl⟩ := hi; omega)
    (by simp; omega)]
  exact Unwrapper.unwrap_exact v0 vs h0 hstep hfloor

/-- ★ T1/T2 on the code: every result of the translated `Unwrap` (on a state within the int64 margin) is
congruent to its input modulo 2^16, and non-negative when the previous result was. -/
theorem unwrap_mod_nonneg_src (u : S_sequencenumber_Unwrapper) (i : Nat) (hi : i < 65536)
    (hb : -4611686018427387904 ≤ u.lastUnwrapped ∧ u.lastUnwrapped ≤ 4611686018427387904) :
    (sequencenumber_Unwrapper_Unwrap u i).1 % 65536 = (i : Int) ∧
    (0 ≤ u.lastUnwrapped → 0 ≤ (sequencenumber_Unwrapper_Unwrap u i).1) := by
  have e := unwrap_src_eq_model u i hi hb
  simp only at e
  have e2 := congrArg Prod.snd e
  simp only at e2
  rw [e2]
  obtain ⟨ini, last⟩ := u
  cases ini
  · simp [absU, Unwrapper.unwrap]; omega
  · simp only [absU, if_true, Unwrapper.unwrap]
    exact ⟨Unwrapper.unwrap_mod last i hi, fun h => Unwrapper.unwrap_nonneg last i h hi⟩

open Interceptor.Ntp Interceptor.Facts.FnNtp in
/-- ★ T5 on the code: the translated `ToNTP` is monotone non-decreasing on 1970 … 2036-02-07 06:28:15. -/
theorem toNTP_mono_src (a b : Int) (h0 : 0 ≤ a) (hab : a ≤ b) (hb : b ≤ maxNs) : ntp_ToNTP a ≤ ntp_ToNTP b := by
  rw [toNTP_src_eq_model, toNTP_src_eq_model]
  exact_mod_cast toNTP_mono a b h0 hab hb

open Interceptor.Ntp Interceptor.Facts.FnNtp in
/-- ★ T6 on the code: `ToTime(ToNTP(t))` as translated is within one microsecond of `t`. -/
theorem roundtrip_1us_src (t : Int) (h0 : 0 ≤ t) (h : t ≤ maxNs) :
    ntp_ToTime (ntp_ToNTP t) - t ≤ 1000 ∧ t - ntp_ToTime (ntp_ToNTP t) ≤ 1000 := by
  rw [toNTP_src_eq_model, toTime_src_eq_model _ (toNTP_lt t)]
  exact roundtrip_1us t h0 h

open Interceptor.Ntp Interceptor.Facts.FnNtp in
/-- ★ T7 on the code: the 32-bit middle form round-trips against a reference in the same 2^16-second window. -/
theorem ntp32_roundtrip_src (t r : Int) (h0 : 0 ≤ t) (h : t ≤ maxNs) (hr0 : 0 ≤ r) (hr : r ≤ maxNs)
    (hw : ntp_ToNTP t / 281474976710656 = ntp_ToNTP r / 281474976710656) :
    ntp_ToTime32 (ntp_ToNTP32 t) r - t ≤ 1000 ∧ t - ntp_ToTime32 (ntp_ToNTP32 t) r ≤ 16259 + 1000 := by
  rw [toNTP_src_eq_model, toNTP_src_eq_model] at hw
  have hw' : toNTP t / 281474976710656 = toNTP r / 281474976710656 := by exact_mod_cast hw
  rw [toNTP32_src_eq_model]
  rw [toTime32_src_eq_model _ (by unfold toNTP32; omega)]
  exact ntp32_roundtrip t r h0 h hr0 hr hw'

/-- non-vacuity: the translated code on a concrete stream across the wrap. -/
example : srcRun {} [65534, 65535, 1, 0, 4464] = [65534, 65535, 65537, 65536, 70000] := by decide

end Interceptor.C20Src

/-
C18 — the jitter buffer emits pushed packets in sequence order, at most once.
Only property theorems live here.

Structure.  `Model/JitterBuffer.lean` is the Go code: the PriorityQueue at heap level
(`heapImpl`) and the JitterBuffer written over an abstract queue implementation.
`Spec/JitterBuffer.lean` is the list-level queue (`listImpl`) and the notion `Refines I`
("implementation `I` acts on the buffered entries exactly as the list operations do on every
state it can reach").  The theorems about the JitterBuffer below hold for *every* queue
implementation with a refinement `R : Refines I`; `Props/C02Queue.lean` gives the refinement
of the heap-level queue.
-/
import Interceptor.Proofs.JitterBufferList
import Interceptor.Proofs.JitterBufferSim
import Interceptor.Proofs.JitterBufferHeap
set_option linter.unusedVariables false
namespace Interceptor.JitterBuffer

/-! ### 1. well-formedness of the heap-level queue is preserved by every operation -/

/-- WF: the nodes reachable from the head form an acyclic chain (`Seg … none` over a duplicate-free
index list) of nodes that all carry a packet, the cached `length` is the number of reachable
nodes (mod 2^16, the field is a uint16), and the priorities are sorted.  (`HRep q l` is this
together with the abstraction "the entries are `l`".) -/
def WF (q : PQ) : Prop := ∃ l, HRep q l ∧ SortedL l

/-- what WF says in terms of pointers: a duplicate-free chain ending in nil whose length is the
cached length; the driver's `chain` walk terminates within fuel and returns exactly it. -/
theorem wf_meaning {q : PQ} (h : WF q) :
    ∃ is : List Nat, Seg q.nodes q.head is none ∧ is.Nodup ∧ q.length = is.length % 65536 ∧
      PQ.walk q.nodes (PQ.fuel q.nodes) q.head = some is := by
  obtain ⟨l, ⟨is, hseg, hnd, _, _, hlen, hsz⟩, _⟩ := h
  exact ⟨is, hseg, hnd, hlen, walk_spec q.nodes is q.head _ hseg (by unfold PQ.fuel; omega)⟩

/-- ★ T1 `wf_new`: the empty queue is well-formed. -/
theorem wf_new : WF {} := ⟨[], heapRefines.empty, List.Pairwise.nil⟩

/-- ★ T1 `wf_push`: Push succeeds and preserves WF (false on the unfixed code for a duplicate
of the head, F-21: the list became cyclic). -/
theorem wf_push {q : PQ} (h : WF q) (v : Pkt) (prio : Nat) : ∃ q', q.push v prio = .ok q' ∧ WF q' := by
  obtain ⟨l, hr, hs⟩ := h
  obtain ⟨q', hp, hr'⟩ := heap_push hr v prio
  exact ⟨q', hp, _, hr', insertL_sorted _ hs⟩

/-- T1 (shared step): a successful removing operation that refines `popByL` on a sorted,
represented list leaves a well-formed queue. -/
theorem wf_of_popRel {l : List Entry} {r : Res (Option Pkt × PQ)} {pred : Entry → Bool}
    (hs : SortedL l) (h : PopRel HRep r (popByL l pred)) : ∀ v q', r = .ok (v, q') → WF q' := by
  intro v q' hr
  subst hr
  cases hp : popByL l pred with
  | ok x => rw [hp] at h; exact ⟨_, h.2, popByL_sorted (v := x.1) (l' := x.2) hp hs⟩
  | err e => rw [hp] at h; exact h.elim
  | panic e => rw [hp] at h; exact h.elim

/-- ★ T1 `wf_popAt`, `wf_popAtTimestamp`, `wf_pop`: the removing operations preserve WF. -/
theorem wf_popAt {q : PQ} (h : WF q) (sq : Nat) : ∀ v q', q.popAt sq = .ok (v, q') → WF q' := by
  obtain ⟨l, hr, hs⟩ := h
  exact wf_of_popRel hs (heap_popAt hr sq)

theorem wf_popAtTimestamp {q : PQ} (h : WF q) (ts : Nat) : ∀ v q', q.popAtTs ts = .ok (v, q') → WF q' := by
  obtain ⟨l, hr, hs⟩ := h
  exact wf_of_popRel hs (heap_popAtTs hr ts)

theorem wf_pop {q : PQ} (h : WF q) : ∀ v q', q.pop = .ok (v, q') → WF q' := by
  obtain ⟨l, hr, hs⟩ := h
  intro v q' hq
  have := heap_pop hr
  rw [hq] at this
  cases l with
  | nil => exact this.elim
  | cons e t => exact ⟨t, this.2, (List.pairwise_cons.mp hs).2⟩

/-- ★ T1 `wf_clear`: Clear succeeds and yields the well-formed EMPTY queue (false on the unfixed
code, F-22a: the nodes stayed reachable and `length` then underflowed). -/
theorem wf_clear {q : PQ} (h : WF q) : ∃ q', q.clear = .ok q' ∧ HRep q' [] ∧ WF q' := by
  obtain ⟨l, hr, _⟩ := h
  obtain ⟨q', hc, hr'⟩ := heap_clear hr
  exact ⟨q', hc, hr', [], hr', List.Pairwise.nil⟩

/-- ★ T2 (heap level) `refines_multiset`: on well-formed states every operation of the heap-level
queue acts on the represented entry list exactly as the list-level operation: this is the
record `heapRefines`; its fields restated. -/
theorem refines_multiset_heap {q : PQ} {l : List Entry} (h : HRep q l) (v : Pkt) (k : Nat) :
    (∃ q', q.push v k = .ok q' ∧ HRep q' (insertL l (k, v))) ∧
    q.find k = findL l k ∧
    PopRel HRep (q.popAt k) (popByL l (fun e => e.1 == k)) ∧
    PopRel HRep (q.popAtTs k) (popByL l (fun e => e.2.ts == k)) ∧
    PopRel HRep q.pop (popL l) ∧
    (∃ q', q.clear = .ok q' ∧ HRep q' []) ∧
    q.length = l.length % 65536 :=
  ⟨heap_push h v k, heap_find h k, heap_popAt h k, heap_popAtTs h k, heap_pop h, heap_clear h,
    heapRefines.length h⟩

/-! ### 2. the queue operations act on the multiset of buffered entries as specified -/

/-- ★ T2a `refines_multiset` (Push): the entry is added, nothing else changes (as a multiset),
and a sorted queue stays sorted. -/
theorem refines_multiset_push (l : List Entry) (e : Entry) :
    (insertL l e).Perm (e :: l) ∧ (SortedL l → SortedL (insertL l e)) :=
  ⟨insertL_perm l e, insertL_sorted e⟩

/-- ★ T2b `refines_multiset` (PopAt / PopAtTimestamp succeed): exactly one entry is removed,
it satisfies the key, it is the very entry that was buffered (first match in queue order),
the rest is unchanged and stays sorted. -/
theorem refines_multiset_pop {l l' : List Entry} {pred : Entry → Bool} {v : Option Pkt}
    (h : popByL l pred = .ok (v, l')) :
    ∃ e, v = some e.2 ∧ e ∈ l ∧ pred e = true ∧ l.find? pred = some e ∧ l.Perm (e :: l') ∧
      (SortedL l → SortedL l') := by
  obtain ⟨e, hv, hf, hm, hp, _, hperm⟩ := popByL_ok h
  exact ⟨e, hv, hm, hp, hf, hperm, popByL_sorted h⟩

/-- ★ T2c: a pop for a key that is not buffered fails; a failing call returns no new queue
(the type of `err` carries none), i.e. the buffer is not disturbed. -/
theorem refines_multiset_absent (l : List Entry) (pred : Entry → Bool)
    (h : ∀ e ∈ l, pred e = false) : ∃ x, popByL l pred = .err x := by
  unfold popByL
  split
  · exact ⟨_, rfl⟩
  · have : l.find? pred = none := List.find?_eq_none.mpr (fun e he => by simp [h e he])
    rw [this]
    exact ⟨_, rfl⟩

/-- ★ T2d: Find returns a buffered entry with the requested key, or fails if there is none. -/
theorem refines_multiset_find (l : List Entry) (sq : Nat) :
    (∀ v, findL l sq = .ok v → ∃ e, v = some e.2 ∧ e ∈ l ∧ e.1 = sq) ∧
    (∀ x, findL l sq = .err x → ∀ e ∈ l, e.1 ≠ sq) :=
  ⟨fun v h => findL_ok h, fun x h => findL_err h⟩

/-! ### 3. successive pops at the playout head -/

/-- ★ T3a `pops_consecutive`: start from a fresh buffer (any minimum start count), push a
first packet `p0`, then run ANY history of exported calls.  The successful pops at the playout
head return the sequence numbers `p0.seq, p0.seq+1, p0.seq+2, …` (mod 2^16) — provided the
history contains no call that moves the head by other means (`Rec.Quiet`: no SetPlayoutHead,
no Clear(true), no Clear(false) before playback started, no successful PopAtSequence for a
number other than the head).  Holds over every queue implementation refining the list queue. -/
theorem pops_consecutive {I : QImpl} (R : Refines I) (m : Option Nat) (hm : m.getD 50 < 65536)
    (p0 : Pkt) (ops : List Op)
    (hq : ∀ r ∈ ((JB.new I m).run (.push p0 :: ops)).2, r.Quiet) :
    Consec p0.seq (headPops ((JB.new I m).run (.push p0 :: ops)).2) := by
  have hsim := (sim_run R (jrep_new R m) (.push p0 :: ops)).1
  rw [hsim] at hq ⊢
  rw [run_cons] at hq ⊢
  obtain ⟨hinv, hhead⟩ := inv_first_push (JB.new listImpl m) rfl rfl rfl hm p0
  have := consec_run hinv ops (fun r hr => hq r (List.mem_cons_of_mem _ hr))
  simp only [JB.step, headPops, Op.atHead]
  rw [hhead] at this
  simpa using this

/-- ★ T3b: each successful Pop returns the packet whose sequence number is the playout head
and advances the head by one (mod 2^16); in every other quiet call the head stays. (One step,
from any state satisfying the invariant `Inv`, which `pops_consecutive` shows is reachable.) -/
theorem pop_returns_head {I : QImpl} (R : Refines I) {jb : JB I} {js : LJB} (h : JRep R jb js)
    (hi : Inv js) (p : Pkt) (hp : (jb.pop).2.ret = .ok (some p)) :
    p.seq = jb.head ∧ (jb.pop).1.head = (jb.head + 1) % 65536 := by
  have hs := sim_step R h .pop
  simp only [JB.step] at hs
  rw [hs.1] at hp
  rw [hs.2.head, h.head]
  have := (inv_step hi .pop (by simp [Rec.Quiet])).2
  simp only [JB.step] at this
  rcases this with ⟨_, p', hp', hseq, hh⟩ | ⟨hno, _⟩
  · rw [hp] at hp'; injection hp' with hp'; injection hp' with hp'; subst hp'
    exact ⟨hseq, hh⟩
  · rcases hno with h' | h'
    · cases h'
    · exact absurd hp (h' p)

/-- ★ T3c `at most once`: over a whole history from a fresh buffer, every object is handed
out by the removing calls (Pop, PopAtSequence, PopAtTimestamp) at most as often as it was
pushed; in particular, if the pushed objects are pairwise distinct, no object is returned twice. -/
theorem pops_at_most_once {I : QImpl} (R : Refines I) (m : Option Nat) (ops : List Op) :
    (∀ o, (objs (poppedOf ((JB.new I m).run ops).2)).count o ≤ (objs (pushedOf ops)).count o) ∧
    ((objs (pushedOf ops)).Nodup → (objs (poppedOf ((JB.new I m).run ops).2)).Nodup) := by
  have hsim := (sim_run R (jrep_new R m) ops).1
  rw [hsim]
  have hc : ∀ o, (objs (poppedOf ((JB.new listImpl m).run ops).2)).count o ≤ (objs (pushedOf ops)).count o := by
    intro o
    have := run_count (JB.new listImpl m) ops o
    have h0 : (objs (pkts (JB.new listImpl m).q)).count o = 0 := rfl
    omega
  refine ⟨hc, fun hnd => ?_⟩
  rw [List.nodup_iff_count] at hnd ⊢
  exact fun o => Nat.le_trans (hc o) (hnd o)

/-- The full-strength reading of clause 3 (ALL interleavings, including PopAtSequence) is
false of the code: `PopAtSequence(sq)` advances the playout head even when `sq` is not the
head, so the packet at the head is skipped by the following `Pop`s.  Witness (min = 1): push
10..13; Pop → 10; PopAtSequence(13) → 13 and the head becomes 12; Pop → 12: number 11 stays
buffered and is never popped. -/
theorem pops_consecutive_false :
    ¬ (∀ (m : Option Nat) (p0 : Pkt) (ops : List Op),
        (∀ op ∈ ops, (∀ h, op ≠ .setHead h) ∧ (∀ r, op ≠ .clear r)) →
        Consec p0.seq (headPops ((JB.new listImpl m).run (.push p0 :: ops)).2)) := by
  intro h
  have := h (some 1) { seq := 10, ts := 0, obj := 1 }
    [.push { seq := 11, ts := 0, obj := 2 }, .push { seq := 12, ts := 0, obj := 3 },
     .push { seq := 13, ts := 0, obj := 4 }, .pop, .popSeq 13, .pop]
    (by intro op hop; simp at hop; rcases hop with rfl | rfl | rfl | rfl | rfl | rfl <;> simp)
  have hv : headPops ((JB.new listImpl (some 1)).run
    [.push { seq := 10, ts := 0, obj := 1 }, .push { seq := 11, ts := 0, obj := 2 }, .push { seq := 12, ts := 0, obj := 3 },
     .push { seq := 13, ts := 0, obj := 4 }, .pop, .popSeq 13, .pop]).2 = [10, 13, 12] := by decide
  rw [hv] at this
  simp [Consec] at this

/-- ★ T3a for the Go code's queue (heap-level model): instance of `pops_consecutive`. -/
theorem pops_consecutive_heap (m : Option Nat) (hm : m.getD 50 < 65536) (p0 : Pkt) (ops : List Op)
    (hq : ∀ r ∈ ((JB.new heapImpl m).run (.push p0 :: ops)).2, r.Quiet) :
    Consec p0.seq (headPops ((JB.new heapImpl m).run (.push p0 :: ops)).2) :=
  pops_consecutive heapRefines m hm p0 ops hq

/-- ★ T3c for the heap-level model. -/
theorem pops_at_most_once_heap (m : Option Nat) (ops : List Op)
    (h : (objs (pushedOf ops)).Nodup) : (objs (poppedOf ((JB.new heapImpl m).run ops).2)).Nodup :=
  (pops_at_most_once heapRefines m ops).2 h

/-- every state of the heap-level JitterBuffer reachable from `New` by any history is in the
simulation relation with the list-level one (so `clear_forgets`, `rebind_fresh`,
`pop_returns_head` apply to it). -/
theorem reachable_jrep (m : Option Nat) (ops : List Op) :
    JRep heapRefines ((JB.new heapImpl m).run ops).1 ((JB.new listImpl m).run ops).1 :=
  (sim_run heapRefines (jrep_new heapRefines m) ops).2

/-- the driver runs histories that buffer a full sequence-number cycle (≥ 4096-packet runs) on
the list queue with a cached count (`fastImpl`) instead of the heap-level queue, for speed: both
refine the list queue, so every history yields exactly the same records (results, events,
playout head). -/
theorem fast_equals_heap (m : Option Nat) (ops : List Op) :
    ((JB.new fastImpl m).run ops).2 = ((JB.new heapImpl m).run ops).2 := by
  rw [(sim_run fastRefines (jrep_new fastRefines m) ops).1, (sim_run heapRefines (jrep_new heapRefines m) ops).1]

/-! ### 4. popping before playback starts is refused -/

/-- ★ T4 `buffering_refuses`: while Buffering, Pop, PopAtSequence and PopAtTimestamp return
ErrPopWhileBuffering and leave the buffer untouched (any queue implementation, any state). -/
theorem buffering_refuses {I : QImpl} (jb : JB I) (h : jb.state = .buffering) (sq ts : Nat) :
    (jb.pop = (jb, { ret := .err "buffering" })) ∧
    (jb.popAtSequence sq = (jb, { ret := .err "buffering" })) ∧
    (jb.popAtTimestamp ts = (jb, { ret := .err "buffering" })) := by
  simp [JB.pop, JB.popAtSequence, JB.popAtTimestamp, h]

/-! ### 5. Clear forgets -/

/-- ★ T5 `clear_forgets`: after `Clear` (with either flag), whatever any later pop, peek or
find returns was pushed after the Clear. -/
theorem clear_forgets {I : QImpl} (R : Refines I) {jb : JB I} {js : LJB} (h : JRep R jb js)
    (reset : Bool) (ops : List Op) :
    ∀ r ∈ ((jb.clear reset).1.run ops).2, ∀ p, r.pkt? = some p → p ∈ pushedOf ops := by
  have hc := (sim_step R h (.clear reset)).2
  simp only [JB.step] at hc
  rw [(sim_run R hc ops).1]
  intro r hr p hp
  have hq : (js.clear reset).1.q = [] := by cases reset <;> rfl
  rcases (run_prov (js.clear reset).1 ops).1 r hr p hp with h' | h'
  · rw [hq] at h'; cases h'
  · exact h'

/-- ★ T5b: immediately after `Clear` the queue is empty: every find / peek fails. -/
theorem clear_empties {I : QImpl} (R : Refines I) {jb : JB I} {js : LJB} (h : JRep R jb js)
    (reset : Bool) (sq : Nat) (b : Bool) :
    ((jb.clear reset).1.peekAtSequence sq).ret = .err "notfound" ∧
    ((jb.clear reset).1.peek b).ret = .err "underrun" := by
  have hc := (sim_step R h (.clear reset)).2
  simp only [JB.step] at hc
  have h1 := (sim_step R hc (.peekSeq sq)).1
  have h2 := (sim_step R hc (.peek b)).1
  simp only [JB.step] at h1 h2
  rw [h1, h2]
  cases reset <;> exact ⟨rfl, rfl⟩

/-! ### 6. a re-bound stream starts afresh -/

/-- ★ T6 `rebind_fresh`: after `Clear(true)` (what the interceptor does on Unbind/Close) the
next push sets the playout head to its own sequence number and playback restarts after 50
packets (false on the unfixed code, F-22b: `playoutReady` stayed set). -/
theorem rebind_fresh {I : QImpl} (R : Refines I) {jb : JB I} {js : LJB} (h : JRep R jb js) (p : Pkt) :
    ((jb.clear true).1.push p).1.head = p.seq ∧ (jb.clear true).1.state = .buffering ∧
    (jb.clear true).1.ready = false ∧ (jb.clear true).1.minStart = 50 := by
  have hc := (sim_step R h (.clear true)).2
  simp only [JB.step] at hc
  have hp := (sim_step R hc (.push p)).2
  simp only [JB.step] at hp
  rw [hp.head, hc.state, hc.ready, hc.minStart]
  have := (inv_first_push (js.clear true).1 rfl rfl rfl (by show 50 < 65536; omega) p).2
  exact ⟨this, rfl, rfl, rfl⟩

/-! ### non-vacuity -/

instance (r : Rec) : Decidable r.Quiet := by
  unfold Rec.Quiet; split <;> infer_instance

/-- `pops_consecutive`: a history satisfying the hypothesis (out-of-order arrival across the
wrap, a duplicate, a failed pop, Clear(false) after playback started) with four successful pops. -/
example :
    let ops : List Op := [.push { seq := 0, ts := 2, obj := 2 }, .push { seq := 65535, ts := 1, obj := 3 },
      .pop, .pop, .pop, .popSeq 7, .peek true, .push { seq := 1, ts := 3, obj := 4 }, .pop, .clear false,
      .push { seq := 2, ts := 4, obj := 5 }, .popSeq 2]
    (∀ r ∈ ((JB.new heapImpl (some 2)).run (.push { seq := 65535, ts := 1, obj := 1 } :: ops)).2, r.Quiet) ∧
    headPops ((JB.new heapImpl (some 2)).run (.push { seq := 65535, ts := 1, obj := 1 } :: ops)).2 = [65535, 0, 1, 2] := by
  decide

/-- `WF` is inhabited by non-trivial queues (three pushes incl. a duplicate of the head): the
duplicate is found first, the length is 3. -/
example : ∃ q, WF q ∧ q.length = 3 ∧ q.find 5 = .ok (some { seq := 5, ts := 0, obj := 3 }) := by
  obtain ⟨q1, _, r1⟩ := heap_push heapRefines.empty { seq := 5, ts := 0, obj := 1 } 5
  obtain ⟨q2, _, r2⟩ := heap_push r1 { seq := 6, ts := 0, obj := 2 } 6
  obtain ⟨q3, _, r3⟩ := heap_push r2 { seq := 5, ts := 0, obj := 3 } 5
  refine ⟨q3, ⟨_, r3, insertL_sorted _ (insertL_sorted _ (insertL_sorted _ List.Pairwise.nil))⟩, ?_, ?_⟩
  · exact (heapRefines.length r3).trans rfl
  · rw [heap_find r3]; rfl

end Interceptor.JitterBuffer

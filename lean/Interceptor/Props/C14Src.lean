/-
C14 (mask clause, design theorem 2a `mask_names_cover`) — restated on the code itself: on the Lean definitions
that extract/fn.go regenerates from pkg/flexfec/flexfec_coverage.go and pkg/flexfec/util/bitarray.go on every
run (Gen/Fn_flexfec.lean, Gen/Fn_flexfec_util.lean): the mask words the generated `extractMask1`,
`extractMask2`, `extractMask3_03` (and the methods `ProtectionCoverage.ExtractMask1/2/3_03` that index the
table) return, read as the FlexFEC-03 draft lays them out (15 + 31 + 63 bits, most significant first;
`FlexFecSpec.maskBits`, the independent decoder's reading), name exactly the positions 0..108 at which the
generated `GetBit` returns 1 — and after `Reset` and any sequence of generated `SetBit` calls those are
exactly the indices that were set.
Each statement follows from the model theorem (Props/C14.lean `mask_names_cover`; Proofs/FlexFecBits.lean
`bitOf_setBit`, `getBit_beq_one`) and the source-equals-model theorems of Facts/FnFlexFec.lean
(`extractMask*_src_eq_model`, `getBit_src_eq_model`, `setBit_src_eq_model`, `reset_src_eq_model`, `wf_setBit`).
No ★ statement mentions the hand-written model `FlexFec.BitArray` (`absB` is a proof device).

Hypothesis on a state: both words are in the range of their Go type uint64 (`U64`; established by `Reset` /
the zero value, preserved by `SetBit`: `u64_reset_src`, `u64_setBit_src`); indices are uint32.
-/
import Interceptor.Facts.FnFlexFec2
import Interceptor.Props.C14
set_option linter.unusedVariables false
namespace Interceptor.C14Src
open Interceptor Interceptor.Gen.Fn Interceptor.GoSem Interceptor.FlexFec
open Interceptor.FlexFecSpec (maskBits)
open Interceptor.Facts.FnFlexFec

abbrev B := S_flexfec_util_BitArray

/-- both words are in the range of their Go type (uint64). -/
def U64 (g : B) : Prop :=
  (0 ≤ g.Lo ∧ g.Lo < 18446744073709551616) ∧ (0 ≤ g.Hi ∧ g.Hi < 18446744073709551616)

/-- the model bit array a Go struct represents (proof device only). -/
def absB (g : B) : BitArray := ⟨g.Lo.toNat, g.Hi.toNat⟩

theorem rel_abs (g : B) (h : U64 g) : baRel g (absB g) ∧ wf (absB g) := by
  obtain ⟨⟨a, b⟩, c, d⟩ := h
  refine ⟨⟨?_, ?_⟩, ?_, ?_⟩
  · show g.Lo = ((g.Lo.toNat : Nat) : Int); omega
  · show g.Hi = ((g.Hi.toNat : Nat) : Int); omega
  · show g.Lo.toNat < 2 ^ 64; omega
  · show g.Hi.toNat < 2 ^ 64; omega

theorem u64_of_rel (g : B) (m : BitArray) (r : baRel g m) (w : wf m) : U64 g := by
  obtain ⟨r1, r2⟩ := r
  obtain ⟨w1, w2⟩ := w
  unfold U64
  rw [r1, r2]
  omega

/-- ★ the hypothesis is established by `Reset` (and by the zero value). -/
theorem u64_reset_src (g : B) : U64 (flexfec_util_BitArray_Reset g) ∧ U64 {} := by
  constructor
  · unfold U64 flexfec_util_BitArray_Reset; simp
  · unfold U64; decide

/-- ★ the hypothesis is preserved by the generated `SetBit`, for every uint32 index. -/
theorem u64_setBit_src (g : B) (h : U64 g) (i : Nat) (hi : i < 4294967296) :
    U64 (flexfec_util_BitArray_SetBit g (i : Int)) := by
  obtain ⟨r, w⟩ := rel_abs g h
  exact u64_of_rel _ _ (setBit_src_eq_model g _ r w i hi) (wf_setBit _ w i)

/-- the generated `GetBit` read as a Boolean "position `j` is covered". -/
def srcBit (g : B) (j : Nat) : Bool := flexfec_util_BitArray_GetBit g (j : Int) == 1

theorem srcBit_eq (g : B) (h : U64 g) (j : Nat) (hj : j < 128) : srcBit g j = bitOf (absB g) j := by
  obtain ⟨r, w⟩ := rel_abs g h
  unfold srcBit
  rw [getBit_src_eq_model g _ r w j (by omega), ← getBit_beq_one _ _ hj]
  by_cases e : (absB g).getBit j = 1
  · rw [e]; rfl
  · have : ¬ (((absB g).getBit j : Nat) : Int) = 1 := by omega
    rw [beq_eq_false_iff_ne.mpr this, beq_eq_false_iff_ne.mpr e]

/-- ★ C14 clause "the mask names exactly the packets that were combined", bit level, on the code: for EVERY
bit array (two uint64 words) the three mask words the generated `extractMask1`, `extractMask2`,
`extractMask3_03` return name — read as the draft lays them out, 15 + 31 + 63 bits, most significant first —
exactly the positions 0..108 at which the generated `GetBit` returns 1, in ascending order. -/
theorem mask_names_cover_src (g : B) (h : U64 g) :
    maskBits (flexfec_extractMask1 g).toNat 15 0 ++ maskBits (flexfec_extractMask2 g).toNat 31 15
        ++ maskBits (flexfec_extractMask3_03 g).toNat 63 46
      = (List.range 109).filter (srcBit g) := by
  obtain ⟨r, w⟩ := rel_abs g h
  rw [extractMask1_src_eq_model g _ r, extractMask2_src_eq_model g _ r, extractMask3_03_src_eq_model g _ r w]
  simp only [Int.toNat_natCast]
  rw [mask_names_cover (absB g) w.2]
  apply List.filter_congr
  intro j hj
  rw [List.mem_range] at hj
  exact (srcBit_eq g h j (by omega)).symm

/-- the generated `SetBit` over a list of indices. -/
def srcSet (g : B) (js : List Nat) : B := js.foldl (fun g (j : Nat) => flexfec_util_BitArray_SetBit g (j : Int)) g

theorem setBit_big (b : BitArray) (i : Nat) (hi : 128 ≤ i) : b.setBit i = b := by
  unfold BitArray.setBit
  rw [if_neg (by omega), if_neg (by omega)]

/-- one generated `SetBit i` (any uint32 `i`): position `j < 128` reads 1 afterwards iff `j = i` or it did. -/
theorem srcBit_setBit (g : B) (h : U64 g) (i : Nat) (hi : i < 4294967296) (j : Nat) (hj : j < 128) :
    srcBit (flexfec_util_BitArray_SetBit g (i : Int)) j = (decide (i = j) || srcBit g j) := by
  obtain ⟨r, w⟩ := rel_abs g h
  have r' := setBit_src_eq_model g _ r w i hi
  have h' := u64_setBit_src g h i hi
  have e : absB (flexfec_util_BitArray_SetBit g (i : Int)) = (absB g).setBit i := by
    obtain ⟨a, b⟩ := r'
    show (⟨(flexfec_util_BitArray_SetBit g (i : Int)).Lo.toNat, (flexfec_util_BitArray_SetBit g (i : Int)).Hi.toNat⟩ : BitArray) = _
    rw [a, b]
    simp only [Int.toNat_natCast]
  rw [srcBit_eq _ h' j hj, srcBit_eq g h j hj, e]
  by_cases hb : i < 128
  · exact bitOf_setBit _ i j hb hj
  · rw [setBit_big _ i (by omega)]
    have : ¬ i = j := by omega
    simp [this]

/-- ★ the step theorem chains: after any list of generated `SetBit` calls (uint32 indices; indices ≥ 128 have
no effect) the state is again two uint64 words and position `j < 128` reads 1 iff it was set or read 1 before. -/
theorem setBits_src (js : List Nat) (hjs : ∀ i ∈ js, i < 4294967296) :
    ∀ (g : B), U64 g → U64 (srcSet g js) ∧
      ∀ j, j < 128 → srcBit (srcSet g js) j = (decide (j ∈ js) || srcBit g j) := by
  induction js with
  | nil => intro g h; exact ⟨h, fun j _ => by simp [srcSet]⟩
  | cons i is ih =>
    intro g h
    have hi := hjs i (by simp)
    obtain ⟨u, sp⟩ := ih (fun k hk => hjs k (by simp [hk])) _ (u64_setBit_src g h i hi)
    refine ⟨u, fun j hj => ?_⟩
    have := sp j hj
    simp only [srcSet, List.foldl_cons] at this ⊢
    rw [this, srcBit_setBit g h i hi j hj]
    by_cases e : i = j
    · subst e; simp
    · have e' : ¬ j = i := fun x => e x.symm
      simp [e, e']

/-- ★ C14 clause "the mask names exactly the packets that were combined", on the code, from the constructor:
after `Reset` and any list `js` of generated `SetBit` calls (what `resetCoverage` and the fill loop of
`UpdateCoverage` do to a row), the three mask words of the generated `extractMask1/2/3_03` name exactly the
indices below 109 that were set. -/
theorem masks_name_set_src (g0 : B) (js : List Nat) (hjs : ∀ i ∈ js, i < 4294967296) :
    let g := srcSet (flexfec_util_BitArray_Reset g0) js
    maskBits (flexfec_extractMask1 g).toNat 15 0 ++ maskBits (flexfec_extractMask2 g).toNat 31 15
        ++ maskBits (flexfec_extractMask3_03 g).toNat 63 46
      = (List.range 109).filter (fun j => decide (j ∈ js)) := by
  intro g
  obtain ⟨u, sp⟩ := setBits_src js hjs _ (u64_reset_src g0).1
  rw [mask_names_cover_src g u]
  apply List.filter_congr
  intro j hj
  rw [List.mem_range] at hj
  rw [sp j (by omega)]
  have : srcBit (flexfec_util_BitArray_Reset g0) j = false := by
    rw [srcBit_eq _ (u64_reset_src g0).1 j (by omega)]
    exact bitOf_empty j
  rw [this, Bool.or_false]

/-- every row of the table is two uint64 words. -/
def TableU64 (p : S_flexfec_ProtectionCoverage) : Prop := ∀ g ∈ p.packetMasks, U64 g

theorem row_u64 (p : S_flexfec_ProtectionCoverage) (h : TableU64 p) (i : Int) : U64 (idxG p.packetMasks i) := by
  unfold idxG
  split
  · exact (u64_reset_src default).2
  · rw [List.getD_eq_getElem?_getD]
    cases e : p.packetMasks[i.toNat]? with
    | none => exact (u64_reset_src default).2
    | some g => exact h g (List.mem_of_getElem? e)

/-- ★ the same clause for the methods the encoder calls, `ProtectionCoverage.ExtractMask1/2/3_03(i)`: for every
table whose rows are uint64 words and every index, the three mask words name exactly the positions 0..108 at
which the generated `GetBit` of row `i` (`packetMasks[i]`) returns 1. -/
theorem table_masks_name_cover_src (p : S_flexfec_ProtectionCoverage) (h : TableU64 p) (i : Int) :
    maskBits (flexfec_ProtectionCoverage_ExtractMask1 p i).toNat 15 0
        ++ maskBits (flexfec_ProtectionCoverage_ExtractMask2 p i).toNat 31 15
        ++ maskBits (flexfec_ProtectionCoverage_ExtractMask3_03 p i).toNat 63 46
      = (List.range 109).filter (srcBit (idxG p.packetMasks i)) :=
  mask_names_cover_src _ (row_u64 p h i)

/-- ★ the table hypothesis is established by the constructor's array of zero bit arrays and preserved by
replacing a row with a uint64 bit array (e.g. the result of `Reset` / `SetBit` on it). -/
theorem tableU64_src :
    TableU64 { packetMasks := Facts.FnFlexFec2.goZeroMasks } ∧
    ∀ (p : S_flexfec_ProtectionCoverage) (k : Nat) (g : B), TableU64 p → U64 g →
      TableU64 { p with packetMasks := p.packetMasks.set k g } := by
  constructor
  · intro g hg
    have : g = default := List.eq_of_mem_replicate hg
    rw [this]; exact (u64_reset_src default).2
  · intro p k g hp hg x hx
    rcases List.mem_or_eq_of_mem_set hx with h | h
    · exact hp x h
    · rw [h]; exact hg

/-! ## non-vacuity: the generated code evaluated on concrete inputs -/

/-- `mask_names_cover_src`: bits 0, 46, 108 (one per mask word). -/
example :
    let g : B := { Lo := 2 ^ 63 + 2 ^ 17, Hi := 2 ^ 19 }
    U64 g ∧ maskBits (flexfec_extractMask1 g).toNat 15 0 ++ maskBits (flexfec_extractMask2 g).toNat 31 15
      ++ maskBits (flexfec_extractMask3_03 g).toNat 63 46 = [0, 46, 108] ∧
    (List.range 109).filter (srcBit g) = [0, 46, 108] := by
  refine ⟨by unfold U64; decide, by decide +kernel, by decide +kernel⟩

/-- `setBits_src` / `masks_name_set_src`: `Reset`, then `SetBit` 70, 3, 14, 15, 108, 3 again, 109 (not named by
any mask word: F-28) and 127.  (An index ≥ 128 has no effect — `setBits_src` covers it — but is not evaluated
here: the translated shift count `63 − uint32(i − 64)` wraps to about 2^32 and the kernel would compute 2^(2^32).) -/
example :
    let g := srcSet (flexfec_util_BitArray_Reset { Lo := 12345, Hi := 678 }) [70, 3, 14, 15, 108, 3, 109, 127]
    maskBits (flexfec_extractMask1 g).toNat 15 0 ++ maskBits (flexfec_extractMask2 g).toNat 31 15
      ++ maskBits (flexfec_extractMask3_03 g).toNat 63 46 = [3, 14, 15, 70, 108] ∧
    flexfec_util_BitArray_GetBit g 109 = 1 ∧ flexfec_util_BitArray_GetBit g 127 = 1 ∧ flexfec_util_BitArray_GetBit g 126 = 0 := by
  refine ⟨by decide +kernel, by decide +kernel, by decide +kernel, by decide +kernel⟩

/-- `table_masks_name_cover_src`: a table whose row 1 protects media packets 1 and 65. -/
example :
    let p : S_flexfec_ProtectionCoverage :=
      { packetMasks := Facts.FnFlexFec2.goZeroMasks.set 1 { Lo := 4611686018427387904, Hi := 4611686018427387904 } }
    TableU64 p ∧
    maskBits (flexfec_ProtectionCoverage_ExtractMask1 p 1).toNat 15 0
      ++ maskBits (flexfec_ProtectionCoverage_ExtractMask2 p 1).toNat 31 15
      ++ maskBits (flexfec_ProtectionCoverage_ExtractMask3_03 p 1).toNat 63 46 = [1, 65] := by
  refine ⟨tableU64_src.2 _ 1 _ tableU64_src.1 (by unfold U64; decide), by decide +kernel⟩

end Interceptor.C14Src

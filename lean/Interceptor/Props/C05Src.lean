/-
C05 (arrival map, design theorem T6 `map_refines`) — restated on the code itself: on the Lean definitions
that extract/fn.go regenerates from pkg/twcc/arrival_time_map.go on every run (Gen/Fn_twcc.lean):
`AddPacket`, `RemoveOldPackets`, `FindNextAtOrAfter`, `HasReceived`, observed through the generated `get`.
Each statement follows from the model theorem (Props/C05.lean `map_refines`, i.e.
`ArrivalMap.addPacket_spec` / `addPacket_first` / `removeOld_spec`, and `findLoop_spec` of Proofs/TwccBuild.lean)
and the source-equals-model theorems of Facts/FnTwccMap.lean / Facts/FnTwcc.lean.  No ★ statement mentions the
hand-written model `Twcc.ArrivalMap` (`absM` is a proof device): the only hypothesis on the state is the SOURCE-level invariant
`FnTwccMap.Inv g` (|begin|, |end| ≤ 2^62, begin ≤ end, end − begin ≤ capacity, capacity 0 or a power of two
in [128, 32768]), which the zero value `&packetArrivalTimeMap{}` establishes (`inv_init`) and every mutator
preserves (the `Inv g'` conjunct of each step theorem; `srcRun_inv` chains them over arbitrary operation
lists) — so the step theorems hold in every state the code can reach.

Hypotheses on the arguments: sequence numbers |sn| < 2^62 for `AddPacket` (they are unwrapped 16-bit numbers;
the Go code computes `end − sn`, `sn + 1` in int64), any int64 for the others; arrival times unconstrained.
Every theorem about a function with loops gives a fuel bound: `∃ n, ∀ fuel ≥ n, … = some …` (termination).
-/
import Interceptor.Facts.FnTwccMap
import Interceptor.Props.C05
set_option linter.unusedVariables false
namespace Interceptor.C05Src
open Interceptor Interceptor.Gen.Fn Interceptor.GoSem Interceptor.Twcc
open Interceptor.Facts.FnTwccMap (Rel Inv MInv I64 Pow2 P2 conc findRes)

abbrev G := S_twcc_packetArrivalTimeMap
/-- the generated `get` (the observation all statements are made through). -/
abbrev gget := twcc_packetArrivalTimeMap_get

/-- the model map a Go struct represents (proof device only; no statement mentions it). -/
def absM (g : G) : ArrivalMap :=
  { buf := g.arrivalTimes.toArray, beginSN := g.beginSequenceNumber, endSN := g.endSequenceNumber }

theorem rel_abs (g : G) : Rel g (absM g) := ⟨by simp [absM], rfl, rfl⟩

theorem cap_abs (g : G) : (absM g).cap = g.arrivalTimes.length := by simp [absM, ArrivalMap.cap]

theorem minv_abs (g : G) (hi : Inv g) : MInv (absM g) := (rel_abs g).inv.1 hi

theorem get_abs (g : G) (hi : Inv g) (x : Int) : gget g x = (absM g).get x :=
  Facts.FnTwccMap.get_src_eq_model g _ (rel_abs g) ((rel_abs g).cap_ok hi) x

/-- the source-level invariant with a non-zero capacity is the model's well-formedness. -/
theorem wf_of (m : ArrivalMap) (hm : MInv m) (hc : Facts.FnTwccMap.CapOK m.cap) : ArrivalMap.WF m := by
  obtain ⟨hB, hbe, hE, hsz, _⟩ := hm
  obtain ⟨⟨k, hk⟩, h128, h32⟩ := hc
  refine ⟨⟨k, ?_, ?_, hk⟩, hbe, by omega, hsz⟩
  · apply Classical.byContradiction
    intro h
    have := Nat.pow_le_pow_right (n := 2) (by omega) (show k ≤ 6 by omega)
    have e : (2 : Nat) ^ 6 = 64 := by decide
    omega
  · apply Classical.byContradiction
    intro h
    have := Nat.pow_le_pow_right (n := 2) (by omega) (show 17 ≤ k by omega)
    have e : (2 : Nat) ^ 17 = 131072 := by decide
    omega

theorem capOK_of (g : G) (hi : Inv g) (h0 : g.arrivalTimes.length ≠ 0) :
    Facts.FnTwccMap.CapOK (absM g).cap := by
  rw [cap_abs]
  rcases hi.2.2.2.2 with h | h
  · exact absurd h h0
  · exact h

/-- lower end of the window after an accepted `AddPacket sn` (in terms of the Go fields). -/
def newBeginG (g : G) (sn : Int) : Int :=
  if g.beginSequenceNumber ≤ sn ∧ sn < g.endSequenceNumber then g.beginSequenceNumber
  else if sn < g.beginSequenceNumber then sn
  else if sn + 1 ≥ g.endSequenceNumber + 32768 then sn
  else max g.beginSequenceNumber (sn + 1 - 32768)

/-- ★ C05/T6 `map_refines`, first clause, on the code: the generated `AddPacket`, in every state satisfying
the invariant, for every |sn| < 2^62 and every `t`, terminates, preserves the invariant, leaves a capacity
that is a power of two in [128, 32768], and acts on the partial function `get : number ⇀ time` (−1 = absent)
as follows — on the zero-capacity map (first packet ever) the window becomes `[sn, sn+1)` with `sn ↦ t`;
otherwise the call is ignored (state unchanged) iff `sn` lies more than 2^15 below the end; otherwise the window
becomes `[newBegin, max end (sn+1))`, `sn ↦ t`, every other number inside the new window keeps its entry
(numbers in a gap read "absent") and everything outside reads "absent" — across every reallocation. -/
theorem addPacket_src (g : G) (hi : Inv g) (sn t : Int)
    (hsn : -4611686018427387904 < sn ∧ sn < 4611686018427387904) :
    ∃ n, ∀ fuel, n ≤ fuel → ∃ g', twcc_packetArrivalTimeMap_AddPacket fuel g sn t = some g' ∧
      Inv g' ∧ Facts.FnTwccMap.CapOK g'.arrivalTimes.length ∧
      (if g.arrivalTimes.length = 0 then
         g'.beginSequenceNumber = sn ∧ g'.endSequenceNumber = sn + 1 ∧ ∀ x, gget g' x = if x = sn then t else -1
       else if sn < g.beginSequenceNumber ∧ g.endSequenceNumber - sn > 32768 then g' = g
       else g'.beginSequenceNumber = newBeginG g sn ∧ g'.endSequenceNumber = max g.endSequenceNumber (sn + 1) ∧
         ∀ x, gget g' x =
           if x = sn then t
           else if newBeginG g sn ≤ x ∧ x < max g.endSequenceNumber (sn + 1) then gget g x else -1) := by
  obtain ⟨n, h⟩ := Facts.FnTwccMap.addPacket_src_eq_model g (absM g) (rel_abs g) hi sn t hsn
  refine ⟨n, fun fuel hf => ?_⟩
  obtain ⟨g', e, r', i', c'⟩ := h fuel hf
  refine ⟨g', e, i', c', ?_⟩
  have hg' : ∀ x, gget g' x = ((absM g).addPacket sn t).get x := fun x =>
    Facts.FnTwccMap.get_src_eq_model g' _ r' (r'.cap_ok i') x
  have hm := minv_abs g hi
  by_cases h0 : g.arrivalTimes.length = 0
  · rw [if_pos h0]
    have hc0 : (absM g).cap = 0 := by rw [cap_abs]; exact h0
    have hbe : (absM g).beginSN = (absM g).endSN := by
      obtain ⟨_, a, _, b, _⟩ := hm
      rw [hc0] at b
      omega
    obtain ⟨_, f1, f2, f3⟩ := ArrivalMap.addPacket_first (absM g) hc0 hbe sn t
    exact ⟨by rw [r'.2.1]; exact f1, by rw [r'.2.2]; exact f2, fun x => by rw [hg' x]; exact f3 x⟩
  · rw [if_neg h0]
    have hwf := wf_of _ hm (capOK_of g hi h0)
    obtain ⟨_, sp⟩ := ArrivalMap.addPacket_spec (absM g) hwf sn t
    by_cases hig : sn < g.beginSequenceNumber ∧ g.endSequenceNumber - sn > 32768
    · rw [if_pos hig]
      rw [if_pos (show sn < (absM g).beginSN ∧ (absM g).endSN - sn > 32768 from hig)] at sp
      rw [sp] at r'
      rw [r'.eq, ← (rel_abs g).eq]
    · rw [if_neg hig]
      rw [if_neg (show ¬ (sn < (absM g).beginSN ∧ (absM g).endSN - sn > 32768) from hig)] at sp
      obtain ⟨f1, f2, f3⟩ := sp
      refine ⟨by rw [r'.2.1]; exact f1, by rw [r'.2.2]; exact f2, fun x => ?_⟩
      rw [hg' x, f3 x, get_abs g hi x]
      rfl

/-- `RemoveOldPackets` on the zero-capacity map does nothing (model side). -/
theorem removeOld_zero (m : ArrivalMap) (h0 : m.cap = 0) (hbe : m.beginSN = m.endSN) (sn limit : Int) :
    m.removeOld sn limit = m := by
  unfold ArrivalMap.removeOld
  have hl : ∀ n, ArrivalMap.removeLoop n m (min sn m.endSN) limit = m := by
    intro n
    cases n with
    | zero => rfl
    | succ n =>
      unfold ArrivalMap.removeLoop
      have : ¬ (m.beginSN < min sn m.endSN ∧ m.get m.beginSN ≤ limit) := by omega
      rw [if_neg this]
  simp only [hl]
  exact Facts.FnTwccMap.adjust_zero m _ h0 (by omega)

/-- ★ C05/T6 `map_refines`, second clause, on the code: the generated `RemoveOldPackets`, in every state
satisfying the invariant, for every int64 `sn` and `limit`, terminates, preserves the invariant, keeps `end`,
and only drops a prefix of the window: `begin` moves up to at most `min sn end`, past entries that are absent or
`≤ limit` only, stopping at the first younger one; every number from the new `begin` on keeps its entry, and
everything below reads "absent". -/
theorem removeOldPackets_src (g : G) (hi : Inv g) (sn limit : Int) (hsn : I64 sn) :
    ∃ n, ∀ fuel, n ≤ fuel → ∃ g', twcc_packetArrivalTimeMap_RemoveOldPackets fuel g sn limit = some g' ∧
      Inv g' ∧ g'.endSequenceNumber = g.endSequenceNumber ∧
      g.beginSequenceNumber ≤ g'.beginSequenceNumber ∧
      g'.beginSequenceNumber ≤ max g.beginSequenceNumber (min sn g.endSequenceNumber) ∧
      (∀ x, gget g' x = if g'.beginSequenceNumber ≤ x then gget g x else -1) ∧
      (∀ x, g.beginSequenceNumber ≤ x → x < g'.beginSequenceNumber → gget g x ≤ limit) ∧
      (g'.beginSequenceNumber < min sn g.endSequenceNumber → gget g g'.beginSequenceNumber > limit) := by
  obtain ⟨n, h⟩ := Facts.FnTwccMap.removeOldPackets_src_eq_model g (absM g) (rel_abs g) hi sn limit hsn
  refine ⟨n, fun fuel hf => ?_⟩
  obtain ⟨g', e, r', i'⟩ := h fuel hf
  refine ⟨g', e, i', ?_⟩
  have hg' : ∀ x, gget g' x = ((absM g).removeOld sn limit).get x := fun x =>
    Facts.FnTwccMap.get_src_eq_model g' _ r' (r'.cap_ok i') x
  have hm := minv_abs g hi
  have hb' : g'.beginSequenceNumber = ((absM g).removeOld sn limit).beginSN := r'.2.1
  have he' : g'.endSequenceNumber = ((absM g).removeOld sn limit).endSN := r'.2.2
  by_cases h0 : g.arrivalTimes.length = 0
  · have hc0 : (absM g).cap = 0 := by rw [cap_abs]; exact h0
    have hbe : g.beginSequenceNumber = g.endSequenceNumber := by
      obtain ⟨_, a, _, b, _⟩ := hm
      rw [hc0] at b
      have a' : g.beginSequenceNumber ≤ g.endSequenceNumber := a
      have b' : g.endSequenceNumber - g.beginSequenceNumber ≤ ((0 : Nat) : Int) := b
      omega
    rw [removeOld_zero (absM g) hc0 hbe sn limit] at hb' he' hg'
    have hb'' : g'.beginSequenceNumber = g.beginSequenceNumber := hb'
    have he'' : g'.endSequenceNumber = g.endSequenceNumber := he'
    have hout : ∀ x, (absM g).get x = -1 := by
      intro x
      rw [ArrivalMap.get_def]
      have : x < (absM g).beginSN ∨ x ≥ (absM g).endSN := by
        show x < g.beginSequenceNumber ∨ x ≥ g.endSequenceNumber
        omega
      rw [if_pos this]
    refine ⟨he'', by omega, by omega, fun x => ?_, fun x a b => by omega, fun a => by omega⟩
    rw [hg' x, get_abs g hi x, hout x]
    split <;> rfl
  · have hwf := wf_of _ hm (capOK_of g hi h0)
    obtain ⟨_, f1, f2, f3, f4, f5, f6⟩ := ArrivalMap.removeOld_spec (absM g) hwf sn limit
    rw [hb', he']
    refine ⟨f1, f2, f3, fun x => ?_, fun x a b => ?_, fun a => ?_⟩
    · rw [hg' x, f4 x, get_abs g hi x]
    · rw [get_abs g hi x]; exact f5 x a b
    · rw [get_abs g hi]; exact f6 a

/-- ★ C05, `FindNextAtOrAfter` on the code: in every state satisfying the invariant, for every int64 `sn`, the
generated function terminates and returns either `(x, t, true)` where `x` is the first number at or after
`Clamp(sn)` and below `end` whose entry is present (`t = get x ≥ 0`, everything in between reads absent), or
`(−1, −1, false)` when every number from `Clamp(sn)` to `end` reads absent. -/
theorem findNextAtOrAfter_src (g : G) (hi : Inv g) (sn : Int) (hsn : I64 sn) :
    ∃ n, ∀ fuel, n ≤ fuel → ∃ x t ok, twcc_packetArrivalTimeMap_FindNextAtOrAfter fuel g sn = some (x, t, ok) ∧
      (ok = true → twcc_packetArrivalTimeMap_Clamp g sn ≤ x ∧ x < g.endSequenceNumber ∧ t = gget g x ∧ 0 ≤ t ∧
        ∀ y, twcc_packetArrivalTimeMap_Clamp g sn ≤ y → y < x → gget g y < 0) ∧
      (ok = false → x = -1 ∧ t = -1 ∧
        ∀ y, twcc_packetArrivalTimeMap_Clamp g sn ≤ y → y < g.endSequenceNumber → gget g y < 0) := by
  have hm := minv_abs g hi
  have hB : I64 (absM g).beginSN := by obtain ⟨a, b, c, _⟩ := hm; unfold I64; omega
  have hE : I64 (absM g).endSN := by obtain ⟨a, b, c, _⟩ := hm; unfold I64; omega
  obtain ⟨n, h⟩ := Facts.FnTwccMap.findNextAtOrAfter_src_eq_model g (absM g) (rel_abs g)
    ((rel_abs g).cap_ok hi) hB hE sn hsn
  refine ⟨n, fun fuel hf => ?_⟩
  have e := h fuel hf
  have hcl : twcc_packetArrivalTimeMap_Clamp g sn = (absM g).clamp sn :=
    Facts.FnTwcc.clamp_src_eq_model g (absM g) rfl rfl sn
  have hsp := findLoop_spec (absM g) ((absM g).endSN - (absM g).clamp sn).toNat ((absM g).clamp sn) (by omega)
  have hfn : (absM g).findNext sn
      = ArrivalMap.findLoop (absM g) ((absM g).endSN - (absM g).clamp sn).toNat ((absM g).clamp sn) := rfl
  rw [← hfn] at hsp
  cases hr : (absM g).findNext sn with
  | none =>
    rw [hr] at hsp e
    refine ⟨-1, -1, false, e, fun h => (by cases h), fun _ => ⟨rfl, rfl, fun y a b => ?_⟩⟩
    rw [get_abs g hi y]
    exact hsp y (by rw [← hcl]; exact a) b
  | some p =>
    obtain ⟨x, t⟩ := p
    rw [hr] at hsp e
    obtain ⟨a1, a2, a3, a4, a5⟩ := hsp
    refine ⟨x, t, true, e, fun _ => ⟨by rw [hcl]; exact a1, a2, by rw [get_abs g hi x]; exact a3, a4, fun y a b => ?_⟩,
      fun h => (by cases h)⟩
    rw [get_abs g hi y]
    exact a5 y (by rw [← hcl]; exact a) b

/-- ★ C05, `HasReceived` on the code: it is "`get` is present", hence after an accepted `AddPacket sn t` with a
real arrival time (`t ≥ 0`) the generated `HasReceived sn` is true, and for every other number of the new window
it is what it was before. -/
theorem hasReceived_src (g : G) (hi : Inv g) (sn t : Int)
    (hsn : -4611686018427387904 < sn ∧ sn < 4611686018427387904) (ht : 0 ≤ t)
    (hacc : ¬ (g.arrivalTimes.length ≠ 0 ∧ sn < g.beginSequenceNumber ∧ g.endSequenceNumber - sn > 32768)) :
    ∃ n, ∀ fuel, n ≤ fuel → ∃ g', twcc_packetArrivalTimeMap_AddPacket fuel g sn t = some g' ∧
      twcc_packetArrivalTimeMap_HasReceived g' sn = true ∧
      (g.arrivalTimes.length ≠ 0 → ∀ x, x ≠ sn → newBeginG g sn ≤ x → x < max g.endSequenceNumber (sn + 1) →
        twcc_packetArrivalTimeMap_HasReceived g' x = twcc_packetArrivalTimeMap_HasReceived g x) := by
  obtain ⟨n, h⟩ := addPacket_src g hi sn t hsn
  refine ⟨n, fun fuel hf => ?_⟩
  obtain ⟨g', e, _, _, sp⟩ := h fuel hf
  refine ⟨g', e, ?_, ?_⟩
  · unfold twcc_packetArrivalTimeMap_HasReceived
    by_cases h0 : g.arrivalTimes.length = 0
    · rw [if_pos h0] at sp
      have := sp.2.2 sn
      rw [if_pos rfl] at this
      show decide (gget g' sn ≥ 0) = true
      rw [this]; exact decide_eq_true ht
    · rw [if_neg h0, if_neg (fun hh => hacc ⟨h0, hh⟩)] at sp
      have := sp.2.2 sn
      rw [if_pos rfl] at this
      show decide (gget g' sn ≥ 0) = true
      rw [this]; exact decide_eq_true ht
  · intro h0 x hx h1 h2
    rw [if_neg h0, if_neg (fun hh => hacc ⟨h0, hh⟩)] at sp
    have := sp.2.2 x
    rw [if_neg hx, if_pos ⟨h1, h2⟩] at this
    unfold twcc_packetArrivalTimeMap_HasReceived
    show decide (gget g' x ≥ 0) = decide (gget g x ≥ 0)
    rw [this]

/-! ## chaining: the invariant (and with it the capacity bound C12 uses) over arbitrary operation lists -/

/-- a mutator call on the arrival map. -/
inductive Op where
  | add (sn t : Int)
  | remove (sn limit : Int)
  | erase (sn : Int)

/-- the arguments are in the ranges the step theorems need. -/
def Op.ok : Op → Prop
  | .add sn _ => -4611686018427387904 < sn ∧ sn < 4611686018427387904
  | .remove sn _ => I64 sn
  | .erase _ => True

def srcStep (fuel : Nat) (g : G) : Op → Option G
  | .add sn t => twcc_packetArrivalTimeMap_AddPacket fuel g sn t
  | .remove sn limit => twcc_packetArrivalTimeMap_RemoveOldPackets fuel g sn limit
  | .erase sn => twcc_packetArrivalTimeMap_EraseTo fuel g sn

def srcRun (fuel : Nat) : G → List Op → Option G
  | g, [] => some g
  | g, op :: ops => match srcStep fuel g op with
    | none => none
    | some g' => srcRun fuel g' ops

/-- one generated mutator call from a state satisfying the invariant terminates in such a state, and the
result does not depend on the fuel (beyond the bound). -/
theorem srcStep_inv (g : G) (hi : Inv g) (op : Op) (hok : op.ok) :
    ∃ n g', Inv g' ∧ ∀ fuel, n ≤ fuel → srcStep fuel g op = some g' := by
  cases op with
  | add sn t =>
    obtain ⟨n, h⟩ := Facts.FnTwccMap.addPacket_src_eq_model g (absM g) (rel_abs g) hi sn t hok
    obtain ⟨g0, _, r0, i0, _⟩ := h n (Nat.le_refl _)
    refine ⟨n, g0, i0, fun fuel hf => ?_⟩
    obtain ⟨g', e, r', _, _⟩ := h fuel hf
    rw [show srcStep fuel g (.add sn t) = _ from e, r'.eq, r0.eq]
  | remove sn limit =>
    obtain ⟨n, h⟩ := Facts.FnTwccMap.removeOldPackets_src_eq_model g (absM g) (rel_abs g) hi sn limit hok
    obtain ⟨g0, _, r0, i0⟩ := h n (Nat.le_refl _)
    refine ⟨n, g0, i0, fun fuel hf => ?_⟩
    obtain ⟨g', e, r', _⟩ := h fuel hf
    rw [show srcStep fuel g (.remove sn limit) = _ from e, r'.eq, r0.eq]
  | erase sn =>
    obtain ⟨n, h⟩ := Facts.FnTwccMap.eraseTo_src_eq_model g (absM g) (rel_abs g) hi sn
    obtain ⟨g0, _, r0, i0⟩ := h n (Nat.le_refl _)
    refine ⟨n, g0, i0, fun fuel hf => ?_⟩
    obtain ⟨g', e, r', _⟩ := h fuel hf
    rw [show srcStep fuel g (.erase sn) = _ from e, r'.eq, r0.eq]

/-- the step theorems chain: from any state satisfying the invariant, any list of mutator calls with arguments
in range terminates (one fuel bound for the whole list) in a state satisfying the invariant. -/
theorem srcRun_inv (ops : List Op) (hok : ∀ op ∈ ops, op.ok) :
    ∀ (g : G), Inv g → ∃ n g', Inv g' ∧ ∀ fuel, n ≤ fuel → srcRun fuel g ops = some g' := by
  induction ops with
  | nil => intro g hi; exact ⟨0, g, hi, fun _ _ => rfl⟩
  | cons op ops ih =>
    intro g hi
    obtain ⟨n1, g1, i1, h1⟩ := srcStep_inv g hi op (hok op (by simp))
    obtain ⟨n2, g2, i2, h2⟩ := ih (fun o ho => hok o (by simp [ho])) g1 i1
    refine ⟨max n1 n2, g2, i2, fun fuel hf => ?_⟩
    simp only [srcRun, h1 fuel (by omega), h2 fuel (by omega)]

/-- ★ C05/T6 `map_refines`, third and fourth clause, on the code (the bound C12 uses): from the zero value
`&packetArrivalTimeMap{}` that `NewRecorder` builds, ANY sequence of generated `AddPacket` / `RemoveOldPackets` /
`EraseTo` calls (|sn| < 2^62 for `AddPacket`) terminates, and in the state it reaches the capacity
`len(arrivalTimes)` is 0 or a power of two in [128, 32768], `begin ≤ end`, and the window fits:
`end − begin ≤ capacity ≤ 32768`. -/
theorem capacity_bound_src (ops : List Op) (hok : ∀ op ∈ ops, op.ok) :
    ∃ n g', (∀ fuel, n ≤ fuel → srcRun fuel {} ops = some g') ∧
      (g'.arrivalTimes.length = 0 ∨
        ((∃ k, g'.arrivalTimes.length = 2 ^ k) ∧ 128 ≤ g'.arrivalTimes.length ∧ g'.arrivalTimes.length ≤ 32768)) ∧
      g'.beginSequenceNumber ≤ g'.endSequenceNumber ∧
      g'.endSequenceNumber - g'.beginSequenceNumber ≤ (g'.arrivalTimes.length : Int) ∧
      g'.endSequenceNumber - g'.beginSequenceNumber ≤ 32768 := by
  obtain ⟨n, g', i', h⟩ := srcRun_inv ops hok {} Facts.FnTwccMap.inv_init.1
  obtain ⟨a, b, c, d, e⟩ := i'
  refine ⟨n, g', h, e, b, d, ?_⟩
  rcases e with e | ⟨_, _, e⟩ <;> omega

/-- ★ the step theorems hold in every state the code can reach: the state after any operation list from the
zero value satisfies the invariant that `addPacket_src`, `removeOldPackets_src`, `findNextAtOrAfter_src`,
`hasReceived_src` assume. -/
theorem reachable_inv_src (ops : List Op) (hok : ∀ op ∈ ops, op.ok) :
    ∃ n g', (∀ fuel, n ≤ fuel → srcRun fuel {} ops = some g') ∧ Inv g' := by
  obtain ⟨n, g', i', h⟩ := srcRun_inv ops hok {} Facts.FnTwccMap.inv_init.1
  exact ⟨n, g', h, i'⟩


/-! ## non-vacuity: the generated code evaluated on concrete inputs (fuel 300 suffices here) -/

/-- what is observed of a state: begin, end, capacity, and `get` at a few numbers. -/
def obs (g : G) (xs : List Int) : Int × Int × Nat × List Int :=
  (g.beginSequenceNumber, g.endSequenceNumber, g.arrivalTimes.length, xs.map (gget g))

/-- non-vacuity of `addPacket_src`: the first packet (−3, negative sequence number: slot 125), a packet ahead
(gap −2..0 reads absent), a packet far enough ahead to force a reallocation to 256 slots (old entries kept),
and a packet more than 2^15 below the end (ignored). -/
example : (srcRun 300 {} [.add (-3) 1000]).map (obs · [-4, -3, -2]) = some (-3, -2, 128, [-1, 1000, -1]) ∧
    (srcRun 300 {} [.add (-3) 1000, .add 1 2000]).map (obs · [-3, -2, 0, 1, 2])
      = some (-3, 2, 128, [1000, -1, -1, 2000, -1]) ∧
    (srcRun 300 {} [.add (-3) 1000, .add 1 2000, .add 200 3000]).map (obs · [-3, 1, 100, 200])
      = some (-3, 201, 256, [1000, 2000, -1, 3000]) ∧
    (srcRun 300 {} [.add (-3) 1000, .add 1 2000, .add (-40000) 5]).map (obs · [-40000, -3, 1])
      = some (-3, 2, 128, [-1, 1000, 2000]) := by
  refine ⟨?_, ?_, ?_, ?_⟩ <;> decide +kernel

/-- non-vacuity of `removeOldPackets_src`: entries below 1 that are absent or not younger than 1500 are dropped;
with limit 500 the scan stops at −3 (arrival 1000 is younger). -/
example : (srcRun 300 {} [.add (-3) 1000, .add 1 2000, .remove 1 1500]).map (obs · [-3, 0, 1])
      = some (1, 2, 128, [-1, -1, 2000]) ∧
    (srcRun 300 {} [.add (-3) 1000, .add 1 2000, .remove 1 500]).map (obs · [-3, 0, 1])
      = some (-3, 2, 128, [1000, -1, 2000]) := by
  refine ⟨?_, ?_⟩ <;> decide +kernel

/-- non-vacuity of `findNextAtOrAfter_src`: from inside a gap, from below the window (clamped), from the end. -/
example : ((srcRun 300 {} [.add (-3) 1000, .add 1 2000]).bind fun g =>
      twcc_packetArrivalTimeMap_FindNextAtOrAfter 300 g (-2)) = some (1, 2000, true) ∧
    ((srcRun 300 {} [.add (-3) 1000, .add 1 2000]).bind fun g =>
      twcc_packetArrivalTimeMap_FindNextAtOrAfter 300 g (-100)) = some (-3, 1000, true) ∧
    ((srcRun 300 {} [.add (-3) 1000, .add 1 2000]).bind fun g =>
      twcc_packetArrivalTimeMap_FindNextAtOrAfter 300 g 2) = some (-1, -1, false) := by
  refine ⟨?_, ?_, ?_⟩ <;> decide +kernel

/-- non-vacuity of `hasReceived_src`: after `AddPacket 1 2000` number 1 has been received, −3 still has, the gap
−2 and the number 2 beyond the end have not. -/
example : (srcRun 300 {} [.add (-3) 1000, .add 1 2000]).map
      (fun g => [-3, -2, 1, 2].map (twcc_packetArrivalTimeMap_HasReceived g)) = some [true, false, true, false] := by
  decide +kernel

/-- non-vacuity of `capacity_bound_src` / `reachable_inv_src`: the operations are in range, and a jump of
40000 numbers leaves a 128-slot buffer holding only the new packet. -/
example : (∀ op ∈ [Op.add (-3) 1000, .add 1 2000, .remove 1 1500, .erase 0, .add 40000 9], op.ok) ∧
    (srcRun 300 {} [.add (-3) 1000, .add 1 2000, .remove 1 1500, .erase 0, .add 40000 9]).map (obs · [1, 40000])
      = some (40000, 40001, 128, [-1, 9]) := by
  refine ⟨?_, by decide +kernel⟩
  intro op hop
  simp only [List.mem_cons, List.not_mem_nil, or_false] at hop
  rcases hop with rfl | rfl | rfl | rfl | rfl <;> simp [Op.ok, I64]

end Interceptor.C05Src

/-
C20 — sequence-number unwrapping (NTP part: see Props/C20Ntp.lean).
Only property theorems live here.
-/
import Interceptor.Model.Unwrapper
namespace Interceptor.Unwrapper

/-- ★ T1: result congruent to the input modulo 2^16 (any state). -/
theorem unwrap_mod (last : Int) (i : Nat) (hi : i < 65536) :
    step last i % 65536 = (i : Int) := by
  unfold step isNewer
  simp only []
  split <;> (try split) <;> omega

/-- ★ T2: non-negative results stay non-negative. -/
theorem unwrap_nonneg (last : Int) (i : Nat) (h : 0 ≤ last) (hi : i < 65536) : 0 ≤ step last i := by
  unfold step isNewer
  simp only []
  split <;> (try split) <;> omega

/-- ★ T3 (forward half, unconditional): never more than 2^15 *above*… is FALSE at the first
epoch (F-32); what holds unconditionally is the bound below. -/
theorem unwrap_not_far_below (last : Int) (i : Nat) (hi : i < 65536) :
    last - 32768 ≤ step last i := by
  unfold step isNewer
  simp only []
  split <;> (try split) <;> simp_all <;> omega

/-- T3 `_partial`: closeness under the hypothesis the code forces (`last ≥ 2^15`, i.e. the
floor-at-zero branch cannot fire).  Missing for the full statement: the first epoch. -/
theorem unwrap_close_partial (last : Int) (i : Nat) (h : 32768 ≤ last) (hi : i < 65536) :
    step last i - last ≤ 32768 ∧ last - step last i ≤ 32768 := by
  unfold step isNewer
  simp only []
  split <;> (try split) <;> simp_all <;> omega

/-- The full-strength closeness statement is false of the code: F-32 witness `[0, 65535]`. -/
theorem unwrap_close_false : ¬ (∀ (last : Int) (i : Nat), 0 ≤ last → i < 65536 →
    step last i - last ≤ 32768 ∧ last - step last i ≤ 32768) := by
  intro h
  have := h 0 65535 (by decide) (by decide)
  revert this
  decide

/-- single step reconstructs any non-negative true value within half range of the last one. -/
theorem step_exact (last w : Int) (h0 : 0 ≤ last) (hw : 0 ≤ w)
    (hc : w - last < 32768 ∧ last - w < 32768) :
    step last (w % 65536).toNat = w := by
  unfold step isNewer
  simp only []
  split <;> (try split) <;> simp_all <;> omega

/-- consecutive elements (starting from `a`) satisfy `r`. -/
def Chain (r : Int → Int → Prop) : Int → List Int → Prop
  | _, [] => True
  | a, b :: l => r a b ∧ Chain r b l

/-- ★ T4: any stream whose consecutive true values differ by less than 2^15 (and which never
goes below the first value's epoch) is reconstructed exactly, relative to that epoch. -/
theorem unwrap_exact (v0 : Int) (vs : List Int) (h0 : 0 ≤ v0)
    (hstep : Chain (fun a b => b - a < 32768 ∧ a - b < 32768) v0 vs)
    (hfloor : ∀ v ∈ vs, v0 - v0 % 65536 ≤ v) :
    unwrapAll none ((v0 :: vs).map fun v => (v % 65536).toNat)
      = (v0 :: vs).map (fun v => v - (v0 - v0 % 65536)) := by
  -- generalise: from state `some (a - base)` with `a` the previous true value
  have key : ∀ (base : Int) (ws : List Int) (a : Int), base % 65536 = 0 → base ≤ a →
      Chain (fun a b => b - a < 32768 ∧ a - b < 32768) a ws →
      (∀ v ∈ ws, base ≤ v) →
      unwrapAll (some (a - base)) (ws.map fun v => (v % 65536).toNat)
        = ws.map (fun v => v - base) := by
    intro base ws
    induction ws with
    | nil => intros; rfl
    | cons w ws ih =>
      intro a hb ha hch hfl
      have hw : base ≤ w := hfl w (by simp)
      have hcw : _ ∧ _ := hch
      have e : (w % 65536).toNat = ((w - base) % 65536).toNat := by
        congr 1; omega
      have hs : step (a - base) ((w % 65536).toNat) = w - base := by
        rw [e]; exact step_exact (a - base) (w - base) (by omega) (by omega) (by omega)
      simp only [List.map_cons, unwrapAll, unwrap, hs]
      congr 1
      exact ih w hb hw hcw.2 (fun v hv => hfl v (by simp [hv]))
  have hb : (v0 - v0 % 65536) % 65536 = 0 := by omega
  have := key (v0 - v0 % 65536) vs v0 hb (by omega) hstep hfloor
  simp only [List.map_cons, unwrapAll, unwrap]
  have e0 : (((v0 % 65536).toNat : Nat) : Int) = v0 - (v0 - v0 % 65536) := by omega
  rw [e0]
  congr 1

/-- non-vacuity: a concrete stream across the wrap meets the hypotheses of `unwrap_exact`. -/
example : unwrapAll none ([65534, 65535, 65537, 65536, 70000].map fun v : Int => (v % 65536).toNat)
    = [65534, 65535, 65537, 65536, 70000] := by decide

end Interceptor.Unwrapper

/-
C08 — the property theorems restated on the code itself: on the Lean definitions that extract/fn.go
regenerates from pkg/rfc8888/stream_log.go on every run (Gen/Fn_rfc8888.lean):
`rfc8888_newStreamLog`, `rfc8888_streamLog_add`, `rfc8888_streamLog_metricsAfter`,
`rfc8888_getArrivalTimeOffset`.  `srcReport ssrc ops ref b` runs the generated `add` / `metricsAfter` over an
arbitrary call list `ops` from the state `newStreamLog(ssrc)` builds (`FnStreamLog.goRun`) and then calls the
generated `metricsAfter(ref, b)` once more: it returns the Go state before that call, the report block the call
returns, and the Go state after it.  Every ★ statement below is about that block and those two states.
`run_block_is_srcReport`: every block a run of the generated code returns is such a block (of the calls before it).
Each statement follows from the model theorem of Props/C08.lean (and, for the "stops at the first gap" half, the
model lemmas `ack_bounds`/`ack_prefix`/`ack_stop` of Proofs/Rfc8888.lean) and the source-equals-model theorems of
Facts/FnStreamLog.lean (`add_src_eq_model`, `add_inv`, `metricsAfter_src_eq_model`, `metricsAfter_chain`,
`newStreamLog_src_eq_model`, `newStreamLog_inv`), Facts/FnRfc8888.lean (`getATO_src_eq_model`) and
Facts/FnUnwrapper.lean (`unwrap_src_eq_model`, through Props/C20Src `unwrap_mod_nonneg_src`).

No ★ statement mentions the hand-written model `Rfc8888.StreamLog` (only the helpers `run_hist`,
`srcReport_model`, the intermediate compositions, do).  The right-hand sides are the spec notions of
Spec/Rfc8888.lean, the definition of "the true value" in the property itself: `firstArrival h n` (the arrival
record of the FIRST copy of number `n` in the history) and `atoSpec` (⌊1024·age⌋ with the two saturation codes),
over `hist ops`, the event history the calls stand for — the unwrapped sequence numbers in it are the results of
the GENERATED `Unwrap` (Gen/Fn_sequencenumber.lean) on the 16-bit numbers of the `add` calls, in call order.

Hypotheses of every run theorem, all on the call arguments: `Op.ok` for every call (a uint16 sequence number for
`add`; `0 ≤ maxReportBlocks < 2^62` for `metricsAfter` — `Recorder.BuildReport` passes an `int64` in that range
for every `int` maximum size), fewer than 2^46 calls (int64 room for the unwrapper), the same range for the budget
`b` of the final call, and — where the model theorem needs `init = true` — `hasAdd ops` (some `add` call
happened; a streamLog inside a Recorder is created by AddPacket and always has one).  The conclusion
`srcReport … = some …` says that every loop of the generated code terminates with the fuel
`lastSequenceNumberReceived − nextSequenceNumberToReport + 2` (`FnStreamLog.goRun`'s choice).
-/
import Interceptor.Facts.FnStreamLog
import Interceptor.Props.C08
import Interceptor.Props.C20Src
set_option linter.unusedVariables false
namespace Interceptor.C08Src
open Interceptor Interceptor.Gen.Fn Interceptor.GoSem Interceptor.Facts
open Interceptor.Facts.FnStreamLog (Op goRun Rel toGoB toGoM glookup)
open Interceptor.Facts.FnUnwrapper (absU unwrap_src_eq_model)
open Interceptor.Rfc8888 (Ev Entry Metric Block StreamLog firstArrival exec reportAfter NonNeg rangeBegin
  reportedAs atoSpec mkMetric addU lookup)

/-! ## the run, the history it stands for, and the observations -/

/-- the events a call list stands for, oldest first: every `add(ts, sn, ecn)` becomes an arrival of the unwrapped
number the GENERATED `Unwrap` returns for `sn` (threading the generated unwrapper state `u`), every `metricsAfter`
a report build. -/
def evs : S_sequencenumber_Unwrapper → List Op → List Ev
  | _, [] => []
  | u, .add ts sn ecn :: ops =>
    Ev.add ts (sequencenumber_Unwrapper_Unwrap u (sn : Int)).1 ecn ::
      evs (sequencenumber_Unwrapper_Unwrap u (sn : Int)).2 ops
  | u, .report ref mb :: ops => Ev.report ref mb :: evs u ops

/-- the history of a call list from a fresh stream log (newest event first, the convention of Spec/Rfc8888). -/
def hist (ops : List Op) : List Ev := (evs {} ops).reverse

/-- some `add` call is in the list. -/
def hasAdd (ops : List Op) : Prop := ∃ ts sn ecn, Op.add ts sn ecn ∈ ops

/-- run the generated code over `ops` from `newStreamLog(ssrc)`, then call the generated `metricsAfter(ref, b)`:
(state before the call, returned report block, state after the call). -/
def srcReport (ssrc : Nat) (ops : List Op) (ref b : Int) :
    Option (S_rfc8888_streamLog × S_rtcp_CCFeedbackReportBlock × S_rfc8888_streamLog) :=
  match goRun (rfc8888_newStreamLog (ssrc : Int)) ops with
  | none => none
  | some (g, _) =>
    match rfc8888_streamLog_metricsAfter
        ((g.lastSequenceNumberReceived - g.nextSequenceNumberToReport + 1).toNat + 1) g ref b with
    | none => none
    | some (blk, g') => some (g, blk, g')

/-- first (unwrapped) number of the range a report with budget `b` lists, read off the Go state: the first
not-yet-reported number, or `last − b + 1` when the budget is smaller than the outstanding range. -/
def goBegin (g : S_rfc8888_streamLog) (b : Int) : Int :=
  max g.nextSequenceNumberToReport (g.lastSequenceNumberReceived - b + 1)

/-- how a returned block describes the unwrapped number `n` when its first metric block stands for `beginU`:
`none` when `n` is outside the listed range. -/
def goReportedAs (blk : S_rtcp_CCFeedbackReportBlock) (beginU n : Int) : Option S_rtcp_CCFeedbackMetricBlock :=
  if beginU ≤ n then blk.MetricBlocks[(n - beginU).toNat]? else none

/-- the metric block the property prescribes for a number whose first copy has arrival record `o`
(`none`: never arrived) in a report built at `ref`. -/
def specMetric (ref : Int) : Option Entry → S_rtcp_CCFeedbackMetricBlock
  | some e => { Received := true, ECN := (e.ecn : Int), ArrivalTimeOffset := (atoSpec ref e.arrival : Int) }
  | none => { Received := false, ECN := 0, ArrivalTimeOffset := 0 }

/-! ## helpers: the model state without the unwrapper, histories -/

/-- running the generated code over a concatenated call list is running it over the parts. -/
theorem goRun_append (a b : List Op) : ∀ g : S_rfc8888_streamLog, goRun g (a ++ b) =
    match goRun g a with
    | none => none
    | some (g1, o1) =>
      match goRun g1 b with
      | none => none
      | some (g2, o2) => some (g2, o1 ++ o2) := by
  induction a with
  | nil =>
    intro g
    simp only [List.nil_append, goRun]
    cases goRun g b with
    | none => rfl
    | some p => rfl
  | cons o a ih =>
    intro g
    cases o with
    | add ts sn ecn => simp only [List.cons_append, goRun]; exact ih _
    | report ref mb =>
      simp only [List.cons_append, goRun]
      cases rfc8888_streamLog_metricsAfter
          ((g.lastSequenceNumberReceived - g.nextSequenceNumberToReport + 1).toNat + 1) g ref mb with
      | none => rfl
      | some p =>
        obtain ⟨blk, g'⟩ := p
        simp only []
        rw [ih g']
        cases goRun g' a with
        | none => rfl
        | some q =>
          obtain ⟨g1, o1⟩ := q
          simp only []
          cases goRun g1 b with
          | none => rfl
          | some r => rfl

/-- every report block a run of the generated code returns is a `srcReport` block: the block returned by the
`metricsAfter(ref, b)` call that follows the calls `pre` inside a longer run is the one `srcReport ssrc pre ref b`
describes, at its place in the list of returned blocks — so the ★ theorems below speak about every block of every
run. -/
theorem run_block_is_srcReport (ssrc : Nat) (pre post : List Op) (ref b : Int) (g : S_rfc8888_streamLog)
    (outs : List S_rtcp_CCFeedbackReportBlock)
    (h : goRun (rfc8888_newStreamLog (ssrc : Int)) (pre ++ Op.report ref b :: post) = some (g, outs)) :
    ∃ g0 blk g1 o1 o2, srcReport ssrc pre ref b = some (g0, blk, g1) ∧
      goRun (rfc8888_newStreamLog (ssrc : Int)) pre = some (g0, o1) ∧ goRun g1 post = some (g, o2) ∧
      outs = o1 ++ blk :: o2 := by
  rw [goRun_append] at h
  cases h1 : goRun (rfc8888_newStreamLog (ssrc : Int)) pre with
  | none => rw [h1] at h; cases h
  | some p =>
    obtain ⟨g0, o1⟩ := p
    rw [h1] at h
    simp only [goRun] at h
    cases h2 : rfc8888_streamLog_metricsAfter
        ((g0.lastSequenceNumberReceived - g0.nextSequenceNumberToReport + 1).toNat + 1) g0 ref b with
    | none => rw [h2] at h; cases h
    | some q =>
      obtain ⟨blk, g1⟩ := q
      rw [h2] at h
      simp only [] at h
      cases h3 : goRun g1 post with
      | none => rw [h3] at h; cases h
      | some r =>
        obtain ⟨g2, o2⟩ := r
        rw [h3] at h
        simp only [Option.some.injEq, Prod.mk.injEq] at h
        refine ⟨g0, blk, g1, o1, o2, ?_, rfl, by rw [← h.1]; exact h3, h.2.symm⟩
        unfold srcReport
        simp only [h1, h2]



/-- the model state without its unwrapper (`exec` of Spec/Rfc8888 works on unwrapped numbers and never sets it). -/
def strip (l : StreamLog) : StreamLog := { l with seq := none }

theorem strip_addU (l : StreamLog) (ts u : Int) (ecn : Nat) : strip (addU l ts u ecn) = addU (strip l) ts u ecn := by
  obtain ⟨ssrc, seq, init, next, last, log⟩ := l
  unfold addU strip
  cases init <;> simp only [Bool.false_eq_true, if_true, if_false] <;> split <;>
    first | rfl | (cases lookup log u <;> simp only [] <;> split <;> rfl)

theorem strip_metricsAfter (l : StreamLog) (ref b : Int) :
    Rfc8888.metricsAfter (strip l) ref b = (strip (Rfc8888.metricsAfter l ref b).1, (Rfc8888.metricsAfter l ref b).2) := by
  obtain ⟨ssrc, seq, init, next, last, log⟩ := l
  unfold Rfc8888.metricsAfter strip Rfc8888.truncate
  simp only []
  split
  · rfl
  · split <;> rfl

theorem strip_add (m : StreamLog) (ts : Int) (sn ecn : Nat) :
    strip (Rfc8888.add m ts sn ecn) = addU (strip m) ts (Unwrapper.unwrap m.seq sn).2 ecn := by
  unfold Rfc8888.add
  simp only []
  rw [strip_addU]
  rfl

/-- the generated `add` stores the unwrapper state the generated `Unwrap` returns, on every path. -/
theorem add_sequence (g : S_rfc8888_streamLog) (ts sn ecn : Int) :
    (rfc8888_streamLog_add g ts sn ecn).sequence = (sequencenumber_Unwrapper_Unwrap g.sequence sn).2 := by
  unfold rfc8888_streamLog_add
  simp only []
  repeat' split
  all_goals rfl

/-- (helper: the composition with the model, before the model theorems are applied) the generated code, run from a
Go state `g` that represents the model state `m` (whose unwrapper-free part is the model run `exec` over a history
`h0` of non-negative numbers) over any call list with arguments in range, terminates, and the final Go state
represents a model state whose unwrapper-free part is `exec` over `h0` extended by the events the calls stand
for; the numbers of that history are non-negative (C20: `unwrap_mod_nonneg_src`). -/
theorem run_hist (ssrc : Nat) : ∀ (ops : List Op) (g : S_rfc8888_streamLog) (m : StreamLog) (h0 : List Ev),
    (∀ o ∈ ops, o.ok) → Rel g m → FnStreamLog.Inv g ops.length → 0 ≤ g.sequence.lastUnwrapped →
    strip m = exec ssrc h0 → NonNeg h0 →
    ∃ g' outs m', goRun g ops = some (g', outs) ∧ Rel g' m' ∧ FnStreamLog.Inv g' 0 ∧
      strip m' = exec ssrc ((evs g.sequence ops).reverse ++ h0) ∧
      NonNeg ((evs g.sequence ops).reverse ++ h0) := by
  intro ops
  induction ops with
  | nil =>
    intro g m h0 _ h hi _ hs hn
    exact ⟨g, [], m, rfl, h, hi, by simpa [evs] using hs, by simpa [evs] using hn⟩
  | cons o ops ih =>
    intro g m h0 hok h hi hnn hs hn
    have hok' : ∀ o ∈ ops, o.ok := fun o ho => hok o (by simp [ho])
    cases o with
    | add ts sn ecn =>
      have hsn : sn < 65536 := hok (.add ts sn ecn) (by simp)
      have hb := hi.bounds
      have hu := unwrap_src_eq_model g.sequence sn hsn ⟨hb.2.2.2.1, hb.2.2.2.2⟩
      simp only at hu
      rw [h.seq] at hu
      have hu2 : (Unwrapper.unwrap m.seq sn).2 = (sequencenumber_Unwrapper_Unwrap g.sequence (sn : Int)).1 :=
        (congrArg Prod.snd hu).symm
      have hf := FnStreamLog.unwrap_facts g.sequence sn hsn ⟨hb.2.2.2.1, hb.2.2.2.2⟩
      have hr0 : 0 ≤ (sequencenumber_Unwrapper_Unwrap g.sequence (sn : Int)).1 :=
        (C20Src.unwrap_mod_nonneg_src g.sequence sn hsn ⟨hb.2.2.2.1, hb.2.2.2.2⟩).2 hnn
      have hseq := add_sequence g ts (sn : Int) (ecn : Int)
      obtain ⟨g', outs, m', e, r, i, s, n⟩ := ih (rfc8888_streamLog_add g ts (sn : Int) (ecn : Int))
        (Rfc8888.add m ts sn ecn) (Ev.add ts (sequencenumber_Unwrapper_Unwrap g.sequence (sn : Int)).1 ecn :: h0) hok'
        (FnStreamLog.add_src_eq_model h ts sn hsn ecn ⟨hb.2.2.2.1, hb.2.2.2.2⟩)
        (FnStreamLog.add_inv hi ts sn hsn ecn)
        (by rw [hseq, hf.2.1]; exact hr0)
        (by rw [strip_add, hu2, hs]; rfl)
        ⟨hr0, hn⟩
      rw [hseq] at s n
      refine ⟨g', outs, m', by simpa only [goRun] using e, r, i, ?_, ?_⟩
      · simpa only [evs, List.reverse_cons, List.append_assoc, List.singleton_append] using s
      · simpa only [evs, List.reverse_cons, List.append_assoc, List.singleton_append] using n
    | report ref mb =>
      have hmb : 0 ≤ mb ∧ mb < 4611686018427387904 := hok (.report ref mb) (by simp)
      have hb := hi.bounds
      obtain ⟨g1, e1, r1, i1⟩ := FnStreamLog.metricsAfter_chain h hi.mono ref mb hmb _ (Nat.le_refl _)
      obtain ⟨g1', e1', _, h3⟩ := FnStreamLog.metricsAfter_src_eq_model h ref mb hmb hb.1 hb.2.1 hb.2.2.1 _
        (Nat.le_refl _)
      have hg : g1 = g1' := by
        have := e1.symm.trans e1'
        simp only [Option.some.injEq, Prod.mk.injEq] at this
        exact this.2
      have hseq : g1.sequence = g.sequence := by rw [hg, h3]
      obtain ⟨g', outs, m', e, r, i, s, n⟩ := ih g1 (Rfc8888.metricsAfter m ref mb).1 (Ev.report ref mb :: h0) hok'
        r1 i1 (by rw [hseq]; exact hnn)
        (by
          have := strip_metricsAfter m ref mb
          rw [hs] at this
          show _ = (Rfc8888.metricsAfter (exec ssrc h0) ref mb).1
          rw [this])
        ⟨hmb.1, hn⟩
      rw [hseq] at s n
      refine ⟨g', toGoB (Rfc8888.metricsAfter m ref mb).2 :: outs, m', by simp only [goRun, e1, e], r, i, ?_, ?_⟩
      · simpa only [evs, List.reverse_cons, List.append_assoc, List.singleton_append] using s
      · simpa only [evs, List.reverse_cons, List.append_assoc, List.singleton_append] using n

theorem evs_hasAdd : ∀ (ops : List Op) (u : S_sequencenumber_Unwrapper), hasAdd ops →
    ∃ ts x ecn, Ev.add ts x ecn ∈ evs u ops := by
  intro ops
  induction ops with
  | nil => intro u ⟨_, _, _, h⟩; simp at h
  | cons o ops ih =>
    intro u ⟨ts, sn, ecn, h⟩
    cases o with
    | add ts' sn' ecn' => exact ⟨ts', _, ecn', List.Mem.head _⟩
    | report ref mb =>
      simp only [List.mem_cons, reduceCtorEq, false_or] at h
      obtain ⟨a, b, c, hm⟩ := ih u ⟨ts, sn, ecn, h⟩
      exact ⟨a, b, c, by simp [evs, hm]⟩

theorem exec_init_of_add (ssrc : Nat) : ∀ h : List Ev, (∃ ts x ecn, Ev.add ts x ecn ∈ h) →
    (exec ssrc h).init = true := by
  intro h
  induction h with
  | nil => intro ⟨_, _, _, h⟩; simp at h
  | cons e h ih =>
    intro ⟨ts, x, ecn, hm⟩
    cases e with
    | add ts' x' ecn' => simp only [exec, Rfc8888.addU_init]
    | report ref b =>
      simp only [List.mem_cons, reduceCtorEq, false_or] at hm
      simp only [exec, Rfc8888.metricsAfter_init]
      exact ih ⟨ts, x, ecn, hm⟩

theorem hist_init (ssrc : Nat) (ops : List Op) (h : hasAdd ops) : (exec ssrc (hist ops)).init = true := by
  obtain ⟨ts, x, ecn, hm⟩ := evs_hasAdd ops {} h
  exact exec_init_of_add ssrc _ ⟨ts, x, ecn, by unfold hist; simpa using hm⟩

/-- a longer call list extends the history (newest first: at the front). -/
theorem hist_append (ops1 ops2 : List Op) : ∃ h2, hist (ops1 ++ ops2) = h2 ++ hist ops1 := by
  have key : ∀ (a : List Op) (u : S_sequencenumber_Unwrapper), ∃ t, evs u (a ++ ops2) = evs u a ++ t := by
    intro a
    induction a with
    | nil => intro u; exact ⟨_, rfl⟩
    | cons o a ih =>
      intro u
      cases o with
      | add ts sn ecn =>
        obtain ⟨t, ht⟩ := ih (sequencenumber_Unwrapper_Unwrap u (sn : Int)).2
        exact ⟨t, by simp only [List.cons_append, evs, ht]⟩
      | report ref mb =>
        obtain ⟨t, ht⟩ := ih u
        exact ⟨t, by simp only [List.cons_append, evs, ht]⟩
  obtain ⟨t, ht⟩ := key ops1 {}
  exact ⟨t.reverse, by unfold hist; rw [ht, List.reverse_append]⟩

/-- (helper: the composition with the model, before the model theorems are applied) over any call list with
arguments in range the generated code terminates; the block the final generated `metricsAfter(ref, b)` returns is,
field by field (`toGoB`), the model's report block after the history the calls stand for, whose numbers and budgets
are non-negative; and the Go state before / after that call carries the cursor, the highest number, the `init` flag
and the log membership of the model run. -/
theorem srcReport_model (ssrc : Nat) (ops : List Op) (hok : ∀ o ∈ ops, o.ok) (hlen : ops.length < 70368744177664)
    (ref b : Int) (hb : 0 ≤ b ∧ b < 4611686018427387904) :
    ∃ g g', srcReport ssrc ops ref b = some (g, toGoB (reportAfter ssrc (hist ops) ref b), g') ∧
      NonNeg (hist ops) ∧
      g.init = (exec ssrc (hist ops)).init ∧
      g.nextSequenceNumberToReport = (exec ssrc (hist ops)).next ∧
      g.lastSequenceNumberReceived = (exec ssrc (hist ops)).last ∧
      g'.nextSequenceNumberToReport = (Rfc8888.metricsAfter (exec ssrc (hist ops)) ref b).1.next ∧
      g'.lastSequenceNumberReceived = g.lastSequenceNumberReceived := by
  obtain ⟨g, outs, m, e, r, i, s, n⟩ := run_hist ssrc ops (rfc8888_newStreamLog (ssrc : Int))
    (StreamLog.new ssrc) [] hok (FnStreamLog.newStreamLog_src_eq_model ssrc)
    (FnStreamLog.newStreamLog_inv _ _ hlen) (Int.le_refl 0) rfl trivial
  simp only [List.append_nil] at s n
  have s' : strip m = exec ssrc (hist ops) := s
  obtain ⟨g', e', r', _⟩ := FnStreamLog.metricsAfter_chain r i ref b hb _ (Nat.le_refl _)
  have hsm := strip_metricsAfter m ref b
  rw [s'] at hsm
  have hblk : (Rfc8888.metricsAfter m ref b).2 = reportAfter ssrc (hist ops) ref b := by
    unfold reportAfter; rw [hsm]
  have hnx : (Rfc8888.metricsAfter m ref b).1.next = (Rfc8888.metricsAfter (exec ssrc (hist ops)) ref b).1.next := by
    rw [hsm]; rfl
  have hla : (Rfc8888.metricsAfter m ref b).1.last = (Rfc8888.metricsAfter (exec ssrc (hist ops)) ref b).1.last := by
    rw [hsm]; rfl
  have hlast : (Rfc8888.metricsAfter (exec ssrc (hist ops)) ref b).1.last = (exec ssrc (hist ops)).last := by
    by_cases he : (exec ssrc (hist ops)).log = []
    · rw [Rfc8888.metricsAfter_empty _ ref b he]
    · rw [Rfc8888.metricsAfter_eq _ ref b he]; simp only [Rfc8888.truncate_last]
  have f1 : g.init = (exec ssrc (hist ops)).init := by rw [r.init, ← s']; rfl
  have f2 : g.nextSequenceNumberToReport = (exec ssrc (hist ops)).next := by rw [r.next, ← s']; rfl
  have f3 : g.lastSequenceNumberReceived = (exec ssrc (hist ops)).last := by rw [r.last, ← s']; rfl
  refine ⟨g, g', ?_, n, f1, f2, f3, by rw [r'.next, hnx], by rw [r'.last, hla, hlast, f3]⟩
  unfold srcReport
  simp only [e, e', hblk]

theorem toGoM_mkMetric (ref : Int) (o : Option Entry) : toGoM (mkMetric ref o) = specMetric ref o := by
  cases o with
  | none => rfl
  | some e => simp only [mkMetric, toGoM, specMetric, Rfc8888.ato_encoding]

theorem goReportedAs_toGoB (B : Block) (s n : Int) :
    goReportedAs (toGoB B) s n = (reportedAs B s n).map toGoM := by
  unfold goReportedAs reportedAs toGoB
  split
  · simp only [List.getElem?_map]
  · rfl

theorem goBegin_eq (g : S_rfc8888_streamLog) (l : StreamLog) (b : Int)
    (h1 : g.nextSequenceNumberToReport = l.next) (h2 : g.lastSequenceNumberReceived = l.last) :
    goBegin g b = rangeBegin l b := by
  unfold goBegin rangeBegin; rw [h1, h2]

/-! ## ★ the clauses of C08 that the per-stream log carries, on the generated code -/

/-- ★ C08 clause "a contiguous range ending at the highest sequence number received" (T1 `block_range`), on the
code: after any call list containing an `add`, the block the generated `metricsAfter(ref, b)` returns carries the
stream's SSRC, has exactly `min(last − next + 1, b)` metric blocks (`next`/`last`: the Go fields
`nextSequenceNumberToReport`/`lastSequenceNumberReceived` before the call), stands for the contiguous numbers
`goBegin … last` with `BeginSequence = uint16(goBegin)` — the first not-yet-reported number, or `last − b + 1` when
the budget is smaller —, its `j`-th metric block is the prescribed description (`specMetric`) of the `j`-th number of
that range, and the range ends at a number that did arrive. -/
theorem block_range_src (ssrc : Nat) (ops : List Op) (hok : ∀ o ∈ ops, o.ok) (hlen : ops.length < 70368744177664)
    (hadd : hasAdd ops) (ref b : Int) (hb : 0 ≤ b ∧ b < 4611686018427387904) :
    ∃ g blk g', srcReport ssrc ops ref b = some (g, blk, g') ∧
      let len := min (g.lastSequenceNumberReceived - g.nextSequenceNumberToReport + 1) b
      blk.MediaSSRC = (ssrc : Int) ∧ (blk.MetricBlocks.length : Int) = len ∧
      g.lastSequenceNumberReceived + 1 - len = goBegin g b ∧
      blk.BeginSequence = u16 (goBegin g b) ∧
      (∀ j : Nat, (j : Int) < len →
        blk.MetricBlocks[j]? = some (specMetric ref (firstArrival (hist ops) (goBegin g b + j)))) ∧
      (g.nextSequenceNumberToReport ≤ g.lastSequenceNumberReceived →
        firstArrival (hist ops) g.lastSequenceNumberReceived ≠ none) := by
  obtain ⟨g, g', e, hn, f1, f2, f3, _, _⟩ := srcReport_model ssrc ops hok hlen ref b hb
  have hi := hist_init ssrc ops hadd
  have hI := Rfc8888.inv_exec ssrc (hist ops) hn
  obtain ⟨c1, c2, c3, c4, c5, c6⟩ := Rfc8888.block_range (exec ssrc (hist ops)) ref b hI hi hb.1
  have hfirst := (Rfc8888.exec_first ssrc (hist ops)).2.1
  have hgb := goBegin_eq g _ b f2 f3
  have hssrc : (exec ssrc (hist ops)).ssrc = ssrc := by
    have : ∀ h : List Ev, (exec ssrc h).ssrc = ssrc := by
      intro h
      induction h with
      | nil => rfl
      | cons ev h ih =>
        cases ev with
        | add ts u ecn => simp only [exec, Rfc8888.addU_ssrc, ih]
        | report r bb =>
          simp only [exec]
          by_cases he : (exec ssrc h).log = []
          · rw [Rfc8888.metricsAfter_empty _ r bb he]; exact ih
          · rw [Rfc8888.metricsAfter_eq _ r bb he]; simp only [Rfc8888.truncate_ssrc]; exact ih
    exact this _
  refine ⟨g, _, g', e, ?_⟩
  simp only [f2, f3, hgb]
  refine ⟨?_, ?_, c3, ?_, ?_, ?_⟩
  · show ((reportAfter ssrc (hist ops) ref b).ssrc : Int) = ssrc
    unfold reportAfter; rw [c1, hssrc]
  · show (((reportAfter ssrc (hist ops) ref b).metrics.map toGoM).length : Int) = _
    rw [List.length_map]; exact c2
  · show ((reportAfter ssrc (hist ops) ref b).begin : Int) = _
    unfold reportAfter; rw [c4]; exact FnStreamLog.u16_cast _
  · intro j hj
    show ((reportAfter ssrc (hist ops) ref b).metrics.map toGoM)[j]? = _
    have := c5 j hj
    unfold reportAfter
    rw [List.getElem?_map, this, Option.map_some, toGoM_mkMetric,
      hfirst _ (by unfold rangeBegin; omega)]
  · intro hle
    have := c6 hle
    rwa [hfirst _ hle] at this

/-- ★ C08 clause "a packet is marked received exactly if it arrived (and has not yet been acknowledged …), with an
arrival-time offset … of the first copy" (T2 `received_iff`), on the code: the block the generated
`metricsAfter(ref, b)` returns after any call list lists exactly the numbers `goBegin … last`, none of them
acknowledged yet (`next ≤ goBegin`), and describes number `n` by `specMetric ref (firstArrival (hist ops) n)`:
received iff a copy of `n` arrived, with the ECN mark and the arrival time offset of the FIRST copy — a duplicate
does not replace them — and a number never received is reported as not received. -/
theorem received_iff_src (ssrc : Nat) (ops : List Op) (hok : ∀ o ∈ ops, o.ok) (hlen : ops.length < 70368744177664)
    (hadd : hasAdd ops) (ref b : Int) (hb : 0 ≤ b ∧ b < 4611686018427387904) :
    ∃ g blk g', srcReport ssrc ops ref b = some (g, blk, g') ∧
      g.nextSequenceNumberToReport ≤ goBegin g b ∧
      ∀ n : Int, goReportedAs blk (goBegin g b) n =
        if goBegin g b ≤ n ∧ n ≤ g.lastSequenceNumberReceived
        then some (specMetric ref (firstArrival (hist ops) n)) else none := by
  obtain ⟨g, g', e, hn, f1, f2, f3, _, _⟩ := srcReport_model ssrc ops hok hlen ref b hb
  have hi := hist_init ssrc ops hadd
  have hgb := goBegin_eq g _ b f2 f3
  refine ⟨g, _, g', e, by rw [f2, hgb]; exact (Rfc8888.received_iff ssrc _ hn ref b hb.1 hi 0).1, fun n => ?_⟩
  rw [goReportedAs_toGoB, hgb, f3, (Rfc8888.received_iff ssrc _ hn ref b hb.1 hi n).2]
  split
  · rw [Option.map_some, toGoM_mkMetric]
  · rfl

/-- T2 on the code, read off for one metric block: received ⇔ some copy arrived; ECN and offset are those of the
first copy, the offset being `⌊1024·(ref − arrival)⌋` with the two saturation codes (`atoSpec`). -/
theorem received_iff_first_src (ssrc : Nat) (ops : List Op) (hok : ∀ o ∈ ops, o.ok)
    (hlen : ops.length < 70368744177664) (hadd : hasAdd ops) (ref b : Int) (hb : 0 ≤ b ∧ b < 4611686018427387904) :
    ∃ g blk g', srcReport ssrc ops ref b = some (g, blk, g') ∧
      ∀ (n : Int) (mb : S_rtcp_CCFeedbackMetricBlock), goReportedAs blk (goBegin g b) n = some mb →
        (mb.Received = true ↔ firstArrival (hist ops) n ≠ none) ∧
        (firstArrival (hist ops) n = none → mb.ECN = 0 ∧ mb.ArrivalTimeOffset = 0) ∧
        (∀ e, firstArrival (hist ops) n = some e →
          mb.ECN = (e.ecn : Int) ∧ mb.ArrivalTimeOffset = (atoSpec ref e.arrival : Int)) := by
  obtain ⟨g, blk, g', e, _, h⟩ := received_iff_src ssrc ops hok hlen hadd ref b hb
  refine ⟨g, blk, g', e, fun n mb hm => ?_⟩
  rw [h n] at hm
  split at hm
  · cases hf : firstArrival (hist ops) n with
    | none => rw [hf] at hm; cases hm; simp [specMetric]
    | some e => rw [hf] at hm; cases hm; simp [specMetric]
  · cases hm

/-- ★ C08 clause "a packet once reported received is never later reported lost" (T3 `never_unreceive`), on the
code: if the generated `metricsAfter(ref1, b1)` after the calls `ops1` reports `n` received, then the generated
`metricsAfter(ref2, b2)` after any longer call list `ops1 ++ ops2` (which may contain that first report), whenever
it still lists `n`, reports it received with the record of the same first copy. -/
theorem never_unreceive_src (ssrc : Nat) (ops1 ops2 : List Op) (hok : ∀ o ∈ ops1 ++ ops2, o.ok)
    (hlen : (ops1 ++ ops2).length < 70368744177664) (hadd : hasAdd ops1)
    (ref1 b1 ref2 b2 : Int) (hb1 : 0 ≤ b1 ∧ b1 < 4611686018427387904) (hb2 : 0 ≤ b2 ∧ b2 < 4611686018427387904) :
    ∃ g1 blk1 g1' g2 blk2 g2', srcReport ssrc ops1 ref1 b1 = some (g1, blk1, g1') ∧
      srcReport ssrc (ops1 ++ ops2) ref2 b2 = some (g2, blk2, g2') ∧
      ∀ (n : Int) (m1 m2 : S_rtcp_CCFeedbackMetricBlock),
        goReportedAs blk1 (goBegin g1 b1) n = some m1 → m1.Received = true →
        goReportedAs blk2 (goBegin g2 b2) n = some m2 →
        m2.Received = true ∧ ∃ e, firstArrival (hist ops1) n = some e ∧ m2 = specMetric ref2 (some e) := by
  have hok1 : ∀ o ∈ ops1, o.ok := fun o ho => hok o (by simp [ho])
  have hlen1 : ops1.length < 70368744177664 := by simp only [List.length_append] at hlen; omega
  have hadd2 : hasAdd (ops1 ++ ops2) := by
    obtain ⟨a, b, c, h⟩ := hadd; exact ⟨a, b, c, by simp [h]⟩
  obtain ⟨g1, g1', e1, hn1, p1, p2, p3, _, _⟩ := srcReport_model ssrc ops1 hok1 hlen1 ref1 b1 hb1
  obtain ⟨g2, g2', e2, hn2, q1, q2, q3, _, _⟩ := srcReport_model ssrc (ops1 ++ ops2) hok hlen ref2 b2 hb2
  obtain ⟨h2, hh⟩ := hist_append ops1 ops2
  have hi1 := hist_init ssrc ops1 hadd
  refine ⟨g1, _, g1', g2, _, g2', e1, e2, fun n m1 m2 r1 hrec r2 => ?_⟩
  rw [goReportedAs_toGoB, goBegin_eq g1 _ b1 p2 p3] at r1
  rw [goReportedAs_toGoB, goBegin_eq g2 _ b2 q2 q3] at r2
  rw [hh] at r2 hn2
  cases hr1 : reportedAs (reportAfter ssrc (hist ops1) ref1 b1) (rangeBegin (exec ssrc (hist ops1)) b1) n with
  | none => rw [hr1] at r1; cases r1
  | some x1 =>
    rw [hr1] at r1
    simp only [Option.map_some, Option.some.injEq] at r1
    cases hr2 : reportedAs (reportAfter ssrc (h2 ++ hist ops1) ref2 b2)
        (rangeBegin (exec ssrc (h2 ++ hist ops1)) b2) n with
    | none => rw [hr2] at r2; cases r2
    | some x2 =>
      rw [hr2] at r2
      simp only [Option.map_some, Option.some.injEq] at r2
      have hx1 : x1.received = true := by rw [← r1] at hrec; exact hrec
      obtain ⟨c1, e, c2, c3⟩ := Rfc8888.never_unreceive ssrc (hist ops1) h2 hn2 ref1 b1 ref2 b2 hb1.1 hb2.1 hi1
        n x1 x2 hr1 hx1 hr2
      refine ⟨by rw [← r2]; exact c1, e, c2, ?_⟩
      rw [← r2, c3, toGoM_mkMetric]

/-- T3 on the code, the mechanism: the generated `metricsAfter` never moves the report cursor
`nextSequenceNumberToReport` backwards, and leaves `lastSequenceNumberReceived` alone. -/
theorem cursor_monotone_src (ssrc : Nat) (ops : List Op) (hok : ∀ o ∈ ops, o.ok) (hlen : ops.length < 70368744177664)
    (ref b : Int) (hb : 0 ≤ b ∧ b < 4611686018427387904) :
    ∃ g blk g', srcReport ssrc ops ref b = some (g, blk, g') ∧
      g.nextSequenceNumberToReport ≤ g'.nextSequenceNumberToReport ∧
      g'.lastSequenceNumberReceived = g.lastSequenceNumberReceived := by
  obtain ⟨g, g', e, hn, f1, f2, f3, f4, f5⟩ := srcReport_model ssrc ops hok hlen ref b hb
  exact ⟨g, _, g', e, by rw [f2, f4]; exact Rfc8888.cursor_monotone _ ref b, f5⟩

/-- ★ C08 clause "every packet that arrived for the first time since the last report appears in the next one unless
pushed out by the size limit (newest kept)" (T4 `next_report_complete`), on the code: every number whose first copy
has arrived and that is not yet acknowledged (`next ≤ n`) appears, marked received with the ECN mark and the arrival
time offset of its first copy, in the block the generated `metricsAfter(ref, b)` returns — unless it is older than
the newest `b` numbers. -/
theorem next_report_complete_src (ssrc : Nat) (ops : List Op) (hok : ∀ o ∈ ops, o.ok)
    (hlen : ops.length < 70368744177664) (hadd : hasAdd ops) (ref b : Int) (hb : 0 ≤ b ∧ b < 4611686018427387904) :
    ∃ g blk g', srcReport ssrc ops ref b = some (g, blk, g') ∧
      ∀ (n : Int) (e : Entry), firstArrival (hist ops) n = some e → g.nextSequenceNumberToReport ≤ n →
        g.lastSequenceNumberReceived - b < n →
        goReportedAs blk (goBegin g b) n =
          some { Received := true, ECN := (e.ecn : Int), ArrivalTimeOffset := (atoSpec ref e.arrival : Int) } := by
  obtain ⟨g, g', e, hn, f1, f2, f3, _, _⟩ := srcReport_model ssrc ops hok hlen ref b hb
  have hi := hist_init ssrc ops hadd
  refine ⟨g, _, g', e, fun n en hf hc hnew => ?_⟩
  rw [goReportedAs_toGoB, goBegin_eq g _ b f2 f3,
    Rfc8888.next_report_complete ssrc _ hn ref b hb.1 hi n en hf (by rw [← f2]; exact hc) (by rw [← f3]; exact hnew)]
  simp only [Option.map_some, toGoM, Rfc8888.ato_encoding]

/-- (helper, on the model: `ack_bounds`/`ack_prefix`/`ack_stop` of Proofs/Rfc8888 read through `metricsAfter_eq`)
the new cursor is the first number of the listed range that is not in the log, or `last + 1`. -/
theorem cursor_first_gap (l : StreamLog) (ref b : Int) (hI : Rfc8888.Inv l) (hi : l.init = true) (hb : 0 ≤ b) :
    rangeBegin l b ≤ (Rfc8888.metricsAfter l ref b).1.next ∧ (Rfc8888.metricsAfter l ref b).1.next ≤ l.last + 1 ∧
    (∀ j, rangeBegin l b ≤ j → j < (Rfc8888.metricsAfter l ref b).1.next → lookup l.log j ≠ none) ∧
    ((Rfc8888.metricsAfter l ref b).1.next ≤ l.last → lookup l.log (Rfc8888.metricsAfter l ref b).1.next = none) := by
  have hord := hI.ord hi
  by_cases he : l.log = []
  · rw [Rfc8888.metricsAfter_empty l ref b he]
    simp only []
    have hnl : ¬ l.next ≤ l.last := by
      intro h; have := hI.top hi h; rw [he] at this; exact this rfl
    have hr : rangeBegin l b = l.next := by unfold rangeBegin; omega
    exact ⟨by omega, hord, fun j h1 h2 => by omega, fun h => absurd h hnl⟩
  · rw [Rfc8888.metricsAfter_eq l ref b he]
    simp only [Rfc8888.truncate_next, Rfc8888.truncate_last]
    have hrb : l.next ≤ rangeBegin l b ∧ rangeBegin l b ≤ l.last + 1 := by unfold rangeBegin; omega
    have hbd := Rfc8888.ack_bounds (Rfc8888.truncate l b).log (l.last - rangeBegin l b + 1).toNat (rangeBegin l b)
    refine ⟨hbd.1, by omega, fun j h1 h2 => ?_, fun h => ?_⟩
    · have := Rfc8888.ack_prefix _ _ _ j h1 h2
      rwa [Rfc8888.truncate_lookup, if_neg (by omega)] at this
    · have := Rfc8888.ack_stop (Rfc8888.truncate l b).log (l.last - rangeBegin l b + 1).toNat (rangeBegin l b)
        (by omega)
      rwa [Rfc8888.truncate_lookup, if_neg (by omega)] at this

/-- ★ C08 clause "(… not yet acknowledged in a gap-free prefix of an earlier report)": packets are consumed exactly
up to the first gap, on the code.  The generated `metricsAfter(ref, b)` moves the cursor
`nextSequenceNumberToReport` to a number `c` with `goBegin ≤ c ≤ last + 1`; every number of the listed range below
`c` did arrive (so was listed as received in this very block: `received_iff_src`), and `c` itself, when still in the
range, never arrived: the cursor stops at the first gap.  (`cursor_passes_only` of Props/C08 is the first half;
the second half composes with the model lemma `ack_stop`.) -/
theorem cursor_stops_at_first_gap_src (ssrc : Nat) (ops : List Op) (hok : ∀ o ∈ ops, o.ok)
    (hlen : ops.length < 70368744177664) (hadd : hasAdd ops) (ref b : Int) (hb : 0 ≤ b ∧ b < 4611686018427387904) :
    ∃ g blk g', srcReport ssrc ops ref b = some (g, blk, g') ∧
      goBegin g b ≤ g'.nextSequenceNumberToReport ∧
      g'.nextSequenceNumberToReport ≤ g.lastSequenceNumberReceived + 1 ∧
      (∀ n, goBegin g b ≤ n → n < g'.nextSequenceNumberToReport → firstArrival (hist ops) n ≠ none) ∧
      (g'.nextSequenceNumberToReport ≤ g.lastSequenceNumberReceived →
        firstArrival (hist ops) g'.nextSequenceNumberToReport = none) := by
  obtain ⟨g, g', e, hn, f1, f2, f3, f4, f5⟩ := srcReport_model ssrc ops hok hlen ref b hb
  have hi := hist_init ssrc ops hadd
  have hI := Rfc8888.inv_exec ssrc (hist ops) hn
  obtain ⟨c1, c2, c3, c4⟩ := cursor_first_gap (exec ssrc (hist ops)) ref b hI hi hb.1
  have hfirst := (Rfc8888.exec_first ssrc (hist ops)).2.1
  have hgb := goBegin_eq g _ b f2 f3
  have hge : (exec ssrc (hist ops)).next ≤ rangeBegin (exec ssrc (hist ops)) b := by unfold rangeBegin; omega
  refine ⟨g, _, g', e, by rw [hgb, f4]; exact c1, by rw [f4, f3]; exact c2, fun n h1 h2 => ?_, fun h => ?_⟩
  · rw [hgb] at h1
    rw [f4] at h2
    have := c3 n h1 h2
    rwa [hfirst n (by omega)] at this
  · rw [f4, f3] at h
    rw [f4, ← hfirst _ (by omega)]
    exact c4 h

/-- T4 on the code, the other half (`cursor_passes_only`): the generated `metricsAfter` moves the cursor past a number
only if that number arrived and is listed in this very block, or if the size limit pushed it out (`n ≤ last − b`). -/
theorem cursor_passes_only_src (ssrc : Nat) (ops : List Op) (hok : ∀ o ∈ ops, o.ok)
    (hlen : ops.length < 70368744177664) (ref b : Int) (hb : 0 ≤ b ∧ b < 4611686018427387904) :
    ∃ g blk g', srcReport ssrc ops ref b = some (g, blk, g') ∧
      ∀ n, g.nextSequenceNumberToReport ≤ n → n < g'.nextSequenceNumberToReport →
        n ≤ g.lastSequenceNumberReceived - b ∨ (goBegin g b ≤ n ∧ firstArrival (hist ops) n ≠ none) := by
  obtain ⟨g, g', e, hn, f1, f2, f3, f4, f5⟩ := srcReport_model ssrc ops hok hlen ref b hb
  have hfirst := (Rfc8888.exec_first ssrc (hist ops)).2.1
  refine ⟨g, _, g', e, fun n h1 h2 => ?_⟩
  rw [f2] at h1
  rw [f4] at h2
  rcases Rfc8888.cursor_passes_only (exec ssrc (hist ops)) ref b n h1 h2 with h | ⟨h, h'⟩
  · left; rw [f3]; exact h
  · right
    rw [goBegin_eq g _ b f2 f3]
    rw [hfirst n h1] at h'
    exact ⟨h, h'⟩

/-- ★ C08 clause "the marshalled report never exceeds the configured maximum size", the per-stream part (the lemma
`metricsAfter_len_le` under T5 `size_bound`), on the code: the generated `metricsAfter(ref, b)` never returns more
than `b` metric blocks, and for an even budget (what the fixed `BuildReport` passes: `budget_nonneg_even`) not more
than `b` after pion/rtcp's padding of the count to an even number either. -/
theorem block_count_le_budget_src (ssrc : Nat) (ops : List Op) (hok : ∀ o ∈ ops, o.ok)
    (hlen : ops.length < 70368744177664) (ref b : Int) (hb : 0 ≤ b ∧ b < 4611686018427387904) :
    ∃ g blk g', srcReport ssrc ops ref b = some (g, blk, g') ∧
      (blk.MetricBlocks.length : Int) ≤ b ∧
      (b % 2 = 0 → ((blk.MetricBlocks.length + blk.MetricBlocks.length % 2 : Nat) : Int) ≤ b) := by
  obtain ⟨g, g', e, hn, _⟩ := srcReport_model ssrc ops hok hlen ref b hb
  have h := Rfc8888.metricsAfter_len_le (exec ssrc (hist ops)) ref b hb.1
  have hl : ((toGoB (reportAfter ssrc (hist ops) ref b)).MetricBlocks.length : Int)
      = ((Rfc8888.metricsAfter (exec ssrc (hist ops)) ref b).2.metrics.length : Int) := by
    show (((reportAfter ssrc (hist ops) ref b).metrics.map toGoM).length : Int) = _
    rw [List.length_map]; rfl
  refine ⟨g, _, g', e, by rw [hl]; exact h, fun hev => ?_⟩
  rw [← hl] at h
  omega

/-- ★ C08 clause "arrival-time offset equal to floor(1024 × (report time − arrival time)) seconds, using 0x1FFE for
offsets too large and 0x1FFF for arrivals after the report time" (T6 `ato_encoding`), on the code: the generated
`getArrivalTimeOffset` — `uint16(base.Sub(arrival).Seconds() * 1024.0)` in binary64 after the saturation test —
equals the exact encoding `atoSpec` for ALL pairs of times. -/
theorem ato_encoding_src (ref arr : Int) : rfc8888_getArrivalTimeOffset ref arr = (atoSpec ref arr : Int) := by
  rw [FnRfc8888.getATO_src_eq_model, Rfc8888.ato_encoding]

/-- T6 on the code, spelled out in nanoseconds: units of 1/1024 s, and the two saturation codes. -/
theorem ato_encoding_cases_src (ref arr : Int) :
    (ref < arr → rfc8888_getArrivalTimeOffset ref arr = 0x1FFF) ∧
    (arr ≤ ref → 1024 * (ref - arr) < 8190 * 1000000000 →
      rfc8888_getArrivalTimeOffset ref arr = 1024 * (ref - arr) / 1000000000) ∧
    (arr ≤ ref → 8190 * 1000000000 ≤ 1024 * (ref - arr) → rfc8888_getArrivalTimeOffset ref arr = 0x1FFE) := by
  obtain ⟨h1, h2, h3⟩ := Rfc8888.ato_encoding_cases ref arr
  rw [FnRfc8888.getATO_src_eq_model]
  exact ⟨fun h => by rw [h1 h]; rfl, fun h h' => h2 h h', fun h h' => by rw [h3 h h']; rfl⟩

/-! ## non-vacuity: the generated code evaluated on a concrete run

`demo1`: first packet 65534 (ECN 1, at 1 s), then 1 (the 2^16 wrap: unwrapped 65537; 65535 and 0 missing), then a
duplicate of 65534 (later, other ECN).  `demo2`: a report at 2 s (budget 10), then the late packet 0 (unwrapped
65536) at 2.1 s.  The final call is `metricsAfter(3 s, b)`. -/

def demo1 : List Op := [.add 1000000000 65534 1, .add 1250000000 1 0, .add 1500000000 65534 3]
def demo2 : List Op := [.report 2000000000 10, .add 2100000000 0 0]

theorem demo_ok : ∀ o ∈ demo1 ++ demo2, o.ok := by
  intro o ho
  simp only [demo1, demo2, List.cons_append, List.nil_append, List.mem_cons, List.not_mem_nil, or_false] at ho
  rcases ho with rfl | rfl | rfl | rfl | rfl <;> simp [Op.ok]

theorem demo1_ok : ∀ o ∈ demo1, o.ok := fun o ho => demo_ok o (by simp [ho])

theorem demo1_hasAdd : hasAdd demo1 := ⟨1000000000, 65534, 1, List.Mem.head _⟩

theorem demo_hasAdd : hasAdd (demo1 ++ demo2) := ⟨1000000000, 65534, 1, List.Mem.head _⟩

/-- the hypotheses of the run theorems hold on `demo1 ++ demo2`, and the history it stands for (numbers from the
generated `Unwrap`) has first arrivals 65534 ↦ (1 s, ECN 1) — the first copy —, 65535 ↦ none, 65536 ↦ 2.1 s,
65537 ↦ 1.25 s. -/
example : (∀ o ∈ demo1 ++ demo2, o.ok) ∧ (demo1 ++ demo2).length < 70368744177664 ∧ hasAdd (demo1 ++ demo2) ∧
    firstArrival (hist (demo1 ++ demo2)) 65534 = some ⟨1000000000, 1⟩ ∧
    firstArrival (hist (demo1 ++ demo2)) 65535 = none ∧
    firstArrival (hist (demo1 ++ demo2)) 65536 = some ⟨2100000000, 0⟩ ∧
    firstArrival (hist (demo1 ++ demo2)) 65537 = some ⟨1250000000, 0⟩ :=
  ⟨demo_ok, by decide, demo_hasAdd, by decide +kernel, by decide +kernel, by decide +kernel, by decide +kernel⟩

/-- the block the generated `metricsAfter(3 s, 10)` returns after `demo1 ++ demo2`, and the cursor / highest number
before and the cursor after the call. -/
def demoOut (ops : List Op) (ref b : Int) : Option (Int × Int × S_rtcp_CCFeedbackReportBlock × Int) :=
  (srcReport 7 ops ref b).map fun r =>
    (r.1.nextSequenceNumberToReport, r.1.lastSequenceNumberReceived, r.2.1, r.2.2.nextSequenceNumberToReport)

/-- non-vacuity of `srcReport_model` / `block_range_src` / `received_iff_src` / `received_iff_first_src`: after
`demo1` the report lists 65534 … 65537 (BeginSequence 65534) as received (ECN 1 and offset 1024 = 1 s of the FIRST
copy, not the duplicate's ECN 3 / 0.5 s), not received, not received, received (0.75 s → 768). -/
example : demoOut demo1 2000000000 10 = some (65534, 65537,
    { MediaSSRC := 7, BeginSequence := 65534,
      MetricBlocks := [{ Received := true, ECN := 1, ArrivalTimeOffset := 1024 }, { }, { },
                       { Received := true, ECN := 0, ArrivalTimeOffset := 768 }] }, 65535) := by
  decide +kernel

/-- the same block is what the theorems prescribe: `specMetric` of the first arrivals, for the four numbers of the
range, `none` outside. -/
example : (srcReport 7 demo1 2000000000 10).map (fun r =>
      [65533, 65534, 65535, 65536, 65537, 65538].map (goReportedAs r.2.1 (goBegin r.1 10)))
    = some ([65533, 65534, 65535, 65536, 65537, 65538].map fun n =>
        if 65534 ≤ n ∧ n ≤ 65537 then some (specMetric 2000000000 (firstArrival (hist demo1) n)) else none) := by
  decide +kernel

/-- non-vacuity of `never_unreceive_src`, `next_report_complete_src`, `cursor_monotone_src`: 65537 was reported
received by the report after `demo1`; the report at 3 s after `demo1 ++ demo2` (which contains that report) lists
65535 … 65537: still missing, the late packet 0 (0.9 s → 921), and 65537 again received with its first arrival
(1.75 s → 1792); the cursor went 65534 → 65535 and stays there. -/
example : demoOut (demo1 ++ demo2) 3000000000 10 = some (65535, 65537,
    { MediaSSRC := 7, BeginSequence := 65535,
      MetricBlocks := [{ }, { Received := true, ECN := 0, ArrivalTimeOffset := 921 },
                       { Received := true, ECN := 0, ArrivalTimeOffset := 1792 }] }, 65535) := by
  decide +kernel

/-- non-vacuity of `cursor_stops_at_first_gap_src` / `cursor_passes_only_src`: after `demo1` the cursor moves from
65534 over the received 65534 and stops at 65535, which never arrived. -/
example : (demoOut demo1 2000000000 10).map (fun r => (r.1, r.2.2.2)) = some (65534, 65535) ∧
    firstArrival (hist demo1) 65534 ≠ none ∧ firstArrival (hist demo1) 65535 = none := by
  refine ⟨by decide +kernel, by decide +kernel, by decide +kernel⟩

/-- non-vacuity of `block_count_le_budget_src` and of the budget branches of `block_range_src` /
`cursor_passes_only_src`: with budget 2 the block keeps the newest two numbers 65536, 65537
(`BeginSequence = uint16 65536 = 0`), and the cursor passes the missing 65535 because the size limit pushed it out
(65535 ≤ last − 2). -/
example : demoOut (demo1 ++ demo2) 3000000000 2 = some (65535, 65537,
    { MediaSSRC := 7, BeginSequence := 0,
      MetricBlocks := [{ Received := true, ECN := 0, ArrivalTimeOffset := 921 },
                       { Received := true, ECN := 0, ArrivalTimeOffset := 1792 }] }, 65538) := by
  decide +kernel

/-- non-vacuity of `run_block_is_srcReport`: the block the report inside `demo1 ++ demo2` returned. -/
example : (goRun (rfc8888_newStreamLog (7 : Nat)) (demo1 ++ demo2)).map (·.2)
    = (srcReport 7 demo1 2000000000 10).map (fun r => [r.2.1]) := by
  decide +kernel

/-- the run theorems instantiated on the demo (their hypotheses are the facts above). -/
example := block_range_src 7 (demo1 ++ demo2) demo_ok (by decide) demo_hasAdd 3000000000 10 (by decide)
example := received_iff_src 7 (demo1 ++ demo2) demo_ok (by decide) demo_hasAdd 3000000000 10 (by decide)
example := received_iff_first_src 7 (demo1 ++ demo2) demo_ok (by decide) demo_hasAdd 3000000000 10 (by decide)
example := never_unreceive_src 7 demo1 demo2 demo_ok (by decide) demo1_hasAdd 2000000000 10 3000000000 10
  (by decide) (by decide)
example := cursor_monotone_src 7 (demo1 ++ demo2) demo_ok (by decide) 3000000000 10 (by decide)
example := next_report_complete_src 7 (demo1 ++ demo2) demo_ok (by decide) demo_hasAdd 3000000000 10 (by decide)
example := cursor_stops_at_first_gap_src 7 demo1 demo1_ok (by decide) demo1_hasAdd 2000000000 10 (by decide)
example := cursor_passes_only_src 7 (demo1 ++ demo2) demo_ok (by decide) 3000000000 2 (by decide)
example := block_count_le_budget_src 7 (demo1 ++ demo2) demo_ok (by decide) 3000000000 2 (by decide)

/-- non-vacuity of `ato_encoding_src` / `ato_encoding_cases_src`: the generated `getArrivalTimeOffset` at the
boundaries of the encoding (1 s → 1024; just below / at 8190/1024 s; 65 s → 0x1FFE; an arrival after the report
time → 0x1FFF; just below / at 1/1024 s). -/
example : rfc8888_getArrivalTimeOffset 1000000000 0 = 1024 ∧ rfc8888_getArrivalTimeOffset 7998046874 0 = 8189 ∧
    rfc8888_getArrivalTimeOffset 7998046875 0 = 8190 ∧ rfc8888_getArrivalTimeOffset 65000000000 0 = 8190 ∧
    rfc8888_getArrivalTimeOffset 0 1 = 8191 ∧ rfc8888_getArrivalTimeOffset 976562 0 = 0 ∧
    rfc8888_getArrivalTimeOffset 976563 0 = 1 := by
  decide +kernel

end Interceptor.C08Src

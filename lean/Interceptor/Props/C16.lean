/-
C16 — GCC target bitrate stays finite, within bounds, and consistent.
Model: Interceptor/Model/Gcc.lean (control skeleton; every floating-point stage is an oracle, so
each theorem holds for ALL values those stages can produce, including int(NaN) and int(±Inf)).
Only property theorems live here.
-/
import Interceptor.Model.Gcc
import Interceptor.Model.RateCalc
set_option linter.unusedVariables false
namespace Interceptor.Gcc

/-- `clampInt` lands in `[lo, hi]` whenever `lo ≤ hi`, whatever it is given. -/
theorem clampInt_bounds (b lo hi : Int) (h : lo ≤ hi) : lo ≤ clampInt b lo hi ∧ clampInt b lo hi ≤ hi := by
  unfold clampInt; omega

/-- what `onDelayUpdate` does, in one equation per field. -/
theorem publish_spec (fixed : Bool) (c : Cfg) (st : St) (wanted : Int) (u : Usage) (s : State) :
    (publish fixed c st wanted u s).latest = combine fixed c wanted (lossEstimate st.lossBitrate wanted) ∧
    (publish fixed c st wanted u s).lossBitrate = lossEstimate st.lossBitrate wanted ∧
    (publish fixed c st wanted u s).pacer = st.pacer ++
      (if combine fixed c wanted (lossEstimate st.lossBitrate wanted) ≠ st.latest
        then [combine fixed c wanted (lossEstimate st.lossBitrate wanted)] else []) ∧
    (publish fixed c st wanted u s).cbs = st.cbs ++
      (if combine fixed c wanted (lossEstimate st.lossBitrate wanted) ≠ st.latest
        then [combine fixed c wanted (lossEstimate st.lossBitrate wanted)] else []) ∧
    (publish fixed c st wanted u s).closed = st.closed ∧
    (publish fixed c st wanted u s).receivers = st.receivers ∧
    (publish fixed c st wanted u s).stats = some ⟨lossEstimate st.lossBitrate wanted, wanted, u, s⟩ := by
  unfold publish
  simp only []
  generalize lossEstimate st.lossBitrate wanted = lb
  generalize combine fixed c wanted lb = b
  by_cases h : b = st.latest <;> simp [h]

/-- case analysis of `rateController.onDelayStats` + `onDelayUpdate`. -/
theorem exec_delay_cases (fixed : Bool) (c : Cfg) (st : St) (u : Usage) (raw : Int) (P : St → Prop)
    (hst : P st) (hinit : P { st with rcInit := true })
    (hpub : State.increase.transition u ≠ .hold →
      P (publish fixed c { st with rcTarget := clampInt raw c.min c.max } (clampInt raw c.min c.max) u
        (State.increase.transition u))) :
    P (execG fixed c st (.delayStats u raw)) := by
  simp only [execG]
  split
  · exact hst
  · split
    · exact hinit
    · split
      · exact hst
      · rename_i hh; exact hpub hh

/-- case analysis of `updateLossEstimate`. -/
theorem exec_loss_cases (fixed : Bool) (c : Cfg) (st : St) (raw : Option Int) (P : St → Prop)
    (hst : P st) (hupd : ∀ r, P { st with lossBitrate := clampInt r lossMin lossMax }) :
    P (execG fixed c st (.lossUpdate raw)) := by
  cases raw with
  | none => exact hst
  | some r => simp only [execG]; split; exact hst; exact hupd r

/-- one step keeps the published target within the configured bounds (fixed code). -/
theorem exec_in_bounds (c : Cfg) (hc : c.min ≤ c.max) (st : St) (e : Ev)
    (h : c.min ≤ st.latest ∧ st.latest ≤ c.max) :
    c.min ≤ (exec c st e).latest ∧ (exec c st e).latest ≤ c.max := by
  cases e with
  | lossUpdate raw => exact exec_loss_cases true c st raw (fun s => c.min ≤ s.latest ∧ s.latest ≤ c.max) h (fun _ => h)
  | close => exact h
  | delayStats u raw =>
    apply exec_delay_cases true c st u raw (fun s => c.min ≤ s.latest ∧ s.latest ≤ c.max) h h
    intro _hh
    have hp := (publish_spec true c { st with rcTarget := clampInt raw c.min c.max } (clampInt raw c.min c.max) u
      (State.increase.transition u)).1
    rw [hp]
    exact clampInt_bounds _ _ _ hc

/-- ★ T1 `target_in_bounds`: for every configuration `0 < min ≤ init ≤ max`, every sequence of
events and every oracle behaviour (any `raw` values, any usages), the published target — what
`GetTargetBitrate` returns — is within `[min, max]` and positive, in every reachable state. -/
theorem target_in_bounds (c : Cfg) (h0 : 0 < c.min) (h1 : c.min ≤ c.init) (h2 : c.init ≤ c.max)
    (evs : List Ev) :
    c.min ≤ (run c (St.init c) evs).latest ∧ (run c (St.init c) evs).latest ≤ c.max ∧
      0 < (run c (St.init c) evs).latest := by
  have key : ∀ (evs : List Ev) (st : St), (c.min ≤ st.latest ∧ st.latest ≤ c.max) →
      c.min ≤ (run c st evs).latest ∧ (run c st evs).latest ≤ c.max := by
    intro evs
    induction evs with
    | nil => intro st h; exact h
    | cons e es ih => intro st h; exact ih _ (exec_in_bounds c (by omega) st e h)
  have := key evs (St.init c) ⟨h1, h2⟩
  exact ⟨this.1, this.2, by omega⟩

/-- everything the pacer and the callback are ever told is within bounds as well. -/
theorem published_in_bounds (c : Cfg) (h1 : c.min ≤ c.init) (h2 : c.init ≤ c.max) (evs : List Ev) :
    ∀ p ∈ (run c (St.init c) evs).pacer, c.min ≤ p ∧ p ≤ c.max := by
  have key : ∀ (evs : List Ev) (st : St), (∀ p ∈ st.pacer, c.min ≤ p ∧ p ≤ c.max) →
      ∀ p ∈ (run c st evs).pacer, c.min ≤ p ∧ p ≤ c.max := by
    intro evs
    induction evs with
    | nil => intro st h; exact h
    | cons e es ih =>
      intro st h
      apply ih
      cases e with
      | lossUpdate raw =>
        exact exec_loss_cases true c st raw (fun s => ∀ p ∈ s.pacer, c.min ≤ p ∧ p ≤ c.max) h (fun _ => h)
      | close => exact h
      | delayStats u raw =>
        apply exec_delay_cases true c st u raw (fun s => ∀ p ∈ s.pacer, c.min ≤ p ∧ p ≤ c.max) h h
        intro _hh
        have hp := (publish_spec true c { st with rcTarget := clampInt raw c.min c.max } (clampInt raw c.min c.max) u
          (State.increase.transition u)).2.2.1
        rw [hp]
        intro p hp'
        simp only [List.mem_append] at hp'
        cases hp' with
        | inl hp' => exact h p hp'
        | inr hp' =>
          split at hp'
          · simp only [List.mem_singleton] at hp'
            rw [hp']; exact clampInt_bounds _ _ _ (by omega)
          · simp at hp'
  exact key evs (St.init c) (by simp [St.init])

/-- T1 on the code BEFORE the fix (`execG false`), `_partial`: the bounds hold only under the
extra hypothesis `min ≤ 100 000` (the loss estimator's own floor).  Missing: configurations
with `min > 100 000` — see `target_in_bounds_unfixed_false`. -/
theorem target_in_bounds_unfixed_partial (c : Cfg) (h0 : 0 < c.min) (h1 : c.min ≤ c.init)
    (h2 : c.init ≤ c.max) (hf : c.min ≤ 100000) (evs : List Ev) :
    c.min ≤ (runG false c (St.init c) evs).latest ∧ (runG false c (St.init c) evs).latest ≤ c.max := by
  have key : ∀ (evs : List Ev) (st : St),
      (c.min ≤ st.latest ∧ st.latest ≤ c.max ∧ c.min ≤ st.lossBitrate) →
      c.min ≤ (runG false c st evs).latest ∧ (runG false c st evs).latest ≤ c.max := by
    intro evs
    induction evs with
    | nil => intro st h; exact ⟨h.1, h.2.1⟩
    | cons e es ih =>
      intro st h
      apply ih
      cases e with
      | lossUpdate raw =>
        apply exec_loss_cases false c st raw
          (fun s => c.min ≤ s.latest ∧ s.latest ≤ c.max ∧ c.min ≤ s.lossBitrate) h
        intro r
        refine ⟨h.1, h.2.1, ?_⟩
        simp only [clampInt, lossMin, lossMax]; omega
      | close => exact h
      | delayStats u raw =>
        apply exec_delay_cases false c st u raw
          (fun s => c.min ≤ s.latest ∧ s.latest ≤ c.max ∧ c.min ≤ s.lossBitrate) h h
        intro _hh
        have hp := publish_spec false c { st with rcTarget := clampInt raw c.min c.max } (clampInt raw c.min c.max) u
          (State.increase.transition u)
        have hb := clampInt_bounds raw c.min c.max (by omega)
        generalize clampInt raw c.min c.max = w at hb hp
        have hl : ¬ st.lossBitrate ≤ 0 := by omega
        simp only [combine, lossEstimate, hl, if_false, Bool.false_eq_true] at hp
        rw [hp.1, hp.2.1]
        omega
  exact key evs (St.init c) ⟨h1, h2, h1⟩

/-- ★ F-20 `target_in_bounds_unfixed_false`: on the code before the fix the full statement is
false.  Witness (reproduced on the implementation): min 1 000 000, init 2 000 000,
max 5 000 000; heavy loss drives the loss estimate to 617 346 (≥ its own floor of 100 000); the
next delay update publishes min(delay, loss) = 617 346 < min. -/
theorem target_in_bounds_unfixed_false :
    ¬ (∀ (c : Cfg) (evs : List Ev), 0 < c.min → c.min ≤ c.init → c.init ≤ c.max →
        c.min ≤ (runG false c (St.init c) evs).latest) := by
  intro h
  have := h ⟨1000000, 5000000, 2000000⟩
    [.delayStats .normal 2000000, .lossUpdate (some 617346), .delayStats .normal 2347202]
    (by decide) (by decide) (by decide)
  revert this
  decide

/-- non-vacuity of T1 and the fix at work: the same events on the fixed code publish the minimum. -/
example : (run ⟨1000000, 5000000, 2000000⟩ (St.init ⟨1000000, 5000000, 2000000⟩)
    [.delayStats .normal 2000000, .lossUpdate (some 617346), .delayStats .normal 2347202]).latest = 1000000 := by
  decide

/-- ★ T2 `publish_consistent` (one step): the values handed to the pacer and to the callback by a
step are the same list, it is empty when the target did not change and otherwise consists of
exactly the new target — the value the getter returns afterwards.  (Callback issued iff changed.) -/
theorem publish_consistent (c : Cfg) (st : St) (e : Ev) :
    (exec c st e).pacer = st.pacer ++ (if (exec c st e).latest ≠ st.latest then [(exec c st e).latest] else []) ∧
    (exec c st e).cbs = st.cbs ++ (if (exec c st e).latest ≠ st.latest then [(exec c st e).latest] else []) := by
  cases e with
  | lossUpdate raw =>
    exact exec_loss_cases true c st raw
      (fun s => s.pacer = st.pacer ++ (if s.latest ≠ st.latest then [s.latest] else []) ∧
        s.cbs = st.cbs ++ (if s.latest ≠ st.latest then [s.latest] else [])) (by simp) (fun _ => by simp)
  | close => simp [exec, execG]
  | delayStats u raw =>
    apply exec_delay_cases true c st u raw
      (fun s => s.pacer = st.pacer ++ (if s.latest ≠ st.latest then [s.latest] else []) ∧
        s.cbs = st.cbs ++ (if s.latest ≠ st.latest then [s.latest] else [])) (by simp) (by simp)
    intro _hh
    have hp := publish_spec true c { st with rcTarget := clampInt raw c.min c.max } (clampInt raw c.min c.max) u
      (State.increase.transition u)
    rw [hp.1, hp.2.2.1, hp.2.2.2.1]
    exact ⟨rfl, rfl⟩

/-- T2 along a run: pacer and callback have been told the same sequence, and the getter returns
the last value told (or the initial bitrate if nothing was published yet). -/
theorem publish_consistent_run (c : Cfg) (evs : List Ev) :
    (run c (St.init c) evs).pacer = (run c (St.init c) evs).cbs ∧
    (run c (St.init c) evs).pacer.getLast?.getD c.init = (run c (St.init c) evs).latest := by
  have key : ∀ (evs : List Ev) (st : St),
      (st.pacer = st.cbs ∧ st.pacer.getLast?.getD c.init = st.latest) →
      (run c st evs).pacer = (run c st evs).cbs ∧
        (run c st evs).pacer.getLast?.getD c.init = (run c st evs).latest := by
    intro evs
    induction evs with
    | nil => intro st h; exact h
    | cons e es ih =>
      intro st h
      apply ih
      have hp := publish_consistent c st e
      refine ⟨by rw [hp.1, hp.2, h.1], ?_⟩
      rw [hp.1]
      split
      · simp
      · rename_i heq
        simp only [ne_eq, Decidable.not_not] at heq
        simp [heq, h.2]
  exact key evs (St.init c) (by simp [St.init])

/-- `Close` is permanent. -/
theorem closed_stays (c : Cfg) (evs : List Ev) : ∀ st : St, st.closed = true → (run c st evs).closed = true := by
  induction evs with
  | nil => intro st h; exact h
  | cons e es ih =>
    intro st h
    apply ih
    cases e with
    | lossUpdate raw => cases raw <;> simp [exec, execG, h]
    | close => simp [exec, execG]
    | delayStats u raw => simp [exec, execG, h]

/-- ★ T3 `after_close`: once `Close` has happened — after any history before it and whatever
happened since — `WriteRTCP` returns ErrSendSideBWEClosed, for every feedback. -/
theorem after_close (c : Cfg) (before after fb : List Ev) :
    writeRTCP c (run c (St.init c) (before ++ .close :: after)) fb = .error .closed := by
  have h : (run c (St.init c) (before ++ .close :: after)).closed = true := by
    simp only [run, List.foldl_append, List.foldl_cons]
    exact closed_stays c after _ (by simp [exec, execG])
  simp [writeRTCP, h]

/-- T3 `write_never_stuck`: while not closed the two goroutines that receive from `ackPipe` and
`ackRatePipe` are alive, so both sends of `updateDelayEstimate` find a receiver (WriteRTCP holds
`closeLock.RLock` from the closed check to the sends, `Close` needs the write lock, so the check
and the sends are one atomic step of this model). -/
theorem write_never_stuck (c : Cfg) (evs : List Ev) :
    (run c (St.init c) evs).closed = false → (run c (St.init c) evs).receivers = true := by
  have key : ∀ (evs : List Ev) (st : St), (st.closed = false → st.receivers = true) →
      (run c st evs).closed = false → (run c st evs).receivers = true := by
    intro evs
    induction evs with
    | nil => intro st h; exact h
    | cons e es ih =>
      intro st h
      apply ih
      cases e with
      | lossUpdate raw =>
        exact exec_loss_cases true c st raw (fun s => s.closed = false → s.receivers = true) h (fun _ => h)
      | close => simp [exec, execG]
      | delayStats u raw =>
        apply exec_delay_cases true c st u raw (fun s => s.closed = false → s.receivers = true) h h
        intro _hh
        have hp := publish_spec true c { st with rcTarget := clampInt raw c.min c.max } (clampInt raw c.min c.max) u
          (State.increase.transition u)
        rw [hp.2.2.2.2.1, hp.2.2.2.2.2.1]
        exact h
  exact key evs (St.init c) (by simp [St.init])

/-- after `Close` nothing is published any more. -/
theorem closed_is_frozen (c : Cfg) (st : St) (h : st.closed = true) (e : Ev) :
    (exec c st e).latest = st.latest ∧ (exec c st e).pacer = st.pacer ∧ (exec c st e).cbs = st.cbs := by
  cases e with
  | lossUpdate raw => cases raw <;> simp [exec, execG, h]
  | close => simp [exec, execG]
  | delayStats u raw => simp [exec, execG, h]

/-! ## the acceptor accepts everything the skeleton can do -/

/-- what the stats say about the published target (they are set by every `onDelayUpdate`). -/
def StatsOk (c : Cfg) (latest : Int) : Option Stats → Prop
  | none => True
  | some s => c.min ≤ s.delayT ∧ s.delayT ≤ c.max ∧ s.lossT ≤ s.delayT ∧
      latest = clampInt (min s.delayT s.lossT) c.min c.max ∧
      ((s.usage = .over ∧ s.state = .decrease) ∨ (s.usage = .normal ∧ s.state = .increase))

/-- invariant of the reachable states. -/
def Inv (c : Cfg) (st : St) : Prop :=
  c.min ≤ st.latest ∧ st.latest ≤ c.max ∧ StatsOk c st.latest st.stats

theorem lastD_snoc (prev b : Int) (np : List Int) : lastD prev (np ++ [b]) = b := by
  induction np generalizing prev with
  | nil => rfl
  | cons x xs ih => simp only [List.cons_append, lastD, ih]

theorem chainDistinct_snoc (prev b : Int) (np : List Int) :
    chainDistinct prev (np ++ [b]) = (chainDistinct prev np && decide (b ≠ lastD prev np)) := by
  induction np generalizing prev with
  | nil => by_cases h : b = prev <;> simp [chainDistinct, lastD, h]
  | cons x xs ih =>
    show (decide (x ≠ prev) && chainDistinct x (xs ++ [b])) = _
    rw [ih x]
    show _ = ((decide (x ≠ prev) && chainDistinct x xs) && decide (b ≠ lastD x xs))
    rw [Bool.and_assoc]

/-- one event: the invariant is kept, stats never vanish, nothing is published without stats. -/
theorem exec_step (c : Cfg) (hc : c.min ≤ c.max) (st : St) (e : Ev) (h : Inv c st) :
    Inv c (exec c st e) ∧ (st.stats.isSome = true → (exec c st e).stats.isSome = true) ∧
    ((exec c st e).stats = none → (exec c st e).latest = st.latest) := by
  cases e with
  | lossUpdate raw =>
    exact exec_loss_cases true c st raw
      (fun s => Inv c s ∧ (st.stats.isSome = true → s.stats.isSome = true) ∧ (s.stats = none → s.latest = st.latest))
      ⟨h, id, fun _ => rfl⟩ (fun _ => ⟨h, id, fun _ => rfl⟩)
  | close => exact ⟨h, id, fun _ => rfl⟩
  | delayStats u raw =>
    apply exec_delay_cases true c st u raw
      (fun s => Inv c s ∧ (st.stats.isSome = true → s.stats.isSome = true) ∧ (s.stats = none → s.latest = st.latest))
      ⟨h, id, fun _ => rfl⟩ ⟨h, id, fun _ => rfl⟩
    intro hhold
    have hp := publish_spec true c { st with rcTarget := clampInt raw c.min c.max } (clampInt raw c.min c.max) u
      (State.increase.transition u)
    have hb := clampInt_bounds raw c.min c.max hc
    refine ⟨⟨?_, ?_, ?_⟩, ?_, ?_⟩
    · rw [hp.1]; exact (clampInt_bounds _ _ _ hc).1
    · rw [hp.1]; exact (clampInt_bounds _ _ _ hc).2
    · rw [hp.1, hp.2.2.2.2.2.2]
      refine ⟨hb.1, hb.2, ?_, rfl, ?_⟩
      · simp only [lossEstimate]; omega
      · cases u <;> simp_all [State.transition]
    · intro _; rw [hp.2.2.2.2.2.2]; rfl
    · intro hn; rw [hp.2.2.2.2.2.2] at hn; cases hn

/-- `st'` is reachable from `st` by events that published exactly `np`. -/
def Rel (c : Cfg) (st : St) (np : List Int) (st' : St) : Prop :=
  st'.pacer = st.pacer ++ np ∧ st'.cbs = st.cbs ++ np ∧ chainDistinct st.latest np = true ∧
  lastD st.latest np = st'.latest ∧ (∀ p ∈ np, c.min ≤ p ∧ p ≤ c.max) ∧ Inv c st' ∧
  (st.stats.isSome = true → st'.stats.isSome = true) ∧ (st'.stats = none → np = [])

theorem rel_step (c : Cfg) (hc : c.min ≤ c.max) (st st' : St) (np : List Int) (e : Ev)
    (h : Rel c st np st') : ∃ np', Rel c st np' (exec c st' e) := by
  obtain ⟨hp, hcb, hch, hl, hbd, hinv, hs, hn⟩ := h
  have hstep := exec_step c hc st' e hinv
  have hpc := publish_consistent c st' e
  by_cases hne : (exec c st' e).latest = st'.latest
  · refine ⟨np, ?_, ?_, hch, ?_, hbd, hstep.1, fun x => hstep.2.1 (hs x), ?_⟩
    · rw [hpc.1, hp]; simp [hne]
    · rw [hpc.2, hcb]; simp [hne]
    · rw [hl, hne]
    · intro hnone
      by_cases hs' : st'.stats = none
      · exact hn hs'
      · have : st'.stats.isSome = true := by
          cases hst : st'.stats with
          | none => exact absurd hst hs'
          | some _ => rfl
        have := hstep.2.1 this
        rw [hnone] at this; cases this
  · refine ⟨np ++ [(exec c st' e).latest], ?_, ?_, ?_, ?_, ?_, hstep.1, fun x => hstep.2.1 (hs x), ?_⟩
    · rw [hpc.1, hp]; simp [hne]
    · rw [hpc.2, hcb]; simp [hne]
    · rw [chainDistinct_snoc, hch, hl]; simp [hne]
    · exact lastD_snoc _ _ _
    · intro p hp'
      simp only [List.mem_append, List.mem_singleton] at hp'
      cases hp' with
      | inl hp' => exact hbd p hp'
      | inr hp' => rw [hp']; exact ⟨hstep.1.1, hstep.1.2.1⟩
    · intro hnone
      exact absurd (hstep.2.2 hnone) hne

theorem rel_run (c : Cfg) (hc : c.min ≤ c.max) (st : St) (evs : List Ev) :
    ∀ (st' : St) (np : List Int), Rel c st np st' → ∃ np', Rel c st np' (run c st' evs) := by
  induction evs with
  | nil => intro st' np h; exact ⟨np, h⟩
  | cons e es ih =>
    intro st' np h
    obtain ⟨np', h'⟩ := rel_step c hc st st' np e h
    exact ih _ np' h'

theorem rel_refl (c : Cfg) (st : St) (h : Inv c st) : Rel c st [] st :=
  ⟨by simp, by simp, rfl, rfl, by simp, h, id, fun _ => rfl⟩

theorem accepts_of_rel (c : Cfg) (h0 : 0 < c.min) (st st' : St) (np : List Int) (h : Rel c st np st') :
    accepts c st.latest st.stats.isSome (observe st st') = none := by
  obtain ⟨hp, hcb, hch, hl, hbd, hinv, hs, hn⟩ := h
  have e1 : (observe st st').pacer = np := by simp [observe, hp]
  have e2 : (observe st st').cbs = sortInts np := by simp [observe, hcb]
  have e3 : (observe st st').target = st'.latest := rfl
  have e4 : (observe st st').stats = st'.stats := rfl
  have hany : np.any (fun p => decide (p < c.min) || decide (p > c.max)) = false := by
    rw [List.any_eq_false]
    intro p hp'
    have := hbd p hp'
    simp; omega
  unfold accepts
  rw [e1, e2, e3, e4]
  have h1 : ¬ st'.latest < c.min := by have := hinv.1; omega
  have h2 : ¬ st'.latest > c.max := by have := hinv.2.1; omega
  have h3 : ¬ st'.latest ≤ 0 := by have := hinv.1; omega
  simp only [h1, h2, h3, if_false, hl, ne_eq, not_true_eq_false, hch, Bool.not_true, Bool.false_eq_true, hany]
  cases hst : st'.stats with
  | none =>
    have hnp := hn hst
    have : st.stats.isSome = false := by
      cases hss : st.stats.isSome with
      | false => rfl
      | true => have := hs hss; rw [hst] at this; cases this
    simp [this, hnp]
  | some s =>
    have hok := hinv.2.2
    rw [hst] at hok
    obtain ⟨a, b, d, e, f⟩ := hok
    have g1 : ¬ (s.delayT < c.min ∨ s.delayT > c.max) := by omega
    simp only [Bool.or_eq_true, decide_eq_true_eq, g1, if_false]
    have g2 : ¬ s.lossT > s.delayT := by omega
    simp only [g2, if_false, ← e, not_true_eq_false]
    cases f with
    | inl f => simp [f.1, f.2]
    | inr f => simp [f.1, f.2]

/-- every reachable state satisfies the invariant. -/
theorem inv_reachable (c : Cfg) (h1 : c.min ≤ c.init) (h2 : c.init ≤ c.max) (evs : List Ev) :
    Inv c (run c (St.init c) evs) := by
  have hi : Inv c (St.init c) := ⟨h1, h2, trivial⟩
  obtain ⟨np, h⟩ := rel_run c (by omega) (St.init c) evs _ [] (rel_refl c _ hi)
  exact h.2.2.2.2.2.1

/-- ★ `acceptor_sound`: whatever the control skeleton can do during one feedback — any list of
events, any oracle values (`raw` of the rate controller and of the loss estimator, any usages) —
starting from any state satisfying the invariant of the reachable states, the observation the
harness would make of it (getter, pacer calls and sorted callback values since the previous
observation, stats) is ACCEPTED by the acceptor the driver runs (`accepts … = none`).
Hence a `reject` printed by the driver on a trace of the real code means the code left the
skeleton. -/
theorem acceptor_sound (c : Cfg) (h0 : 0 < c.min) (hc : c.min ≤ c.max) (st : St) (hinv : Inv c st)
    (evs : List Ev) :
    accepts c st.latest st.stats.isSome (observe st (run c st evs)) = none := by
  obtain ⟨np, h⟩ := rel_run c hc st evs st [] (rel_refl c st hinv)
  exact accepts_of_rel c h0 st _ np h

/-- `acceptor_sound` for a single event. -/
theorem acceptor_sound_step (c : Cfg) (h0 : 0 < c.min) (hc : c.min ≤ c.max) (st : St) (hinv : Inv c st)
    (e : Ev) : accepts c st.latest st.stats.isSome (observe st (exec c st e)) = none :=
  acceptor_sound c h0 hc st hinv [e]

/-- ★ `acceptor_sound` along a whole session: for every configuration `0 < min ≤ init ≤ max`,
after any history `before`, the step produced by any further events is accepted with the
bookkeeping the driver keeps (previous target, "stats were set"). -/
theorem acceptor_sound_trace (c : Cfg) (h0 : 0 < c.min) (h1 : c.min ≤ c.init) (h2 : c.init ≤ c.max)
    (before evs : List Ev) :
    accepts c (run c (St.init c) before).latest (run c (St.init c) before).stats.isSome
      (observe (run c (St.init c) before) (run c (run c (St.init c) before) evs)) = none :=
  acceptor_sound c h0 (by omega) _ (inv_reachable c h1 h2 before) evs

/-- non-vacuity: a publish step observed and accepted; the same observation with the getter
off by one is rejected. -/
example : accepts ⟨1000000, 5000000, 2000000⟩ 2000000 false
    (observe (St.init ⟨1000000, 5000000, 2000000⟩) (run ⟨1000000, 5000000, 2000000⟩ (St.init ⟨1000000, 5000000, 2000000⟩)
      [.delayStats .normal 2000000, .lossUpdate (some 617346), .delayStats .normal 2347202])) = none := by decide
example : accepts ⟨1000000, 5000000, 2000000⟩ 2000000 false
    { target := 1000001, pacer := [1000000], cbs := [1000000],
      stats := some ⟨617346, 2347202, .normal, .increase⟩ } = some "getter-differs-from-last-pacer-rate" := by decide

end Interceptor.Gcc

/-! ## rate calculator (rate_calculator.go) -/

namespace Interceptor.RateCalc

theorem delCount_le (deadline : Int) (xs : List (Int × Int)) : (delCount deadline xs).1 ≤ xs.length := by
  induction xs with
  | nil => simp [delCount]
  | cons x rest ih =>
    obtain ⟨a, sz⟩ := x
    simp only [delCount]
    split
    · simp only [List.length_cons]; omega
    · simp

/-- the newest packet is never deleted when the window is positive, so the window never empties. -/
theorem delCount_lt (deadline arr sz : Int) (h : ¬ arr < deadline) (xs : List (Int × Int)) :
    (delCount deadline (xs ++ [(arr, sz)])).1 < (xs ++ [(arr, sz)]).length := by
  induction xs with
  | nil => simp [delCount, h]
  | cons x rest ih =>
    obtain ⟨a, s⟩ := x
    simp only [List.cons_append, delCount]
    split
    · simp only [List.length_cons]; omega
    · simp

theorem step_total (window : Int) (f : Int → Int → Int) (st : St) (a : Ack) :
    ∃ r, step window f st a = .ok r := by
  unfold step
  cases a.arrival with
  | none => exact ⟨_, rfl⟩
  | some arr =>
    simp only []
    split
    · exact ⟨_, rfl⟩
    · have hle := delCount_le (arr - window) (st.history ++ [(arr, a.size)])
      simp only [sliceFrom, hle, if_true]
      split
      · exact ⟨_, rfl⟩
      · rename_i hne
        cases hd : List.drop (delCount (arr - window) (st.history ++ [(arr, a.size)])).1 (st.history ++ [(arr, a.size)]) with
        | nil => simp [hd] at hne
        | cons h0 t => simp only [idx, List.getElem?_cons_zero]; exact ⟨_, rfl⟩

theorem run_total (window : Int) (f : Int → Int → Int) (acks : List Ack) :
    ∀ st, ∃ r, run window f st acks = .ok r := by
  induction acks with
  | nil => intro st; exact ⟨_, rfl⟩
  | cons a as ih =>
    intro st
    obtain ⟨⟨st', out⟩, h⟩ := step_total window f st a
    obtain ⟨⟨st'', out'⟩, h'⟩ := ih st'
    exact ⟨(st'', out ++ out'), by simp only [run, h, h']⟩

/-- ★ T4 `rate_calculator_total`: `rateCalculator.run` never panics — for every sequence of
acknowledgments (lost ones, identical arrival times, decreasing arrival times, any sizes), every
window and every value the float expression `int(float64(bits)/dt.Seconds())` can yield
(the oracle `f`, also at `dt = 0` and `dt < 0`): the slice `history[del:]` is always in range,
`history[0]` always exists, and the division is a float division (±Inf/NaN, no crash). -/
theorem rate_calculator_total (window : Int) (f : Int → Int → Int) (acks : List Ack) :
    ∃ r, run window f St.start acks = .ok r :=
  run_total window f acks St.start

/-- non-vacuity / the interesting inputs: three packets with identical arrival times and one with
an earlier one (window 500 ms); the oracle is asked at `dt = 0`, `dt = 0` and `dt = -1 ms`
(here it just returns `dt`), and nothing panics. -/
example : (match run 500000000 (fun _ dt => dt) St.start
      [⟨some 7000000, 1200⟩, ⟨none, 1200⟩, ⟨some 7000000, 1200⟩, ⟨some 7000000, 100⟩, ⟨some 6000000, 100⟩] with
    | .ok r => r.2
    | _ => []) = [9600, 0, 0, -1000000] := by decide

end Interceptor.RateCalc

/-
C16 — GCC target bitrate stays finite, within bounds, and consistent.
Model: Interceptor/Model/Gcc.lean (control skeleton; every floating-point stage is an oracle, so
each theorem holds for ALL values those stages can produce, including int(NaN) and int(±Inf)).
Only property theorems live here.
-/
import Interceptor.Model.Gcc
set_option linter.unusedVariables false
namespace Interceptor.Gcc

/-- `clampInt` lands in `[lo, hi]` whenever `lo ≤ hi`, whatever it is given. -/
theorem clampInt_bounds (b lo hi : Int) (h : lo ≤ hi) : lo ≤ clampInt b lo hi ∧ clampInt b lo hi ≤ hi := by
  unfold clampInt; omega

/-- what `onDelayUpdate` does, in one equation per field. -/
theorem publish_spec (fixed : Bool) (c : Cfg) (st : St) (wanted : Int) (u : Usage) (s : State) :
    (publish fixed c st wanted u s).latest = combine fixed c wanted (lossEstimate st.lossBitrate wanted) ∧
    (publish fixed c st wanted u s).lossBitrate = lossEstimate st.lossBitrate wanted ∧
    (publish fixed c st wanted u s).pacer = st.pacer ++
      (if combine fixed c wanted (lossEstimate st.lossBitrate wanted) ≠ st.latest
        then [combine fixed c wanted (lossEstimate st.lossBitrate wanted)] else []) ∧
    (publish fixed c st wanted u s).cbs = st.cbs ++
      (if combine fixed c wanted (lossEstimate st.lossBitrate wanted) ≠ st.latest
        then [combine fixed c wanted (lossEstimate st.lossBitrate wanted)] else []) ∧
    (publish fixed c st wanted u s).closed = st.closed ∧
    (publish fixed c st wanted u s).receivers = st.receivers ∧
    (publish fixed c st wanted u s).stats = some ⟨lossEstimate st.lossBitrate wanted, wanted, u, s⟩ := by
  unfold publish
  simp only []
  generalize lossEstimate st.lossBitrate wanted = lb
  generalize combine fixed c wanted lb = b
  by_cases h : b = st.latest <;> simp [h]

/-- case analysis of `rateController.onDelayStats` + `onDelayUpdate`. -/
theorem exec_delay_cases (fixed : Bool) (c : Cfg) (st : St) (u : Usage) (raw : Int) (P : St → Prop)
    (hst : P st) (hinit : P { st with rcInit := true })
    (hpub : P (publish fixed c { st with rcTarget := clampInt raw c.min c.max } (clampInt raw c.min c.max) u
      (State.increase.transition u))) :
    P (execG fixed c st (.delayStats u raw)) := by
  simp only [execG]
  split
  · exact hst
  · split
    · exact hinit
    · split
      · exact hst
      · exact hpub

/-- case analysis of `updateLossEstimate`. -/
theorem exec_loss_cases (fixed : Bool) (c : Cfg) (st : St) (raw : Option Int) (P : St → Prop)
    (hst : P st) (hupd : ∀ r, P { st with lossBitrate := clampInt r lossMin lossMax }) :
    P (execG fixed c st (.lossUpdate raw)) := by
  cases raw with
  | none => exact hst
  | some r => simp only [execG]; split; exact hst; exact hupd r

/-- one step keeps the published target within the configured bounds (fixed code). -/
theorem exec_in_bounds (c : Cfg) (hc : c.min ≤ c.max) (st : St) (e : Ev)
    (h : c.min ≤ st.latest ∧ st.latest ≤ c.max) :
    c.min ≤ (exec c st e).latest ∧ (exec c st e).latest ≤ c.max := by
  cases e with
  | lossUpdate raw => exact exec_loss_cases true c st raw (fun s => c.min ≤ s.latest ∧ s.latest ≤ c.max) h (fun _ => h)
  | close => exact h
  | delayStats u raw =>
    apply exec_delay_cases true c st u raw (fun s => c.min ≤ s.latest ∧ s.latest ≤ c.max) h h
    have hp := (publish_spec true c { st with rcTarget := clampInt raw c.min c.max } (clampInt raw c.min c.max) u
      (State.increase.transition u)).1
    rw [hp]
    exact clampInt_bounds _ _ _ hc

/-- ★ T1 `target_in_bounds`: for every configuration `0 < min ≤ init ≤ max`, every sequence of
events and every oracle behaviour (any `raw` values, any usages), the published target — what
`GetTargetBitrate` returns — is within `[min, max]` and positive, in every reachable state. -/
theorem target_in_bounds (c : Cfg) (h0 : 0 < c.min) (h1 : c.min ≤ c.init) (h2 : c.init ≤ c.max)
    (evs : List Ev) :
    c.min ≤ (run c (St.init c) evs).latest ∧ (run c (St.init c) evs).latest ≤ c.max ∧
      0 < (run c (St.init c) evs).latest := by
  have key : ∀ (evs : List Ev) (st : St), (c.min ≤ st.latest ∧ st.latest ≤ c.max) →
      c.min ≤ (run c st evs).latest ∧ (run c st evs).latest ≤ c.max := by
    intro evs
    induction evs with
    | nil => intro st h; exact h
    | cons e es ih => intro st h; exact ih _ (exec_in_bounds c (by omega) st e h)
  have := key evs (St.init c) ⟨h1, h2⟩
  exact ⟨this.1, this.2, by omega⟩

/-- everything the pacer and the callback are ever told is within bounds as well. -/
theorem published_in_bounds (c : Cfg) (h1 : c.min ≤ c.init) (h2 : c.init ≤ c.max) (evs : List Ev) :
    ∀ p ∈ (run c (St.init c) evs).pacer, c.min ≤ p ∧ p ≤ c.max := by
  have key : ∀ (evs : List Ev) (st : St), (∀ p ∈ st.pacer, c.min ≤ p ∧ p ≤ c.max) →
      ∀ p ∈ (run c st evs).pacer, c.min ≤ p ∧ p ≤ c.max := by
    intro evs
    induction evs with
    | nil => intro st h; exact h
    | cons e es ih =>
      intro st h
      apply ih
      cases e with
      | lossUpdate raw =>
        exact exec_loss_cases true c st raw (fun s => ∀ p ∈ s.pacer, c.min ≤ p ∧ p ≤ c.max) h (fun _ => h)
      | close => exact h
      | delayStats u raw =>
        apply exec_delay_cases true c st u raw (fun s => ∀ p ∈ s.pacer, c.min ≤ p ∧ p ≤ c.max) h h
        have hp := (publish_spec true c { st with rcTarget := clampInt raw c.min c.max } (clampInt raw c.min c.max) u
          (State.increase.transition u)).2.2.1
        rw [hp]
        intro p hp'
        simp only [List.mem_append] at hp'
        cases hp' with
        | inl hp' => exact h p hp'
        | inr hp' =>
          split at hp'
          · simp only [List.mem_singleton] at hp'
            rw [hp']; exact clampInt_bounds _ _ _ (by omega)
          · simp at hp'
  exact key evs (St.init c) (by simp [St.init])

/-- T1 on the code BEFORE the fix (`execG false`), `_partial`: the bounds hold only under the
extra hypothesis `min ≤ 100 000` (the loss estimator's own floor).  Missing: configurations
with `min > 100 000` — see `target_in_bounds_unfixed_false`. -/
theorem target_in_bounds_unfixed_partial (c : Cfg) (h0 : 0 < c.min) (h1 : c.min ≤ c.init)
    (h2 : c.init ≤ c.max) (hf : c.min ≤ 100000) (evs : List Ev) :
    c.min ≤ (runG false c (St.init c) evs).latest ∧ (runG false c (St.init c) evs).latest ≤ c.max := by
  have key : ∀ (evs : List Ev) (st : St),
      (c.min ≤ st.latest ∧ st.latest ≤ c.max ∧ c.min ≤ st.lossBitrate) →
      c.min ≤ (runG false c st evs).latest ∧ (runG false c st evs).latest ≤ c.max := by
    intro evs
    induction evs with
    | nil => intro st h; exact ⟨h.1, h.2.1⟩
    | cons e es ih =>
      intro st h
      apply ih
      cases e with
      | lossUpdate raw =>
        apply exec_loss_cases false c st raw
          (fun s => c.min ≤ s.latest ∧ s.latest ≤ c.max ∧ c.min ≤ s.lossBitrate) h
        intro r
        refine ⟨h.1, h.2.1, ?_⟩
        simp only [clampInt, lossMin, lossMax]; omega
      | close => exact h
      | delayStats u raw =>
        apply exec_delay_cases false c st u raw
          (fun s => c.min ≤ s.latest ∧ s.latest ≤ c.max ∧ c.min ≤ s.lossBitrate) h h
        have hp := publish_spec false c { st with rcTarget := clampInt raw c.min c.max } (clampInt raw c.min c.max) u
          (State.increase.transition u)
        have hb := clampInt_bounds raw c.min c.max (by omega)
        generalize clampInt raw c.min c.max = w at hb hp
        have hl : ¬ st.lossBitrate ≤ 0 := by omega
        simp only [combine, lossEstimate, hl, if_false, Bool.false_eq_true] at hp
        rw [hp.1, hp.2.1]
        omega
  exact key evs (St.init c) ⟨h1, h2, h1⟩

/-- ★ F-20 `target_in_bounds_unfixed_false`: on the code before the fix the full statement is
false.  Witness (reproduced on the implementation): min 1 000 000, init 2 000 000,
max 5 000 000; heavy loss drives the loss estimate to 617 346 (≥ its own floor of 100 000); the
next delay update publishes min(delay, loss) = 617 346 < min. -/
theorem target_in_bounds_unfixed_false :
    ¬ (∀ (c : Cfg) (evs : List Ev), 0 < c.min → c.min ≤ c.init → c.init ≤ c.max →
        c.min ≤ (runG false c (St.init c) evs).latest) := by
  intro h
  have := h ⟨1000000, 5000000, 2000000⟩
    [.delayStats .normal 2000000, .lossUpdate (some 617346), .delayStats .normal 2347202]
    (by decide) (by decide) (by decide)
  revert this
  decide

/-- non-vacuity of T1 and the fix at work: the same events on the fixed code publish the minimum. -/
example : (run ⟨1000000, 5000000, 2000000⟩ (St.init ⟨1000000, 5000000, 2000000⟩)
    [.delayStats .normal 2000000, .lossUpdate (some 617346), .delayStats .normal 2347202]).latest = 1000000 := by
  decide

/-- ★ T2 `publish_consistent` (one step): the values handed to the pacer and to the callback by a
step are the same list, it is empty when the target did not change and otherwise consists of
exactly the new target — the value the getter returns afterwards.  (Callback issued iff changed.) -/
theorem publish_consistent (c : Cfg) (st : St) (e : Ev) :
    (exec c st e).pacer = st.pacer ++ (if (exec c st e).latest ≠ st.latest then [(exec c st e).latest] else []) ∧
    (exec c st e).cbs = st.cbs ++ (if (exec c st e).latest ≠ st.latest then [(exec c st e).latest] else []) := by
  cases e with
  | lossUpdate raw =>
    exact exec_loss_cases true c st raw
      (fun s => s.pacer = st.pacer ++ (if s.latest ≠ st.latest then [s.latest] else []) ∧
        s.cbs = st.cbs ++ (if s.latest ≠ st.latest then [s.latest] else [])) (by simp) (fun _ => by simp)
  | close => simp [exec, execG]
  | delayStats u raw =>
    apply exec_delay_cases true c st u raw
      (fun s => s.pacer = st.pacer ++ (if s.latest ≠ st.latest then [s.latest] else []) ∧
        s.cbs = st.cbs ++ (if s.latest ≠ st.latest then [s.latest] else [])) (by simp) (by simp)
    have hp := publish_spec true c { st with rcTarget := clampInt raw c.min c.max } (clampInt raw c.min c.max) u
      (State.increase.transition u)
    rw [hp.1, hp.2.2.1, hp.2.2.2.1]
    exact ⟨rfl, rfl⟩

/-- T2 along a run: pacer and callback have been told the same sequence, and the getter returns
the last value told (or the initial bitrate if nothing was published yet). -/
theorem publish_consistent_run (c : Cfg) (evs : List Ev) :
    (run c (St.init c) evs).pacer = (run c (St.init c) evs).cbs ∧
    (run c (St.init c) evs).pacer.getLast?.getD c.init = (run c (St.init c) evs).latest := by
  have key : ∀ (evs : List Ev) (st : St),
      (st.pacer = st.cbs ∧ st.pacer.getLast?.getD c.init = st.latest) →
      (run c st evs).pacer = (run c st evs).cbs ∧
        (run c st evs).pacer.getLast?.getD c.init = (run c st evs).latest := by
    intro evs
    induction evs with
    | nil => intro st h; exact h
    | cons e es ih =>
      intro st h
      apply ih
      have hp := publish_consistent c st e
      refine ⟨by rw [hp.1, hp.2, h.1], ?_⟩
      rw [hp.1]
      split
      · simp
      · rename_i heq
        simp only [ne_eq, Decidable.not_not] at heq
        simp [heq, h.2]
  exact key evs (St.init c) (by simp [St.init])

/-- `Close` is permanent. -/
theorem closed_stays (c : Cfg) (evs : List Ev) : ∀ st : St, st.closed = true → (run c st evs).closed = true := by
  induction evs with
  | nil => intro st h; exact h
  | cons e es ih =>
    intro st h
    apply ih
    cases e with
    | lossUpdate raw => cases raw <;> simp [exec, execG, h]
    | close => simp [exec, execG]
    | delayStats u raw => simp [exec, execG, h]

/-- ★ T3 `after_close`: once `Close` has happened — after any history before it and whatever
happened since — `WriteRTCP` returns ErrSendSideBWEClosed, for every feedback. -/
theorem after_close (c : Cfg) (before after fb : List Ev) :
    writeRTCP c (run c (St.init c) (before ++ .close :: after)) fb = .error .closed := by
  have h : (run c (St.init c) (before ++ .close :: after)).closed = true := by
    simp only [run, List.foldl_append, List.foldl_cons]
    exact closed_stays c after _ (by simp [exec, execG])
  simp [writeRTCP, h]

/-- T3 `write_never_stuck`: while not closed the two goroutines that receive from `ackPipe` and
`ackRatePipe` are alive, so both sends of `updateDelayEstimate` find a receiver (WriteRTCP holds
`closeLock.RLock` from the closed check to the sends, `Close` needs the write lock, so the check
and the sends are one atomic step of this model). -/
theorem write_never_stuck (c : Cfg) (evs : List Ev) :
    (run c (St.init c) evs).closed = false → (run c (St.init c) evs).receivers = true := by
  have key : ∀ (evs : List Ev) (st : St), (st.closed = false → st.receivers = true) →
      (run c st evs).closed = false → (run c st evs).receivers = true := by
    intro evs
    induction evs with
    | nil => intro st h; exact h
    | cons e es ih =>
      intro st h
      apply ih
      cases e with
      | lossUpdate raw =>
        exact exec_loss_cases true c st raw (fun s => s.closed = false → s.receivers = true) h (fun _ => h)
      | close => simp [exec, execG]
      | delayStats u raw =>
        apply exec_delay_cases true c st u raw (fun s => s.closed = false → s.receivers = true) h h
        have hp := publish_spec true c { st with rcTarget := clampInt raw c.min c.max } (clampInt raw c.min c.max) u
          (State.increase.transition u)
        rw [hp.2.2.2.2.1, hp.2.2.2.2.2.1]
        exact h
  exact key evs (St.init c) (by simp [St.init])

/-- after `Close` nothing is published any more. -/
theorem closed_is_frozen (c : Cfg) (st : St) (h : st.closed = true) (e : Ev) :
    (exec c st e).latest = st.latest ∧ (exec c st e).pacer = st.pacer ∧ (exec c st e).cbs = st.cbs := by
  cases e with
  | lossUpdate raw => cases raw <;> simp [exec, execG, h]
  | close => simp [exec, execG]
  | delayStats u raw => simp [exec, execG, h]

end Interceptor.Gcc

/-
C15 — transport-wide sequence numbers are gap-free and unique across streams.
Only property theorems live here.  Model: `Model/TwccHdr.lean` (+ `Base/RtpHeader.lean`).
-/
import Interceptor.Proofs.TwccHdr
set_option linter.unusedVariables false
namespace Interceptor.TwccHdr
open Interceptor.Rtp

/-! ### 1. the counter: consecutive under every schedule -/

/-- the `i`-th of `k` numbers handed out from counter `c0` is `(c0 + i) mod 2^16`, also when the
uint32 counter wraps on the way (2^16 divides 2^32). -/
theorem assigned_eq (c0 k : Nat) :
    assigned c0 k = (List.range k).map fun i => (c0 + i) % 65536 := by
  induction k generalizing c0 with
  | zero => rfl
  | succ k ih =>
    rw [assigned, ih, List.range_succ_eq_map, List.map_cons, List.map_map]
    congr 1
    apply List.map_congr_left
    intro i _
    simp only [alloc, Function.comp, M32]
    omega

/-- ★ T1 `consecutive`: for EVERY schedule (an arbitrary interleaving of the steps of any number
of writer threads, started at any counter value), the numbers handed out, in the order of the
atomic steps, are `c0, c0+1, c0+2, …` modulo 2^16 — no gap, and continuous across the 16-bit
wrap and across the wrap of the uint32 counter. -/
theorem consecutive (c0 : Nat) (sched : List Nat) :
    ((Machine.init c0).run sched).numbers =
      (List.range ((Machine.init c0).run sched).numbers.length).map fun i => (c0 + i) % 65536 := by
  have h := inv_run c0 sched (Machine.init c0) (by simp [Machine.init])
  unfold Machine.numbers
  rw [List.map_reverse, h, List.reverse_reverse]
  simp

/-- ★ T1b `no_duplicates`: under every schedule two different atomic steps less than 2^16 apart
never hand out the same number. -/
theorem no_duplicates (c0 : Nat) (sched : List Nat) (i j : Nat)
    (hij : i < j) (hw : j - i < 65536)
    (hj : j < ((Machine.init c0).run sched).numbers.length) :
    ((Machine.init c0).run sched).numbers[i]'(by omega) ≠
      ((Machine.init c0).run sched).numbers[j] := by
  have h := consecutive c0 sched
  have e : ∀ (k : Nat) (hk : k < ((Machine.init c0).run sched).numbers.length),
      ((Machine.init c0).run sched).numbers[k] = (c0 + k) % 65536 := by
    intro k hk
    have := congrArg (fun l => l[k]?) h
    simp only [List.getElem?_map, List.getElem?_range hk, Option.map_some] at this
    rw [List.getElem?_eq_getElem hk] at this
    exact Option.some.inj this
  rw [e i (by omega), e j hj]
  omega

/-- ★ T1c `successor`: consecutive atomic steps hand out successive numbers modulo 2^16
(the form in which a receiver sees "no gap"). -/
theorem successor (c0 : Nat) (sched : List Nat) (i : Nat)
    (hi : i + 1 < ((Machine.init c0).run sched).numbers.length) :
    ((Machine.init c0).run sched).numbers[i + 1] =
      (((Machine.init c0).run sched).numbers[i]'(by omega) + 1) % 65536 := by
  have h := consecutive c0 sched
  have e : ∀ (k : Nat) (hk : k < ((Machine.init c0).run sched).numbers.length),
      ((Machine.init c0).run sched).numbers[k] = (c0 + k) % 65536 := by
    intro k hk
    have := congrArg (fun l => l[k]?) h
    simp only [List.getElem?_map, List.getElem?_range hk, Option.map_some] at this
    rw [List.getElem?_eq_getElem hk] at this
    exact Option.some.inj this
  rw [e (i + 1) hi, e i (by omega)]
  omega

/-! ### every allocated number is forwarded exactly once, by the thread that allocated it -/

/-- ★ T1d `forwarded_once`: under every schedule, the packets that reached the bottom writer
together with the Writes still in flight carry exactly the numbers that were handed out, each
exactly once, each by the thread that obtained it.  In particular for a schedule in which every
Write has completed (`pend = []`) the forwarded (thread, number) pairs are a permutation of the
allocation log, i.e. (by `consecutive`) of one consecutive run. -/
theorem forwarded_once (c0 : Nat) (sched : List Nat) :
    let m := (Machine.init c0).run sched
    (m.pend ++ m.out).Perm m.logR.reverse := by
  have key : ∀ (m : Machine), (m.pend ++ m.outR).Perm m.logR →
      ((m.run sched).pend ++ (m.run sched).outR).Perm (m.run sched).logR := by
    induction sched with
    | nil => intro m h; exact h
    | cons t ts ih => intro m h; exact ih (m.step t) (perm_step m t h)
  have h := key (Machine.init c0) (by simp [Machine.init])
  simp only [Machine.out]
  exact ((List.Perm.append_left _ (List.reverse_perm _)).trans h).trans (List.reverse_perm _).symm

/-- non-vacuity of T1/T1d: three threads, interleaved allocations and forwards, across the uint32 wrap. -/
example :
    let m := (Machine.init 4294967295).run [0, 1, 1, 2, 0, 2, 1, 1]
    m.numbers = [65535, 0, 1, 2] ∧ m.out = [(1, 0), (0, 65535), (2, 1), (1, 2)] ∧ m.pend = [] := by
  decide

/-! ### 2. only the extension changes -/

/-- ★ T2 `only_extension_changes`: a Write on a stream that negotiated id `id ≠ 0`, with a header
pion/rtp accepts (`accepts`: no extension block yet, or a one-byte block and `1 ≤ id ≤ 14`, or a
two-byte block), calls the next writer exactly once with the same payload and a header that
equals the caller's in every field outside the extension block; the block holds the number
`c mod 2^16` (big endian) under `id` — replaced if the id was present, appended otherwise —, all
other elements are untouched and in place, an existing profile is kept and a header without
extension block gets the one-byte profile; the caller receives the next writer's result, and the
counter advanced by one. -/
theorem only_extension_changes (c id : Nat) (h : Header) (payload : Bytes) (bottom : BottomRes)
    (hid : id ≠ 0) (hacc : accepts h id = true) :
    ∃ h', write c id (some h) payload bottom =
        ((c + 1) % M32,
         { forwarded := some (some h', payload),
           ret := (bottom.1, if bottom.2 then some .bottom else none) }) ∧
      sameButExtensions h h' ∧ h'.extension = true ∧
      (h.extension = true → h'.profile = h.profile ∧
          h'.extensions = setElem h.extensions id (be16 (c % 65536))) ∧
      (h.extension = false → h'.profile = profOneByte ∧
          h'.extensions = h.extensions ++ [(id, be16 (c % 65536))]) ∧
      h'.extensions.filter (·.1 ≠ id) = h.extensions.filter (·.1 ≠ id) ∧
      (h.extension = true ∨ h.extensions = [] → getExtension h' id = some (be16 (c % 65536))) := by
  cases hx : h.extension
  · -- no extension block yet
    refine ⟨{ h with extension := true, profile := profOneByte, extensions := h.extensions ++ [(id, be16 (c % 65536))] }, ?_, ?_⟩
    · simp [write, hid, stamp, alloc, setExtension, hx, be16]
    · refine ⟨by simp [sameButExtensions], rfl, by simp, by simp, ?_, ?_⟩
      · simp [List.filter_append]
      · intro hh
        rcases hh with hh | hh
        · simp at hh
        · simp [getExtension, hh]
  · -- existing block: the profile check passes by `accepts`
    have hchk : extensionCheck h.profile id (be16 (c % 65536)) = none := by
      simp only [accepts, hx, Bool.not_true, Bool.false_or, Bool.or_eq_true, Bool.and_eq_true,
        beq_iff_eq, decide_eq_true_eq] at hacc
      unfold extensionCheck
      have hlen : (be16 (c % 65536)).length = 2 := rfl
      rw [hlen]
      rcases hacc with ⟨hp, h1, h2⟩ | ⟨hp, h1⟩
      · rw [if_pos hp, if_neg (by omega), if_neg (by omega)]
      · rw [if_neg (by rw [hp]; decide), if_pos hp, if_neg (by omega), if_neg (by omega)]
    refine ⟨{ h with extensions := setElem h.extensions id (be16 (c % 65536)) }, ?_, ?_⟩
    · simp [write, hid, stamp, alloc, setExtension, hx, hchk]
    · refine ⟨by simp [sameButExtensions], hx, by simp, by simp, setElem_others _ _ _, ?_⟩
      intro _
      simp [getExtension, hx, setElem_find]

/-- non-vacuity of T2: a one-byte header that already carries the id (replaced) and a two-byte one (appended). -/
example :
    (write 65535 5 (some { extension := true, profile := profOneByte, extensions := [(3, [7]), (5, [1, 1])], csrc := [9] })
      [1, 2] (2, false)).2.forwarded =
      some (some { extension := true, profile := profOneByte, extensions := [(3, [7]), (5, [255, 255])], csrc := [9] }, [1, 2]) ∧
    (write 65536 5 (some { extension := true, profile := profTwoByte, extensions := [(200, [7])] })
      [] (0, false)).2.forwarded =
      some (some { extension := true, profile := profTwoByte, extensions := [(200, [7]), (5, [0, 0])] }, []) := by
  decide

/-! ### 3. streams that did not negotiate the extension -/

/-- ★ T3 `untouched_if_not_negotiated`: if the stream's extension list has no transport-cc entry,
or the first one has id 0 (as `uint8`), the interceptor is not in the path at all: the next
writer sees the caller's header (also a nil one) and payload unchanged, the caller sees its
result, and the shared counter does not move. -/
theorem untouched_if_not_negotiated (exts : List ExtDecl) (c : Nat) (h : Option Header)
    (payload : Bytes) (bottom : BottomRes)
    (hn : (∀ e ∈ exts, e.1 = false) ∨ ∃ e, exts.find? (·.1) = some e ∧ e.2 % 256 = 0) :
    write c (negotiatedId exts) h payload bottom =
      (c, { forwarded := some (h, payload),
            ret := (bottom.1, if bottom.2 then some .bottom else none) }) := by
  have hz : negotiatedId exts = 0 := by
    unfold negotiatedId
    rcases hn with hn | ⟨e, he, h0⟩
    · have : exts.find? (·.1) = none := by
        rw [List.find?_eq_none]; intro e he; simp [hn e he]
      rw [this]
    · rw [he]; simp [h0]
  simp [write, hz]

/-- the lookup returns the id of the first transport-cc entry, truncated like `uint8(e.ID)`. -/
theorem negotiatedId_first (pre : List ExtDecl) (id : Int) (post : List ExtDecl)
    (hpre : ∀ e ∈ pre, e.1 = false) :
    negotiatedId (pre ++ (true, id) :: post) = (id % 256).toNat := by
  unfold negotiatedId
  have : (pre ++ (true, id) :: post).find? (·.1) = some (true, id) := by
    induction pre with
    | nil => simp
    | cons e rest ih =>
      have he : e.1 = false := hpre e List.mem_cons_self
      simp only [List.cons_append, List.find?_cons, he]
      exact ih (fun e h => hpre e (List.mem_cons_of_mem _ h))
  rw [this]

example : negotiatedId [(false, 3), (true, 5), (true, 7)] = 5 ∧ negotiatedId [(true, 256)] = 0 ∧
    negotiatedId [(false, 1)] = 0 ∧ negotiatedId [(true, 257)] = 1 := by decide

/-! ### the guard: what happens at the inputs pion/rtp rejects -/

/-- `rejected_consumes_number` (the excluded points): on a negotiated stream a nil header or a
header `SetExtension` rejects (an RFC 3550 extension block; a one-byte block with id > 14) is NOT
forwarded, the caller gets `(0, err)`, and the number is consumed all the same — the run seen by
the receiver then has a gap.  These inputs are outside C15's quantifier (ids 1..14, RFC 8285
profiles); they are run against the implementation as the class `excluded`. -/
theorem rejected_consumes_number (c id : Nat) (h : Option Header) (payload : Bytes)
    (bottom : BottomRes) (hid : id ≠ 0)
    (hrej : h = none ∨ ∃ h', h = some h' ∧ accepts h' id = false) :
    ∃ e, write c id h payload bottom = ((c + 1) % M32, { forwarded := none, ret := (0, some e) }) := by
  rcases hrej with hn | ⟨h', hh, hacc⟩
  · subst hn
    exact ⟨.headerNil, by simp [write, hid, stamp, alloc]⟩
  · subst hh
    have hx : h'.extension = true := by
      cases hx : h'.extension
      · simp [accepts, hx] at hacc
      · rfl
    have hchk : ∃ e, extensionCheck h'.profile id (be16 (c % 65536)) = some e := by
      simp only [accepts, hx, Bool.not_true, Bool.false_or, Bool.or_eq_false_iff,
        Bool.and_eq_false_iff, beq_eq_false_iff_ne, decide_eq_false_iff_not] at hacc
      unfold extensionCheck
      by_cases h1 : h'.profile = profOneByte
      · have := hacc.1
        simp only [h1, if_true]
        by_cases h2 : id < 1 ∨ id > 14
        · exact ⟨_, by rw [if_pos h2]⟩
        · exfalso; rcases this with h3 | h3
          · exact h3 h1
          · omega
      · by_cases h2 : h'.profile = profTwoByte
        · exfalso
          rcases hacc.2 with h3 | h3
          · exact h3 h2
          · omega
        · exact ⟨.rfc3550Id, by simp [h1, h2, hid]⟩
    obtain ⟨e, he⟩ := hchk
    exact ⟨.ext e, by simp [write, hid, stamp, alloc, setExtension, hx, he]⟩

/-- the guard is not vacuous in either direction. -/
example : accepts { extension := true, profile := 0x1234, extensions := [(0, [1, 2, 3, 4])] } 5 = false ∧
    accepts { extension := true, profile := profOneByte } 15 = false ∧
    accepts { extension := true, profile := profOneByte } 14 = true ∧
    accepts { extension := true, profile := profTwoByte } 200 = true ∧ accepts {} 5 = true := by decide

end Interceptor.TwccHdr

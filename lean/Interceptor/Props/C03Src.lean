/-
C03 — the receive-log theorems restated on the code itself: on the Lean definitions that extract/fn.go
regenerates from pkg/nack/receive_log.go on every run (Gen/Fn_nack.lean): the generated `add` run over an
arbitrary list of uint16 arrivals from the state `newReceiveLog(size)` builds (`FnNack.newGo`), then the
generated `missingSeqNumbers(skipLastN, make([]uint16, size))` — the call `GeneratorInterceptor.loop` makes
per bound stream per tick.  Each statement follows from the model theorem of Props/C03.lean and the
source-equals-model theorems of Facts/FnNack.lean (`new_rel`, `add_src_eq_model`, `win_new`, `win_add`,
`missingSeqNumbers_src_eq_model_of_window`, chained here over arbitrary arrival lists).  No ★ statement mentions
the hand-written model `ReceiveLog.Log` (only the helpers `srcRun_rel`, `srcMissing_eq_model` do); the right-hand sides are the specification over unwrapped sequence
numbers of Spec/Nack.lean (`runSpec`: first number received, highest number received, numbers received
inside the window) — the definition of "the true value" in the property itself.

Hypotheses: `size` is one `newReceiveLog` accepts (`validSize`: 64, 128, …, 32768), every arrival is a uint16.
Fuel 65536 per call suffices for every loop of the generated code (`srcMissing … = some …` says the Go loops
terminate and no slice index is out of range).
-/
import Interceptor.Facts.FnNack
import Interceptor.Props.C03
set_option linter.unusedVariables false
namespace Interceptor.C03Src
open Interceptor Interceptor.Gen.Fn Interceptor.GoSem Interceptor.ReceiveLog Interceptor.Facts.FnNack

/-- run the generated `add` over a list of arrivals (`none`: some call ran out of fuel). -/
def srcRun (fuel : Nat) : S_nack_receiveLog → List Nat → Option S_nack_receiveLog
  | g, [] => some g
  | g, q :: qs => match nack_receiveLog_add fuel g (q : Int) with
    | none => none
    | some g' => srcRun fuel g' qs

/-- `newReceiveLog(size)`, the arrivals `qs`, then `missingSeqNumbers(skip, make([]uint16, size))`. -/
def srcMissing (fuel size : Nat) (qs : List Nat) (skip : Nat) : Option (List Int) :=
  match srcRun fuel (newGo size) qs with
  | none => none
  | some g => nack_receiveLog_missingSeqNumbers fuel g (skip : Int) (mkSlice (size : Int))

/-- the step theorems chain: the generated `add` over any uint16 arrivals, from related states with the window
invariant, terminates in related states with the window invariant. -/
theorem srcRun_rel (fuel : Nat) (hf : 65536 ≤ fuel) (qs : List Nat) (hq : ∀ x ∈ qs, x < 65536) :
    ∀ (g : S_nack_receiveLog) (m : Log), Rel g m → Win m →
      ∃ g', srcRun fuel g qs = some g' ∧ Rel g' (qs.foldl ReceiveLog.add m) ∧ Win (qs.foldl ReceiveLog.add m) := by
  induction qs with
  | nil => intro g m r w; exact ⟨g, rfl, r, w⟩
  | cons q qs ih =>
    intro g m r w
    have hq0 : q < 65536 := hq q (by simp)
    obtain ⟨g1, e1, r1⟩ := add_src_eq_model r q hq0 fuel hf
    obtain ⟨g', e', r', w'⟩ := ih (fun x hx => hq x (by simp [hx])) g1 _ r1 (win_add r w q hq0)
    exact ⟨g', by simp only [srcRun, e1, e'], by simpa using r', by simpa using w'⟩

/-- (helper: the composition with the model, before the model theorem is applied) the generated code from the
constructor over any uint16 arrivals terminates, and
`missingSeqNumbers` with the caller's scratch slice `make([]uint16, size)` returns the model's list (so the
scratch slice is always long enough: no index panic). -/
theorem srcMissing_eq_model (fuel : Nat) (hf : 65536 ≤ fuel) (size : Nat) (hv : validSize size = true)
    (qs : List Nat) (hq : ∀ x ∈ qs, x < 65536) (skip : Nat) :
    srcMissing fuel size qs skip = some ((missing (runLog size qs) skip).map fun (x : Nat) => (x : Int)) := by
  obtain ⟨g, e, r, w⟩ := srcRun_rel fuel hf qs hq (newGo size) (ReceiveLog.new size) (new_rel size hv) (win_new size)
  have hsize : (runLog size qs).size = size := by
    cases qs with
    | nil => rfl
    | cons q qs =>
      obtain ⟨a, lcU, _, hR⟩ := inv_run size (validSize_ok size hv) q qs hq
      exact hR.hsize
  have hsz : (qs.foldl ReceiveLog.add (ReceiveLog.new size)).size ≤ (mkSlice (size : Int)).length := by
    have : (qs.foldl ReceiveLog.add (ReceiveLog.new size)).size = size := hsize
    rw [this]; simp [mkSlice]
  unfold srcMissing
  rw [e]
  exact missingSeqNumbers_src_eq_model_of_window r w skip _ hsz fuel hf


/-- ★ C03, the main clause on the code ("the set of sequence numbers requested equals exactly those that lie
after the first packet ever received, within the configured window behind the highest sequence number received
(less the configured skip-last-N), and have not been received"): after ANY list of uint16 arrivals (loss,
duplication, reordering, jumps, wrap-around, arbitrarily late packets), for every size the constructor accepts
and every `skipLastN`, the generated `add`s followed by the generated `missingSeqNumbers` terminate and return
exactly the specification's missing list (`NackSpec.missing` over the unwrapped history), in ascending order. -/
theorem missing_eq_spec_src (fuel : Nat) (hf : 65536 ≤ fuel) (size : Nat) (hv : validSize size = true)
    (qs : List Nat) (hq : ∀ x ∈ qs, x < 65536) (skip : Nat) :
    srcMissing fuel size qs skip =
      some ((NackSpec.missing size (runSpec size qs) skip).map fun (x : Nat) => (x : Int)) := by
  rw [srcMissing_eq_model fuel hf size hv qs hq skip, missing_eq_spec size (validSize_ok size hv) qs hq skip]

/-- ★ C03 element-wise on the code (all clauses about one stream in one statement): for the unwrapped
representative `x ∈ (hi − 2^16, hi]` of a 16-bit number, the generated code requests `x mod 2^16` iff `x` lies
after the first packet ever received, inside the window, not beyond `hi − skip`, and has not been received. -/
theorem requested_iff_src (fuel : Nat) (hf : 65536 ≤ fuel) (size : Nat) (hv : validSize size = true)
    (qs : List Nat) (hq : ∀ x ∈ qs, x < 65536) (skip : Nat) (a : NackSpec.Stream) (ha : runSpec size qs = some a)
    (x : Int) (hx1 : a.hi - 65536 < x) (hx2 : x ≤ a.hi) :
    ∃ out, srcMissing fuel size qs skip = some out ∧
      (x % 65536 ∈ out ↔ (a.first < x ∧ a.hi - size < x ∧ x ≤ a.hi - skip ∧ x ∉ a.recv)) := by
  refine ⟨_, srcMissing_eq_model fuel hf size hv qs hq skip, ?_⟩
  rw [← requested_iff size (validSize_ok size hv) qs hq skip a ha x hx1 hx2]
  simp only [List.mem_map]
  constructor
  · rintro ⟨y, hy, e⟩
    have : y = sq x := by unfold sq; omega
    rw [← this]; exact hy
  · intro h
    exact ⟨sq x, h, by unfold sq; omega⟩

/-- ★ C03 clause "a sequence number that was received inside the window is never requested", on the code. -/
theorem received_never_requested_src (fuel : Nat) (hf : 65536 ≤ fuel) (size : Nat) (hv : validSize size = true)
    (qs : List Nat) (hq : ∀ x ∈ qs, x < 65536) (skip : Nat) (a : NackSpec.Stream) (ha : runSpec size qs = some a)
    (x : Int) (hx : x ∈ a.recv) (hw1 : a.hi - size < x) (hw2 : x ≤ a.hi) :
    ∃ out, srcMissing fuel size qs skip = some out ∧ x % 65536 ∉ out := by
  have hle := (validSize_ok size hv).le
  obtain ⟨out, e, h⟩ := requested_iff_src fuel hf size hv qs hq skip a ha x (by omega) hw2
  exact ⟨out, e, fun hin => (h.mp hin).2.2.2 hx⟩

/-- ★ C03 clause "numbers ahead of the highest received are never requested", on the code: every number the
generated code returns is (the 16-bit value of) an `x` with `hi − size < x ≤ hi − skip`. -/
theorem nothing_ahead_requested_src (fuel : Nat) (hf : 65536 ≤ fuel) (size : Nat) (hv : validSize size = true)
    (qs : List Nat) (hq : ∀ x ∈ qs, x < 65536) (skip : Nat) (a : NackSpec.Stream) (ha : runSpec size qs = some a) :
    ∃ out, srcMissing fuel size qs skip = some out ∧
      ∀ y ∈ out, ∃ x : Int, x % 65536 = y ∧ a.hi - size < x ∧ x ≤ a.hi - skip := by
  refine ⟨_, srcMissing_eq_model fuel hf size hv qs hq skip, ?_⟩
  intro y hy
  simp only [List.mem_map] at hy
  obtain ⟨n, hn, rfl⟩ := hy
  obtain ⟨x, e, h1, h2⟩ := nothing_ahead_requested size (validSize_ok size hv) qs hq skip a ha n hn
  exact ⟨x, by rw [← e]; unfold sq; omega, h1, h2⟩

/-- ★ C03 clause "after the first packet ever received", on the code: nothing at or before the first packet is
requested. -/
theorem nothing_before_first_requested_src (fuel : Nat) (hf : 65536 ≤ fuel) (size : Nat)
    (hv : validSize size = true) (qs : List Nat) (hq : ∀ x ∈ qs, x < 65536) (skip : Nat) (a : NackSpec.Stream)
    (ha : runSpec size qs = some a) (x : Int) (hx1 : a.hi - 65536 < x) (hx2 : x ≤ a.first) :
    ∃ out, srcMissing fuel size qs skip = some out ∧ x % 65536 ∉ out := by
  refine ⟨_, srcMissing_eq_model fuel hf size hv qs hq skip, ?_⟩
  intro hin
  simp only [List.mem_map] at hin
  obtain ⟨n, hn, e⟩ := hin
  have : n = sq x := by unfold sq; omega
  rw [this] at hn
  exact nothing_before_first_requested size (validSize_ok size hv) qs hq skip a ha x hx1 hx2 hn

/-! ## non-vacuity: the generated code evaluated on concrete histories (small fuel suffices here) -/

/-- size 64, arrivals 65530, 65534, 2, 65533 (wrap-around, a late packet), skip 1: the generated code requests
65531, 65532, 65535, 0, 1 — which is what the specification says (`missing_eq_spec_src`, `requested_iff_src`,
`nothing_ahead_requested_src`: 2 = hi is skipped; `received_never_requested_src`: 65533, 65534 are not in;
`nothing_before_first_requested_src`: 65530 is not in). -/
example : srcMissing 70 64 [65530, 65534, 2, 65533] 1 = some [65531, 65532, 65535, 0, 1] ∧
    NackSpec.missing 64 (runSpec 64 [65530, 65534, 2, 65533]) 1 = [65531, 65532, 65535, 0, 1] ∧
    validSize 64 = true := by
  refine ⟨by decide +kernel, by decide, by decide⟩


/-- the specification state of that history: first 65530, highest 65538 (= 2 after the wrap), received inside
the window 65530, 65533, 65534, 65538. -/
example : (runSpec 64 [65530, 65534, 2, 65533]).map (fun a => (a.first, a.hi, a.recv))
    = some (65530, 65538, [65533, 65538, 65534, 65530]) := by decide

/-- non-vacuity of `requested_iff_src`: x = 65535 (after the first packet, inside the window, ≤ hi − 1, not
received) is requested; x = 65537 = 1 (mod 2^16) likewise. -/
example : (srcMissing 70 64 [65530, 65534, 2, 65533] 1).map (fun out =>
    (decide ((65535 % 65536 : Int) ∈ out), decide ((65537 % 65536 : Int) ∈ out))) = some (true, true) := by
  decide +kernel

/-- non-vacuity of `received_never_requested_src`: 65533 and 65534 were received inside the window. -/
example : (srcMissing 70 64 [65530, 65534, 2, 65533] 1).map (fun out =>
    (decide ((65533 % 65536 : Int) ∈ out), decide ((65534 % 65536 : Int) ∈ out))) = some (false, false) := by
  decide +kernel

/-- non-vacuity of `nothing_ahead_requested_src`: with skip 1 the highest number 65538 (= 2) is not requested,
nor is anything ahead of it (65539 = 3); every requested number is ≥ hi − 63. -/
example : (srcMissing 70 64 [65530, 65534, 2, 65533] 1).map (fun out =>
    (decide ((65538 % 65536 : Int) ∈ out), decide ((65539 % 65536 : Int) ∈ out))) = some (false, false) := by
  decide +kernel

/-- non-vacuity of `nothing_before_first_requested_src`: 65530 (the first packet) and 65529 (before it, inside
the window of 64) are not requested. -/
example : (srcMissing 70 64 [65530, 65534, 2, 65533] 1).map (fun out =>
    (decide ((65530 % 65536 : Int) ∈ out), decide ((65529 % 65536 : Int) ∈ out))) = some (false, false) := by
  decide +kernel

/-- the F-01 pattern: 36 = 100 − 64 arrives when the window is (37, 101]; the generated code ignores it and
keeps requesting 100 (same slot as 36). -/
example : srcMissing 200 64 [0, 99, 101, 36] 0 = some ((List.range 61).map (fun n => ((n + 38 : Nat) : Int)) ++ [100]) := by
  decide +kernel

end Interceptor.C03Src

/-
C04 — NACK responder retransmits exactly what was sent.
Only property theorems live here; models in Model/RtpBuffer.lean, Model/RefMachine.lean, specs in
Spec/RtpBuffer.lean, Spec/Rtx.lean, helper lemmas in Proofs/{RtpBuffer,RtpBufferInv,Responder,
ResponderClear,ResponderClose,AddConserve,SpecChar,RefMachine}.lean.  The model is the code *after* the fixes F-04, F-05, F-36 and (made under C11) F-06.
-/
import Interceptor.Proofs.ResponderClear
import Interceptor.Proofs.RefMachine
import Interceptor.Proofs.AddConserve
import Interceptor.Proofs.ResponderClose
import Interceptor.Proofs.SpecChar
set_option linter.unusedVariables false

namespace Interceptor.RtpBuffer
open Interceptor

/-! ### 1. the ring returns exactly the retransmittable packet -/

/-- ★ T1 `get_eq_spec` (one state): under the ring invariant ("slot i holds the newest in-window
packet whose number maps to i, or nothing") `Get x` is the spec's retransmittable packet for `x`:
the last packet sent with number `x`, provided `x` is within the most recent `size` numbers up to
the highest one sent. -/
theorem get_eq_spec {α : Type} (seqOf : α → Nat) (b : Buf α) (s : SBuf α) (h : Inv seqOf b s)
    (x : Nat) (hx : x < 65536) : get seqOf b x = s.get seqOf x :=
  get_eq_of_inv h x hx

/-- ★ T1 for all add orders: any list of `Add`s (in-order, gaps, late, duplicates, wrap-around: no
hypothesis on the order) on a fresh buffer of any accepted size; every `x`. -/
theorem get_eq_spec_all_orders {α : Type} (seqOf : α → Nat) (n : Nat) (b : Buf α)
    (hb : Buf.new n = some b) (ps : List α) (hps : ∀ p ∈ ps, seqOf p < 65536) (x : Nat) (hx : x < 65536) :
    get seqOf (addAll seqOf b ps) x = ((SBuf.new n).sendAll seqOf ps).get seqOf x :=
  get_eq_of_inv (inv_addAll (inv_new hb) ps hps) x hx

example : ∃ b : Buf Nat, Buf.new 8 = some b := ⟨_, rfl⟩

/-- the invariant is established by `NewRTPBuffer` and kept by `Add` and `Clear`. -/
theorem ring_invariant {α : Type} (seqOf : α → Nat) :
    (∀ n (b : Buf α), Buf.new n = some b → Inv seqOf b (SBuf.new n)) ∧
    (∀ (b : Buf α) s p, Inv seqOf b s → seqOf p < 65536 → Inv seqOf (add seqOf b p).1 (s.send seqOf p)) ∧
    (∀ (b : Buf α) s, Inv seqOf b s → Inv seqOf (clear b).1 s.clear) :=
  ⟨fun _ _ h => inv_new h, fun _ _ p h hp => inv_add h p hp, fun _ _ h => inv_clear h⟩

/-- what the spec returns was sent, with the requested number (so: never sent ⇒ nothing). -/
theorem spec_get_was_sent {α : Type} (seqOf : α → Nat) (n : Nat) (ps : List α) (x : Nat) (p : α)
    (h : ((SBuf.new n).sendAll seqOf ps).get seqOf x = some p) : p ∈ ps ∧ seqOf p = x := by
  unfold SBuf.get at h
  split at h
  · have hm := List.mem_of_find?_eq_some h
    have hp := List.find?_some h
    rcases sendAll_m_subset seqOf _ ps p hm with h1 | h1
    · exact ⟨h1, by simpa using hp⟩
    · simp [SBuf.new] at h1
  · cases h

/-- a number outside the most recent `size` numbers up to the highest gives nothing. -/
theorem spec_outside_window {α : Type} (seqOf : α → Nat) (s : SBuf α) (x : Nat)
    (h : ¬ sub16 s.hi x < s.size) : s.get seqOf x = none := by
  unfold SBuf.get inWin; simp [h]

example : ¬ sub16 20 4 < 8 := by decide

/-! ### 2. one retransmission per request, in request order, nothing for unbound streams -/

/-- ★ T2 `resend_exact`: after any history of bind / write / unbind / close operations on a fresh
responder, a NACK leaves the state unchanged and
* if the responder has been closed: writes nothing (also for streams bound after `Close`);
* otherwise, for a bound SSRC: writes exactly `[retransmittable x | x ∈ expand nack,
  retransmittable x ≠ none]` to that stream's writer — one per request, in request order, where
  `retransmittable` is the spec of what was written to the stream since it was bound;
* for an SSRC that is not bound: writes nothing. -/
theorem resend_exact (n k : Nat) (r0 : Resp) (h0 : Resp.new n k = some r0) (ops : List Op)
    (hok : ∀ op ∈ ops, op.ok) (ssrc : Nat) (pairs : List (Nat × Nat)) (hp : ∀ pr ∈ pairs, pr.1 < 65536) :
    let r := (runOps r0 (fun _ => emptySpec) ops).1
    let sp := (runOps r0 (fun _ => emptySpec) ops).2
    r.hold = false →
    r.nack ssrc pairs =
      (r, if r.closed = true then []
          else match lookupBound r.bound ssrc with
            | none => []
            | some w => ((expand pairs).filterMap ((sp w).get Pkt.seq)).map (fun p => (w, p))) := by
  intro r sp hh
  have hi : RespInv r sp := respInv_run (respInv_new h0) ops hok
  unfold Resp.nack
  by_cases hc : r.closed = true
  · rw [if_pos hc, if_pos hc]
  · rw [if_neg hc, if_neg hc]
    cases hl : lookupBound r.bound ssrc with
    | none => rfl
    | some w =>
      simp only [hh]
      rw [resendAll_eq hi w _ (expand_lt pairs hp)]
      rfl

example : ∃ r, Resp.new 8 0 = some r := ⟨_, rfl⟩

/-- T2, unbound clause on its own: whatever the state. -/
theorem resend_unbound (r : Resp) (ssrc : Nat) (pairs : List (Nat × Nat))
    (h : lookupBound r.bound ssrc = none) : (r.nack ssrc pairs).2 = [] := by
  rw [nack_unbound r ssrc pairs h]

example : lookupBound ([] : List (Nat × Nat)) 5 = none := rfl

/-- T2 while the downstream writer is slow (a resend goroutine sits inside `Write`): the packet it
holds is the retransmittable one of the moment it was requested, and when it goes on it serves the
rest of its requests from the buffer as it is then. -/
theorem resend_inflight (r : Resp) (sp : Specs) (hi : RespInv r sp) (pd : Pending)
    (hp : r.pending = some pd) (hr : ∀ x ∈ pd.rest, x < 65536) :
    r.resume.2 = (pd.w, pd.held) :: ((pd.rest.filterMap ((sp pd.w).get Pkt.seq)).map (fun p => (pd.w, p))) := by
  unfold Resp.resume
  rw [hp]
  simp only [resendAll_eq hi pd.w pd.rest hr]

/-! ### 3. the stored form -/

/-- ★ T3 `rtx_form`: with RTX negotiated, a payload of at most 1460 bytes (everything
`NewPacket` accepts) and, in the legacy padding form, a padding count that fits in the payload,
the stored packet is the RFC 4588 form: RTX SSRC and payload type, fresh RTX sequence number,
padding flag and size cleared, payload = original sequence number (2 bytes, big endian) ++
original payload without padding.  No truncation (F-05 fixed); the prefix is never mistaken for
padding, in particular not for a padding-only packet with an empty payload (F-36 fixed). -/
theorem rtx_form (h : Hdr) (pl : List Nat) (rs rp k : Nat) (hon : rtxOn rs rp = true)
    (hlen : pl.length ≤ 1460) (hfit : PaddingFits h pl) :
    newPacket h pl rs rp k = (.ok (rtxForm h pl rs rp k), true) := by
  unfold newPacket rtxForm dropPadding
  have h1 : ¬ pl.length > maxPayloadLen := by unfold maxPayloadLen; omega
  simp only [h1, if_false, hon, if_true]
  have hlen2 : (be16 h.seq ++ pl).length = pl.length + 2 := by simp [be16]
  by_cases hp : h.padding = true
  · by_cases hps : h.paddingSize = 0
    · by_cases hne : pl = []
      · subst hne
        simp [hp, hps, be16]
      · have hle := hfit hp hps
        have hl : (be16 h.seq ++ pl).getLastD 0 = pl.getLastD 0 := getLastD_append_ne hne
        have hpos : pl.length > 0 := List.length_pos_iff.2 hne
        simp only [hp, hps, hl, hlen2, true_and, if_true]
        have h2 : pl.length + 2 > 2 := by omega
        have h3 : ¬ pl.getLastD 0 > pl.length + 2 - 2 := by omega
        simp only [h2, h3, if_false, if_true]
        have ht : List.take (pl.length + 2 - pl.getLastD 0) (be16 h.seq ++ pl)
                = be16 h.seq ++ List.take (pl.length - pl.getLastD 0) pl := by
          rw [List.take_append]
          have : (be16 h.seq).length = 2 := rfl
          rw [this, List.take_of_length_le (by rw [this]; omega)]
          congr 2; omega
        rw [ht]
    · simp [hp, hps]
  · have hp' : h.padding = false := by simpa using hp
    simp [hp']

example : rtxOn 2000 97 = true ∧ PaddingFits default [1, 2, 3] := by
  refine ⟨by decide, ?_⟩; intro h; cases h

/-- T3, the complement of `PaddingFits`: a legacy padding count larger than the payload it sits
in is refused with `errPaddingOverflow` (the RTX sequencer has been advanced). Together with
`rtx_form` and `newPacket_too_long` this describes `NewPacket` with RTX on every input. -/
theorem rtx_padding_overflow (h : Hdr) (pl : List Nat) (rs rp k : Nat) (hon : rtxOn rs rp = true)
    (hlen : pl.length ≤ 1460) (hp : h.padding = true) (hps : h.paddingSize = 0)
    (hover : pl.getLastD 0 > pl.length) :
    newPacket h pl rs rp k = (.error .padding, true) := by
  unfold newPacket
  have h1 : ¬ pl.length > maxPayloadLen := by unfold maxPayloadLen; omega
  have hne : pl ≠ [] := by intro c; subst c; simp at hover
  have hl : (be16 h.seq ++ pl).getLastD 0 = pl.getLastD 0 := getLastD_append_ne hne
  have hlen2 : (be16 h.seq ++ pl).length = pl.length + 2 := by simp [be16]
  have hpos : pl.length > 0 := List.length_pos_iff.2 hne
  simp only [h1, if_false, hon, if_true, hp, hps, hl, hlen2, true_and]
  have h2 : pl.length + 2 > 2 := by omega
  have h3 : pl.getLastD 0 > pl.length + 2 - 2 := by omega
  simp only [h2, h3, if_true]

example : ([0, 1, 200] : List Nat).getLastD 0 > ([0, 1, 200] : List Nat).length := by decide

/-- T3, the former defect F-36 as a positive statement: a padding-only packet in the legacy form
(padding flag, `PaddingSize` 0, empty payload) is stored as exactly the original-sequence-number
prefix, whatever the sequence number's low byte is. -/
theorem rtx_form_padding_only (h : Hdr) (rs rp k : Nat) (hon : rtxOn rs rp = true)
    (hp : h.padding = true) (hps : h.paddingSize = 0) :
    newPacket h [] rs rp k =
      (.ok { seq := h.seq,
             hdr := { h with ssrc := rs, pt := rp, seq := k, padding := false, paddingSize := 0 },
             payload := be16 h.seq }, true) := by
  have := rtx_form h [] rs rp k hon (by simp) (by intro _ _; simp)
  rw [this]
  simp [rtxForm, dropPadding, hp, hps]

/-- ★ T3 `copy_form`: without RTX the stored packet is the packet (equal header and payload
values; that the storage is disjoint from the caller's is C13's statement and is checked by the
correspondence, which scribbles over the caller's buffers after every call). -/
theorem copy_form (h : Hdr) (pl : List Nat) (rs rp k : Nat) (hoff : rtxOn rs rp = false)
    (hlen : pl.length ≤ 1460) :
    newPacket h pl rs rp k = (.ok { seq := h.seq, hdr := h, payload := pl }, false) := by
  unfold newPacket
  have h1 : ¬ pl.length > maxPayloadLen := by unfold maxPayloadLen; omega
  simp [h1, hoff]

example : rtxOn 0 97 = false := by decide

/-- payloads above 1460 bytes are refused (and, in the responder, not forwarded). -/
theorem newPacket_too_long (h : Hdr) (pl : List Nat) (rs rp k : Nat) (hlen : pl.length > 1460) :
    newPacket h pl rs rp k = (.error .short, false) := by
  unfold newPacket maxPayloadLen; simp [hlen]

/-! ### 5. unbind / close -/

/-- T5 `unbind_clears`: after `UnbindLocalStream` a NACK for that SSRC produces nothing … -/
theorem unbind_clears (r : Resp) (ssrc : Nat) (pairs : List (Nat × Nat)) :
    ((r.unbind ssrc).nack ssrc pairs).2 = [] := by
  apply resend_unbound
  unfold Resp.unbind
  cases h : lookupBound r.bound ssrc with
  | none => exact h
  | some w => simp only [clearStream_bound]; exact lookupBound_filter_self _ _

/-- … and every slot of the stream's ring is empty. -/
theorem unbind_empties (r : Resp) (ssrc w : Nat) (st : Stream) (b : Buf Pkt)
    (hl : lookupBound r.bound ssrc = some w) (hs : (r.unbind ssrc).streams[w]? = some st)
    (hb : st.buf = some b) (i : Nat) : slot b.slots i = none := by
  unfold Resp.unbind at hs
  rw [hl] at hs
  unfold clearStream at hs
  simp only at hs
  cases h0 : r.streams[w]? with
  | none => rw [h0] at hs; simp only at hs; rw [h0] at hs; cases hs
  | some st0 =>
    rw [h0] at hs
    simp only at hs
    cases hb0 : st0.buf with
    | none => rw [hb0] at hs; simp only at hs; rw [h0] at hs; cases hs; rw [hb0] at hb; cases hb
    | some b0 =>
      rw [hb0] at hs
      simp only [Array.getElem?_setIfInBounds, if_true] at hs
      have hlt : w < r.streams.size := (Array.getElem?_eq_some_iff.1 h0).1
      simp only [hlt, if_true] at hs
      cases hs
      simp only at hb
      cases hb
      simp [clear, slot_replicate]

/-- T5 for `Close`: every later NACK produces nothing. -/
theorem close_clears (r : Resp) (ssrc : Nat) (pairs : List (Nat × Nat)) :
    (r.close.nack ssrc pairs).2 = [] := by
  rw [nack_closed _ _ _ (close_closed r)]

/-- T5 for `Close`, for good: whatever is bound, written, unbound or closed afterwards, a NACK
produces nothing (the code's `closed` flag is never reset). -/
theorem close_is_final (r : Resp) (sp : Specs) (ops : List Op) (ssrc : Nat) (pairs : List (Nat × Nat)) :
    ((runOps r.close sp ops).1.nack ssrc pairs) = ((runOps r.close sp ops).1, []) :=
  nack_closed _ _ _ (runOps_closed _ _ _ (close_closed r))

/-- `Close` does not cancel or outrun a retransmission in flight: the resend goroutine held in
the downstream `Write` is still there, and `Close` is waiting for it (it returns at `resume`). -/
theorem close_waits_for_inflight (r : Resp) (pd : Pending) (h : r.pending = some pd) :
    r.close.pending = some pd ∧ r.close.closeWaiting = true := by
  refine ⟨by rw [close_pending, h], ?_⟩
  rw [close_closeWaiting, h]; simp

example : ∃ r : Resp, ∃ pd, r.pending = some pd :=
  ⟨{ size := 1, streams := #[], bound := [], rtxNext := 0, hold := true,
     pending := some { w := 0, held := default, rest := [] }, closed := false, closeWaiting := false }, _, rfl⟩

/-- nothing is written after `Close` has returned: once the pending resend (if any) has finished —
the latest point at which `Close` returns — no operation history makes a NACK or a resumed
goroutine write anything. -/
theorem nothing_after_close_returns (r : Resp) (sp : Specs) (ops : List Op) (ssrc : Nat)
    (pairs : List (Nat × Nat)) :
    let r3 := (runOps r.close.resume.1 sp ops).1
    r3.nack ssrc pairs = (r3, []) ∧ r3.resume.2 = [] := by
  intro r3
  have hc : r.close.resume.1.closed = true := by rw [resume_closed, close_closed]
  refine ⟨nack_closed _ _ _ (runOps_closed _ _ _ hc), ?_⟩
  apply resume_idle
  show (runOps r.close.resume.1 sp ops).1.pending = none
  rw [runOps_pending, resume_pending]

/-- T5 for `Close`, slots: every stream that was bound has an all-empty ring afterwards. -/
theorem close_empties (r : Resp) (e : Nat × Nat) (he : e ∈ r.bound) (st : Stream) (b : Buf Pkt)
    (hs : r.close.streams[e.2]? = some st) (hb : st.buf = some b) (i : Nat) : slot b.slots i = none := by
  unfold Resp.close at hs
  exact clearList_allEmpty r.bound _ e.2 (Or.inl ⟨e, he, rfl⟩) st b hs hb i

/-- T4 link, `Add`: for every packet `a`, "in the ring afterwards" + "released by this Add" =
"in the ring before" + "is the new packet" — i.e. an `Add` is a sequence of the machine's `evict`
steps followed by `store` or `drop`; the one exception is a repeat of the highest number, which is
neither stored nor released (the machine's packet that stays in the writer's hand). -/
theorem add_releases_exactly {α : Type} [DecidableEq α] (seqOf : α → Nat) (b : Buf α) (s : SBuf α)
    (h : Inv seqOf b s) (p a : α) :
    if b.started = true ∧ sub16 (seqOf p) b.highest = 0 then add seqOf b p = (b, [])
    else (occ (add seqOf b p).1.slots).count a + (add seqOf b p).2.count a
           = (occ b.slots).count a + [p].count a :=
  add_conserves h p a

/-- T4 link, `Clear`: releases exactly the ring's contents and leaves the ring empty. -/
theorem clear_releases_exactly {α : Type} [DecidableEq α] (b : Buf α) (a : α) :
    (clear b).2.count a = (occ b.slots).count a ∧ occ (clear b).1.slots = [] :=
  clear_conserves b a

/-- meaning of the spec, S1: a packet the spec accepts (anything but a repeat of the highest number
or a late send outside the window) is the retransmittable packet for its number. -/
theorem spec_last_sent_wins {α : Type} (seqOf : α → Nat) (s : SBuf α) (h : SBuf.WF seqOf s) (p : α)
    (hp : seqOf p < 65536) (ha : s.accepts seqOf p) : (s.send seqOf p).get seqOf (seqOf p) = some p :=
  SBuf.get_after_send_self h p hp ha

/-- meaning of the spec, S2: a send does not change the retransmittable packet of any other number
that is still within the most recent `size` numbers. -/
theorem spec_others_kept {α : Type} (seqOf : α → Nat) (s : SBuf α) (h : SBuf.WF seqOf s) (p : α)
    (hp : seqOf p < 65536) (x : Nat) (hx : x < 65536) (hne : x ≠ seqOf p)
    (hw : sub16 (s.send seqOf p).hi x < s.size) : (s.send seqOf p).get seqOf x = s.get seqOf x :=
  SBuf.get_after_send_other h p hp x hx hne hw

/-- the spec's well-formedness is established by `new` (for a positive size) and kept by `send`. -/
theorem spec_wf {α : Type} (seqOf : α → Nat) :
    (∀ n, 0 < n → SBuf.WF seqOf (SBuf.new n : SBuf α)) ∧
    (∀ (s : SBuf α) p, SBuf.WF seqOf s → seqOf p < 65536 → SBuf.WF seqOf (s.send seqOf p)) :=
  ⟨fun n hn => ⟨hn, by simp [SBuf.new], by simp [SBuf.new], fun _ => rfl⟩, fun s p h hp => SBuf.wf_send h p hp⟩

example : SBuf.accepts id (SBuf.new 8 : SBuf Nat) 5 := Or.inl rfl

end Interceptor.RtpBuffer

namespace Interceptor.RefMachine

/-! ### 4. reference counting under every schedule -/

/-- ★ T4 `refcount_safe` (all schedules of the abstract machine): a packet that a resend
goroutine holds between `Get` and `Release`, or that is still in the ring, has not been handed
back to the pool — so the bytes a resend writes are the bytes that were stored. -/
theorem refcount_safe (s : St) (hr : Reachable s) (id : Nat)
    (h : id ∈ s.inflight ∨ id ∈ s.ring) : s.freed id = false := by
  have hi := inv_reachable hr
  cases hf : s.freed id with
  | false => rfl
  | true =>
    have h0 := hi.freed id hf
    have hc := hi.count id
    rcases h with h | h
    · have := count_pos' h; omega
    · have := count_pos' h; omega

/-- T4, the counting invariant: `count = [in ring] + [held by a writer] + #in-flight`. -/
theorem refcount_count (s : St) (hr : Reachable s) (id : Nat) :
    s.cnt id = s.ring.count id + s.hand.count id + s.inflight.count id :=
  (inv_reachable hr).count id

/-- T4: storage is in the pool only at count 0, when nothing references the packet any more (so it
is handed back at most once and never used afterwards). -/
theorem pool_only_at_zero (s : St) (hr : Reachable s) (id : Nat) (hf : s.freed id = true) :
    s.cnt id = 0 ∧ id ∉ s.ring ∧ id ∉ s.inflight ∧ id ∉ s.hand := by
  have hi := inv_reachable hr
  have h0 := hi.freed id hf
  have hc := hi.count id
  refine ⟨h0, ?_, ?_, ?_⟩ <;> intro hm <;> have := count_pos' hm <;> omega

/-- non-vacuity: a schedule in which a packet is evicted while a resend holds it is reachable, and
the packet is still live there. -/
example : ∃ s, Reachable s ∧ 0 ∈ s.inflight ∧ 0 ∉ s.ring ∧ s.freed 0 = false ∧ s.cnt 0 = 1 := by
  have s1 := Reachable.step Reachable.init (Step.new init)
  have s2 := Reachable.step s1 (Step.store _ 0 (by simp [init]))
  have s3 := Reachable.step s2 (Step.get _ 0 (by simp [init]) (by simp [init]))
  have s4 := Reachable.step s3 (Step.evict _ 0 (by simp [init]))
  exact ⟨_, s4, by simp [rel, init], by simp [rel, init], by simp [rel, init], by simp [rel, init]⟩

end Interceptor.RefMachine

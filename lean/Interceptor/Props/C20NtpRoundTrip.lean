/-
C20 — NTP conversion round trips (over the exact binary64 model, Base/F64.lean; the model is
compared bit for bit with the Go code by the `ntp` correspondence stream).
-/
import Interceptor.Proofs.NtpRoundTrip
set_option linter.unusedVariables false
namespace Interceptor.Ntp
open Interceptor.F64

/-- ★ T6: converting a Unix-nanosecond instant between 1970-01-01 and 2036-02-07 06:28:15 UTC
(`maxNs`) to the 64-bit NTP format and back returns it to within one microsecond.  (The error
budget actually gives 487 ns late / 488 ns early: `roundtrip_tight`.) -/
theorem roundtrip_1us (t : Int) (h0 : 0 ≤ t) (h : t ≤ maxNs) :
    toTime (toNTP t) - t ≤ 1000 ∧ t - toTime (toNTP t) ≤ 1000 := by
  obtain ⟨a, b⟩ := roundtrip_tight t h0 h
  constructor <;> omega

/-- ★ T7: the 32-bit middle form (`ToNTP32`, 16.16 fixed point) expanded against a reference
instant `r` in the same 2^16-second NTP window (`hw`) returns the instant to within the dropped
low 16 bits (2^-16 s ≈ 15258.8 ns, only ever downwards) plus the microsecond of T6.  (The error
budget actually gives 487 ns late / 15746 ns early: `ntp32_roundtrip_tight`.) -/
theorem ntp32_roundtrip (t r : Int) (h0 : 0 ≤ t) (h : t ≤ maxNs) (hr0 : 0 ≤ r) (hr : r ≤ maxNs)
    (hw : toNTP t / 281474976710656 = toNTP r / 281474976710656) :
    toTime32 (toNTP32 t) r - t ≤ 1000 ∧ t - toTime32 (toNTP32 t) r ≤ 16259 + 1000 := by
  obtain ⟨a, b⟩ := ntp32_roundtrip_tight t r h0 h hw
  constructor <;> omega

/-- non-vacuity / sanity: a concrete instant (2026-09-21) satisfies the hypotheses of T6, and
together with a reference 30 s later those of T7 (the window hypothesis by kernel evaluation of
the model). -/
example : toTime (toNTP 1790000000123456789) - 1790000000123456789 ≤ 1000 ∧
    1790000000123456789 - toTime (toNTP 1790000000123456789) ≤ 1000 := by
  apply roundtrip_1us <;> (try unfold maxNs) <;> decide

example : toTime32 (toNTP32 1790000000123456789) 1790000030000000000 - 1790000000123456789 ≤ 1000 ∧
    1790000000123456789 - toTime32 (toNTP32 1790000000123456789) 1790000030000000000
      ≤ 16259 + 1000 := by
  have hw : toNTP 1790000000123456789 / 281474976710656
      = toNTP 1790000030000000000 / 281474976710656 := by decide +kernel
  apply ntp32_roundtrip _ _ _ _ _ _ hw <;> (try unfold maxNs) <;> decide

end Interceptor.Ntp

#print axioms Interceptor.Ntp.roundtrip_1us
#print axioms Interceptor.Ntp.ntp32_roundtrip

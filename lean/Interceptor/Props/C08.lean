/-
C08 — RFC 8888 reports reflect the reception history and respect the size limit.
Only property theorems live here.  Model: Model/Rfc8888.lean (the code with the fixes F-10, F-11,
F-12, F-13); spec notions (`firstArrival`, `exec`, `reportAfter`, `rangeBegin`, `reportedAs`,
`atoSpec`): Spec/Rfc8888.lean; helper lemmas: Proofs/Rfc8888.lean, Proofs/Rfc8888Ato.lean.
Histories are lists of events on unwrapped numbers, newest first; `NonNeg h` says the numbers
are ≥ 0 (what the unwrapper returns: C20 `unwrap_nonneg`) and the budgets are ≥ 0 (what
`BuildReport` passes: `perStream_nonneg`).
-/
import Interceptor.Proofs.Rfc8888Aux
import Interceptor.Proofs.Rfc8888Ato
import Mathlib.Tactic.Linarith
import Mathlib.Tactic.Ring
set_option linter.unusedVariables false
namespace Interceptor.Rfc8888

/-- ★ T1 `block_range`: every emitted block is the contiguous range of numbers ending at `last`
(the highest number received), of length `min(last − next + 1, budget)`; `begin` is the uint16 of
its first number, which is `max(next, last − budget + 1)`; the j-th metric block describes the
j-th number of the range. -/
theorem block_range (l : StreamLog) (ref b : Int) (hI : Inv l) (hi : l.init = true) (hb : 0 ≤ b) :
    let blk := (metricsAfter l ref b).2
    let len := min (l.last - l.next + 1) b
    blk.ssrc = l.ssrc ∧ (blk.metrics.length : Int) = len ∧ l.last + 1 - len = rangeBegin l b ∧
    blk.begin = u16 (rangeBegin l b) ∧
    (∀ j : Nat, (j : Int) < len →
      blk.metrics[j]? = some (mkMetric ref (lookup l.log (rangeBegin l b + j)))) ∧
    (l.next ≤ l.last → lookup l.log l.last ≠ none) := by
  intro blk len
  have hord := hI.ord hi
  have hrb : l.last + 1 - len = rangeBegin l b := by unfold rangeBegin; omega
  by_cases he : l.log = []
  · have hnl : ¬ l.next ≤ l.last := by
      intro h; have := hI.top hi h; rw [he] at this; exact this rfl
    have hlen : len = 0 := by omega
    have hblk : blk = ⟨l.ssrc, u16 l.next, []⟩ := by
      show (metricsAfter l ref b).2 = _; rw [metricsAfter_empty l ref b he]
    have hr2 : rangeBegin l b = l.next := by unfold rangeBegin; omega
    refine ⟨by rw [hblk], by rw [hblk, hlen]; rfl, hrb, by rw [hblk, hr2], ?_, fun h => absurd h hnl⟩
    intro j hj; omega
  · have hblk : blk = ⟨(truncate l b).ssrc, u16 (truncate l b).next,
        emit ref (truncate l b).log ((truncate l b).last - (truncate l b).next + 1).toNat (truncate l b).next⟩ := by
      show (metricsAfter l ref b).2 = _; rw [metricsAfter_eq l ref b he]
    obtain ⟨k, hk⟩ := lookup_of_ne_nil l.log he
    have hkk := hI.keys k hk
    have hn : (((truncate l b).last - (truncate l b).next + 1).toNat : Int) = len := by
      rw [truncate_last, truncate_next, ← hrb]; omega
    refine ⟨by rw [hblk, truncate_ssrc], by rw [hblk]; simp only [emit_length]; exact hn, hrb,
      by rw [hblk, truncate_next], ?_, fun h => hI.top hi h⟩
    intro j hj
    rw [hblk]
    simp only []
    rw [emit_get ref _ _ _ j (by omega), truncate_next, truncate_lookup, if_neg (by omega)]

/-- ★ T2 `received_iff`: the report built after history `h` lists exactly the numbers
`rangeBegin … last`, none of them acknowledged yet (`next ≤ rangeBegin`), and describes number `n`
by `mkMetric ref (firstArrival h n)`: marked received iff a copy of `n` arrived, with the ECN mark
and the arrival time offset of the FIRST copy (false on the unfixed code: F-10). -/
theorem received_iff (ssrc : Nat) (h : List Ev) (hn : NonNeg h) (ref b : Int) (hb : 0 ≤ b)
    (hi : (exec ssrc h).init = true) (n : Int) :
    (exec ssrc h).next ≤ rangeBegin (exec ssrc h) b ∧
    reportedAs (reportAfter ssrc h ref b) (rangeBegin (exec ssrc h) b) n =
      if rangeBegin (exec ssrc h) b ≤ n ∧ n ≤ (exec ssrc h).last
      then some (mkMetric ref (firstArrival h n)) else none := by
  have hI := inv_exec ssrc h hn
  obtain ⟨_, hlen, hrb, _, hget, _⟩ := block_range (exec ssrc h) ref b hI hi hb
  have hfirst := (exec_first ssrc h).2.1
  have hge : (exec ssrc h).next ≤ rangeBegin (exec ssrc h) b := by unfold rangeBegin; omega
  refine ⟨hge, ?_⟩
  unfold reportedAs reportAfter
  by_cases h1 : rangeBegin (exec ssrc h) b ≤ n
  · rw [if_pos h1]
    by_cases h2 : n ≤ (exec ssrc h).last
    · rw [if_pos ⟨h1, h2⟩, hget (n - rangeBegin (exec ssrc h) b).toNat (by omega)]
      have : rangeBegin (exec ssrc h) b + ((n - rangeBegin (exec ssrc h) b).toNat : Int) = n := by omega
      rw [this, hfirst n (by omega)]
    · rw [if_neg (by omega)]
      apply List.getElem?_eq_none
      omega
  · rw [if_neg h1, if_neg (by omega)]

/-- T2, read off for one metric block: received ⇔ some copy arrived; ECN and offset are those of
the first copy. -/
theorem received_iff_first (ssrc : Nat) (h : List Ev) (hn : NonNeg h) (ref b : Int) (hb : 0 ≤ b)
    (hi : (exec ssrc h).init = true) (n : Int) (m : Metric)
    (hm : reportedAs (reportAfter ssrc h ref b) (rangeBegin (exec ssrc h) b) n = some m) :
    (m.received = true ↔ firstArrival h n ≠ none) ∧
    (∀ e, firstArrival h n = some e → m.ecn = e.ecn ∧ m.ato = getATO ref e.arrival) := by
  have := (received_iff ssrc h hn ref b hb hi n).2
  rw [this] at hm
  split at hm
  · cases hf : firstArrival h n with
    | none => rw [hf] at hm; cases hm; simp [mkMetric]
    | some e => rw [hf] at hm; cases hm; simp [mkMetric]
  · cases hm

/-- ★ T3 `never_unreceive`: a number reported received by the report after `h1` is reported
received by every later report that still lists it, with the same arrival record. -/
theorem never_unreceive (ssrc : Nat) (h1 h2 : List Ev) (hn : NonNeg (h2 ++ h1))
    (ref1 b1 ref2 b2 : Int) (hb1 : 0 ≤ b1) (hb2 : 0 ≤ b2) (hi : (exec ssrc h1).init = true)
    (n : Int) (m1 m2 : Metric)
    (hr1 : reportedAs (reportAfter ssrc h1 ref1 b1) (rangeBegin (exec ssrc h1) b1) n = some m1)
    (hrec : m1.received = true)
    (hr2 : reportedAs (reportAfter ssrc (h2 ++ h1) ref2 b2) (rangeBegin (exec ssrc (h2 ++ h1)) b2) n = some m2) :
    m2.received = true ∧ ∃ e, firstArrival h1 n = some e ∧ m2 = mkMetric ref2 (some e) := by
  have hn1 := nonNeg_append h2 h1 hn
  have r1 := (received_iff_first ssrc h1 hn1 ref1 b1 hb1 hi n m1 hr1).1.1 hrec
  cases hf : firstArrival h1 n with
  | none => exact absurd hf r1
  | some e =>
    have hf2 := firstArrival_mono h1 h2 n e hf
    have hi2 := exec_init_mono ssrc h1 h2 hi
    have r2 := (received_iff ssrc (h2 ++ h1) hn ref2 b2 hb2 hi2 n).2
    rw [r2] at hr2
    split at hr2
    · rw [hf2] at hr2; cases hr2; exact ⟨rfl, e, rfl, rfl⟩
    · cases hr2

/-- T3, the mechanism: the report cursor never moves backwards. -/
theorem cursor_monotone (l : StreamLog) (ref b : Int) : l.next ≤ (metricsAfter l ref b).1.next :=
  metricsAfter_next_ge l ref b

/-- ★ T4 `next_report_complete`: every number whose first copy has arrived and that is not yet
acknowledged (`next ≤ n`) appears, marked received with its first arrival, in the next report —
unless it is older than the newest `b` numbers (pushed out by the size limit). -/
theorem next_report_complete (ssrc : Nat) (h : List Ev) (hn : NonNeg h) (ref b : Int) (hb : 0 ≤ b)
    (hi : (exec ssrc h).init = true) (n : Int) (e : Entry) (hf : firstArrival h n = some e)
    (hc : (exec ssrc h).next ≤ n) (hnew : (exec ssrc h).last - b < n) :
    reportedAs (reportAfter ssrc h ref b) (rangeBegin (exec ssrc h) b) n =
      some ⟨true, e.ecn, getATO ref e.arrival⟩ := by
  have hI := inv_exec ssrc h hn
  have hl : lookup (exec ssrc h).log n ≠ none := by rw [(exec_first ssrc h).2.1 n hc, hf]; simp
  have hk := hI.keys n hl
  rw [(received_iff ssrc h hn ref b hb hi n).2, if_pos ⟨by unfold rangeBegin; omega, hk.2⟩, hf]
  rfl

/-- T4, the other half: the cursor passes a number only if it was received and listed as received in
this very report (a gap-free prefix), or if the size limit pushed it out (`n ≤ last − b`).  (A number
below the cursor of the very first packet of a stream is never part of any report.) -/
theorem cursor_passes_only (l : StreamLog) (ref b : Int) (n : Int)
    (h1 : l.next ≤ n) (h2 : n < (metricsAfter l ref b).1.next) :
    n ≤ l.last - b ∨ (rangeBegin l b ≤ n ∧ lookup l.log n ≠ none) := by
  by_cases he : l.log = []
  · rw [metricsAfter_empty l ref b he] at h2; simp only [] at h2; omega
  · rw [metricsAfter_eq l ref b he] at h2
    simp only [truncate_next, truncate_last] at h2
    by_cases hr : n < rangeBegin l b
    · left; unfold rangeBegin at hr; omega
    · right
      refine ⟨by omega, ?_⟩
      have := ack_prefix _ _ _ n (by omega) h2
      rw [truncate_lookup, if_neg (by omega)] at this
      exact this

/-! ### size -/

/-- ★ T5 `size_bound`: when the maximum size can hold the headers (12 bytes + 8 per stream), the
marshalled report (pion/rtcp length: 12 + Σ (8 + 2·n_i, n_i rounded up to even)) does not exceed it
(false on the unfixed code: F-11). -/
theorem size_bound (r : Recorder) (now maxSize : Int)
    (h : 12 + 8 * (r.streams.length : Int) ≤ maxSize) :
    (marshalledLen (buildReport r now maxSize).2 : Int) ≤ maxSize := by
  unfold buildReport marshalledLen
  by_cases he : r.streams.isEmpty = true
  · simp only [he, if_true, List.map_nil, List.sum_nil]; omega
  · simp only [he, Bool.false_eq_true, if_false]
    have hk : 0 < r.streams.length := by
      cases hs : r.streams with
      | nil => rw [hs] at he; simp at he
      | cons a t => simp
    obtain ⟨hp0, hpe⟩ := perStream_nonneg maxSize r.streams.length
    have hsum := buildAll_sum now (perStream maxSize r.streams.length) (perStream maxSize r.streams.length).toNat
      (by omega) (by omega) r.streams
    -- k * perStream ≤ (maxSize - 12 - 8k) / 2
    have hbud : (r.streams.length : Int) * perStream maxSize r.streams.length * 2 ≤ maxSize - 12 - 8 * (r.streams.length : Int) := by
      dsimp only [perStream]
      have hq : max (Int.tdiv (maxSize - 12 - 8 * (r.streams.length : Int)) 2) 0 = (maxSize - 12 - 8 * (r.streams.length : Int)) / 2 := by
        rw [Int.tdiv_eq_ediv_of_nonneg (by omega)]; omega
      rw [hq]
      have hq0 : 0 ≤ (maxSize - 12 - 8 * (r.streams.length : Int)) / 2 := by omega
      have hM : (maxSize - 12 - 8 * (r.streams.length : Int)) / 2 * 2 ≤ maxSize - 12 - 8 * (r.streams.length : Int) := by omega
      generalize (maxSize - 12 - 8 * (r.streams.length : Int)) / 2 = q at hq0 hM ⊢
      rw [Int.tdiv_eq_ediv_of_nonneg hq0]
      have hkz : (r.streams.length : Int) ≠ 0 := by omega
      have h1 := Int.mul_ediv_self_le (x := q) hkz
      have h2 : 0 ≤ q / (r.streams.length : Int) := Int.ediv_nonneg hq0 (Int.natCast_nonneg _)
      generalize q / (r.streams.length : Int) = p0 at h1 h2 ⊢
      rw [Int.tmod_eq_emod_of_nonneg h2]
      have h3 : p0 - p0 % 2 ≤ p0 := by omega
      have h4 : (r.streams.length : Int) * (p0 - p0 % 2) ≤ (r.streams.length : Int) * p0 :=
        Int.mul_le_mul_of_nonneg_left h3 (by omega)
      linarith
    have hcast : ((r.streams.length * (8 + 2 * (perStream maxSize r.streams.length).toNat) : Nat) : Int)
        = 8 * (r.streams.length : Int) + (r.streams.length : Int) * perStream maxSize r.streams.length * 2 := by
      push_cast
      rw [Int.toNat_of_nonneg hp0]
      ring
    omega

/-- glue to the code path: `streamLog.add` is `addU` on the unwrapped number, which is ≥ 0 as long
as the unwrapper state is (initially empty; kept by this very step) — so the histories the
Recorder produces satisfy `NonNeg` (budgets: `perStream_nonneg`). -/
theorem add_is_addU_nonneg (l : StreamLog) (ts : Int) (sn ecn : Nat) (hsn : sn < 65536)
    (hs : ∀ x, l.seq = some x → 0 ≤ x) :
    ∃ u : Int, 0 ≤ u ∧ add l ts sn ecn = addU { l with seq := some u } ts u ecn ∧
      (add l ts sn ecn).seq = some u :=
  add_unwrapped l ts sn ecn hsn hs

/-- the per-stream budget `BuildReport` passes to `metricsAfter` is ≥ 0 and even. -/
theorem budget_nonneg_even (maxSize : Int) (k : Nat) :
    0 ≤ perStream maxSize k ∧ perStream maxSize k % 2 = 0 := perStream_nonneg maxSize k

/-! ### arrival time offset -/

/-- ★ T6 `ato_encoding`: the offset computed by the Go expression in binary64
(`uint16(base.Sub(arrival).Seconds() * 1024.0)` after the saturation test, modelled with the exact
binary64 arithmetic of Base/F64) equals the exact encoding `atoSpec` — `⌊1024·age⌋`, `0x1FFE` from
8190/1024 s upwards, `0x1FFF` for arrivals after the report time — for ALL pairs of times,
including ages > 64 s (false on the unfixed code: F-12) and ages beyond the range of
`time.Duration`. -/
theorem ato_encoding (ref arr : Int) : getATO ref arr = atoSpec ref arr := getATO_eq_spec ref arr

/-- T6 spelled out in nanoseconds. -/
theorem ato_encoding_cases (ref arr : Int) :
    (ref < arr → getATO ref arr = 0x1FFF) ∧
    (arr ≤ ref → 1024 * (ref - arr) < 8190 * 1000000000 →
      (getATO ref arr : Int) = 1024 * (ref - arr) / 1000000000) ∧
    (arr ≤ ref → 8190 * 1000000000 ≤ 1024 * (ref - arr) → getATO ref arr = 0x1FFE) := by
  rw [ato_encoding]
  unfold atoSpec
  refine ⟨fun h => by rw [if_pos h], fun h h2 => ?_, fun h h2 => ?_⟩
  · rw [if_neg (by omega)]; omega
  · rw [if_neg (by omega)]; omega

/-! ### non-vacuity: the hypotheses of the theorems above are met by concrete runs -/

example : NonNeg exampleHist ∧ (exec 1 exampleHist).init = true ∧ Inv (exec 1 exampleHist) :=
  ⟨exampleHist_nonNeg, by decide, inv_exec 1 exampleHist exampleHist_nonNeg⟩
/-- T2/T3/T4: 10 was acknowledged by the first report, 11 is still missing, 12 and 13 are listed;
the first copy of 10 (time 3, ECN 1) is the one recorded. -/
example : (exec 1 exampleHist).next = 11 ∧ (exec 1 exampleHist).last = 13 ∧
    firstArrival exampleHist 10 = some ⟨3, 1⟩ ∧ firstArrival exampleHist 11 = none ∧
    firstArrival exampleHist 12 = some ⟨9, 0⟩ ∧
    rangeBegin (exec 1 exampleHist) 10 = 11 ∧ rangeBegin (exec 1 exampleHist) 2 = 12 ∧
    ((reportAfter 1 exampleHist 20 10).metrics.map (·.received)) = [false, true, true] ∧
    ((reportAfter 1 [.add 7 10 3, .add 5 13 0, .add 3 10 1] 8 10).metrics.map (·.received))
      = [true, false, false, true] := by decide
/-- T5: the budgets of the two F-11 witnesses (1 stream / 27 bytes, 2 streams / 1200 bytes). -/
example : perStream 27 1 = 2 ∧ perStream 1200 2 = 292 ∧ perStream 1500 1 = 740 ∧ perStream 19 1 = 0 := by decide
/-- T6: boundaries of the encoding. -/
example : atoSpec 1000000000 0 = 1024 ∧ atoSpec 7998046874 0 = 8189 ∧ atoSpec 7998046875 0 = 8190 ∧
    atoSpec 65000000000 0 = 8190 ∧ atoSpec 0 1 = 8191 ∧ atoSpec 976562 0 = 0 ∧ atoSpec 976563 0 = 1 := by decide

end Interceptor.Rfc8888

/-
C17 — pacers deliver each accepted packet once, in order, intact, within the rate.
Only property theorems live here (helper lemmas are `theorem`s too and are audited alike).
Model: Interceptor/Model/Pacing.lean.
-/
import Interceptor.Model.Pacing
set_option linter.unusedVariables false
namespace Interceptor.Pacing

variable {α L H : Type}

/-! ## 1. FIFO, exactly once, intact — any limiter, any interleaving -/

/-- the loop's release step only splits the local queue: released ++ remaining = before. -/
theorem releaseLoop_split (c : Cfg α L) (now : Nat) (lim : L) (loc : List α) :
    (releaseLoop c now lim loc).2.1 ++ (releaseLoop c now lim loc).2.2 = loc := by
  induction loc generalizing lim with
  | nil => rfl
  | cons p l ih =>
    simp only [releaseLoop]
    split
    · simp [ih]
    · simp

/-- one event preserves `delivered ++ loc ++ chan = accepted`. -/
theorem exec_fifo (c : Cfg α L) (st : St α L) (e : Ev α)
    (h : st.delivered ++ st.loc ++ st.chan = st.accepted) :
    (exec c st e).delivered ++ (exec c st e).loc ++ (exec c st e).chan = (exec c st e).accepted := by
  cases e with
  | accept p =>
    simp only [exec, accept]
    split
    · simp only [Option.getD_some, ← h, List.append_assoc]
    · simpa using h
  | drain =>
    simp only [exec]
    split
    · exact h
    · rename_i p ch hch
      simp only [← h, hch, List.append_assoc, List.cons_append, List.nil_append]
  | tick now =>
    simp only [exec]
    have := releaseLoop_split c now st.lim st.loc
    rw [List.append_assoc st.delivered, this]
    exact h
  | setRate now r => exact h
  | close => exact h

/-- ★ T1 `fifo_exactly_once`: in every state reachable from the initial one by any sequence of
events (= any interleaving of writers with the loop's steps, any tick instants, any rate
changes, any limiter), the packets delivered so far, followed by the loop-local queue, followed
by the channel content, are exactly the accepted packets in acceptance order.  Packets are
values (stored copies), so delivered packets *are* the accepted ones: none lost, duplicated,
reordered or altered while queued. -/
theorem fifo_exactly_once (c : Cfg α L) (lim : L) (evs : List (Ev α)) :
    let st := run c (St.init lim) evs
    st.delivered ++ st.loc ++ st.chan = st.accepted := by
  have key : ∀ (evs : List (Ev α)) (st : St α L),
      st.delivered ++ st.loc ++ st.chan = st.accepted →
      (run c st evs).delivered ++ (run c st evs).loc ++ (run c st evs).chan = (run c st evs).accepted := by
    intro evs
    induction evs with
    | nil => intro st h; exact h
    | cons e es ih => intro st h; exact ih (exec c st e) (exec_fifo c st e h)
  exact key evs (St.init lim) rfl

/-- T1 corollary: what has been delivered is a prefix of what was accepted (order preserved). -/
theorem delivered_prefix (c : Cfg α L) (lim : L) (evs : List (Ev α)) :
    (run c (St.init lim) evs).delivered <+: (run c (St.init lim) evs).accepted := by
  have := fifo_exactly_once c lim evs
  simp only at this
  exact ⟨_, by rw [← List.append_assoc]; exact this⟩

/-- T1 per stream: the same equation restricted to any stream (any predicate on packets). -/
theorem fifo_per_stream (c : Cfg α L) (lim : L) (evs : List (Ev α)) (f : α → Bool) :
    let st := run c (St.init lim) evs
    st.delivered.filter f ++ st.loc.filter f ++ st.chan.filter f = st.accepted.filter f := by
  have := fifo_exactly_once c lim evs
  simp only at this
  simp only [← this, List.filter_append]

/-- T1 exactly once: if the accepted packets are pairwise distinct (e.g. distinct sequence
numbers), no packet is delivered twice and a delivered packet is no longer queued. -/
theorem exactly_once (c : Cfg α L) (lim : L) (evs : List (Ev α))
    (hd : (run c (St.init lim) evs).accepted.Nodup) :
    let st := run c (St.init lim) evs
    st.delivered.Nodup ∧ ∀ p ∈ st.delivered, p ∉ st.loc ∧ p ∉ st.chan := by
  have h := fifo_exactly_once c lim evs
  simp only at h
  rw [← h] at hd
  simp only [List.nodup_append, List.mem_append] at hd
  refine ⟨hd.1.1, fun p hp => ⟨fun hl => ?_, fun hc => ?_⟩⟩
  · exact hd.1.2.2 p hp p hl rfl
  · exact hd.2.2 p (Or.inl hp) p hc rfl

/-- the events of `tick` are the loop's guard: a packet is released only when
`Budget(now) > 8·len` held for it at that tick. -/
theorem release_guarded (c : Cfg α L) (now : Nat) (lim : L) (p : α) (l : List α)
    (h : c.lm.budgetGt lim now (8 * c.sz p) = false) :
    releaseLoop c now lim (p :: l) = (lim, [], p :: l) := by
  simp [releaseLoop, h]

/-! ## 2. rate envelope — exact token bucket -/

/-- bits of a list of packets. -/
def bits (sz : α → Nat) : List α → Nat
  | [] => 0
  | p :: l => 8 * sz p + bits sz l

theorem bits_append (sz : α → Nat) (a b : List α) : bits sz (a ++ b) = bits sz a + bits sz b := by
  induction a with
  | nil => simp [bits]
  | cons p l ih => simp [bits, ih]; omega

/-- `Σ rateᵢ·Δtᵢ` (unit 10⁻⁹ bit) along an event list, the rate being piecewise constant
between `setRate` events; `r`,`t` = rate and time of the last timed event. -/
def credit : Nat → Nat → List (Ev α) → Nat
  | _, _, [] => 0
  | r, t, .tick now :: es => r * (now - t) + credit r now es
  | r, t, .setRate now r' :: es => r * (now - t) + credit r' now es
  | r, t, .accept _ :: es => credit r t es
  | r, t, .drain :: es => credit r t es
  | r, t, .close :: es => credit r t es

/-- timestamps of the timed events never decrease. -/
def Mono : Nat → List (Ev α) → Prop
  | _, [] => True
  | t, .tick now :: es => t ≤ now ∧ Mono now es
  | t, .setRate now _ :: es => t ≤ now ∧ Mono now es
  | t, .accept _ :: es => Mono t es
  | t, .drain :: es => Mono t es
  | t, .close :: es => Mono t es

/-- the bucket never holds more than `burst`. -/
theorem advance_cap (g d : Nat) (tb : XTB) (t : Nat) : tb.advance g d t ≤ tb.burst * g := by
  unfold XTB.advance; exact Nat.min_le_left _ _

/-- time passing: the bucket gains at most `rate·Δt`. -/
theorem advance_time (g d : Nat) (tb : XTB) (t now : Nat) (hl : ∀ l, tb.last = some l → l ≤ t)
    (ht : t ≤ now) : tb.advance g d now ≤ tb.advance g d t + tb.rate * (now - t) := by
  unfold XTB.advance
  cases hlast : tb.last with
  | none => simp only; omega
  | some l =>
    have hlt := hl l hlast
    have e : (now - l) * tb.rate = (t - l) * tb.rate + tb.rate * (now - t) := by
      have : now - l = (t - l) + (now - t) := by omega
      rw [this, Nat.add_mul, Nat.mul_comm (now - t)]
    simp only [e]
    omega

/-- charging a released packet: what is left plus what was taken is at most what was there. -/
theorem allow_charges (g d : Nat) (tb : XTB) (now n : Nat) (h : tb.budgetGt g d now n = true) :
    (tb.allow g d now n).advance g d now + n * g ≤ tb.advance g d now ∧
    (tb.allow g d now n).rate = tb.rate ∧ (tb.allow g d now n).burst = tb.burst ∧
    (tb.allow g d now n).last = some now := by
  have hb : n * g < tb.advance g d now := by simpa [XTB.budgetGt] using h
  have hcap := advance_cap g d tb now
  have hn : n ≤ tb.burst := by
    have : n * g < tb.burst * g := by omega
    exact Nat.le_of_lt (Nat.lt_of_mul_lt_mul_right this)
  have hcond : n ≤ tb.burst ∧ n * g ≤ tb.advance g d now := ⟨hn, by omega⟩
  unfold XTB.allow
  rw [if_pos hcond]
  refine ⟨?_, rfl, rfl, rfl⟩
  generalize tb.advance g d now = tk at *
  simp only [XTB.advance, Nat.sub_self, Nat.zero_mul, Nat.add_zero]
  omega

/-- a rate change never adds tokens. -/
theorem setRate_no_gain (g d : Nat) (tb : XTB) (now r b : Nat) :
    (tb.setRate g d now r b).advance g d now ≤ tb.advance g d now ∧
    (tb.setRate g d now r b).rate = r ∧ (tb.setRate g d now r b).last = some now := by
  refine ⟨?_, rfl, rfl⟩
  generalize h : tb.advance g d now = tk
  simp only [XTB.setRate, XTB.advance, Nat.sub_self, Nat.zero_mul, Nat.add_zero]
  simp only [XTB.advance] at h
  omega

/-- configuration over the exact bucket. -/
def xcfg (g d : Nat) (sz : α → Nat) (cap ivl : Nat) : Cfg α XTB := ⟨sz, cap, ivl, xtbG g d⟩

/-- the release loop of one tick keeps `tokens(now) + g·bits released` from growing. -/
theorem releaseLoop_envelope (g d : Nat) (sz : α → Nat) (cap ivl now : Nat) (loc : List α) :
    ∀ (lim : XTB),
      ((releaseLoop (xcfg g d sz cap ivl) now lim loc).1.advance g d now
          + g * bits sz (releaseLoop (xcfg g d sz cap ivl) now lim loc).2.1 ≤ lim.advance g d now) ∧
      (releaseLoop (xcfg g d sz cap ivl) now lim loc).1.rate = lim.rate ∧
      ((∀ l, lim.last = some l → l ≤ now) →
        ∀ l, (releaseLoop (xcfg g d sz cap ivl) now lim loc).1.last = some l → l ≤ now) := by
  induction loc with
  | nil => intro lim; simp [releaseLoop, bits]
  | cons p l ih =>
    intro lim
    simp only [releaseLoop]
    split
    · rename_i hg
      have hg' : lim.budgetGt g d now (8 * sz p) = true := hg
      have hc := allow_charges g d lim now (8 * sz p) hg'
      have hi := ih (XTB.allow g d lim now (8 * sz p))
      have e1 : (xcfg g d sz cap ivl).lm.allow lim now (8 * (xcfg g d sz cap ivl).sz p)
          = XTB.allow g d lim now (8 * sz p) := rfl
      simp only [e1, bits]
      refine ⟨?_, ?_, ?_⟩
      · have := hi.1
        rw [Nat.mul_add]
        have e2 : g * (8 * sz p) = 8 * sz p * g := Nat.mul_comm _ _
        omega
      · rw [hi.2.1]; exact hc.2.1
      · intro _
        apply hi.2.2
        intro l0 hl0
        rw [hc.2.2.2] at hl0
        cases hl0
        exact Nat.le_refl _
    · simp [bits]

/-- the envelope invariant: rate as booked, `last` not in the future, and
`tokens(t) + g·bits delivered ≤ C`. -/
def EnvInv (g d : Nat) (sz : α → Nat) (st : St α XTB) (t C : Nat) : Prop :=
  (∀ l, st.lim.last = some l → l ≤ t) ∧ st.lim.advance g d t + g * bits sz st.delivered ≤ C

theorem envelope_run (g d : Nat) (sz : α → Nat) (cap ivl : Nat) (evs : List (Ev α)) :
    ∀ (st : St α XTB) (t C : Nat), EnvInv g d sz st t C → Mono t evs →
      g * bits sz (run (xcfg g d sz cap ivl) st evs).delivered ≤ C + credit st.lim.rate t evs := by
  induction evs with
  | nil =>
    intro st t C h _
    simp only [run, List.foldl_nil, credit]
    have := h.2
    omega
  | cons e es ih =>
    intro st t C h hm
    cases e with
    | accept p =>
      have hlim : (exec (xcfg g d sz cap ivl) st (.accept p)).lim = st.lim := by
        simp only [exec, accept]; split <;> rfl
      have hdel : (exec (xcfg g d sz cap ivl) st (.accept p)).delivered = st.delivered := by
        simp only [exec, accept]; split <;> rfl
      have := ih (exec (xcfg g d sz cap ivl) st (.accept p)) t C (by simpa [EnvInv, hlim, hdel] using h) hm
      simpa [run, credit, hlim] using this
    | drain =>
      have hlim : (exec (xcfg g d sz cap ivl) st .drain).lim = st.lim := by
        simp only [exec]; split <;> rfl
      have hdel : (exec (xcfg g d sz cap ivl) st .drain).delivered = st.delivered := by
        simp only [exec]; split <;> rfl
      have := ih (exec (xcfg g d sz cap ivl) st .drain) t C (by simpa [EnvInv, hlim, hdel] using h) hm
      simpa [run, credit, hlim] using this
    | close =>
      have := ih (exec (xcfg g d sz cap ivl) st .close) t C h hm
      simpa [run, credit, exec] using this
    | tick now =>
      have hm' : t ≤ now ∧ Mono now es := hm
      have ha := advance_time g d st.lim t now h.1 hm'.1
      have hr := releaseLoop_envelope g d sz cap ivl now st.loc st.lim
      have hinv : EnvInv g d sz (exec (xcfg g d sz cap ivl) st (.tick now)) now (C + st.lim.rate * (now - t)) := by
        refine ⟨?_, ?_⟩
        · exact hr.2.2 (fun l hl => Nat.le_trans (h.1 l hl) hm'.1)
        · simp only [exec, bits_append, Nat.mul_add]
          have h1 := hr.1
          have h2 := h.2
          omega
      have hrate : (exec (xcfg g d sz cap ivl) st (.tick now)).lim.rate = st.lim.rate := hr.2.1
      have := ih _ now _ hinv hm'.2
      rw [hrate] at this
      simp only [run, List.foldl_cons, credit] at this ⊢
      omega
    | setRate now r =>
      have hm' : t ≤ now ∧ Mono now es := hm
      have ha := advance_time g d st.lim t now h.1 hm'.1
      have hs := setRate_no_gain g d st.lim now r (burstOf r ivl)
      have hinv : EnvInv g d sz (exec (xcfg g d sz cap ivl) st (.setRate now r)) now (C + st.lim.rate * (now - t)) := by
        refine ⟨?_, ?_⟩
        · intro l hl
          have e : (exec (xcfg g d sz cap ivl) st (.setRate now r)).lim.last = some now := hs.2.2
          rw [e] at hl; cases hl; exact Nat.le_refl _
        · have e : (exec (xcfg g d sz cap ivl) st (.setRate now r)).lim
              = st.lim.setRate g d now r (burstOf r ivl) := rfl
          have e2 : (exec (xcfg g d sz cap ivl) st (.setRate now r)).delivered = st.delivered := rfl
          rw [e, e2]
          have h1 := hs.1
          have h2 := h.2
          omega
      have hrate : (exec (xcfg g d sz cap ivl) st (.setRate now r)).lim.rate = r := hs.2.1
      have := ih _ now _ hinv hm'.2
      rw [hrate] at this
      simp only [run, List.foldl_cons, credit] at this ⊢
      omega

/-- ★ T2 `envelope`: for the pacing interceptor over the exact token bucket, along every event
sequence with non-decreasing timestamps (any tick instants, any interleaving of writes, any
rate changes — the burst being recomputed by `burst(rate, interval)`), the bits released never
exceed the initial burst plus `Σ rateᵢ·Δtᵢ` (both sides in units of `1/g` bit; `g = 10⁹` for ns).
Since `evs` is arbitrary the bound holds at every instant (every prefix). -/
theorem envelope (g d : Nat) (sz : α → Nat) (cap ivl r0 : Nat) (evs : List (Ev α)) (hm : Mono 0 evs) :
    g * bits sz (run (xcfg g d sz cap ivl) (St.init (XTB.init g r0 (burstOf r0 ivl))) evs).delivered
      ≤ g * burstOf r0 ivl + credit r0 0 evs := by
  have hinv : EnvInv g d sz (St.init (XTB.init g r0 (burstOf r0 ivl)) : St α XTB) 0 (g * burstOf r0 ivl) := by
    refine ⟨fun l hl => by simp [St.init, XTB.init] at hl, ?_⟩
    simp only [St.init, XTB.init, XTB.advance, bits, Nat.mul_zero, Nat.add_zero]
    rw [Nat.mul_comm]
    exact Nat.min_le_left _ _
  exact envelope_run g d sz cap ivl evs _ 0 _ hinv hm

/-- ★ T2b `envelope_after_change` (the bound is piecewise across rate changes): from ANY state, after a
`SetRate(r)` at `now` — between ticks or re-entrantly from a next writer in the middle of a tick, which is the event
sequence `tick now, setRate now r, drain …, tick now` — and along every further event sequence, the bits released
AFTER the change never exceed the NEW burst `burst(r, interval)` plus `Σ rateᵢ·Δtᵢ` since the change, however large
the old burst was (both sides in units of `1/g` bit). -/
theorem envelope_after_change (g d : Nat) (sz : α → Nat) (cap ivl : Nat) (st : St α XTB) (now r : Nat)
    (evs : List (Ev α)) (hm : Mono now evs) :
    g * bits sz (run (xcfg g d sz cap ivl) (exec (xcfg g d sz cap ivl) st (.setRate now r)) evs).delivered
      ≤ g * bits sz st.delivered + g * burstOf r ivl + credit r now evs := by
  have hs := setRate_no_gain g d st.lim now r (burstOf r ivl)
  have e : (exec (xcfg g d sz cap ivl) st (.setRate now r)).lim = st.lim.setRate g d now r (burstOf r ivl) := rfl
  have e2 : (exec (xcfg g d sz cap ivl) st (.setRate now r)).delivered = st.delivered := rfl
  have hb : (st.lim.setRate g d now r (burstOf r ivl)).burst = burstOf r ivl := rfl
  have hcap := advance_cap g d (st.lim.setRate g d now r (burstOf r ivl)) now
  have hinv : EnvInv g d sz (exec (xcfg g d sz cap ivl) st (.setRate now r)) now
      (g * burstOf r ivl + g * bits sz st.delivered) := by
    refine ⟨?_, ?_⟩
    · intro l hl
      rw [e, hs.2.2] at hl; cases hl; exact Nat.le_refl _
    · rw [e, e2]
      rw [hb] at hcap
      have : burstOf r ivl * g = g * burstOf r ivl := Nat.mul_comm _ _
      omega
  have := envelope_run g d sz cap ivl evs _ now _ hinv hm
  rw [e, hs.2.1] at this
  omega

/-- non-vacuity of `envelope_after_change`: the old burst (500000 bit at 100 Mbit/s) is full and 60 packets of 9600
bit are queued when the rate is cut to 1 Mbit/s; the tick at the same instant releases one packet (9600 < 12000), not
the old burst. -/
example : (run (xcfg 1000 77 (fun _ => 1200) 100 5000)
    (exec (xcfg 1000 77 (fun _ => 1200) 100 5000)
      { (St.init (XTB.init 1000 100000000 500000) : St Nat XTB) with loc := List.replicate 60 0 } (.setRate 5000000 1000000))
    [.tick 5000000]).delivered.length = 1 := by decide

/-- non-vacuity of `envelope`: a concrete run (1 Mbit/s, 5 ms, scale 1000) releases packets and
meets the bound with room to spare. -/
example : Mono 0 ([.accept 100, .accept 200, .drain, .drain, .tick 5000000, .setRate 6000000 500000,
    .tick 10000000] : List (Ev Nat)) := ⟨by decide, by decide, by decide, trivial⟩
example : (run (xcfg 1000 77 id 10 5000) (St.init (XTB.init 1000 1000000 12000))
    [.accept 100, .accept 200, .drain, .drain, .tick 5000000, .setRate 6000000 500000,
      .tick 10000000]).delivered = [100, 200] := by decide

/-! ## 3. liveness and its failure (F-31) -/

/-- a full bucket releases a head that is smaller than the burst. -/
theorem release_when_full (g d : Nat) (sz : α → Nat) (cap ivl : Nat) (st : St α XTB) (p : α) (l : List α)
    (now : Nat) (hloc : st.loc = p :: l) (hsz : 8 * sz p < st.lim.burst)
    (hfull : st.lim.advance g d now = st.lim.burst * g) (hg : 0 < g) :
    ∃ rest, (exec (xcfg g d sz cap ivl) st (.tick now)).delivered = st.delivered ++ p :: rest := by
  have hb : (xcfg g d sz cap ivl).lm.budgetGt st.lim now (8 * (xcfg g d sz cap ivl).sz p) = true := by
    show XTB.budgetGt g d st.lim now (8 * sz p) = true
    simp only [XTB.budgetGt, hfull, decide_eq_true_eq]
    exact Nat.mul_lt_mul_of_pos_right hsz hg
  simp only [exec, hloc, releaseLoop, hb, if_true]
  exact ⟨_, rfl⟩

/-- with a positive rate the bucket is full after finitely many ticks. -/
theorem full_after (g d : Nat) (tb : XTB) (l0 ivl : Nat) (hl : tb.last = some l0)
    (hr : 0 < tb.rate) (hi : 0 < ivl) :
    ∀ k, tb.burst * g ≤ k → tb.advance g d (l0 + k * ivl) = tb.burst * g := by
  intro k hk
  simp only [XTB.advance, hl]
  have e : l0 + k * ivl - l0 = k * ivl := by omega
  rw [e]
  have h1 : k ≤ k * ivl := Nat.le_mul_of_pos_right k hi
  have h2 : k * ivl ≤ k * ivl * tb.rate := Nat.le_mul_of_pos_right _ hr
  omega

/-- ★ T3 `eventually_delivered`: if the head of the local queue has fewer bits than the burst
(`8·len < burst`), the rate is positive and no rate change intervenes, then there is an `n` such
that the tick number `k` after the last limiter update releases it, for every `k ≥ n`
(i.e. it is released after finitely many ticks; the packets before it were released earlier by
the same argument).  The premise `8·len < burst` is necessary: see `oversize_blocks_forever`. -/
theorem eventually_delivered (g d : Nat) (sz : α → Nat) (cap ivl : Nat) (st : St α XTB) (p : α)
    (l : List α) (l0 : Nat) (hloc : st.loc = p :: l) (hsz : 8 * sz p < st.lim.burst)
    (hl : st.lim.last = some l0) (hr : 0 < st.lim.rate) (hi : 0 < ivl) (hg : 0 < g) :
    ∃ n, ∀ k, n ≤ k →
      ∃ rest, (exec (xcfg g d sz cap ivl) st (.tick (l0 + k * ivl))).delivered = st.delivered ++ p :: rest :=
  ⟨st.lim.burst * g, fun k hk =>
    release_when_full g d sz cap ivl st p l _ hloc hsz (full_after g d st.lim l0 ivl hl hr hi k hk) hg⟩

/-- non-vacuity of `eventually_delivered`: a 1000-byte head, burst 12000 bit, empty bucket at
t = 0, 1 Mbit/s (scale g = 1): not released by the tick at 5 ms, released by the tick at 10 ms. -/
example :
    (exec (xcfg 1000000000 0 id 10 5000)
      ⟨[], [1000, 50], [], [1000, 50], ⟨0, some 0, 1000000, 12000⟩, false⟩ (.tick 5000000)).delivered = [] ∧
    (exec (xcfg 1000000000 0 id 10 5000)
      ⟨[], [1000, 50], [], [1000, 50], ⟨0, some 0, 1000000, 12000⟩, false⟩ (.tick 10000000)).delivered
        = [1000, 50] := by decide

/-- events other than rate changes. -/
def noSetRate : List (Ev α) → Bool
  | [] => true
  | .setRate _ _ :: _ => false
  | _ :: es => noSetRate es

/-- ★ F-31 `oversize_blocks_forever`: if the head of the local queue has at least `burst` bits,
then along *every* continuation without a rate change — any number of ticks at any instants,
any further writes — nothing is ever delivered again and that packet stays at the head; by
`fifo_exactly_once` everything accepted later stays queued behind it (the queue grows without
bound up to the channel capacity). -/
theorem oversize_blocks_forever (g d : Nat) (sz : α → Nat) (cap ivl : Nat) (evs : List (Ev α)) :
    ∀ (st : St α XTB) (p : α) (l : List α), st.loc = p :: l → st.lim.burst ≤ 8 * sz p →
      noSetRate evs = true →
      (run (xcfg g d sz cap ivl) st evs).delivered = st.delivered ∧
      ∃ l', (run (xcfg g d sz cap ivl) st evs).loc = p :: l' := by
  induction evs with
  | nil => intro st p l hloc _ _; exact ⟨rfl, l, hloc⟩
  | cons e es ih =>
    intro st p l hloc hb hn
    have step : ∀ st' : St α XTB, st'.lim = st.lim → st'.delivered = st.delivered →
        (∃ l', st'.loc = p :: l') → noSetRate es = true →
        (run (xcfg g d sz cap ivl) st' es).delivered = st.delivered ∧
        ∃ l', (run (xcfg g d sz cap ivl) st' es).loc = p :: l' := by
      intro st' hlim hdel ⟨l', hl'⟩ hn'
      have := ih st' p l' hl' (by rw [hlim]; exact hb) hn'
      rw [hdel] at this
      exact this
    cases e with
    | accept q =>
      apply step (exec (xcfg g d sz cap ivl) st (.accept q))
      · simp only [exec, accept]; split <;> rfl
      · simp only [exec, accept]; split <;> rfl
      · refine ⟨l, ?_⟩; simp only [exec, accept]; split <;> exact hloc
      · exact hn
    | drain =>
      apply step (exec (xcfg g d sz cap ivl) st .drain)
      · simp only [exec]; split <;> rfl
      · simp only [exec]; split <;> rfl
      · simp only [exec]
        split
        · exact ⟨l, hloc⟩
        · rename_i q ch hch
          exact ⟨l ++ [q], by simp [hloc]⟩
      · exact hn
    | close =>
      exact step (exec (xcfg g d sz cap ivl) st .close) rfl rfl ⟨l, hloc⟩ hn
    | setRate now r => simp [noSetRate] at hn
    | tick now =>
      have hbg : (xcfg g d sz cap ivl).lm.budgetGt st.lim now (8 * (xcfg g d sz cap ivl).sz p) = false := by
        show XTB.budgetGt g d st.lim now (8 * sz p) = false
        simp only [XTB.budgetGt, decide_eq_false_iff_not, Nat.not_lt]
        exact Nat.le_trans (advance_cap g d st.lim now) (Nat.mul_le_mul_right g hb)
      have hrl := release_guarded (xcfg g d sz cap ivl) now st.lim p l hbg
      apply step (exec (xcfg g d sz cap ivl) st (.tick now))
      · simp only [exec, hloc, hrl]
      · simp only [exec, hloc, hrl, List.append_nil]
      · exact ⟨l, by simp only [exec, hloc, hrl]⟩
      · exact hn

/-- ★ `eventually_delivered_false`: without the premise `8·len < burst` the liveness statement is
false of the code.  Witness (F-31): rate 1 Mbit/s, burst 12000 bit, a 1532-byte packet
(1460 B payload + 15 CSRC) at the head: no tick ever releases it. -/
theorem eventually_delivered_false :
    ¬ (∀ (st : St Nat XTB) (p : Nat) (l : List Nat) (l0 : Nat), st.loc = p :: l →
        st.lim.last = some l0 → 0 < st.lim.rate →
        ∃ n, ∀ k, n ≤ k → ∃ rest,
          (exec (xcfg 1000000000 9223372036854775807 id 1000000 5000) st (.tick (l0 + k * 5000000))).delivered
            = st.delivered ++ p :: rest) := by
  intro h
  let st : St Nat XTB :=
    { chan := [], loc := [1532, 112], delivered := [], accepted := [1532, 112],
      lim := { tokens := 0, last := some 0, rate := 1000000, burst := 12000 }, closed := false }
  obtain ⟨n, hn⟩ := h st 1532 [112] 0 rfl rfl (by decide)
  obtain ⟨rest, hrest⟩ := hn n (Nat.le_refl _)
  have hb := (oversize_blocks_forever 1000000000 9223372036854775807 id 1000000 5000
    [.tick (0 + n * 5000000)] st 1532 [112] rfl (by decide) rfl).1
  simp only [run, List.foldl_cons, List.foldl_nil] at hb
  rw [hb] at hrest
  simp [st] at hrest

/-! ## 4. leaky bucket pacer -/

/-- `copy` keeps the destination's length. -/
theorem copyInto_length (dst src : List Nat) : (copyInto dst src).length = dst.length := by
  simp only [copyInto, List.length_append, List.length_take, List.length_drop]
  omega

/-- ★ intact: slicing the stored buffer to the recorded size gives back the payload (fixed code),
whatever stale content the pooled buffer had. -/
theorem lItem_intact (pooled : List Nat) (hdr : H) (ssrc : Nat) (payload : List Nat) :
    sliceTo (lItem pooled hdr ssrc payload).buf (lItem pooled hdr ssrc payload).size = .ok payload := by
  simp only [lItem, sliceTo]
  split
  · rename_i hgt
    simp [copyInto, List.length_replicate, List.take_of_length_le]
  · rename_i hle
    have hle' : payload.length ≤ pooled.length := Nat.le_of_not_gt hle
    rw [if_pos (by rw [copyInto_length]; exact hle')]
    simp only [copyInto, List.take_of_length_le hle']
    rw [List.take_append_of_le_length (Nat.le_refl _)]
    simp

/-- every queued item can be sliced. -/
def ItemOk (it : Item H) : Prop := it.size ≤ it.buf.length

theorem lItem_ok (pooled : List Nat) (hdr : H) (ssrc : Nat) (payload : List Nat) :
    ItemOk (lItem pooled hdr ssrc payload) := by
  have := lItem_intact pooled hdr ssrc payload
  unfold sliceTo at this
  unfold ItemOk
  split at this
  · assumption
  · cases this

/-- the pop loop never panics on sliceable items and leaves only sliceable items. -/
theorem leakyLoop_total (hsz : H → Nat) (now : Nat) (q : List (Item H)) :
    ∀ (budget : Int) (st : LSt H), (∀ it ∈ q, ItemOk it) →
      ∃ st', leakyLoop hsz now q budget st = .ok st' ∧ (∀ it ∈ st'.queue, ItemOk it) := by
  induction q with
  | nil => intro budget st _; exact ⟨_, rfl, by simp⟩
  | cons it q ih =>
    intro budget st hok
    have hit : ItemOk it := hok it (by simp)
    have hq : ∀ x ∈ q, ItemOk x := fun x hx => hok x (by simp [hx])
    simp only [leakyLoop]
    split
    · split
      · have hs : sliceTo it.buf it.size = .ok (it.buf.take it.size) := by
          simp only [sliceTo]; rw [if_pos (show it.size ≤ it.buf.length from hit)]
        rw [hs]
        exact ih _ _ hq
      · exact ih _ _ hq
    · exact ⟨_, rfl, hok⟩

/-- ★ T4 `leaky_total` (F-19, fixed code): whatever is written (any payload length, any pooled
buffer content), bound, re-rated and ticked, `Run` never slices beyond a buffer — the model of
the pacer never reaches the panic of `(*buf)[:size]`. -/
theorem leaky_total (hsz : H → Nat) (evs : List (LEv H)) :
    ∀ (st : LSt H), (∀ it ∈ st.queue, ItemOk it) →
      ∃ st', lrun hsz lItem st evs = .ok st' := by
  induction evs with
  | nil => intro st _; exact ⟨st, rfl⟩
  | cons e es ih =>
    intro st hok
    cases e with
    | write pooled hdr ssrc payload =>
      simp only [lrun, lexec]
      apply ih
      intro it hit
      simp only [List.mem_append, List.mem_singleton] at hit
      cases hit with
      | inl h => exact hok it h
      | inr h => rw [h]; exact lItem_ok pooled hdr ssrc payload
    | bind s => simp only [lrun, lexec]; exact ih _ hok
    | setRate r => simp only [lrun, lexec]; exact ih _ hok
    | setFails s fl => simp only [lrun, lexec]; exact ih _ hok
    | tick now =>
      obtain ⟨st', h1, h2⟩ := leakyLoop_total hsz now st.queue
        (leakyBudget now st.lastSent st.target : Nat) st hok
      simp only [lrun, lexec, leakyTick, h1]
      exact ih st' h2

/-- T4 from the initial state. -/
theorem leaky_total_init (hsz : H → Nat) (rate : Nat) (evs : List (LEv H)) :
    ∃ st', lrun hsz lItem (LSt.init rate) evs = .ok st' :=
  leaky_total hsz evs _ (by simp [LSt.init])

/-- F-19 `leaky_unfixed_panics`: on the code before the fix, one payload longer than the pooled
buffer makes the next tick panic (witness: 4-byte pool, 5-byte payload; for the real pool size
any payload of 1461 bytes). -/
theorem leaky_unfixed_panics (pooled : List Nat) (hdr : H) (ssrc : Nat) (payload : List Nat)
    (h : pooled.length < payload.length) :
    ∃ s, sliceTo (lItemUnfixed pooled hdr ssrc payload).buf (lItemUnfixed pooled hdr ssrc payload).size
      = .panic s := by
  simp only [lItemUnfixed, sliceTo, copyInto_length]
  rw [if_neg (by omega)]
  exact ⟨_, rfl⟩

/-- F-19 at the level of runs: bind, write 5 bytes into a 4-byte pooled buffer, tick → panic. -/
theorem leaky_unfixed_run_panics :
    (lrun (fun _ : Unit => 12) lItemUnfixed (LSt.init 1000000)
      [.bind 1, .write [0, 0, 0, 0] () 1 [1, 2, 3, 4, 5], .tick 5000000]).isPanic = true := by
  decide

/-- non-vacuity of `leaky_total` / `leaky_fifo_exactly_once`: on the fixed code the same run
delivers the 5-byte payload intact (and drops nothing). -/
example :
    (match lrun (fun _ : Unit => 12) lItem (LSt.init 1000000)
      [.bind 1, .write [9, 9, 9, 9] () 1 [1, 2, 3, 4, 5], .write [9, 9, 9, 9] () 1 [7], .tick 5000000] with
     | .ok st => st.delivered.map (·.payload)
     | _ => []) = [[1, 2, 3, 4, 5], [7]] := by decide

/-- the dequeued items, then the queue, are the written items in order; delivered packets are
the dequeued items that had a writer, sliced to their size. -/
def LInv (mk : List Nat → H → Nat → List Nat → Item H) (st : LSt H) (ws : List (Item H)) : Prop :=
  st.processed.map (·.1) ++ st.queue = ws ∧
  st.delivered = (st.processed.filter (·.2)).map (fun x => ⟨x.1.ssrc, x.1.hdr, x.1.buf.take x.1.size⟩)

theorem leakyLoop_inv (mk : List Nat → H → Nat → List Nat → Item H) (hsz : H → Nat) (now : Nat)
    (q : List (Item H)) :
    ∀ (budget : Int) (st st' : LSt H) (ws : List (Item H)),
      st.processed.map (·.1) ++ q = ws →
      st.delivered = (st.processed.filter (·.2)).map (fun x => ⟨x.1.ssrc, x.1.hdr, x.1.buf.take x.1.size⟩) →
      leakyLoop hsz now q budget st = .ok st' → LInv mk st' ws := by
  induction q with
  | nil =>
    intro budget st st' ws h1 h2 h
    simp only [leakyLoop, Res.ok.injEq] at h
    subst h
    exact ⟨by simpa using h1, h2⟩
  | cons it q ih =>
    intro budget st st' ws h1 h2 h
    simp only [leakyLoop] at h
    split at h
    · split at h
      · by_cases hs : it.size ≤ it.buf.length
        · have e : sliceTo it.buf it.size = .ok (it.buf.take it.size) := by
            simp only [sliceTo]; rw [if_pos hs]
          rw [e] at h
          simp only at h
          refine ih _ _ st' ws ?_ ?_ h
          · simp only [List.map_append, List.map_cons, List.map_nil, List.append_assoc,
              List.cons_append, List.nil_append]; exact h1
          · simp only [List.filter_append, List.map_append, h2]
            simp
        · have e : sliceTo it.buf it.size = .panic "leaky_bucket_pacer.go:155 (*buf)[:size]" := by
            simp only [sliceTo]; rw [if_neg hs]
          rw [e] at h
          simp only at h
          cases h
      · refine ih _ _ st' ws ?_ ?_ h
        · simp only [List.map_append, List.map_cons, List.map_nil, List.append_assoc,
            List.cons_append, List.nil_append]; exact h1
        · simp only [List.filter_append, List.map_append, h2]
          simp
    · simp only [Res.ok.injEq] at h
      subst h
      exact ⟨h1, h2⟩

/-- items written by an event list, in order. -/
def writesOf (mk : List Nat → H → Nat → List Nat → Item H) : List (LEv H) → List (Item H)
  | [] => []
  | .write a b c e :: es => mk a b c e :: writesOf mk es
  | _ :: es => writesOf mk es

/-- ★ T1 for the leaky bucket `leaky_fifo_exactly_once`: after any event sequence, the items
dequeued so far followed by the queue are exactly the written items in write order (each once),
and the delivered packets are exactly the dequeued items whose SSRC had a writer, in that order,
with the stored header and the buffer sliced to the recorded size (= the payload, by
`lItem_intact`).  Items whose SSRC has no writer when dequeued are dropped (as the code does). -/
theorem leaky_fifo_exactly_once (mk : List Nat → H → Nat → List Nat → Item H) (hsz : H → Nat)
    (evs : List (LEv H)) :
    ∀ (st st' : LSt H) (ws : List (Item H)), LInv mk st ws → lrun hsz mk st evs = .ok st' →
      LInv mk st' (ws ++ writesOf mk evs) := by
  induction evs with
  | nil =>
    intro st st' ws hinv h
    simp only [lrun, Res.ok.injEq] at h
    subst h
    simpa [writesOf] using hinv
  | cons e es ih =>
    intro st st' ws hinv h
    cases e with
    | write pooled hdr ssrc payload =>
      simp only [lrun, lexec] at h
      have hinv' : LInv mk { st with queue := st.queue ++ [mk pooled hdr ssrc payload] }
          (ws ++ [mk pooled hdr ssrc payload]) := ⟨by simp [← hinv.1], hinv.2⟩
      have := ih _ st' _ hinv' h
      simpa [writesOf] using this
    | bind s =>
      simp only [lrun, lexec] at h
      have hinv' : LInv mk { st with writers := s :: st.writers } ws := hinv
      simpa [writesOf] using ih _ st' _ hinv' h
    | setRate r =>
      simp only [lrun, lexec] at h
      have hinv' : LInv mk { st with target := leakyTarget r } ws := hinv
      simpa [writesOf] using ih _ st' _ hinv' h
    | setFails s fl =>
      simp only [lrun, lexec] at h
      have hinv' : LInv mk { st with fails := rebindFails st.fails s fl } ws := hinv
      simpa [writesOf] using ih _ st' _ hinv' h
    | tick now =>
      simp only [lrun, lexec, leakyTick] at h
      split at h
      · rename_i st1 h1
        have hinv1 := leakyLoop_inv mk hsz now st.queue _ st st1 ws hinv.1 hinv.2 h1
        simpa [writesOf] using ih _ st' ws hinv1 h
      · cases h
      · cases h

end Interceptor.Pacing

/-
C03 — the NACK generator requests exactly the packets that are missing.
Only property theorems live here (helper lemmas: Proofs/ReceiveLog*.lean, Proofs/NackGen.lean).

Model: Model/ReceiveLog.lean (receive_log.go + the tick body of generator_interceptor.go, with the
repairs of F-01, F-02, F-03, F-03b).  Spec: Spec/Nack.lean (unwrapped numbers).
`SizeOK size` = `0 < size ≤ 32768 ∧ size ∣ 65536` (the constructor admits 64 … 32768, powers of two).
-/
import Interceptor.Proofs.ReceiveLogMissing
import Interceptor.Spec.NackRun
set_option linter.unusedVariables false
namespace Interceptor.ReceiveLog
open Interceptor

/-- every size the Go constructor accepts is admissible for the theorems. -/
theorem validSize_ok (size : Nat) (h : validSize size = true) : SizeOK size := by
  simp [validSize] at h
  rcases h with h | h | h | h | h | h | h | h | h | h <;> subst h <;> exact ⟨by decide, by decide, by decide⟩

/-- T1a: the refinement invariant `R` holds after the first packet, whatever it is. -/
theorem inv_first (size : Nat) (hs : SizeOK size) (q : Nat) (hq : q < 65536) :
    R size (add (new size) q) { first := q, hi := q, recv := [(q : Int)] } q :=
  R_init hs q hq

/-- ★ T1b: the invariant is preserved by `add` for EVERY 16-bit sequence number `q` (in order,
duplicate, any forward jump < 2^15, any late packet inside or outside the window), and the
related specification state is the one `arrive` computes. -/
theorem inv_add (size : Nat) (hs : SizeOK size) (l : Log) (a : NackSpec.Stream) (lcU : Int)
    (h : R size l a lcU) (q : Nat) (hq : q < 65536) :
    ∃ (a' : NackSpec.Stream) (lcU' : Int),
      NackSpec.arrive size (some a) q = some a' ∧ R size (add l q) a' lcU' :=
  R_add hs h q hq

/-- the invariant along any history. -/
theorem inv_run (size : Nat) (hs : SizeOK size) (q : Nat) (qs : List Nat) (hq : ∀ x ∈ q :: qs, x < 65536) :
    ∃ (a : NackSpec.Stream) (lcU : Int), runSpec size (q :: qs) = some a ∧ R size (runLog size (q :: qs)) a lcU := by
  have key : ∀ (qs : List Nat) (l : Log) (a : NackSpec.Stream) (lcU : Int), R size l a lcU →
      (∀ x ∈ qs, x < 65536) →
      ∃ (a' : NackSpec.Stream) (lcU' : Int),
        qs.foldl (NackSpec.arrive size) (some a) = some a' ∧ R size (qs.foldl add l) a' lcU' := by
    intro qs
    induction qs with
    | nil => intro l a lcU h _; exact ⟨a, lcU, rfl, h⟩
    | cons p ps ih =>
      intro l a lcU h hq
      obtain ⟨a1, lc1, e1, h1⟩ := R_add hs h p (hq p (by simp))
      obtain ⟨a2, lc2, e2, h2⟩ := ih (add l p) a1 lc1 h1 (fun x hx => hq x (by simp [hx]))
      exact ⟨a2, lc2, by simp only [List.foldl_cons, e1, e2], h2⟩
  have h0 := R_init hs q (hq q (by simp))
  obtain ⟨a, lcU, e, h⟩ := key qs _ _ _ h0 (fun x hx => hq x (by simp [hx]))
  exact ⟨a, lcU, by simpa [runSpec, NackSpec.arrive] using e, by simpa [runLog] using h⟩

/-- ★ T2: after ANY arrival history (loss, duplication, reordering, jumps, wrap-around, arbitrarily
late packets), for every admissible window size and every `skipLastN`, `missingSeqNumbers`
returns exactly the specification's missing list: the numbers after the first packet ever
received, inside the window behind the highest number, at most `highest − skip`, not received —
in ascending order. -/
theorem missing_eq_spec (size : Nat) (hs : SizeOK size) (qs : List Nat) (hq : ∀ x ∈ qs, x < 65536)
    (skip : Nat) :
    missing (runLog size qs) skip = NackSpec.missing size (runSpec size qs) skip := by
  cases qs with
  | nil =>
    show missing (new size) skip = []
    unfold missing
    rw [show (new size).end_ = 0 from rfl, show (new size).lc = 0 from rfl]
    by_cases h : skip > sub16 0 0
    · rw [if_pos h]
    · rw [if_neg h]
      have : sub16 (sub16 0 skip) 0 = 0 := by unfold sub16 at *; omega
      show List.filter _ (List.map _ (List.range (sub16 (sub16 0 skip) 0))) = []
      rw [this]; rfl
  | cons q qs =>
    obtain ⟨a, lcU, e, h⟩ := inv_run size hs q qs hq
    rw [e]
    exact missing_R hs h skip

/-- ★ T2, element-wise: for the unwrapped representative `x ∈ (hi − 2^16, hi]` of a 16-bit number,
`x` is requested iff it lies after the first packet, inside the window, not beyond `hi − skip`,
and has not been received.  (All clauses of the property about one stream in one statement.) -/
theorem requested_iff (size : Nat) (hs : SizeOK size) (qs : List Nat) (hq : ∀ x ∈ qs, x < 65536)
    (skip : Nat) (a : NackSpec.Stream) (ha : runSpec size qs = some a)
    (x : Int) (hx1 : a.hi - 65536 < x) (hx2 : x ≤ a.hi) :
    sq x ∈ missing (runLog size qs) skip ↔
      (a.first < x ∧ a.hi - size < x ∧ x ≤ a.hi - skip ∧ x ∉ a.recv) := by
  have hle := hs.le
  rw [missing_eq_spec size hs qs hq skip, ha]
  simp only [NackSpec.missing, NackSpec.missingU, List.mem_map, List.mem_filter, List.mem_range]
  constructor
  · rintro ⟨y, ⟨⟨j, hj, rfl⟩, hy⟩, hsq⟩
    have hxy : x = (if a.first < a.hi - ↑size then a.hi - ↑size else a.first) + 1 + ↑j := by
      have h2 : sq ((if a.first < a.hi - ↑size then a.hi - ↑size else a.first) + 1 + ↑j) = sq x := hsq
      apply sq_inj _ _ h2.symm <;> (split at hj <;> split <;> omega)
    rw [hxy]
    refine ⟨by split <;> omega, by split <;> omega, by split at hj <;> split <;> omega, ?_⟩
    simpa using hy
  · rintro ⟨h1, h2, h3, h4⟩
    refine ⟨x, ⟨⟨(x - (if a.first < a.hi - ↑size then a.hi - ↑size else a.first) - 1).toNat, ?_, ?_⟩, ?_⟩, rfl⟩
    · split <;> omega
    · split <;> omega
    · simpa using h4

/-- corollary (property clause): a number received inside the window is never requested. -/
theorem received_never_requested (size : Nat) (hs : SizeOK size) (qs : List Nat) (hq : ∀ x ∈ qs, x < 65536)
    (skip : Nat) (a : NackSpec.Stream) (ha : runSpec size qs = some a)
    (x : Int) (hx : x ∈ a.recv) (hw1 : a.hi - size < x) (hw2 : x ≤ a.hi) :
    sq x ∉ missing (runLog size qs) skip := by
  have hle := hs.le
  intro hin
  exact ((requested_iff size hs qs hq skip a ha x (by omega) hw2).mp hin).2.2.2 hx

/-- corollary (property clause): nothing ahead of the highest received number (nor within the last
`skip` numbers) is requested: every requested number is between `skip` and `size − 1` behind `end`. -/
theorem nothing_ahead_requested (size : Nat) (hs : SizeOK size) (qs : List Nat) (hq : ∀ x ∈ qs, x < 65536)
    (skip : Nat) (a : NackSpec.Stream) (ha : runSpec size qs = some a)
    (y : Nat) (hy : y ∈ missing (runLog size qs) skip) :
    ∃ x : Int, sq x = y ∧ a.hi - size < x ∧ x ≤ a.hi - skip := by
  have hle := hs.le
  have hy' := hy
  rw [missing_eq_spec size hs qs hq skip, ha] at hy'
  simp only [NackSpec.missing, List.mem_map] at hy'
  obtain ⟨x, hx, rfl⟩ := hy'
  simp only [NackSpec.missingU, List.mem_filter, List.mem_map, List.mem_range] at hx
  obtain ⟨⟨j, hj, rfl⟩, _⟩ := hx
  exact ⟨_, rfl, by split <;> omega, by split at hj <;> split <;> omega⟩

/-- corollary (property clause): nothing at or before the first packet ever received is requested. -/
theorem nothing_before_first_requested (size : Nat) (hs : SizeOK size) (qs : List Nat)
    (hq : ∀ x ∈ qs, x < 65536) (skip : Nat) (a : NackSpec.Stream) (ha : runSpec size qs = some a)
    (x : Int) (hx1 : a.hi - 65536 < x) (hx2 : x ≤ a.first) :
    sq x ∉ missing (runLog size qs) skip := by
  intro hin
  by_cases h : x ≤ a.hi
  · have := ((requested_iff size hs qs hq skip a ha x hx1 h).mp hin).1; omega
  · -- first ≤ hi always; x ≤ first ≤ hi
    cases qs with
    | nil => simp [runSpec] at ha
    | cons q qs =>
      obtain ⟨a', lcU, e, hR⟩ := inv_run size hs q qs hq
      rw [ha] at e; cases e
      have := hR.hfirst; have := hR.hle; omega

/-- non-vacuity (DESIGN §6): size 64, arrivals 65530, 65534, 2, 65533, skip 1: the hypotheses are
met and the requested numbers are 65531, 65532, 65535, 0, 1. -/
example : missing (runLog 64 [65530, 65534, 2, 65533]) 1 = [65531, 65532, 65535, 0, 1] ∧
    NackSpec.missing 64 (runSpec 64 [65530, 65534, 2, 65533]) 1 = [65531, 65532, 65535, 0, 1] ∧
    SizeOK 64 := by
  refine ⟨by decide, by decide, by decide, by decide, by decide⟩

set_option maxRecDepth 8000 in
/-- the F-01 pattern on the repaired model: 36 = 100 − 64 arrives when the window is (37, 101]; it is
ignored and the missing number 100 (same slot as 36) stays requested. -/
example : missing (runLog 64 [0, 99, 101, 36]) 0 = (List.range 61).map (· + 38) ++ [100] := by decide

end Interceptor.ReceiveLog

/-
C02 (clause for the feedback decoders) — no parsed feedback, however inconsistent, makes a
decoder panic.  The models (Model/FeedbackAdapter.lean, Model/Rtpfb.lean) represent every Go
index / slice expression of the decoders by a checked access that yields `Res.panic`; the
theorems quantify over EVERY value of the parsed structures (any run length, status count,
symbol value, delta list, metric list) and every history.  Only property theorems live here.
-/
import Interceptor.Proofs.FeedbackTotal
set_option linter.unusedVariables false
namespace Interceptor.C02Feedback
open Interceptor Interceptor.Feedback

/-- ★ `FeedbackAdapter.OnTransportCCFeedback` never panics (`deltas[deltaIndex]`,
`recvDeltas[n:]`), for every history and every parsed feedback. -/
theorem onTWCC_total (h : FeedbackAdapter.Hist) (fb : Twcc) (site : String) :
    FeedbackAdapter.onTWCC h fb ≠ .panic site :=
  Res.sat_ne_panic (FeedbackAdapter.chunkLoop_sat h fb.chunks fb.base _ fb.deltas) site

/-- ★ `rtpfb.convertTWCC` always returns normally (`feedback.RecvDeltas[recvDeltaIndex]`);
false before the fix of F-16 (witness corpus/C02/F-16.ops). -/
theorem convertTWCC_total (fb : Twcc) : ∃ acks, Rtpfb.convertTWCC fb = .ok acks := by
  unfold Rtpfb.convertTWCC
  obtain ⟨o, ho⟩ := Rtpfb.chunkLoop_ok fb fb.chunks 0 0 (refTime fb.ref)
  rw [ho]
  cases o <;> exact ⟨_, rfl⟩

/-- ★ `rtpfb.convertCCFB` / `convertMetricBlock` always return normally (`reports[i]`). -/
theorem convertCCFB_total (fb : Ccfb) : ∃ r, Rtpfb.convertCCFB fb = .ok r := by
  unfold Rtpfb.convertCCFB
  obtain ⟨r, hr⟩ := Rtpfb.blockLoop_ok fb.ref fb.blocks [] 0 false
  rw [hr]
  obtain ⟨res, latest, found⟩ := r
  exact ⟨_, rfl⟩

/-- ★ `Interceptor.processFeedback` (the body of the RTCP reader after parsing) always returns
normally, for every history and every list of parsed TWCC / RFC 8888 / other RTCP packets. -/
theorem processFeedback_total (h : Rtpfb.Hist) (ts : Int) (pkts : List Rtpfb.Pkt) :
    ∃ r, Rtpfb.processFeedback h ts pkts = .ok r := by
  have loop : ∀ (pkts : List Rtpfb.Pkt) (h : Rtpfb.Hist) (sh ad : Int),
      ∃ r, Rtpfb.pktLoop ts pkts h sh ad = .ok r := by
    intro pkts
    induction pkts with
    | nil => intro h sh ad; exact ⟨_, rfl⟩
    | cons p ps ih =>
      intro h sh ad
      cases p with
      | twcc fb =>
        unfold Rtpfb.pktLoop
        obtain ⟨acks, ha⟩ := convertTWCC_total fb
        rw [ha]
        exact ih _ _ _
      | ccfb fb =>
        unfold Rtpfb.pktLoop
        obtain ⟨r, hr⟩ := convertCCFB_total fb
        rw [hr]
        exact ih _ _ _
      | other =>
        unfold Rtpfb.pktLoop
        exact ih _ _ _
  unfold Rtpfb.processFeedback
  obtain ⟨r, hr⟩ := loop pkts h Rtpfb.maxInt64 0
  rw [hr]
  exact ⟨_, rfl⟩

/-- non-vacuity: the inconsistent feedback of F-16 (status count 1, run length 2, one delta) is
ignored, not a panic. -/
example : Rtpfb.convertTWCC ⟨0, 1, 0, [.rl 1 2], [250]⟩ = .ok [⟨0, true, 250000, 0⟩] := by decide

/-- non-vacuity: fewer deltas than received symbols within the count ⇒ feedback ignored. -/
example : Rtpfb.convertTWCC ⟨0, 7, 0, [.sv [1, 2, 1, 0, 0, 0, 0]], [250, -250]⟩ = .ok [] := by decide

/-- non-vacuity: the adapter rejects it with an error. -/
example : FeedbackAdapter.onTWCC [] ⟨0, 1, 0, [.rl 1 2], [250]⟩ = .err "invalid" := by decide

end Interceptor.C02Feedback

/-
C02 (jitter-buffer part) — the queue cannot loop forever or panic, and the jitter-buffer
interceptor never reports more bytes than it was given room for.
Only property theorems live here.  `WF`/`HRep` and the preservation theorems (`wf_push`, …) are
in Props/C18.lean; this file draws the C02 consequences.

In the heap-level model every traversal of the linked list carries fuel = number of allocated
nodes + 1 and returns `.panic "loop"` when the fuel runs out; a nil dereference is
`.panic "nil"`.  So "no infinite loop, no panic" is: no operation returns `.panic _`.
-/
import Interceptor.Props.C18
set_option linter.unusedVariables false
namespace Interceptor.JitterBuffer

/-- ★ T2 `queue_terminates`: on a well-formed queue every operation terminates within its fuel
and dereferences no nil pointer: none returns `.panic _` (in particular not `.panic "loop"`).
False on the unfixed code after pushing a duplicate of the head (F-21). -/
theorem queue_terminates {q : PQ} (h : WF q) (v : Pkt) (k : Nat) (s : String) :
    q.push v k ≠ .panic s ∧ q.find k ≠ .panic s ∧ q.popAt k ≠ .panic s ∧ q.popAtTs k ≠ .panic s ∧
    q.pop ≠ .panic s ∧ q.clear ≠ .panic s := by
  obtain ⟨l, hr, _⟩ := h
  obtain ⟨h1, h2, h3, h4, h5, h6, _⟩ := refines_multiset_heap hr v k
  refine ⟨?_, ?_, ?_, ?_, ?_, ?_⟩
  · obtain ⟨q', hq, _⟩ := h1; rw [hq]; intro h; cases h
  · rw [h2]; unfold findL; split <;> (intro h; cases h)
  · intro hp; rw [hp] at h3; cases hl : popByL l (fun e => e.1 == k) <;> (rw [hl] at h3; exact h3)
  · intro hp; rw [hp] at h4; cases hl : popByL l (fun e => e.2.ts == k) <;> (rw [hl] at h4; exact h4)
  · intro hp; rw [hp] at h5; cases hl : popL l <;> (rw [hl] at h5; exact h5)
  · obtain ⟨q', hq, _⟩ := h6; rw [hq]; intro h; cases h

/-- no call on the list-level JitterBuffer panics. -/
theorem list_step_no_panic (js : LJB) (op : Op) (s : String) : (js.step op).2.ret ≠ .panic s := by
  have hfind : ∀ l sq, findL l sq ≠ .panic s := by
    intro l sq; unfold findL; split <;> (intro h; cases h)
  by_cases hrem : op.removes = true
  · rw [rem_step js op hrem]
    by_cases hst : js.state = .emitting
    · simp only [hst, ne_eq, not_true_eq_false, if_false]
      rcases popWith_char js (remPred js op) (remAdv op) with ⟨x, hret, _⟩ | ⟨e, l', hret, _⟩ <;>
        (rw [hret]; intro h; cases h)
    · simp only [hst, ne_eq, not_false_eq_true, if_true]; intro h; cases h
  · cases op with
    | push p => rw [show (js.step (.push p)).2.ret = .ok none from (push_char js p).1]; intro h; cases h
    | peek b =>
      simp only [JB.step, JB.peek]
      split
      · intro h; cases h
      · split <;> exact hfind _ _
    | peekSeq sq => exact hfind _ _
    | setHead x => intro h; cases h
    | getHead => intro h; cases h
    | clear r => cases r <;> (intro h; cases h)
    | _ => simp [Op.removes] at hrem

/-- ★ T2' `jitterbuffer_never_hangs`: along ANY history of exported calls on a fresh JitterBuffer
over the heap-level queue (the Go code's queue), no call runs out of fuel or panics. -/
theorem jitterbuffer_never_hangs (m : Option Nat) (ops : List Op) (s : String) :
    ∀ r ∈ ((JB.new heapImpl m).run ops).2, r.out.ret ≠ .panic s := by
  rw [(sim_run heapRefines (jrep_new heapRefines m) ops).1]
  generalize JB.new listImpl m = js
  induction ops generalizing js with
  | nil => intro r hr; cases hr
  | cons op ops ih =>
    rw [run_cons]
    intro r hr
    rcases List.mem_cons.mp hr with rfl | hr
    · exact list_step_no_panic js op s
    · exact ih _ r hr

/-- ★ T3 `reader_len` (jitter-buffer interceptor, fixed code): one `Read` through the interceptor,
where the upstream reader reported `n ≤ len(b)` bytes, never reports more than `len(b)` bytes;
when it hands out a packet it reports exactly that packet's marshalled size, and on every
other path at most the `n` it was given.  (The literal `n_out ≤ n_in` cannot hold for a jitter
buffer: it may emit an earlier, larger packet than the one just read.)  False on the unfixed
code (F-23: reported `len(b)` for every packet). Holds for any queue implementation. -/
theorem reader_len {I : QImpl} (jb : JB I) (p : Pkt) (n blen : Nat) (uerr : Bool) (h : n ≤ blen) :
    (intRead jb p n blen uerr).2.n ≤ blen ∧
    (∀ v, (intRead jb p n blen uerr).2.pkt = some v → (intRead jb p n blen uerr).2.n = v.size) ∧
    ((intRead jb p n blen uerr).2.pkt = none → (intRead jb p n blen uerr).2.n ≤ n) := by
  unfold intRead
  split
  · exact ⟨h, (by intro v hv; cases hv), fun _ => Nat.le_refl _⟩
  · split
    · exact ⟨Nat.zero_le _, (by intro v hv; cases hv), fun _ => Nat.zero_le _⟩
    · simp only []
      split
      · exact ⟨Nat.zero_le _, (by intro v hv; cases hv), fun _ => Nat.zero_le _⟩
      · split
        · split
          · split
            · rename_i v _ hle
              exact ⟨hle, (by intro v' hv'; injection hv' with hv'; subst hv'; rfl), (by intro hv; cases hv)⟩
            · exact ⟨Nat.zero_le _, (by intro v hv; cases hv), fun _ => Nat.zero_le _⟩
          · exact ⟨Nat.zero_le _, (by intro v hv; cases hv), fun _ => Nat.zero_le _⟩
          · exact ⟨Nat.zero_le _, (by intro v hv; cases hv), fun _ => Nat.zero_le _⟩
          · exact ⟨Nat.zero_le _, (by intro v hv; cases hv), fun _ => Nat.zero_le _⟩
        · exact ⟨h, (by intro v hv; cases hv), fun _ => Nat.le_refl _⟩

end Interceptor.JitterBuffer

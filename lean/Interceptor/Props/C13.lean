/-
C13 — caller-owned buffers are not retained or modified after a call returns.

The theorems are about the aliasing model of `Model/Alias.lean` and hold for EVERY interceptor
logic (`Machine`): an interceptor all of whose storing sites copy (`Policy.allCopy`, which
`Facts/C13.lean` establishes for every interceptor from the retention facts regenerated from
/repo) emits the same whatever the caller does to its buffers after a call has returned, and
whichever buffers it uses; the model never writes into caller memory.  PARTIAL by design: the
step from the retention facts to the running program (the translator's flow analysis, the
exception table, pion/rtp's `Header.Clone` being deep, the garbage collector) is trusted; the
correspondence run (`scribble`: every history replayed with fresh and with reused+overwritten
caller memory through the real interceptors) is the tie for the behaviour.
-/
import Interceptor.Model.Alias
import Interceptor.Proofs.Alias
set_option linter.unusedVariables false
namespace Interceptor.Alias
open Interceptor.Rtp

/-- all stores are copies ⇒ the emissions of a run are those of the interceptor's logic on the
*contents* of the calls alone: buffer ids and scribbles do not matter. -/
theorem emissions_eq_pure {ε} {pol : Policy} (hp : pol.allCopy = true) (M : Machine ε) (ops : List Op) :
    emissions pol M ops = pureEmissions M (erase ops) :=
  emissionsFrom_pure hp M ops {} [] (by intro h; rfl)

/-- ★ C13 `noninterference`: if every stored value is a copy, the emissions of any run equal the
emissions of the same run with arbitrary scribbles (any buffer, any bytes) inserted after any
returned call — retransmissions, FEC packets, paced packets, dumps and reports do not depend on
what the caller does to its memory once a call has returned. -/
theorem noninterference {ε} {pol : Policy} (hp : pol.allCopy = true) (M : Machine ε)
    {ops ops' : List Op} (h : Scribbled ops ops') :
    emissions pol M ops = emissions pol M ops' := by
  rw [emissions_eq_pure hp, emissions_eq_pure hp, erase_scribbled h]

/-- ★ the same, for the choice of buffers: two runs whose calls have the same contents emit the
same, whichever buffers carry them (and whatever is scribbled in between). -/
theorem contents_determine_emissions {ε} {pol : Policy} (hp : pol.allCopy = true) (M : Machine ε)
    {ops ops' : List Op} (h : erase ops = erase ops') :
    emissions pol M ops = emissions pol M ops' := by
  rw [emissions_eq_pure hp, emissions_eq_pure hp, h]

/-- ★ the form the correspondence run checks: a history replayed with a fresh allocation per
call and replayed with ONE allocation reused and overwritten arbitrarily after every call
emits the same, for every interceptor logic, when all stores are copies. -/
theorem fresh_eq_reuse {ε} {pol : Policy} (hp : pol.allCopy = true) (M : Machine ε)
    (scr : Call → List (BufId × Bytes)) (cs : List Call) :
    emissions pol M (freshOps 0 cs) = emissions pol M (reuseOps scr cs) :=
  contents_determine_emissions hp M (by rw [erase_freshOps, erase_reuseOps])

/-- ★ C13 `no_write_to_caller`: under every policy (copying or aliasing) and for every
interceptor logic, the heap after a run is the heap the caller itself made by filling and
overwriting its buffers: the model never writes to a caller-owned id.  (In the correspondence
run this is the `pmod=0 hmod=0` the real interceptors must print.) -/
theorem no_write_to_caller {ε} (pol : Policy) (M : Machine ε) (ops : List Op) :
    heapAfter pol M {} ops = callerHeap (fun _ => []) ops :=
  heapAfter_eq_callerHeap pol M ops {}

/-- a call changes the heap exactly as the caller's own fill does. -/
theorem step_call_heap {ε} (pol : Policy) (M : Machine ε) (s : St) (ids : Ids) (c : Call) :
    (step pol M s (.call ids c)).1.heap = fill s.heap ids c := rfl

/-- a policy with an aliasing payload site (the packet dumper before the fix of F-25, the NACK
responder with `DisableCopy`). -/
def aliasPayload : Policy := { payload := false, csrc := true, ext := true, att := true }

def w1 : Call := { kind := .w, pl := [1, 2, 3] }
def w2 : Call := { kind := .w, pl := [4, 5, 6] }
def fl : Call := { kind := .flush }

/-- `noninterference` fails for an interceptor with an aliasing store: one packet, overwritten
by the caller after `Write` returned and before the interceptor's goroutine ran (F-25). -/
theorem alias_breaks_noninterference :
    ∃ ops ops', Scribbled ops ops' ∧ emissions aliasPayload echo ops ≠ emissions aliasPayload echo ops' :=
  ⟨[.call (idsAt 0) w1, .call (idsAt 0) fl],
   [.call (idsAt 0) w1, .scribble 0 [238, 238, 238], .call (idsAt 0) fl],
   .keep _ (.ins _ _ (.keep _ .nil)), by decide⟩

/-- the two-packet witness: with an aliasing store the run with one reused buffer emits the
second packet twice, the run with fresh buffers emits both packets — no scribbling needed. -/
theorem alias_breaks_fresh_eq_reuse :
    emissions aliasPayload echo (freshOps 0 [w1, w2, fl]) ≠
      emissions aliasPayload echo (reuseOps (fun _ => []) [w1, w2, fl]) := by decide

/-- non-vacuity: the all-copy policy on the same witnesses gives equal emissions, and the
emissions are not empty. -/
example : emissions Policy.copyAll echo (reuseOps (fun _ => [(0, [238])]) [w1, w2, fl]) = [[], [], [[1, 2, 3], [4, 5, 6]]] := by
  decide
example : emissions aliasPayload echo (reuseOps (fun _ => []) [w1, w2, fl]) = [[], [], [[4, 5, 6], [4, 5, 6]]] := by
  decide
example : Policy.copyAll.allCopy = true := rfl
example : Scribbled [.call (idsAt 0) w1] [.call (idsAt 0) w1, .scribble 0 []] := .keep _ (.ins _ _ .nil)
example : heapAfter aliasPayload echo {} [.call (idsAt 0) w1] 0 = [1, 2, 3] := by decide

end Interceptor.Alias

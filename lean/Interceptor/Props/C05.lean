/-
C05 — TWCC feedback reports exactly what was received, in valid wire form.
Only property theorems live here.  Model: Model/Twcc.lean (+ Model/TwccWire.lean, the marshalled
bytes), tied to pkg/twcc by the `twccrec` / `twccsnd` correspondence; independent decoder and
abstract history: Spec/Twcc.lean.  Helper lemmas: Proofs/TwccChunk (chunk invariant, packer),
TwccFeedback (feedback invariant, rounding), TwccDecode (running-sum decoder), TwccMap (circular
buffer), TwccBuild (build loop), TwccRecord (Record, reachable states), TwccWire (bytes ↔ structure,
size bound).
Design theorems: T1 pack_roundtrip · T2 delta_count · T3 time_quantised · T4 decode_sound ·
T5 build_complete · T6 map_refines · T7 header_len — all proved at full strength for the model.
-/
import Interceptor.Model.Twcc
import Interceptor.Spec.Twcc
import Interceptor.Proofs.TwccChunk
import Interceptor.Proofs.TwccFeedback
import Interceptor.Proofs.TwccDecode
import Interceptor.Proofs.TwccMap
import Interceptor.Proofs.TwccBuild
import Interceptor.Proofs.TwccRecord
import Interceptor.Proofs.TwccWire
set_option linter.unusedVariables false
namespace Interceptor.Twcc

/-! ## T1 — the greedy packer round-trips -/

/-- ★ T1 `pack_roundtrip`: for EVERY symbol list, decoding the chunks the greedy packer emits
(`canAdd`/`add`/`encode` with carry-over, then the flush of `getRTCP`) and truncating to the number
of symbols gives the list back; and every emitted chunk is well formed (run length in 1..8191,
one-bit vectors have exactly 14 symbols none of which is a large delta, two-bit vectors 1..7). -/
theorem pack_roundtrip (syms : List Sym) :
    (decodeChunks (packAll syms)).take syms.length = syms ∧ ∀ ch ∈ packAll syms, ch.wf := by
  obtain ⟨hwf, pad, hdec⟩ := packAll_spec syms
  exact ⟨by rw [hdec]; simp, hwf⟩

/-- T1 seen from `feedback`: `packAll` is exactly what `addReceived`'s pushes + `getRTCP` compute. -/
theorem pack_is_feedback (f : Feedback) (s : Sym) :
    ((f.pushSym s).last, (f.pushSym s).chunks) = packStep (f.last, f.chunks) s :=
  pushSym_last_chunks f s

/-- T1 at the level of the 16-bit chunk words: parsing every marshalled chunk word with the
specification's `parseWord` and expanding gives the input symbols' codes back. -/
theorem pack_roundtrip_wire (syms : List Sym) :
    ((packAll syms).flatMap (fun c => (TwccSpec.parseWord c.word).expand)).take syms.length
      = syms.map Sym.code := by
  obtain ⟨hwf, pad, hdec⟩ := packAll_spec syms
  have : (packAll syms).flatMap (fun c => (TwccSpec.parseWord c.word).expand)
      = (decodeChunks (packAll syms)).map Sym.code := by
    unfold decodeChunks
    generalize packAll syms = cs at hwf
    induction cs with
    | nil => rfl
    | cons c cs ih =>
      simp only [List.flatMap_cons, List.map_append]
      rw [parseWord_word c (hwf c (by simp)), Chunk.toW_expand, ih (fun d hd => hwf d (by simp [hd]))]
  rw [this, hdec, List.map_append, List.take_left' (by simp)]

set_option maxRecDepth 20000 in
/-- non-vacuity / sanity: a run, a one-bit vector and a short two-bit vector. -/
example : packAll ((List.replicate 20 Sym.small) ++ [.nr, .small, .nr, .small, .small, .small, .small,
    .small, .small, .small, .small, .small, .small, .small, .large, .nr])
    = [.run .small 20, .vec1 [.nr, .small, .nr, .small, .small, .small, .small, .small, .small, .small,
        .small, .small, .small, .small], .vec2 [.large, .nr]] := by decide

/-! ## T2 — one delta per received status -/

/-- ★ T2 `delta_count`: in the packet built from any feedback (`setBase` + successful
`addReceived`s), the recv-delta list has exactly one entry per received status among the first
`count` decoded statuses, in order, and each delta's kind (small / large) is that status' symbol. -/
theorem delta_count {f : Feedback} (h : Built f) (hc : f.count < 65536) :
    f.getRTCP.deltas.map (·.1) =
      ((decodeChunks f.getRTCP.chunks).take f.getRTCP.count).filter (fun s => decide (s ≠ Sym.nr)) := by
  obtain ⟨syms, hi⟩ := built_inv h
  obtain ⟨_, ⟨pad, hdec⟩, hd, hcnt⟩ := getRTCP_spec hi
  have : syms.length % 65536 = syms.length := by rw [← hi.count]; omega
  rw [hd, hcnt, hdec, this, hi.kinds]
  simp

/-- T2, second half: every delta is a multiple of 250 µs that fits its wire size
(small: 0..255 ticks in one byte; large: int16 ticks in two bytes). -/
theorem delta_fits {f : Feedback} (h : Built f) :
    ∀ d ∈ f.getRTCP.deltas, ∃ q : Int, d.2 = q * 250 ∧
      ((d.1 = Sym.small ∧ 0 ≤ q ∧ q ≤ 255) ∨ (d.1 = Sym.large ∧ -32768 ≤ q ∧ q ≤ 32767)) := by
  obtain ⟨syms, hi⟩ := built_inv h
  exact hi.range

/-! ## T3 — quantisation -/

/-- ★ T3 `time_quantised`: after every successful `addReceived(seq, t)` the running time
`lastTimestampUS` is within 125 µs of `t`, the appended delta is the int16-range number of 250 µs
ticks, and `addReceived` refuses (so that the recorder starts a new packet) exactly when the
rounded delta does not fit int16 — or the packet already holds `maxDeltaBytes` of deltas (F-33 fix). -/
theorem time_quantised {f : Feedback} (h : Built f) (seq : Nat) (t : Int) :
    (∀ f', f.addReceived seq t = some f' →
      -125 ≤ f'.lastUS - t ∧ f'.lastUS - t ≤ 125 ∧
      ∃ sym q, f'.deltas = f.deltas.push (sym, q * 250) ∧ -32768 ≤ q ∧ q ≤ 32767) ∧
    (f.addReceived seq t = none ↔
      ((delta250 (t - f.lastUS) < -32768 ∨ delta250 (t - f.lastUS) > 32767) ∨ f.len ≥ maxDeltaBytes)) := by
  obtain ⟨syms, hi⟩ := built_inv h
  constructor
  · intro f' hadd
    obtain ⟨sym, q, hq, h1, h2, _, _, hd, hl, _⟩ := addReceived_spec hi hadd
    have := delta250_close (t - f.lastUS)
    rw [← hq] at this
    exact ⟨by omega, by omega, sym, q, hd, h1, h2⟩
  · exact addReceived_none_iff f seq t

/-- T3 corollary: the running time equals reference time + the sum of the deltas on the wire, so
a decoder that adds up the deltas recovers `lastTimestampUS` exactly. -/
theorem time_is_sum {f : Feedback} (h : Built f) :
    f.lastUS = f.ref64 * 64000 + (f.getRTCP.deltas.map (·.2)).sum := by
  obtain ⟨syms, hi⟩ := built_inv h
  exact hi.time

example : ((newFeedback 1 2 0).setBase 10 1000000).addReceived 10 1000100 ≠ none := by decide
example : ((newFeedback 1 2 0).setBase 10 0).addReceived 10 8191875 = none := by decide

/-! ## T4 — decode soundness -/

/-- T4, per packet (`decode_sound_packet`): for every feedback the recorder can assemble
(`setBase`, then any successful `addReceived (seq_i, t_i)`), decoding the emitted packet the way the
draft prescribes (first `count` statuses of the chunks, one delta per received status, time =
24-bit reference time · 64 ms + running sum of the deltas; `TwccSpec.timed`) yields exactly `count`
statuses; the statuses that carry a time are, in order, exactly the added `(seq_i, t_i)` — same
sequence number, decoded time within 125 µs of `t_i` modulo the reference-time range
(`K` = the multiple of 2^24·64 ms the 24-bit field dropped) — and every other status is
"not received". -/
theorem decode_sound_packet {f : Feedback} {log : List (Nat × Int)} (h : BuiltLog f log)
    (hc : f.count < 65536) (hr : 0 ≤ f.ref64) :
    f.getRTCP.decodeStruct.length = f.getRTCP.count ∧
    ReportsAll ((f.getRTCP.decodeStruct.map (shiftEntry (f.ref64 / 16777216 * 1073741824000))).filter
      (fun e => e.time.isSome)) log ∧
    (∀ e ∈ f.getRTCP.decodeStruct, e.time = none → e.status = 0) := by
  obtain ⟨syms, hl⟩ := builtLog_inv h
  obtain ⟨_, ⟨pad, hdec⟩, hd, hcnt⟩ := getRTCP_spec hl.inv
  have hlen : syms.length % 65536 = syms.length := by rw [← hl.inv.count]; omega
  have hst : f.getRTCP.statuses = pair syms f.deltas.toList := by
    unfold Packet.statuses
    rw [hd, hcnt, hdec, hlen]
    simp
  have href : (((f.getRTCP.ref % 16777216 : Nat) : Int) * 64000) + f.ref64 / 16777216 * 1073741824000
      = f.ref64 * 64000 := by
    simp only [Feedback.getRTCP]
    omega
  have hbase : f.getRTCP.base = f.base := rfl
  unfold Packet.decodeStruct
  rw [hst, hbase, timed_shift, href]
  refine ⟨?_, hl.rep, timed_none _ _ _ hl.nrs⟩
  rw [timed_length, pair_length, hcnt, hlen]

/-- non-vacuity: the hypotheses are satisfiable (a feedback with one logged addition exists). -/
example : ∃ f, BuiltLog f [(10, 1000100)] ∧ f.count < 65536 ∧ 0 ≤ f.ref64 := by
  cases h : ((newFeedback 1 2 0).setBase 10 1000000).addReceived 10 1000100 with
  | none => exact absurd h (by decide)
  | some f' =>
    refine ⟨f', .add (log := []) 10 1000100 (.base 1 2 0 10 1000000 (by decide)) (by decide) h, ?_⟩
    have : some f' = some (((newFeedback 1 2 0).setBase 10 1000000).addReceived 10 1000100 |>.getD default) := by
      rw [h]; rfl
    injection this with this
    rw [this]
    decide

/-- T4, the byte level (`wire_decode`): the independent decoder `TwccSpec.decode`, run on the bytes
the model marshals (`Packet.toWire`: 24-bit reference time, chunk words, delta bytes, padding),
parses them and returns exactly the structured decoding used above — every chunk word parses back
to its chunk, the parser consumes exactly the emitted chunks, every delta is read with the size its
status announces. -/
theorem wire_decode {f : Feedback} (h : Built f) (hc : f.count < 65536) :
    TwccSpec.decode f.getRTCP.toWire = some f.getRTCP.decodeStruct := by
  obtain ⟨syms, hi⟩ := built_inv h
  obtain ⟨_, ⟨pad, hdec⟩, hd, hcnt⟩ := getRTCP_spec hi
  have hlen : syms.length % 65536 = syms.length := by rw [← hi.count]; omega
  have hst : f.getRTCP.statuses = pair syms f.deltas.toList := by
    unfold Packet.statuses
    rw [hd, hcnt, hdec, hlen]
    simp
  unfold TwccSpec.decode
  rw [parse_toWire hi hc]
  simp only [Option.map_some, Packet.decodeStruct, hst, Packet.toWire]

/-- ★ T4 `decode_sound`: in every reachable recorder state (any interleaving of records and
builds), the packets `BuildFeedbackPacket` returns partition the received numbers of the arrival map
from the cursor on (`received r.map s end`: ascending, with the times the map holds); the
independent decoder `TwccSpec.decode` accepts the bytes of each packet and returns exactly `count`
statuses; the statuses carrying a time are exactly the packet's group of numbers (mod 2^16), each
with a decoded time within 125 µs of the map's arrival time modulo 2^24·64 ms (`K`), and all its
other statuses are "not received".  That the map's time for a number is the first arrival recorded
for it (still in the history) is `map_refines` + `record_keeps_pending`. -/
theorem decode_sound {r : Recorder} (hr : Reach r) (s : Int) (hs : r.start = some s) :
    ∃ groups : List (Feedback × List (Int × Int)),
      r.build.2 = groups.map (fun g => g.1.getRTCP) ∧
      (groups.map (·.2)).flatten = received r.map s r.map.endSN ∧
      ∀ g ∈ groups, ∃ es : List TwccSpec.Entry,
        TwccSpec.decode g.1.getRTCP.toWire = some es ∧
        es.length = g.1.getRTCP.count ∧
        (∃ K : Int, K % 1073741824000 = 0 ∧
          ReportsAll ((es.map (shiftEntry K)).filter (fun e => e.time.isSome)) (g.2.map wire)) ∧
        (∀ e ∈ es, e.time = none → e.status = 0) := by
  obtain ⟨groups, g1, g2, g3, _⟩ := (build_spec r (reach_inv hr)).2 s hs
  refine ⟨groups, g1, g2, ?_⟩
  intro g hg
  obtain ⟨B, c, hcov, hb, _, _, _⟩ := covers_mem g3 g hg
  have hcnt : g.1.count < 65536 := by have := hcov.count; omega
  obtain ⟨d1, d2, d3⟩ := decode_sound_packet hcov.built hcnt hcov.ref
  exact ⟨_, wire_decode (builtLog_built hcov.built) hcnt, d1, ⟨_, by omega, d2⟩, d3⟩

/-! ## T5 — completeness of a build -/

/-- ★ T5 `build_complete`: in every reachable state, one `BuildFeedbackPacket` reports every received
number of the map from the cursor to the end exactly once and in order (`flatten = received`);
consecutive packets cover consecutive, non-overlapping ranges: packet k starts at
`max(cursor_k, first_k − 0x7FFE)` (the documented skip of more than 0x7FFE missing numbers), holds one
status for every number up to its last received one, and the next cursor is that number + 1
(`Covers`); `fbPktCount` increases by one per packet (mod 256), also across builds; the cursor ends
after the last reported number; the map is untouched. -/
theorem build_complete {r : Recorder} (hr : Reach r) :
    (r.start = none → r.build = (r, [])) ∧
    (∀ s, r.start = some s →
      ∃ groups : List (Feedback × List (Int × Int)),
        r.build.2 = groups.map (fun g => g.1.getRTCP) ∧
        (groups.map (·.2)).flatten = received r.map s r.map.endSN ∧
        Covers r.sender r.media s r.fbCnt groups ∧
        r.build.1.fbCnt = (r.fbCnt + groups.length) % 256 ∧
        r.build.1.map = r.map ∧
        r.build.1.start = some (lastNext s (received r.map s r.map.endSN))) := by
  obtain ⟨b1, b2⟩ := build_spec r (reach_inv hr)
  refine ⟨b1, fun s hs => ?_⟩
  obtain ⟨groups, g1, g2, g3, g4, g5, _, _, _, g9, _⟩ := b2 s hs
  exact ⟨groups, g1, g2, g3, g4, g5, g9⟩

/-- T5, the record side (`record_keeps_pending`): `Record(seq, t)` never moves the cursor past a
number that is still in the map and was pending (at or above the old cursor) or is the number just
recorded — so "every packet recorded since the previous feedback (and still in the map) is reported
by the next one" follows with `build_complete`; and it never alters a stored arrival time: an entry
is kept, dropped, or — only for the recorded number, only if it had no entry — set to `t`
(first arrival wins). -/
theorem record_keeps_pending {r : Recorder} (hr : Reach r) (ssrc seq : Nat) (t : Int) :
    ∃ s', (r.record ssrc seq t).start = some s' ∧
      (∀ x, (r.record ssrc seq t).map.get x = r.map.get x ∨ (r.record ssrc seq t).map.get x = -1 ∨
        (x = (Unwrapper.unwrap r.unw seq).2 ∧ r.map.get x < 0 ∧ (r.record ssrc seq t).map.get x = t)) ∧
      (∀ x, 0 ≤ (r.record ssrc seq t).map.get x →
        (x = (Unwrapper.unwrap r.unw seq).2 ∨ ∃ s, r.start = some s ∧ s ≤ x) → s' ≤ x) :=
  (record_spec r (reach_inv hr) ssrc seq t).2.2.2.2.2

set_option maxRecDepth 100000 in
example : (((newRecorder 1).record 2 10 1000).record 2 12 3000).build.2.length = 1 := by decide

/-! ## T7 — declared length -/

/-- ★ T7 `header_len`: the RTCP header length field `getRTCP` writes (in 32-bit words minus one)
describes exactly the marshalled size (20 bytes of headers + 2 per chunk + 1 or 2 per delta,
padded to a multiple of 4), and the padding bit is set exactly when padding bytes exist.  The
hypothesis is the range of the 16-bit length field itself (a feedback has at most 2^16 statuses, so
its size is below 2^18); `header_len_reach` removes it for every packet a recorder can produce. -/
theorem header_len {f : Feedback} (h : Built f) (hs : f.getRTCP.marshalSize ≤ 262144) :
    4 * (f.getRTCP.hdrLength + 1) = f.getRTCP.marshalSize ∧
    (f.getRTCP.padding = true ↔
      (20 + 2 * f.getRTCP.chunks.length + (f.getRTCP.deltas.map deltaSize).sum) % 4 ≠ 0) := by
  obtain ⟨syms, hi⟩ := built_inv h
  have hl := hi.len
  have e1 : f.getRTCP.chunks.length = (flushChunks (f.last.deltas.size + 1) f.last f.chunks).size := by
    simp [Feedback.getRTCP]
  have e2 : f.getRTCP.deltas = f.deltas.toList := rfl
  have e3 : f.getRTCP.hdrLength =
      ((if (20 + (flushChunks (f.last.deltas.size + 1) f.last f.chunks).size * 2 + f.len) % 4 = 0
        then 20 + (flushChunks (f.last.deltas.size + 1) f.last f.chunks).size * 2 + f.len
        else 20 + (flushChunks (f.last.deltas.size + 1) f.last f.chunks).size * 2 + f.len +
          (4 - (20 + (flushChunks (f.last.deltas.size + 1) f.last f.chunks).size * 2 + f.len) % 4)) / 4 - 1)
        % 65536 := rfl
  have e4 : f.getRTCP.padding =
      decide ((20 + (flushChunks (f.last.deltas.size + 1) f.last f.chunks).size * 2 + f.len) % 4 ≠ 0) := rfl
  unfold Packet.marshalSize at hs ⊢
  rw [e1, e2, ← hl] at hs
  rw [e1, e2, e3, e4, ← hl]
  exact hdr_arith _ _ hs

example : (((newFeedback 1 2 0).setBase 10 1000000).addReceived 10 1000100).map
    (fun f => (f.getRTCP.hdrLength, f.getRTCP.marshalSize, f.getRTCP.padding)) = some (5, 24, true) := by
  decide

/-- ★ T7 for every packet of every reachable build, without any size hypothesis
(`header_len_reach`): its declared length is its marshalled size, and that size is at most 58 542
bytes — within what pion/rtcp can marshal (it sizes a TransportLayerCC in a uint16).  The bound
rests on the F-33 fix (`maxDeltaBytes`): without it a build of 2^15 statuses with two-byte deltas
produced a 65 568-byte packet on which `rtcp.TransportLayerCC.Marshal` panics
(corpus/C05/F-33.ops). -/
theorem header_len_reach {r : Recorder} (hr : Reach r) :
    ∀ p ∈ r.build.2, 4 * (p.hdrLength + 1) = p.marshalSize ∧ p.marshalSize ≤ 58542 := by
  intro p hp
  cases hs : r.start with
  | none => rw [((build_spec r (reach_inv hr)).1 hs)] at hp; simp at hp
  | some s =>
    obtain ⟨groups, g1, _, g3, _⟩ := (build_spec r (reach_inv hr)).2 s hs
    rw [g1] at hp
    obtain ⟨g, hg, rfl⟩ := List.mem_map.mp hp
    obtain ⟨B, c, hcov, hb, _, _, _⟩ := covers_mem g3 g hg
    have hbuilt := builtLog_built hcov.built
    obtain ⟨syms, hi⟩ := built_inv hbuilt
    have hsz := marshalSize_fix hbuilt hi
    have hcnt := hi.count
    have := hcov.count
    have hle : g.1.getRTCP.marshalSize ≤ 58542 := by unfold maxDeltaBytes at hsz; omega
    exact ⟨(header_len hbuilt (by omega)).1, hle⟩

/-! ## T6 — the arrival map refines a partial function on a window -/

/-- ★ T6 `map_refines`: the circular buffer behaves as the partial function `get : number ⇀ time`
(−1 = absent) restricted to the window `[begin, end)`:
* `AddPacket sn t` on a well-formed map gives a well-formed map; it is ignored iff `sn` lies more
  than 2^15 below the end; otherwise the window becomes `[newBegin, max end (sn+1))`, `sn ↦ t`, every
  other number inside the new window keeps its entry (numbers in a gap read "absent") and everything
  outside reads "absent" — across every reallocation;
* `RemoveOldPackets sn limit` only drops a prefix of the window (below `sn`, each entry absent or
  `≤ limit`, stopping at the first younger one) and changes nothing else;
* well-formed = capacity a power of two in [128, 65536], `end − begin ≤ 2^15` and `≤ capacity`
  (the C12 bound), and every reachable recorder's map is unallocated or well formed. -/
theorem map_refines :
    (∀ (m : ArrivalMap) (sn t : Int), ArrivalMap.WF m →
      ArrivalMap.WF (m.addPacket sn t) ∧
      (if sn < m.beginSN ∧ m.endSN - sn > 32768 then m.addPacket sn t = m
       else (m.addPacket sn t).beginSN = ArrivalMap.newBegin m sn ∧
        (m.addPacket sn t).endSN = max m.endSN (sn + 1) ∧
        ∀ x, (m.addPacket sn t).get x =
          if x = sn then t
          else if ArrivalMap.newBegin m sn ≤ x ∧ x < max m.endSN (sn + 1) then m.get x else -1)) ∧
    (∀ (m : ArrivalMap) (sn limit : Int), ArrivalMap.WF m →
      ArrivalMap.WF (m.removeOld sn limit) ∧ (m.removeOld sn limit).endSN = m.endSN ∧
      m.beginSN ≤ (m.removeOld sn limit).beginSN ∧
      (m.removeOld sn limit).beginSN ≤ max m.beginSN (min sn m.endSN) ∧
      (∀ x, (m.removeOld sn limit).get x = if (m.removeOld sn limit).beginSN ≤ x then m.get x else -1) ∧
      (∀ x, m.beginSN ≤ x → x < (m.removeOld sn limit).beginSN → m.get x ≤ limit) ∧
      ((m.removeOld sn limit).beginSN < min sn m.endSN → m.get (m.removeOld sn limit).beginSN > limit)) ∧
    (∀ m : ArrivalMap, ArrivalMap.WF m →
      128 ≤ m.cap ∧ m.cap ≤ 65536 ∧ (∃ k, m.cap = 2 ^ k) ∧
      0 ≤ m.endSN - m.beginSN ∧ m.endSN - m.beginSN ≤ 32768 ∧ m.endSN - m.beginSN ≤ (m.cap : Int)) ∧
    (∀ r : Recorder, Reach r → r.map.cap = 0 ∨ ArrivalMap.WF r.map) := by
  refine ⟨fun m sn t h => ArrivalMap.addPacket_spec m h sn t,
    fun m sn limit h => ArrivalMap.removeOld_spec m h sn limit, ?_, ?_⟩
  · intro m h
    obtain ⟨k, _, _, e⟩ := h.pow
    have := h.order
    exact ⟨h.pow.ge, h.pow.le, ⟨k, e⟩, by omega, h.window, h.fits⟩
  · intro r hr
    rcases (reach_inv hr).st with ⟨h0, _⟩ | ⟨hwf, _⟩
    · exact Or.inl h0
    · exact Or.inr hwf

/-- non-vacuity: a reachable recorder with a well-formed map. -/
example : ArrivalMap.WF ((newRecorder 1).record 2 10 1000).map := by
  rcases (reach_inv (Reach.record 2 10 1000 (Reach.new 1))).st with ⟨h0, _⟩ | ⟨hwf, _⟩
  · exact absurd h0 (by set_option maxRecDepth 100000 in decide)
  · exact hwf

end Interceptor.Twcc

import Interceptor.Model.AttrCache
/-
C02 / C01, the parse cache of `interceptor.Attributes`: in a chain of readers in which every member that hands
on other bytes than it read also hands on fresh attributes, every member that looks at the header through the
cache sees the parse of exactly the bytes it holds — whatever the bytes, parseable or not, and whatever the
members inside it did; a failed parse leaves nothing behind.  The negation for a member that keeps the
attributes (the jitter buffer before F-42) is proved with a witness.
-/
namespace Interceptor.Props.C02Attrs
open Interceptor.Model.AttrCache

variable {Raw H : Type}

/-- ★ a look through a coherent cache returns the parse of the bytes it is given -/
theorem look_eq_parse (parse : Raw → Option H) (a : Attrs H) (raw : Raw) (hc : Coherent parse a raw) :
    (look parse a raw).1 = parse raw := by
  unfold look
  cases hca : a.cached with
  | some h => simp [hc h hca]
  | none => cases hp : parse raw <;> simp

/-- ★ and leaves the cache coherent with the same bytes -/
theorem look_coherent (parse : Raw → Option H) (a : Attrs H) (raw : Raw) (hc : Coherent parse a raw) :
    Coherent parse (look parse a raw).2 raw := by
  unfold look
  cases hca : a.cached with
  | some h => simpa [hca] using hc
  | none =>
    cases hp : parse raw with
    | none => simpa [hca, hp] using hc
    | some h =>
      intro h' hh
      simp at hh
      simp [hp, ← hh]

/-- ★ a failed parse leaves nothing in the map: the next look, at other bytes, gets the parse of those bytes -/
theorem failed_parse_leaves_nothing (parse : Raw → Option H) (raw raw' : Raw) (hfail : parse raw = none) :
    (look parse (look parse ({} : Attrs H) raw).2 raw').1 = parse raw' := by
  have : (look parse ({} : Attrs H) raw).2 = {} := by simp [look, hfail]
  rw [this]
  exact look_eq_parse parse {} raw' (by intro h hh; simp at hh)

theorem fresh_coherent (parse : Raw → Option H) (raw : Raw) : Coherent parse ({} : Attrs H) raw := by
  intro h hh; simp at hh

/-- one well-behaved member keeps the pair (bytes, attributes) coherent and, if it looks, sees the parse of its bytes -/
theorem step_coherent (parse : Raw → Option H) (m : Member Raw) (raw : Raw) (a : Attrs H)
    (hw : m.wellBehaved = true) (hc : Coherent parse a raw) :
    Coherent parse (m.step parse raw a).2.2 (m.step parse raw a).2.1 ∧
      ∀ x, (m.step parse raw a).1 = some x → x.1 = x.2 := by
  cases m with
  | pass => exact ⟨hc, by intro x hx; simp [Member.step] at hx⟩
  | observe =>
    refine ⟨look_coherent parse a raw hc, ?_⟩
    intro x hx
    simp [Member.step] at hx
    rw [← hx]
    exact look_eq_parse parse a raw hc
  | replace raw' => exact ⟨fresh_coherent parse raw', by intro x hx; simp [Member.step] at hx⟩
  | replaceStale raw' => simp [Member.wellBehaved] at hw

/-- ★ C02/C01 (attributes): through any chain of well-behaved members, starting from any bytes with coherent
attributes (in particular the fresh map of a read), every observation equals the parse of the bytes the observer
holds, and the application receives bytes and attributes that agree. -/
theorem chain_coherent (parse : Raw → Option H) (ms : List (Member Raw)) (raw : Raw) (a : Attrs H)
    (hw : ∀ m ∈ ms, m.wellBehaved = true) (hc : Coherent parse a raw) :
    (∀ x ∈ (run parse ms raw a).1, x.1 = x.2) ∧
      Coherent parse (run parse ms raw a).2.2 (run parse ms raw a).2.1 := by
  induction ms generalizing raw a with
  | nil => exact ⟨by intro x hx; simp [run] at hx, hc⟩
  | cons m ms ih =>
    have hm := step_coherent parse m raw a (hw m (by simp)) hc
    have hrest := ih (m.step parse raw a).2.1 (m.step parse raw a).2.2
      (fun m' hm' => hw m' (by simp [hm'])) hm.1
    simp only [run]
    constructor
    · intro x hx
      cases ho : (m.step parse raw a).1 with
      | none => simp [ho] at hx; exact hrest.1 x hx
      | some y =>
        simp [ho] at hx
        rcases hx with hx | hx
        · rw [hx]; exact hm.2 y ho
        · exact hrest.1 x hx
    · exact hrest.2

/-- ★ the negation for a member that hands on other bytes with the attributes of the packet it read (the jitter
buffer interceptor before F-42): an observer further out sees the header of another packet. Witness: bytes are
numbers, the header is the number itself; inside an observer caches 7, the member hands on 3, the observer outside
is told 7 about bytes that parse to 3. -/
theorem stale_attributes_break :
    ∃ x ∈ (run (fun n : Nat => some n) [Member.observe, Member.replaceStale 3, Member.observe] 7 {}).1, x.1 ≠ x.2 := by
  refine ⟨(some 7, some 3), ?_, by decide⟩
  decide

/-- non-vacuity: a chain [observer, jitter buffer (fresh attributes), observer] on parseable and unparseable bytes -/
example : (run (fun n : Nat => if n < 10 then some n else none)
    [Member.observe, Member.replace 3, Member.observe, Member.pass] 12 {}).1 = [(none, none), (some 3, some 3)] := by
  decide

end Interceptor.Props.C02Attrs

/-
C16 — the bounds clause restated on the code itself, as far as the translator reaches: on the Lean definitions
that extract/fn.go regenerates from pkg/gcc on every run (`clampInt`, `lossBasedBandwidthEstimator.getEstimate`;
Gen/Fn_gcc.lean).

`SendSideBWE.onDelayUpdate` itself is outside the translator's subset (pointer fields, a `go` statement), so the
ONE line that combines the two translated functions,

    bitrate := clampInt(min(delayStats.TargetBitrate, lossStats.TargetBitrate), e.minBitrate, e.maxBitrate)

is transcribed by hand as `srcPublished` (that the code contains this line, with the clamp, is what the trace
acceptor's clause `target = clamp(min(delay, loss))` checks on every recorded step).  Everything inside it is
source-derived.  The theorems: the value is the model's `combine true` of the model's `lossEstimate`, it lies within
the configured bounds for EVERY estimator state (any stored loss bitrate, any bounds stored in the loss
controller, any wanted rate — including int(NaN) = −2^63), and it is positive when the minimum is; iterating
`getEstimate` over any sequence of wanted rates keeps this (the loss controller's state is threaded through the
translated function, not through the model).
-/
import Interceptor.Facts.FnGccLoss
import Interceptor.Props.C16
namespace Interceptor.C16Src
open Interceptor.Gen.Fn Interceptor.GoSem Interceptor Interceptor.Facts.FnGccLoss

/-- the value `onDelayUpdate` publishes, built from the translated `getEstimate` and `clampInt`. -/
def srcPublished (e : S_gcc_lossBasedBandwidthEstimator) (wanted cmin cmax : Int) : Int :=
  gcc_clampInt (min wanted (gcc_lossBasedBandwidthEstimator_getEstimate e wanted).1.TargetBitrate) cmin cmax

/-- ★ it is the model's published value. -/
theorem srcPublished_eq_model (e : S_gcc_lossBasedBandwidthEstimator) (h : LossCfg e) (c : Gcc.Cfg) (wanted : Int) :
    srcPublished e wanted c.min c.max = Gcc.combine true c wanted (Gcc.lossEstimate e.bitrate wanted) := by
  simp only [srcPublished, (getEstimate_src_eq_model e h wanted).2, Gcc.combine, Facts.FnGcc.clampInt_src_eq_model]
  rfl

/-- ★ C16, bounds: whatever the loss controller holds and whatever the delay controller wants, the published
target lies within the configured bounds, hence is positive when the minimum is. -/
theorem srcPublished_in_bounds (e : S_gcc_lossBasedBandwidthEstimator) (wanted cmin cmax : Int)
    (hc : cmin ≤ cmax) : cmin ≤ srcPublished e wanted cmin cmax ∧ srcPublished e wanted cmin cmax ≤ cmax := by
  simp only [srcPublished, Facts.FnGcc.clampInt_src_eq_model]
  exact Gcc.clampInt_bounds _ _ _ hc

theorem srcPublished_pos (e : S_gcc_lossBasedBandwidthEstimator) (wanted cmin cmax : Int)
    (h0 : 0 < cmin) (hc : cmin ≤ cmax) : 0 < srcPublished e wanted cmin cmax := by
  have := (srcPublished_in_bounds e wanted cmin cmax hc).1; omega

/-- thread the translated `getEstimate` through a sequence of wanted rates, collecting what is published. -/
def srcRun (cmin cmax : Int) : S_gcc_lossBasedBandwidthEstimator → List Int → List Int
  | _, [] => []
  | e, w :: ws => srcPublished e w cmin cmax :: srcRun cmin cmax (gcc_lossBasedBandwidthEstimator_getEstimate e w).2 ws

/-- ★ every value of every run is within bounds — for all sequences, all initial states. -/
theorem srcRun_in_bounds (cmin cmax : Int) (hc : cmin ≤ cmax) (ws : List Int) :
    ∀ e : S_gcc_lossBasedBandwidthEstimator, ∀ v ∈ srcRun cmin cmax e ws, cmin ≤ v ∧ v ≤ cmax := by
  induction ws with
  | nil => intro e v hv; simp [srcRun] at hv
  | cons w ws ih =>
    intro e v hv
    simp only [srcRun, List.mem_cons] at hv
    rcases hv with rfl | hv
    · exact srcPublished_in_bounds e w cmin cmax hc
    · exact ih _ v hv

/-- ★ and the loss controller's stored bitrate never exceeds the last wanted rate (so the loss target the
statistics report is never above the delay target: the acceptor's `loss-target-above-wanted` clause). -/
theorem srcRun_loss_le_wanted (e : S_gcc_lossBasedBandwidthEstimator) (w : Int) :
    (gcc_lossBasedBandwidthEstimator_getEstimate e w).2.bitrate ≤ w := (getEstimate_le_wanted e w).2

/-- non-vacuity, and the F-20 situation on the source-derived definitions: configured minimum 200 kbit/s, delay
target 150 kbit/s on the first update (stored bitrate 0: the reset branch) — the published value is the minimum,
not 150 000. -/
example : srcPublished { minBitrate := 100000, maxBitrate := 100000000, bitrate := 0 } 150000 200000 1000000
    = 200000 := by decide

end Interceptor.C16Src

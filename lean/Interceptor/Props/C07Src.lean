/-
C07 — the property theorems restated on the code itself: on the Lean definitions that extract/fn.go
regenerates from pkg/report/sender_stream.go on every run (Gen/Fn_report.lean):
`report_senderStream_processRTP` run over an arbitrary call sequence (`FnSenderReport.goRun`) from the state
`newSenderStream` builds (`FnSenderReport.goNew`), then `report_senderStream_generateReport`.
Each statement follows from the model theorem of Props/C07.lean and the source-equals-model theorems of
Facts/FnSenderReport.lean / Facts/FnSenderGenerate.lean (`run_src_eq_model`, `timeOk_run`,
`generateReport_src_eq_model_instant`).  No ★ statement mentions the hand-written model `SenderReport.Stream` (only the helper `rel_run` does);
the send history a call sequence stands for (`pkts`: arrival instant, sequence number, timestamp, payload
length per call) and the recounts of Spec/SenderReport.lean are the definition of "the true value".

Hypotheses: the header fields are in the range of their Go types (`HeaderOk`: uint16 sequence number, uint32
timestamp); where a time difference is taken, every `now` is an `instant` (−2^62 ≤ Unix ns < 2^62: Go's
`Time.Sub` saturates at ±2^63 while the property subtracts exactly); where the first-packet test
`packetCount == 0` matters, the history is shorter than 2^32 packets (the uint32 counter wraps).
-/
import Interceptor.Facts.FnSenderGenerate
import Interceptor.Props.C07
set_option linter.unusedVariables false
namespace Interceptor.C07Src
open Interceptor Interceptor.Gen.Fn Interceptor.GoSem Interceptor.SenderReport Interceptor.SenderReport.Spec
open Interceptor.Facts.FnSenderReport Interceptor.Facts.FnSenderGenerate

/-- the send history a Go call sequence stands for. -/
def pkts (cs : List Call) : List Pkt := cs.map fun c => pktOf c.1 c.2.1 c.2.2

theorem pkts_length (cs : List Call) : (pkts cs).length = cs.length := by simp [pkts]

theorem pkts_ne (cs : List Call) (h : cs ≠ []) : pkts cs ≠ [] := by
  cases cs with
  | nil => exact absurd rfl h
  | cons c cs => simp [pkts]

theorem pkts_instant (cs : List Call) (ht : ∀ c ∈ cs, instant c.1) : ∀ p ∈ pkts cs, instant p.now := by
  intro p hp
  simp only [pkts, List.mem_map] at hp
  obtain ⟨c, hc, rfl⟩ := hp
  exact ht c hc

/-- the generated state after any call sequence from the constructor is related to the model's. -/
theorem rel_run (ssrc rate : Nat) (l : Bool) (cs : List Call) (hh : ∀ c ∈ cs, HeaderOk c.2.1) :
    Rel (goRun (goNew ssrc rate l) cs) (run (SenderReport.new ssrc rate l) (pkts cs)) :=
  run_src_eq_model cs hh _ _ (rel_new ssrc rate l)

theorem goRun_snoc (g : S_report_senderStream) (cs : List Call) (c : Call) :
    goRun g (cs ++ [c]) = report_senderStream_processRTP (goRun g cs) c.1 c.2.1 c.2.2 := by
  simp [goRun, List.foldl_append]

theorem pkts_snoc (cs : List Call) (c : Call) : pkts (cs ++ [c]) = pkts cs ++ [pktOf c.1 c.2.1 c.2.2] := by
  simp [pkts]

/-- ★ C07 clause "a packet count equal to the number of RTP packets written on that stream and an octet count
equal to the sum of their payload lengths (both modulo 2^32)", on the code: after any sequence of generated
`processRTP` calls from the state `newSenderStream` builds, the report the generated `generateReport` returns
(at any `now`) carries `PacketCount = #calls mod 2^32` and `OctetCount = Σ len(payload) mod 2^32`, and the
stream's SSRC. -/
theorem report_counts_eq_recount_src (ssrc rate : Nat) (l : Bool) (cs : List Call)
    (hh : ∀ c ∈ cs, HeaderOk c.2.1) (now : Int) :
    let rep := report_senderStream_generateReport (goRun (goNew ssrc rate l) cs) now
    rep.PacketCount = ((cs.length % 4294967296 : Nat) : Int) ∧
    rep.OctetCount = (((cs.map fun c => c.2.2.length).sum % 4294967296 : Nat) : Int) ∧
    rep.SSRC = (ssrc : Int) := by
  have r := rel_run ssrc rate l cs hh
  obtain ⟨a, b⟩ := report_counts_eq_recount ssrc rate l (pkts cs) now
  simp only [SenderReport.generateReport, Spec.packetCount, Spec.octetCount] at a b
  have hs : (run (SenderReport.new ssrc rate l) (pkts cs)).ssrc = ssrc := by
    have : ∀ (ps : List Pkt) (s : Stream), (run s ps).ssrc = s.ssrc := by
      intro ps
      induction ps with
      | nil => intro s; rfl
      | cons p ps ih =>
        intro s
        simp only [run, List.foldl_cons] at ih ⊢
        rw [ih]
        unfold SenderReport.processRTP
        dsimp only
        split <;> (try split) <;> rfl
    rw [this]; rfl
  refine ⟨?_, ?_, ?_⟩
  · show (goRun (goNew ssrc rate l) cs).packetCount = _
    rw [r.packetCount, a, pkts_length]
  · show (goRun (goNew ssrc rate l) cs).octetCount = _
    rw [r.octetCount, b]
    simp only [pkts, List.map_map]
    rfl
  · show (goRun (goNew ssrc rate l) cs).ssrc = _
    rw [r.ssrc, hs]

/-- ★ C07 clause "an NTP timestamp equal to the report instant", on the code: the `NTPTime` of the report the
generated `generateReport` returns is `ToNTP(now)` — the translated `ntp.ToNTP` (Gen/Fn_ntp.lean), which is
the NTP conversion `Ntp.toNTP` C20 is about — on every state. -/
theorem ntp_field_src (g : S_report_senderStream) (now : Int) :
    (report_senderStream_generateReport g now).NTPTime = ntp_ToNTP now ∧
    ntp_ToNTP now = ((Ntp.toNTP now : Nat) : Int) :=
  ⟨rfl, Facts.FnNtp.toNTP_src_eq_model now⟩

/-- ★ C07 clause "an RTP timestamp equal to the timestamp of the newest packet sent (first packet of its
frame) advanced by the elapsed wall time times the clock rate, modulo 2^32", on the code, first half — which
packet is the reference: after any non-empty sequence (shorter than 2^32) of generated `processRTP` calls from
the state `newSenderStream` builds, the reference candidates of the history (`Spec.accepted`: the first packet;
then every packet with use-latest-packet, else every packet newer in half-range order than the newest
candidate) split as `pre ++ q :: rest` where `rest` all carry `q`'s timestamp and the candidate before `q`
does not, and the generated state holds `lastRTPTimeRTP = q.ts`, `lastRTPTimeTime = q.now` (the FIRST packet of
the newest frame) and `lastRTPSN` = the last candidate's sequence number. -/
theorem first_of_frame_src (ssrc rate : Nat) (l : Bool) (cs : List Call) (hh : ∀ c ∈ cs, HeaderOk c.2.1)
    (hne : cs ≠ []) (hlen : cs.length < 4294967296) :
    let g := goRun (goNew ssrc rate l) cs
    ∃ pre q rest, accepted l (pkts cs) = pre ++ q :: rest ∧ (∀ r ∈ rest, r.ts = q.ts) ∧
      (∀ x, pre.getLast? = some x → x.ts ≠ q.ts) ∧
      g.lastRTPTimeRTP = (q.ts : Int) ∧ g.lastRTPTimeTime = q.now ∧
      g.lastRTPSN = ((lastSeq 0 (accepted l (pkts cs)) : Nat) : Int) := by
  intro g
  have r := rel_run ssrc rate l cs hh
  obtain ⟨pre, q, rest, h1, h2, h3, h4, h5, h6⟩ :=
    first_of_frame ssrc rate l (pkts cs) (pkts_ne cs hne) (by rw [pkts_length]; exact hlen)
  refine ⟨pre, q, rest, h1, h2, h3, ?_, ?_, ?_⟩
  · show (goRun (goNew ssrc rate l) cs).lastRTPTimeRTP = _
    rw [r.lastTs, h4]
  · have := r.lastTime
    rw [h5] at this
    exact this
  · show (goRun (goNew ssrc rate l) cs).lastRTPSN = _
    rw [r.lastSN, h6]

/-- ★ the same clause, second half — the extrapolation: under the hypotheses of `first_of_frame_src` and with
every call and the report at an `instant`, the `RTPTime` of the report the generated `generateReport` returns
is `q.ts` advanced, modulo 2^32, by `uint32(float64(seconds since q.now) · float64(rate))`, each float
operation being the exact rational one rounded to nearest-even binary64, where `q` is the first packet of the
newest frame among the reference candidates. -/
theorem rtptime_src (ssrc rate : Nat) (l : Bool) (cs : List Call) (hh : ∀ c ∈ cs, HeaderOk c.2.1)
    (ht : ∀ c ∈ cs, instant c.1) (hne : cs ≠ []) (hlen : cs.length < 4294967296) (now : Int) (hn : instant now) :
    ∃ pre q rest, accepted l (pkts cs) = pre ++ q :: rest ∧ (∀ r ∈ rest, r.ts = q.ts) ∧
      (∀ x, pre.getLast? = some x → x.ts ≠ q.ts) ∧
      (report_senderStream_generateReport (goRun (goNew ssrc rate l) cs) now).RTPTime =
        (((q.ts + F64.toUint32 (F64.rne (GoTime.seconds (now - q.now) * F64.rne (rate : Int)))) % 4294967296 : Nat) : Int) := by
  obtain ⟨pre, q, rest, h1, h2, h3, h4, h5, _⟩ :=
    first_of_frame ssrc rate l (pkts cs) (pkts_ne cs hne) (by rw [pkts_length]; exact hlen)
  refine ⟨pre, q, rest, h1, h2, h3, ?_⟩
  have e := generateReport_after_run cs hh ht (goNew ssrc rate l) (SenderReport.new ssrc rate l)
    (rel_new ssrc rate l) (timeOk_new ssrc rate l) now hn
  have hf := rtptime_formula (run (SenderReport.new ssrc rate l) (pkts cs)) q.now now h5
  have hrate : (run (SenderReport.new ssrc rate l) (pkts cs)).rate = rate := by
    have : ∀ (ps : List Pkt) (s : Stream), (run s ps).rate = s.rate := by
      intro ps
      induction ps with
      | nil => intro s; rfl
      | cons p ps ih =>
        intro s
        simp only [run, List.foldl_cons] at ih ⊢
        rw [ih]
        unfold SenderReport.processRTP
        dsimp only
        split <;> (try split) <;> rfl
    rw [this]; rfl
  rw [h4, hrate] at hf
  have e' : report_senderStream_generateReport (goRun (goNew ssrc rate l) cs) now
      = goSR (SenderReport.generateReport (run (SenderReport.new ssrc rate l) (pkts cs)) now) := e
  rw [e']
  show (((SenderReport.generateReport (run (SenderReport.new ssrc rate l) (pkts cs)) now).rtp : Nat) : Int) = _
  rw [hf]

/-- ★ C07 clause "out-of-order sends never move the timestamp reference backwards unless the use-latest-packet
option is set", on the code: on a stream bound without use-latest-packet, after any non-empty call sequence
(shorter than 2^32), one more generated `processRTP` call either moves `lastRTPSN` forward in half-range order
— or leaves `lastRTPSN`, `lastRTPTimeRTP` and `lastRTPTimeTime` all untouched. -/
theorem reference_monotone_src (ssrc rate : Nat) (cs : List Call) (c : Call)
    (hh : ∀ c ∈ cs, HeaderOk c.2.1) (hc : HeaderOk c.2.1) (hne : cs ≠ []) (hlen : cs.length < 4294967296) :
    let g := goRun (goNew ssrc rate false) cs
    let g' := report_senderStream_processRTP g c.1 c.2.1 c.2.2
    (g'.lastRTPSN = c.2.1.SequenceNumber ∧
        0 < (c.2.1.SequenceNumber - g.lastRTPSN) % 65536 ∧ (c.2.1.SequenceNumber - g.lastRTPSN) % 65536 < 32768) ∨
    (g'.lastRTPSN = g.lastRTPSN ∧ g'.lastRTPTimeRTP = g.lastRTPTimeRTP ∧ g'.lastRTPTimeTime = g.lastRTPTimeTime) := by
  intro g g'
  have r := rel_run ssrc rate false cs hh
  have r' : Rel g' (SenderReport.processRTP (run (SenderReport.new ssrc rate false) (pkts cs)) (pktOf c.1 c.2.1 c.2.2)) :=
    processRTP_src_eq_model _ _ r c.1 c.2.1 c.2.2 hc
  have hcnt : (run (SenderReport.new ssrc rate false) (pkts cs)).packetCount ≠ 0 := by
    have := (counts_eq_recount (SenderReport.new ssrc rate false) (pkts cs) (Nat.zero_lt_succ _) (Nat.zero_lt_succ _)).1
    have hl : 0 < cs.length := List.length_pos_iff.mpr hne
    rw [this, pkts_length]
    simp only [SenderReport.new, M32]; omega
  have hs := hc.seq
  rcases reference_monotone _ (pktOf c.1 c.2.1 c.2.2) (run_useLatest _ _) hcnt with ⟨h1, h2⟩ | ⟨_, h2, h3, h4⟩
  · left
    have e1 : g'.lastRTPSN = c.2.1.SequenceNumber := by
      rw [r'.lastSN, h2]; show ((c.2.1.SequenceNumber.toNat : Nat) : Int) = _; omega
    refine ⟨e1, ?_⟩
    simp only [isNewer16, sub16, Bool.and_eq_true] at h1
    have h1a := of_decide_eq_true h1.1
    have h1b := of_decide_eq_true h1.2
    have hl : g.lastRTPSN = _ := r.lastSN
    rw [hl]
    have hp : (pktOf c.1 c.2.1 c.2.2).seq = c.2.1.SequenceNumber.toNat := rfl
    rw [hp] at h1a h1b
    omega
  · right
    refine ⟨?_, ?_, ?_⟩
    · rw [r'.lastSN, h2]; exact r.lastSN.symm
    · rw [r'.lastTs, h3]; exact r.lastTs.symm
    · have a := r'.lastTime
      have b := r.lastTime
      rw [h4] at a
      cases hm : (run (SenderReport.new ssrc rate false) (pkts cs)).lastTime with
      | none => rw [hm] at a b; exact a.trans b.symm
      | some u => rw [hm] at a b; exact a.trans b.symm

/-- ★ the same clause, use-latest-packet set: the reference sequence number is the last one written. -/
theorem reference_latest_src (ssrc rate : Nat) (cs : List Call) (c : Call)
    (hh : ∀ c ∈ cs, HeaderOk c.2.1) (hc : HeaderOk c.2.1) :
    (goRun (goNew ssrc rate true) (cs ++ [c])).lastRTPSN = c.2.1.SequenceNumber := by
  have r := rel_run ssrc rate true (cs ++ [c]) (by
    intro x hx
    rcases List.mem_append.mp hx with h | h
    · exact hh x h
    · simp only [List.mem_singleton] at h; rw [h]; exact hc)
  rw [r.lastSN, pkts_snoc, reference_latest_trace]
  have := hc.seq
  show ((c.2.1.SequenceNumber.toNat : Nat) : Int) = _
  omega


/-! ## non-vacuity: the generated code evaluated on a concrete history

a two-packet frame (7, 8: timestamp 3000), a late packet 6 of an older frame, then packet 9 of a new frame whose
timestamp has wrapped. -/

def demo : List Call :=
  [(946684800000000000, { SequenceNumber := 7, Timestamp := 4294966000 }, [1, 2, 3]),
   (946684800010000000, { SequenceNumber := 8, Timestamp := 4294966000 }, [4, 5]),
   (946684800020000000, { SequenceNumber := 6, Timestamp := 4294963000 }, []),
   (946684800030000000, { SequenceNumber := 9, Timestamp := 1704 }, [6, 7, 8, 9])]

theorem demo_ok : (∀ c ∈ demo, HeaderOk c.2.1) ∧ (∀ c ∈ demo, instant c.1) := by
  constructor <;> intro c hc <;> simp only [demo, List.mem_cons, List.not_mem_nil, or_false] at hc <;>
    rcases hc with rfl | rfl | rfl | rfl <;>
    exact ⟨by decide, by decide⟩

/-- non-vacuity of `report_counts_eq_recount_src`: 4 packets, 3 + 2 + 0 + 4 octets. -/
example :
    let rep := report_senderStream_generateReport (goRun (goNew 7 90000 false) demo) 946684801000000000
    rep.PacketCount = 4 ∧ rep.OctetCount = 9 ∧ rep.SSRC = 7 := by decide +kernel

/-- non-vacuity of `ntp_field_src`: 2000-01-01 00:00:01 UTC is 3155673601 s after 1900. -/
example : (report_senderStream_generateReport (goRun (goNew 7 90000 false) demo) 946684801000000000).NTPTime
    = 3155673601 * 4294967296 := by decide +kernel

/-- non-vacuity of `first_of_frame_src`: after the first three calls the reference is packet 7's timestamp
and ITS instant (not packet 8's, the same frame; not the late packet 6's), the sequence number is 8. -/
example :
    let g := goRun (goNew 7 90000 false) (demo.take 3)
    g.lastRTPTimeRTP = 4294966000 ∧ g.lastRTPTimeTime = 946684800000000000 ∧ g.lastRTPSN = 8 ∧
    (accepted false (pkts (demo.take 3))).map (·.seq) = [7, 8] := by decide +kernel

/-- non-vacuity of `rtptime_src`: 0.97 s after packet 9 (timestamp 1704): 1704 + 87300; and across the 2^32
wrap, 0.5 s after packet 7: (4294966000 + 45000) mod 2^32 = 43704. -/
example :
    (report_senderStream_generateReport (goRun (goNew 7 90000 false) demo) 946684801000000000).RTPTime = 89004 ∧
    (report_senderStream_generateReport (goRun (goNew 7 90000 false) (demo.take 3)) 946684800500000000).RTPTime
      = 43704 := by decide +kernel

/-- non-vacuity of `reference_monotone_src`: the late packet 6 leaves the whole reference untouched, packet 9
moves it forward. -/
example :
    let g := goRun (goNew 7 90000 false) (demo.take 2)
    let g6 := report_senderStream_processRTP g 946684800020000000 { SequenceNumber := 6, Timestamp := 4294963000 } []
    let g9 := report_senderStream_processRTP g6 946684800030000000 { SequenceNumber := 9, Timestamp := 1704 } [6]
    (g6.lastRTPSN = g.lastRTPSN ∧ g6.lastRTPTimeRTP = g.lastRTPTimeRTP ∧ g6.lastRTPTimeTime = g.lastRTPTimeTime) ∧
    g9.lastRTPSN = 9 := by decide +kernel

/-- non-vacuity of `reference_latest_src`: with use-latest-packet the late packet 6 becomes the reference. -/
example : (goRun (goNew 7 90000 true) (demo.take 2 ++ [(946684800020000000, { SequenceNumber := 6, Timestamp := 4294963000 }, [])])).lastRTPSN = 6 := by
  decide +kernel

end Interceptor.C07Src

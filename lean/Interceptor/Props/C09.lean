/-
C09 — feedback decoding attributes each acknowledgement to the right sent packet.
Models: Model/FeedbackAdapter.lean (internal/cc, after the fix of F-14),
Model/Rtpfb.lean (pkg/rtpfb, after the fixes of F-15, F-16, F-17, F-18, F-40).
Spec: Spec/Feedback.lean (flat decoders without any history).
Only property theorems live here; ★ = full-strength clause of the property.
Known findings kept in the code because existing tests pin them (adapter only):
F-15 (symbols beyond PacketStatusCount decoded), F-14b (zero-valued acknowledgements for
numbers not in the history), F-14c (symbol 3 consumes a delta) → `_partial` + `_false`.
-/
import Interceptor.Proofs.FeedbackRange
import Interceptor.Proofs.RtpfbHistory
import Interceptor.Proofs.RtpfbAcked
import Interceptor.Proofs.FeedbackLru
import Interceptor.Proofs.RtpfbSpec
set_option linter.unusedVariables false
namespace Interceptor.C09
open Interceptor Interceptor.Feedback Interceptor.Feedback.Spec

section Adapter
open Interceptor.FeedbackAdapter

/-- ★ T1 (value): for every history `H` and every TWCC feedback made of run-length /
status-vector chunks with the symbols 0, 1, 2, the adapter returns exactly the spec decoder's
statuses (all symbols, see F-15) with the history entry of each number attached — or rejects
the feedback exactly when the spec does (fewer deltas than received symbols).
Hypothesis forced by the code: no symbol 3 / unknown chunk type (F-14c). -/
theorem onTWCC_eq_spec (H : Hist) (fb : Twcc) (hb : fb.base < 65536)
    (hok : ∀ c ∈ fb.chunks, ChunkOK c) :
    onTWCC H fb =
      match decodeTWCCAll fb with
      | none => .err "invalid"
      | some l => .ok (l.map fun e => entry H e.1 e.2.time) := by
  unfold onTWCC decodeTWCCAll
  rw [chunkLoop_eq_walk H fb.chunks hok fb.base _ fb.deltas hb]
  cases walk (refTime fb.ref) (symbols fb.chunks) fb.deltas with
  | none => rfl
  | some r =>
    simp only [chunkSpec, Option.map_some]
    have := attachFrom_number H r.1 fb.base
    rw [Nat.mod_eq_of_lt hb] at this
    rw [this]

/-- ★ T1 `ack_independent_of_neighbours`: whether the feedback is accepted does not depend on
the history at all, and the acknowledgement at position `j` (number `(base + j) mod 2^16`)
depends on the history only through the entry of that number: two histories that agree on
it yield the same acknowledgement, whatever else they contain.  False before the fix of F-14
(witness corpus/C09/F-14.ops, F-14-error.ops). -/
theorem ack_independent_of_neighbours (H H' : Hist) (fb : Twcc) (hb : fb.base < 65536)
    (hok : ∀ c ∈ fb.chunks, ChunkOK c) :
    ((∃ A, onTWCC H fb = .ok A) ↔ (∃ A', onTWCC H' fb = .ok A')) ∧
    ∀ A A', onTWCC H fb = .ok A → onTWCC H' fb = .ok A' →
      A.length = A'.length ∧
      ∀ j, get H 0 ((fb.base + j) % 65536) = get H' 0 ((fb.base + j) % 65536) → A[j]? = A'[j]? := by
  rw [onTWCC_eq_spec H fb hb hok, onTWCC_eq_spec H' fb hb hok]
  cases hd : decodeTWCCAll fb with
  | none => simp
  | some l =>
    refine ⟨by simp, ?_⟩
    intro A A' hA hA'
    simp only [Res.ok.injEq] at hA hA'
    subst hA hA'
    refine ⟨by simp, ?_⟩
    intro j hj
    simp only [List.getElem?_map]
    cases hl : l[j]? with
    | none => rfl
    | some e =>
      unfold decodeTWCCAll at hd
      simp only [Option.map_eq_some_iff] at hd
      obtain ⟨r, _, rfl⟩ := hd
      have := (number_get r.1 fb.base j e hl).1
      simp only [Option.map_some, entry, this, hj]

/-- T2 `acks_are_sent_packets` for TWCC, `_partial`: every acknowledgement returned is either
the zero value (number not in the history — F-14b, pinned by a test) or names a packet of the
history with its recorded size, departure and SSRC key.  No hypothesis on the feedback. -/
theorem acks_are_sent_packets_partial (H : Hist) (fb : Twcc) (A : List Ack)
    (hA : onTWCC H fb = .ok A) :
    ∀ a ∈ A, a = Ack.zero ∨
      ∃ p ∈ H, p.ssrc = 0 ∧ a.seq = p.seq ∧ a.ssrc = p.ssrc ∧ a.size = p.size ∧
        a.departure = p.departure := by
  intro a ha
  have hs := chunkLoop_entries H fb.chunks fb.base (refTime fb.ref) fb.deltas
  unfold onTWCC at hA
  rw [hA] at hs
  obtain ⟨q, t, rfl⟩ := hs a ha
  rcases entry_cases H q t with ⟨_, hz⟩ | ⟨p, _, hm, hs0, _, h1, h2, h3, h4, _⟩
  · left; exact hz
  · right; exact ⟨p, hm, hs0, h1, h2, h3, h4⟩

/-- The full-strength T2 is false of the TWCC adapter (F-14b): with an empty history the
feedback "number 0 lost" yields an acknowledgement although nothing was sent. -/
theorem acks_are_sent_packets_false :
    ¬ (∀ (H : Hist) (fb : Twcc) (A : List Ack), onTWCC H fb = .ok A → ∀ a ∈ A, ∃ p ∈ H, a.seq = p.seq) := by
  intro h
  have := h [] ⟨0, 1, 0, [.rl 0 1], []⟩ [Ack.zero] (by decide) Ack.zero (by simp)
  simp at this

/-- ★ T2 `acks_are_sent_packets` for RFC 8888: every acknowledgement names a packet of the
history (same SSRC and sequence number) with its recorded size and departure. -/
theorem acks_are_sent_packets_ccfb (H : Hist) (fb : Ccfb) :
    ∀ a ∈ onCCFB H fb, ∃ p ∈ H, a.seq = p.seq ∧ a.ssrc = p.ssrc ∧ a.size = p.size ∧
      a.departure = p.departure := by
  have loop : ∀ (ms : List Metric) (ref : Int) (ssrc begin i : Nat), ∀ a ∈ metricLoop H ref ssrc begin ms i,
      ∃ p ∈ H, a.seq = p.seq ∧ a.ssrc = p.ssrc ∧ a.size = p.size ∧ a.departure = p.departure := by
    intro ms
    induction ms with
    | nil => intro _ _ _ _ a ha; simp [metricLoop] at ha
    | cons m ms ih =>
      intro ref ssrc begin i a ha
      unfold metricLoop at ha
      simp only at ha
      cases hg : get H ssrc ((begin + i % 65536) % 65536) with
      | none => rw [hg] at ha; exact ih _ _ _ _ a ha
      | some p =>
        rw [hg] at ha
        rcases List.mem_cons.mp ha with rfl | ha
        · obtain ⟨hm, _, _⟩ := get_mem H _ _ p hg
          refine ⟨p, hm, ?_⟩
          split <;> simp
        · exact ih _ _ _ _ a ha
  intro a ha
  unfold onCCFB at ha
  obtain ⟨b, _, hb⟩ := List.mem_flatMap.mp ha
  exact loop _ _ _ _ _ a hb

/-- ★ RFC 8888 value clause: the acknowledgements of one report block are exactly the spec's
statuses of the numbers that are in the history, in order, with arrival time and ECN as the
report encodes them. Hypothesis forced by the code: no offset 0x1FFF ("unavailable"), which
the adapter turns into a time instead of "no time" (new finding F-14d). -/
theorem onCCFB_block_eq_spec (H : Hist) (ref : Int) (ssrc : Nat) (ms : List Metric)
    (hato : ∀ m ∈ ms, m.ato ≠ 0x1FFF) : ∀ (i : Nat),
    metricLoop H ref ssrc (i % 65536) ms 0 =
      (numberC ref i ms).filterMap fun e =>
        (get H ssrc e.1).map fun p =>
          if e.2.received then { p with arrival := e.2.arrival.getD p.arrival, ecn := e.2.ecn } else p := by
  have gen : ∀ (ms : List Metric), (∀ m ∈ ms, m.ato ≠ 0x1FFF) → ∀ (b k : Nat),
      metricLoop H ref ssrc b ms k =
        (numberC ref (b + k) ms).filterMap fun e =>
          (get H ssrc e.1).map fun p =>
            if e.2.received then { p with arrival := e.2.arrival.getD p.arrival, ecn := e.2.ecn } else p := by
    intro ms
    induction ms with
    | nil => intro _ b k; simp [metricLoop, numberC]
    | cons m ms ih =>
      intro hato b k
      have hm : m.ato ≠ 0x1FFF := hato m (List.mem_cons_self ..)
      have ih' := ih (fun x hx => hato x (List.mem_cons_of_mem _ hx)) b (k + 1)
      unfold metricLoop numberC
      have hseq : (b + k % 65536) % 65536 = (b + k) % 65536 := by omega
      simp only [hseq, List.filterMap_cons]
      rw [show b + k + 1 = b + (k + 1) from rfl]
      cases hg : get H ssrc ((b + k) % 65536) with
      | none => simp only [Option.map_none]; exact ih'
      | some p =>
        simp only [Option.map_some]
        rw [ih']
        congr 1
        unfold metricSt
        by_cases hr : m.received <;> simp [hr, hm]
  intro i
  have := gen ms hato (i % 65536) 0
  rw [this]
  have hn : ∀ (ms : List Metric) (a b : Nat), a % 65536 = b % 65536 → numberC ref a ms = numberC ref b ms := by
    intro ms
    induction ms with
    | nil => intros; rfl
    | cons m ms ih => intro a b hab; simp only [numberC, hab]; rw [ih (a + 1) (b + 1) (by omega)]
  rw [hn ms (i % 65536 + 0) i (by omega)]

/-- T3 `within_declared_range` for the adapter, `_partial`: when the chunks carry no more
symbols than `PacketStatusCount` declares (no padding, no run beyond the count), every
acknowledgement sits at a position inside `[base, base + count)`. Missing for the full
statement: padded final chunks (F-15, pinned by the test ignoresPossiblyInFlightPackets). -/
theorem within_declared_range_adapter_partial (H : Hist) (fb : Twcc) (hb : fb.base < 65536)
    (hok : ∀ c ∈ fb.chunks, ChunkOK c) (hfull : (symbols fb.chunks).length ≤ fb.count)
    (A : List Ack) (hA : onTWCC H fb = .ok A) :
    A.length ≤ fb.count ∧
    ∀ j a, A[j]? = some a → j < fb.count ∧ ∃ t, a = entry H ((fb.base + j) % 65536) t := by
  rw [onTWCC_eq_spec H fb hb hok] at hA
  unfold decodeTWCCAll at hA
  cases hw : walk (refTime fb.ref) (symbols fb.chunks) fb.deltas with
  | none => rw [hw] at hA; simp at hA
  | some r =>
    rw [hw] at hA
    simp only [Option.map_some, Res.ok.injEq] at hA
    subst hA
    have hl := (walk_length _ _ _ _ hw).1
    have hlen : (List.map (fun e => entry H e.1 e.2.time) (number fb.base r.1)).length ≤ fb.count := by
      simp [number_length]; omega
    refine ⟨hlen, ?_⟩
    intro j a hj
    have hjl : j < (List.map (fun e => entry H e.1 e.2.time) (number fb.base r.1)).length := by
      rcases Nat.lt_or_ge j (List.map (fun e => entry H e.1 e.2.time) (number fb.base r.1)).length with h | h
      · exact h
      · rw [List.getElem?_eq_none h] at hj; cases hj
    refine ⟨by omega, ?_⟩
    simp only [List.getElem?_map] at hj
    cases he : (number fb.base r.1)[j]? with
    | none => rw [he] at hj; cases hj
    | some e =>
      rw [he] at hj
      simp only [Option.map_some, Option.some.injEq] at hj
      have := (number_get r.1 fb.base j e he).1
      exact ⟨e.2.time, by rw [← hj, this]⟩

/-- The full-strength T3 is false of the adapter (F-15): count 2, one two-bit vector chunk
(7 symbols): packet 2 — outside `[0, 2)`, possibly still in flight — is reported as lost. -/
theorem within_declared_range_adapter_false :
    ¬ (∀ (H : Hist) (fb : Twcc) (A : List Ack), onTWCC H fb = .ok A →
        ∀ j a, A[j]? = some a → a ≠ Ack.zero → j < fb.count) := by
  intro h
  have := h [⟨2, 0, 120, 5, 0, 0⟩] ⟨0, 2, 0, [.sv [1, 1, 0, 0, 0, 0, 0]], [250, 250]⟩
    [Ack.zero, Ack.zero, ⟨2, 0, 120, 5, 0, 0⟩, Ack.zero, Ack.zero, Ack.zero, Ack.zero] (by decide)
    2 ⟨2, 0, 120, 5, 0, 0⟩ (by decide) (by decide)
  simp at this

/-- ★ T6 `lru_bound`: the adapter's history never exceeds 250 entries … -/
theorem lru_bound (h : Hist) (a : Ack) (hl : h.length ≤ lruSize) : (add h a).length ≤ lruSize := by
  unfold add
  split
  · have : (h.eraseP (sameKey a.ssrc a.seq)).length = h.length - 1 := by
      rw [List.length_eraseP]; simp [*]
    have hpos : 0 < h.length := by
      cases h with
      | nil => simp_all
      | cons _ _ => simp
    simp only [List.length_cons, this]; omega
  · simp only [List.length_cons]
    split
    · simp [List.length_dropLast]; omega
    · simp only [List.length_cons]; omega

/-- … and eviction is oldest-first: adding a new key to a full history drops exactly the
entry that was added (or refreshed) longest ago. -/
theorem lru_evicts_oldest (h : Hist) (a : Ack) (hfull : h.length = lruSize)
    (hnew : h.any (sameKey a.ssrc a.seq) = false) : add h a = a :: h.dropLast := by
  unfold add
  rw [hnew]
  simp only [Bool.false_eq_true, if_false, List.length_cons, hfull]
  cases h with
  | nil => simp [lruSize] at hfull
  | cons x xs => simp [lruSize]


/-- T6 `lru_readd_moves_to_front`: sending a packet again under a key that is still in the history
refreshes the record AND moves it to the front of the eviction list (it becomes the newest entry;
the length does not change); `get` then returns the re-sent packet's record. -/
theorem lru_readd_moves_to_front (h : Hist) (a : Ack) (hex : h.any (sameKey a.ssrc a.seq) = true) :
    add h a = a :: h.eraseP (sameKey a.ssrc a.seq) ∧ (add h a).head? = some a ∧
    (add h a).length = h.length ∧ get (add h a) a.ssrc a.seq = some a := by
  have e : add h a = a :: h.eraseP (sameKey a.ssrc a.seq) := by unfold add; rw [if_pos hex]
  refine ⟨e, by rw [e]; rfl, ?_, ?_⟩
  · rw [e, List.length_cons, List.length_eraseP, if_pos hex]
    have : 0 < h.length := by
      cases h with
      | nil => simp at hex
      | cons _ _ => simp
    omega
  · rw [e]; unfold FeedbackAdapter.get; simp [sameKey]

/-- the history never holds two records with the same (SSRC, sequence number) key. -/
theorem lru_keys_unique (h : Hist) (a : Ack) (hu : KeysUnique h) : KeysUnique (add h a) :=
  add_keysUnique h a hu

/-- ★ T6 `lru_recent_survives` (the clause behind the seeded defect m1): a packet that was just
sent — for the first time OR AGAIN under a key already in the history — is still found, with the
record of that last send, after up to 249 further sends of other keys; it is the age of the LAST
send that counts. -/
theorem lru_recent_survives (h : Hist) (a : Ack) (bs : List Ack) (hu : KeysUnique h)
    (hl : h.length ≤ lruSize) (hn : bs.length < lruSize)
    (hother : ∀ b ∈ bs, ¬ (b.ssrc = a.ssrc ∧ b.seq = a.seq)) :
    get (bs.foldl add (add h a)) a.ssrc a.seq = some a := by
  have hhead : a ∈ (add h a).take 1 := by
    unfold add
    split
    · simp
    · dsimp only
      split
      · rename_i hlen
        simp only [List.length_cons] at hlen
        cases h with
        | nil => simp [lruSize] at hlen
        | cons x xs => simp [List.dropLast]
      · simp
  have hne : ∀ b ∈ bs, sameKey b.ssrc b.seq a = false := by
    intro b hb
    cases hs : sameKey b.ssrc b.seq a with
    | false => rfl
    | true =>
      have := (sameKey_iff _ _ _).mp hs
      exact absurd ⟨this.1.symm, this.2.symm⟩ (hother b hb)
  obtain ⟨hm, hu', _⟩ := foldl_add_keeps_recent a bs (add h a) 1 hhead (by unfold lruSize at *; omega)
    (add_keysUnique h a hu) (add_length_le h a hl) hne
  exact get_of_mem _ hu' a hm

/-- non-vacuity: re-sending key (0, 1) moves it in front of key (0, 2) with the new record. -/
example : add [⟨2, 0, 10, 5, 0, 0⟩, ⟨1, 0, 10, 4, 0, 0⟩] ⟨1, 0, 99, 6, 0, 0⟩
    = [⟨1, 0, 99, 6, 0, 0⟩, ⟨2, 0, 10, 5, 0, 0⟩] := by decide

end Adapter

section Rtpfb
open Interceptor.Rtpfb

/-- ★ T3 `within_declared_range` (rtpfb): `convertTWCC` acknowledges only numbers inside
`[base, base + count)`, for EVERY parsed feedback. False before the fix of F-15 in rtpfb
(witness corpus/C09/F-15-rtpfb.ops). -/
theorem within_declared_range (fb : Twcc) (acks : List RAck) (h : convertTWCC fb = .ok acks) :
    ∀ a ∈ acks, ∃ j, j < fb.count ∧ a.seq = (fb.base + j) % 65536 := by
  unfold convertTWCC at h
  obtain ⟨o, ho⟩ := chunkLoop_ok fb fb.chunks 0 0 (refTime fb.ref)
  rw [ho] at h
  have hr := chunkLoop_range fb fb.chunks 0 0 _ o ho
  intro a ha
  have hmem : a ∈ o.acks := by
    cases o <;> simp only [Res.bind_ok, Res.pure_eq, Res.ok.injEq] at h <;> subst h
    · exact ha
    · exact ha
    · simp at ha
  obtain ⟨j, _, h2, h3⟩ := hr a hmem
  exact ⟨j, h2, h3⟩

/-- ★ T1 for rtpfb, `convertTWCC_eq_spec`: for EVERY parsed feedback (no hypothesis at all),
`convertTWCC` returns exactly the acknowledgements of the spec decoder restricted to
`[base, base + count)`: status, arrival time and sequence number of each number, in order; a
reserved symbol yields nothing; feedback with fewer deltas than timed symbols yields nothing. -/
theorem convertTWCC_eq_spec (fb : Twcc) :
    convertTWCC fb = .ok (match decodeTWCC fb with
      | none => []
      | some l => l.filterMap toRAck) := by
  obtain ⟨o, ho, _, hfin⟩ := chunkLoop_final fb fb.chunks 0 0 (refTime fb.ref)
  unfold convertTWCC
  rw [ho]
  simp only [Nat.sub_zero, List.drop_zero] at hfin
  have : (match decodeTWCC fb with | none => [] | some l => l.filterMap toRAck) = o.final := by
    rw [hfin]
    unfold decodeTWCC
    cases walk (refTime fb.ref) (List.take fb.count (symbols fb.chunks)) fb.deltas with
    | none => rfl
    | some r => simp [specAcks, acksOf]
  rw [this]
  cases o <;> rfl

/-- ★ T5 `report_once_in_order`: over ANY sequence of addOutgoing / onTWCCFeedback /
onCCFBFeedback / buildReport on a fresh history, the concatenation of all reports is strictly
increasing in the counter: every sent packet is reported at most once, in send order. -/
theorem report_once_in_order (ops : List HOp) :
    ((runOps {} ops).flatten.map PR.ctr).Pairwise (· < ·) :=
  (runOps_sorted ops {} wf_init).1

/-- ★ T7 `reported_only_up_to_arrived` (the clause behind F-40): after ANY sequence of addOutgoing /
onTWCCFeedback / onCCFBFeedback / buildReport on a fresh history, every packet of the next report
(every report of a run is one of these: `runOps_build`) has a counter at or below the counter of a
packet that some feedback acknowledged AS ARRIVED, and it is reported as arrived only if feedback
acknowledged that very packet as arrived. `targets` is the ghost list of (counter, status) pairs the
acknowledgement operations resolved to. False before the fix of F-40 (witness corpus/C09/F-40.ops). -/
theorem reported_only_up_to_arrived (ops : List HOp) :
    ∀ p ∈ (buildReport (finalHist {} ops)).2,
      (∃ c, (c, true) ∈ targets {} ops ∧ p.ctr ≤ c) ∧
      (p.arrived = true → (p.ctr, true) ∈ targets {} ops) := by
  have inv := ackInv_run ops {} [] ackInv_init
  simp only [List.nil_append] at inv
  intro p hp
  obtain ⟨hak, hle, hm⟩ := (buildReport_acked _ inv.wf).2 p hp
  exact ⟨⟨_, inv.hi hak, hle⟩, fun ha => inv.arr _ hm ha⟩

/-- ★ `no_report_before_first_arrival`: as long as no feedback has acknowledged a sent packet as
arrived — RTCP reads without feedback, feedback about unknown streams or numbers, feedback that
only says "not received" — nothing is reported (and, `buildReport_acked`, nothing is dropped). -/
theorem no_report_before_first_arrival (ops : List HOp) (hno : ∀ c, (c, true) ∉ targets {} ops) :
    (buildReport (finalHist {} ops)).2 = [] := by
  apply List.eq_nil_iff_forall_not_mem.mpr
  intro p hp
  obtain ⟨⟨c, hc, _⟩, _⟩ := reported_only_up_to_arrived ops p hp
  exact hno c hc

/-- ★ `uncovered_lost_only_below_arrived`: a packet for which no feedback ever encoded a status is
reported — necessarily as not arrived — only when feedback acknowledged a LATER packet as arrived. -/
theorem uncovered_lost_only_below_arrived (ops : List HOp) (p : PR)
    (hp : p ∈ (buildReport (finalHist {} ops)).2) (hun : ∀ b, (p.ctr, b) ∉ targets {} ops) :
    p.arrived = false ∧ ∃ c, (c, true) ∈ targets {} ops ∧ p.ctr < c := by
  obtain ⟨⟨c, hc, hle⟩, harr⟩ := reported_only_up_to_arrived ops p hp
  refine ⟨?_, c, hc, ?_⟩
  · cases hb : p.arrived with
    | false => rfl
    | true => exact absurd (harr hb) (hun true)
  · rcases Nat.lt_or_eq_of_le hle with h | h
    · exact h
    · rw [← h] at hc; exact absurd hc (hun true)

/-- `history.buildReport` before the repair of F-40: `highestAcked = 0` stood both for "nothing
acknowledged yet" and for "packet 0 acknowledged" — kept as the witness of the repaired defect. -/
def buildReportUnrepaired (h : Hist) : Hist × List PR :=
  if h.nextReport > h.highestAcked then (h, [])
  else
    let (h1, res) := reportLoop (List.range' h.nextReport (h.highestAcked + 1 - h.nextReport)) h []
    (cleanBefore h1 h1.nextReport, res)

/-- F-40: on the code before the repair `no_report_before_first_arrival` fails — one packet sent,
no feedback at all, and the report says that packet 0 did not arrive (witness corpus/C09/F-40.ops). -/
theorem no_report_before_first_arrival_unrepaired_false :
    ¬ (∀ h : Hist, h.acked = false → (buildReportUnrepaired h).2 = []) := by
  intro hh
  have := hh (addOutgoing {} 1 100 false 0 62 0) rfl
  revert this; decide

/-- … and the packet was dropped with that report: its real acknowledgement is then ignored. -/
example : (onCCFBFeedback (buildReportUnrepaired (addOutgoing {} 1 100 false 0 62 0)).1 5 1 ⟨100, true, 4, 0⟩).2
    = none := by decide

/-- the same history on the repaired model: nothing is reported by the idle read, and the
acknowledgement that arrives later reports packet 0 as arrived. -/
example : (buildReport (addOutgoing {} 1 100 false 0 62 0)).2 = [] ∧
    (buildReport (onCCFBFeedback (buildReport (addOutgoing {} 1 100 false 0 62 0)).1 5 1 ⟨100, true, 4, 0⟩).1).2
      = [⟨1, 0, 100, false, 0, 62, true, 0, 4, 0⟩] := by decide

end Rtpfb

/-! non-vacuity of the hypotheses -/

/-- F-14 witness on the fixed model: 0 is not in the history, 1 and 2 get 3000 / 7000 µs. -/
example : FeedbackAdapter.onTWCC [⟨2, 0, 120, 5, 0, 0⟩, ⟨1, 0, 120, 5, 0, 0⟩]
    ⟨0, 3, 0, [.rl 1 3], [1000, 2000, 4000]⟩
    = .ok [FeedbackAdapter.Ack.zero, ⟨1, 0, 120, 5, 3000000, 0⟩, ⟨2, 0, 120, 5, 7000000, 0⟩] := by decide

example : ∀ c ∈ [Chunk.rl 1 3, Chunk.sv [1, 2, 0]], FeedbackAdapter.ChunkOK c := by
  intro c hc; simp at hc; rcases hc with rfl | rfl <;> simp [FeedbackAdapter.ChunkOK]

example : (symbols [Chunk.rl 1 3]).length ≤ 3 := by decide

example : Rtpfb.convertTWCC ⟨0, 2, 0, [.sv [1, 1, 0, 0, 0, 0, 0]], [250, 250]⟩
    = .ok [⟨0, true, 250000, 0⟩, ⟨1, true, 500000, 0⟩] := by decide

end Interceptor.C09

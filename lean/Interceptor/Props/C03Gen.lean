/-
C03, generator level — what one reporting tick requests, the NACK limit, independence of streams.
Only property theorems live here (helpers: Proofs/NackGen.lean, Proofs/NackGenIndep.lean).
-/
import Interceptor.Props.C03
import Interceptor.Proofs.NackGen
import Interceptor.Proofs.NackGenIndep
import Interceptor.Proofs.NackLimit
set_option linter.unusedVariables false
namespace Interceptor.ReceiveLog
open Interceptor

/-- ★ T2 at a tick, no limit configured: for a bound stream with ANY arrival history the tick writes
one NACK listing exactly the specification's missing numbers — and nothing when none is missing. -/
theorem tick_requests_exactly_missing (cfg : Cfg) (hs : SizeOK cfg.size) (hmax : cfg.max = 0)
    (qs : List Nat) (hq : ∀ x ∈ qs, x < 65536) (c : Counts) :
    (tickStream cfg { log := runLog cfg.size qs, counts := c }).2 =
      (if NackSpec.missing cfg.size (runSpec cfg.size qs) cfg.skip = [] then none
       else some (NackSpec.missing cfg.size (runSpec cfg.size qs) cfg.skip)) := by
  unfold tickStream
  simp only []
  rw [missing_eq_spec cfg.size hs qs hq cfg.skip, hmax]
  by_cases h : NackSpec.missing cfg.size (runSpec cfg.size qs) cfg.skip = []
  · simp [h, tickCounts]
  · rw [tickCounts_nolimit _ _ h]; simp [h]

/-- T2 at a tick, with a limit: whatever is requested is one of the specification's missing numbers
(so: received in the window / ahead of the highest / at or before the first ⇒ never requested). -/
theorem tick_requests_subset_missing (cfg : Cfg) (hs : SizeOK cfg.size)
    (qs : List Nat) (hq : ∀ x ∈ qs, x < 65536) (c : Counts) (out : List Nat)
    (h : (tickStream cfg { log := runLog cfg.size qs, counts := c }).2 = some out) :
    ∀ y ∈ out, y ∈ NackSpec.missing cfg.size (runSpec cfg.size qs) cfg.skip := by
  unfold tickStream at h
  simp only [] at h
  rw [missing_eq_spec cfg.size hs qs hq cfg.skip] at h
  exact tickCounts_subset _ _ _ out h

/-! ### the NACK limit -/

/-- T4, lemma (the counter argument on 16-bit numbers, used by `nack_limit`): with `maxNacksPerPacket = max > 0`,
over ANY interleaving of arrivals and ticks, a number that is missing at every tick of the run is requested
at most `max − counter` times. -/
theorem nack_limit_while_missing (cfg : Cfg) (h0 : 0 < cfg.max) (hmax : cfg.max < 65536) (y : Nat)
    (ops : List SOp) (st : Stream) (hc : cnt st.counts y ≤ cfg.max)
    (hm : missingAtEveryTick cfg y st ops) :
    reqCount cfg y st ops + cnt st.counts y ≤ cfg.max := by
  induction ops generalizing st with
  | nil => simpa [reqCount] using hc
  | cons op ops ih =>
    cases op with
    | arrive q =>
      simp only [reqCount, sstep, Option.getD_none, List.not_mem_nil, if_false, Nat.zero_add]
      exact ih { st with log := add st.log q } hc hm
    | tick =>
      obtain ⟨hy, hm'⟩ := hm
      obtain ⟨t1, t2⟩ := tickStream_limit cfg h0 hmax st y hy hc
      have := ih (tickStream cfg st).1 t2 hm'
      show (if y ∈ ((tickStream cfg st).2).getD [] then 1 else 0) + reqCount cfg y (tickStream cfg st).1 ops
        + cnt st.counts y ≤ cfg.max
      omega

/-- non-vacuity of `nack_limit_while_missing`: size 64, max 2, arrivals 10 and 12, then ticks: 11 is missing at
every tick and the counter starts at 0, so the hypotheses are met. -/
example :
    let cfg : Cfg := { size := 64, skip := 0, max := 2 }
    let st : Stream := { log := runLog 64 [10, 12], counts := ∅ }
    missingAtEveryTick cfg 11 st [.tick, .tick, .tick] ∧ cnt st.counts 11 ≤ cfg.max ∧ 0 < cfg.max := by
  refine ⟨⟨by decide, by decide, by decide, trivial⟩, ?_, by decide⟩
  show cnt (∅ : Counts) 11 ≤ 2
  rw [cnt_empty]; omega

/-- spec side of T4: under every arrival `first` is fixed, `hi` only moves forward, and a packet that is
gone for good (`Gone`: at or before the first packet, behind the window floor `hi − size`, or received)
stays gone — it can never become missing again. -/
theorem gone_for_good (size skip : Nat) (a a' : NackSpec.Stream) (q : Nat)
    (h : NackSpec.arrive size (some a) q = some a') (x : Int) (hg : Gone size a x) :
    Gone size a' x ∧ ¬ MissingU size skip a' x :=
  ⟨(arrive_mono size a a' q h).2.2 x hg, fun hm => missingU_not_gone hm ((arrive_mono size a a' q h).2.2 x hg)⟩

/-- ★ T4 (NACK limit, per PACKET): with `maxNacksPerPacket = max > 0`, over ANY interleaving of arrivals
(any 16-bit numbers) and ticks (any number of them) on a freshly bound stream, every packet — identified
by its UNWRAPPED number `x` under the specification's unwrapping, counted while it is inside the window
`(hi − size, hi]` — is requested at most `max` times in total.  (Aliasing across a 2^16 cycle is covered:
the window is at most 2^15 wide, so inside the window the 16-bit value determines the packet.) -/
theorem nack_limit (cfg : Cfg) (hs : SizeOK cfg.size) (h0 : 0 < cfg.max) (hmax : cfg.max < 65536)
    (ops : List SOp) (hq : ∀ q, SOp.arrive q ∈ ops → q < 65536) (x : Int) :
    reqCountU cfg x { log := new cfg.size, counts := ∅ } none ops ≤ cfg.max :=
  reqCountU_fresh cfg rfl hs h0 hmax x ops hq _ rfl (fun y => by rw [cnt_empty]; omega)

/-- T4, refined: from any state related to the specification (`R`) with counters within the limit, a packet
that is gone for good is never requested again, and a missing packet at most `max − counter` more times. -/
theorem nack_limit_from (cfg : Cfg) (hs : SizeOK cfg.size) (h0 : 0 < cfg.max) (hmax : cfg.max < 65536)
    (ops : List SOp) (hq : ∀ q, SOp.arrive q ∈ ops → q < 65536) (x : Int)
    (st : Stream) (a : NackSpec.Stream) (lcU : Int) (h : R cfg.size st.log a lcU)
    (hC : ∀ y, cnt st.counts y ≤ cfg.max) :
    (Gone cfg.size a x → reqCountU cfg x st (some a) ops = 0) ∧
    (MissingU cfg.size cfg.skip a x → reqCountU cfg x st (some a) ops + cnt st.counts (sq x) ≤ cfg.max) ∧
    reqCountU cfg x st (some a) ops ≤ cfg.max :=
  reqCountU_started cfg rfl hs h0 hmax x ops hq st a lcU h hC

/-- non-vacuity of `nack_limit`: size 64, max 2, arrivals 10 and 12 (11 is missing), five ticks, then 11
arrives, more ticks, then the same 16-bit number is lost again one full cycle later. -/
example :
    reqCountU { size := 64, skip := 0, max := 2 } 11 { log := new 64, counts := ∅ } none
      [.arrive 10, .arrive 12, .tick, .tick, .tick, .tick, .tick, .arrive 11, .tick,
       .arrive 30000, .arrive 60000, .arrive 10, .arrive 12, .tick, .tick, .tick] ≤ 2 :=
  nack_limit { size := 64, skip := 0, max := 2 } ⟨by decide, by decide, by decide⟩ (by decide) (by decide) _
    (by intro q hq; simp at hq; omega) 11

/-! ### independence of streams -/

/-- ★ T3: the NACKs for SSRC `a` over any run of the interceptor (binds, unbinds, packets, ticks on any
SSRCs) are exactly the NACKs produced by running only the operations that concern `a` on only
`a`'s part of the state: the output for a stream is a function of that stream's own sub-history. -/
theorem streams_independent (a : Nat) (ops : List GOp) (g : Gen) :
    (grun g ops).map (only a) = (grun (restrict g a) (ops.filter (GOp.concerns a))).map (only a) := by
  have key : ∀ (ops : List GOp) (g1 g2 : Gen), g1.cfg = g2.cfg → only a g1.streams = only a g2.streams →
      (grun g1 ops).map (only a) = (grun g2 (ops.filter (GOp.concerns a))).map (only a) := by
    intro ops
    induction ops with
    | nil => intros; rfl
    | cons op ops ih =>
      intro g1 g2 hc hs
      by_cases hop : op.concerns a = true
      · obtain ⟨s1, s2, s3⟩ := gstep_concerns g1 g2 a hc hs op hop
        simp only [List.filter_cons, hop, if_true]
        cases op with
        | tick =>
          simp only [grun, List.map_cons]
          rw [show only a (tick g1).2 = only a (tick g2).2 from s3]
          congr 1
          exact ih _ _ s1 s2
        | bind b => exact ih _ _ s1 s2
        | unbind b => exact ih _ _ s1 s2
        | rtp b q => exact ih _ _ s1 s2
      · have hop' : op.concerns a = false := by simpa using hop
        obtain ⟨s1, s2⟩ := gstep_other g1 a op hop'
        simp only [List.filter_cons, hop']
        cases op with
        | tick => simp [GOp.concerns] at hop'
        | bind b => exact ih _ _ (s1.trans hc) (s2.trans hs)
        | unbind b => exact ih _ _ (s1.trans hc) (s2.trans hs)
        | rtp b q => exact ih _ _ (s1.trans hc) (s2.trans hs)
  exact key ops g (restrict g a) rfl (by simp [restrict, only_only])

/-- non-vacuity of `streams_independent`: two streams, the NACK for SSRC 5 is the same with and without
the traffic of SSRC 9. -/
example :
    let g : Gen := { cfg := { size := 64, skip := 0, max := 0 }, streams := [] }
    (grun g [.bind 5, .bind 9, .rtp 5 10, .rtp 9 100, .rtp 5 12, .rtp 9 103, .tick]).map (only 5) = [[(5, [11])]] := by
  decide

end Interceptor.ReceiveLog

/-
C12 — memory held per interceptor is bounded regardless of stream length (PARTIAL by design:
garbage-collector reachability, slice capacity and sync.Pool are not carried; `size` counts
retained entries of the models, which the correspondence `sizes` ties to the `len` of the real
containers op for op).

Per component: ★ `…_size_bounded` (for every operation list the size stays below a bound that is a
function of the configuration and the bound streams), ★ `…_unbind_releases`; where the bound
genuinely depends on the consumer this is stated exactly; where the size grows without bound on a
workload of the property's quantifier the negation is proved (`…_false`) with a witness.
-/
import Interceptor.Proofs.Sizes
import Interceptor.Proofs.SizesRtpfb
import Interceptor.Proofs.SizesTwcc
import Interceptor.Proofs.StatsMemory
set_option linter.unusedVariables false
namespace Interceptor.Props.C12
open Interceptor Interceptor.Sizes

/-! ## rtpfb history (pkg/rtpfb/history.go) -/

/-- ★ (partial: the bound is the consumer's) for every list of operations (sent packets, TWCC /
CCFB acknowledgements, reports) the `packets` map holds at most the packets sent and not yet
reported: `len(packets) ≤ counter − nextReport`.  With feedback that acknowledges recent packets
this is the number of packets in flight; it does not grow with the length of the stream (F-17,
fixed: reported packets are deleted). -/
theorem rtpfb_size_le_unreported_partial (ops : List Rtpfb.HOp) :
    (Rtpfb.runH {} ops).packets.length ≤ (Rtpfb.runH {} ops).counter - (Rtpfb.runH {} ops).nextReport :=
  Rtpfb.inv2_length _ (Rtpfb.inv2_runH ops {} Rtpfb.inv2_init)

/-- the full statement is false for rtpfb: WITHOUT any feedback (a workload the property names) the
history grows by one record per packet sent — no bound that depends only on the configuration
exists.  Witness: `B + 1` packets and no feedback.  (known finding F-17b) -/
theorem rtpfb_size_bounded_false : ¬ ∃ B, ∀ ops : List Rtpfb.HOp, (Rtpfb.runH {} ops).packets.length ≤ B := by
  rintro ⟨B, hB⟩
  have h1 := hB (List.replicate (B + 1) (.add 1 0 false 0 0 0))
  have h2 := Rtpfb.runH_adds (B + 1) {} Rtpfb.inv2_init
  rw [h2] at h1
  simp at h1
  omega

example : (Rtpfb.runH {} [.add 1 0 false 0 0 0, .add 1 1 false 0 0 0, .ackCc 0 1 ⟨1, true, 0, 0⟩, .build]).packets.length = 0 := by decide

/-! ## feedback adapter (internal/cc/feedback_adapter.go): LRU of 250 -/

/-- ★ the history of the feedback adapter never holds more than 250 sent-packet records, for every
sequence of `OnSent` calls (list and map have the same entries in the model). -/
theorem adapter_size_bounded (acks : List FeedbackAdapter.Ack) :
    (acks.foldl FeedbackAdapter.add []).length ≤ 250 := by
  have gen : ∀ (l : List FeedbackAdapter.Ack) (h : FeedbackAdapter.Hist), h.length ≤ FeedbackAdapter.lruSize →
      (l.foldl FeedbackAdapter.add h).length ≤ FeedbackAdapter.lruSize := by
    intro l
    induction l with
    | nil => intro h hh; exact hh
    | cons a l ih => intro h hh; exact ih _ (adapter_add_le h a hh)
  exact gen acks [] (by simp [FeedbackAdapter.lruSize])

example : (((List.range 300).map (fun i => (⟨i, 0, 0, 0, 0, 0⟩ : FeedbackAdapter.Ack))).foldl FeedbackAdapter.add []).length = 250 := by
  decide +kernel

/-! ## RTP ring of the NACK responder (internal/rtpbuffer) -/

/-- ★ the ring never has more slots, and never more slots in use, than its configured size, for
every sequence of added sequence numbers. -/
theorem ring_size_bounded (n : Nat) (seqs : List Nat) :
    (seqs.foldl Ring.add (Ring.new n)).slots.size = n ∧ (seqs.foldl Ring.add (Ring.new n)).used ≤ n := by
  have gen : ∀ (l : List Nat) (r : Ring), (l.foldl Ring.add r).slots.size = r.slots.size := by
    intro l
    induction l with
    | nil => intro r; rfl
    | cons s l ih => intro r; simp only [List.foldl_cons]; rw [ih, (ring_add_slots r s).1]
  have h1 : (seqs.foldl Ring.add (Ring.new n)).slots.size = n := by rw [gen]; simp [Ring.new]
  have h2 := ring_used_le (seqs.foldl Ring.add (Ring.new n))
  rw [h1] at h2
  exact ⟨h1, h2⟩

/-- ★ unbind/close releases: after `UnbindLocalStream` of every bound stream the responder holds
nothing (the size vector is that of a fresh interceptor). -/
theorem nackresp_unbind_releases (s : NackResp) (ks : List Nat) (hk : ∀ e ∈ s.streams, e.1 ∈ ks) :
    (ks.foldl (fun k x => K.step k false (.unbind x)) (.nackresp s)).size = (K.nackresp { rsize := s.rsize }).size := by
  have gen : ∀ (ks : List Nat) (s : NackResp),
      ks.foldl (fun k x => K.step k false (.unbind x)) (.nackresp s) = .nackresp { s with streams := ks.foldl del s.streams } := by
    intro ks
    induction ks with
    | nil => intro s; rfl
    | cons k ks ih =>
      intro s
      rw [List.foldl_cons]
      show List.foldl _ (K.nackresp { s with streams := del s.streams k }) ks = _
      rw [ih]; rfl
  rw [gen, del_all ks s.streams hk]

/-! ## NACK generator (pkg/nack/generator_interceptor.go) -/

/-- ★ unbind releases: after `UnbindRemoteStream` of every bound stream the generator holds no
receive log and no NACK counters (both live in the per-stream record of the model). -/
theorem nackgen_unbind_releases (g : ReceiveLog.Gen) (ks : List Nat) (hk : ∀ e ∈ g.streams, e.1 ∈ ks) :
    (ks.foldl ReceiveLog.unbind g).streams = [] := by
  have gen : ∀ (ks : List Nat) (g : ReceiveLog.Gen), (ks.foldl ReceiveLog.unbind g).streams = ks.foldl del g.streams := by
    intro ks
    induction ks with
    | nil => intro g; rfl
    | cons k ks ih => intro g; rw [List.foldl_cons, ih]; rfl
  rw [gen, del_all ks g.streams hk]

/-- ★ the receive log of a stream is a bitmap of the configured size: packets and ticks never add
or remove a stream record (`rtp` and `tick` map over the bound streams). -/
theorem nackgen_streams_constant (g : ReceiveLog.Gen) (ssrc seq : Nat) :
    (ReceiveLog.rtp g ssrc seq).streams.length = g.streams.length ∧ (ReceiveLog.tick g).1.streams.length = g.streams.length := by
  simp [ReceiveLog.rtp, ReceiveLog.tick]

/-! ## FlexFEC encoder interceptor: pending batch -/

/-- ★ with `numMediaPackets ≥ 1` the pending batch of a stream always holds fewer than
`numMediaPackets` packets, for every sequence of writes. -/
theorem flexfec_size_bounded (n f ssrc fpt fssrc : Nat) (hn : 0 < n) (pkts : List FlexFec.Bytes) :
    (pkts.foldl (fun s p => (s.write p).1) (FlexFec.Icpt.new n f ssrc fpt fssrc)).buffer.length < n := by
  have gen : ∀ (l : List FlexFec.Bytes) (s : FlexFec.Icpt), s.buffer.length < s.numMedia →
      (l.foldl (fun s p => (s.write p).1) s).buffer.length < s.numMedia := by
    intro l
    induction l with
    | nil => intro s h; exact h
    | cons p l ih =>
      intro s h
      obtain ⟨a, b⟩ := fec_write_lt s p h
      have := ih _ a
      rw [b] at this
      exact this
  exact gen pkts _ (by simpa [FlexFec.Icpt.new] using hn)

/-- the configuration `NumMediaPackets(0)` has no bound: the test `len(batch) == 0` never holds
after the append, the batch grows by one per packet (observation; degenerate configuration). -/
theorem flexfec_zero_media_unbounded (f ssrc : Nat) (p : FlexFec.Bytes) (hp : FlexFec.ssrcOf p = ssrc) (k : Nat) :
    ((List.replicate k p).foldl (fun s p => (s.write p).1) (FlexFec.Icpt.new 0 f ssrc 118 119)).buffer.length = k := by
  have gen : ∀ (k : Nat) (s : FlexFec.Icpt), s.numMedia = 0 → s.active = true → FlexFec.ssrcOf p = s.mediaSsrc →
      ((List.replicate k p).foldl (fun s p => (s.write p).1) s).buffer.length = s.buffer.length + k := by
    intro k
    induction k with
    | zero => intro s _ _ _; rfl
    | succ k ih =>
      intro s h0 ha hs
      obtain ⟨a, b, c, d⟩ := fec_write_zero s p h0 ha hs
      rw [List.replicate_succ, List.foldl_cons, ih _ b c (d ▸ hs), a]
      omega
  have := gen k (FlexFec.Icpt.new 0 f ssrc 118 119) rfl rfl hp
  simpa [FlexFec.Icpt.new] using this

/-- ★ unbind releases the batch of the stream. -/
theorem flexfec_unbind_releases (s : Fec) (ks : List Nat) (hk : ∀ e ∈ s.streams, e.1 ∈ ks) :
    (ks.foldl (fun k x => K.step k false (.unbind x)) (.flexfec s)).size = (K.flexfec { media := s.media, fec := s.fec }).size := by
  have gen : ∀ (ks : List Nat) (s : Fec),
      ks.foldl (fun k x => K.step k false (.unbind x)) (.flexfec s) = .flexfec { s with streams := ks.foldl del s.streams } := by
    intro ks
    induction ks with
    | nil => intro s; rfl
    | cons k ks ih =>
      intro s
      rw [List.foldl_cons]
      show List.foldl _ (K.flexfec { s with streams := del s.streams k }) ks = _
      rw [ih]; rfl
  rw [gen, del_all ks s.streams hk]

/-! ## pacing interceptor: the bound is the consumer's -/

/-- ★ (the bound depends on the consumer, stated exactly) for every event list, the packets held by
the pacing interceptor (hand-over channel + queue of the loop) are exactly the accepted ones that
have not been delivered: `held = accepted − delivered`.  Whether this stays small is decided by the
rate (C17); a stalled head-of-line packet makes it grow (F-31, known under C17). -/
theorem pacing_held_eq_accepted_minus_delivered {α L} (c : Pacing.Cfg α L) (lim : L) (evs : List (Pacing.Ev α)) :
    let st := Pacing.run c (Pacing.St.init lim) evs
    st.chan.length + st.loc.length = st.accepted.length - st.delivered.length := by
  have gen : ∀ (evs : List (Pacing.Ev α)) (st : Pacing.St α L), PConserved st → PConserved (Pacing.run c st evs) := by
    intro evs
    induction evs with
    | nil => intro st h; exact h
    | cons e evs ih => intro st h; exact ih _ (pacing_exec_conserved c st e h)
  have := gen evs (Pacing.St.init lim) (by simp [PConserved, Pacing.St.init])
  simp only [PConserved] at this
  simp only
  omega

/-- the queues of the pacing model do not depend on its ghost histories: the driver drops them. -/
theorem pacing_forget_sound (st : PSt) (e : Pacing.Ev Nat) :
    forgetP (Pacing.exec pcfg (forgetP st) e) = forgetP (Pacing.exec pcfg st e) := forgetP_exec st e

/-! ## stats recorder: five remembered sender reports, five receiver reference times -/

/-- ★ for every event list a recorder remembers at most 5 sender-report times and at most 5
receiver-reference times. -/
theorem stats_remembered_bounded (s : Nat) (rate : Rat) (w : List Stats.Event) :
    (w.foldl (Stats.recStep s rate) {}).lastSRs.length ≤ 5 ∧ (w.foldl (Stats.recStep s rate) {}).lastRRTs.length ≤ 5 := by
  obtain ⟨a, b⟩ := Stats.fold_mem_init s rate w
  rw [a, b]
  simp only [Stats.Spec.lastN, List.length_drop]
  omega

/-- `unbind_releases` is FALSE for the stats interceptor: it has no Unbind*Stream, a recorder (and
its goroutine) stays until Close, and the map entry stays even after Close.  Witness: bind, unbind:
one recorder remains.  (known finding F-C12b) -/
theorem stats_unbind_releases_false :
    ∃ k : K, (K.step k false (.unbind 1)).size ≠ (K.stats {}).size ∧ (∀ x, K.step k false (.unbind x) = k) :=
  ⟨.stats { i := [Stats.Rec.new 1 90000] }, by simp [K.step, K.size, statsSize, sumBy], fun _ => rfl⟩

/-- `unbind_releases` is FALSE for the rfc8888 interceptor: it has no UnbindRemoteStream; the stream
log of every SSRC ever seen stays in the recorder (and keeps its share of the report budget).
(known finding F-C12a) -/
theorem rfc8888_unbind_releases_false (s : Rfc8888.Icpt) (x : Nat) :
    K.step (.rfc8888 s) false (.unbind x) = .rfc8888 s := rfl

/-! ## TWCC recorder: arrival-time ring (pkg/twcc/arrival_time_map.go) -/

/-- events of the recorder: a packet (transport sequence number, arrival time in µs) or a feedback tick. -/
inductive TwEv where
  | pkt (seq : Nat) (t : Int)
  | build

def twStep (r : TwccRec) : TwEv → TwccRec
  | .pkt seq t => r.record seq t
  | .build => r.build

/-- ★ for every sequence of recorded packets and feedback ticks — also when no feedback is ever
built — the arrival-time ring spans at most 2^15 = 32768 sequence numbers (`maxNumberOfPackets`).
(partial: the capacity of the slice, a power of two that `adjustToSize` keeps within a factor 4 of
the span, is compared by the correspondence only.) -/
theorem twcc_span_bounded_partial (evs : List TwEv) : (evs.foldl twStep {}).m.span ≤ 32768 := by
  have gen : ∀ (evs : List TwEv) (r : TwccRec), AMap.SpanOk r.m → AMap.SpanOk (evs.foldl twStep r).m := by
    intro evs
    induction evs with
    | nil => intro r h; exact h
    | cons e evs ih =>
      intro r h
      apply ih
      cases e with
      | pkt seq t => exact record_spanOk r seq t h
      | build => show AMap.SpanOk r.build.m; rw [build_m]; exact h
  have := gen evs {} AMap.spanOk_init
  unfold AMap.SpanOk at this
  unfold AMap.span
  omega

example : (([TwEv.pkt 0 0, .pkt 10 10, .build, .pkt 5 20]).foldl twStep {}).m.span = 11 := by
  decide +kernel

/-! ## GCC rate calculator: sliding window (pkg/gcc/rate_calculator.go; a goroutine-local slice,
not reachable by an accessor: model only) -/

/-- ★ (partial: arrival times non-decreasing) after an acknowledgement with arrival time `a` the
window holds only acknowledgements that arrived within `window` before `a`: its length is the
number of packets acknowledged in one window, whatever the length of the stream. -/
theorem ratecalc_window_partial (c : RateCalc) (a : Int) (hi : c.init = true)
    (hs : (c.history ++ [a]).Pairwise (· ≤ ·)) : ∀ x ∈ (c.ack a).history, a - c.window ≤ x := by
  unfold RateCalc.ack
  simp only [hi, Bool.not_true, Bool.false_eq_true, if_false]
  exact dropOld_sorted _ _ hs

/-- without the hypothesis the statement is false: arrival times come from the remote peer's
feedback; one acknowledgement with an arrival time far in the future stays at the head of the
window and nothing behind it is ever dropped (`break` at the first entry that is not too old).
Witness: window 1 s, arrivals 10⁶ s, then 1, 2, 3 s: all four are kept. -/
theorem ratecalc_window_false :
    ∃ (c : RateCalc) (a : Int), c.init = true ∧ ∃ x ∈ (c.ack a).history, ¬ (a - c.window ≤ x) :=
  ⟨{ window := 1000000000, init := true, history := [1000000000000000, 1000000000, 2000000000] }, 3000000000, rfl,
   1000000000, by decide, by decide⟩

/-! ## receiver / sender report interceptors: one fixed-size record per bound stream -/

/-- ★ the report interceptors hold one stream record per bound stream (the receiver's bitmap is 128
words, fixed); packets, ticks and feedback do not change the size vector. -/
theorem report_size_constant (l : List Nat) (closed : Bool) (g ssrc seq : Nat) (lost : Bool) (bound : List Nat) :
    K.step (.rr l) closed (.packet g ssrc seq lost) = .rr l ∧ K.step (.rr l) closed (.adv g) = .rr l ∧
    K.step (.rr l) closed (.feedback g bound) = .rr l ∧
    K.step (.sr l) closed (.packet g ssrc seq lost) = .sr l ∧ K.step (.sr l) closed (.adv g) = .sr l ∧
    K.step (.sr l) closed (.feedback g bound) = .sr l := by
  refine ⟨rfl, ?_, rfl, rfl, ?_, rfl⟩ <;> (simp only [K.step]; split <;> rfl)

/-- ★ unbind releases the stream record. -/
theorem report_unbind_releases (l : List Nat) (x : Nat) :
    K.step (.rr l) false (.unbind x) = .rr (l.filter (· != x)) ∧ x ∉ l.filter (· != x) := by
  refine ⟨rfl, ?_⟩
  simp

end Interceptor.Props.C12

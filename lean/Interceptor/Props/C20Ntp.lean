/-
C20 — NTP conversion (over the exact binary64 model, Base/F64.lean; the model is compared bit for
bit with the Go code by the `ntp` correspondence stream).
-/
import Interceptor.Proofs.NtpMono
set_option linter.unusedVariables false
namespace Interceptor.Ntp
open Interceptor.F64

/-- ★ T5: converting wall-clock time to the 64-bit NTP format is monotone non-decreasing, for all
instants (at nanosecond granularity) from 1970-01-01 to 2036-02-07 06:28:15 UTC (`maxNs`; the last
second of NTP era 0 is excluded so that rounding cannot reach 2^32 seconds). -/
theorem toNTP_mono (a b : Int) (h0 : 0 ≤ a) (hab : a ≤ b) (hb : b ≤ maxNs) : toNTP a ≤ toNTP b := by
  have ha : a ≤ maxNs := le_trans hab hb
  have hb0 : 0 ≤ b := le_trans h0 hab
  obtain ⟨hsa1, hsa2⟩ := sOf_bounds a h0 ha
  obtain ⟨hsb1, hsb2⟩ := sOf_bounds b hb0 hb
  have hs := sOf_mono a b h0 hab
  have hsa0 : 0 ≤ sOf a := by linarith
  have hsb0 : 0 ≤ sOf b := by linarith
  have hsblt : sOf b < 4294967296 := by linarith
  have hi := toUint32_mono (sOf a) (sOf b) hsa0 hs hsblt
  have hfa := toUint32_of_range (sOf a) hsa0 (by linarith)
  have hfb := toUint32_of_range (sOf b) hsb0 hsblt
  rw [toNTP_eq, toNTP_eq]
  rcases Nat.lt_or_ge (toUint32 (sOf a)) (toUint32 (sOf b)) with hlt | hge
  · -- the integer part grows: the fraction is below 2^32
    have := toUint32_lt (fracOf (sOf a) (toUint32 (sOf a)))
    nlinarith
  · -- same integer part: compare the fractions
    have heq : toUint32 (sOf a) = toUint32 (sOf b) := Nat.le_antisymm hi hge
    rw [← heq]
    have hip : ((toUint32 (sOf a) : Nat) : ℚ) ≤ sOf a := by
      have := Rat.floor_le (sOf a)
      have e : (((toUint32 (sOf a) : Nat) : Int) : ℚ) = ((sOf a).floor : ℚ) := by rw [hfa]
      push_cast at e; rw [e]; exact this
    have hlt1 : sOf b < ((toUint32 (sOf a) : Nat) : ℚ) + 1 := by
      have := Rat.lt_floor_add_one (sOf b)
      push_cast at this
      have e : (((toUint32 (sOf b) : Nat) : Int) : ℚ) = ((sOf b).floor : ℚ) := by rw [hfb]
      push_cast at e
      rw [heq, e]; exact this
    obtain ⟨f0, fm, f1⟩ := fracOf_props (sOf a) (sOf b) (toUint32 (sOf a)) hip hs hlt1 (toUint32_lt _)
    have := toUint32_mono _ _ f0 fm (by linarith)
    omega

/-- ★ the integer part of the NTP timestamp is the whole number of seconds of the (rounded) instant,
and the whole timestamp stays within era 0: `toNTP t < 2^64`. -/
theorem toNTP_lt (a : Int) : toNTP a < 18446744073709551616 := by
  rw [toNTP_eq]
  have h1 := toUint32_lt (sOf a)
  have h2 := toUint32_lt (fracOf (sOf a) (toUint32 (sOf a)))
  omega

/-- the 32-bit middle form is the middle 32 bits. -/
theorem toNTP32_eq (a : Int) : toNTP32 a = (toNTP a / 65536) % 4294967296 := rfl

/-- non-vacuity / sanity: two concrete instants one nanosecond apart around a second boundary. -/
example : toNTP 1790000000999999999 ≤ toNTP 1790000001000000000 := by
  apply toNTP_mono <;> (try unfold maxNs) <;> decide

end Interceptor.Ntp

/-
C06 — the property theorems restated on the code itself: on the Lean definitions that extract/fn.go
regenerates from pkg/report/receiver_stream.go on every run (Gen/Fn_report.lean):
`report_receiverStream_processRTP`, `report_receiverStream_processSenderReport`,
`report_receiverStream_generateReport`, run over an arbitrary call sequence by
`FnReceiverGenerate.goRun` from the state `newReceiverStream` builds (`FnReceiverReport.goNew`).
Each statement follows from the model theorem of Props/C06.lean and the source-equals-model theorems of
Facts/FnReceiverReport.lean / Facts/FnReceiverGenerate.lean (`run_src_eq_model`, which chains the step
theorems with the invariants `Rel`, `TimeOk`, `SeqOk`, `LsrOk`).  No ★ statement mentions the hand-written
model `ReceiverReport.Stream` (only the helper `srcRun_reports`, the intermediate composition, does); the right-hand sides are the spec recounts of Spec/ReceiverReport.lean (the
definition of "the true value" in the property itself).

Hypotheses of every theorem (`Call.ok` for every call): the header fields are in the range of their Go types
(uint16 sequence number, uint32 timestamp), the NTP time is a uint64, and every `now` is an `instant`
(−2^62 ≤ Unix ns < 2^62: Go's `Time.Sub` saturates at ±2^63 while the property subtracts exactly).
`fuel ≥ 65535` per call suffices for every loop of the generated code (the conclusion `goRun … = some …`
says the Go loops terminate).
-/
import Interceptor.Facts.FnReceiverGenerate
import Interceptor.Props.C06
set_option linter.unusedVariables false
namespace Interceptor.C06Src
open Interceptor Interceptor.Gen.Fn Interceptor.GoSem Interceptor.ReceiverReport Interceptor.ReceiverReport.Spec
open Interceptor.Facts.FnReceiverGenerate
open Interceptor.Facts.FnReceiverReport (goNew rel_new instant)
open Interceptor.Facts.FnSenderReport (HeaderOk)

/-- the history event a Go call stands for. -/
def evOf : Call → Ev
  | .rtp now h => .rtp now h.SequenceNumber.toNat h.Timestamp.toNat
  | .sr now rep => .sr now rep.NTPTime.toNat
  | .gen now => .report now

/-- all reception reports of a list of receiver reports, in order. -/
def receptions (outs : List S_rtcp_ReceiverReport) : List S_rtcp_ReceptionReport := outs.flatMap (·.Reports)

theorem evOf_wf (c : Call) (hc : c.ok) : (evOf c).wf := by
  cases c with
  | rtp now h =>
    obtain ⟨hh, _⟩ := hc
    have := hh.seq; have := hh.ts
    show _ < 65536 ∧ _ < M32
    unfold M32; omega
  | sr now rep => trivial
  | gen now => trivial

theorem evs_wf (cs : List Call) (hok : ∀ c ∈ cs, c.ok) : ∀ e ∈ cs.map evOf, e.wf := by
  intro e he
  simp only [List.mem_map] at he
  obtain ⟨c, hc, rfl⟩ := he
  exact evOf_wf c (hok c hc)

/-- the model run over calls is the model run over the events they stand for. -/
theorem modelRun_eq_runEv (cs : List Call) : ∀ m : Stream, (modelRun m cs).2 = runEv m (cs.map evOf) := by
  induction cs with
  | nil => intro m; rfl
  | cons c cs ih =>
    intro m
    cases c with
    | rtp now h => simp only [modelRun, modelStep, List.map_cons, evOf, runEv, stepEv, List.nil_append]; exact ih _
    | sr now rep => simp only [modelRun, modelStep, List.map_cons, evOf, runEv, stepEv, List.nil_append]; exact ih _
    | gen now =>
      simp only [modelRun, modelStep, List.map_cons, evOf, runEv, stepEv, List.singleton_append]
      rw [ih]

theorem flat_single {α β : Type} (f : α → β) (l : List α) : (l.map fun x => [f x]).flatten = l.map f := by
  induction l with
  | nil => rfl
  | cons a l ih => simp [ih]

/-- (helper: the composition with the model, before the model theorems are applied) the generated code, run
from the state `newReceiverStream` builds over any call sequence with arguments in range, terminates (fuel ≥ 65535 per call), every receiver report it returns carries exactly one reception
report, and the reception reports are, field by field (`goRR`), the reports of the event history the calls
stand for. -/
theorem srcRun_reports (fuel : Nat) (hf : 65535 ≤ fuel) (ssrc rate r : Nat) (cs : List Call)
    (hok : ∀ c ∈ cs, c.ok) :
    ∃ g' outs, goRun fuel (goNew ssrc rate r) cs = some (g', outs) ∧
      (∀ o ∈ outs, o.Reports.length = 1) ∧
      receptions outs = (runEv (ReceiverReport.new ssrc rate) (cs.map evOf)).map goRR := by
  obtain ⟨g', outs, h, _, _, ho⟩ := run_src_eq_model fuel hf cs hok (goNew ssrc rate r)
    (ReceiverReport.new ssrc rate) (rel_new ssrc rate r) (inv_new ssrc rate)
  refine ⟨g', outs, h, ?_, ?_⟩
  · intro o hm
    have : o.Reports ∈ outs.map (·.Reports) := List.mem_map.mpr ⟨o, hm, rfl⟩
    rw [ho] at this
    simp only [List.mem_map] at this
    obtain ⟨rr, _, e⟩ := this
    rw [← e]; rfl
  · unfold receptions
    rw [List.flatMap_def, ho, flat_single, modelRun_eq_runEv]

/-- the observation of a field of the returned reports, as a list of naturals mapped into `Int`. -/
theorem field_of (f : S_rtcp_ReceptionReport → Int) (fm : RR → Nat) (hfm : ∀ rr, f (goRR rr) = (fm rr : Int))
    (l : List RR) : (l.map goRR).map f = (l.map fm).map Int.ofNat := by
  induction l with
  | nil => rfl
  | cons a l ih => simp only [List.map_cons, ih, hfm]; rfl

/-- ★ C06 clause "extended highest sequence number actually received (cycle count in the upper 16 bits)", on
the code: over any call sequence the `LastSequenceNumber` of every report the generated `generateReport`
returns is the extended highest sequence number received so far modulo 2^32 (`Spec.extReports`), 0 before any
packet. -/
theorem ext_highest_src (fuel : Nat) (hf : 65535 ≤ fuel) (ssrc rate r : Nat) (cs : List Call)
    (hok : ∀ c ∈ cs, c.ok) :
    ∃ g' outs, goRun fuel (goNew ssrc rate r) cs = some (g', outs) ∧
      (receptions outs).map (·.LastSequenceNumber) = (extReports none (cs.map evOf)).map Int.ofNat := by
  obtain ⟨g', outs, h, _, ho⟩ := srcRun_reports fuel hf ssrc rate r cs hok
  refine ⟨g', outs, h, ?_⟩
  rw [ho, field_of (·.LastSequenceNumber) (·.ext) (fun _ => rfl),
    ext_highest ssrc rate _ (evs_wf cs hok)]

/-- the `(FractionLost, TotalLost)` pair of a Go reception report. -/
def goLossObs (rr : S_rtcp_ReceptionReport) : Int × Int := (rr.FractionLost, rr.TotalLost)

/-- ★ C06 clauses "fraction-lost = ⌊256·lost/expected⌋ over the interval since the previous report" and
"cumulative-lost = the sum of those interval losses saturated at 2^24−1", on the code, under the hypothesis
`H8192` the 8192-position history forces (F-08: false without it): the `(FractionLost, TotalLost)` of every
report the generated `generateReport` returns are `⌊256·lost/expected⌋` and the saturating sum, with
`expected`, `lost` recounted from the history (`Spec.lossReports`). -/
theorem loss_eq_spec_src (fuel : Nat) (hf : 65535 ≤ fuel) (ssrc rate r : Nat) (cs : List Call)
    (hok : ∀ c ∈ cs, c.ok) (hH : H8192 none (cs.map evOf)) :
    ∃ g' outs, goRun fuel (goNew ssrc rate r) cs = some (g', outs) ∧
      (receptions outs).map goLossObs =
        (lossReports none (cs.map evOf)).map fun q => ((q.2.2.1 : Int), (q.2.2.2 : Int)) := by
  obtain ⟨g', outs, h, _, ho⟩ := srcRun_reports fuel hf ssrc rate r cs hok
  refine ⟨g', outs, h, ?_⟩
  have hm := loss_eq_spec ssrc rate _ (evs_wf cs hok) hH
  have e1 : ((runEv (ReceiverReport.new ssrc rate) (cs.map evOf)).map goRR).map goLossObs
      = ((runEv (ReceiverReport.new ssrc rate) (cs.map evOf)).map lossObs).map
          fun p => ((p.1 : Int), (p.2 : Int)) := by
    simp only [List.map_map]; rfl
  rw [ho, e1, hm]
  simp only [List.map_map]
  rfl

/-- ★ C06 clause "interarrival jitter follows the RFC 3550 A.8 recurrence on 32-bit RTP timestamps
(wrap-safe)", on the code: over any call sequence the `Jitter` of every report the generated `generateReport`
returns is `uint32` of the recurrence `J += (|D| − J)/16` run in binary64 over the packets so far, with the
timestamp difference taken modulo 2^32 as a signed value (`Spec.jitterReports`). -/
theorem jitter_rec_src (fuel : Nat) (hf : 65535 ≤ fuel) (ssrc rate r : Nat) (cs : List Call)
    (hok : ∀ c ∈ cs, c.ok) :
    ∃ g' outs, goRun fuel (goNew ssrc rate r) cs = some (g', outs) ∧
      (receptions outs).map (·.Jitter) = (jitterReports rate none 0 (cs.map evOf)).map Int.ofNat := by
  obtain ⟨g', outs, h, _, ho⟩ := srcRun_reports fuel hf ssrc rate r cs hok
  refine ⟨g', outs, h, ?_⟩
  rw [ho, field_of (·.Jitter) (·.jitter) (fun _ => rfl), jitter_rec ssrc rate _]

/-- ★ C06 clause "Last-SR and delay-since-last-SR reflect the most recent sender report received for that
SSRC, and are zero before any", on the code: over any call sequence every report the generated
`generateReport` returns carries `LSR = (ntp >> 16) mod 2^32` and
`DLSR = uint32(float64 seconds(max(now − t, 0))·65536)` for the most recent `processSenderReport(t, ntp)` call, and
`(0, 0)` before any (`Spec.lsrReports`). -/
theorem lsr_dlsr_src (fuel : Nat) (hf : 65535 ≤ fuel) (ssrc rate r : Nat) (cs : List Call)
    (hok : ∀ c ∈ cs, c.ok) :
    ∃ g' outs, goRun fuel (goNew ssrc rate r) cs = some (g', outs) ∧
      (receptions outs).map (fun rr => (rr.LastSenderReport, rr.Delay)) =
        (lsrReports none (cs.map evOf)).map fun p => ((p.1 : Int), (p.2 : Int)) := by
  obtain ⟨g', outs, h, _, ho⟩ := srcRun_reports fuel hf ssrc rate r cs hok
  refine ⟨g', outs, h, ?_⟩
  have hm := lsr_dlsr ssrc rate (cs.map evOf)
  rw [ho, ← hm]
  simp only [List.map_map]
  rfl


/-- ★ C06 clause "fraction-lost equal to floor(256 × lost/expected)", on the code: the expression
`uint8(float64(totalLostSinceReport*256) / float64(totalSinceReport))` exactly as the generated
`generateReport` has it (`FnReceiverGenerate.mkRepWith`, `gen_eq`) is `⌊256·l/e⌋` for `0 ≤ l < e ≤ 65535`. -/
theorem fraction_floor_src (l e : Nat) (hl : l < e) (he : e ≤ 65535) :
    u8 (F64.toInt64 (F64.div (F64.ofInt (u32 ((l : Int) * 256))) (F64.ofInt (e : Int))))
      = ((l * 256 / e : Nat) : Int) := by
  rw [fraction_eq l e (by omega), fraction_floor l e hl he]

/-- ★ C06 clause "on 32-bit RTP timestamps (wrap-safe)", on the code: the jitter sample `D` the generated
`processRTP` computes (`FnReceiverReport.dOf`, the expression
`now.Sub(lastRTPTimeTime).Seconds()*clockRate - float64(int32(ts - lastRTPTimeRTP))`) from the 32-bit wrapped
values of two true timestamps `a`, `b` within ±2^31 of each other uses the true difference `a − b`. -/
theorem jitter_wrap_safe_src (st : S_report_receiverStream) (now a b : Int)
    (h1 : -2147483648 ≤ a - b) (h2 : a - b < 2147483648) (hst : st.lastRTPTimeRTP = b % 4294967296) :
    Facts.FnReceiverReport.dOf st now (a % 4294967296)
      = F64.sub (F64.mul (durSeconds (timeSub now st.lastRTPTimeTime)) st.clockRate) (F64.ofInt (a - b)) := by
  unfold Facts.FnReceiverReport.dOf
  have : s32 (u32 (a % 4294967296 - st.lastRTPTimeRTP)) = a - b := by
    rw [hst]; unfold s32 u32; omega
  rw [this]

/-! ## non-vacuity: the generated code evaluated on a concrete history

first packet 65534, then 2 (wrap-around; 65535, 0, 1 lost), a sender report, a report tick, a late packet 0,
a second report tick. -/

def demo : List Call :=
  [.rtp 946684800000000000 { SequenceNumber := 65534, Timestamp := 3000 },
   .rtp 946684800020000000 { SequenceNumber := 2, Timestamp := 6000 },
   .sr 946684800500000000 { NTPTime := 16755510599426244608 },
   .gen 946684801000000000,
   .rtp 946684801020000000 { SequenceNumber := 0, Timestamp := 4294967000 },
   .rtp 946684801040000000 { SequenceNumber := 3, Timestamp := 9000 },
   .gen 946684802000000000]

theorem demo_ok : ∀ c ∈ demo, c.ok := by
  intro c hc
  simp only [demo, List.mem_cons, List.not_mem_nil, or_false] at hc
  rcases hc with rfl | rfl | rfl | rfl | rfl | rfl | rfl
  · exact ⟨⟨by decide, by decide⟩, by unfold instant; omega⟩
  · exact ⟨⟨by decide, by decide⟩, by unfold instant; omega⟩
  · exact ⟨⟨by decide, by decide⟩, by unfold instant; omega⟩
  · show instant _; unfold instant; omega
  · exact ⟨⟨by decide, by decide⟩, by unfold instant; omega⟩
  · exact ⟨⟨by decide, by decide⟩, by unfold instant; omega⟩
  · show instant _; unfold instant; omega

/-- the reception reports the generated code returns on `demo` (fuel 10 per call already suffices here). -/
def demoOut : Option (List S_rtcp_ReceptionReport) :=
  (goRun 10 (goNew 7 90000 12345) demo).map fun p => receptions p.2

/-- non-vacuity of `srcRun_reports`: two receiver reports, one reception report each. -/
example : (goRun 10 (goNew 7 90000 12345) demo).map (fun p => p.2.map (·.Reports.length)) = some [1, 1] := by
  decide +kernel

/-- non-vacuity of `ext_highest_src`: 1·65536 + 2, then 1·65536 + 3. -/
example : demoOut.map (·.map (·.LastSequenceNumber)) = some [65538, 65539] ∧
    extReports none (demo.map evOf) = [65538, 65539] := by
  constructor <;> decide +kernel

/-- non-vacuity of `loss_eq_spec_src`: `H8192` holds on `demo`; 3 of the 5 numbers of (65533, 2] lost (⌊256·3/5⌋ = 153), then the late
packet 0 does not count back and the interval (2, 3] has no loss. -/
example : (∀ c ∈ demo, c.ok) ∧ H8192 none (demo.map evOf) ∧
    demoOut.map (·.map goLossObs) = some [(153, 3), (0, 3)] := by
  refine ⟨demo_ok, ?_, by decide +kernel⟩
  simp [demo, evOf, H8192, lossRtp, ahead, extend, highest, sub16, lostIn]

/-- non-vacuity of `jitter_rec_src`. -/
example : demoOut.map (·.map (·.Jitter)) = (some (jitterReports 90000 none 0 (demo.map evOf))).map (·.map Int.ofNat) := by
  decide +kernel

/-- non-vacuity of `lsr_dlsr_src`: the sender report arrived 0.5 s, then 1.5 s before the report ticks. -/
example : demoOut.map (·.map fun rr => (rr.LastSenderReport, rr.Delay))
    = some [(2283642136, 32768), (2283642136, 98304)] := by
  decide +kernel

/-- non-vacuity of `fraction_floor_src`. -/
example : u8 (F64.toInt64 (F64.div (F64.ofInt (u32 ((3 : Nat) * 256))) (F64.ofInt ((5 : Nat) : Int)))) = 153 := by
  decide +kernel

/-- non-vacuity of `jitter_wrap_safe_src`: true timestamps 2^32 + 100 and 2^32 − 200 (a wrap between them). -/
example : Facts.FnReceiverReport.dOf { lastRTPTimeRTP := 4294967096, clockRate := 90000, lastRTPTimeTime := 0 } 0
      (4294967396 % 4294967296)
    = F64.sub (F64.mul (durSeconds (timeSub 0 0)) 90000) (F64.ofInt 300) :=
  jitter_wrap_safe_src _ 0 4294967396 4294967096 (by omega) (by omega) rfl

end Interceptor.C06Src

/-
Packed bitmaps of the translated Go code: a `[]uint64` whose word `p/64`, bit `p%64` holds position `p`
(`w[p/64] |= 1 << (p%64)`, `w[p/64] &^= 1 << (p%64)`, `w[p/64] & (1 << (p%64)) != 0`) against an
`Array Bool` with one entry per position.  Used by Facts/FnNack.lean and Facts/FnReportBitmap.lean.
-/
import Interceptor.Base.GoSem
namespace Interceptor.GoSem

/-! ### one word -/

/-- `uint64(1) << k` for a shift count below 64. -/
theorem u64_shl_one (k : Nat) (hk : k < 64) : u64 (shl 1 (k : Int)) = ((2 ^ k : Nat) : Int) := by
  have h2 : 2 ^ k < 2 ^ 64 := Nat.pow_lt_pow_right (by decide) hk
  unfold u64 shl
  simp only [Int.toNat_natCast, Int.one_mul]
  have e : (2 : Int) ^ k = ((2 ^ k : Nat) : Int) := by simp
  rw [e]
  generalize 2 ^ k = n at h2
  omega

theorem u64_small (w : Nat) (hw : w < 2 ^ 64) : u64 (w : Int) = (w : Int) := by
  unfold u64; omega

/-- `^b` of a non-negative number is negative: `-b-1 = -(b+1)`. -/
theorem bnot_natCast (n : Nat) : bnot (n : Int) = Int.negSucc n := by
  unfold bnot; rw [Int.negSucc_eq]; omega

/-- `m &^ n` on non-negative numbers: the translator's `band m (bnot n)` reduces to `m ^^^ (m &&& n)`. -/
theorem bandnot_natCast (m n : Nat) : bandnot (m : Int) (n : Int) = ((m ^^^ (m &&& n) : Nat) : Int) := by
  unfold bandnot; rw [bnot_natCast]; rfl

/-- the bits of `m &^ n`: those of `m` that are not in `n`. -/
theorem testBit_andnot (m n j : Nat) : (m ^^^ (m &&& n)).testBit j = (m.testBit j && !n.testBit j) := by
  rw [Nat.testBit_xor, Nat.testBit_and]
  cases m.testBit j <;> cases n.testBit j <;> rfl

theorem andnot_le (m n : Nat) : m ^^^ (m &&& n) ≤ m := by
  apply Nat.le_of_testBit
  intro j
  rw [testBit_andnot]
  cases m.testBit j <;> simp

/-- `w | 1<<k` as a uint64. -/
theorem word_set (w k : Nat) (hw : w < 2 ^ 64) (hk : k < 64) :
    u64 (bor (w : Int) (u64 (shl 1 (k : Int)))) = ((w ||| 2 ^ k : Nat) : Int) ∧ (w ||| 2 ^ k) < 2 ^ 64 ∧
    ∀ j, (w ||| 2 ^ k).testBit j = if j = k then true else w.testBit j := by
  have h2 : 2 ^ k < 2 ^ 64 := Nat.pow_lt_pow_right (by decide) hk
  have hlt : (w ||| 2 ^ k) < 2 ^ 64 := Nat.or_lt_two_pow hw h2
  refine ⟨?_, hlt, ?_⟩
  · rw [u64_shl_one k hk, bor_ofNat, u64_small _ hlt]
  · intro j
    rw [Nat.testBit_or, Nat.testBit_two_pow]
    by_cases h : j = k
    · simp [h]
    · have : ¬ k = j := fun e => h e.symm
      simp [h, this]

/-- `w &^ 1<<k` as a uint64. -/
theorem word_clear (w k : Nat) (hw : w < 2 ^ 64) (hk : k < 64) :
    u64 (bandnot (w : Int) (u64 (shl 1 (k : Int)))) = ((w ^^^ (w &&& 2 ^ k) : Nat) : Int) ∧
    (w ^^^ (w &&& 2 ^ k)) < 2 ^ 64 ∧
    ∀ j, (w ^^^ (w &&& 2 ^ k)).testBit j = if j = k then false else w.testBit j := by
  have hlt : (w ^^^ (w &&& 2 ^ k)) < 2 ^ 64 := Nat.lt_of_le_of_lt (andnot_le _ _) hw
  refine ⟨?_, hlt, ?_⟩
  · rw [u64_shl_one k hk, bandnot_natCast, u64_small _ hlt]
  · intro j
    rw [testBit_andnot, Nat.testBit_two_pow]
    by_cases h : j = k
    · simp [h]
    · have : ¬ k = j := fun e => h e.symm
      simp [h, this]

theorem and_two_pow_eq (w k : Nat) : w &&& 2 ^ k = if w.testBit k then 2 ^ k else 0 := by
  apply Nat.eq_of_testBit_eq
  intro j
  rw [Nat.testBit_and, Nat.testBit_two_pow]
  by_cases h : k = j
  · subst h; cases hb : w.testBit k <;> simp
  · cases hb : w.testBit k <;> simp [h]

/-- `w & (1<<k) != 0` is bit `k` of `w`. -/
theorem word_test (w k : Nat) (hk : k < 64) :
    decide (u64 (band (w : Int) (u64 (shl 1 (k : Int)))) ≠ 0) = w.testBit k := by
  have h2 : 2 ^ k < 2 ^ 64 := Nat.pow_lt_pow_right (by decide) hk
  have hle : w &&& 2 ^ k ≤ 2 ^ k := Nat.and_le_right
  rw [u64_shl_one k hk, band_ofNat, u64_small _ (by omega), and_two_pow_eq]
  cases w.testBit k
  · simp
  · have : (2 : Int) ^ k ≠ 0 := Int.ne_of_gt (Int.pow_pos (by decide))
    simpa using this

/-! ### slices -/

theorem idx_natCast (ws : List Int) (i : Nat) : idx ws (i : Int) = ws.getD i 0 := by
  have hn : ¬ ((i : Int) < 0) := by omega
  unfold idx; simp [hn]

theorem len_set (ws : List Int) (i v : Int) : (set ws i v).length = ws.length := by
  unfold set; split <;> simp

theorem idx_set_natCast (ws : List Int) (i j : Nat) (v : Int) (hi : i < ws.length) :
    idx (set ws (i : Int) v) (j : Int) = if i = j then v else idx ws (j : Int) := by
  have hn : ¬ ((i : Int) < 0) := by omega
  rw [idx_natCast, idx_natCast]
  unfold set
  simp only [hn, if_false, Int.toNat_natCast, List.getD_eq_getElem?_getD, List.getElem?_set]
  by_cases h : i = j
  · subst h; simp [hi]
  · simp [h]

/-! ### the abstraction -/

/-- the `[]uint64` `ws` represents the bit vector `bits`: 64 positions per word, every word a uint64,
bit `p%64` of word `p/64` is `bits[p]`. -/
structure Packed (ws : List Int) (bits : Array Bool) : Prop where
  size : bits.size = 64 * ws.length
  word : ∀ i : Nat, i < ws.length → 0 ≤ idx ws (i : Int) ∧ idx ws (i : Int) < 18446744073709551616
  bit : ∀ p : Nat, p < bits.size → (idx ws ((p / 64 : Nat) : Int)).toNat.testBit (p % 64) = bits.getD p false

/-- replacing word `p/64` by a uint64 that differs from the old one exactly in bit `p%64` (now `v`). -/
theorem Packed.update {ws : List Int} {bits : Array Bool} (h : Packed ws bits) (p : Nat) (hp : p < bits.size)
    (w' : Nat) (v : Bool) (hw : w' < 2 ^ 64)
    (hbit : ∀ j, w'.testBit j = if j = p % 64 then v else (idx ws ((p / 64 : Nat) : Int)).toNat.testBit j) :
    Packed (set ws ((p / 64 : Nat) : Int) (w' : Int)) (bits.setIfInBounds p v) := by
  have hsz := h.size
  have hi : p / 64 < ws.length := by omega
  refine ⟨?_, ?_, ?_⟩
  · rw [len_set]; simpa using hsz
  · intro i hil
    rw [len_set] at hil
    rw [idx_set_natCast _ _ _ _ hi]
    split
    · omega
    · exact h.word i hil
  · intro q hq
    have hq' : q < bits.size := by simpa using hq
    rw [idx_set_natCast _ _ _ _ hi]
    simp only [Array.getD_eq_getD_getElem?, Array.getElem?_setIfInBounds]
    by_cases hpq : p = q
    · subst hpq
      simp [hbit, hp]
    · have hne : ¬ (p = q) := hpq
      simp only [hne, if_false]
      have := h.bit q hq'
      simp only [Array.getD_eq_getD_getElem?] at this
      rw [← this]
      by_cases hw2 : p / 64 = q / 64
      · have hm : ¬ (q % 64 = p % 64) := by omega
        simp only [hw2, if_true, Int.toNat_natCast]
        rw [hbit, if_neg hm, hw2]
      · simp [hw2]

/-- the word holding position `p`, as a natural number below 2^64. -/
theorem Packed.word_nat {ws : List Int} {bits : Array Bool} (h : Packed ws bits) (p : Nat) (hp : p < bits.size) :
    ∃ w : Nat, idx ws ((p / 64 : Nat) : Int) = (w : Int) ∧ w < 2 ^ 64 ∧ w.testBit (p % 64) = bits.getD p false := by
  have hsz := h.size
  have hi : p / 64 < ws.length := by omega
  have hw := h.word _ hi
  refine ⟨(idx ws ((p / 64 : Nat) : Int)).toNat, by omega, by omega, h.bit p hp⟩

theorem natCast_div64 (p : Nat) : (p : Int) / 64 = ((p / 64 : Nat) : Int) := by omega
theorem natCast_mod64 (p : Nat) : (p : Int) % 64 = ((p % 64 : Nat) : Int) := by omega

/-- `ws[p/64] |= 1 << (p%64)` sets position `p`. -/
theorem Packed.setBit {ws : List Int} {bits : Array Bool} (h : Packed ws bits) (p : Nat) (hp : p < bits.size) :
    Packed (set ws ((p : Int) / 64) (u64 (bor (idx ws ((p : Int) / 64)) (u64 (shl 1 ((p : Int) % 64))))))
      (bits.setIfInBounds p true) := by
  rw [natCast_div64, natCast_mod64]
  obtain ⟨w, e, hw, _⟩ := h.word_nat p hp
  obtain ⟨e1, h1, h2⟩ := word_set w (p % 64) hw (Nat.mod_lt _ (by decide))
  rw [e, e1]
  apply h.update p hp _ true h1
  intro j; rw [h2, e]; simp

/-- `ws[p/64] &^= 1 << (p%64)` clears position `p`. -/
theorem Packed.clearBit {ws : List Int} {bits : Array Bool} (h : Packed ws bits) (p : Nat) (hp : p < bits.size) :
    Packed (set ws ((p : Int) / 64) (u64 (bandnot (idx ws ((p : Int) / 64)) (u64 (shl 1 ((p : Int) % 64))))))
      (bits.setIfInBounds p false) := by
  rw [natCast_div64, natCast_mod64]
  obtain ⟨w, e, hw, _⟩ := h.word_nat p hp
  obtain ⟨e1, h1, h2⟩ := word_clear w (p % 64) hw (Nat.mod_lt _ (by decide))
  rw [e, e1]
  apply h.update p hp _ false h1
  intro j; rw [h2, e]; simp

/-- `ws[p/64] & (1 << (p%64)) != 0` reads position `p`. -/
theorem Packed.getBit {ws : List Int} {bits : Array Bool} (h : Packed ws bits) (p : Nat) (hp : p < bits.size) :
    decide (u64 (band (idx ws ((p : Int) / 64)) (u64 (shl 1 ((p : Int) % 64)))) ≠ 0) = bits.getD p false := by
  rw [natCast_div64, natCast_mod64]
  obtain ⟨w, e, _, hb⟩ := h.word_nat p hp
  rw [e, word_test w (p % 64) (Nat.mod_lt _ (by decide)), hb]

/-- `make([]uint64, n)` represents `64·n` cleared positions. -/
theorem Packed.zero (n : Nat) : Packed (mkSlice (n : Int)) (Array.replicate (64 * n) false) := by
  have hidx : ∀ i : Nat, idx (mkSlice (n : Int)) (i : Int) = 0 := by
    intro i
    rw [idx_natCast]; unfold mkSlice
    simp only [Int.toNat_natCast, List.getD_eq_getElem?_getD, List.getElem?_replicate]
    split <;> rfl
  refine ⟨?_, ?_, ?_⟩
  · simp [mkSlice]
  · intro i _; rw [hidx]; omega
  · intro p hp
    rw [hidx]
    have hp' : p < 64 * n := by simpa using hp
    simp [hp']

end Interceptor.GoSem

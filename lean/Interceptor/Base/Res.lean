/-
Panic monad: every Go index / slice expression in a modelled decoder becomes a checked
access that yields `panic site` when out of range.
-/
namespace Interceptor

inductive Res (α : Type) where
  | ok (a : α)
  | err (e : String)
  | panic (site : String)
  deriving Repr, DecidableEq

namespace Res
def bind {α β} (r : Res α) (f : α → Res β) : Res β :=
  match r with
  | ok a => f a
  | err e => err e
  | panic s => panic s
instance : Monad Res where
  pure := ok
  bind := bind
def isPanic {α} : Res α → Bool
  | panic _ => true
  | _ => false
end Res

/-- checked list index (Go `xs[i]`). -/
def idx {α} (site : String) (xs : List α) (i : Nat) : Res α :=
  match xs[i]? with
  | some a => .ok a
  | none => .panic site

end Interceptor

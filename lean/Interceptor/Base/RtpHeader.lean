/-
RTP header model mirroring pion/rtp v1.10.5 `Header` (packet.go): the fields, `MarshalSize`,
`MarshalTo` (fixed part, CSRC list, RFC 8285 one-byte / two-byte profiles, RFC 3550 profile,
rounding of the extension block to 32-bit words, padding *bit*), `SetExtension` and
`headerExtensionCheck` (header_extension.go).  Core Lean only (linked into the driver).

Integers are `Nat`; every place where Go truncates (`uint8(len(..))`, `id<<4`, `Version<<6`)
is written with the explicit `%`.  pion/rtp is outside /repo: this file is a *parameter* of
the models that use it, validated against the real library by the correspondence runs
(components `twcchdr`, `chain`) and trusted otherwise.
-/
namespace Interceptor.Rtp

abbrev Bytes := List Nat

/-- `rtp.ExtensionProfileOneByte`. -/
abbrev profOneByte : Nat := 0xBEDE
/-- `rtp.ExtensionProfileTwoByte`. -/
abbrev profTwoByte : Nat := 0x1000

/-- `rtp.Header`.  `extensions` is the Go slice `[]Extension{id, payload}`; it may be non-empty
while `extension = false` (the Go struct allows it and `SetExtension` appends to it). -/
structure Header where
  version : Nat := 2
  padding : Bool := false
  extension : Bool := false
  marker : Bool := false
  pt : Nat := 0
  seq : Nat := 0
  ts : Nat := 0
  ssrc : Nat := 0
  csrc : List Nat := []
  profile : Nat := 0
  extensions : List (Nat × Bytes) := []
  paddingSize : Nat := 0
  deriving DecidableEq, Repr, Inhabited

def be16 (n : Nat) : Bytes := [n / 256 % 256, n % 256]
def be32 (n : Nat) : Bytes := [n / 16777216 % 256, n / 65536 % 256, n / 256 % 256, n % 256]

/-- errors of `headerExtensionCheck`. -/
inductive ExtErr where
  | oneByteId | oneByteSize | twoByteId | twoByteSize | rfc3550Id
  deriving DecidableEq, Repr

/-- `headerExtensionCheck(profile, id, payload)`; `none` = nil error. -/
def extensionCheck (profile id : Nat) (payload : Bytes) : Option ExtErr :=
  if profile = profOneByte then
    if id < 1 ∨ id > 14 then some .oneByteId
    else if payload.length > 16 then some .oneByteSize
    else none
  else if profile = profTwoByte then
    if id < 1 then some .twoByteId
    else if payload.length > 255 then some .twoByteSize
    else none
  else
    if id ≠ 0 then some .rfc3550Id else none

/-- the loop of `SetExtension`: replace the payload of the first element with this id, else append. -/
def setElem : List (Nat × Bytes) → Nat → Bytes → List (Nat × Bytes)
  | [], id, p => [(id, p)]
  | (i, q) :: rest, id, p => if i = id then (i, p) :: rest else (i, q) :: setElem rest id p

/-- `(*Header).SetExtension(id, payload)`. -/
def setExtension (h : Header) (id : Nat) (payload : Bytes) : Except ExtErr Header :=
  if h.extension then
    match extensionCheck h.profile id payload with
    | some e => .error e
    | none => .ok { h with extensions := setElem h.extensions id payload }
  else
    let prof :=
      if payload.length ≤ 16 then profOneByte
      else if payload.length < 256 then profTwoByte
      else h.profile
    .ok { h with extension := true, profile := prof, extensions := h.extensions ++ [(id, payload)] }

/-- `GetExtension`. -/
def getExtension (h : Header) (id : Nat) : Option Bytes :=
  if h.extension then (h.extensions.find? (·.1 = id)).map (·.2) else none

/-- the bytes of the extension elements as `MarshalTo` writes them; `none` = `io.ErrShortBuffer`
(RFC 3550 payload that is not a whole number of words). -/
def extBody (h : Header) : Option Bytes :=
  if h.profile = profOneByte then
    some (h.extensions.flatMap fun e => (((e.1 * 16) % 256) ||| ((e.2.length + 255) % 256)) :: e.2)
  else if h.profile = profTwoByte then
    some (h.extensions.flatMap fun e => [e.1 % 256, e.2.length % 256] ++ e.2)
  else
    match h.extensions with
    | [] => some []
    | e :: _ => if e.2.length % 4 ≠ 0 then none else some e.2

/-- size of the element bytes as `MarshalSize` counts them (before rounding). -/
def extBodySize (h : Header) : Nat :=
  if h.profile = profOneByte then (h.extensions.map fun e => 1 + e.2.length).sum
  else if h.profile = profTwoByte then (h.extensions.map fun e => 2 + e.2.length).sum
  else match h.extensions with
    | [] => 0
    | e :: _ => e.2.length

/-- `Header.MarshalSize`. -/
def marshalSize (h : Header) : Nat :=
  12 + 4 * h.csrc.length + (if h.extension then (4 + extBodySize h + 3) / 4 * 4 else 0)

/-- `Header.Marshal`; `none` = error. -/
def marshal (h : Header) : Option Bytes :=
  let b0 := ((h.version * 64) % 256) ||| (h.csrc.length % 256) |||
    (if h.padding then 32 else 0) ||| (if h.extension then 16 else 0)
  let b1 := (h.pt % 256) ||| (if h.marker then 128 else 0)
  let fixed := [b0, b1] ++ be16 h.seq ++ be32 h.ts ++ be32 h.ssrc ++ h.csrc.flatMap be32
  if h.extension then
    match extBody h with
    | none => none
    | some body =>
      let rounded := (body.length + 3) / 4 * 4
      some (fixed ++ be16 h.profile ++ be16 ((rounded / 4) % 65536) ++ body
        ++ List.replicate (rounded - body.length) 0)
  else some fixed

/-- two headers agree on everything except the extension block (bit, profile, elements). -/
def sameButExtensions (a b : Header) : Prop :=
  a.version = b.version ∧ a.padding = b.padding ∧ a.marker = b.marker ∧ a.pt = b.pt ∧
  a.seq = b.seq ∧ a.ts = b.ts ∧ a.ssrc = b.ssrc ∧ a.csrc = b.csrc ∧ a.paddingSize = b.paddingSize

instance (a b : Header) : Decidable (sameButExtensions a b) := by
  unfold sameButExtensions; infer_instance

end Interceptor.Rtp

/-
The fragment of Go's semantics that the function translator (extract/fn.go) targets.
Every integer is a Lean `Int`; the fixed width of the Go type is made explicit by a wrap function
applied after every arithmetic operation.  (`int`/`uint` are 64 bit: GOARCH=amd64/arm64.)
-/
import Interceptor.Base.F64
namespace Interceptor.GoSem

def u8 (x : Int) : Int := x % 256
def u16 (x : Int) : Int := x % 65536
def u32 (x : Int) : Int := x % 4294967296
def u64 (x : Int) : Int := x % 18446744073709551616
def s8 (x : Int) : Int := (x + 128) % 256 - 128
def s16 (x : Int) : Int := (x + 32768) % 65536 - 32768
def s32 (x : Int) : Int := (x + 2147483648) % 4294967296 - 2147483648
def s64 (x : Int) : Int := (x + 9223372036854775808) % 18446744073709551616 - 9223372036854775808

/-- Go's `/` on signed integers truncates toward zero. -/
def quo (a b : Int) : Int := Int.tdiv a b
/-- Go's `%` on signed integers has the sign of the dividend. -/
def rem (a b : Int) : Int := Int.tmod a b

theorem quo_nonneg (a b : Int) (ha : 0 ≤ a) : quo a b = a / b := by
  unfold quo; exact Int.tdiv_eq_ediv_of_nonneg ha

theorem rem_nonneg (a b : Int) (ha : 0 ≤ a) : rem a b = a % b := by
  unfold rem; exact Int.tmod_eq_emod_of_nonneg ha

/-- `a << k` before the wrap of the result type (k ≥ 0; a negative count panics in Go). -/
def shl (a k : Int) : Int := a * 2 ^ k.toNat
/-- `a >> k`: arithmetic shift = floor division. -/
def shr (a k : Int) : Int := a / 2 ^ k.toNat

/-- bitwise operators on two's-complement integers of unbounded width (the wrap of the result type follows).
`negSucc n` is `-(n+1) = ~n`. -/
def band : Int → Int → Int
  | .ofNat m, .ofNat n => Int.ofNat (m &&& n)
  | .ofNat m, .negSucc n => Int.ofNat (m ^^^ (m &&& n))          -- m & ~n
  | .negSucc m, .ofNat n => Int.ofNat (n ^^^ (n &&& m))          -- ~m & n
  | .negSucc m, .negSucc n => .negSucc (m ||| n)                  -- ~m & ~n = ~(m | n)
def bor : Int → Int → Int
  | .ofNat m, .ofNat n => Int.ofNat (m ||| n)
  | .ofNat m, .negSucc n => .negSucc (n ^^^ (n &&& m))           -- m | ~n = ~(n & ~m)
  | .negSucc m, .ofNat n => .negSucc (m ^^^ (m &&& n))
  | .negSucc m, .negSucc n => .negSucc (m &&& n)                  -- ~m | ~n = ~(m & n)
def bxor : Int → Int → Int
  | .ofNat m, .ofNat n => Int.ofNat (m ^^^ n)
  | .ofNat m, .negSucc n => .negSucc (m ^^^ n)
  | .negSucc m, .ofNat n => .negSucc (m ^^^ n)
  | .negSucc m, .negSucc n => Int.ofNat (m ^^^ n)
def bnot (a : Int) : Int := -a - 1
def bandnot (a b : Int) : Int := band a (bnot b)

@[simp] theorem band_ofNat (m n : Nat) : band (m : Int) (n : Int) = ((m &&& n : Nat) : Int) := rfl
@[simp] theorem bor_ofNat (m n : Nat) : bor (m : Int) (n : Int) = ((m ||| n : Nat) : Int) := rfl
@[simp] theorem bxor_ofNat (m n : Nat) : bxor (m : Int) (n : Int) = ((m ^^^ n : Nat) : Int) := rfl

/-- slices of integers -/
def len (l : List Int) : Int := l.length
def idx (l : List Int) (i : Int) : Int := if i < 0 then 0 else l.getD i.toNat 0
def set (l : List Int) (i v : Int) : List Int := if i < 0 then l else l.set i.toNat v
def take (l : List Int) (n : Int) : List Int := l.take n.toNat
def drop (l : List Int) (n : Int) : List Int := l.drop n.toNat
def mkSlice (n : Int) : List Int := List.replicate n.toNat 0

/-- slices of any other supported element type -/
def lenG {α : Type} (l : List α) : Int := l.length
def idxG {α : Type} [Inhabited α] (l : List α) (i : Int) : α := if i < 0 then default else l.getD i.toNat default
def setG {α : Type} (l : List α) (i : Int) (v : α) : List α := if i < 0 then l else l.set i.toNat v
def takeG {α : Type} (l : List α) (n : Int) : List α := l.take n.toNat
def dropG {α : Type} (l : List α) (n : Int) : List α := l.drop n.toNat
def mkSliceG {α : Type} [Inhabited α] (n : Int) : List α := List.replicate n.toNat default

/-- maps with integer keys: association lists (a key occurs at most once; `mapSet` keeps that). A nil map and an
empty map are identified; iteration order is never observed (the translator only accepts the order-independent
`for k := range m { if c { delete(m, k) } }`). -/
def mapLen {α : Type} (m : List (Int × α)) : Int := m.length
def mapHas {α : Type} (m : List (Int × α)) (k : Int) : Bool := m.any (fun e => e.1 == k)
def mapGet {α : Type} [Inhabited α] (m : List (Int × α)) (k : Int) : α :=
  match m.find? (fun e => e.1 == k) with
  | some e => e.2
  | none => default
def mapDel {α : Type} (m : List (Int × α)) (k : Int) : List (Int × α) := m.filter (fun e => e.1 != k)
def mapSet {α : Type} (m : List (Int × α)) (k : Int) (v : α) : List (Int × α) := (k, v) :: mapDel m k
def mapFilter {α : Type} (keep : Int → Bool) (m : List (Int × α)) : List (Int × α) := m.filter (fun e => keep e.1)

/-- the zero `time.Time` (January 1, year 1 UTC) in nanoseconds relative to the Unix epoch; it does not fit an
int64, which is why `t.Sub(zero)` saturates for every real instant. -/
def zeroTime : Int := -62135596800000000000

/-- `for cond { body }` with fuel: `none` when the fuel does not suffice. -/
def loop {σ : Type} : Nat → (σ → Bool) → (σ → σ) → σ → Option σ
  | 0, _, _, _ => none
  | n + 1, cond, body, s => if cond s then loop n cond body (body s) else some s

/-- time.Time as int64 nanoseconds since the Unix epoch (the monotonic reading is not modelled);
`t.Sub(u)` saturates at ±2^63 as in Go. -/
def timeSub (a b : Int) : Int :=
  let d := a - b
  if d > 9223372036854775807 then 9223372036854775807
  else if d < -9223372036854775808 then -9223372036854775808 else d
def timeAdd (a d : Int) : Int := a + d

/-- `Duration.Seconds()`: `float64(d/Second) + float64(d%Second)/1e9`. -/
def durSeconds (d : Int) : Rat :=
  F64.add (F64.ofInt (quo d 1000000000)) (F64.div (F64.ofInt (rem d 1000000000)) 1000000000)

end Interceptor.GoSem

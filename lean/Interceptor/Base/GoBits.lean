/-
Bit-mask lemmas for the translated Go code: masks of the form 2^n − 2^k select a bit field.
-/
import Interceptor.Base.GoSem
namespace Interceptor.GoSem

theorem mask_eq (n k : Nat) (h : k ≤ n) : 2 ^ n - 2 ^ k = (2 ^ (n - k) - 1) * 2 ^ k := by
  have : 2 ^ n = 2 ^ (n - k) * 2 ^ k := by rw [← Nat.pow_add]; congr 1; omega
  rw [this, Nat.sub_mul, Nat.one_mul]

/-- `x & (2^n − 2^k)` keeps bits k..n−1. -/
theorem and_mask (x n k : Nat) (h : k ≤ n) : x &&& (2 ^ n - 2 ^ k) = (x % 2 ^ n) / 2 ^ k * 2 ^ k := by
  rw [mask_eq n k h]
  apply Nat.eq_of_testBit_eq
  intro j
  simp only [Nat.testBit_and, Nat.testBit_mul_two_pow, Nat.testBit_two_pow_sub_one, Nat.testBit_div_two_pow,
    Nat.testBit_mod_two_pow]
  by_cases h1 : k ≤ j
  · by_cases h2 : j < n
    · have : j - k < n - k := by omega
      simp [h1, h2, this]
    · have : ¬ (j - k < n - k) := by omega
      simp [h1, h2, this]
  · simp [h1]

/-- disjoint fields: `a·2^k | b = a·2^k + b` for `b < 2^k`. -/
theorem or_field (a b k : Nat) (hb : b < 2 ^ k) : a * 2 ^ k ||| b = a * 2 ^ k + b := by
  have := Nat.two_pow_add_eq_or_of_lt (i := k) (b := b) hb a
  rw [Nat.mul_comm] at this
  omega

end Interceptor.GoSem

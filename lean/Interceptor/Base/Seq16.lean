/-
Seq16: 16-bit sequence-number arithmetic as `Nat` with explicit `% 65536`,
written so that `omega` decides the goals.  `sub16 a b` is Go's `a - b` on uint16.
-/
namespace Interceptor

abbrev M16 : Nat := 65536
abbrev H16 : Nat := 32768

/-- Go `uint16(a - b)` for `a b < 65536`. -/
def sub16 (a b : Nat) : Nat := (a + 65536 - b % 65536) % 65536

/-- Go `uint16(a + b)`. -/
def add16 (a b : Nat) : Nat := (a + b) % 65536

theorem sub16_lt (a b : Nat) : sub16 a b < 65536 := by unfold sub16; omega
theorem add16_lt (a b : Nat) : add16 a b < 65536 := by unfold add16; omega

theorem sub16_self (a : Nat) (h : a < 65536) : sub16 a a = 0 := by unfold sub16; omega

theorem add16_sub16 (a b : Nat) (ha : a < 65536) (hb : b < 65536) :
    add16 b (sub16 a b) = a := by unfold add16 sub16; omega

end Interceptor

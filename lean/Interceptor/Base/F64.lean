/-
F64: an exact model of IEEE-754 binary64 arithmetic with round-to-nearest-even, over core
`Rat`.  A float value is a `Rat` on the binary64 grid; every operation is the exact rational
operation followed by `rne`.  Not modelled: NaN, ±Inf, signed zero, overflow (values here are
far below 2^1024), transcendental functions.  Validated bit-for-bit against the hardware by
the `f64` / `ntp` correspondence streams.
-/
namespace Interceptor.F64

/-- `2^e` as a rational, `e : Int`. -/
def pow2 (e : Int) : Rat :=
  if e ≥ 0 then (2 : Rat) ^ e.toNat else 1 / (2 : Rat) ^ (-e).toNat

/-- `⌊log2 a⌋` for `a > 0`. -/
def ilog2 (a : Rat) : Int :=
  let e0 : Int := (Nat.log2 a.num.toNat : Int) - (Nat.log2 a.den : Int)
  if a < pow2 e0 then e0 - 1 else if pow2 (e0 + 1) ≤ a then e0 + 1 else e0

/-- nearest integer, ties to even. -/
def roundEven (m : Rat) : Int :=
  let f := m.floor
  let r := m - (f : Rat)
  if r < 1 / 2 then f else if 1 / 2 < r then f + 1 else if f % 2 = 0 then f else f + 1

/-- unit in the last place of the binade containing `a > 0` (subnormals: fixed 2^-1074). -/
def ulp (a : Rat) : Rat :=
  let e := ilog2 a
  pow2 ((if e < -1022 then -1022 else e) - 52)

/-- round a rational to the nearest binary64 value, ties to even. -/
def rne (q : Rat) : Rat :=
  if q = 0 then 0 else
  let a := if q < 0 then -q else q
  let u := ulp a
  let v := (roundEven (a / u) : Rat) * u
  if q < 0 then -v else v

def ofInt (n : Int) : Rat := rne (n : Rat)
def add (a b : Rat) : Rat := rne (a + b)
def sub (a b : Rat) : Rat := rne (a - b)
def mul (a b : Rat) : Rat := rne (a * b)
def div (a b : Rat) : Rat := rne (a / b)   -- callers guard b ≠ 0

/-- truncation toward zero. -/
def trunc (q : Rat) : Int := if q < 0 then -((-q).floor) else q.floor

/-- Go/amd64 `int64(f)`: CVTTSD2SQ — truncation, "integer indefinite" −2^63 when out of range. -/
def toInt64 (q : Rat) : Int :=
  let t := trunc q
  if t < -9223372036854775808 ∨ 9223372036854775807 < t then -9223372036854775808 else t

/-- Go/amd64 `uint32(f)`: convert to int64, keep the low 32 bits. -/
def toUint32 (q : Rat) : Nat := (toInt64 q % 4294967296).toNat
def toUint16 (q : Rat) : Nat := (toInt64 q % 65536).toNat
def toUint8 (q : Rat) : Nat := (toInt64 q % 256).toNat

/-- the IEEE bit pattern of a grid value (for correspondence output only). -/
def bits (q : Rat) : Nat :=
  if q = 0 then 0 else
  let a := if q < 0 then -q else q
  let e := ilog2 a
  let s : Nat := if q < 0 then 2 ^ 63 else 0
  if e < -1022 then
    s + (a / pow2 (-1074)).floor.toNat
  else
    let m := (a / pow2 (e - 52)).floor.toNat   -- in [2^52, 2^53)
    s + (e + 1023).toNat * 2 ^ 52 + (m - 2 ^ 52)

end Interceptor.F64

/-
The heap-level PriorityQueue (`Model/JitterBuffer.lean`, pointers as `Option Nat` into an array
of nodes) refines the list-level queue: `HRep q l` says that the nodes reachable from `q.head`
form an acyclic chain whose entries are `l`, that the cached `length` is the number of reachable
nodes (mod 2^16) and that every reachable node carries a packet.  Every operation preserves
`HRep` and acts on `l` as the list operation; in particular no traversal runs out of fuel.
Helper lemmas for Props/C02Queue.lean and Props/C18.lean.
-/
import Interceptor.Spec.JitterBuffer
set_option linter.unusedVariables false
set_option linter.unusedSimpArgs false
namespace Interceptor.JitterBuffer
open PQ

/-- the `next` pointer of node `i` (`none` if `i` is not allocated). -/
def nx (ns : Array Node) (i : Nat) : Option (Option Nat) := (ns[i]?).map (·.next)
/-- priority and packet of node `i`. -/
def pv (ns : Array Node) (i : Nat) : Option (Nat × Option Pkt) := (ns[i]?).map (fun n => (n.prio, n.val))

/-- `Seg ns s l e`: following `next` from pointer `s` visits exactly the nodes `l` and arrives at `e`. -/
def Seg (ns : Array Node) : Option Nat → List Nat → Option Nat → Prop
  | s, [], e => s = e
  | s, i :: l, e => s = some i ∧ ∃ t, nx ns i = some t ∧ Seg ns t l e

def entryAt (ns : Array Node) (i : Nat) : Entry :=
  match pv ns i with
  | some (pr, some p) => (pr, p)
  | _ => default

def Full (ns : Array Node) (is : List Nat) : Prop := ∀ i ∈ is, ∃ pr p, pv ns i = some (pr, some p)

/-- the representation invariant (WF) together with the abstraction. -/
def HRep (q : PQ) (l : List Entry) : Prop :=
  ∃ is : List Nat, Seg q.nodes q.head is none ∧ is.Nodup ∧ Full q.nodes is ∧
    l = is.map (entryAt q.nodes) ∧ q.length = is.length % 65536 ∧ is.length ≤ q.nodes.size

/-! ### basic facts -/

theorem nx_get {ns : Array Node} {i : Nat} {n : Node} (h : ns[i]? = some n) : nx ns i = some n.next := by
  simp [nx, h]

theorem get_of_nx {ns : Array Node} {i : Nat} {t : Option Nat} (h : nx ns i = some t) :
    ∃ n, ns[i]? = some n ∧ n.next = t := by
  unfold nx at h
  cases hn : ns[i]? with
  | none => simp [hn] at h
  | some n => simp [hn] at h; exact ⟨n, rfl, h⟩

theorem pv_get {ns : Array Node} {i : Nat} {n : Node} (h : ns[i]? = some n) : pv ns i = some (n.prio, n.val) := by
  simp [pv, h]

theorem seg_congr {ns ns' : Array Node} : ∀ {l : List Nat} {s e : Option Nat},
    (∀ i ∈ l, nx ns' i = nx ns i) → Seg ns s l e → Seg ns' s l e
  | [], _, _, _, h => h
  | i :: l, s, e, hc, ⟨hs, t, ht, hseg⟩ =>
    ⟨hs, t, by rw [hc i (List.mem_cons_self)]; exact ht,
      seg_congr (fun j hj => hc j (List.mem_cons_of_mem _ hj)) hseg⟩

theorem seg_append {ns : Array Node} : ∀ {l1 l2 : List Nat} {s e : Option Nat},
    Seg ns s (l1 ++ l2) e ↔ ∃ m, Seg ns s l1 m ∧ Seg ns m l2 e
  | [], l2, s, e => by
    constructor
    · intro h; exact ⟨s, rfl, h⟩
    · rintro ⟨m, h1, h2⟩; cases h1; exact h2
  | i :: l1, l2, s, e => by
    constructor
    · rintro ⟨hs, t, ht, h⟩
      obtain ⟨m, h1, h2⟩ := seg_append.mp h
      exact ⟨m, ⟨hs, t, ht, h1⟩, h2⟩
    · rintro ⟨m, ⟨hs, t, ht, h1⟩, h2⟩
      exact ⟨hs, t, ht, seg_append.mpr ⟨m, h1, h2⟩⟩

theorem entry_congr {ns ns' : Array Node} {i : Nat} (h : pv ns' i = pv ns i) : entryAt ns' i = entryAt ns i := by
  unfold entryAt; rw [h]

theorem map_entry_congr {ns ns' : Array Node} {l : List Nat} (h : ∀ i ∈ l, pv ns' i = pv ns i) :
    l.map (entryAt ns') = l.map (entryAt ns) :=
  List.map_congr_left (fun i hi => entry_congr (h i hi))

theorem full_congr {ns ns' : Array Node} {l : List Nat} (h : ∀ i ∈ l, pv ns' i = pv ns i) (hf : Full ns l) :
    Full ns' l := fun i hi => by rw [h i hi]; exact hf i hi

theorem nx_modify (ns : Array Node) (j i : Nat) (f : Node → Node) :
    nx (ns.modify j f) i = if j = i then (ns[i]?).map (fun n => (f n).next) else nx ns i := by
  unfold nx
  rw [Array.getElem?_modify]
  split
  · simp [Option.map_map, Function.comp_def]
  · rfl

theorem pv_modify (ns : Array Node) (j i : Nat) (f : Node → Node) :
    pv (ns.modify j f) i = if j = i then (ns[i]?).map (fun n => ((f n).prio, (f n).val)) else pv ns i := by
  unfold pv
  rw [Array.getElem?_modify]
  split
  · simp [Option.map_map, Function.comp_def]
  · rfl

/-- a modification that keeps `next`. -/
theorem nx_modify_keep (ns : Array Node) (j i : Nat) (f : Node → Node) (hf : ∀ n, (f n).next = n.next) :
    nx (ns.modify j f) i = nx ns i := by
  rw [nx_modify]; split
  · simp [nx, hf]
  · rfl

/-- a modification that keeps priority and packet. -/
theorem pv_modify_keep (ns : Array Node) (j i : Nat) (f : Node → Node)
    (hf : ∀ n, (f n).prio = n.prio ∧ (f n).val = n.val) : pv (ns.modify j f) i = pv ns i := by
  rw [pv_modify]; split
  · simp [pv, hf]
  · rfl

theorem nx_push (ns : Array Node) (n : Node) (i : Nat) :
    nx (ns.push n) i = if i = ns.size then some n.next else nx ns i := by
  unfold nx; rw [Array.getElem?_push]; split <;> rfl

theorem pv_push (ns : Array Node) (n : Node) (i : Nat) :
    pv (ns.push n) i = if i = ns.size then some (n.prio, n.val) else pv ns i := by
  unfold pv; rw [Array.getElem?_push]; split <;> rfl

theorem seg_lt {ns : Array Node} : ∀ {l : List Nat} {s e : Option Nat}, Seg ns s l e → ∀ i ∈ l, i < ns.size
  | [], _, _, _, i, hi => by cases hi
  | j :: l, s, e, ⟨hs, t, ht, hseg⟩, i, hi => by
    rcases List.mem_cons.mp hi with rfl | hi
    · obtain ⟨n, hn, _⟩ := get_of_nx ht
      exact (Array.getElem?_eq_some_iff.mp hn).1
    · exact seg_lt hseg i hi

theorem entryAt_get {ns : Array Node} {i : Nat} {n : Node} {p : Pkt} (h : ns[i]? = some n) (hv : n.val = some p) :
    entryAt ns i = (n.prio, p) := by
  simp [entryAt, pv_get h, hv]

theorem full_get {ns : Array Node} {i : Nat} {n : Node} (hf : ∃ pr p, pv ns i = some (pr, some p)) (h : ns[i]? = some n) :
    ∃ p, n.val = some p := by
  obtain ⟨pr, p, hp⟩ := hf
  rw [pv_get h] at hp
  injection hp with hp
  injection hp with _ hp
  exact ⟨p, hp⟩

/-! ### Find -/

theorem findL_cons (e : Entry) (l : List Entry) (sq : Nat) :
    findL (e :: l) sq = if e.1 = sq then .ok (some e.2) else findL l sq := by
  unfold findL
  rw [List.find?_cons]
  by_cases h : e.1 = sq
  · simp [h]
  · have : (e.1 == sq) = false := by simpa using h
    simp [h, this]

theorem findLoop_none (ns : Array Node) (sq f : Nat) : findLoop ns sq f none = .err "notfound" := by
  cases f <;> rfl

theorem findLoop_spec (ns : Array Node) (sq : Nat) : ∀ (is : List Nat) (s : Option Nat) (f : Nat),
    Seg ns s is none → Full ns is → is.length ≤ f →
    findLoop ns sq f s = findL (is.map (entryAt ns)) sq
  | [], s, f, hs, _, _ => by
    cases hs; rw [findLoop_none]; rfl
  | i :: is, s, f, ⟨hs, t, ht, hseg⟩, hfull, hlen => by
    subst hs
    obtain ⟨n, hn, hnt⟩ := get_of_nx ht
    obtain ⟨p, hp⟩ := full_get (hfull i List.mem_cons_self) hn
    cases f with
    | zero => simp at hlen
    | succ f =>
      rw [List.map_cons, findL_cons, entryAt_get hn hp]
      simp only [findLoop, hn]
      by_cases hpr : n.prio = sq
      · simp [hpr, hp]
      · simp only [hpr, if_false]
        rw [hnt]
        exact findLoop_spec ns sq is t f hseg (fun j hj => hfull j (List.mem_cons_of_mem _ hj))
          (by simp at hlen; omega)

theorem heap_find {q : PQ} {l : List Entry} (h : HRep q l) (sq : Nat) : q.find sq = findL l sq := by
  obtain ⟨is, hseg, _, hfull, hl, _, hlen⟩ := h
  subst hl
  exact findLoop_spec q.nodes sq is q.head _ hseg hfull (by unfold fuel; omega)


/-! ### Clear -/

theorem clearLoop_ok : ∀ (is : List Nat) (ns : Array Node) (s : Option Nat) (f : Nat),
    Seg ns s is none → is.length ≤ f → ∃ ns', clearLoop ns f s = .ok ns'
  | [], ns, s, f, hs, _ => by
    cases hs; exact ⟨ns, by cases f <;> rfl⟩
  | i :: is, ns, s, f, ⟨hs, t, ht, hseg⟩, hlen => by
    subst hs
    obtain ⟨n, hn, hnt⟩ := get_of_nx ht
    cases f with
    | zero => simp at hlen
    | succ f =>
      simp only [clearLoop, hn]
      rw [hnt]
      exact clearLoop_ok is _ t f
        (seg_congr (fun j _ => nx_modify_keep ns i j _ (fun _ => rfl)) hseg) (by simp at hlen; omega)

theorem heap_clear {q : PQ} {l : List Entry} (h : HRep q l) : ∃ q', q.clear = .ok q' ∧ HRep q' [] := by
  obtain ⟨is, hseg, _, _, _, _, hlen⟩ := h
  obtain ⟨ns', hc⟩ := clearLoop_ok is q.nodes q.head (fuel q.nodes) hseg (by unfold fuel; omega)
  refine ⟨{ nodes := ns', head := none, length := 0 }, by simp [PQ.clear, hc], ?_⟩
  exact ⟨[], rfl, List.nodup_nil, (fun i hi => by cases hi), rfl, rfl, Nat.zero_le _⟩

/-! ### PopAt / PopAtTimestamp -/

/-- list-level: remove the first entry satisfying `pred` (no emptiness check). -/
def popRest (pred : Entry → Bool) : List Entry → Option (Pkt × List Entry)
  | [] => none
  | e :: l => if pred e then some (e.2, l) else (popRest pred l).map (fun r => (r.1, e :: r.2))

theorem popRest_eq (pred : Entry → Bool) : ∀ l : List Entry,
    popRest pred l = (l.find? pred).map (fun e => (e.2, l.eraseP pred))
  | [] => rfl
  | e :: l => by
    unfold popRest
    rw [List.find?_cons, List.eraseP_cons]
    cases hp : pred e
    · simp only [Bool.false_eq_true, if_false, cond_false]
      rw [popRest_eq pred l]
      cases l.find? pred <;> rfl
    · simp

theorem popByL_cons (e : Entry) (l : List Entry) (pred : Entry → Bool) :
    popByL (e :: l) pred = match popRest pred (e :: l) with
      | some (p, l') => .ok (some p, l')
      | none => .err "notfound" := by
  rw [popRest_eq]
  unfold popByL
  cases (e :: l).find? pred <;> rfl

theorem popLoop_none (ns : Array Node) (pred : Node → Res Bool) (f : Nat) (prev : Option Nat) :
    popLoop ns pred f none prev = .err "notfound" := by
  cases f <;> rfl

theorem popLoop_spec (ns : Array Node) (pred : Node → Res Bool) (lp : Entry → Bool)
    (hpred : ∀ n p, n.val = some p → pred n = .ok (lp (n.prio, p))) (s0 : Option Nat) :
    ∀ (rest pre : List Nat) (p : Nat) (cur : Option Nat) (f : Nat),
      Seg ns s0 (pre ++ [p]) cur → Seg ns cur rest none → (pre ++ p :: rest).Nodup → Full ns rest →
      rest.length ≤ f →
      (popRest lp (rest.map (entryAt ns)) = none → popLoop ns pred f cur (some p) = .err "notfound") ∧
      (∀ pk l', popRest lp (rest.map (entryAt ns)) = some (pk, l') →
        ∃ ns' rest', popLoop ns pred f cur (some p) = .ok (some pk, ns') ∧
          Seg ns' s0 (pre ++ p :: rest') none ∧ (∀ i ∈ pre ++ p :: rest', pv ns' i = pv ns i) ∧
          rest'.map (entryAt ns) = l' ∧ rest'.Sublist rest ∧ rest'.length + 1 = rest.length ∧
          ns'.size = ns.size)
  | [], pre, p, cur, f, _, hcur, _, _, _ => by
    cases hcur
    exact ⟨fun _ => popLoop_none _ _ _ _, fun pk l' h => by simp [popRest] at h⟩
  | i :: rest, pre, p, cur, f, hpre, ⟨hc, t, ht, hseg⟩, hnd, hfull, hlen => by
    subst hc
    obtain ⟨n, hn, hnt⟩ := get_of_nx ht
    obtain ⟨pk_i, hpk⟩ := full_get (hfull i List.mem_cons_self) hn
    have hfull' : Full ns rest := fun j hj => hfull j (List.mem_cons_of_mem _ hj)
    cases f with
    | zero => simp at hlen
    | succ f =>
      have hlen' : rest.length ≤ f := by simp at hlen; omega
      rw [List.map_cons, entryAt_get hn hpk]
      simp only [popRest]
      simp only [popLoop, hn, hpred n pk_i hpk]
      cases hlp : lp (n.prio, pk_i)
      · -- not this node: continue with prev := i
        simp only [Bool.false_eq_true, if_false]
        have hpre' : Seg ns s0 ((pre ++ [p]) ++ [i]) t :=
          seg_append.mpr ⟨some i, hpre, rfl, t, ht, rfl⟩
        have hnd' : ((pre ++ [p]) ++ i :: rest).Nodup := by simpa [List.append_assoc] using hnd
        rw [hnt]
        obtain ⟨ih1, ih2⟩ := popLoop_spec ns pred lp hpred s0 rest (pre ++ [p]) i t f hpre' hseg hnd' hfull' hlen'
        refine ⟨?_, ?_⟩
        · intro h
          apply ih1
          cases hr : popRest lp (rest.map (entryAt ns)) with
          | none => rfl
          | some r => rw [hr] at h; simp at h
        · intro pk l' h
          cases hr : popRest lp (rest.map (entryAt ns)) with
          | none => rw [hr] at h; simp at h
          | some r =>
            rw [hr] at h
            simp only [Option.map_some, Option.some.injEq, Prod.mk.injEq] at h
            obtain ⟨h1, h2⟩ := h
            obtain ⟨ns', rest', hpl, hseg', hpv', hmap, hsub, hlen2, hsz⟩ := ih2 r.1 r.2 (by rw [hr])
            refine ⟨ns', i :: rest', by rw [hpl, h1], ?_, ?_, ?_, ?_, ?_, hsz⟩
            · simpa [List.append_assoc] using hseg'
            · intro j hj; exact hpv' j (by simpa [List.append_assoc] using hj)
            · rw [List.map_cons, entryAt_get hn hpk, hmap, ← h2]
            · exact List.Sublist.cons_cons _ hsub
            · simp; omega
      · -- found: unlink node i after p
        simp only [if_true]
        refine ⟨fun h => by simp at h, ?_⟩
        intro pk l' h
        simp only [Option.some.injEq, Prod.mk.injEq] at h
        obtain ⟨h1, h2⟩ := h
        obtain ⟨m, hsp, hm1, tp, htp, hm2⟩ := seg_append.mp hpre
        cases hm2
        subst hm1
        have hnd1 := List.nodup_append.mp hnd
        have hp_pre : p ∉ pre := fun hmem => hnd1.2.2 p hmem p List.mem_cons_self rfl
        have hi_pre : i ∉ pre := fun hmem => hnd1.2.2 i hmem i (List.mem_cons_of_mem _ List.mem_cons_self) rfl
        have hnd2 := List.nodup_cons.mp hnd1.2.1
        have hpi : p ≠ i := fun h => hnd2.1 (h ▸ List.mem_cons_self)
        have hp_rest : p ∉ rest := fun hmem => hnd2.1 (List.mem_cons_of_mem _ hmem)
        have hi_rest : i ∉ rest := (List.nodup_cons.mp hnd2.2).1
        obtain ⟨pn, hpn, _⟩ := get_of_nx htp
        -- the three modifications
        let ns1 := ns.modify i (fun x => { x with val := none })
        let ns2 := ns1.modify p (fun x => { x with next := n.next })
        let ns3 := match n.next with
          | none => ns2
          | some nx => ns2.modify nx (fun x => { x with prev := some p })
        have hnx3 : ∀ j, nx ns3 j = nx ns2 j := by
          intro j; show nx (match n.next with | none => ns2 | some nx => ns2.modify nx _) j = _
          cases n.next with
          | none => rfl
          | some k => exact nx_modify_keep _ _ _ _ (fun _ => rfl)
        have hpv3 : ∀ j, pv ns3 j = pv ns2 j := by
          intro j; show pv (match n.next with | none => ns2 | some nx => ns2.modify nx _) j = _
          cases n.next with
          | none => rfl
          | some k => exact pv_modify_keep _ _ _ _ (fun _ => ⟨rfl, rfl⟩)
        have hsz3 : ns3.size = ns.size := by
          show (match n.next with | none => ns2 | some nx => ns2.modify nx _).size = _
          cases n.next <;> simp [ns2, ns1]
        have hnx1 : ∀ j, nx ns1 j = nx ns j := fun j => nx_modify_keep _ _ _ _ (fun _ => rfl)
        have hnx2 : ∀ j, j ≠ p → nx ns2 j = nx ns j := by
          intro j hj
          rw [show nx ns2 j = nx (ns1.modify p _) j from rfl, nx_modify, if_neg (Ne.symm hj)]
          exact hnx1 j
        have hnx2p : nx ns2 p = some t := by
          rw [show nx ns2 p = nx (ns1.modify p _) p from rfl, nx_modify, if_pos rfl]
          have : ns1[p]? = some pn := by
            show (ns.modify i _)[p]? = _
            rw [Array.getElem?_modify, if_neg (Ne.symm hpi), hpn]
          simp [this, hnt]
        have hpv2 : ∀ j, j ≠ i → pv ns2 j = pv ns j := by
          intro j hj
          have e1 : pv ns2 j = pv ns1 j := pv_modify_keep ns1 p j _ (fun _ => ⟨rfl, rfl⟩)
          have e2 : pv ns1 j = pv ns j := by
            show pv (ns.modify i _) j = _
            rw [pv_modify, if_neg (Ne.symm hj)]
          exact e1.trans e2
        refine ⟨ns3, rest, ?_, ?_, ?_, h2, List.Sublist.cons _ (List.Sublist.refl _), by simp, hsz3⟩
        · subst h1; rw [hpk]; rfl
        · apply seg_append.mpr
          refine ⟨some p, seg_congr (fun j hj => ?_) hsp, rfl, t, ?_, seg_congr (fun j hj => ?_) hseg⟩
          · rw [hnx3, hnx2 j (fun h => hp_pre (h ▸ hj))]
          · rw [hnx3, hnx2p]
          · rw [hnx3, hnx2 j (fun h => hp_rest (h ▸ hj))]
        · intro j hj
          have hji : j ≠ i := by
            intro h; subst h
            rcases List.mem_append.mp hj with h | h
            · exact hi_pre h
            · rcases List.mem_cons.mp h with h | h
              · exact hpi h.symm
              · exact hi_rest h
          rw [hpv3, hpv2 j hji]


theorem dec16_len (k : Nat) : dec16 ((k + 1) % 65536) = k % 65536 := by unfold dec16; omega
theorem inc16_len (k : Nat) : inc16 (k % 65536) = (k + 1) % 65536 := by unfold inc16; omega

/-- removing the head node. -/
theorem heap_drop_head {q : PQ} {h : Nat} {rest : List Nat} {hn : Node}
    (hseg : Seg q.nodes q.head (h :: rest) none) (hnd : (h :: rest).Nodup) (hfull : Full q.nodes (h :: rest))
    (hlen : q.length = (h :: rest).length % 65536) (hsz : (h :: rest).length ≤ q.nodes.size)
    (hhn : q.nodes[h]? = some hn) :
    HRep { nodes := q.nodes.modify h (fun x => { x with val := none }), head := hn.next, length := dec16 q.length }
      (rest.map (entryAt q.nodes)) := by
  obtain ⟨_, t, ht, hseg'⟩ := hseg
  have hnt : hn.next = t := by
    obtain ⟨n', hn', hnt'⟩ := get_of_nx ht
    rw [hhn] at hn'; injection hn' with hn'; subst hn'; exact hnt'
  have hh : h ∉ rest := (List.nodup_cons.mp hnd).1
  have hpv : ∀ j ∈ rest, pv (q.nodes.modify h (fun x => { x with val := none })) j = pv q.nodes j := by
    intro j hj
    rw [pv_modify, if_neg (fun (e : h = j) => hh (e ▸ hj))]
  refine ⟨rest, ?_, (List.nodup_cons.mp hnd).2, full_congr hpv (fun j hj => hfull j (List.mem_cons_of_mem _ hj)),
    (map_entry_congr hpv).symm, ?_, ?_⟩
  · rw [hnt]
    exact seg_congr (fun j _ => nx_modify_keep _ _ _ _ (fun _ => rfl)) hseg'
  · show dec16 q.length = _
    rw [hlen, List.length_cons, dec16_len]
  · simp only [Array.size_modify]; simp at hsz; omega

theorem heap_popBy {q : PQ} {l : List Entry} (h : HRep q l) (pred : Node → Res Bool) (lp : Entry → Bool)
    (hpred : ∀ n p, n.val = some p → pred n = .ok (lp (n.prio, p))) :
    PopRel HRep (q.popBy pred) (popByL l lp) := by
  obtain ⟨is, hseg, hnd, hfull, hl, hlen, hsz⟩ := h
  subst hl
  cases is with
  | nil =>
    have : q.head = none := hseg
    simp [popBy, this, popByL, PopRel]
  | cons hd rest =>
    have hseg0 := hseg
    obtain ⟨hh, t, ht, hseg'⟩ := hseg
    obtain ⟨hn, hhn, hnt⟩ := get_of_nx ht
    obtain ⟨pk, hpk⟩ := full_get (hfull hd List.mem_cons_self) hhn
    have hfull' : Full q.nodes rest := fun j hj => hfull j (List.mem_cons_of_mem _ hj)
    rw [List.map_cons, popByL_cons, entryAt_get hhn hpk]
    simp only [popBy, hh, hhn, hpred hn pk hpk, popRest]
    cases hlp : lp (hn.prio, pk)
    · -- the head does not match: walk the list
      simp only [Bool.false_eq_true, if_false]
      have hstep : popLoop q.nodes pred (fuel q.nodes) (some hd) hn.prev
          = popLoop q.nodes pred q.nodes.size hn.next (some hd) := by
        simp only [fuel, popLoop, hhn, hpred hn pk hpk, hlp]
      rw [hstep, hnt]
      have hrl : rest.length ≤ q.nodes.size := by simp at hsz; omega
      obtain ⟨s1, s2⟩ := popLoop_spec q.nodes pred lp hpred (some hd) rest [] hd t q.nodes.size
        ⟨rfl, t, ht, rfl⟩ hseg' hnd hfull' hrl
      cases hr : popRest lp (rest.map (entryAt q.nodes)) with
      | none =>
        rw [s1 hr]
        simp [PopRel]
      | some r =>
        obtain ⟨ns', rest', hpl, hsg, hpv, hmap, hsub, hl2, hsz2⟩ := s2 r.1 r.2 (by rw [hr])
        rw [hpl]
        simp only [Option.map_some, PopRel]
        refine ⟨(by first | rfl | trivial), hd :: rest', by simpa [hh] using hsg, ?_, ?_, ?_, ?_, ?_⟩
        · exact List.Nodup.sublist (List.Sublist.cons_cons _ hsub) hnd
        · exact full_congr (by simpa using hpv) (fun j hj => hfull j ((List.Sublist.cons_cons _ hsub).subset hj))
        · rw [map_entry_congr (by simpa using hpv), List.map_cons, entryAt_get hhn hpk, hmap]
        · show dec16 q.length = _
          rw [hlen, List.length_cons, List.length_cons, ← hl2, dec16_len]
        · simp only [List.length_cons, hsz2] at hsz ⊢; omega
    · -- the head matches
      simp only [if_true, PopRel]
      exact ⟨by rw [hpk], heap_drop_head hseg0 hnd hfull hlen hsz hhn⟩

theorem heap_popAt {q : PQ} {l : List Entry} (h : HRep q l) (sq : Nat) :
    PopRel HRep (q.popAt sq) (popByL l (fun e => e.1 == sq)) :=
  heap_popBy h (predSeq sq) _ (fun n p _ => rfl)

theorem heap_popAtTs {q : PQ} {l : List Entry} (h : HRep q l) (ts : Nat) :
    PopRel HRep (q.popAtTs ts) (popByL l (fun e => e.2.ts == ts)) :=
  heap_popBy h (predTs ts) _ (fun n p hv => by simp [predTs, hv])

theorem heap_pop {q : PQ} {l : List Entry} (h : HRep q l) : PopRel HRep q.pop (popL l) := by
  obtain ⟨is, hseg, hnd, hfull, hl, hlen, hsz⟩ := h
  subst hl
  cases is with
  | nil =>
    have : q.head = none := hseg
    simp [PQ.pop, this, popL, PopRel]
  | cons hd rest =>
    have hseg0 := hseg
    obtain ⟨hh, t, ht, hseg'⟩ := hseg
    obtain ⟨hn, hhn, hnt⟩ := get_of_nx ht
    obtain ⟨pk, hpk⟩ := full_get (hfull hd List.mem_cons_self) hhn
    simp only [PQ.pop, hh, hhn, List.map_cons, popL, PopRel, entryAt_get hhn hpk]
    exact ⟨by rw [hpk], heap_drop_head hseg0 hnd hfull hlen hsz hhn⟩


/-! ### Push -/

theorem nx_modify_ne {ns : Array Node} {j i : Nat} (f : Node → Node) (h : j ≠ i) :
    nx (ns.modify j f) i = nx ns i := by rw [nx_modify, if_neg h]

theorem nx_modify_eq {ns : Array Node} {i : Nat} {n : Node} (f : Node → Node) (h : ns[i]? = some n) :
    nx (ns.modify i f) i = some (f n).next := by rw [nx_modify, if_pos rfl, h]; rfl

theorem pv_modify_ne {ns : Array Node} {j i : Nat} (f : Node → Node) (h : j ≠ i) :
    pv (ns.modify j f) i = pv ns i := by rw [pv_modify, if_neg h]

theorem get_modify_ne {ns : Array Node} {j i : Nat} (f : Node → Node) (h : j ≠ i) :
    (ns.modify j f)[i]? = ns[i]? := by rw [Array.getElem?_modify, if_neg h]

theorem get_modify_eq {ns : Array Node} {i : Nat} {n : Node} (f : Node → Node) (h : ns[i]? = some n) :
    (ns.modify i f)[i]? = some (f n) := by rw [Array.getElem?_modify, if_pos rfl, h]; rfl

theorem insertL_split (e : Entry) : ∀ (l1 l2 : List Entry), (∀ x ∈ l1, x.1 < e.1) →
    (l2 = [] ∨ ∃ y l2', l2 = y :: l2' ∧ e.1 ≤ y.1) → insertL (l1 ++ l2) e = l1 ++ e :: l2
  | [], l2, _, h2 => by
    rcases h2 with rfl | ⟨y, l2', rfl, hy⟩
    · rfl
    · simp [insertL, hy]
  | x :: l1, l2, h1, h2 => by
    have hx : ¬ e.1 ≤ x.1 := by have := h1 x List.mem_cons_self; omega
    simp only [List.cons_append, insertL, hx, if_false]
    rw [insertL_split e l1 l2 (fun y hy => h1 y (List.mem_cons_of_mem _ hy)) h2]

theorem pushScan_none (ns : Array Node) (prio f p : Nat) : pushScan ns prio f none p = .ok (none, p) := by
  cases f <;> rfl

theorem pushScan_spec (ns : Array Node) (prio : Nat) (s0 : Option Nat) :
    ∀ (rest pre : List Nat) (p : Nat) (cur : Option Nat) (f : Nat),
      Seg ns s0 (pre ++ [p]) cur → Seg ns cur rest none → Full ns rest → rest.length ≤ f →
      (∀ x ∈ (pre ++ [p]).map (entryAt ns), x.1 < prio) →
      ∃ a p' b c, pre ++ p :: rest = a ++ p' :: b ∧ pushScan ns prio f cur p = .ok (c, p') ∧
        Seg ns s0 (a ++ [p']) c ∧ Seg ns c b none ∧ (∀ x ∈ (a ++ [p']).map (entryAt ns), x.1 < prio) ∧
        ((b = [] ∧ c = none) ∨ ∃ j b', b = j :: b' ∧ c = some j ∧ prio ≤ (entryAt ns j).1)
  | [], pre, p, cur, f, hpre, hcur, _, _, hlt => by
    cases hcur
    exact ⟨pre, p, [], none, rfl, pushScan_none _ _ _ _, hpre, rfl, hlt, Or.inl ⟨rfl, rfl⟩⟩
  | i :: rest, pre, p, cur, f, hpre, ⟨hc, t, ht, hseg⟩, hfull, hlen, hlt => by
    subst hc
    obtain ⟨n, hn, hnt⟩ := get_of_nx ht
    obtain ⟨pk, hpk⟩ := full_get (hfull i List.mem_cons_self) hn
    cases f with
    | zero => simp at hlen
    | succ f =>
      simp only [pushScan, hn]
      by_cases hle : prio ≤ n.prio
      · simp only [hle, if_true]
        exact ⟨pre, p, i :: rest, some i, rfl, rfl, hpre, ⟨rfl, t, ht, hseg⟩, hlt,
          Or.inr ⟨i, rest, rfl, rfl, by rw [entryAt_get hn hpk]; exact hle⟩⟩
      · simp only [hle, if_false]
        rw [hnt]
        have hpre' : Seg ns s0 ((pre ++ [p]) ++ [i]) t := seg_append.mpr ⟨some i, hpre, rfl, t, ht, rfl⟩
        have hlt' : ∀ x ∈ ((pre ++ [p]) ++ [i]).map (entryAt ns), x.1 < prio := by
          intro x hx
          rw [List.map_append, List.mem_append] at hx
          rcases hx with hx | hx
          · exact hlt x hx
          · simp only [List.map_cons, List.map_nil, List.mem_singleton] at hx
            subst hx; rw [entryAt_get hn hpk]; show n.prio < prio; omega
        obtain ⟨a, p', b, c, h1, h2, h3, h4, h5, h6⟩ := pushScan_spec ns prio s0 rest (pre ++ [p]) i t f hpre' hseg
          (fun j hj => hfull j (List.mem_cons_of_mem _ hj)) (by simp at hlen; omega) hlt'
        exact ⟨a, p', b, c, by simpa [List.append_assoc] using h1, h2, h3, h4, h5, h6⟩

/-- assembling the representation after linking node `new` between `A` and `B`. -/
theorem hrep_assemble {ns : Array Node} {q' : PQ} {A B : List Nat} {new prio : Nat} {val : Pkt}
    (hseg : Seg q'.nodes q'.head (A ++ new :: B) none) (hnd : (A ++ B).Nodup) (hnew : new ∉ A ++ B)
    (hpv : ∀ j ∈ A ++ B, pv q'.nodes j = pv ns j) (hpvn : pv q'.nodes new = some (prio, some val))
    (hfull : Full ns (A ++ B)) (hlen : q'.length = ((A ++ B).length + 1) % 65536)
    (hsz : (A ++ B).length + 1 ≤ q'.nodes.size) :
    HRep q' (A.map (entryAt ns) ++ (prio, val) :: B.map (entryAt ns)) := by
  have hperm : (A ++ new :: B).Perm (new :: (A ++ B)) := List.perm_middle
  refine ⟨A ++ new :: B, hseg, hperm.nodup_iff.mpr (List.nodup_cons.mpr ⟨hnew, hnd⟩), ?_, ?_, ?_, ?_⟩
  · intro j hj
    rcases List.mem_cons.mp (hperm.mem_iff.mp hj) with rfl | hj
    · exact ⟨prio, val, hpvn⟩
    · rw [hpv j hj]; exact hfull j hj
  · rw [List.map_append, List.map_cons]
    have hA : A.map (entryAt q'.nodes) = A.map (entryAt ns) :=
      map_entry_congr (fun j hj => hpv j (List.mem_append_left _ hj))
    have hB : B.map (entryAt q'.nodes) = B.map (entryAt ns) :=
      map_entry_congr (fun j hj => hpv j (List.mem_append_right _ hj))
    rw [hA, hB]
    simp [entryAt, hpvn]
  · rw [hlen]; simp [List.length_append]; omega
  · simp [List.length_append] at hsz ⊢; omega


theorem nx_set_prev (ns : Array Node) (j i : Nat) (v : Option Nat) :
    nx (ns.modify j (fun x => { x with prev := v })) i = nx ns i :=
  nx_modify_keep ns j i (fun x => { x with prev := v }) (fun _ => rfl)

theorem pv_set_prev (ns : Array Node) (j i : Nat) (v : Option Nat) :
    pv (ns.modify j (fun x => { x with prev := v })) i = pv ns i :=
  pv_modify_keep ns j i (fun x => { x with prev := v }) (fun _ => ⟨rfl, rfl⟩)

theorem pv_set_next (ns : Array Node) (j i : Nat) (v : Option Nat) :
    pv (ns.modify j (fun x => { x with next := v })) i = pv ns i :=
  pv_modify_keep ns j i (fun x => { x with next := v }) (fun _ => ⟨rfl, rfl⟩)

theorem pv_set_next_prev (ns : Array Node) (j i : Nat) (v w : Option Nat) :
    pv (ns.modify j (fun x => { x with next := v, prev := w })) i = pv ns i :=
  pv_modify_keep ns j i (fun x => { x with next := v, prev := w }) (fun _ => ⟨rfl, rfl⟩)

theorem heap_push {q : PQ} {l : List Entry} (h : HRep q l) (val : Pkt) (prio : Nat) :
    ∃ q', q.push val prio = .ok q' ∧ HRep q' (insertL l (prio, val)) := by
  obtain ⟨is, hseg, hnd, hfull, hl, hlen, hsz⟩ := h
  subst hl
  have hlt : ∀ j ∈ is, j < q.nodes.size := seg_lt hseg
  have hne : ∀ j ∈ is, j ≠ q.nodes.size := fun j hj => Nat.ne_of_lt (hlt j hj)
  have hnew : q.nodes.size ∉ is := fun h => hne _ h rfl
  generalize hnd' : ({ val := some val, next := none, prev := none, prio := prio } : Node) = nd
  have hndn : nd.next = none := by subst hnd'; rfl
  have hndp : (nd.prio, nd.val) = (prio, some val) := by subst hnd'; rfl
  have hnxP : ∀ j, j ≠ q.nodes.size → nx (q.nodes.push nd) j = nx q.nodes j := by
    intro j hj; rw [nx_push, if_neg hj]
  have hpvP : ∀ j, j ≠ q.nodes.size → pv (q.nodes.push nd) j = pv q.nodes j := by
    intro j hj; rw [pv_push, if_neg hj]
  have hgetP : ∀ j, j ≠ q.nodes.size → (q.nodes.push nd)[j]? = q.nodes[j]? := by
    intro j hj; rw [Array.getElem?_push, if_neg hj]
  have hgetN : (q.nodes.push nd)[q.nodes.size]? = some nd := Array.getElem?_push_size
  have hpvN : pv (q.nodes.push nd) q.nodes.size = some (prio, some val) := by rw [pv_get hgetN, hndp]
  have hsegP : Seg (q.nodes.push nd) q.head is none := seg_congr (fun j hj => hnxP j (hne j hj)) hseg
  have hfullP : Full (q.nodes.push nd) is := full_congr (fun j hj => hpvP j (hne j hj)) hfull
  have hkeep : ∀ (ns : Array Node) (k j : Nat) (f : Node → Node), (∀ n, (f n).prio = n.prio ∧ (f n).val = n.val) →
      pv (ns.modify k f) j = pv ns j := fun ns k j f hf => pv_modify_keep ns k j f hf
  cases is with
  | nil =>
    have hh : q.head = none := hseg
    refine ⟨{ nodes := q.nodes.push nd, head := some q.nodes.size, length := inc16 q.length },
      by simp only [PQ.push, hh, hnd'], ?_⟩
    have := hrep_assemble (ns := q.nodes) (q' := { nodes := q.nodes.push nd, head := some q.nodes.size, length := inc16 q.length })
      (A := []) (B := []) (new := q.nodes.size) (prio := prio) (val := val)
      ⟨rfl, none, by rw [nx_get hgetN, hndn], rfl⟩ List.nodup_nil (by simp) (by simp) hpvN (fun j hj => by cases hj)
      (by show inc16 q.length = _; rw [hlen]; rfl) (by simp)
    simpa [insertL] using this
  | cons hd rest =>
    obtain ⟨hh, t, ht, hseg'⟩ := hseg
    obtain ⟨hn, hhn, hnt⟩ := get_of_nx ht
    obtain ⟨pk, hpk⟩ := full_get (hfull hd List.mem_cons_self) hhn
    have hhdne : hd ≠ q.nodes.size := hne hd List.mem_cons_self
    have hgethd : (q.nodes.push nd)[hd]? = some hn := by rw [hgetP hd hhdne, hhn]
    have hlen' : inc16 q.length = ((hd :: rest).length + 1) % 65536 := by rw [hlen, inc16_len]
    have hehd : entryAt q.nodes hd = (hn.prio, pk) := entryAt_get hhn hpk
    by_cases hle : prio ≤ hn.prio
    · -- before the head
      refine ⟨_, (by simp only [PQ.push, hh, hnd', hgethd, hle, if_true]; rfl), ?_⟩
      have := hrep_assemble (ns := q.nodes)
        (q' := { nodes := ((q.nodes.push nd).modify q.nodes.size (fun x => { x with next := some hd })).modify hd
                    (fun x => { x with prev := some q.nodes.size }),
                 head := some q.nodes.size, length := inc16 q.length })
        (A := []) (B := hd :: rest) (new := q.nodes.size) (prio := prio) (val := val)
        ⟨rfl, some hd, by
            show nx (Array.modify _ hd _) q.nodes.size = _
            rw [nx_set_prev, nx_modify_eq _ hgetN],
          seg_congr (fun j hj => by
            show nx (Array.modify _ hd _) j = _
            rw [nx_set_prev, nx_modify_ne _ (Ne.symm (hne j hj)), hnxP j (hne j hj)])
            (show Seg q.nodes (some hd) (hd :: rest) none from ⟨rfl, t, ht, hseg'⟩)⟩
        hnd hnew
        (fun j hj => by
          show pv (Array.modify _ hd _) j = _
          simp only [pv_set_prev, pv_set_next, pv_set_next_prev]; exact hpvP j (hne j hj))
        (by
          show pv (Array.modify _ hd _) q.nodes.size = _
          simp only [pv_set_prev, pv_set_next, pv_set_next_prev]; exact hpvN)
        hfull hlen' (by simp at hsz ⊢; omega)
      simpa [insertL, hehd, hle] using this
    · -- walk the list
      have hstep : pushScan (q.nodes.push nd) prio (fuel q.nodes) (some hd) hd
          = pushScan (q.nodes.push nd) prio q.nodes.size hn.next hd := by
        simp only [fuel, pushScan, hgethd, hle, if_false]
      have hrl : rest.length ≤ q.nodes.size := by simp at hsz; omega
      have hseg'P : Seg (q.nodes.push nd) t rest none :=
        seg_congr (fun j hj => hnxP j (hne j (List.mem_cons_of_mem _ hj))) hseg'
      obtain ⟨a, p', b, c, h1, h2, h3, h4, h5, h6⟩ := pushScan_spec (q.nodes.push nd) prio (some hd) rest [] hd t q.nodes.size
        ⟨rfl, t, by rw [hnxP hd hhdne]; exact ht, rfl⟩ hseg'P
        (fun j hj => hfullP j (List.mem_cons_of_mem _ hj)) hrl
        (by
          intro x hx
          simp only [List.nil_append, List.map_cons, List.map_nil, List.mem_singleton] at hx
          subst hx
          rw [entry_congr (hpvP hd hhdne), hehd]
          show hn.prio < prio; omega)
      simp only [List.nil_append] at h1
      rw [hnt] at hstep
      obtain ⟨m, hsa, hm1, tc, htc, hm2⟩ := seg_append.mp h3
      have hm2' : tc = c := hm2
      subst hm1
      subst hm2'
      obtain ⟨pn, hpn, hpnn⟩ := get_of_nx htc
      have hnd2 : (a ++ p' :: b).Nodup := h1 ▸ hnd
      have hnd3 := List.nodup_append.mp hnd2
      have hp_a : p' ∉ a := fun hmem => hnd3.2.2 p' hmem p' List.mem_cons_self rfl
      have hp_b : p' ∉ b := (List.nodup_cons.mp hnd3.2.1).1
      have hmem_is : ∀ j, j ∈ a ++ p' :: b → j ∈ hd :: rest := fun j hj => h1 ▸ hj
      have hp_ne : p' ≠ q.nodes.size := hne p' (hmem_is p' (List.mem_append_right _ List.mem_cons_self))
      have ha_ne : ∀ j ∈ a, j ≠ q.nodes.size := fun j hj => hne j (hmem_is j (List.mem_append_left _ hj))
      have hb_ne : ∀ j ∈ b, j ≠ q.nodes.size := fun j hj =>
        hne j (hmem_is j (List.mem_append_right _ (List.mem_cons_of_mem _ hj)))
      have hentries : (hd :: rest).map (entryAt q.nodes) =
          (a ++ [p']).map (entryAt q.nodes) ++ b.map (entryAt q.nodes) := by
        rw [h1]; simp [List.map_append]
      have h5' : ∀ x ∈ (a ++ [p']).map (entryAt q.nodes), x.1 < prio := by
        rw [← map_entry_congr (ns' := q.nodes.push nd) (fun j hj => hpvP j (by
          rcases List.mem_append.mp hj with hj | hj
          · exact ha_ne j hj
          · simp at hj; subst hj; exact hp_ne))]
        exact h5
      have hAB : (a ++ [p']) ++ b = hd :: rest := by rw [h1]; simp
      rcases h6 with ⟨hb, hc⟩ | ⟨j, b', hb, hc, hj⟩
      · -- at the end
        subst hb; subst hc
        refine ⟨_, (by simp only [PQ.push, hh, hnd', hgethd, hle, if_false, hstep, h2]; rfl), ?_⟩
        have := hrep_assemble (ns := q.nodes)
          (q' := { nodes := ((q.nodes.push nd).modify p' (fun x => { x with next := some q.nodes.size })).modify q.nodes.size
                      (fun x => { x with prev := some p' }),
                   head := some hd, length := inc16 q.length })
          (A := a ++ [p']) (B := []) (new := q.nodes.size) (prio := prio) (val := val)
          (by
            refine seg_append.mpr ⟨some q.nodes.size, seg_append.mpr ⟨some p', seg_congr (fun k hk => ?_) hsa, rfl, _, ?_, rfl⟩,
              rfl, none, ?_, rfl⟩
            · show nx (Array.modify _ q.nodes.size _) k = _
              rw [nx_set_prev, nx_modify_ne _ (fun (e : p' = k) => hp_a (e ▸ hk))]
            · show nx (Array.modify _ q.nodes.size _) p' = _
              rw [nx_set_prev, nx_modify_eq _ hpn]
            · show nx (Array.modify _ q.nodes.size _) q.nodes.size = _
              rw [nx_set_prev, nx_modify_ne _ hp_ne, nx_get hgetN, hndn])
          (by rw [List.append_nil, ← List.append_nil (a ++ [p']), hAB]; exact hnd)
          (by rw [List.append_nil, ← List.append_nil (a ++ [p']), hAB]; exact hnew)
          (fun k hk => by
            have hk' : k ∈ hd :: rest := by rw [← hAB]; simpa using hk
            show pv (Array.modify _ q.nodes.size _) k = _
            simp only [pv_set_prev, pv_set_next, pv_set_next_prev]; exact hpvP k (hne k hk'))
          (by
            show pv (Array.modify _ q.nodes.size _) q.nodes.size = _
            simp only [pv_set_prev, pv_set_next, pv_set_next_prev]; exact hpvN)
          (by rw [List.append_nil, ← List.append_nil (a ++ [p']), hAB]; exact hfull)
          (by rw [List.append_nil, ← List.append_nil (a ++ [p']), hAB]; exact hlen')
          (by rw [List.append_nil, ← List.append_nil (a ++ [p']), hAB]; simp at hsz ⊢; omega)
        rw [hentries, insertL_split (prio, val) ((a ++ [p']).map (entryAt q.nodes)) (List.map (entryAt q.nodes) []) h5' (Or.inl rfl)]
        simpa using this
      · -- in the middle, before node j
        subst hb; subst hc
        have hj_ne : j ≠ q.nodes.size := hb_ne j List.mem_cons_self
        have hjp : p' ≠ j := fun e => hp_b (e ▸ List.mem_cons_self)
        refine ⟨_, (by simp only [PQ.push, hh, hnd', hgethd, hle, if_false, hstep, h2]; rfl), ?_⟩
        have := hrep_assemble (ns := q.nodes)
          (q' := { nodes := (((q.nodes.push nd).modify q.nodes.size (fun x => { x with next := some j, prev := some p' })).modify p'
                      (fun x => { x with next := some q.nodes.size })).modify j (fun x => { x with prev := some q.nodes.size }),
                   head := some hd, length := inc16 q.length })
          (A := a ++ [p']) (B := j :: b') (new := q.nodes.size) (prio := prio) (val := val)
          (by
            refine seg_append.mpr ⟨some q.nodes.size, seg_append.mpr ⟨some p', seg_congr (fun k hk => ?_) hsa, rfl, _, ?_, rfl⟩,
              rfl, some j, ?_, seg_congr (fun k hk => ?_) h4⟩
            · show nx (Array.modify _ j _) k = _
              rw [nx_set_prev, nx_modify_ne _ (fun (e : p' = k) => hp_a (e ▸ hk)),
                nx_modify_ne _ (Ne.symm (ha_ne k hk))]
            · show nx (Array.modify _ j _) p' = _
              rw [nx_set_prev,
                nx_modify_eq _ (show (Array.modify _ q.nodes.size _)[p']? = some pn by rw [get_modify_ne _ (Ne.symm hp_ne), hpn])]
            · show nx (Array.modify _ j _) q.nodes.size = _
              rw [nx_set_prev, nx_modify_ne _ hp_ne, nx_modify_eq _ hgetN]
            · show nx (Array.modify _ j _) k = _
              rw [nx_set_prev, nx_modify_ne _ (fun (e : p' = k) => hp_b (e ▸ hk)),
                nx_modify_ne _ (Ne.symm (hb_ne k hk))])
          (by rw [hAB]; exact hnd)
          (by rw [hAB]; exact hnew)
          (fun k hk => by
            have hk' : k ∈ hd :: rest := by rw [← hAB]; exact hk
            show pv (Array.modify _ j _) k = _
            simp only [pv_set_prev, pv_set_next, pv_set_next_prev]; exact hpvP k (hne k hk'))
          (by
            show pv (Array.modify _ j _) q.nodes.size = _
            simp only [pv_set_prev, pv_set_next, pv_set_next_prev]; exact hpvN)
          (by rw [hAB]; exact hfull)
          (by rw [hAB]; exact hlen')
          (by rw [hAB]; simp at hsz ⊢; omega)
        rw [hentries, insertL_split (prio, val) ((a ++ [p']).map (entryAt q.nodes)) (List.map (entryAt q.nodes) (j :: b')) h5' (Or.inr ⟨entryAt q.nodes j, b'.map (entryAt q.nodes), rfl, by
          rw [← entry_congr (hpvP j hj_ne)]; exact hj⟩)]
        exact this

/-- ★ the heap-level queue refines the list-level queue. -/
def heapRefines : Refines heapImpl where
  Rep := HRep
  empty := ⟨[], rfl, List.nodup_nil, (fun i hi => by cases hi), rfl, rfl, Nat.zero_le _⟩
  length := fun h => by obtain ⟨is, _, _, _, hl, hlen, _⟩ := h; subst hl; simpa using hlen
  push := fun p s h => heap_push h p s
  find := fun s h => heap_find h s
  popAt := fun s h => heap_popAt h s
  popAtTs := fun t h => heap_popAtTs h t
  clear := fun h => heap_clear h

/-- the driver's `chain` observable returns exactly the represented chain. -/
theorem walk_spec (ns : Array Node) : ∀ (is : List Nat) (s : Option Nat) (f : Nat),
    Seg ns s is none → is.length ≤ f → walk ns f s = some is
  | [], s, f, hs, _ => by cases hs; cases f <;> rfl
  | i :: is, s, f, ⟨hs, t, ht, hseg⟩, hlen => by
    subst hs
    obtain ⟨n, hn, hnt⟩ := get_of_nx ht
    cases f with
    | zero => simp at hlen
    | succ f =>
      simp only [walk, hn]
      rw [hnt, walk_spec ns is t f hseg (by simp at hlen; omega)]
      rfl

end Interceptor.JitterBuffer

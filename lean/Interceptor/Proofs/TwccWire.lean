/-
C05 helper lemmas: the specification's byte-level parser applied to the model's marshalled packet
returns the packet's chunks, statuses and deltas.
-/
import Interceptor.Model.TwccWire
import Interceptor.Proofs.TwccDecode
namespace Interceptor.Twcc
open Interceptor.TwccSpec (WChunk parseWord parseChunks readDeltas)

/-! ### base-B digits -/

/-- `k` digits of `v` in base `B`, most significant first. -/
def digitsMSB (B : Nat) : Nat → Nat → List Nat
  | 0, _ => []
  | k + 1, v => (v / B ^ k % B) :: digitsMSB B k v

theorem range_map_digits (B v : Nat) (k : Nat) :
    (List.range k).map (fun i => v / B ^ (k - 1 - i) % B) = digitsMSB B k v := by
  induction k with
  | zero => rfl
  | succ k ih =>
    rw [List.range_succ_eq_map, List.map_cons, List.map_map, digitsMSB, ← ih]
    congr 1
    apply List.map_congr_left
    intro i hi
    have : i < k := List.mem_range.mp hi
    simp only [Function.comp]
    congr 3
    omega

/-- digits below position `k` do not see multiples of `B^k`. -/
theorem digits_mod (B : Nat) (hB : 0 < B) (k a r : Nat) (j : Nat) (hj : j ≤ k) :
    digitsMSB B j (a * B ^ k + r) = digitsMSB B j r := by
  induction j with
  | zero => rfl
  | succ j ih =>
    simp only [digitsMSB]
    rw [ih (by omega)]
    congr 1
    have hk : B ^ k = B ^ (k - j - 1) * (B ^ j * B) := by
      rw [← Nat.pow_succ, ← Nat.pow_add]
      congr 1; omega
    have hk2 : a * B ^ k = (a * B ^ (k - j - 1)) * B * B ^ j := by
      rw [hk]; ac_rfl
    have hpos : 0 < B ^ j := Nat.pow_pos hB
    rw [hk2, Nat.add_comm, Nat.add_mul_div_right _ _ hpos, Nat.add_mul_mod_self_right]

theorem digits_zero (B k : Nat) : digitsMSB B k 0 = List.replicate k 0 := by
  induction k with
  | zero => rfl
  | succ k ih => simp [digitsMSB, ih, List.replicate_succ]

theorem packSyms_lt (B : Nat) (hB : 0 < B) (k : Nat) (l : List Sym) : packSyms B k l < B ^ k := by
  induction k generalizing l with
  | zero => simp [packSyms]
  | succ k ih =>
    cases l with
    | nil => simp only [packSyms]; exact Nat.pow_pos hB
    | cons s rest =>
      simp only [packSyms]
      have h1 := ih rest
      have h2 : s.code % B < B := Nat.mod_lt _ hB
      have h3 : (s.code % B) * B ^ k + packSyms B k rest < (s.code % B + 1) * B ^ k := by
        rw [Nat.add_mul, Nat.one_mul]; omega
      have h4 : (s.code % B + 1) * B ^ k ≤ B * B ^ k := Nat.mul_le_mul_right _ (by omega)
      rw [Nat.pow_succ, Nat.mul_comm (B ^ k) B]
      omega

/-- the digits of a packed status vector: the symbols' codes (truncated to the slot), then zeros. -/
theorem digits_pack (B : Nat) (hB : 0 < B) (k : Nat) (l : List Sym) (hl : l.length ≤ k) :
    digitsMSB B k (packSyms B k l) = l.map (fun s => s.code % B) ++ List.replicate (k - l.length) 0 := by
  induction k generalizing l with
  | zero =>
    have : l = [] := List.length_eq_zero_iff.mp (by omega)
    subst this; rfl
  | succ k ih =>
    cases l with
    | nil => simp only [packSyms, digits_zero]; simp
    | cons s rest =>
      simp only [packSyms, digitsMSB, List.map_cons, List.length_cons, List.cons_append]
      have hlt := packSyms_lt B hB k rest
      have hpos : 0 < B ^ k := Nat.pow_pos hB
      congr 1
      · rw [Nat.add_comm, Nat.add_mul_div_right _ _ hpos, Nat.div_eq_of_lt hlt, Nat.zero_add,
          Nat.mod_mod]
      · rw [digits_mod B hB k _ _ k (Nat.le_refl _), ih rest (by simpa using hl)]
        congr 2; omega

/-! ### one chunk word -/

/-- the chunk as the specification's parser sees it (vectors always 14 / 7 symbols). -/
def Chunk.toW : Chunk → WChunk
  | .run s n => .run s.code n
  | .vec1 l => .vec false (l.map Sym.code ++ List.replicate (14 - l.length) 0)
  | .vec2 l => .vec true (l.map Sym.code ++ List.replicate (7 - l.length) 0)

theorem Chunk.toW_expand (c : Chunk) : c.toW.expand = c.decode.map Sym.code := by
  cases c <;> simp [Chunk.toW, WChunk.expand, Chunk.decode, Sym.code]

theorem code_lt_4 (s : Sym) : s.code < 4 := by cases s <;> simp [Sym.code]

theorem parseWord_word (c : Chunk) (h : c.wf) : parseWord c.word = c.toW := by
  cases c with
  | run s n =>
    simp only [Chunk.wf] at h
    have hc := code_lt_4 s
    have hc3 : s.code ≤ 2 := by cases s <;> simp [Sym.code]
    simp only [parseWord, Chunk.word, Chunk.toW]
    have h1 : (s.code * 8192 + n % 8192) / 32768 % 2 = 0 := by omega
    simp only [h1, if_true]
    congr 1 <;> omega
  | vec1 l =>
    simp only [Chunk.wf] at h
    obtain ⟨hlen, hnl⟩ := h
    have hp := packSyms_lt 2 (by decide) 14 l
    have e14 : (2 : Nat) ^ 14 = 16384 := by decide
    simp only [parseWord, Chunk.word, Chunk.toW]
    have h1 : ¬ ((32768 + packSyms 2 14 l) / 32768 % 2 = 0) := by omega
    have h2 : (32768 + packSyms 2 14 l) / 16384 % 2 = 0 := by omega
    simp only [h1, h2, if_true, if_false]
    congr 1
    have hr : (List.range 14).map (fun i => (32768 + packSyms 2 14 l) / 2 ^ (13 - i) % 2) =
        (List.range 14).map (fun i => (32768 + packSyms 2 14 l) / 2 ^ (14 - 1 - i) % 2) := by
      apply List.map_congr_left; intro i _; rfl
    rw [hr, range_map_digits 2 (32768 + packSyms 2 14 l) 14]
    have : 32768 + packSyms 2 14 l = 2 * 2 ^ 14 + packSyms 2 14 l := by omega
    rw [this, digits_mod 2 (by decide) 14 2 _ 14 (Nat.le_refl _), digits_pack 2 (by decide) 14 l (by omega)]
    congr 1
    apply List.map_congr_left
    intro s hs
    have := hnl s hs
    cases s <;> simp_all [Sym.code]
  | vec2 l =>
    simp only [Chunk.wf] at h
    have hp := packSyms_lt 4 (by decide) 7 l
    have e7 : (4 : Nat) ^ 7 = 16384 := by decide
    simp only [parseWord, Chunk.word, Chunk.toW]
    have h1 : ¬ ((32768 + 16384 + packSyms 4 7 l) / 32768 % 2 = 0) := by omega
    have h2 : ¬ ((32768 + 16384 + packSyms 4 7 l) / 16384 % 2 = 0) := by omega
    simp only [h1, h2, if_false]
    congr 1
    have hr : (List.range 7).map (fun i => (32768 + 16384 + packSyms 4 7 l) / 4 ^ (6 - i) % 4) =
        (List.range 7).map (fun i => (32768 + 16384 + packSyms 4 7 l) / 4 ^ (7 - 1 - i) % 4) := by
      apply List.map_congr_left; intro i _; rfl
    rw [hr, range_map_digits 4 (32768 + 16384 + packSyms 4 7 l) 7]
    have : 32768 + 16384 + packSyms 4 7 l = 3 * 4 ^ 7 + packSyms 4 7 l := by omega
    rw [this, digits_mod 4 (by decide) 7 3 _ 7 (Nat.le_refl _), digits_pack 4 (by decide) 7 l (by omega)]
    congr 1
    apply List.map_congr_left
    intro s _
    exact Nat.mod_eq_of_lt (code_lt_4 s)

/-! ### the chunk list of a packet is tight: only the last chunk may carry padding -/

/-- all chunks well formed, all but the last completely filled. -/
def Tight : List Chunk → Prop
  | [] => True
  | [c] => c.wf
  | c :: d :: rest => c.full ∧ Tight (d :: rest)

theorem tight_cons_full {c : Chunk} {l : List Chunk} (hc : c.full) (hl : Tight l) : Tight (c :: l) := by
  cases l with
  | nil => exact Chunk.full_wf hc
  | cons d rest => exact ⟨hc, hl⟩

theorem tight_append_full (a b : List Chunk) (ha : ∀ c ∈ a, c.full) (hb : Tight b) : Tight (a ++ b) := by
  induction a with
  | nil => simpa using hb
  | cons c a ih =>
    exact tight_cons_full (ha c (by simp)) (ih (fun d hd => ha d (by simp [hd])))

theorem flush_tight (fuel : Nat) (c : ChunkSt) (cs : Array Chunk) (h : c.Inv)
    (hf : c.deltas.toList.length < fuel) :
    ∃ extra : List Chunk, (flushChunks fuel c cs).toList = cs.toList ++ extra ∧
      extra.flatMap Chunk.syms = c.deltas.toList ∧ Tight extra := by
  induction fuel generalizing c cs with
  | zero => omega
  | succ fuel ih =>
    unfold flushChunks
    by_cases hz : c.deltas.size > 0
    · simp only [hz, if_true]
      have hne : c.deltas.toList ≠ [] := by
        intro he
        have : c.deltas.size = 0 := by rw [← Array.length_toList, he]; rfl
        omega
      obtain ⟨e1, e2, e3, _, e5, e6⟩ := ChunkSt.encode_spec h hne
      obtain ⟨extra, r1, r2, r3⟩ := ih (c.encode).2 (cs.push (c.encode).1) e1 (by omega)
      refine ⟨(c.encode).1 :: extra, by rw [r1]; simp, by simp only [List.flatMap_cons, r2, e3], ?_⟩
      by_cases hrest : (c.encode).2.deltas.toList = []
      · have : extra = [] := by
          rw [hrest] at r2
          cases extra with
          | nil => rfl
          | cons d rest =>
            exfalso
            simp only [List.flatMap_cons, List.append_eq_nil_iff] at r2
            -- a tight list's chunks have symbols
            have hd : d.syms ≠ [] := by
              have hwf : d.wf := by
                cases rest with
                | nil => exact r3
                | cons d2 rest => exact Chunk.full_wf r3.1
              cases d <;> simp_all [Chunk.wf, Chunk.syms] <;> omega
            exact hd r2.1
        rw [this]; exact e2
      · exact tight_cons_full (e5 hrest) r3
    · simp only [hz, if_false]
      have : c.deltas.toList = [] := by
        have : c.deltas.size = 0 := by omega
        exact List.length_eq_zero_iff.mp (by simpa using this)
      exact ⟨[], by simp, by simp [this], trivial⟩

/-- the chunk list covers exactly `n` statuses: every chunk is needed, the last one reaches `n`. -/
def Exact : Nat → List Chunk → Prop
  | n, [] => n = 0
  | n, c :: rest => 0 < n ∧ Exact (n - c.decode.length) rest

theorem wf_syms_pos {c : Chunk} (h : c.wf) : 0 < c.syms.length := by
  cases c <;> simp_all [Chunk.wf, Chunk.syms] <;> omega

theorem decode_length_ge (c : Chunk) : c.syms.length ≤ c.decode.length := by
  obtain ⟨k, hk⟩ := Chunk.decode_eq c
  rw [hk]; simp

theorem tight_exact (cs : List Chunk) (h : Tight cs) : Exact (cs.flatMap Chunk.syms).length cs := by
  induction cs with
  | nil => simp [Exact]
  | cons c rest ih =>
    cases rest with
    | nil =>
      have hp := wf_syms_pos (c := c) h
      have hg := decode_length_ge c
      simp only [List.flatMap_cons, List.flatMap_nil, List.append_nil, Exact]
      exact ⟨hp, by omega⟩
    | cons d rest =>
      obtain ⟨hf, ht⟩ := h
      have hp := wf_syms_pos (Chunk.full_wf hf)
      have hd := Chunk.decode_of_full hf
      have := ih ht
      simp only [List.flatMap_cons, List.length_append] at this ⊢
      refine ⟨by omega, ?_⟩
      rw [hd]
      have e : c.syms.length + ((d.syms).length + (List.flatMap Chunk.syms rest).length) - c.syms.length
          = (d.syms).length + (List.flatMap Chunk.syms rest).length := by omega
      rw [e]; exact this

theorem tight_wf (cs : List Chunk) (h : Tight cs) : ∀ c ∈ cs, c.wf := by
  induction cs with
  | nil => intro c hc; simp at hc
  | cons c rest ih =>
    intro x hx
    cases rest with
    | nil => simp at hx; rw [hx]; exact h
    | cons d rest =>
      rcases List.mem_cons.mp hx with hx | hx
      · rw [hx]; exact Chunk.full_wf h.1
      · exact ih h.2 x hx

/-- the two bytes of every chunk word. -/
def chunkBytes (cs : List Chunk) : List Nat := cs.flatMap fun c => [c.word / 256, c.word % 256]

theorem parseChunks_spec (cs : List Chunk) (n : Nat) (hex : Exact n cs) (hwf : ∀ c ∈ cs, c.wf)
    (tail : List Nat) (acc : List WChunk) (fuel : Nat) (hfuel : cs.length < fuel) :
    parseChunks fuel n (chunkBytes cs ++ tail) acc = some (acc.reverse ++ cs.map Chunk.toW, tail) := by
  induction cs generalizing n acc fuel with
  | nil =>
    cases fuel with
    | zero => omega
    | succ fuel =>
      simp only [Exact] at hex
      simp [parseChunks, hex, chunkBytes]
  | cons c rest ih =>
    cases fuel with
    | zero => omega
    | succ fuel =>
      obtain ⟨hpos, hrest⟩ := hex
      have hw : c.word / 256 * 256 + c.word % 256 = c.word := by omega
      have hpw := parseWord_word c (hwf c (by simp))
      have hlen : c.toW.expand.length = c.decode.length := by rw [Chunk.toW_expand]; simp
      have hne : c.toW.expand.length ≠ 0 := by
        have := wf_syms_pos (hwf c (by simp)); have := decode_length_ge c; omega
      simp only [chunkBytes, List.flatMap_cons, List.cons_append, List.nil_append, parseChunks]
      have hn0 : ¬ n = 0 := by omega
      simp only [hn0, if_false, hw, hpw, hne]
      rw [hlen]
      have := ih (n - c.decode.length) hrest (fun d hd => hwf d (by simp [hd])) (c.toW :: acc) fuel
        (by simp at hfuel; omega)
      simp only [chunkBytes] at this
      rw [this]
      simp

/-! ### deltas -/

theorem readDeltas_spec (syms : List Sym) (ds : List (Sym × Int)) (tail : List Nat)
    (hk : ds.map (·.1) = syms.filter (fun s => decide (s ≠ Sym.nr)))
    (hr : ∀ d ∈ ds, ∃ q : Int, d.2 = q * 250 ∧
      ((d.1 = Sym.small ∧ 0 ≤ q ∧ q ≤ 255) ∨ (d.1 = Sym.large ∧ -32768 ≤ q ∧ q ≤ 32767))) :
    readDeltas (syms.map Sym.code) (ds.flatMap deltaBytes ++ tail) = some (pair syms ds) := by
  induction syms generalizing ds with
  | nil => simp [readDeltas, pair]
  | cons s syms ih =>
    cases s with
    | nr =>
      simp only [List.map_cons, Sym.code, readDeltas, pair]
      rw [ih ds (by simpa using hk) hr]; rfl
    | small =>
      cases ds with
      | nil => simp at hk
      | cons d ds =>
        obtain ⟨k, v⟩ := d
        simp only [List.filter_cons, List.map_cons] at hk
        rw [if_pos (by decide)] at hk
        have hk1 : k = Sym.small := (List.cons.inj hk).1
        have hk2 := (List.cons.inj hk).2
        subst hk1
        obtain ⟨q, hq, hq2⟩ := hr (Sym.small, v) (by simp)
        simp only [] at hq hq2
        have hq3 : 0 ≤ q ∧ q ≤ 255 := by
          rcases hq2 with ⟨_, a, b⟩ | ⟨a, _⟩
          · exact ⟨a, b⟩
          · cases a
        subst hq
        have e1 : (q * 250).tdiv 250 = q := Int.mul_tdiv_cancel _ (by decide)
        have e2 : q * 250 / 250 = q := Int.mul_ediv_cancel _ (by decide)
        simp only [List.map_cons, Sym.code, List.flatMap_cons, deltaBytes, e1, List.cons_append,
          List.nil_append, readDeltas, pair, e2]
        rw [ih ds hk2 (fun d hd => hr d (by simp [hd]))]
        have : (((q % 256).toNat : Nat) : Int) = q := by omega
        simp [this]
    | large =>
      cases ds with
      | nil => simp at hk
      | cons d ds =>
        obtain ⟨k, v⟩ := d
        simp only [List.filter_cons, List.map_cons] at hk
        rw [if_pos (by decide)] at hk
        have hk1 : k = Sym.large := (List.cons.inj hk).1
        have hk2 := (List.cons.inj hk).2
        subst hk1
        obtain ⟨q, hq, hq2⟩ := hr (Sym.large, v) (by simp)
        simp only [] at hq hq2
        have hq3 : -32768 ≤ q ∧ q ≤ 32767 := by
          rcases hq2 with ⟨a, _⟩ | ⟨_, a, b⟩
          · cases a
          · exact ⟨a, b⟩
        subst hq
        have e1 : (q * 250).tdiv 250 = q := Int.mul_tdiv_cancel _ (by decide)
        have e2 : q * 250 / 250 = q := Int.mul_ediv_cancel _ (by decide)
        simp only [List.map_cons, Sym.code, List.flatMap_cons, deltaBytes, e1, List.cons_append,
          List.nil_append, readDeltas, pair, e2]
        rw [ih ds hk2 (fun d hd => hr d (by simp [hd]))]
        have hv : (q % 65536).toNat / 256 * 256 + (q % 65536).toNat % 256 = (q % 65536).toNat := by omega
        rw [hv]
        by_cases hneg : (q % 65536).toNat ≥ 32768
        · simp [hneg]; omega
        · have : (((q % 65536).toNat : Nat) : Int) = q := by omega
          simp [hneg, this]

/-! ### the whole packet -/

theorem getRTCP_tight {f : Feedback} {syms : List Sym} (h : FbInv f syms) :
    Tight f.getRTCP.chunks ∧ f.getRTCP.chunks.flatMap Chunk.syms = syms := by
  obtain ⟨hi, hf, hc⟩ := h.pack
  obtain ⟨extra, r1, r2, r3⟩ := flush_tight (f.last.deltas.size + 1) f.last f.chunks hi (by simp)
  simp only [] at hf hc
  have e : f.getRTCP.chunks = f.chunks.toList ++ extra := by simp only [Feedback.getRTCP, r1]
  rw [e]
  exact ⟨tight_append_full _ _ hf r3, by rw [List.flatMap_append, r2, hc]⟩

theorem chunkBytes_length (cs : List Chunk) : (chunkBytes cs).length = 2 * cs.length := by
  induction cs with
  | nil => rfl
  | cons c cs ih => simp only [chunkBytes, List.flatMap_cons, List.length_append, List.length_cons,
      List.length_nil] at ih ⊢; omega

theorem body_split (p : Packet) :
    ∃ tail, p.body = chunkBytes p.chunks ++ (p.deltas.flatMap deltaBytes ++ tail) := by
  unfold Packet.body chunkBytes
  simp only []
  split
  · exact ⟨[], by simp⟩
  · exact ⟨_, by simp only [List.append_assoc]; rfl⟩

/-- the specification's parser, applied to the bytes of the model's packet, finds the packet's
chunks and pairs every received status with its delta. -/
theorem parse_toWire {f : Feedback} {syms : List Sym} (h : FbInv f syms) (hc : f.count < 65536) :
    TwccSpec.parse f.getRTCP.toWire =
      some ⟨f.getRTCP.chunks.map Chunk.toW, pair syms f.deltas.toList⟩ := by
  obtain ⟨ht, hs⟩ := getRTCP_tight h
  obtain ⟨_, ⟨pad, hdec⟩, hd, hcnt⟩ := getRTCP_spec h
  have hlen : syms.length % 65536 = syms.length := by rw [← h.count]; omega
  have hex : Exact f.getRTCP.count f.getRTCP.chunks := by
    rw [hcnt, hlen, ← hs]; exact tight_exact _ ht
  obtain ⟨tail, hb⟩ := body_split f.getRTCP
  unfold TwccSpec.parse
  simp only [Packet.toWire, hb]
  rw [parseChunks_spec _ _ hex (tight_wf _ ht) _ [] _
    (by simp only [List.length_append, chunkBytes_length]; omega)]
  simp only [List.reverse_nil, List.nil_append]
  have hst : ((f.getRTCP.chunks.map Chunk.toW).flatMap WChunk.expand).take f.getRTCP.count
      = syms.map Sym.code := by
    have : (f.getRTCP.chunks.map Chunk.toW).flatMap WChunk.expand
        = (decodeChunks f.getRTCP.chunks).map Sym.code := by
      unfold decodeChunks
      induction f.getRTCP.chunks with
      | nil => rfl
      | cons c cs ih => simp only [List.map_cons, List.flatMap_cons, List.map_append, ih, Chunk.toW_expand]
    rw [this, hdec, hcnt, hlen, List.map_append, List.take_left' (by simp)]
  rw [hst, hd, readDeltas_spec syms f.deltas.toList tail h.kinds h.range]

/-- size bound: a packet with `n` statuses has at most `n` chunks and `n` deltas. -/
theorem marshalSize_le {f : Feedback} {syms : List Sym} (h : FbInv f syms) :
    f.getRTCP.marshalSize ≤ 23 + 4 * syms.length := by
  obtain ⟨ht, hs⟩ := getRTCP_tight h
  have hch : f.getRTCP.chunks.length ≤ syms.length := by
    rw [← hs]
    have : ∀ cs : List Chunk, (∀ c ∈ cs, c.wf) → cs.length ≤ (cs.flatMap Chunk.syms).length := by
      intro cs
      induction cs with
      | nil => intro _; simp
      | cons c cs ih =>
        intro hw
        have := wf_syms_pos (hw c (by simp))
        have := ih (fun d hd => hw d (by simp [hd]))
        simp only [List.length_cons, List.flatMap_cons, List.length_append]
        omega
    exact this _ (tight_wf _ ht)
  have hds : (f.getRTCP.deltas.map deltaSize).sum ≤ 2 * syms.length := by
    have e : f.getRTCP.deltas = f.deltas.toList := rfl
    rw [e]
    have h1 : ∀ ds : List (Sym × Int), (ds.map deltaSize).sum ≤ 2 * ds.length := by
      intro ds
      induction ds with
      | nil => simp
      | cons d ds ih =>
        have : deltaSize d ≤ 2 := by obtain ⟨k, v⟩ := d; cases k <;> simp [deltaSize]
        simp only [List.map_cons, List.sum_cons, List.length_cons]; omega
    have h2 : f.deltas.toList.length ≤ syms.length := by
      have := congrArg List.length h.kinds
      simp only [List.length_map] at this
      rw [this]; exact List.length_filter_le _ _
    have := h1 f.deltas.toList
    omega
  unfold Packet.marshalSize
  simp only []
  split <;> omega

/-! ### size bound after the F-33 fix -/

/-- a chunk emitted while packing (the chunk was full: at least 7 statuses) covers at least 7. -/
theorem ChunkSt.encode_big {c : ChunkSt} (h : c.Inv) (h7 : 7 ≤ c.deltas.toList.length) :
    7 ≤ (c.encode).1.syms.length := by
  obtain ⟨hL, hD, hDL, hDLg, hLen⟩ := h
  cases c with | mk hl hd ds =>
  cases ds with | mk l =>
  simp only [] at hL hD hDL hDLg hLen h7
  unfold ChunkSt.encode
  by_cases h1 : hd = false
  · subst h1
    simp only [if_true, List.size_toArray, Chunk.syms, List.length_replicate]
    omega
  · have hdt : hd = true := by cases hd <;> simp_all
    subst hdt
    by_cases h2 : l.length = 14
    · simp [h2, maxOneBitCap, Chunk.syms]
    · simp only [Bool.true_eq_false, if_false, List.size_toArray, h2, maxOneBitCap, maxTwoBitCap,
        List.extract_toArray, List.extract_eq_drop_take, List.drop_zero, Nat.sub_zero, Chunk.syms,
        List.length_take]
      omega

/-- encoding a chunk of fewer than 7 statuses leaves nothing behind. -/
theorem ChunkSt.encode_small {c : ChunkSt} (h7 : c.deltas.toList.length < 7) :
    (c.encode).2.deltas.toList = [] := by
  cases c with | mk hl hd ds =>
  cases ds with | mk l =>
  simp only [] at h7
  unfold ChunkSt.encode
  by_cases h1 : hd = false
  · simp [h1]
  · have hdt : hd = true := by cases hd <;> simp_all
    subst hdt
    have h2 : ¬ l.length = 14 := by omega
    simp only [Bool.true_eq_false, if_false, List.size_toArray, h2, maxOneBitCap, maxTwoBitCap,
      List.extract_toArray, List.extract_eq_drop_take]
    have : min 7 l.length = l.length := by omega
    simp [this]

theorem flush_empty (fuel : Nat) (c : ChunkSt) (cs : Array Chunk) (h : c.deltas.size = 0) :
    flushChunks fuel c cs = cs := by
  cases fuel with
  | zero => rfl
  | succ fuel => simp [flushChunks, h]

/-- the final flush appends at most two chunks. -/
theorem flush_size (fuel : Nat) (c : ChunkSt) (cs : Array Chunk) (h : c.Inv)
    (hf : c.deltas.toList.length < fuel) : (flushChunks fuel c cs).size ≤ cs.size + 2 := by
  by_cases hz : c.deltas.size = 0
  · rw [flush_empty _ _ _ hz]; omega
  · have hne : c.deltas.toList ≠ [] := by
      intro he
      have : c.deltas.size = 0 := by rw [← Array.length_toList, he]; rfl
      omega
    obtain ⟨e1, _, _, e4, _, e6⟩ := ChunkSt.encode_spec h hne
    have hlen1 : (c.encode).2.deltas.toList.length < 7 := by
      by_cases h7 : 7 ≤ c.deltas.toList.length
      · exact (e4 h7).2
      · rw [ChunkSt.encode_small (by omega)]; simp
    cases fuel with
    | zero => omega
    | succ fuel =>
      unfold flushChunks
      simp only [show c.deltas.size > 0 by omega, if_true]
      by_cases hz1 : (c.encode).2.deltas.size = 0
      · rw [flush_empty _ _ _ hz1]; simp
      · have hempty := ChunkSt.encode_small hlen1
        cases fuel with
        | zero =>
          simp only [Array.length_toList] at hf e6
          omega
        | succ fuel =>
          unfold flushChunks
          simp only [show (c.encode).2.deltas.size > 0 by omega, if_true]
          rw [flush_empty _ _ _ (by rw [← Array.length_toList, hempty]; rfl)]
          simp

/-- every chunk emitted before the flush covers at least 7 statuses. -/
theorem packBig_step {st : ChunkSt × Array Chunk} {done : List Sym} (h : PackInv st done)
    (hb : ∀ ch ∈ st.2.toList, 7 ≤ ch.syms.length) (s : Sym) :
    ∀ ch ∈ (packStep st s).2.toList, 7 ≤ ch.syms.length := by
  unfold packStep
  by_cases hcan : st.1.canAdd s = true
  · simp only [hcan, if_true]; exact hb
  · have hcf : st.1.canAdd s = false := by simpa using hcan
    simp only [hcf, Bool.false_eq_true, if_false]
    have hlen : 7 ≤ st.1.deltas.toList.length :=
      Nat.le_of_not_lt fun hlt => hcan ((ChunkSt.canAdd_iff _ _).mpr (Or.inl hlt))
    intro ch hch
    simp only [Array.toList_push, List.mem_append, List.mem_singleton] at hch
    rcases hch with hch | hch
    · exact hb ch hch
    · rw [hch]; exact ChunkSt.encode_big h.inv hlen

/-- all chunks already emitted by a feedback cover at least 7 statuses each. -/
def FbBig (f : Feedback) : Prop := ∀ ch ∈ f.chunks.toList, 7 ≤ ch.syms.length

theorem pushSym_big {f : Feedback} {syms : List Sym} (hp : PackInv (f.last, f.chunks) syms) (hb : FbBig f)
    (s : Sym) : FbBig (f.pushSym s) := by
  have := packBig_step hp hb s
  rw [← pushSym_last_chunks] at this
  exact this

theorem addNRs_big (n : Nat) {f : Feedback} {syms : List Sym} (h : FbInv f syms) (hb : FbBig f) :
    FbBig (Feedback.addNRs n f) := by
  induction n generalizing f syms with
  | zero => exact hb
  | succ n ih =>
    simp only [Feedback.addNRs]
    exact ih (fbInv_pushNR h) (pushSym_big h.pack hb .nr)

theorem addReceived_big {f f' : Feedback} {syms : List Sym} (h : FbInv f syms) (hb : FbBig f)
    {seq : Nat} {t : Int} (hadd : f.addReceived seq t = some f') : FbBig f' ∧ f'.len ≤ f.len + 2 := by
  unfold Feedback.addReceived at hadd
  simp only [] at hadd
  generalize delta250 (t - f.lastUS) = q at hadd
  by_cases hr : q < -32768 ∨ q > 32767
  · simp [hr] at hadd
  · simp only [hr, if_false] at hadd
    by_cases hbig : f.len ≥ maxDeltaBytes
    · simp [hbig] at hadd
    simp only [hbig, if_false] at hadd
    obtain ⟨i0, d1, d2, _⟩ := addNRs_spec (sub16 seq f.nextSeq) h
    have b0 := addNRs_big (sub16 seq f.nextSeq) h hb
    generalize Feedback.addNRs (sub16 seq f.nextSeq) f = g at *
    by_cases hsm : q ≥ 0 ∧ q ≤ 255
    · simp only [hsm, and_self, if_true, Option.some.injEq] at hadd
      have hp : PackInv (({ g with nextSeq := seq, len := g.len + 1 } : Feedback).last,
          ({ g with nextSeq := seq, len := g.len + 1 } : Feedback).chunks) _ := i0.pack
      have := pushSym_big hp b0 Sym.small
      obtain ⟨_, _, c3, _⟩ := pushSym_fields ({ g with nextSeq := seq, len := g.len + 1 } : Feedback) Sym.small
      rw [← hadd]
      exact ⟨this, by show (Feedback.pushSym _ _).len ≤ _; rw [c3]; show g.len + 1 ≤ _; omega⟩
    · simp only [hsm, if_false, Option.some.injEq] at hadd
      have hp : PackInv (({ g with nextSeq := seq, len := g.len + 2 } : Feedback).last,
          ({ g with nextSeq := seq, len := g.len + 2 } : Feedback).chunks) _ := i0.pack
      have := pushSym_big hp b0 Sym.large
      obtain ⟨_, _, c3, _⟩ := pushSym_fields ({ g with nextSeq := seq, len := g.len + 2 } : Feedback) Sym.large
      rw [← hadd]
      exact ⟨this, by show (Feedback.pushSym _ _).len ≤ _; rw [c3]; show g.len + 2 ≤ _; omega⟩

theorem built_big {f : Feedback} (h : Built f) : FbBig f ∧ f.len ≤ maxDeltaBytes + 1 := by
  induction h with
  | base s m c seq t =>
    exact ⟨by intro ch hch; simp [newFeedback, Feedback.setBase] at hch, by simp [newFeedback, Feedback.setBase]⟩
  | add seq t hbuilt hadd ih =>
    obtain ⟨syms, hi⟩ := built_inv hbuilt
    obtain ⟨b, l⟩ := addReceived_big hi ih.1 hadd
    have := addReceived_len hadd
    exact ⟨b, by omega⟩

/-- after the F-33 fix a packet of `n` statuses needs at most `n/7 + 2` chunks and
`maxDeltaBytes + 1` bytes of deltas. -/
theorem marshalSize_fix {f : Feedback} (h : Built f) {syms : List Sym} (hi : FbInv f syms) :
    f.getRTCP.marshalSize ≤ 20 + 2 * (syms.length / 7 + 2) + (maxDeltaBytes + 1) + 3 := by
  obtain ⟨hb, hl⟩ := built_big h
  obtain ⟨hinv, hf, hc⟩ := hi.pack
  simp only [] at hf hc
  have hfl := flush_size (f.last.deltas.size + 1) f.last f.chunks hinv (by simp)
  have hch : f.getRTCP.chunks.length = (flushChunks (f.last.deltas.size + 1) f.last f.chunks).size := by
    simp [Feedback.getRTCP]
  have h7 : 7 * f.chunks.size ≤ syms.length := by
    rw [← hc, List.length_append]
    have : ∀ cs : List Chunk, (∀ ch ∈ cs, 7 ≤ ch.syms.length) → 7 * cs.length ≤ (cs.flatMap Chunk.syms).length := by
      intro cs
      induction cs with
      | nil => intro _; simp
      | cons c cs ih =>
        intro hw
        have := hw c (by simp)
        have := ih (fun d hd => hw d (by simp [hd]))
        simp only [List.length_cons, List.flatMap_cons, List.length_append]
        omega
    have := this f.chunks.toList hb
    simp only [Array.length_toList] at this
    omega
  have hds : (f.getRTCP.deltas.map deltaSize).sum = f.len := by
    show (f.deltas.toList.map deltaSize).sum = f.len
    rw [hi.len]
  unfold Packet.marshalSize
  simp only []
  rw [hch, hds]
  split <;> omega

end Interceptor.Twcc

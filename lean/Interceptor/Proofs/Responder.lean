/-
Invariant of the responder model: every stream's ring satisfies the ring invariant against a ghost
windowed spec of what was written to that stream since it was last cleared.
-/
import Interceptor.Proofs.RtpBufferInv
namespace Interceptor.RtpBuffer
open Interceptor

/-- ghost state: per stream index, the spec of the sends it has accepted. -/
abbrev Specs := Nat → SBuf Pkt

def emptySpec : SBuf Pkt := SBuf.new 0

def StreamOk (st : Option Stream) (s : SBuf Pkt) : Prop :=
  match st with
  | some st =>
    match st.buf with
    | some b => Inv Pkt.seq b s
    | none => s.m = []
  | none => s.m = []

structure RespInv (r : Resp) (sp : Specs) : Prop where
  valid : validSize r.size = true
  streams : ∀ w, StreamOk r.streams[w]? (sp w)

theorem sget_nil {s : SBuf Pkt} (h : s.m = []) (x : Nat) : s.get Pkt.seq x = none := by
  unfold SBuf.get; simp [h]

theorem streamGet_eq {r : Resp} {sp : Specs} (h : RespInv r sp) (w x : Nat) (hx : x < 65536) :
    streamGet r w x = (sp w).get Pkt.seq x := by
  have := h.streams w
  unfold streamGet
  unfold StreamOk at this
  cases hs : r.streams[w]? with
  | none => rw [hs] at this; simp only; exact (sget_nil this x).symm
  | some st =>
    rw [hs] at this
    simp only at this ⊢
    cases hb : st.buf with
    | none => rw [hb] at this; exact (sget_nil this x).symm
    | some b => rw [hb] at this; exact get_eq_of_inv this x hx

theorem respInv_new {n k : Nat} {r : Resp} (h : Resp.new n k = some r) : RespInv r (fun _ => emptySpec) := by
  unfold Resp.new at h
  split at h
  · rename_i hv
    cases h
    exact ⟨hv, by intro w; simp [StreamOk, emptySpec, SBuf.new]⟩
  · cases h

/-- ghost update for `bind`. -/
def specBind (r : Resp) (fb : Bool) (sp : Specs) : Specs :=
  fun w => if fb = true ∧ w = r.streams.size then SBuf.new r.size else sp w

theorem respInv_bind {r : Resp} {sp : Specs} (h : RespInv r sp) (ssrc rs rp : Nat) (fb : Bool)
    (hfresh : (sp r.streams.size).m = []) :
    RespInv (r.bind ssrc rs rp fb) (specBind r fb sp) := by
  unfold Resp.bind specBind
  cases fb with
  | true =>
    refine ⟨h.valid, ?_⟩
    intro w
    simp only [if_true, Array.getElem?_push, true_and]
    by_cases e : w = r.streams.size
    · simp only [e, if_true, StreamOk]
      have : (Buf.new r.size : Option (Buf Pkt)) = some { slots := Array.replicate r.size none, size := r.size, highest := 0, started := false } := by
        simp [Buf.new, h.valid]
      rw [this]
      exact inv_new this
    · simp only [e, if_false]; exact h.streams w
  | false =>
    refine ⟨h.valid, ?_⟩
    intro w
    simp only [Array.getElem?_push, false_and, if_false, Bool.false_eq_true]
    by_cases e : w = r.streams.size
    · simp only [e, if_true, StreamOk]; exact hfresh
    · simp only [e, if_false]; exact h.streams w

/-- ghost update for a `write`: the stored packet (if any) is sent to the stream's spec. -/
def specWrite (r : Resp) (w : Nat) (h : Hdr) (pl : List Nat) (sp : Specs) : Specs :=
  match r.streams[w]? with
  | none => sp
  | some st =>
    match st.buf with
    | none => sp
    | some _ =>
      if h.ssrc ≠ st.ssrc then sp
      else match (newPacket h pl st.rtxSsrc st.rtxPt r.rtxNext).1 with
        | .error _ => sp
        | .ok p => fun v => if v = w then (sp w).send Pkt.seq p else sp v

theorem newPacket_seq {h : Hdr} {pl : List Nat} {rs rp k : Nat} {p : Pkt}
    (e : (newPacket h pl rs rp k).1 = .ok p) : p.seq = h.seq := by
  unfold newPacket at e
  simp only [apply_ite Prod.fst] at e
  repeat' split at e
  all_goals first | (simp at e; done) | (simp at e; subst e; rfl)

theorem respInv_write {r : Resp} {sp : Specs} (hi : RespInv r sp) (w : Nat) (h : Hdr) (pl : List Nat)
    (hseq : h.seq < 65536) :
    RespInv (r.write w h pl).1 (specWrite r w h pl sp) := by
  unfold Resp.write specWrite
  cases hs : r.streams[w]? with
  | none => exact hi
  | some st =>
    simp only
    cases hb : st.buf with
    | none => exact hi
    | some b =>
      simp only
      by_cases hss : h.ssrc ≠ st.ssrc
      · rw [if_pos hss, if_pos hss]; exact hi
      · rw [if_neg hss, if_neg hss]
        generalize hnp : newPacket h pl st.rtxSsrc st.rtxPt r.rtxNext = np
        obtain ⟨res, adv⟩ := np
        simp only
        cases res with
        | error e =>
          exact ⟨hi.valid, fun v => hi.streams v⟩
        | ok p =>
          have hp : p.seq = h.seq := newPacket_seq (by rw [hnp])
          have hw := hi.streams w
          rw [hs] at hw
          simp only [StreamOk, hb] at hw
          refine ⟨hi.valid, ?_⟩
          intro v
          simp only [Array.getElem?_setIfInBounds]
          by_cases e : w = v
          · subst e
            have hlt : w < r.streams.size := by
              have := Array.getElem?_eq_some_iff.1 hs; exact this.1
            simp only [if_true, hlt, StreamOk]
            exact inv_add hw p (by rw [show Pkt.seq p = p.seq from rfl, hp]; exact hseq)
          · have e' : ¬ v = w := fun c => e c.symm
            simp only [e, e', if_false]; exact hi.streams v

theorem clearStream_inv {r : Resp} {sp : Specs} (hi : RespInv r sp) (w : Nat) :
    RespInv (clearStream r w) (fun v => if v = w then (sp w).clear else sp v) := by
  unfold clearStream
  have hw := hi.streams w
  cases hs : r.streams[w]? with
  | none =>
    refine ⟨hi.valid, ?_⟩
    intro v
    by_cases e : v = w
    · subst e; rw [hs] at hw ⊢; simp [StreamOk, SBuf.clear]
    · simp only [e, if_false]; exact hi.streams v
  | some st =>
    rw [hs] at hw
    simp only
    cases hb : st.buf with
    | none =>
      refine ⟨hi.valid, ?_⟩
      intro v
      by_cases e : v = w
      · subst e; rw [hs]; simp [StreamOk, hb, SBuf.clear]
      · simp only [e, if_false]; exact hi.streams v
    | some b =>
      simp only [StreamOk, hb] at hw
      refine ⟨hi.valid, ?_⟩
      intro v
      simp only [Array.getElem?_setIfInBounds]
      by_cases e : w = v
      · subst e
        have hlt : w < r.streams.size := (Array.getElem?_eq_some_iff.1 hs).1
        simp only [if_true, hlt, StreamOk]
        exact inv_clear hw
      · have e' : ¬ v = w := fun c => e c.symm
        simp only [e, e', if_false]; exact hi.streams v


theorem spec_fresh {r : Resp} {sp : Specs} (hi : RespInv r sp) : (sp r.streams.size).m = [] := by
  have := hi.streams r.streams.size
  rw [Array.getElem?_eq_none (Nat.le_refl _)] at this
  exact this

def specUnbind (r : Resp) (ssrc : Nat) (sp : Specs) : Specs :=
  match lookupBound r.bound ssrc with
  | none => sp
  | some w => fun v => if v = w then (sp w).clear else sp v

theorem respInv_unbind {r : Resp} {sp : Specs} (hi : RespInv r sp) (ssrc : Nat) :
    RespInv (r.unbind ssrc) (specUnbind r ssrc sp) := by
  unfold Resp.unbind specUnbind
  cases lookupBound r.bound ssrc with
  | none => exact hi
  | some w =>
    have h' : RespInv { r with bound := r.bound.filter (·.1 ≠ ssrc) } sp := ⟨hi.valid, hi.streams⟩
    exact clearStream_inv h' w

def specClearList (l : List (Nat × Nat)) (sp : Specs) : Specs :=
  l.foldl (fun sp e => fun v => if v = e.2 then (sp e.2).clear else sp v) sp

theorem clearList_inv (l : List (Nat × Nat)) {r : Resp} {sp : Specs} (hi : RespInv r sp) :
    RespInv (l.foldl (fun r e => clearStream r e.2) r) (specClearList l sp) := by
  induction l generalizing r sp with
  | nil => exact hi
  | cons e l ih =>
    simp only [List.foldl_cons, specClearList]
    exact ih (clearStream_inv hi e.2)

theorem respInv_close {r : Resp} {sp : Specs} (hi : RespInv r sp) :
    RespInv r.close (specClearList r.bound sp) := by
  unfold Resp.close
  exact clearList_inv r.bound (r := { r with bound := [], closed := true,
                                             closeWaiting := r.closeWaiting || r.pending.isSome })
    ⟨hi.valid, hi.streams⟩

/-! whole histories -/

inductive Op
  | bind (ssrc rtxSsrc rtxPt : Nat) (fb : Bool)
  | write (w : Nat) (h : Hdr) (pl : List Nat)
  | unbind (ssrc : Nat)
  | close

def Op.ok : Op → Prop
  | .write _ h _ => h.seq < 65536
  | _ => True

def applyOp (r : Resp) : Op → Resp
  | .bind a b c fb => r.bind a b c fb
  | .write w h pl => (r.write w h pl).1
  | .unbind s => r.unbind s
  | .close => r.close

def applySpec (r : Resp) (sp : Specs) : Op → Specs
  | .bind _ _ _ fb => specBind r fb sp
  | .write w h pl => specWrite r w h pl sp
  | .unbind s => specUnbind r s sp
  | .close => specClearList r.bound sp

/-- run a history; returns the final state and the ghost specs. -/
def runOps : Resp → Specs → List Op → Resp × Specs
  | r, sp, [] => (r, sp)
  | r, sp, op :: ops => runOps (applyOp r op) (applySpec r sp op) ops

theorem respInv_op {r : Resp} {sp : Specs} (hi : RespInv r sp) (op : Op) (hok : op.ok) :
    RespInv (applyOp r op) (applySpec r sp op) := by
  cases op with
  | bind a b c fb => exact respInv_bind hi a b c fb (spec_fresh hi)
  | write w h pl => exact respInv_write hi w h pl hok
  | unbind s => exact respInv_unbind hi s
  | close => exact respInv_close hi

theorem respInv_run {r : Resp} {sp : Specs} (hi : RespInv r sp) (ops : List Op) (hok : ∀ op ∈ ops, op.ok) :
    RespInv (runOps r sp ops).1 (runOps r sp ops).2 := by
  induction ops generalizing r sp with
  | nil => exact hi
  | cons op ops ih =>
    simp only [runOps]
    exact ih (respInv_op hi op (hok op (by simp))) (fun o ho => hok o (by simp [ho]))

theorem expand_lt (pairs : List (Nat × Nat)) (h : ∀ pr ∈ pairs, pr.1 < 65536) : ∀ x ∈ expand pairs, x < 65536 := by
  intro x hx
  unfold expand at hx
  simp only [List.mem_flatMap] at hx
  obtain ⟨pr, hpr, hx⟩ := hx
  unfold pairSeqs at hx
  simp only [List.mem_cons, List.mem_map] at hx
  rcases hx with rfl | ⟨i, _, rfl⟩
  · exact h pr hpr
  · exact add16_lt _ _

theorem filterMap_congr' {α β : Type} {l : List α} {f g : α → Option β} (h : ∀ x ∈ l, f x = g x) :
    l.filterMap f = l.filterMap g := by
  induction l with
  | nil => rfl
  | cons a l ih =>
    simp only [List.filterMap_cons, h a (by simp)]
    rw [ih (fun x hx => h x (by simp [hx]))]

theorem resendAll_eq {r : Resp} {sp : Specs} (hi : RespInv r sp) (w : Nat) (seqs : List Nat)
    (h : ∀ x ∈ seqs, x < 65536) :
    resendAll r w seqs = seqs.filterMap ((sp w).get Pkt.seq) := by
  unfold resendAll
  exact filterMap_congr' (fun x hx => streamGet_eq hi w x (h x hx))

end Interceptor.RtpBuffer

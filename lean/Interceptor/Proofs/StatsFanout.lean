/-
C19 helper lemmas, part 1: `Get(s)` on the interceptor = the fold of the per-recorder step of
`s` over the active window of `s` (fan-out, `running` flag, first bind wins).
-/
import Interceptor.Model.Stats
import Interceptor.Spec.Stats
namespace Interceptor.Stats
open Interceptor.Stats.Spec

/-- what the history does to the recorder slot of `s`. -/
def projStep (s : Nat) (o : Option Rec) (e : Event) : Option Rec :=
  match o with
  | some r => some (r.step e)
  | none =>
    match e with
    | .bind s' rate => if s' = s then some (Rec.new s rate) else none
    | _ => none

theorem Rec.step_ssrc (e : Event) (r : Rec) : (r.step e).ssrc = r.ssrc := by
  unfold Rec.step
  split
  · rfl
  · split <;> rfl

theorem Rec.step_rate (e : Event) (r : Rec) : (r.step e).rate = r.rate := by
  unfold Rec.step
  split
  · rfl
  · split <;> rfl

theorem Rec.step_bind (s' rate : Nat) (r : Rec) : r.step (.bind s' rate) = r := by
  unfold Rec.step
  simp only [recStep]
  split <;> rfl

theorem find_map_step (e : Event) (s : Nat) (i : List Rec) :
    (i.map (Rec.step e)).find? (·.ssrc == s) = (i.find? (·.ssrc == s)).map (Rec.step e) := by
  induction i with
  | nil => rfl
  | cons r i ih =>
    simp only [List.map_cons, List.find?_cons, Rec.step_ssrc]
    split
    · rfl
    · exact ih

theorem find_step (s : Nat) (i : Icpt) (e : Event) :
    (i.step e).find? (·.ssrc == s) = projStep s (i.find? (·.ssrc == s)) e := by
  cases e with
  | bind s' rate =>
    simp only [Icpt.step]
    split
    · next hany =>
      cases hf : i.find? (·.ssrc == s) with
      | some r => simp [projStep, Rec.step_bind]
      | none =>
        simp only [projStep]
        split
        · next hs =>
          subst hs
          rw [List.find?_eq_none] at hf
          rw [List.any_eq_true] at hany
          obtain ⟨x, hx, hx2⟩ := hany
          exact absurd hx2 (hf x hx)
        · rfl
    · next hany =>
      rw [List.find?_append]
      cases hf : i.find? (·.ssrc == s) with
      | some r => simp [projStep, Rec.step_bind]
      | none =>
        simp only [projStep, Option.none_or, List.find?_cons, List.find?_nil, Rec.new]
        by_cases hs : s' = s
        · simp [hs]
        · have hb : (s' == s) = false := by simp [hs]
          simp [hs, hb]
  | rtpIn now via p => simp only [Icpt.step, find_map_step, projStep]; cases i.find? (·.ssrc == s) <;> rfl
  | rtpOut via p => simp only [Icpt.step, find_map_step, projStep]; cases i.find? (·.ssrc == s) <;> rfl
  | rtcpIn now pkts => simp only [Icpt.step, find_map_step, projStep]; cases i.find? (·.ssrc == s) <;> rfl
  | rtcpOut pkts => simp only [Icpt.step, find_map_step, projStep]; cases i.find? (·.ssrc == s) <;> rfl
  | close => simp only [Icpt.step, find_map_step, projStep]; cases i.find? (·.ssrc == s) <;> rfl

theorem find_foldl (s : Nat) (evs : List Event) (i : Icpt) :
    (evs.foldl Icpt.step i).find? (·.ssrc == s) = evs.foldl (projStep s) (i.find? (·.ssrc == s)) := by
  induction evs generalizing i with
  | nil => rfl
  | cons e evs ih => simp only [List.foldl_cons, ih, find_step]

/-- the slot of `s` after a history. -/
theorem find_run (s : Nat) (evs : List Event) :
    (Icpt.run evs).find? (·.ssrc == s) = evs.foldl (projStep s) none := by
  unfold Icpt.run
  rw [find_foldl]
  rfl

theorem foldl_proj_some (s : Nat) (evs : List Event) (r : Rec) :
    evs.foldl (projStep s) (some r) = some (evs.foldl (fun r e => r.step e) r) := by
  induction evs generalizing r with
  | nil => rfl
  | cons e evs ih => simp only [List.foldl_cons, projStep, ih]

theorem foldl_stopped (evs : List Event) (r : Rec) (h : r.running = false) :
    evs.foldl (fun r e => r.step e) r = r := by
  induction evs generalizing r with
  | nil => rfl
  | cons e evs ih =>
    simp only [List.foldl_cons]
    have : r.step e = r := by
      unfold Rec.step
      split
      · cases r; simp_all
      · simp [h]
    rw [this]
    exact ih r h

theorem step_running (e : Event) (r : Rec) (h : r.running = true) (hc : isClose e = false) :
    r.step e = { r with st := recStep r.ssrc r.rate r.st e } := by
  cases e <;> first | (simp [isClose] at hc; done) | simp [Rec.step, h]

/-- a running recorder folds `recStep` until the first `close`. -/
theorem foldl_running (evs : List Event) (r : Rec) (h : r.running = true) :
    (evs.foldl (fun r e => r.step e) r).st
      = (evs.takeWhile (fun e => !isClose e)).foldl (recStep r.ssrc r.rate) r.st := by
  induction evs generalizing r with
  | nil => rfl
  | cons e evs ih =>
    simp only [List.foldl_cons]
    cases hc : isClose e with
    | true =>
      have he : e = .close := by cases e <;> simp [isClose] at hc; rfl
      subst he
      rw [List.takeWhile_cons, hc]
      simp only [Bool.not_true, Bool.false_eq_true, if_false, List.foldl_nil]
      rw [foldl_stopped]
      · rfl
      · rfl
    | false =>
      rw [List.takeWhile_cons, hc]
      simp only [Bool.not_false, if_true, List.foldl_cons]
      rw [step_running e r h hc]
      exact ih _ h

theorem foldl_proj_none (s : Nat) (evs : List Event) :
    (evs.foldl (projStep s) none).map (·.st)
      = (activation s evs).map fun a => a.2.foldl (recStep s (F64.ofInt (a.1 : Int))) {} := by
  induction evs with
  | nil => rfl
  | cons e evs ih =>
    simp only [List.foldl_cons]
    cases e with
    | bind s' rate =>
      by_cases hs : s' = s
      · subst hs
        simp only [projStep, if_true, activation, List.dropWhile_cons, isBind, beq_self_eq_true,
          Bool.not_true, Bool.false_eq_true, if_false, Option.map_some]
        rw [foldl_proj_some, Option.map_some, foldl_running _ _ rfl]
        rfl
      · have hb : (s' == s) = false := by simp [hs]
        simp only [projStep, hs, if_false]
        rw [ih]
        simp [activation, isBind, hb]
    | rtpIn now via p => simp only [projStep]; rw [ih]; simp [activation, isBind]
    | rtpOut via p => simp only [projStep]; rw [ih]; simp [activation, isBind]
    | rtcpIn now pkts => simp only [projStep]; rw [ih]; simp [activation, isBind]
    | rtcpOut pkts => simp only [projStep]; rw [ih]; simp [activation, isBind]
    | close => simp only [projStep]; rw [ih]; simp [activation, isBind]

/-- ★ `Get(s)` after any history = the per-recorder fold over the active window of `s`. -/
theorem get_eq_fold (s : Nat) (evs : List Event) :
    (Icpt.run evs).get s
      = (activation s evs).map fun a => a.2.foldl (recStep s (F64.ofInt (a.1 : Int))) {} := by
  unfold Icpt.get
  rw [find_run, foldl_proj_none]

end Interceptor.Stats

/- rtpfb.convertTWCC equals the flat spec decoder restricted to [base, base+count) (C09.T1/T3) -/
import Interceptor.Proofs.FeedbackSpec
import Interceptor.Proofs.FeedbackRange
namespace Interceptor.Rtpfb
open Interceptor Feedback Feedback.Spec
open Interceptor.FeedbackAdapter (walk_cons walk_append walk_length)

/-- the acknowledgement rtpfb derives from one spec status (nothing for a reserved symbol). -/
def toRAck (e : Nat × St) : Option RAck :=
  match e.2 with
  | .lost => some ⟨e.1, false, 0, 0⟩
  | .recvAt t => some ⟨e.1, true, t, 0⟩
  | .recvNoTime => some ⟨e.1, true, 0, 0⟩
  | .reserved => none

def acksOf (fb : Twcc) (offset : Nat) (sts : List St) : List RAck :=
  (number (fb.base + offset) sts).filterMap toRAck

theorem number_append (a b : List St) : ∀ i, number i (a ++ b) = number i a ++ number (i + a.length) b := by
  induction a with
  | nil => intro i; simp [number]
  | cons s ss ih =>
    intro i
    simp only [List.cons_append, number, ih (i + 1), List.length_cons]
    rw [show i + 1 + ss.length = i + (ss.length + 1) by omega]

theorem acksOf_append (fb : Twcc) (offset : Nat) (a b : List St) :
    acksOf fb offset (a ++ b) = acksOf fb offset a ++ acksOf fb (offset + a.length) b := by
  unfold acksOf
  rw [number_append, List.filterMap_append, Nat.add_assoc]

theorem acksOf_cons (fb : Twcc) (offset : Nat) (st : St) (sts : List St) :
    acksOf fb offset (st :: sts) =
      (toRAck ((fb.base + offset) % 65536, st)).toList ++ acksOf fb (offset + 1) sts := by
  unfold acksOf
  simp only [number, List.filterMap_cons, Nat.add_assoc]
  cases toRAck ((fb.base + offset) % 65536, st) <;> simp

/-- the outcome of the symbol loop in terms of the spec walk over the symbols still inside the
declared range. -/
def symOut (fb : Twcc) (ss : List Nat) (offset di : Nat) : Option (List St × Int × Nat) → Out
  | none => .retNil
  | some r =>
    if ss.length ≤ fb.count - offset then
      .cont (acksOf fb offset r.1) (offset + ss.length) (di + r.2.2) r.2.1
    else .ret (acksOf fb offset r.1)

theorem prepend_nil (o : Out) : o.prepend [] = o := by cases o <;> simp [Out.prepend]

theorem symOut_cons (fb : Twcc) (s : Nat) (ss : List Nat) (offset di k0 : Nat) (hlt : offset < fb.count)
    (st : St) (W : Option (List St × Int × Nat)) :
    (symOut fb ss (offset + 1) (di + k0) W).prepend (toRAck ((fb.base + offset) % 65536, st)).toList =
      symOut fb (s :: ss) offset di (W.map fun r => (st :: r.1, r.2.1, r.2.2 + k0)) := by
  cases W with
  | none => simp [symOut, Out.prepend]
  | some r =>
    simp only [symOut, Option.map_some, List.length_cons]
    have hiff : (ss.length ≤ fb.count - (offset + 1)) ↔ (ss.length + 1 ≤ fb.count - offset) := by omega
    by_cases hc : ss.length ≤ fb.count - (offset + 1)
    · rw [if_pos hc, if_pos (hiff.mp hc)]
      simp only [Out.prepend, acksOf_cons]
      congr 1 <;> omega
    · rw [if_neg hc, if_neg (fun h => hc (hiff.mpr h))]
      simp only [Out.prepend, acksOf_cons]

theorem symLoop_eq (fb : Twcc) (ss : List Nat) : ∀ (offset di : Nat) (ts : Int),
    symLoop fb ss offset di ts =
      .ok (symOut fb ss offset di (walk ts (ss.take (fb.count - offset)) (fb.deltas.drop di))) := by
  induction ss with
  | nil => intro offset di ts; simp [symLoop, walk, symOut, acksOf, number]
  | cons s ss ih =>
    intro offset di ts
    unfold symLoop
    by_cases hc : offset ≥ fb.count
    · rw [if_pos hc]
      have : fb.count - offset = 0 := by omega
      simp [this, walk, symOut, acksOf, number]
    · rw [if_neg hc]
      have hlt : offset < fb.count := by omega
      have hn : fb.count - offset = (fb.count - (offset + 1)) + 1 := by omega
      rw [hn, List.take_succ_cons, walk_cons]
      have hseq : (fb.base + offset % 65536) % 65536 = (fb.base + offset) % 65536 := by omega
      simp only [hseq]
      by_cases h0 : s = symNotReceived
      · rw [if_pos h0, if_pos h0, ih]
        simp only [Res.bind_ok, Res.pure_eq]
        have := symOut_cons fb s ss offset di 0 hlt St.lost
          (walk ts (List.take (fb.count - (offset + 1)) ss) (List.drop di fb.deltas))
        simp only [Nat.add_zero, toRAck, Option.toList] at this
        rw [this]
      · rw [if_neg h0, if_neg h0]
        by_cases h1 : s = symSmall ∨ s = symLarge
        · rw [if_pos h1, if_pos h1]
          by_cases hd : di ≥ fb.deltas.length
          · rw [if_pos hd, List.drop_eq_nil_of_le hd]
            simp [symOut]
          · rw [if_neg hd]
            have hdl : di < fb.deltas.length := by omega
            rw [idx_lt _ _ _ hdl, List.drop_eq_getElem_cons hdl]
            simp only [Res.bind_ok, Res.pure_eq]
            rw [ih]
            simp only [Res.bind_ok, Res.pure_eq]
            have := symOut_cons fb s ss offset di 1 hlt (St.recvAt (ts + fb.deltas[di] * 1000))
              (walk (ts + fb.deltas[di] * 1000) (List.take (fb.count - (offset + 1)) ss) (List.drop (di + 1) fb.deltas))
            simp only [toRAck, Option.toList] at this
            rw [this]
        · rw [if_neg h1, if_neg h1]
          by_cases h3 : s = symNoDelta
          · rw [if_pos h3, if_pos h3, ih]
            simp only [Res.bind_ok, Res.pure_eq]
            have := symOut_cons fb s ss offset di 0 hlt St.recvNoTime
              (walk ts (List.take (fb.count - (offset + 1)) ss) (List.drop di fb.deltas))
            simp only [Nat.add_zero, toRAck, Option.toList] at this
            rw [this]
          · rw [if_neg h3, if_neg h3, ih]
            have := symOut_cons fb s ss offset di 0 hlt St.reserved
              (walk ts (List.take (fb.count - (offset + 1)) ss) (List.drop di fb.deltas))
            simp only [Nat.add_zero, toRAck, Option.toList, prepend_nil] at this
            rw [this]

def Out.final : Out → List RAck
  | .cont as _ _ _ => as
  | .ret as => as
  | .retNil => []

def specAcks (fb : Twcc) (offset : Nat) : Option (List St × Int × Nat) → List RAck
  | none => []
  | some r => acksOf fb offset r.1

theorem chunkStep_eq (fb : Twcc) (c : Chunk) (offset di : Nat) (ts : Int) :
    chunkStep fb c offset di ts =
      .ok (symOut fb (expand c) offset di
        (walk ts ((expand c).take (fb.count - offset)) (fb.deltas.drop di))) := by
  cases c with
  | rl sym run => exact symLoop_eq fb _ _ _ _
  | sv syms => exact symLoop_eq fb _ _ _ _
  | other => simp [chunkStep, expand, walk, symOut, acksOf, number]

theorem chunkLoop_final (fb : Twcc) (cs : List Chunk) : ∀ (offset di : Nat) (ts : Int),
    ∃ o, chunkLoop fb cs offset di ts = .ok o ∧
      (o = .retNil ↔ walk ts ((symbols cs).take (fb.count - offset)) (fb.deltas.drop di) = none) ∧
      o.final = specAcks fb offset (walk ts ((symbols cs).take (fb.count - offset)) (fb.deltas.drop di)) := by
  induction cs with
  | nil => intro offset di ts; exact ⟨_, rfl, by simp [symbols, walk], by simp [symbols, walk, Out.final, specAcks, acksOf, number]⟩
  | cons c cs ih =>
    intro offset di ts
    have hsym : symbols (c :: cs) = expand c ++ symbols cs := by simp [symbols]
    rw [hsym, List.take_append, walk_append]
    unfold chunkLoop
    rw [chunkStep_eq]
    simp only [Res.bind_ok]
    cases hw : walk ts (List.take (fb.count - offset) (expand c)) (List.drop di fb.deltas) with
    | none => exact ⟨_, rfl, by simp [symOut], by simp [symOut, Out.final, specAcks]⟩
    | some r1 =>
      have hl := (walk_length _ _ _ _ hw).1
      simp only [symOut, Option.bind_some]
      by_cases hc : (expand c).length ≤ fb.count - offset
      · rw [if_pos hc]
        simp only []
        obtain ⟨o2, ho2, hnil, hfin⟩ := ih (offset + (expand c).length) (di + r1.2.2) r1.2.1
        rw [ho2]
        have e1 : fb.count - (offset + (expand c).length) = fb.count - offset - (expand c).length := by omega
        have e2 : List.drop (di + r1.2.2) fb.deltas = List.drop r1.2.2 (List.drop di fb.deltas) := by
          rw [List.drop_drop]
        rw [e1, e2] at hnil hfin
        have hlen : r1.1.length = (expand c).length := by
          rw [hl, List.length_take]; omega
        refine ⟨_, rfl, ?_, ?_⟩
        · cases hw2 : walk r1.2.1 (List.take (fb.count - offset - (expand c).length) (symbols cs))
              (List.drop r1.2.2 (List.drop di fb.deltas)) with
          | none =>
            rw [hw2] at hnil
            rw [hnil.mpr rfl]; simp [Out.prepend]
          | some r2 =>
            rw [hw2] at hnil
            have : o2 ≠ .retNil := fun h => by simpa using hnil.mp h
            cases o2 <;> simp_all [Out.prepend]
        · cases hw2 : walk r1.2.1 (List.take (fb.count - offset - (expand c).length) (symbols cs))
              (List.drop r1.2.2 (List.drop di fb.deltas)) with
          | none =>
            rw [hw2] at hnil
            rw [hnil.mpr rfl]; simp [Out.prepend, Out.final, specAcks]
          | some r2 =>
            rw [hw2] at hnil hfin
            have hne : o2 ≠ .retNil := fun h => by simpa using hnil.mp h
            simp only [Option.map_some, specAcks, acksOf_append, hlen] at hfin ⊢
            cases o2 with
            | cont as o d t => simp only [Out.prepend, Out.final] at hfin ⊢; rw [hfin]
            | ret as => simp only [Out.prepend, Out.final] at hfin ⊢; rw [hfin]
            | retNil => exact absurd rfl hne
      · rw [if_neg hc]
        have e0 : fb.count - offset - (expand c).length = 0 := by omega
        simp only [e0, List.take_zero, walk, Option.map_some, List.append_nil]
        exact ⟨_, rfl, by simp, by simp [Out.final, specAcks]⟩

end Interceptor.Rtpfb

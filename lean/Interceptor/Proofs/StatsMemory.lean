/-
C19 helper lemmas, part 5: the remembered sender-report / receiver-reference times are the last
five of the recount.
-/
import Interceptor.Proofs.StatsViews
namespace Interceptor.Stats
open Interceptor.Stats.Spec Interceptor.F64

theorem pushTrim_lastN (pre : List Nat) (v : Nat) : pushTrim (lastN 5 pre) v = lastN 5 (pre ++ [v]) := by
  unfold pushTrim lastN
  simp only [List.length_append, List.length_drop, List.length_singleton]
  by_cases h : pre.length ≤ 4
  · have h0 : pre.length - 5 = 0 := by omega
    have h1 : pre.length + 1 - 5 = 0 := by omega
    rw [h0, h1]
    simp only [List.drop_zero, Nat.sub_zero]
    split
    · omega
    · rfl
  · have hlen : pre.length - (pre.length - 5) + 1 > 5 := by omega
    rw [if_pos hlen]
    have h2 : pre.length - (pre.length - 5) + 1 - 5 = 1 := by omega
    rw [h2, List.drop_append_of_le_length (by simp only [List.length_drop]; omega), List.drop_drop,
      List.drop_append_of_le_length (by omega)]
    congr 2
    omega

/-- the memory view: (lastSRs, lastRRTs). -/
def memOf (st : IStats) : List Nat × List Nat := (st.lastSRs, st.lastRRTs)

theorem recordIncomingRTP_mem (s : Nat) (rate : Rat) (now : Int) (st : IStats) (p : Rtp) :
    memOf (recordIncomingRTP s rate st now p) = memOf st := by
  unfold recordIncomingRTP memOf
  simp only []
  repeat' split
  all_goals rfl

theorem recordOutgoingRTP_mem (s : Nat) (st : IStats) (p : Rtp) :
    memOf (recordOutgoingRTP s st p) = memOf st := by
  unfold recordOutgoingRTP memOf
  simp only []
  repeat' split
  all_goals rfl

theorem rrStep_mem (s : Nat) (rate : Rat) (now : Int) (st : IStats) (r : Report) :
    memOf (rrStep s rate now st r) = memOf st := by
  unfold rrStep memOf
  simp only []
  repeat' split
  all_goals rfl

theorem dlrrHit_mem (now : Int) (d l : Nat) (st : IStats) (v : Nat) :
    memOf (dlrrHit now d l st v) = memOf st := by
  unfold dlrrHit memOf
  split <;> rfl

theorem dlrrSubStep_mem (s : Nat) (now : Int) (st : IStats) (x : DlrrSub) :
    memOf (dlrrSubStep s now st x) = memOf st := by
  unfold dlrrSubStep
  split
  · exact foldl_frame _ memOf (fun a b => dlrrHit_mem now _ _ a b) _ st
  · rfl

theorem xrInBlock_mem (s : Nat) (now : Int) (st : IStats) (b : XrBlock) :
    memOf (xrInBlock s now st b) = memOf st := by
  cases b with
  | rrtr _ => rfl
  | dlrr subs => exact foldl_frame _ memOf (dlrrSubStep_mem s now) subs st

theorem inStep_mem (s : Nat) (rate : Rat) (now : Int) (st : IStats) (p : Rtcp) :
    memOf (inStep s rate now st p) = memOf st := by
  cases hc : p.dest.contains s
  · rw [inStep_skip _ _ _ _ _ hc]
  · rw [inStep_hit _ _ _ _ _ hc]
    cases p with
    | nack _ _ => simp only [inSwitch]; split <;> rfl
    | pli _ _ => simp only [inSwitch]; split <;> rfl
    | fir _ _ _ => rfl
    | other _ => rfl
    | rr _ rs => exact foldl_frame _ memOf (rrStep_mem s rate now) rs st
    | sr _ _ _ _ rs =>
      simp only [inSwitch, recordIncomingRR]
      rw [foldl_frame _ memOf (rrStep_mem s rate now) rs]
      rfl
    | xr _ bs => exact foldl_frame _ memOf (xrInBlock_mem s now) bs st

/-- the times one outgoing packet adds to the two memories. -/
def srTimesOfPkt (s : Nat) : Rtcp → List Nat
  | .sr ssrc ntp _ _ rs => if ssrc == s || rs.any (·.ssrc == s) then [ntp] else []
  | _ => []

def rrtrTimesOfPkt : Rtcp → List Nat
  | .xr _ blocks => blocks.filterMap fun b => match b with
    | .rrtr ntp => some ntp
    | .dlrr _ => none
  | _ => []

theorem srTimes_eq (s : Nat) (w : List Event) : srTimes s w = (rtcpOutPkts w).flatMap (srTimesOfPkt s) := by
  unfold srTimes
  induction rtcpOutPkts w with
  | nil => rfl
  | cons p ps ih =>
    rw [List.filterMap_cons, List.flatMap_cons, ← ih]
    cases p
    case sr ssrc ntp pc oc rs =>
      simp only [srTimesOfPkt]
      cases (ssrc == s || rs.any (·.ssrc == s)) <;> simp
    all_goals simp [srTimesOfPkt]

theorem rrtrTimes_eq (w : List Event) : rrtrTimes w = (rtcpOutPkts w).flatMap rrtrTimesOfPkt := by
  unfold rrtrTimes
  congr 1 <;> (funext p; cases p <;> rfl)

/-- the invariant: both memories are the last five of what has been sent so far. -/
def MemIs (m : List Nat × List Nat) (srs rrts : List Nat) : Prop := m.1 = lastN 5 srs ∧ m.2 = lastN 5 rrts

theorem xrOut_mem (bs : List XrBlock) (st : IStats) (srs rrts : List Nat) (h : MemIs (memOf st) srs rrts) :
    MemIs (memOf (bs.foldl xrOutBlock st)) srs (rrts ++ bs.filterMap fun b => match b with
      | .rrtr ntp => some ntp
      | .dlrr _ => none) := by
  induction bs generalizing st rrts with
  | nil => simpa using h
  | cons b bs ih =>
    rw [List.foldl_cons, List.filterMap_cons]
    cases b with
    | dlrr _ => exact ih st rrts h
    | rrtr ntp =>
      have := ih (xrOutBlock st (.rrtr ntp)) (rrts ++ [ntp]) ⟨h.1, by
        show pushTrim st.lastRRTs ntp = _
        rw [show st.lastRRTs = lastN 5 rrts from h.2, pushTrim_lastN]⟩
      simpa [List.append_assoc] using this

theorem outStep_mem (s : Nat) (st : IStats) (p : Rtcp) (srs rrts : List Nat) (h : MemIs (memOf st) srs rrts) :
    MemIs (memOf (outStep s st p)) (srs ++ srTimesOfPkt s p) (rrts ++ rrtrTimesOfPkt p) := by
  cases p with
  | nack _ _ => simp only [outStep, srTimesOfPkt, rrtrTimesOfPkt, List.append_nil]; split <;> exact h
  | pli _ _ => simp only [outStep, srTimesOfPkt, rrtrTimesOfPkt, List.append_nil]; split <;> exact h
  | fir _ _ _ => simp only [outStep, srTimesOfPkt, rrtrTimesOfPkt, List.append_nil]; split <;> exact h
  | other _ => simpa [outStep, srTimesOfPkt, rrtrTimesOfPkt] using h
  | rr _ _ => simpa [outStep, srTimesOfPkt, rrtrTimesOfPkt] using h
  | xr _ bs =>
    simp only [outStep, srTimesOfPkt, rrtrTimesOfPkt, List.append_nil]
    exact xrOut_mem bs st srs rrts h
  | sr ssrc ntp pc oc rs =>
    have hd := sr_dest_contains ssrc s rs
    cases hc : (ssrc == s || rs.any (·.ssrc == s))
    · rw [hc] at hd
      have e : outStep s st (.sr ssrc ntp pc oc rs) = st := by
        unfold outStep
        simp only [Rtcp.dest, hd, Bool.not_false, if_true]
      rw [e]
      simpa [srTimesOfPkt, rrtrTimesOfPkt, hc] using h
    · rw [hc] at hd
      have e : outStep s st (.sr ssrc ntp pc oc rs) = { st with lastSRs := pushTrim st.lastSRs ntp } := by
        unfold outStep
        simp only [Rtcp.dest, hd, Bool.not_true, Bool.false_eq_true, if_false]
      rw [e]
      simp only [srTimesOfPkt, rrtrTimesOfPkt, hc, if_true, List.append_nil]
      refine ⟨?_, h.2⟩
      show pushTrim st.lastSRs ntp = _
      rw [show st.lastSRs = lastN 5 srs from h.1, pushTrim_lastN]

theorem outFold_mem (s : Nat) (pkts : List Rtcp) (st : IStats) (srs rrts : List Nat)
    (h : MemIs (memOf st) srs rrts) :
    MemIs (memOf (pkts.foldl (outStep s) st)) (srs ++ pkts.flatMap (srTimesOfPkt s))
      (rrts ++ pkts.flatMap rrtrTimesOfPkt) := by
  induction pkts generalizing st srs rrts with
  | nil => simpa using h
  | cons p pkts ih =>
    have := ih _ _ _ (outStep_mem s st p srs rrts h)
    simpa [List.append_assoc] using this

theorem fold_mem (s : Nat) (rate : Rat) (w : List Event) (st : IStats) (srs rrts : List Nat)
    (h : MemIs (memOf st) srs rrts) :
    MemIs (memOf (w.foldl (recStep s rate) st)) (srs ++ (rtcpOutPkts w).flatMap (srTimesOfPkt s))
      (rrts ++ (rtcpOutPkts w).flatMap rrtrTimesOfPkt) := by
  induction w generalizing st srs rrts with
  | nil => simpa [rtcpOutPkts] using h
  | cons e w ih =>
    rw [List.foldl_cons]
    cases e with
    | bind _ _ => simpa [rtcpOutPkts, recStep] using ih st srs rrts h
    | close => simpa [rtcpOutPkts, recStep] using ih st srs rrts h
    | rtcpIn now pkts =>
      have h' : MemIs (memOf (recStep s rate st (.rtcpIn now pkts))) srs rrts := by
        simp only [recStep, recordIncomingRTCP]
        rw [foldl_frame _ memOf (inStep_mem s rate now) pkts]
        exact h
      simpa [rtcpOutPkts] using ih _ srs rrts h'
    | rtpIn now via p =>
      have h' : MemIs (memOf (recStep s rate st (.rtpIn now via p))) srs rrts := by
        simp only [recStep]
        split
        · rw [recordIncomingRTP_mem]; exact h
        · exact h
      simpa [rtcpOutPkts] using ih _ srs rrts h'
    | rtpOut via p =>
      have h' : MemIs (memOf (recStep s rate st (.rtpOut via p))) srs rrts := by
        simp only [recStep]
        split
        · rw [recordOutgoingRTP_mem]; exact h
        · exact h
      simpa [rtcpOutPkts] using ih _ srs rrts h'
    | rtcpOut pkts =>
      have h' := outFold_mem s pkts st srs rrts h
      have := ih (recStep s rate st (.rtcpOut pkts)) _ _ h'
      simpa [rtcpOutPkts, List.append_assoc] using this

theorem fold_mem_init (s : Nat) (rate : Rat) (w : List Event) :
    (w.foldl (recStep s rate) {}).lastSRs = lastN 5 (srTimes s w) ∧
    (w.foldl (recStep s rate) {}).lastRRTs = lastN 5 (rrtrTimes w) := by
  have := fold_mem s rate w {} [] [] ⟨rfl, rfl⟩
  rw [srTimes_eq, rrtrTimes_eq]
  simpa [MemIs, memOf] using this

end Interceptor.Stats

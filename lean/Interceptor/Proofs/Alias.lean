/-
Helper lemmas for C13 (`Props/C13.lean`): a call logged by an all-copy interceptor resolves to its
contents under every heap, hence the run of the aliasing model is the run of the interceptor's
logic on the contents alone; erasure lemmas for the run shapes; the heap is the caller's.
-/
import Interceptor.Model.Alias
set_option linter.unusedVariables false
namespace Interceptor.Alias
open Interceptor.Rtp

theorem read_keep_true (h : Heap) (id : BufId) (b : Bytes) : (keep true id b).read h = b := rfl

theorem map_encExts_true (h : Heap) (b : BufId) (xs : List (Nat × Bytes)) :
    (encExts true b xs).map (fun e => (e.1, e.2.read h)) = xs := by
  induction xs generalizing b with
  | nil => rfl
  | cons e r ih => simp only [encExts, List.map_cons, read_keep_true, ih]

/-- a call logged by an all-copy interceptor resolves to its contents under every heap. -/
theorem resolve_encode {pol : Policy} (hp : pol.allCopy = true) (h : Heap) (ids : Ids) (c : Call) :
    resolve h (encode pol ids c) = c := by
  obtain ⟨p1, p2, p3, p4⟩ := pol
  simp only [Policy.allCopy, Bool.and_eq_true] at hp
  obtain ⟨⟨⟨h1, h2⟩, h3⟩, h4⟩ := hp
  subst h1 h2 h3 h4
  simp only [resolve, encode, read_keep_true, map_encExts_true]

/-- the log stands for the contents `cs` whatever the heap holds. -/
def Pure (log : List LCall) (cs : List Call) : Prop := ∀ h, log.map (resolve h) = cs

theorem emissionsFrom_pure {ε} {pol : Policy} (hp : pol.allCopy = true) (M : Machine ε)
    (ops : List Op) : ∀ (s : St) (cs : List Call), Pure s.log cs →
      emissionsFrom pol M s ops = pureFrom M cs (erase ops) := by
  induction ops with
  | nil => intro s cs _; rfl
  | cons op ops ih =>
    intro s cs hs
    cases op with
    | scribble id b =>
      simp only [emissionsFrom, erase]
      exact ih _ cs (by intro h; exact hs h)
    | call ids c =>
      have hlog : Pure (s.log ++ [encode pol ids c]) (cs ++ [c]) := by
        intro h
        simp only [List.map_append, hs h, List.map_cons, List.map_nil, resolve_encode hp]
      simp only [emissionsFrom, erase, pureFrom, step]
      rw [hlog]
      congr 1
      exact ih _ (cs ++ [c]) hlog

theorem erase_scribbled {a b : List Op} (h : Scribbled a b) : erase a = erase b := by
  induction h with
  | nil => rfl
  | keep op _ ih => cases op <;> simp only [erase, ih]
  | ins id bs _ ih => simp only [erase, ih]

theorem erase_freshOps (k : Nat) (cs : List Call) : erase (freshOps k cs) = cs := by
  induction cs generalizing k with
  | nil => rfl
  | cons c cs ih => simp only [freshOps, erase, ih]

theorem erase_scribbles_append (xs : List (BufId × Bytes)) (ops : List Op) :
    erase ((xs.map fun p => Op.scribble p.1 p.2) ++ ops) = erase ops := by
  induction xs with
  | nil => rfl
  | cons x xs ih => simp only [List.map_cons, List.cons_append, erase, ih]

theorem erase_reuseOps (scr : Call → List (BufId × Bytes)) (cs : List Call) :
    erase (reuseOps scr cs) = cs := by
  induction cs with
  | nil => rfl
  | cons c cs ih => simp only [reuseOps, List.cons_append, erase, erase_scribbles_append, ih]

theorem heapAfter_eq_callerHeap {ε} (pol : Policy) (M : Machine ε) (ops : List Op) :
    ∀ s : St, heapAfter pol M s ops = callerHeap s.heap ops := by
  induction ops with
  | nil => intro s; rfl
  | cons op ops ih =>
    intro s
    cases op with
    | call ids c => simp only [heapAfter, callerHeap, step, ih]
    | scribble id b => simp only [heapAfter, callerHeap, step, ih]

end Interceptor.Alias

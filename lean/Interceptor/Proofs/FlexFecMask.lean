/-
Helper lemmas for C14: the three FlexFEC-03 mask fields name exactly bits 0..108 of a BitArray,
and the spec's reading of the fields returns those positions.  Core Lean only.
-/
import Interceptor.Proofs.FlexFecBits
import Interceptor.Spec.FlexFecDecode
namespace Interceptor.FlexFec
open Interceptor.FlexFecSpec (maskBits)

theorem two64_eq : two64 = 2 ^ 64 := by decide

theorem testBit_ge_false {x i : Nat} (h : x < 2 ^ 64) (hi : 64 ≤ i) : x.testBit i = false :=
  Nat.testBit_lt_two_pow (Nat.lt_of_lt_of_le h (Nat.pow_le_pow_right (by decide) hi))

theorem mask1_bit (b : BitArray) (t : Nat) (ht : t < 15) : (mask1 b).testBit (14 - t) = bitOf b t := by
  unfold mask1 bitOf
  have e : (65536 : Nat) = 2 ^ 16 := by decide
  rw [e, Nat.testBit_mod_two_pow, Nat.testBit_shiftRight]
  have h1 : 14 - t < 16 := by omega
  have h2 : 49 + (14 - t) = 63 - t := by omega
  have h3 : t < 64 := by omega
  simp [h1, h2, h3]

theorem mask2_bit (b : BitArray) (t : Nat) (ht : t < 31) : (mask2 b).testBit (30 - t) = bitOf b (15 + t) := by
  unfold mask2 bitOf
  have e : (4294967296 : Nat) = 2 ^ 32 := by decide
  rw [e, two64_eq, Nat.testBit_mod_two_pow, Nat.testBit_shiftRight, Nat.testBit_mod_two_pow, Nat.testBit_shiftLeft]
  have h1 : 30 - t < 32 := by omega
  have h2 : 33 + (30 - t) = 63 - t := by omega
  have h3 : 15 + t < 64 := by omega
  have h4 : 63 - t < 64 := by omega
  have h5 : 63 - t ≥ 15 := by omega
  have h6 : 63 - t - 15 = 63 - (15 + t) := by omega
  simp [h1, h2, h3, h4, h5, h6]

theorem mask3_bit (b : BitArray) (hhi : b.hi < 2 ^ 64) (t : Nat) (ht : t < 63) :
    (mask3 b).testBit (62 - t) = bitOf b (46 + t) := by
  unfold mask3 bitOf
  rw [two64_eq, Nat.testBit_shiftRight, Nat.testBit_or, Nat.testBit_mod_two_pow, Nat.testBit_shiftLeft,
    Nat.testBit_shiftRight]
  have h2 : 1 + (62 - t) = 63 - t := by omega
  have h4 : 63 - t < 64 := by omega
  rw [h2]
  by_cases h : t < 18
  · have h3 : 46 + t < 64 := by omega
    have h5 : 63 - t ≥ 46 := by omega
    have h6 : 63 - t - 46 = 63 - (46 + t) := by omega
    have h7 : b.hi.testBit (18 + (63 - t)) = false := testBit_ge_false hhi (by omega)
    simp [h3, h4, h5, h6, h7]
  · have h3 : ¬ 46 + t < 64 := by omega
    have h5 : ¬ 63 - t ≥ 46 := by omega
    have h6 : 18 + (63 - t) = 127 - (46 + t) := by omega
    simp [h3, h5, h6]

theorem mask1_lt (b : BitArray) (h : b.lo < 2 ^ 64) : mask1 b < 2 ^ 15 := by
  unfold mask1
  rw [Nat.shiftRight_eq_div_pow]
  have : b.lo / 2 ^ 49 < 2 ^ 15 := by
    apply Nat.div_lt_of_lt_mul
    calc b.lo < 2 ^ 64 := h
      _ = 2 ^ 49 * 2 ^ 15 := by decide
  omega

theorem mask2_lt (b : BitArray) : mask2 b < 2 ^ 31 := by
  unfold mask2
  rw [Nat.shiftRight_eq_div_pow, two64_eq]
  have h0 : (b.lo <<< 15) % 2 ^ 64 < 2 ^ 64 := Nat.mod_lt _ (by decide)
  have : (b.lo <<< 15) % 2 ^ 64 / 2 ^ 33 < 2 ^ 31 := by
    apply Nat.div_lt_of_lt_mul
    calc (b.lo <<< 15) % 2 ^ 64 < 2 ^ 64 := h0
      _ = 2 ^ 33 * 2 ^ 31 := by decide
  omega

theorem mask3_lt (b : BitArray) (hhi : b.hi < 2 ^ 64) : mask3 b < 2 ^ 63 := by
  unfold mask3
  rw [Nat.shiftRight_eq_div_pow, two64_eq]
  have h0 : (b.lo <<< 46) % 2 ^ 64 < 2 ^ 64 := Nat.mod_lt _ (by decide)
  have h1 : b.hi >>> 18 < 2 ^ 64 := by
    rw [Nat.shiftRight_eq_div_pow]
    exact Nat.lt_of_le_of_lt (Nat.div_le_self _ _) hhi
  have h2 := Nat.or_lt_two_pow h0 h1
  omega

/-- the spec's reading of a mask field, given the meaning of its bits. -/
theorem maskBits_eq (v width first : Nat) (P : Nat → Bool)
    (h : ∀ t, t < width → v.testBit (width - 1 - t) = P (first + t)) :
    maskBits v width first = ((List.range width).map (first + ·)).filter P := by
  unfold maskBits
  rw [List.filter_map]
  congr 1
  apply List.filter_congr
  intro t ht
  have ht' : t < width := List.mem_range.1 ht
  simp only [Function.comp, ← h t ht', Nat.testBit_eq_decide_div_mod_eq]
  by_cases e : v / 2 ^ (width - 1 - t) % 2 = 1 <;> simp [e]

theorem maskBits_zero (width first : Nat) : maskBits 0 width first = [] := by
  unfold maskBits
  simp

/-- positions 0..108 whose bit is set. -/
def allPos (b : BitArray) : List Nat := (List.range 109).filter (bitOf b)

/-- ★ (bit level) the three mask fields together name exactly the set bits among 0..108. -/
theorem masks_name_bits (b : BitArray) (hhi : b.hi < 2 ^ 64) :
    maskBits (mask1 b) 15 0 ++ maskBits (mask2 b) 31 15 ++ maskBits (mask3 b) 63 46 = allPos b := by
  rw [maskBits_eq (mask1 b) 15 0 (bitOf b) (fun t ht => by simpa using mask1_bit b t ht),
    maskBits_eq (mask2 b) 31 15 (bitOf b) (fun t ht => mask2_bit b t ht),
    maskBits_eq (mask3 b) 63 46 (bitOf b) (fun t ht => mask3_bit b hhi t ht)]
  unfold allPos
  have e : (109 : Nat) = 15 + (31 + 63) := rfl
  have e2 : (46 : Nat) = 15 + 31 := rfl
  rw [e, List.range_add, List.range_add, List.filter_append, List.map_append, List.filter_append,
    List.map_map, List.append_assoc]
  congr 2

end Interceptor.FlexFec

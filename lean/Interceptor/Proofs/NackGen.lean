/-
C03, generator level: the per-number request counters (`limit`, `prune`, `tickCounts`).
-/
import Interceptor.Model.ReceiveLog
set_option linter.unusedVariables false
namespace Interceptor.ReceiveLog
open Interceptor

theorem cnt_insert (c : Counts) (x v y : Nat) : cnt (c.insert x v) y = if x = y then v else cnt c y := by
  unfold cnt
  rw [Std.HashMap.getD_insert]
  by_cases h : x = y <;> simp [h]

theorem cnt_empty (y : Nat) : cnt (∅ : Counts) y = 0 := by
  unfold cnt; simp

/-- pruning keeps exactly the counters of the numbers in `m`. -/
theorem cnt_prune (c : Counts) (m : List Nat) (y : Nat) :
    cnt (prune c m) y = if y ∈ m then cnt c y else 0 := by
  have key : ∀ (m : List Nat) (acc : Counts),
      cnt (m.foldl (fun acc x => acc.insert x (cnt c x)) acc) y = if y ∈ m then cnt c y else cnt acc y := by
    intro m
    induction m with
    | nil => intro acc; simp
    | cons x xs ih =>
      intro acc
      rw [List.foldl_cons, ih, cnt_insert]
      by_cases h1 : y ∈ xs
      · simp [h1]
      · by_cases h2 : x = y
        · subst h2; simp
        · have : ¬ y = x := fun e => h2 e.symm
          simp [h1, h2, this]
  unfold prune
  rw [key, cnt_empty]

/-- exact accounting of the limit loop: every request of `y` raises its counter by one, nothing else does;
the counter never exceeds the limit. -/
theorem limit_count (max : Nat) (hmax : max < 65536) (m : List Nat) (c : Counts) (y : Nat) :
    (limit max m c).1.count y + cnt c y = cnt (limit max m c).2 y ∧
    (cnt c y ≤ max → cnt (limit max m c).2 y ≤ max) := by
  induction m generalizing c with
  | nil => simp [limit]
  | cons x xs ih =>
    simp only [limit]
    by_cases hn : cnt c x < max
    · simp only [hn, if_true]
      have e : (cnt c x + 1) % 65536 = cnt c x + 1 := by omega
      rw [e]
      obtain ⟨i1, i2⟩ := ih (c.insert x (cnt c x + 1))
      rw [cnt_insert] at i1 i2
      by_cases hxy : x = y
      · subst hxy
        simp only [if_true] at i1 i2
        refine ⟨?_, fun _ => i2 (by omega)⟩
        rw [List.count_cons_self]; omega
      · simp only [hxy, if_false] at i1 i2
        refine ⟨?_, i2⟩
        rw [List.count_cons_of_ne hxy]; exact i1
    · simp only [hn, if_false]
      exact ih c

/-- every number the limit loop lets through is one of the missing numbers. -/
theorem limit_subset (max : Nat) (m : List Nat) (c : Counts) (y : Nat) (h : y ∈ (limit max m c).1) : y ∈ m := by
  induction m generalizing c with
  | nil => simp [limit] at h
  | cons x xs ih =>
    simp only [limit] at h
    by_cases hn : cnt c x < max
    · simp only [hn, if_true] at h
      rcases List.mem_cons.mp h with h | h
      · simp [h]
      · exact List.mem_cons_of_mem _ (ih _ h)
    · simp only [hn, if_false] at h
      exact List.mem_cons_of_mem _ (ih _ h)

/-- what the tick requests is a sub-list of the missing numbers. -/
theorem tickCounts_subset (max : Nat) (m : List Nat) (c : Counts) (out : List Nat)
    (h : (tickCounts max m c).2 = some out) : ∀ y ∈ out, y ∈ m := by
  unfold tickCounts at h
  by_cases h1 : m.isEmpty = true
  · simp [h1] at h
  · simp only [h1] at h
    by_cases h2 : max > 0
    · simp only [h2, if_true] at h
      by_cases h3 : (limit max m (prune c m)).1.isEmpty = true
      · simp [h3] at h
      · simp only [h3] at h
        simp only [Bool.false_eq_true, if_false, Option.some.injEq] at h
        subst h
        exact fun y hy => limit_subset _ _ _ y hy
    · simp only [h2, if_false] at h
      simp only [Bool.false_eq_true, if_false, Option.some.injEq] at h
      subst h
      exact fun y hy => hy

/-- without a limit every missing number is requested. -/
theorem tickCounts_nolimit (m : List Nat) (c : Counts) (hm : m ≠ []) : (tickCounts 0 m c).2 = some m := by
  unfold tickCounts
  have : m.isEmpty = false := by cases m <;> simp_all
  simp [this]

/-- one tick under a limit: a request of `y` is paid for by its counter, which stays ≤ max and is
kept (not reset) as long as `y` is missing at this tick. -/
theorem tickCounts_limit (max : Nat) (h0 : 0 < max) (hmax : max < 65536) (m : List Nat) (c : Counts) (y : Nat)
    (hy : y ∈ m) (hc : cnt c y ≤ max) :
    (if y ∈ ((tickCounts max m c).2).getD [] then 1 else 0) + cnt c y ≤ cnt (tickCounts max m c).1 y ∧
    cnt (tickCounts max m c).1 y ≤ max := by
  unfold tickCounts
  have h1 : m.isEmpty = false := by cases m <;> simp_all
  simp only [h1, Bool.false_eq_true, if_false, h0, if_true]
  obtain ⟨i1, i2⟩ := limit_count max hmax m (prune c m) y
  have hp : cnt (prune c m) y = cnt c y := by rw [cnt_prune]; simp [hy]
  rw [hp] at i1 i2
  by_cases h3 : (limit max m (prune c m)).1.isEmpty = true
  · simp only [h3, if_true, Option.getD_none, List.not_mem_nil, if_false]
    exact ⟨by omega, i2 hc⟩
  · simp only [h3, Bool.false_eq_true, if_false, Option.getD_some]
    refine ⟨?_, i2 hc⟩
    by_cases hin : y ∈ (limit max m (prune c m)).1
    · have := List.count_pos_iff.mpr hin
      simp only [hin, if_true]; omega
    · simp only [hin, if_false]; omega

/-- `tickCounts_limit` at the level of one bound stream. -/
theorem tickStream_limit (cfg : Cfg) (h0 : 0 < cfg.max) (hmax : cfg.max < 65536) (st : Stream) (y : Nat)
    (hy : y ∈ missing st.log cfg.skip) (hc : cnt st.counts y ≤ cfg.max) :
    (if y ∈ ((tickStream cfg st).2).getD [] then 1 else 0) + cnt st.counts y ≤ cnt (tickStream cfg st).1.counts y ∧
    cnt (tickStream cfg st).1.counts y ≤ cfg.max :=
  tickCounts_limit cfg.max h0 hmax (missing st.log cfg.skip) st.counts y hy hc

end Interceptor.ReceiveLog

/-
C05 helper lemmas: what `Recorder.Record` does to the arrival map and the cursor.
-/
import Interceptor.Proofs.TwccBuild
namespace Interceptor.Twcc
open ArrivalMap

theorem get_nonneg_window (m : ArrivalMap) (x : Int) (h : 0 ≤ m.get x) : m.beginSN ≤ x ∧ x < m.endSN := by
  rw [get_def] at h
  by_cases hx : x < m.beginSN ∨ x ≥ m.endSN
  · simp [hx] at h
  · omega

/-- the map/cursor part of `Record`, for an allocated map. -/
def recordCore (m : ArrivalMap) (s sn t : Int) : ArrivalMap × Int :=
  let m1 := if s ≥ m.endSN ∧ t ≥ packetWindowMicroseconds then m.removeOld sn (t - packetWindowMicroseconds) else m
  let s1 := if sn < s then sn else s
  if m1.hasReceived sn then (m1, s1)
  else
    let m2 := m1.addPacket sn t
    (m2, if s1 < m2.beginSN then m2.beginSN else s1)

theorem record_eq (r : Recorder) (ssrc seq : Nat) (t : Int) (s : Int) (hs : r.start = some s) :
    (r.record ssrc seq t).map = (recordCore r.map s (Unwrapper.unwrap r.unw seq).2 t).1 ∧
    (r.record ssrc seq t).start = some (recordCore r.map s (Unwrapper.unwrap r.unw seq).2 t).2 ∧
    (r.record ssrc seq t).unw = (Unwrapper.unwrap r.unw seq).1 ∧
    (r.record ssrc seq t).fbCnt = r.fbCnt ∧ (r.record ssrc seq t).sender = r.sender ∧
    (r.record ssrc seq t).media = ssrc := by
  unfold Recorder.record recordCore
  simp only [hs]
  by_cases hcull : s ≥ r.map.endSN ∧ t ≥ packetWindowMicroseconds
  · simp only [hcull, and_self, if_true]
    by_cases hlt : (Unwrapper.unwrap r.unw seq).2 < s
    · simp only [hlt, if_true]
      split <;> (try split) <;> simp_all
    · simp only [hlt, if_false]
      split <;> (try split) <;> simp_all
  · simp only [hcull, if_false]
    by_cases hlt : (Unwrapper.unwrap r.unw seq).2 < s
    · simp only [hlt, if_true]
      split <;> (try split) <;> simp_all
    · simp only [hlt, if_false]
      split <;> (try split) <;> simp_all


/-- `Record` on an allocated map: the map stays well formed with the cursor inside it; an entry is
only ever kept, dropped, or (for the recorded number, if it had none) set to the new arrival; and
nothing that was pending (at or above the cursor), nor the recorded number itself, ends up below
the cursor while still in the map. -/
theorem recordCore_spec (m : ArrivalMap) (hwf : WF m) (s sn t : Int) (h1 : m.beginSN ≤ s) (h2 : s ≤ m.endSN) :
    WF (recordCore m s sn t).1 ∧
    (recordCore m s sn t).1.beginSN ≤ (recordCore m s sn t).2 ∧
    (recordCore m s sn t).2 ≤ (recordCore m s sn t).1.endSN ∧
    (∀ x, (recordCore m s sn t).1.get x = m.get x ∨ (recordCore m s sn t).1.get x = -1 ∨
      (x = sn ∧ m.get sn < 0 ∧ (recordCore m s sn t).1.get x = t)) ∧
    (∀ x, 0 ≤ (recordCore m s sn t).1.get x → (x = sn ∨ s ≤ x) → (recordCore m s sn t).2 ≤ x) := by
  -- the cull
  have hcull : ∃ m1 : ArrivalMap,
      m1 = (if s ≥ m.endSN ∧ t ≥ packetWindowMicroseconds then m.removeOld sn (t - packetWindowMicroseconds) else m) ∧
      WF m1 ∧ m1.endSN = m.endSN ∧ m.beginSN ≤ m1.beginSN ∧ m1.beginSN ≤ s ∧
      (0 ≤ m.get sn → m1.beginSN ≤ sn) ∧
      ∀ x, m1.get x = if m1.beginSN ≤ x then m.get x else -1 := by
    refine ⟨_, rfl, ?_⟩
    have ho := hwf.order
    by_cases hc : s ≥ m.endSN ∧ t ≥ packetWindowMicroseconds
    · simp only [hc, and_self, if_true]
      obtain ⟨w, e, b1, b2, g, _, _⟩ := removeOld_spec m hwf sn (t - packetWindowMicroseconds)
      refine ⟨w, e, b1, by omega, ?_, g⟩
      intro hg
      have := get_nonneg_window m sn hg
      omega
    · simp only [hc, if_false]
      refine ⟨hwf, trivial, Int.le_refl _, h1, fun hg => (get_nonneg_window m sn hg).1, ?_⟩
      intro x
      by_cases hx : m.beginSN ≤ x
      · simp [hx]
      · simp only [hx, if_false]
        rw [get_def]; simp [show x < m.beginSN ∨ x ≥ m.endSN by omega]
  obtain ⟨m1, hm1, w1, e1, b0, b1, bsn, g1⟩ := hcull
  unfold recordCore
  simp only [← hm1]
  obtain ⟨s1, hs1, q1, q2, q3⟩ : ∃ s1, s1 = (if sn < s then sn else s) ∧ s1 ≤ sn ∧ s1 ≤ s ∧ (s1 = sn ∨ s1 = s) := by
    refine ⟨_, rfl, ?_, ?_, ?_⟩ <;> split <;> omega
  simp only [← hs1]
  have hkeep : ∀ x, m1.get x = m.get x ∨ m1.get x = -1 := by
    intro x; rw [g1]; by_cases hx : m1.beginSN ≤ x <;> simp [hx]
  have ho1 := w1.order
  by_cases hrec : m1.hasReceived sn = true
  · simp only [hrec, if_true]
    have hg : 0 ≤ m1.get sn := by simpa [hasReceived] using hrec
    have hwin := get_nonneg_window m1 sn hg
    refine ⟨w1, ?_, ?_, ?_, ?_⟩
    · show m1.beginSN ≤ s1; omega
    · show s1 ≤ m1.endSN; omega
    · intro x; rcases hkeep x with h | h
      · exact Or.inl h
      · exact Or.inr (Or.inl h)
    · intro x _ hx
      show s1 ≤ x
      omega
  · have hrf : m1.hasReceived sn = false := by simpa using hrec
    simp only [hrf, Bool.false_eq_true, if_false]
    have hg : m1.get sn < 0 := by
      have : ¬ (m1.get sn ≥ 0) := by simpa [hasReceived] using hrf
      omega
    have hg0 : m.get sn < 0 := by
      by_cases h : m.get sn < 0
      · exact h
      · have := bsn (by omega)
        rw [g1] at hg; simp [this] at hg; omega
    obtain ⟨w2, hcase⟩ := addPacket_spec m1 w1 sn t
    by_cases hign : sn < m1.beginSN ∧ m1.endSN - sn > 32768
    · simp only [hign, and_self, if_true] at hcase
      rw [hcase]
      have hlt : s1 < m1.beginSN := by omega
      simp only [hlt, if_true]
      refine ⟨w1, Int.le_refl _, ho1, ?_, ?_⟩
      · intro x; rcases hkeep x with h | h
        · exact Or.inl h
        · exact Or.inr (Or.inl h)
      · intro x hx _; exact (get_nonneg_window m1 x hx).1
    · simp only [hign, if_false] at hcase
      obtain ⟨hb2, he2, g2⟩ := hcase
      have ho2 := w2.order
      refine ⟨w2, ?_, ?_, ?_, ?_⟩
      · show (m1.addPacket sn t).beginSN ≤ (if _ then _ else _); split <;> omega
      · show (if _ then _ else _) ≤ (m1.addPacket sn t).endSN
        rw [he2] at ho2 ⊢
        split <;> omega
      · intro x
        rw [g2]
        by_cases hx : x = sn
        · exact Or.inr (Or.inr ⟨hx, hg0, by simp [hx]⟩)
        · simp only [hx, if_false]
          split
          · rcases hkeep x with h | h
            · exact Or.inl h
            · exact Or.inr (Or.inl h)
          · exact Or.inr (Or.inl rfl)
      · intro x hx hor
        have hwin := get_nonneg_window _ x hx
        show (if _ then _ else _) ≤ x
        split <;> omega


theorem record_first (r : Recorder) (ssrc seq : Nat) (t : Int) (hs : r.start = none)
    (hb : r.map.beginSN = r.map.endSN) :
    (r.record ssrc seq t).map = r.map.addPacket (Unwrapper.unwrap r.unw seq).2 t ∧
    (r.record ssrc seq t).start =
      some (if (Unwrapper.unwrap r.unw seq).2 < (r.map.addPacket (Unwrapper.unwrap r.unw seq).2 t).beginSN
        then (r.map.addPacket (Unwrapper.unwrap r.unw seq).2 t).beginSN else (Unwrapper.unwrap r.unw seq).2) ∧
    (r.record ssrc seq t).unw = (Unwrapper.unwrap r.unw seq).1 ∧
    (r.record ssrc seq t).fbCnt = r.fbCnt ∧ (r.record ssrc seq t).sender = r.sender ∧
    (r.record ssrc seq t).media = ssrc := by
  have hnr : r.map.hasReceived (Unwrapper.unwrap r.unw seq).2 = false := by
    simp only [hasReceived, get_def]
    have : (Unwrapper.unwrap r.unw seq).2 < r.map.beginSN ∨ (Unwrapper.unwrap r.unw seq).2 ≥ r.map.endSN := by omega
    simp [this]
  unfold Recorder.record
  simp only [hs, hnr]
  by_cases hlt : (Unwrapper.unwrap r.unw seq).2 < (r.map.addPacket (Unwrapper.unwrap r.unw seq).2 t).beginSN
  · simp [hlt]
  · simp [hlt]

/-- `Record` on any reachable recorder. `sn` is the unwrapped sequence number. -/
theorem record_spec (r : Recorder) (h : RecInv r) (ssrc seq : Nat) (t : Int) :
    RecInv (r.record ssrc seq t) ∧ (r.record ssrc seq t).fbCnt = r.fbCnt ∧
    (r.record ssrc seq t).sender = r.sender ∧ (r.record ssrc seq t).media = ssrc ∧
    (r.record ssrc seq t).unw = (Unwrapper.unwrap r.unw seq).1 ∧
    ∃ s', (r.record ssrc seq t).start = some s' ∧
      (∀ x, (r.record ssrc seq t).map.get x = r.map.get x ∨ (r.record ssrc seq t).map.get x = -1 ∨
        (x = (Unwrapper.unwrap r.unw seq).2 ∧ r.map.get x < 0 ∧ (r.record ssrc seq t).map.get x = t)) ∧
      (∀ x, 0 ≤ (r.record ssrc seq t).map.get x →
        (x = (Unwrapper.unwrap r.unw seq).2 ∨ ∃ s, r.start = some s ∧ s ≤ x) → s' ≤ x) := by
  generalize hsn : (Unwrapper.unwrap r.unw seq).2 = sn
  rcases h.st with ⟨h0, hb, hn⟩ | ⟨hwf, s, hs, b1, b2⟩
  · obtain ⟨e1, e2, e3, e4, e5, e6⟩ := record_first r ssrc seq t hn hb
    rw [hsn] at e1 e2
    obtain ⟨w, fb, fe, fg⟩ := addPacket_first r.map h0 hb sn t
    have hst : (r.record ssrc seq t).start = some sn := by rw [e2, fb]; simp
    refine ⟨⟨by rw [e4]; exact h.cnt, Or.inr ⟨by rw [e1]; exact w, sn, hst, by rw [e1, fb]; exact Int.le_refl _,
      by rw [e1, fe]; omega⟩⟩, e4, e5, e6, e3, sn, hst, ?_, ?_⟩
    · intro x
      rw [e1, fg]
      have hx0 : r.map.get x = -1 := by
        rw [get_def]; simp [show x < r.map.beginSN ∨ x ≥ r.map.endSN by omega]
      by_cases hx : x = sn
      · exact Or.inr (Or.inr ⟨hx, by rw [hx0]; omega, by simp [hx]⟩)
      · exact Or.inr (Or.inl (by simp [hx]))
    · intro x hx _
      rw [e1, fg] at hx
      by_cases hxs : x = sn
      · omega
      · simp [hxs] at hx
  · obtain ⟨e1, e2, e3, e4, e5, e6⟩ := record_eq r ssrc seq t s hs
    rw [hsn] at e1 e2
    obtain ⟨w, c1, c2, c3, c4⟩ := recordCore_spec r.map hwf s sn t b1 b2
    refine ⟨⟨by rw [e4]; exact h.cnt, Or.inr ⟨by rw [e1]; exact w, _, e2, by rw [e1]; exact c1,
      by rw [e1]; exact c2⟩⟩, e4, e5, e6, e3, _, e2, ?_, ?_⟩
    · intro x
      rw [e1]
      rcases c3 x with h | h | ⟨h1, h2, h3⟩
      · exact Or.inl h
      · exact Or.inr (Or.inl h)
      · exact Or.inr (Or.inr ⟨h1, by rw [h1]; exact h2, h3⟩)
    · intro x hx hor
      rw [e1] at hx
      apply c4 x hx
      rcases hor with h | ⟨s2, h2, h3⟩
      · exact Or.inl h
      · rw [hs] at h2; cases h2; exact Or.inr h3


/-- every state a recorder can be in: any interleaving of `Record` and `BuildFeedbackPacket`. -/
inductive Reach : Recorder → Prop
  | new (sender : Nat) : Reach (newRecorder sender)
  | record {r : Recorder} (ssrc seq : Nat) (t : Int) : Reach r → Reach (r.record ssrc seq t)
  | build {r : Recorder} : Reach r → Reach r.build.1

theorem reach_inv {r : Recorder} (h : Reach r) : RecInv r := by
  induction h with
  | new sender => exact recInv_new sender
  | record ssrc seq t _ ih => exact (record_spec _ ih ssrc seq t).1
  | build _ ih =>
    rename_i r _
    cases hs : r.start with
    | none => rw [(build_spec r ih).1 hs]; exact ih
    | some s =>
      obtain ⟨groups, _, _, _, _, _, _, _, _, _, hinv⟩ := (build_spec r ih).2 s hs
      exact hinv

end Interceptor.Twcc

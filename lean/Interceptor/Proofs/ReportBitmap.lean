/-
The packed `[]uint64` receive history of pkg/report/receiver_stream.go against the model's `Array Bool`
(Model/ReceiverReport.lean): the abstraction relation `bitsRel`, the word-level bit lemmas
(`w | 1<<j`, `w &^ 1<<j`, `w & 1<<j` on a uint64 word), and the generated `setReceived` / `delReceived` /
`getReceived` (Gen/Fn_report.lean) against `setBit` / `getBit`.  Core Lean only.
-/
import Interceptor.Gen.Fn_report
import Interceptor.Model.ReceiverReport
namespace Interceptor.ReportBitmap
open Interceptor.Gen.Fn Interceptor.GoSem Interceptor.ReceiverReport

/-! ## one uint64 word -/

/-- a Go uint64. -/
def isWord (w : Int) : Prop := 0 ≤ w ∧ w < 18446744073709551616

theorem isWord_natCast (n : Nat) (h : n < 2 ^ 64) : isWord (n : Int) := by
  unfold isWord; omega

theorem word_cast (w : Int) (h : isWord w) : ∃ n : Nat, w = (n : Int) ∧ n < 2 ^ 64 := by
  unfold isWord at h; exact ⟨w.toNat, by omega, by omega⟩

theorem u64_nat (n : Nat) (h : n < 2 ^ 64) : u64 (n : Int) = (n : Int) := by
  unfold u64; omega

theorem set_natCast (ws : List Int) (k : Nat) (v : Int) : GoSem.set ws (k : Int) v = ws.set k v := by
  unfold GoSem.set; rw [if_neg (by omega), Int.toNat_natCast]

/-- `uint64(1) << j` for `j < 64`. -/
theorem one_shl (j : Nat) (hj : j < 64) : u64 (shl 1 (j : Int)) = ((2 ^ j : Nat) : Int) := by
  have hlt : 2 ^ j < 2 ^ 64 := Nat.pow_lt_pow_right (by omega) hj
  have : shl 1 (j : Int) = ((2 ^ j : Nat) : Int) := by unfold shl; simp
  rw [this]; exact u64_nat _ hlt

/-- `w | 1<<j`: still a word, bit `j` set, the others unchanged. -/
theorem or_word (w : Int) (hw : isWord w) (j : Nat) (hj : j < 64) :
    isWord (u64 (bor w (u64 (shl 1 (j : Int))))) ∧
    ∀ t, (u64 (bor w (u64 (shl 1 (j : Int))))).toNat.testBit t = (w.toNat.testBit t || decide (j = t)) := by
  obtain ⟨n, rfl, hlt⟩ := word_cast w hw
  have hp : 2 ^ j < 2 ^ 64 := Nat.pow_lt_pow_right (by omega) hj
  have hor : n ||| 2 ^ j < 2 ^ 64 := Nat.or_lt_two_pow hlt hp
  have e : u64 (bor (n : Int) (u64 (shl 1 (j : Int)))) = ((n ||| 2 ^ j : Nat) : Int) := by
    rw [one_shl j hj, bor_ofNat]; exact u64_nat _ hor
  rw [e]
  refine ⟨isWord_natCast _ hor, fun t => ?_⟩
  rw [Int.toNat_natCast, Int.toNat_natCast, Nat.testBit_or, Nat.testBit_two_pow]

theorem bnot_pow (n : Nat) : bnot ((n : Nat) : Int) = Int.negSucc n := by
  unfold bnot; rw [Int.negSucc_eq]; omega

theorem band_negSucc (w n : Nat) : band (w : Int) (Int.negSucc n) = ((w ^^^ (w &&& n) : Nat) : Int) := rfl

/-- `w &^ 1<<j`: still a word, bit `j` cleared, the others unchanged. -/
theorem andnot_word (w : Int) (hw : isWord w) (j : Nat) (hj : j < 64) :
    isWord (u64 (bandnot w (u64 (shl 1 (j : Int))))) ∧
    ∀ t, (u64 (bandnot w (u64 (shl 1 (j : Int))))).toNat.testBit t = (w.toNat.testBit t && !decide (j = t)) := by
  obtain ⟨n, rfl, hlt⟩ := word_cast w hw
  have hp : 2 ^ j < 2 ^ 64 := Nat.pow_lt_pow_right (by omega) hj
  have hx : n ^^^ (n &&& 2 ^ j) < 2 ^ 64 := Nat.xor_lt_two_pow hlt (Nat.and_lt_two_pow _ hp)
  have e : u64 (bandnot (n : Int) (u64 (shl 1 (j : Int)))) = ((n ^^^ (n &&& 2 ^ j) : Nat) : Int) := by
    rw [one_shl j hj]
    unfold bandnot
    rw [bnot_pow, band_negSucc]; exact u64_nat _ hx
  rw [e]
  refine ⟨isWord_natCast _ hx, fun t => ?_⟩
  rw [Int.toNat_natCast, Int.toNat_natCast, Nat.testBit_xor, Nat.testBit_and, Nat.testBit_two_pow]
  by_cases h : j = t <;> simp [h]

theorem and_pow_ne_zero (x k : Nat) : (x &&& 2 ^ k ≠ 0) ↔ x.testBit k = true := by
  by_cases h : x.testBit k = true
  · have e : x &&& 2 ^ k = 2 ^ k := by
      apply Nat.eq_of_testBit_eq
      intro i
      rw [Nat.testBit_and, Nat.testBit_two_pow]
      by_cases hk : k = i
      · subst hk; simp [h]
      · simp [hk]
    rw [e]
    have := Nat.two_pow_pos k
    constructor
    · intro _; exact h
    · intro _; omega
  · have e : x &&& 2 ^ k = 0 := by
      apply Nat.eq_of_testBit_eq
      intro i
      rw [Nat.testBit_and, Nat.testBit_two_pow]
      by_cases hk : k = i
      · subst hk; simp at h; simp [h]
      · simp [hk]
    rw [e]; simp [h]

/-- `w & 1<<j != 0` reads bit `j`. -/
theorem and_word (w : Int) (hw : isWord w) (j : Nat) (hj : j < 64) :
    decide (u64 (band w (u64 (shl 1 (j : Int)))) ≠ 0) = w.toNat.testBit j := by
  obtain ⟨n, rfl, hlt⟩ := word_cast w hw
  have ha : n &&& 2 ^ j < 2 ^ 64 := Nat.lt_of_le_of_lt Nat.and_le_left hlt
  have e : u64 (band (n : Int) (u64 (shl 1 (j : Int)))) = ((n &&& 2 ^ j : Nat) : Int) := by
    rw [one_shl j hj, band_ofNat]; exact u64_nat _ ha
  rw [e, Int.toNat_natCast]
  have h1 : ((((n &&& 2 ^ j : Nat) : Int)) ≠ 0) ↔ (n &&& 2 ^ j ≠ 0) := by omega
  have h2 := and_pow_ne_zero n j
  by_cases h : n.testBit j = true
  · rw [h]; exact decide_eq_true (h1.mpr (h2.mpr h))
  · have hn : ¬ (n &&& 2 ^ j ≠ 0) := fun x => h (h2.mp x)
    have : n.testBit j = false := by simpa using h
    rw [this]; exact decide_eq_false (fun x => hn (h1.mp x))

/-! ## the slice of words -/

/-- 128 uint64 words (`make([]uint64, 128)`). -/
def wordsOk (ws : List Int) : Prop := ws.length = 128 ∧ ∀ k, k < 128 → isWord (ws.getD k 0)

/-- abstraction relation: position `p` of the model's `Array Bool` is bit `p % 64` of word `p / 64`. -/
def bitsRel (ws : List Int) (b : Array Bool) : Prop :=
  wordsOk ws ∧ b.size = 8192 ∧ ∀ p, p < 8192 → b.getD p false = (ws.getD (p / 64) 0).toNat.testBit (p % 64)

/-- ★ the constructor establishes the relation: `make([]uint64, 128)` represents the all-false history. -/
theorem bitsRel_new : bitsRel (mkSlice 128) (Array.replicate W false) := by
  have hg : ∀ k, (mkSlice 128).getD k 0 = 0 := by
    intro k
    unfold mkSlice
    rw [List.getD_eq_getElem?_getD, List.getElem?_replicate]
    split <;> rfl
  refine ⟨⟨by simp [mkSlice], fun k _ => ?_⟩, by simp [W], fun p hp => ?_⟩
  · rw [hg]; unfold isWord; omega
  · rw [hg, Array.getD_eq_getD_getElem?, Array.getElem?_replicate]
    split <;> simp

theorem getD_set (ws : List Int) (k k' : Nat) (v : Int) (hk : k < ws.length) :
    (ws.set k v).getD k' 0 = if k = k' then v else ws.getD k' 0 := by
  rw [List.getD_eq_getElem?_getD, List.getElem?_set, List.getD_eq_getElem?_getD]
  by_cases h : k = k'
  · subst h; simp [hk]
  · simp [h]

/-- replacing word `k` by a word whose bits are those of the old one except that bit `j` becomes `v`
represents `setIfInBounds (64k + j) v`. -/
theorem bitsRel_set (ws : List Int) (b : Array Bool) (r : bitsRel ws b) (p0 : Nat) (hp0 : p0 < 8192)
    (v : Int) (bit : Bool) (hv : isWord v)
    (hbits : ∀ t, v.toNat.testBit t = if p0 % 64 = t then bit else (ws.getD (p0 / 64) 0).toNat.testBit t) :
    bitsRel (ws.set (p0 / 64) v) (b.setIfInBounds p0 bit) := by
  obtain ⟨⟨hl, hw⟩, hs, hb⟩ := r
  have hk : p0 / 64 < ws.length := by omega
  refine ⟨⟨by rw [List.length_set]; exact hl, fun k hk' => ?_⟩, by rw [Array.size_setIfInBounds]; exact hs,
    fun p hp => ?_⟩
  · rw [getD_set _ _ _ _ hk]
    split
    · exact hv
    · exact hw k hk'
  · rw [getD_set _ _ _ _ hk, Array.getD_eq_getD_getElem?, Array.getElem?_setIfInBounds]
    by_cases h : p0 = p
    · subst h
      simp only [if_true, hs, hp0, Option.getD_some]
      rw [hbits]; simp
    · have := hb p hp
      rw [Array.getD_eq_getD_getElem?] at this
      simp only [h, if_false, this]
      by_cases h2 : p0 / 64 = p / 64
      · have h3 : p0 % 64 ≠ p % 64 := by omega
        simp only [h2, if_true]
        rw [hbits, if_neg h3, h2]
      · simp only [h2, if_false]

/-! ## setReceived / delReceived / getReceived -/

/-- `seq % (size * 64)` with `size = 128`, for a uint16 `seq`. -/
theorem pos_eq (size seq : Int) (hsz : size = 128) (hs : 0 ≤ seq ∧ seq < 65536) :
    seq % (u16 (size * 64)) = ((seq.toNat % 8192 : Nat) : Int) := by
  subst hsz; unfold u16
  have : ((128 : Int) * 64 % 65536) = 8192 := by decide
  rw [this]; omega

/-- ★ `setReceived` as written in the source changes only `packets`, and the new slice represents the
model's `setBit … true`. -/
theorem setReceived_src_eq_model (g : S_report_receiverStream) (b : Array Bool) (hsz : g.size = 128)
    (r : bitsRel g.packets b) (seq : Int) (hs : 0 ≤ seq ∧ seq < 65536) :
    ∃ ws, report_receiverStream_setReceived g seq = { g with packets := ws } ∧
      bitsRel ws (setBit b seq.toNat true) := by
  have hp := pos_eq g.size seq hsz hs
  have hlt : seq.toNat % 8192 < 8192 := Nat.mod_lt _ (by omega)
  have hd : ((seq.toNat % 8192 : Nat) : Int) / 64 = ((seq.toNat % 8192 / 64 : Nat) : Int) := by omega
  have hm : ((seq.toNat % 8192 : Nat) : Int) % 64 = ((seq.toNat % 8192 % 64 : Nat) : Int) := by omega
  have hidx : idx g.packets ((seq.toNat % 8192 / 64 : Nat) : Int) = g.packets.getD (seq.toNat % 8192 / 64) 0 := by
    unfold idx; rw [if_neg (by omega), Int.toNat_natCast]
  have hwk := r.1.2 (seq.toNat % 8192 / 64) (by omega)
  obtain ⟨hv, hbits⟩ := or_word _ hwk (seq.toNat % 8192 % 64) (by omega)
  refine ⟨g.packets.set (seq.toNat % 8192 / 64) (u64 (bor (g.packets.getD (seq.toNat % 8192 / 64) 0)
    (u64 (shl 1 ((seq.toNat % 8192 % 64 : Nat) : Int))))), ?_, ?_⟩
  · unfold report_receiverStream_setReceived
    simp only [hp, hd, hm, hidx, set_natCast]
  · unfold setBit W
    refine bitsRel_set _ _ r _ hlt _ true hv (fun t => ?_)
    rw [hbits]
    by_cases h : seq.toNat % 8192 % 64 = t
    · rw [if_pos h, decide_eq_true h]; simp
    · rw [if_neg h, decide_eq_false h]; simp

/-- ★ `delReceived` as written in the source changes only `packets`, and the new slice represents the
model's `setBit … false`. -/
theorem delReceived_src_eq_model (g : S_report_receiverStream) (b : Array Bool) (hsz : g.size = 128)
    (r : bitsRel g.packets b) (seq : Int) (hs : 0 ≤ seq ∧ seq < 65536) :
    ∃ ws, report_receiverStream_delReceived g seq = { g with packets := ws } ∧
      bitsRel ws (setBit b seq.toNat false) := by
  have hp := pos_eq g.size seq hsz hs
  have hlt : seq.toNat % 8192 < 8192 := Nat.mod_lt _ (by omega)
  have hd : ((seq.toNat % 8192 : Nat) : Int) / 64 = ((seq.toNat % 8192 / 64 : Nat) : Int) := by omega
  have hm : ((seq.toNat % 8192 : Nat) : Int) % 64 = ((seq.toNat % 8192 % 64 : Nat) : Int) := by omega
  have hidx : idx g.packets ((seq.toNat % 8192 / 64 : Nat) : Int) = g.packets.getD (seq.toNat % 8192 / 64) 0 := by
    unfold idx; rw [if_neg (by omega), Int.toNat_natCast]
  have hwk := r.1.2 (seq.toNat % 8192 / 64) (by omega)
  obtain ⟨hv, hbits⟩ := andnot_word _ hwk (seq.toNat % 8192 % 64) (by omega)
  refine ⟨g.packets.set (seq.toNat % 8192 / 64) (u64 (bandnot (g.packets.getD (seq.toNat % 8192 / 64) 0)
    (u64 (shl 1 ((seq.toNat % 8192 % 64 : Nat) : Int))))), ?_, ?_⟩
  · unfold report_receiverStream_delReceived
    simp only [hp, hd, hm, hidx, set_natCast]
  · unfold setBit W
    refine bitsRel_set _ _ r _ hlt _ false hv (fun t => ?_)
    rw [hbits]
    by_cases h : seq.toNat % 8192 % 64 = t
    · rw [if_pos h, decide_eq_true h]; simp
    · rw [if_neg h, decide_eq_false h]; simp

/-- ★ `getReceived` as written in the source equals the model's `getBit`. -/
theorem getReceived_src_eq_model (g : S_report_receiverStream) (b : Array Bool) (hsz : g.size = 128)
    (r : bitsRel g.packets b) (seq : Int) (hs : 0 ≤ seq ∧ seq < 65536) :
    report_receiverStream_getReceived g seq = getBit b seq.toNat := by
  have hp := pos_eq g.size seq hsz hs
  have hlt : seq.toNat % 8192 < 8192 := Nat.mod_lt _ (by omega)
  have hd : ((seq.toNat % 8192 : Nat) : Int) / 64 = ((seq.toNat % 8192 / 64 : Nat) : Int) := by omega
  have hm : ((seq.toNat % 8192 : Nat) : Int) % 64 = ((seq.toNat % 8192 % 64 : Nat) : Int) := by omega
  have hidx : idx g.packets ((seq.toNat % 8192 / 64 : Nat) : Int) = g.packets.getD (seq.toNat % 8192 / 64) 0 := by
    unfold idx; rw [if_neg (by omega), Int.toNat_natCast]
  have hwk := r.1.2 (seq.toNat % 8192 / 64) (by omega)
  unfold report_receiverStream_getReceived getBit W
  simp only [hp, hd, hm, hidx]
  rw [and_word _ hwk _ (by omega), r.2.2 _ hlt]

/-! satisfiability of the hypotheses on a concrete state: the freshly constructed stream, and the stream
after `setReceived(65535)` (bit 63 of word 127 set). -/

example : ({ size := 128, packets := mkSlice 128 } : S_report_receiverStream).size = 128 ∧
    bitsRel ({ size := 128, packets := mkSlice 128 } : S_report_receiverStream).packets (Array.replicate W false) :=
  ⟨rfl, bitsRel_new⟩

example : ∃ g b, g.size = 128 ∧ bitsRel g.packets b ∧ report_receiverStream_getReceived g 65535 = true := by
  obtain ⟨ws, he, hb⟩ := setReceived_src_eq_model { size := 128, packets := mkSlice 128 } _ rfl bitsRel_new 65535
    (by omega)
  refine ⟨({ size := 128, packets := ws } : S_report_receiverStream),
    setBit (Array.replicate W false) (65535 : Int).toNat true, rfl, hb, ?_⟩
  rw [getReceived_src_eq_model _ _ rfl hb 65535 (by omega)]
  unfold getBit setBit
  rw [Array.getD_eq_getD_getElem?, Array.getElem?_setIfInBounds, if_pos rfl, Array.size_replicate,
    if_pos (Nat.mod_lt _ (by decide))]
  rfl

end Interceptor.ReportBitmap

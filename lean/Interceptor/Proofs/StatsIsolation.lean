/-
C19 helper lemmas, part 3: the recorder slot of `s` only sees the sub-history concerning `s`.
-/
import Interceptor.Proofs.StatsCounters
namespace Interceptor.Stats
open Interceptor.Stats.Spec

theorem foldl_filter_skip {α β : Type} (f : α → β → α) (g : β → Bool)
    (h : ∀ a b, g b = false → f a b = a) (l : List β) (a : α) :
    l.foldl f a = (l.filter g).foldl f a := by
  induction l generalizing a with
  | nil => rfl
  | cons b l ih =>
    rw [List.foldl_cons, List.filter_cons]
    cases hg : g b
    · rw [h a b hg]; simpa using ih a
    · simpa using ih (f a b)

theorem outStep_skip (s : Nat) (st : IStats) (p : Rtcp) (h : keepOut s p = false) : outStep s st p = st := by
  cases p with
  | xr _ _ => simp [keepOut] at h
  | rr _ _ => rfl
  | other _ => rfl
  | sr ssrc ntp pc oc rs => simp only [keepOut] at h; unfold outStep; rw [h]; rfl
  | nack a m => simp only [keepOut] at h; unfold outStep; rw [h]; rfl
  | pli a m => simp only [keepOut] at h; unfold outStep; rw [h]; rfl
  | fir a m es => simp only [keepOut] at h; unfold outStep; rw [h]; rfl

/-- an event of which nothing concerns `s` leaves the statistics of `s` alone. -/
theorem recStep_none (s : Nat) (rate : Rat) (st : IStats) (e : Event) (h : restrictEvent s e = none) :
    recStep s rate st e = st := by
  cases e with
  | bind _ _ => rfl
  | close => rfl
  | rtcpIn _ _ => simp [restrictEvent] at h
  | rtcpOut _ => simp [restrictEvent] at h
  | rtpIn now via p =>
    simp only [restrictEvent] at h
    simp only [recStep]
    by_cases hv : via = s
    · by_cases hp : p.ssrc = s
      · simp [hv, hp] at h
      · simp [hv, recordIncomingRTP, hp]
    · simp [hv]
  | rtpOut via p =>
    simp only [restrictEvent] at h
    simp only [recStep]
    by_cases hv : via = s
    · by_cases hp : p.ssrc = s
      · simp [hv, hp] at h
      · simp [hv, recordOutgoingRTP, hp]
    · simp [hv]

/-- only the part of an event that concerns `s` matters to the statistics of `s`. -/
theorem recStep_some (s : Nat) (rate : Rat) (st : IStats) (e e' : Event) (h : restrictEvent s e = some e') :
    recStep s rate st e = recStep s rate st e' := by
  cases e with
  | bind s' r => simp only [restrictEvent] at h; split at h <;> simp_all
  | close => simp only [restrictEvent, Option.some.injEq] at h; rw [← h]
  | rtcpIn now pkts =>
    simp only [restrictEvent, Option.some.injEq] at h
    rw [← h]
    simp only [recStep, recordIncomingRTCP]
    exact foldl_filter_skip _ (keepIn s) (fun a b hb => inStep_skip s rate now a b hb) pkts st
  | rtcpOut pkts =>
    simp only [restrictEvent, Option.some.injEq] at h
    rw [← h]
    simp only [recStep, recordOutgoingRTCP]
    exact foldl_filter_skip _ (keepOut s) (fun a b hb => outStep_skip s a b hb) pkts st
  | rtpIn now via p => simp only [restrictEvent] at h; split at h <;> simp_all
  | rtpOut via p => simp only [restrictEvent] at h; split at h <;> simp_all

theorem Rec.step_none (s : Nat) (r : Rec) (hr : r.ssrc = s) (e : Event) (h : restrictEvent s e = none) :
    r.step e = r := by
  cases e with
  | close => simp [restrictEvent] at h
  | bind _ _ => exact Rec.step_bind _ _ r
  | rtcpIn _ _ => simp [restrictEvent] at h
  | rtcpOut _ => simp [restrictEvent] at h
  | rtpIn now via p =>
    unfold Rec.step
    simp only []
    split
    · rw [hr, recStep_none s _ _ _ h]; subst hr; cases r; rfl
    · rfl
  | rtpOut via p =>
    unfold Rec.step
    simp only []
    split
    · rw [hr, recStep_none s _ _ _ h]; subst hr; cases r; rfl
    · rfl

theorem Rec.step_some (s : Nat) (r : Rec) (hr : r.ssrc = s) (e e' : Event) (h : restrictEvent s e = some e') :
    r.step e = r.step e' := by
  cases e with
  | close => simp only [restrictEvent, Option.some.injEq] at h; rw [← h]
  | bind s' rate => simp only [restrictEvent] at h; split at h <;> simp_all
  | rtpIn now via p => simp only [restrictEvent] at h; split at h <;> simp_all
  | rtpOut via p => simp only [restrictEvent] at h; split at h <;> simp_all
  | rtcpIn now pkts =>
    have h2 := h
    simp only [restrictEvent, Option.some.injEq] at h
    rw [← h]
    unfold Rec.step
    simp only []
    split
    · rw [hr, recStep_some s _ _ _ _ h2, ← h]
    · rfl
  | rtcpOut pkts =>
    have h2 := h
    simp only [restrictEvent, Option.some.injEq] at h
    rw [← h]
    unfold Rec.step
    simp only []
    split
    · rw [hr, recStep_some s _ _ _ _ h2, ← h]
    · rfl

/-- the slot of `s` holds a recorder for `s`. -/
def SlotOk (s : Nat) (o : Option Rec) : Prop := ∀ r, o = some r → r.ssrc = s

theorem projStep_ok (s : Nat) (o : Option Rec) (e : Event) (h : SlotOk s o) : SlotOk s (projStep s o e) := by
  intro r hr
  cases o with
  | some r0 =>
    simp only [projStep, Option.some.injEq] at hr
    rw [← hr, Rec.step_ssrc]
    exact h r0 rfl
  | none =>
    cases e with
    | bind s' rate =>
      simp only [projStep] at hr
      split at hr
      · simp only [Option.some.injEq] at hr; rw [← hr]; rfl
      · simp at hr
    | _ => simp [projStep] at hr

theorem projStep_restrict (s : Nat) (o : Option Rec) (h : SlotOk s o) (e : Event) :
    projStep s o e = match restrictEvent s e with
      | none => o
      | some e' => projStep s o e' := by
  cases hre : restrictEvent s e with
  | none =>
    cases o with
    | some r => simp only [projStep]; rw [Rec.step_none s r (h r rfl) e hre]
    | none =>
      cases e with
      | bind s' rate =>
        simp only [restrictEvent] at hre
        split at hre
        · simp at hre
        · next hs => simp [projStep, hs]
      | _ => rfl
  | some e' =>
    cases o with
    | some r => simp only [projStep]; rw [Rec.step_some s r (h r rfl) e e' hre]
    | none =>
      cases e with
      | bind s' rate =>
        simp only [restrictEvent] at hre
        split at hre
        · simp only [Option.some.injEq] at hre; rw [← hre]
        · simp at hre
      | close => simp only [restrictEvent, Option.some.injEq] at hre; rw [← hre]
      | rtcpIn now pkts => simp only [restrictEvent, Option.some.injEq] at hre; rw [← hre]; rfl
      | rtcpOut pkts => simp only [restrictEvent, Option.some.injEq] at hre; rw [← hre]; rfl
      | rtpIn now via p => simp only [restrictEvent] at hre; split at hre <;> simp_all
      | rtpOut via p => simp only [restrictEvent] at hre; split at hre <;> simp_all

theorem foldl_proj_restrict (s : Nat) (evs : List Event) (o : Option Rec) (h : SlotOk s o) :
    evs.foldl (projStep s) o = (restrict s evs).foldl (projStep s) o := by
  induction evs generalizing o with
  | nil => rfl
  | cons e evs ih =>
    rw [List.foldl_cons, ih _ (projStep_ok s o e h), projStep_restrict s o h e]
    unfold restrict
    rw [List.filterMap_cons]
    cases restrictEvent s e with
    | none => rfl
    | some e' => rfl

end Interceptor.Stats

/-
rtpfb history (F-40): what `buildReport` reports is bounded by what feedback acknowledged as ARRIVED.
Ghost state: the list of (counter, status) pairs the acknowledgement operations resolved to.
Invariant `AckInv`: `highestAcked` is the counter of a packet some feedback acknowledged as arrived
(once `acked` is set; 0 before), and a stored packet is marked arrived only if feedback said so.
-/
import Interceptor.Proofs.RtpfbHistory
namespace Interceptor.Rtpfb

/-- ghost: the counter of the sent packet that `op` acknowledges in state `h`, with the status the
feedback carries (`none`: not an acknowledgement, or the number / the packet is unknown). -/
def ackTarget (h : Hist) : HOp → Option (Nat × Bool)
  | .ackTw _ a => (alookup h.twcc a.seq).bind fun c => (alookup h.packets c).map fun _ => (c, a.arrived)
  | .ackCc _ ssrc a => (alookup h.ss (ssrc, a.seq)).bind fun c => (alookup h.packets c).map fun _ => (c, a.arrived)
  | _ => none

/-- the history after a sequence of operations. -/
def finalHist (h : Hist) (ops : List HOp) : Hist := ops.foldl (fun h op => (stepOp h op).1) h

/-- ghost: every (counter, status) the acknowledgement operations of `ops` resolved to, in order. -/
def targets : Hist → List HOp → List (Nat × Bool)
  | _, [] => []
  | h, op :: ops => (ackTarget h op).toList ++ targets (stepOp h op).1 ops

structure AckInv (h : Hist) (T : List (Nat × Bool)) : Prop where
  wf : WF h
  hi : h.acked = true → (h.highestAcked, true) ∈ T
  zero : h.acked = false → h.highestAcked = 0
  arr : ∀ e ∈ h.packets, e.2.arrived = true → (e.2.ctr, true) ∈ T

theorem ackInv_init : AckInv {} [] :=
  ⟨wf_init, (by intro h; cases h), (fun _ => rfl), (by intro e he; cases he)⟩

/-- "h' is h with some packets deleted; the acknowledgement cursor is untouched". -/
structure PSub (h' h : Hist) : Prop where
  pk : ∀ e ∈ h'.packets, e ∈ h.packets
  ak : h'.acked = h.acked
  hA : h'.highestAcked = h.highestAcked

theorem psub_refl (h : Hist) : PSub h h := ⟨fun _ he => he, rfl, rfl⟩

theorem psub_trans {a b c : Hist} (x : PSub a b) (y : PSub b c) : PSub a c :=
  ⟨fun e he => y.pk e (x.pk e he), x.ak.trans y.ak, x.hA.trans y.hA⟩

theorem psub_delete (h : Hist) (p : PR) : PSub (delete h p) h :=
  ⟨fun _ he => aerase_mem _ _ _ he, rfl, rfl⟩

theorem ackInv_psub {h' h : Hist} {T : List (Nat × Bool)} (s : PSub h' h) (hw : WF h') (i : AckInv h T) :
    AckInv h' T :=
  ⟨hw, by rw [s.ak, s.hA]; exact i.hi, by rw [s.ak, s.hA]; exact i.zero, fun e he => i.arr e (s.pk e he)⟩

theorem reportLoop_psub (is : List Nat) : ∀ (h : Hist) (acc : List PR), PSub (reportLoop is h acc).1 h := by
  induction is with
  | nil => intro h acc; exact psub_refl h
  | cons i is ih =>
    intro h acc
    unfold reportLoop
    cases alookup h.packets i with
    | none => exact ih h acc
    | some p =>
      simp only
      split
      · exact psub_trans (ih _ _) ⟨(psub_delete h p).pk, rfl, rfl⟩
      · exact psub_trans (ih _ _) (psub_delete h p)

theorem cleanBefore_psub (h : Hist) (c : Nat) : PSub (cleanBefore h c) h := by
  have gen : ∀ (l : List Nat) (h : Hist), PSub (l.foldl cleanStep h) h := by
    intro l
    induction l with
    | nil => intro h; exact psub_refl h
    | cons i l ih =>
      intro h
      simp only [List.foldl_cons]
      unfold cleanStep
      cases alookup h.packets i with
      | none => exact ih h
      | some p => exact psub_trans (ih _) (psub_delete h p)
  have g := gen (List.range' h.cleanUntil (c - h.cleanUntil)) h
  exact ⟨g.pk, g.ak, g.hA⟩

/-- every packet reported by the loop was stored in the history under its counter, and its counter is
one of the counters the loop walks. -/
theorem reportLoop_mem (is : List Nat) : ∀ (h : Hist) (acc : List PR), WF h →
    ∀ p ∈ (reportLoop is h acc).2, p ∈ acc ∨ (p.ctr ∈ is ∧ (p.ctr, p) ∈ h.packets) := by
  induction is with
  | nil =>
    intro h acc _ p hp
    left
    simpa [reportLoop] using hp
  | cons i is ih =>
    intro h acc hw p hp
    unfold reportLoop at hp
    cases hl : alookup h.packets i with
    | none =>
      rw [hl] at hp
      rcases ih h acc hw p hp with h1 | ⟨h1, h2⟩
      · left; exact h1
      · right; exact ⟨List.mem_cons_of_mem _ h1, h2⟩
    | some q =>
      rw [hl] at hp
      simp only at hp
      have hq : (i, q) ∈ h.packets := alookup_mem _ _ _ hl
      have hqc : q.ctr = i := hw _ hq
      have hw1 : WF (delete h q) := (wf_delete h hw q).1
      have fin : ∀ (h2 : Hist), WF h2 → (∀ e ∈ h2.packets, e ∈ h.packets) →
          p ∈ (reportLoop is h2 (q :: acc)).2 → p ∈ acc ∨ (p.ctr ∈ i :: is ∧ (p.ctr, p) ∈ h.packets) := by
        intro h2 hw2 hs hp2
        rcases ih h2 (q :: acc) hw2 p hp2 with h1 | ⟨h1, h2'⟩
        · rcases List.mem_cons.mp h1 with rfl | h1
          · right; rw [hqc]; exact ⟨List.mem_cons_self .., hq⟩
          · left; exact h1
        · right; exact ⟨List.mem_cons_of_mem _ h1, hs _ h2'⟩
      split at hp
      · exact fin { delete h q with nextReport := q.ctr + 1 } hw1 (psub_delete h q).pk hp
      · exact fin (delete h q) hw1 (psub_delete h q).pk hp

/-- `buildReport` leaves the acknowledgement cursor alone and only deletes packets; everything it
reports was stored, lies at or below `highestAcked`, and `acked` was set. -/
theorem buildReport_acked (h : Hist) (hw : WF h) :
    PSub (buildReport h).1 h ∧
    ∀ p ∈ (buildReport h).2, h.acked = true ∧ p.ctr ≤ h.highestAcked ∧ (p.ctr, p) ∈ h.packets := by
  unfold buildReport
  by_cases hgt : h.acked = false ∨ h.nextReport > h.highestAcked
  · rw [if_pos hgt]; exact ⟨psub_refl h, by simp⟩
  · rw [if_neg hgt]
    have s1 := reportLoop_psub (List.range' h.nextReport (h.highestAcked + 1 - h.nextReport)) h []
    have m1 := reportLoop_mem (List.range' h.nextReport (h.highestAcked + 1 - h.nextReport)) h [] hw
    generalize reportLoop (List.range' h.nextReport (h.highestAcked + 1 - h.nextReport)) h [] = rl at s1 m1 ⊢
    obtain ⟨h1, res⟩ := rl
    simp only at s1 m1 ⊢
    refine ⟨psub_trans (cleanBefore_psub h1 h1.nextReport) s1, ?_⟩
    intro p hp
    have hak : h.acked = true := by
      cases hb : h.acked with
      | true => rfl
      | false => exact absurd (Or.inl hb) hgt
    rcases m1 p hp with h0 | ⟨hr, hm⟩
    · cases h0
    · have := (List.mem_range'_1.mp hr).2
      exact ⟨hak, by omega, hm⟩

theorem ackInv_mono {h : Hist} {T T' : List (Nat × Bool)} (i : AckInv h T) (hs : ∀ x ∈ T, x ∈ T') :
    AckInv h T' :=
  ⟨i.wf, fun a => hs _ (i.hi a), i.zero, fun e he ha => hs _ (i.arr e he ha)⟩

theorem ackInv_onFeedback (h : Hist) (T : List (Nat × Bool)) (i : AckInv h T) (ts : Int) (c : Nat) (a : RAck) :
    AckInv (onFeedback h ts c a).1 (T ++ ((alookup h.packets c).map fun _ => (c, a.arrived)).toList) := by
  have hw := (wf_onFeedback h i.wf ts c a).1
  unfold onFeedback at hw ⊢
  cases hl : alookup h.packets c with
  | none => simpa using i
  | some p =>
    rw [hl] at hw
    have hpc : p.ctr = c := i.wf _ (alookup_mem _ _ _ hl)
    simp only [Option.map_some, Option.toList_some]
    refine ⟨hw, ?_, ?_, ?_⟩
    · intro hacked
      simp only at hacked ⊢
      cases har : a.arrived with
      | false =>
        rw [har] at hacked
        simp only [Bool.or_false] at hacked
        simp only [Bool.false_eq_true, false_and, if_false]
        exact List.mem_append_left _ (i.hi hacked)
      | true =>
        simp only [true_and]
        by_cases hlt : h.highestAcked < p.ctr
        · rw [if_pos hlt, hpc]; exact List.mem_append_right _ (by simp)
        · rw [if_neg hlt]
          cases hb : h.acked with
          | true => exact List.mem_append_left _ (i.hi hb)
          | false =>
            have hz := i.zero hb
            have : h.highestAcked = c := by omega
            rw [this]; exact List.mem_append_right _ (by simp)
    · intro hacked
      simp only at hacked ⊢
      cases har : a.arrived with
      | true => rw [har] at hacked; simp at hacked
      | false =>
        rw [har] at hacked
        simp only [Bool.or_false] at hacked
        simp only [Bool.false_eq_true, false_and, if_false]
        exact i.zero hacked
    · intro e he harr
      simp only at he
      rcases ainsert_mem _ _ _ _ he with h1 | h1
      · exact List.mem_append_left _ (i.arr e h1 harr)
      · subst h1
        simp only at harr ⊢
        rw [hpc, harr]; exact List.mem_append_right _ (by simp)

theorem ackInv_step (h : Hist) (T : List (Nat × Bool)) (i : AckInv h T) (op : HOp) :
    AckInv (stepOp h op).1 (T ++ (ackTarget h op).toList) := by
  cases op with
  | add ssrc rtpSeq isTwcc twSeq size dep =>
    simp only [stepOp, ackTarget, Option.toList_none, List.append_nil]
    refine ⟨(wf_add h i.wf ssrc rtpSeq isTwcc twSeq size dep).1, i.hi, i.zero, ?_⟩
    intro e he harr
    rcases ainsert_mem _ _ _ _ he with h1 | h1
    · exact i.arr e h1 harr
    · subst h1; cases harr
  | ackTw ts a =>
    simp only [stepOp, ackTarget, onTWCCFeedback]
    cases alookup h.twcc a.seq with
    | none => simpa using i
    | some c => exact ackInv_onFeedback h T i ts c a
  | ackCc ts ssrc a =>
    simp only [stepOp, ackTarget, onCCFBFeedback]
    cases alookup h.ss (ssrc, a.seq) with
    | none => simpa using i
    | some c => exact ackInv_onFeedback h T i ts c a
  | build =>
    simp only [stepOp, ackTarget, Option.toList_none, List.append_nil]
    exact ackInv_psub (buildReport_acked h i.wf).1 (buildReport_spec h i.wf).2.2.2 i

theorem ackInv_run (ops : List HOp) : ∀ (h : Hist) (T : List (Nat × Bool)), AckInv h T →
    AckInv (finalHist h ops) (T ++ targets h ops) := by
  induction ops with
  | nil => intro h T i; simpa [finalHist, targets] using i
  | cons op ops ih =>
    intro h T i
    have := ih _ _ (ackInv_step h T i op)
    simpa [finalHist, targets, List.append_assoc] using this

/-- every report of a run is the `buildReport` of the history after a prefix of the operations. -/
theorem runOps_build (ops : List HOp) : ∀ (h : Hist),
    runOps h (ops ++ [.build]) = runOps h ops ++ [(buildReport (finalHist h ops)).2] := by
  induction ops with
  | nil => intro h; rfl
  | cons op ops ih => intro h; simp only [List.cons_append, runOps, finalHist, List.foldl_cons]; rw [ih]; rfl

end Interceptor.Rtpfb

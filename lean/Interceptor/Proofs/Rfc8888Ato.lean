/-
Arrival time offset: the binary64 computation of `getATO` (Base/F64) against the exact value.
Method: `rne` never crosses a grid point (`rne_sandwich`: a multiple `g` of `2^J` with
`q < 2^(J+53)` satisfies `g ≤ q → g ≤ rne q` and `q ≤ g → rne q ≤ g`); the three roundings of
`float64(sec) + float64(nsec)/1e9` and `· 1024` are squeezed between grid points that are
closer to the exact value than the distance `1/1953125` of a non-integral exact value
`2d/1953125` from the nearest integer.
-/
import Interceptor.Spec.Rfc8888
import Mathlib.Tactic.Linarith
import Mathlib.Tactic.Ring
import Mathlib.Tactic.Positivity
import Mathlib.Tactic.NormNum
import Mathlib.Data.Rat.Floor
import Mathlib.Algebra.Order.Field.Power
namespace Interceptor.F64

theorem pow2_eq (e : Int) : pow2 e = (2 : ℚ) ^ e := by
  unfold pow2
  split
  · rename_i h
    conv_rhs => rw [← Int.toNat_of_nonneg h]
    rw [zpow_natCast]
  · rename_i h
    have : e = -((-e).toNat : Int) := by omega
    conv_rhs => rw [this]
    rw [zpow_neg, zpow_natCast, one_div]

theorem pow2_pos (e : Int) : 0 < pow2 e := by rw [pow2_eq]; positivity

theorem pow2_add (a b : Int) : pow2 (a + b) = pow2 a * pow2 b := by
  simp only [pow2_eq]; exact zpow_add₀ (by norm_num) a b

theorem pow2_le {a b : Int} (h : a ≤ b) : pow2 a ≤ pow2 b := by
  simp only [pow2_eq]; exact zpow_le_zpow_right₀ (by norm_num) h

theorem pow2_natCast (n : Nat) : pow2 (n : Int) = ((2 ^ n : Nat) : ℚ) := by
  rw [pow2_eq, zpow_natCast]; push_cast; rfl

/-- `ilog2` never overestimates. -/
theorem ilog2_le (a : ℚ) (ha : 0 < a) : pow2 (ilog2 a) ≤ a := by
  unfold ilog2
  dsimp only
  split
  · have hnum : 0 < a.num := Rat.num_pos.mpr ha
    have h1 : 2 ^ (Nat.log2 a.num.toNat) ≤ a.num.toNat := Nat.log2_self_le (by omega)
    have h2 : a.den < 2 ^ (Nat.log2 a.den + 1) := Nat.lt_log2_self
    have e : (Nat.log2 a.num.toNat : Int) - (Nat.log2 a.den : Int) - 1
        = (Nat.log2 a.num.toNat : Int) - ((Nat.log2 a.den + 1 : Nat) : Int) := by push_cast; ring
    rw [pow2_eq, e, zpow_sub₀ (by norm_num), zpow_natCast, zpow_natCast, div_le_iff₀ (by positivity)]
    have h1' : ((2 ^ (Nat.log2 a.num.toNat) : Nat) : Int) ≤ a.num := by omega
    have h1q : (2 : ℚ) ^ (Nat.log2 a.num.toNat) ≤ (a.num : ℚ) := by exact_mod_cast h1'
    have h2q : (a.den : ℚ) ≤ (2 : ℚ) ^ (Nat.log2 a.den + 1) := by exact_mod_cast h2.le
    have hmul : a * (a.den : ℚ) = (a.num : ℚ) := Rat.mul_den_eq_num a
    calc (2 : ℚ) ^ (Nat.log2 a.num.toNat) ≤ (a.num : ℚ) := h1q
      _ = a * (a.den : ℚ) := hmul.symm
      _ ≤ a * (2 : ℚ) ^ (Nat.log2 a.den + 1) := mul_le_mul_of_nonneg_left h2q ha.le
  · split
    · rename_i h; exact h
    · rename_i h _; exact not_lt.mp h

theorem roundEven_ge (m : ℚ) (z : Int) (h : (z : ℚ) ≤ m) : z ≤ roundEven m := by
  have hf : z ≤ Rat.floor m := Int.le_floor.mpr h
  unfold roundEven
  dsimp only
  split
  · exact hf
  · split
    · omega
    · split <;> omega

theorem roundEven_le (m : ℚ) (z : Int) (h : m ≤ (z : ℚ)) : roundEven m ≤ z := by
  have hfl : ((Rat.floor m : Int) : ℚ) ≤ m := Int.floor_le m
  unfold roundEven
  dsimp only
  split
  · exact_mod_cast le_trans hfl h
  · rename_i hr
    have h1 : ((Rat.floor m : Int) : ℚ) < (z : ℚ) := by linarith [not_lt.mp hr]
    have h2 : Rat.floor m < z := by exact_mod_cast h1
    split
    · omega
    · split <;> omega

theorem ulp_pos (a : ℚ) : 0 < ulp a := by unfold ulp; exact pow2_pos _

theorem rne_pos_eq (q : ℚ) (hq : 0 < q) : rne q = (roundEven (q / ulp q) : ℚ) * ulp q := by
  unfold rne
  rw [if_neg (ne_of_gt hq)]
  simp only [if_neg (not_lt.mpr hq.le)]

theorem rne_zero : rne 0 = 0 := by unfold rne; simp

theorem ulp_eq (q : ℚ) (J : Int) (hq0 : 0 < q) (hq : q < pow2 (J + 53)) (hJ : -1074 ≤ J) :
    ∃ j, j ≤ J ∧ ulp q = pow2 j := by
  have h1 := ilog2_le q hq0
  have h2 : ilog2 q < J + 53 := by
    by_contra hc
    have := pow2_le (not_lt.mp hc)
    linarith
  unfold ulp
  dsimp only
  split
  · exact ⟨-1022 - 52, by omega, rfl⟩
  · exact ⟨ilog2 q - 52, by omega, rfl⟩

/-- rounding never crosses a grid point. -/
theorem rne_sandwich (q : ℚ) (J z : Int) (hq0 : 0 ≤ q) (hq : q < pow2 (J + 53)) (hJ : -1074 ≤ J) :
    ((z : ℚ) * pow2 J ≤ q → (z : ℚ) * pow2 J ≤ rne q) ∧ (q ≤ (z : ℚ) * pow2 J → rne q ≤ (z : ℚ) * pow2 J) := by
  rcases eq_or_lt_of_le hq0 with h0 | hpos
  · subst h0; rw [rne_zero]; exact ⟨id, id⟩
  · obtain ⟨j, hj, hu⟩ := ulp_eq q J hpos hq hJ
    have hup : 0 < pow2 j := pow2_pos j
    have hsplit : pow2 J = (((2 ^ (J - j).toNat : Nat) : Int) : ℚ) * pow2 j := by
      have : J = ((J - j).toNat : Int) + j := by omega
      conv_lhs => rw [this, pow2_add, pow2_natCast]
      push_cast; rfl
    have hg : (z : ℚ) * pow2 J = ((z * ((2 ^ (J - j).toNat : Nat) : Int) : Int) : ℚ) * pow2 j := by
      rw [hsplit]; push_cast; ring
    rw [rne_pos_eq q hpos, hu, hg]
    constructor
    · intro h
      have : ((z * ((2 ^ (J - j).toNat : Nat) : Int) : Int) : ℚ) ≤ q / pow2 j := by
        rw [le_div_iff₀ hup]; exact h
      have := roundEven_ge _ _ this
      exact mul_le_mul_of_nonneg_right (by exact_mod_cast this) hup.le
    · intro h
      have : q / pow2 j ≤ ((z * ((2 ^ (J - j).toNat : Nat) : Int) : Int) : ℚ) := by
        rw [div_le_iff₀ hup]; exact h
      have := roundEven_le _ _ this
      exact mul_le_mul_of_nonneg_right (by exact_mod_cast this) hup.le

theorem pow2_zero : pow2 0 = 1 := by rw [pow2_eq]; norm_num
theorem pow2_53 : pow2 53 = 9007199254740992 := by rw [pow2_eq]; norm_num
theorem pow2_43 : pow2 43 = 8796093022208 := by rw [pow2_eq]; norm_num
theorem pow2_32 : pow2 32 = 4294967296 := by rw [pow2_eq]; norm_num
theorem pow2_22 : pow2 22 = 4194304 := by rw [pow2_eq]; norm_num
theorem pow2_m10 : pow2 (-10) = 1 / 1024 := by rw [pow2_eq]; norm_num
theorem pow2_m21 : pow2 (-21) = 1 / 2097152 := by rw [pow2_eq]; norm_num
theorem pow2_m31 : pow2 (-31) = 1 / 2147483648 := by rw [pow2_eq]; norm_num

/-- integers below 2^53 convert exactly. -/
theorem ofInt_exact (n : Int) (h0 : 0 ≤ n) (h : n < 9007199254740992) : ofInt n = (n : ℚ) := by
  have hq : (n : ℚ) < pow2 (0 + 53) := by rw [show (0 : Int) + 53 = 53 by rfl, pow2_53]; exact_mod_cast h
  have := rne_sandwich (n : ℚ) 0 n (by exact_mod_cast h0) hq (by omega)
  rw [pow2_zero, mul_one] at this
  unfold ofInt
  exact le_antisymm (this.2 le_rfl) (this.1 le_rfl)

end Interceptor.F64

namespace Interceptor.Rfc8888
open Interceptor.F64

/-- the three roundings of `d.Seconds() * 1024` stay between any two integers that bound the
exact value `2d/1953125` (upper bounds up to the saturation value). -/
theorem atoFloat_bounds (d : Int) (hd : 0 ≤ d) (hd2 : d < 9223372036854775808) :
    (∀ M : Int, M * 1953125 ≤ 2 * d → (M : ℚ) ≤ mul (seconds d) 1024) ∧
    (∀ M : Int, 2 * d < M * 1953125 → M ≤ 8190 → mul (seconds d) 1024 < (M : ℚ)) := by
  have hS0 : 0 ≤ d / 1000000000 := by omega
  have hS1 : d / 1000000000 < 9223372037 := by omega
  have hN0 : 0 ≤ d % 1000000000 := by omega
  have hN1 : d % 1000000000 < 1000000000 := by omega
  have hdec : d = (d / 1000000000) * 1000000000 + d % 1000000000 := by omega
  unfold seconds
  rw [Int.tdiv_eq_ediv_of_nonneg hd, Int.tmod_eq_emod_of_nonneg hd,
    ofInt_exact _ hS0 (by omega), ofInt_exact _ hN0 (by omega)]
  generalize d / 1000000000 = S at *
  generalize d % 1000000000 = N at *
  have hdq : (d : ℚ) = (S : ℚ) * 1000000000 + (N : ℚ) := by exact_mod_cast hdec
  have hSq0 : (0 : ℚ) ≤ (S : ℚ) := by exact_mod_cast hS0
  have hSq1 : (S : ℚ) < 9223372037 := by exact_mod_cast hS1
  have hNq0 : (0 : ℚ) ≤ (N : ℚ) := by exact_mod_cast hN0
  have hNq1 : (N : ℚ) < 1000000000 := by exact_mod_cast hN1
  -- first rounding
  have hq1a : (0 : ℚ) ≤ (N : ℚ) / 1000000000 := by positivity
  have hq1b : (N : ℚ) / 1000000000 < 1 := by rw [div_lt_one (by norm_num)]; exact hNq1
  unfold F64.div F64.add F64.mul
  have hx1lo : (0 : ℚ) ≤ rne ((N : ℚ) / 1000000000) := by
    have := (rne_sandwich _ 0 0 hq1a (by rw [show (0 : Int) + 53 = 53 by rfl, pow2_53]; linarith) (by omega)).1
    simpa using this (by simpa using hq1a)
  have hx1hi : rne ((N : ℚ) / 1000000000) ≤ 1 := by
    have := (rne_sandwich _ 0 1 hq1a (by rw [show (0 : Int) + 53 = 53 by rfl, pow2_53]; linarith) (by omega)).2
    simpa [pow2_zero] using this (by simpa [pow2_zero] using hq1b.le)
  generalize hx1 : rne ((N : ℚ) / 1000000000) = x1 at *
  -- second rounding
  have hq2a : (0 : ℚ) ≤ (S : ℚ) + x1 := by linarith
  have hx2hi : rne ((S : ℚ) + x1) ≤ (S : ℚ) + 1 := by
    have := (rne_sandwich _ 0 (S + 1) hq2a (by rw [show (0 : Int) + 53 = 53 by rfl, pow2_53]; linarith) (by omega)).2
    simpa [pow2_zero] using this (by simp [pow2_zero]; linarith)
  have hx2lo : (0 : ℚ) ≤ rne ((S : ℚ) + x1) := by
    have := (rne_sandwich _ 0 0 hq2a (by rw [show (0 : Int) + 53 = 53 by rfl, pow2_53]; linarith) (by omega)).1
    simpa using this (by simpa using hq2a)
  constructor
  · intro M hM
    have hMq : (M : ℚ) * 1953125 ≤ 2 * ((S : ℚ) * 1000000000 + (N : ℚ)) := by
      rw [← hdq]; exact_mod_cast hM
    -- x1 ≥ (M - 1024 S)/1024
    have h1 : ((M - 1024 * S : Int) : ℚ) * pow2 (-10) ≤ x1 := by
      rw [← hx1]
      apply (rne_sandwich _ (-10) (M - 1024 * S) hq1a (by rw [show (-10 : Int) + 53 = 43 by rfl, pow2_43]; linarith) (by omega)).1
      rw [pow2_m10]; push_cast
      rw [le_div_iff₀ (by norm_num)]; linarith
    have h2 : ((M : Int) : ℚ) * pow2 (-10) ≤ rne ((S : ℚ) + x1) := by
      apply (rne_sandwich _ (-10) M hq2a (by rw [show (-10 : Int) + 53 = 43 by rfl, pow2_43]; linarith) (by omega)).1
      rw [pow2_m10] at h1 ⊢; push_cast at h1; linarith
    generalize rne ((S : ℚ) + x1) = x2 at *
    have hq3a : (0 : ℚ) ≤ x2 * 1024 := by linarith
    have := (rne_sandwich (x2 * 1024) 0 M hq3a (by rw [show (0 : Int) + 53 = 53 by rfl, pow2_53]; linarith) (by omega)).1
    rw [pow2_zero, mul_one] at this
    apply this
    rw [pow2_m10] at h2; linarith
  · intro M hM hM2
    have hM' : 2 * d + 1 ≤ M * 1953125 := by omega
    have hMq : 2 * ((S : ℚ) * 1000000000 + (N : ℚ)) + 1 ≤ (M : ℚ) * 1953125 := by
      rw [← hdq]; exact_mod_cast hM'
    have hM2q : (M : ℚ) ≤ 8190 := by exact_mod_cast hM2
    have hS7 : (S : ℚ) ≤ 7 := by
      have : S ≤ 7 := by omega
      exact_mod_cast this
    have h1 : x1 ≤ (((M - 1024 * S) * 2097152 - 1 : Int) : ℚ) * pow2 (-31) := by
      rw [← hx1]
      apply (rne_sandwich _ (-31) _ hq1a (by rw [show (-31 : Int) + 53 = 22 by rfl, pow2_22]; linarith) (by omega)).2
      rw [pow2_m31]; push_cast
      rw [div_le_iff₀ (by norm_num)]; linarith
    have h2 : rne ((S : ℚ) + x1) ≤ ((M * 2097152 - 1 : Int) : ℚ) * pow2 (-31) := by
      apply (rne_sandwich _ (-31) _ hq2a (by rw [show (-31 : Int) + 53 = 22 by rfl, pow2_22]; linarith) (by omega)).2
      rw [pow2_m31] at h1 ⊢; push_cast at h1 ⊢; linarith
    generalize rne ((S : ℚ) + x1) = x2 at *
    have hq3a : (0 : ℚ) ≤ x2 * 1024 := by linarith
    have h3 := (rne_sandwich (x2 * 1024) (-21) (M * 2097152 - 1) hq3a
      (by rw [show (-21 : Int) + 53 = 32 by rfl, pow2_32]; linarith) (by omega)).2
    rw [pow2_m21] at h3
    rw [pow2_m31] at h2
    push_cast at h2 h3
    have := h3 (by linarith)
    linarith

/-- ★ the arrival time offset computed in binary64 equals the exact encoding, for ALL report and
arrival times (ages beyond 2^63 ns make `time.Sub` saturate, which still encodes as 0x1FFE). -/
theorem getATO_eq_spec (ref arr : Int) : getATO ref arr = atoSpec ref arr := by
  unfold getATO atoSpec
  by_cases hlt : ref < arr
  · rw [if_pos hlt, if_pos hlt]
  · rw [if_neg hlt, if_neg hlt]
    have hd0 : 0 ≤ ref - arr := by omega
    have hsub : 0 ≤ subSat ref arr ∧ subSat ref arr < 9223372036854775808 ∧ subSat ref arr ≤ ref - arr ∧
        (subSat ref arr < 9223372036854775807 → subSat ref arr = ref - arr) := by
      unfold subSat; dsimp only
      split
      · omega
      · rw [if_neg (by omega)]; omega
    unfold atoFloat
    generalize subSat ref arr = d at *
    obtain ⟨hd0', hd1, hd2, hd3⟩ := hsub
    obtain ⟨hlo, hhi⟩ := atoFloat_bounds d hd0' hd1
    dsimp only
    by_cases hsat : 8190 * 1953125 ≤ 2 * d
    · have := hlo 8190 (by omega)
      rw [if_pos (by exact_mod_cast this)]
      omega
    · have hdd : d = ref - arr := hd3 (by omega)
      rw [← hdd]
      have hm0 : 0 ≤ 2 * d / 1953125 := by omega
      have h1 := hlo (2 * d / 1953125) (by omega)
      have h2 := hhi (2 * d / 1953125 + 1) (by omega) (by omega)
      have hlt8190 : F64.mul (seconds d) 1024 < 8190 := by
        have : ((2 * d / 1953125 + 1 : Int) : ℚ) ≤ 8190 := by
          have : 2 * d / 1953125 + 1 ≤ 8190 := by omega
          exact_mod_cast this
        linarith
      rw [if_neg (not_le.mpr hlt8190)]
      generalize F64.mul (seconds d) 1024 = x at *
      have hx0 : (0 : ℚ) ≤ x := by
        have : (0 : ℚ) ≤ ((2 * d / 1953125 : Int) : ℚ) := by exact_mod_cast hm0
        linarith
      have hfl' : ⌊x⌋ = 2 * d / 1953125 :=
        Int.floor_eq_iff.mpr ⟨h1, by push_cast at h2 ⊢; exact h2⟩
      have hfl : Rat.floor x = 2 * d / 1953125 := hfl'
      unfold toUint16 toInt64 trunc
      rw [if_neg (not_lt.mpr hx0), hfl]
      dsimp only
      rw [if_neg (by omega)]
      omega

end Interceptor.Rfc8888

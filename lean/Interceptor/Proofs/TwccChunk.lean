/-
C05 helper lemmas: the chunk invariant of `chunk.canAdd/add/encode` and the greedy packer.
-/
import Interceptor.Model.Twcc
namespace Interceptor.Twcc

/-- the statuses a chunk was built from. -/
def Chunk.syms : Chunk → List Sym
  | .run s n => List.replicate n s
  | .vec1 l => l
  | .vec2 l => l

/-- the statuses a chunk stands for on the wire: status vectors always carry 14 / 7 symbols,
missing ones read as "not received" (zero bits). -/
def Chunk.decode : Chunk → List Sym
  | .run s n => List.replicate n s
  | .vec1 l => l ++ List.replicate (14 - l.length) .nr
  | .vec2 l => l ++ List.replicate (7 - l.length) .nr

def decodeChunks (cs : List Chunk) : List Sym := cs.flatMap Chunk.decode

/-- well-formed on the wire: run length fits 13 bits, vectors have at most 14 / 7 symbols, a
one-bit vector holds no large-delta symbol. -/
def Chunk.wf : Chunk → Prop
  | .run _ n => 1 ≤ n ∧ n ≤ 8191
  | .vec1 l => l.length = 14 ∧ ∀ s ∈ l, s ≠ Sym.large
  | .vec2 l => 1 ≤ l.length ∧ l.length ≤ 7

/-- well-formed and completely filled (decodes to exactly its own symbols). -/
def Chunk.full : Chunk → Prop
  | .run _ n => 1 ≤ n ∧ n ≤ 8191
  | .vec1 l => l.length = 14 ∧ ∀ s ∈ l, s ≠ Sym.large
  | .vec2 l => l.length = 7

theorem Chunk.full_wf {c : Chunk} (h : c.full) : c.wf := by
  cases c <;> simp_all [Chunk.full, Chunk.wf]

theorem Chunk.decode_eq (c : Chunk) : ∃ k, c.decode = c.syms ++ List.replicate k .nr := by
  cases c with
  | run s n => exact ⟨0, by simp [Chunk.decode, Chunk.syms]⟩
  | vec1 l => exact ⟨14 - l.length, rfl⟩
  | vec2 l => exact ⟨7 - l.length, rfl⟩

theorem Chunk.decode_of_full {c : Chunk} (h : c.full) : c.decode = c.syms := by
  cases c <;> simp_all [Chunk.full, Chunk.decode, Chunk.syms]

/-- the chunk invariant. -/
structure ChunkSt.Inv (c : ChunkSt) : Prop where
  large : c.hasLarge = c.deltas.toList.any (fun d => decide (d = Sym.large))
  diff : c.hasDiff = c.deltas.toList.any (fun d => decide (d ≠ c.deltas.toList.headD .nr))
  diffLen : c.hasDiff = true → c.deltas.toList.length ≤ 14
  diffLarge : c.hasDiff = true → 7 < c.deltas.toList.length → c.hasLarge = false
  len : c.deltas.toList.length ≤ 8191

theorem ChunkSt.inv_empty : ChunkSt.Inv {} := by
  constructor <;> simp

theorem ChunkSt.first_eq (c : ChunkSt) : c.first = c.deltas.toList.headD .nr := by
  cases c with | mk hl hd ds =>
  cases ds with | mk l =>
  cases l <;> simp [ChunkSt.first]

theorem list_all_eq_head {l : List Sym} (h : l.any (fun d => decide (d ≠ l.headD .nr)) = false) :
    l = List.replicate l.length (l.headD .nr) := by
  apply List.ext_getElem
  · simp
  · intro i h1 h2
    simp only [List.getElem_replicate]
    have := List.any_eq_false.mp h l[i] (List.getElem_mem h1)
    simpa using this


theorem ChunkSt.add_deltas (c : ChunkSt) (d : Sym) :
    (c.add d).deltas.toList = c.deltas.toList ++ [d] := by
  simp [ChunkSt.add]

theorem ChunkSt.add_hasLarge (c : ChunkSt) (d : Sym) :
    (c.add d).hasLarge = (c.hasLarge || decide (d = Sym.large)) := rfl

theorem ChunkSt.add_hasDiff (c : ChunkSt) (d : Sym) :
    (c.add d).hasDiff = (c.hasDiff || decide (d ≠ (c.deltas.toList ++ [d]).headD .nr)) := by
  cases c with | mk hl hd ds =>
  cases ds with | mk l =>
  cases l <;> simp [ChunkSt.add]

theorem ChunkSt.canAdd_iff (c : ChunkSt) (d : Sym) :
    c.canAdd d = true ↔
      (c.deltas.toList.length < 7 ∨
       (c.deltas.toList.length < 14 ∧ c.hasLarge = false ∧ d ≠ Sym.large) ∨
       (c.deltas.toList.length < 8191 ∧ c.hasDiff = false ∧ d = c.deltas.toList.headD .nr)) := by
  rw [← ChunkSt.first_eq]
  unfold ChunkSt.canAdd maxTwoBitCap maxOneBitCap maxRunLengthCap
  simp only [Array.length_toList]
  by_cases h1 : c.deltas.size < 7
  · simp [h1]
  · by_cases h2 : c.deltas.size < 14 ∧ c.hasLarge = false ∧ d ≠ Sym.large
    · simp [h1, h2]
    · by_cases h3 : c.deltas.size < 8191 ∧ c.hasDiff = false ∧ d = c.first
      · simp [h1, h2, h3]
      · simp only [h1, h2, h3, if_false, or_false, Bool.false_eq_true]

/-- adding a symbol that `canAdd` accepts, or any symbol to a chunk of fewer than 7, keeps the invariant. -/
theorem ChunkSt.inv_add {c : ChunkSt} (h : c.Inv) (d : Sym)
    (hc : c.canAdd d = true ∨ c.deltas.toList.length < 7) : (c.add d).Inv := by
  have hc' : c.deltas.toList.length < 7 ∨
       (c.deltas.toList.length < 14 ∧ c.hasLarge = false ∧ d ≠ Sym.large) ∨
       (c.deltas.toList.length < 8191 ∧ c.hasDiff = false ∧ d = c.deltas.toList.headD .nr) := by
    rcases hc with hc | hc
    · exact (ChunkSt.canAdd_iff c d).mp hc
    · exact Or.inl hc
  obtain ⟨hL, hD, hDL, hDLg, hLen⟩ := h
  have hhead : (c.deltas.toList ++ [d]).headD .nr =
      if c.deltas.toList = [] then d else c.deltas.toList.headD .nr := by
    cases c.deltas.toList <;> simp
  constructor
  · rw [ChunkSt.add_hasLarge, ChunkSt.add_deltas, hL]; simp
  · rw [ChunkSt.add_hasDiff, ChunkSt.add_deltas, hD, hhead]
    by_cases he : c.deltas.toList = []
    · simp [he]
    · simp [he]
  · rw [ChunkSt.add_hasDiff, ChunkSt.add_deltas]
    intro hd
    simp only [List.length_append, List.length_cons, List.length_nil]
    rcases hc' with h1 | ⟨h1, _, _⟩ | ⟨h1, h2, h3⟩
    · omega
    · omega
    · exfalso
      rw [h2, hhead] at hd
      by_cases he : c.deltas.toList = []
      · simp [he] at hd
      · simp [he, h3] at hd
  · rw [ChunkSt.add_hasDiff, ChunkSt.add_deltas, ChunkSt.add_hasLarge]
    intro hd hl
    simp only [List.length_append, List.length_cons, List.length_nil] at hl
    rcases hc' with h1 | ⟨h1, h2, h3⟩ | ⟨h1, h2, h3⟩
    · omega
    · simp [h2, h3]
    · exfalso
      rw [h2, hhead] at hd
      by_cases he : c.deltas.toList = []
      · simp [he] at hd
      · simp [he, h3] at hd
  · rw [ChunkSt.add_deltas]
    simp only [List.length_append, List.length_cons, List.length_nil]
    rcases hc' with h1 | ⟨h1, _, _⟩ | ⟨h1, _, _⟩ <;> omega


/-- everything `encode` guarantees on a non-empty chunk that satisfies the invariant. -/
theorem ChunkSt.encode_spec {c : ChunkSt} (h : c.Inv) (hne : c.deltas.toList ≠ []) :
    (c.encode).2.Inv ∧ (c.encode).1.wf ∧
    (c.encode).1.syms ++ (c.encode).2.deltas.toList = c.deltas.toList ∧
    (7 ≤ c.deltas.toList.length → (c.encode).1.full ∧ (c.encode).2.deltas.toList.length < 7) ∧
    ((c.encode).2.deltas.toList ≠ [] → (c.encode).1.full) ∧
    (c.encode).2.deltas.toList.length < c.deltas.toList.length := by
  obtain ⟨hL, hD, hDL, hDLg, hLen⟩ := h
  have hfirst := ChunkSt.first_eq c
  cases c with | mk hl hd ds =>
  cases ds with | mk l =>
  simp only [] at hL hD hDL hDLg hLen hne hfirst
  have hpos : 0 < l.length := List.length_pos_iff.mpr hne
  unfold ChunkSt.encode
  by_cases h1 : hd = false
  · -- run length
    subst h1
    have hrep := list_all_eq_head hD.symm
    simp only [if_true, hfirst, List.size_toArray]
    have hmod : l.length % 65536 = l.length := by omega
    refine ⟨ChunkSt.inv_empty, ?_, ?_, ?_, ?_, ?_⟩
    · simp only [Chunk.wf]; omega
    · simp only [Chunk.syms, hmod, List.append_nil]; exact hrep.symm
    · intro _; exact ⟨by simp only [Chunk.full]; omega, by simp⟩
    · simp
    · simpa using hpos
  · have hdt : hd = true := by cases hd <;> simp_all
    subst hdt
    have h14 := hDL rfl
    by_cases h2 : l.length = 14
    · have hnl : hl = false := hDLg rfl (by omega)
      subst hnl
      have hnol : ∀ s ∈ l, s ≠ Sym.large := by
        intro s hs
        have := List.any_eq_false.mp hL.symm s hs
        simpa using this
      simp only [Bool.true_eq_false, if_false, List.size_toArray, h2, maxOneBitCap, if_true]
      refine ⟨ChunkSt.inv_empty, ⟨h2, hnol⟩, by simp [Chunk.syms], fun _ => ⟨⟨h2, hnol⟩, by simp⟩,
        by simp, by simpa using hpos⟩
    · simp only [Bool.true_eq_false, if_false, List.size_toArray, h2, maxOneBitCap, maxTwoBitCap]
      simp only [List.extract_toArray, List.extract_eq_drop_take, List.drop_zero, Nat.sub_zero,
        List.take_length, List.length_drop, Nat.sub_self, List.size_toArray,
        List.any_toArray, Chunk.syms, Chunk.wf, Chunk.full]
      have htk : (List.drop (min 7 l.length) l).take (l.length - min 7 l.length) = List.drop (min 7 l.length) l := by
        apply List.take_of_length_le; simp
      rw [htk]
      refine ⟨?_, ?_, ?_, ?_, ?_, ?_⟩
      · constructor
        · simp
        · simp only [Array.getD_eq_getD_getElem?, List.getElem?_toArray]
          generalize List.drop (min 7 l.length) l = r
          cases r with
          | nil => simp
          | cons a r =>
            simp only [List.getElem?_cons_zero, Option.getD_some, List.headD_cons]
            simp [eq_comm]
        · intro _; simp only [List.length_drop]; omega
        · intro _ hh; simp only [List.length_drop] at hh; omega
        · simp only [List.length_drop]; omega
      · simp only [List.length_take]; omega
      · exact List.take_append_drop _ _
      · intro h7
        simp only [List.length_take, List.length_drop]
        omega
      · intro hne'
        have : (List.drop (min 7 l.length) l).length ≠ 0 := by
          intro h0; exact hne' (List.length_eq_zero_iff.mp h0)
        simp only [List.length_drop] at this
        simp only [List.length_take]; omega
      · simp only [List.length_drop]; omega


/-! ### the greedy packer -/

/-- the chunk part of `Feedback.pushSym`: `if !canAdd(s) { chunks = append(chunks, encode()) }; add(s)`. -/
def packStep (st : ChunkSt × Array Chunk) (s : Sym) : ChunkSt × Array Chunk :=
  if st.1.canAdd s then (st.1.add s, st.2)
  else ((st.1.encode).2.add s, st.2.push (st.1.encode).1)

theorem pushSym_last_chunks (f : Feedback) (s : Sym) :
    ((f.pushSym s).last, (f.pushSym s).chunks) = packStep (f.last, f.chunks) s := by
  unfold Feedback.pushSym packStep
  by_cases h : f.last.canAdd s <;> simp [h]

/-- the packer as a function of the whole symbol list: feed every symbol, then flush as `getRTCP` does. -/
def packAll (syms : List Sym) : List Chunk :=
  let st := syms.foldl packStep ({}, #[])
  (flushChunks (st.1.deltas.size + 1) st.1 st.2).toList

/-- invariant of the packer after consuming `done`. -/
structure PackInv (st : ChunkSt × Array Chunk) (done : List Sym) : Prop where
  inv : st.1.Inv
  full : ∀ ch ∈ st.2.toList, ch.full
  content : st.2.toList.flatMap Chunk.syms ++ st.1.deltas.toList = done

theorem packInv_init : PackInv ({}, #[]) [] := ⟨ChunkSt.inv_empty, by simp, by simp⟩

theorem packInv_step {st : ChunkSt × Array Chunk} {done : List Sym} (h : PackInv st done) (s : Sym) :
    PackInv (packStep st s) (done ++ [s]) := by
  obtain ⟨hi, hf, hc⟩ := h
  unfold packStep
  by_cases hcan : st.1.canAdd s = true
  · simp only [hcan, if_true]
    refine ⟨ChunkSt.inv_add hi s (Or.inl hcan), hf, ?_⟩
    simp only [ChunkSt.add_deltas, ← List.append_assoc, hc]
  · have hcf : st.1.canAdd s = false := by simpa using hcan
    simp only [hcf, Bool.false_eq_true, if_false]
    have hlen : 7 ≤ st.1.deltas.toList.length :=
      Nat.le_of_not_lt fun hlt => hcan ((ChunkSt.canAdd_iff _ _).mpr (Or.inl hlt))
    have hne : st.1.deltas.toList ≠ [] := by
      intro he; rw [he] at hlen; simp at hlen
    obtain ⟨e1, _, e3, e4, _, _⟩ := ChunkSt.encode_spec hi hne
    obtain ⟨e4a, e4b⟩ := e4 hlen
    refine ⟨ChunkSt.inv_add e1 s (Or.inr e4b), ?_, ?_⟩
    · intro ch hch
      simp only [Array.toList_push, List.mem_append, List.mem_singleton] at hch
      rcases hch with hch | hch
      · exact hf ch hch
      · rw [hch]; exact e4a
    · simp only [Array.toList_push, List.flatMap_append, List.flatMap_cons, List.flatMap_nil,
        List.append_nil, ChunkSt.add_deltas]
      rw [← hc, ← e3]
      simp only [List.append_assoc]

theorem packInv_foldl (syms : List Sym) {st : ChunkSt × Array Chunk} {done : List Sym}
    (h : PackInv st done) : PackInv (syms.foldl packStep st) (done ++ syms) := by
  induction syms generalizing st done with
  | nil => simpa using h
  | cons s rest ih =>
    simp only [List.foldl_cons]
    have := ih (packInv_step h s)
    simpa [List.append_assoc] using this

/-- the flush loop: emits well-formed chunks that decode to the pending symbols followed by
not-received padding; all but the last are full. -/
theorem flush_spec (fuel : Nat) (c : ChunkSt) (cs : Array Chunk) (h : c.Inv)
    (hf : c.deltas.toList.length < fuel) :
    ∃ extra : List Chunk, ∃ pad : Nat,
      (flushChunks fuel c cs).toList = cs.toList ++ extra ∧
      (∀ ch ∈ extra, ch.wf) ∧
      extra.flatMap Chunk.decode = c.deltas.toList ++ List.replicate pad .nr := by
  induction fuel generalizing c cs with
  | zero => omega
  | succ fuel ih =>
    unfold flushChunks
    by_cases hz : c.deltas.size > 0
    · simp only [hz, if_true]
      have hne : c.deltas.toList ≠ [] := by
        intro he
        have : c.deltas.size = 0 := by rw [← Array.length_toList, he]; rfl
        omega
      obtain ⟨e1, e2, e3, _, e5, e6⟩ := ChunkSt.encode_spec h hne
      obtain ⟨extra, pad, r1, r2, r3⟩ := ih (c.encode).2 (cs.push (c.encode).1) e1 (by omega)
      have hcons : (cs.push (c.encode).1).toList ++ extra = cs.toList ++ (c.encode).1 :: extra := by
        simp
      by_cases hrest : (c.encode).2.deltas.toList = []
      · -- last chunk: its padding is absorbed
        obtain ⟨k, hk⟩ := Chunk.decode_eq (c.encode).1
        refine ⟨(c.encode).1 :: extra, k + pad, by rw [r1, hcons], ?_, ?_⟩
        · intro ch hch
          rcases List.mem_cons.mp hch with hch | hch
          · rw [hch]; exact e2
          · exact r2 ch hch
        · rw [hrest, List.append_nil] at e3
          rw [hrest] at r3
          simp only [List.flatMap_cons, r3, hk, e3, List.nil_append, List.append_assoc,
            List.replicate_append_replicate]
      · have hfull := e5 hrest
        refine ⟨(c.encode).1 :: extra, pad, by rw [r1, hcons], ?_, ?_⟩
        · intro ch hch
          rcases List.mem_cons.mp hch with hch | hch
          · rw [hch]; exact e2
          · exact r2 ch hch
        · simp only [List.flatMap_cons, r3, Chunk.decode_of_full hfull, ← List.append_assoc, e3]
    · simp only [hz, if_false]
      have : c.deltas.toList = [] := by
        have : c.deltas.size = 0 := by omega
        exact List.length_eq_zero_iff.mp (by simpa using this)
      exact ⟨[], 0, by simp, by simp, by simp [this]⟩


theorem flatMap_decode_full (cs : List Chunk) (h : ∀ ch ∈ cs, ch.full) :
    cs.flatMap Chunk.decode = cs.flatMap Chunk.syms := by
  induction cs with
  | nil => rfl
  | cons c cs ih =>
    simp only [List.flatMap_cons]
    rw [Chunk.decode_of_full (h c (by simp)), ih (fun ch hch => h ch (by simp [hch]))]

/-- T1 (both halves): the packed chunks are all well formed and decode back to the input
followed by not-received padding only. -/
theorem packAll_spec (syms : List Sym) :
    (∀ ch ∈ packAll syms, ch.wf) ∧
    ∃ pad, decodeChunks (packAll syms) = syms ++ List.replicate pad .nr := by
  have hinv := packInv_foldl syms packInv_init
  simp only [List.nil_append] at hinv
  unfold packAll decodeChunks
  simp only []
  generalize syms.foldl packStep ({}, #[]) = st at *
  obtain ⟨hi, hf, hc⟩ := hinv
  obtain ⟨extra, pad, r1, r2, r3⟩ := flush_spec (st.1.deltas.size + 1) st.1 st.2 hi (by simp)
  simp only [r1]
  constructor
  · intro ch hch
    rcases List.mem_append.mp hch with hch | hch
    · exact Chunk.full_wf (hf ch hch)
    · exact r2 ch hch
  · refine ⟨pad, ?_⟩
    rw [List.flatMap_append, r3, ← List.append_assoc, ← hc, flatMap_decode_full _ hf]

end Interceptor.Twcc

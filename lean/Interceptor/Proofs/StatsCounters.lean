/-
C19 helper lemmas, part 2: every additive counter of the recorder's fold equals the recount.
-/
import Interceptor.Proofs.StatsFanout
namespace Interceptor.Stats
open Interceptor.Stats.Spec

instance : Add Counters where
  add a b :=
    { inPR := a.inPR + b.inPR, inHB := a.inHB + b.inHB, inB := a.inB + b.inB, inFIR := a.inFIR + b.inFIR,
      inPLI := a.inPLI + b.inPLI, inNACK := a.inNACK + b.inNACK, outPS := a.outPS + b.outPS,
      outBS := a.outBS + b.outBS, outHB := a.outHB + b.outHB, outNACK := a.outNACK + b.outNACK,
      outFIR := a.outFIR + b.outFIR, outPLI := a.outPLI + b.outPLI, roReports := a.roReports + b.roReports }

theorem Counters.add_def (a b : Counters) : a + b =
    { inPR := a.inPR + b.inPR, inHB := a.inHB + b.inHB, inB := a.inB + b.inB, inFIR := a.inFIR + b.inFIR,
      inPLI := a.inPLI + b.inPLI, inNACK := a.inNACK + b.inNACK, outPS := a.outPS + b.outPS,
      outBS := a.outBS + b.outBS, outHB := a.outHB + b.outHB, outNACK := a.outNACK + b.outNACK,
      outFIR := a.outFIR + b.outFIR, outPLI := a.outPLI + b.outPLI, roReports := a.roReports + b.roReports } := rfl

theorem Counters.add_assoc (a b c : Counters) : a + b + c = a + (b + c) := by
  simp only [Counters.add_def, Nat.add_assoc]

/-- the recount is additive over concatenation of histories. -/
theorem recountW_append (s : Nat) (a b : List Event) :
    recountW s (a ++ b) = recountW s a + recountW s b := by
  simp only [recountW, received, sent, rtcpInPkts, rtcpOutPkts, Counters.add_def, List.filterMap_append,
    List.flatMap_append, List.countP_append, List.length_append, List.map_append, List.sum_append]

theorem recountW_cons (s : Nat) (e : Event) (w : List Event) :
    recountW s (e :: w) = recountW s [e] + recountW s w := recountW_append s [e] w

/-! ### frame lemmas: what does not touch the counters -/

theorem rrStep_counters (s : Nat) (rate : Rat) (now : Int) (st : IStats) (r : Report) :
    countersOf (rrStep s rate now st r) = countersOf st := by
  unfold rrStep countersOf
  simp only []
  repeat' split
  all_goals rfl

theorem recordIncomingRR_counters (s : Nat) (rate : Rat) (now : Int) (rs : List Report) (st : IStats) :
    countersOf (recordIncomingRR s rate st rs now) = countersOf st := by
  unfold recordIncomingRR
  induction rs generalizing st with
  | nil => rfl
  | cons r rs ih => rw [List.foldl_cons, ih, rrStep_counters]

theorem dlrrHit_counters (now : Int) (d l : Nat) (st : IStats) (v : Nat) :
    countersOf (dlrrHit now d l st v) = countersOf st := by
  unfold dlrrHit countersOf
  split <;> rfl

theorem foldl_frame {α β γ : Type} (f : α → β → α) (g : α → γ) (h : ∀ a b, g (f a b) = g a)
    (l : List β) (a : α) : g (l.foldl f a) = g a := by
  induction l generalizing a with
  | nil => rfl
  | cons b l ih => rw [List.foldl_cons, ih, h]

theorem dlrrSubStep_counters (s : Nat) (now : Int) (st : IStats) (x : DlrrSub) :
    countersOf (dlrrSubStep s now st x) = countersOf st := by
  unfold dlrrSubStep
  split
  · exact foldl_frame _ countersOf (fun a b => dlrrHit_counters now _ _ a b) _ st
  · rfl

theorem xrInBlock_counters (s : Nat) (now : Int) (st : IStats) (b : XrBlock) :
    countersOf (xrInBlock s now st b) = countersOf st := by
  cases b with
  | rrtr _ => rfl
  | dlrr subs => exact foldl_frame _ countersOf (dlrrSubStep_counters s now) subs st

theorem recordIncomingXR_counters (s : Nat) (now : Int) (bs : List XrBlock) (st : IStats) :
    countersOf (recordIncomingXR s st bs now) = countersOf st :=
  foldl_frame _ countersOf (xrInBlock_counters s now) bs st

theorem xrOutBlock_counters (st : IStats) (b : XrBlock) : countersOf (xrOutBlock st b) = countersOf st := by
  cases b <;> rfl

/-! ### one packet, one event -/

/-- the contribution of one incoming RTCP packet. -/
def inDelta (s : Nat) (p : Rtcp) : Counters :=
  { inPR := 0, inHB := 0, inB := 0, inFIR := 0, inPLI := 0, inNACK := 0, outPS := 0, outBS := 0, outHB := 0,
    outNACK := if isNackFor s p then 1 else 0
    outFIR := if isFirInFor s p then 1 else 0
    outPLI := if isPliFor s p then 1 else 0
    roReports := if isSrFor s p then 1 else 0 }

theorem contains_single (a s : Nat) : [a].contains s = (a == s) := by
  rw [List.contains_cons, List.contains_nil, Bool.or_false, BEq.comm]

theorem sr_dest_contains (ssrc s : Nat) (rs : List Report) :
    (rs.map (·.ssrc) ++ [ssrc]).contains s = (ssrc == s || rs.any (·.ssrc == s)) := by
  induction rs with
  | nil =>
    simp only [List.map_nil, List.nil_append, List.any_nil, Bool.or_false]
    exact contains_single ssrc s
  | cons r rs ih =>
    simp only [List.map_cons, List.cons_append, List.contains_cons, ih, List.any_cons]
    rw [BEq.comm (a := s)]
    cases r.ssrc == s <;> cases ssrc == s <;> rfl

theorem inStep_skip (s : Nat) (rate : Rat) (now : Int) (st : IStats) (p : Rtcp)
    (h : p.dest.contains s = false) : inStep s rate now st p = st := by
  unfold inStep; rw [h]; rfl

theorem inStep_hit (s : Nat) (rate : Rat) (now : Int) (st : IStats) (p : Rtcp)
    (h : p.dest.contains s = true) : inStep s rate now st p = inSwitch s rate now st p := by
  unfold inStep; rw [h]; rfl

theorem inStep_counters (s : Nat) (rate : Rat) (now : Int) (st : IStats) (p : Rtcp) :
    countersOf (inStep s rate now st p) = countersOf st + inDelta s p := by
  cases p with
  | nack sender media =>
    by_cases h : media = s
    · simp [inStep, Rtcp.dest, inSwitch, inDelta, isNackFor, isFirInFor, isPliFor, isSrFor,
        Counters.add_def, countersOf, h]
    · simp [inStep, Rtcp.dest, inSwitch, inDelta, isNackFor, isFirInFor, isPliFor, isSrFor,
        Counters.add_def, countersOf, h]
  | pli sender media =>
    by_cases h : media = s
    · simp [inStep, Rtcp.dest, inSwitch, inDelta, isNackFor, isFirInFor, isPliFor, isSrFor,
        Counters.add_def, countersOf, h]
    · simp [inStep, Rtcp.dest, inSwitch, inDelta, isNackFor, isFirInFor, isPliFor, isSrFor,
        Counters.add_def, countersOf, h]
  | fir sender media es =>
    by_cases hc : s ∈ es <;>
      simp [inStep, Rtcp.dest, inSwitch, inDelta, isNackFor, isFirInFor, isPliFor, isSrFor,
        Counters.add_def, countersOf, hc]
  | rr ssrc rs =>
    cases hc : (Rtcp.rr ssrc rs).dest.contains s
    · rw [inStep_skip _ _ _ _ _ hc]
      simp [inDelta, isNackFor, isFirInFor, isPliFor, isSrFor, Counters.add_def, countersOf]
    · rw [inStep_hit _ _ _ _ _ hc]
      simp only [inSwitch]
      rw [recordIncomingRR_counters]
      simp [inDelta, isNackFor, isFirInFor, isPliFor, isSrFor, Counters.add_def, countersOf]
  | sr ssrc ntp pc oc rs =>
    have hd : (Rtcp.sr ssrc ntp pc oc rs).dest.contains s = (ssrc == s || rs.any (·.ssrc == s)) :=
      sr_dest_contains ssrc s rs
    cases hc : (ssrc == s || rs.any (·.ssrc == s))
    · rw [hc] at hd
      rw [inStep_skip _ _ _ _ _ hd]
      simp [inDelta, isNackFor, isFirInFor, isPliFor, isSrFor, Counters.add_def, countersOf, hc]
    · rw [hc] at hd
      rw [inStep_hit _ _ _ _ _ hd]
      simp only [inSwitch]
      rw [recordIncomingRR_counters]
      simp [inDelta, isNackFor, isFirInFor, isPliFor, isSrFor, Counters.add_def, countersOf, hc]
  | xr ssrc bs =>
    cases hc : (Rtcp.xr ssrc bs).dest.contains s
    · rw [inStep_skip _ _ _ _ _ hc]
      simp [inDelta, isNackFor, isFirInFor, isPliFor, isSrFor, Counters.add_def, countersOf]
    · rw [inStep_hit _ _ _ _ _ hc]
      simp only [inSwitch]
      rw [recordIncomingXR_counters]
      simp [inDelta, isNackFor, isFirInFor, isPliFor, isSrFor, Counters.add_def, countersOf]
  | other d =>
    cases hc : (Rtcp.other d).dest.contains s
    · rw [inStep_skip _ _ _ _ _ hc]
      simp [inDelta, isNackFor, isFirInFor, isPliFor, isSrFor, Counters.add_def, countersOf]
    · rw [inStep_hit _ _ _ _ _ hc]
      simp [inSwitch, inDelta, isNackFor, isFirInFor, isPliFor, isSrFor, Counters.add_def, countersOf]

/-- the contribution of one outgoing RTCP packet. -/
def outDelta (s : Nat) (p : Rtcp) : Counters :=
  { inPR := 0, inHB := 0, inB := 0
    inFIR := if isFirOutFor s p then 1 else 0
    inPLI := if isPliFor s p then 1 else 0
    inNACK := if isNackFor s p then 1 else 0
    outPS := 0, outBS := 0, outHB := 0, outNACK := 0, outFIR := 0, outPLI := 0, roReports := 0 }

theorem outStep_counters (s : Nat) (st : IStats) (p : Rtcp) :
    countersOf (outStep s st p) = countersOf st + outDelta s p := by
  cases p with
  | nack sender media =>
    by_cases h : media = s
    · simp [outStep, Rtcp.dest, outDelta, isNackFor, isFirOutFor, isPliFor, Counters.add_def, countersOf, h]
    · have h' : ¬ s = media := fun e => h e.symm
      simp [outStep, Rtcp.dest, outDelta, isNackFor, isFirOutFor, isPliFor, Counters.add_def, countersOf, h, h']
  | pli sender media =>
    by_cases h : media = s
    · simp [outStep, Rtcp.dest, outDelta, isNackFor, isFirOutFor, isPliFor, Counters.add_def, countersOf, h]
    · have h' : ¬ s = media := fun e => h e.symm
      simp [outStep, Rtcp.dest, outDelta, isNackFor, isFirOutFor, isPliFor, Counters.add_def, countersOf, h, h']
  | fir sender media es =>
    by_cases hc : s ∈ es <;>
      simp [outStep, Rtcp.dest, outDelta, isNackFor, isFirOutFor, isPliFor, Counters.add_def, countersOf, hc]
  | rr ssrc rs => simp [outStep, outDelta, isNackFor, isFirOutFor, isPliFor, Counters.add_def, countersOf]
  | sr ssrc ntp pc oc rs =>
    by_cases hc : s ∈ (Rtcp.sr ssrc ntp pc oc rs).dest <;>
      simp [outStep, hc, outDelta, isNackFor, isFirOutFor, isPliFor, Counters.add_def, countersOf]
  | xr ssrc bs =>
    simp only [outStep]
    rw [foldl_frame _ countersOf xrOutBlock_counters]
    simp [outDelta, isNackFor, isFirOutFor, isPliFor, Counters.add_def, countersOf]
  | other d => simp [outStep, outDelta, isNackFor, isFirOutFor, isPliFor, Counters.add_def, countersOf]

theorem recordIncomingRTP_counters (s : Nat) (rate : Rat) (now : Int) (st : IStats) (p : Rtp) (h : p.ssrc = s) :
    countersOf (recordIncomingRTP s rate st now p) =
      { countersOf st with inPR := st.inPR + 1, inHB := st.inHB + p.hs, inB := st.inB + p.len } := by
  unfold recordIncomingRTP countersOf
  simp only [h, ne_eq, not_true_eq_false, if_false]
  have : ((p.hs : Int) + ((p.len : Int) - (p.hs : Int))).toNat = p.len := by omega
  simp only [this]
  repeat' split
  all_goals rfl

theorem recordOutgoingRTP_counters (s : Nat) (st : IStats) (p : Rtp) (h : p.ssrc = s) :
    countersOf (recordOutgoingRTP s st p) =
      { countersOf st with outPS := st.outPS + 1, outBS := st.outBS + (p.hs + p.len), outHB := st.outHB + p.hs } := by
  unfold recordOutgoingRTP countersOf
  simp only [h, ne_eq, not_true_eq_false, if_false]
  split <;> rfl

theorem inFold_counters (s : Nat) (rate : Rat) (now : Int) (pkts : List Rtcp) (st : IStats) :
    countersOf (pkts.foldl (inStep s rate now) st) = countersOf st + recountW s [.rtcpIn now pkts] := by
  induction pkts generalizing st with
  | nil => simp [recountW, received, sent, rtcpInPkts, rtcpOutPkts, Counters.add_def, countersOf]
  | cons p pkts ih =>
    rw [List.foldl_cons, ih, inStep_counters, Counters.add_assoc]
    congr 1
    simp only [recountW, received, sent, rtcpInPkts, rtcpOutPkts, Counters.add_def, inDelta,
      List.filterMap_cons, List.filterMap_nil, List.flatMap_cons, List.flatMap_nil, List.append_nil,
      List.countP_cons, List.length_nil, List.map_nil, List.sum_nil, List.countP_nil, Nat.add_zero]
    simp only [Nat.add_comm]

theorem outFold_counters (s : Nat) (pkts : List Rtcp) (st : IStats) :
    countersOf (pkts.foldl (outStep s) st) = countersOf st + recountW s [.rtcpOut pkts] := by
  induction pkts generalizing st with
  | nil => simp [recountW, received, sent, rtcpInPkts, rtcpOutPkts, Counters.add_def, countersOf]
  | cons p pkts ih =>
    rw [List.foldl_cons, ih, outStep_counters, Counters.add_assoc]
    congr 1
    simp only [recountW, received, sent, rtcpInPkts, rtcpOutPkts, Counters.add_def, outDelta,
      List.filterMap_cons, List.filterMap_nil, List.flatMap_cons, List.flatMap_nil, List.append_nil,
      List.countP_cons, List.length_nil, List.map_nil, List.sum_nil, List.countP_nil, Nat.add_zero]
    simp only [Nat.add_comm]

/-- one event adds exactly its own recount. -/
theorem recStep_counters (s : Nat) (rate : Rat) (st : IStats) (e : Event) :
    countersOf (recStep s rate st e) = countersOf st + recountW s [e] := by
  cases e with
  | bind s' r => simp [recStep, recountW, received, sent, rtcpInPkts, rtcpOutPkts, Counters.add_def, countersOf]
  | close => simp [recStep, recountW, received, sent, rtcpInPkts, rtcpOutPkts, Counters.add_def, countersOf]
  | rtcpIn now pkts => exact inFold_counters s rate now pkts st
  | rtcpOut pkts => exact outFold_counters s pkts st
  | rtpIn now via p =>
    simp only [recStep]
    by_cases hv : via = s
    · by_cases hp : p.ssrc = s
      · rw [if_pos hv, recordIncomingRTP_counters _ _ _ _ _ hp]
        simp [recountW, received, sent, rtcpInPkts, rtcpOutPkts, Counters.add_def, countersOf, hv, hp]
      · simp [recordIncomingRTP, recountW, received, sent, rtcpInPkts, rtcpOutPkts, Counters.add_def, countersOf, hv, hp]
    · simp [recountW, received, sent, rtcpInPkts, rtcpOutPkts, Counters.add_def, countersOf, hv]
  | rtpOut via p =>
    simp only [recStep]
    by_cases hv : via = s
    · by_cases hp : p.ssrc = s
      · rw [if_pos hv, recordOutgoingRTP_counters _ _ _ hp]
        simp [recountW, received, sent, rtcpInPkts, rtcpOutPkts, Counters.add_def, countersOf, hv, hp]
      · simp [recordOutgoingRTP, recountW, received, sent, rtcpInPkts, rtcpOutPkts, Counters.add_def, countersOf, hv, hp]
    · simp [recountW, received, sent, rtcpInPkts, rtcpOutPkts, Counters.add_def, countersOf, hv]

/-- fold = recount, from any starting state. -/
theorem fold_counters (s : Nat) (rate : Rat) (w : List Event) (st : IStats) :
    countersOf (w.foldl (recStep s rate) st) = countersOf st + recountW s w := by
  induction w generalizing st with
  | nil => simp [recountW, received, sent, rtcpInPkts, rtcpOutPkts, Counters.add_def, countersOf]
  | cons e w ih => rw [List.foldl_cons, ih, recStep_counters, Counters.add_assoc, ← recountW_cons]

theorem fold_counters_init (s : Nat) (rate : Rat) (w : List Event) :
    countersOf (w.foldl (recStep s rate) {}) = recountW s w := by
  rw [fold_counters]
  simp [Counters.add_def, countersOf, recountW]

end Interceptor.Stats

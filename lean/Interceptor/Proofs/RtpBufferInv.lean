/-
The ring invariant of RTPBuffer against the windowed spec `SBuf`, and its preservation.
-/
import Interceptor.Proofs.RtpBuffer
namespace Interceptor.RtpBuffer
open Interceptor

/-- "slot i holds the newest in-window packet whose number maps to i, or nothing". -/
structure Inv {α : Type} (seqOf : α → Nat) (b : Buf α) (s : SBuf α) : Prop where
  valid : validSize b.size = true
  ssize : b.slots.size = b.size
  size_eq : s.size = b.size
  started_eq : b.started = s.started
  hi_eq : b.highest = s.hi
  hi_lt : s.hi < 65536
  inwin : ∀ q ∈ s.m, seqOf q < 65536 ∧ sub16 s.hi (seqOf q) < s.size
  slots : ∀ i, i < b.size → slot b.slots i = s.m.find? (fun q => ix b.size (seqOf q) = i)
  fresh : s.started = false → s.m = []

variable {α : Type} {seqOf : α → Nat}

theorem inv_new {n : Nat} {b : Buf α} (h : Buf.new n = some b) : Inv seqOf b (SBuf.new n) := by
  unfold Buf.new at h
  split at h
  · rename_i hv
    cases h
    exact { valid := hv, ssize := by simp, size_eq := rfl, started_eq := rfl, hi_eq := rfl,
            hi_lt := by simp [SBuf.new], inwin := by simp [SBuf.new],
            slots := by intro i _; simp [slot_replicate, SBuf.new], fresh := fun _ => rfl }
  · cases h

theorem inv_clear {b : Buf α} {s : SBuf α} (h : Inv seqOf b s) : Inv seqOf (clear b).1 s.clear := by
  exact { valid := h.valid, ssize := by simp [clear, h.ssize], size_eq := h.size_eq, started_eq := rfl,
          hi_eq := h.hi_eq, hi_lt := h.hi_lt, inwin := by simp [SBuf.clear],
          slots := by intro i _; simp [clear, slot_replicate, SBuf.clear], fresh := fun _ => rfl }

/-- inside the window, "same slot" and "same number" coincide. -/
theorem ix_eq_iff {b : Buf α} {s : SBuf α} (h : Inv seqOf b s) {x : Nat} (hx : x < 65536)
    (wx : sub16 s.hi x < b.size) {q : α} (hq : q ∈ s.m) :
    (ix b.size (seqOf q) = ix b.size x) ↔ seqOf q = x := by
  constructor
  · intro e
    have := h.inwin q hq
    exact ix_inj h.valid h.hi_lt this.1 hx (by rw [← h.size_eq]; exact this.2) wx e
  · intro e; rw [e]

/-- ★ core of `get_eq_spec`. -/
theorem get_eq_of_inv {b : Buf α} {s : SBuf α} (h : Inv seqOf b s) (x : Nat) (hx : x < 65536) :
    get seqOf b x = s.get seqOf x := by
  have hv := validSize_pos h.valid
  unfold get SBuf.get inWin
  simp only [h.hi_eq, h.size_eq]
  by_cases h1 : sub16 s.hi x ≥ 32768
  · have : ¬ sub16 s.hi x < b.size := by omega
    simp [h1, this]
  · by_cases h2 : sub16 s.hi x ≥ b.size
    · have : ¬ sub16 s.hi x < b.size := by omega
      simp [h1, h2, this]
    · have hw : sub16 s.hi x < b.size := by omega
      rw [if_neg h1, if_neg h2, h.slots _ (ix_lt h.valid x)]
      have hc : s.m.find? (fun q => decide (ix b.size (seqOf q) = ix b.size x))
              = s.m.find? (fun q => decide (seqOf q = x)) := by
        apply find?_congr'
        intro q hq
        simp only [decide_eq_decide]
        exact ix_eq_iff h hx hw hq
      rw [hc]
      simp only [hw, decide_true, if_true]
      cases hf : s.m.find? (fun q => decide (seqOf q = x)) with
      | none => rfl
      | some p =>
        have := List.find?_some hf
        simp at this
        simp [this]

/-! preservation by `Add` -/

theorem inv_add_first {b : Buf α} {s : SBuf α} (h : Inv seqOf b s) (p : α) (hp : seqOf p < 65536)
    (hst : s.started = false) :
    Inv seqOf { b with slots := b.slots.setIfInBounds (ix b.size (seqOf p)) (some p), highest := seqOf p, started := true }
      { s with started := true, hi := seqOf p, m := [p] } := by
  have hv := validSize_pos h.valid
  have hm := h.fresh hst
  refine { valid := h.valid, ssize := by simp [h.ssize], size_eq := h.size_eq, started_eq := rfl,
           hi_eq := rfl, hi_lt := hp, inwin := ?_, slots := ?_, fresh := by simp }
  · intro q hq
    simp only [List.mem_singleton] at hq
    subst hq
    refine ⟨hp, ?_⟩
    simp only [h.size_eq]; unfold sub16; omega
  · intro i hi
    have hi' : i < b.size := hi
    simp only [slot_set, h.ssize, h.slots i hi', hm]
    have := ix_lt h.valid (seqOf p)
    by_cases e : ix b.size (seqOf p) = i
    · subst e; simp [this, List.find?_cons]
    · simp [e, List.find?_cons]

theorem inv_add_late {b : Buf α} {s : SBuf α} (h : Inv seqOf b s) (p : α) (hp : seqOf p < 65536)
    (hw : sub16 s.hi (seqOf p) < b.size) (hs : s.started = true) :
    Inv seqOf { b with slots := b.slots.setIfInBounds (ix b.size (seqOf p)) (some p) }
      { s with m := p :: s.m } := by
  refine { valid := h.valid, ssize := by simp [h.ssize], size_eq := h.size_eq, started_eq := h.started_eq,
           hi_eq := h.hi_eq, hi_lt := h.hi_lt, inwin := ?_, slots := ?_, fresh := ?_ }
  · intro q hq
    simp only [List.mem_cons] at hq
    rcases hq with rfl | hq
    · exact ⟨hp, by simp only [h.size_eq]; exact hw⟩
    · exact h.inwin q hq
  · intro i hi
    have hi' : i < b.size := hi
    simp only [slot_set, h.ssize, h.slots i hi']
    have := ix_lt h.valid (seqOf p)
    by_cases e : ix b.size (seqOf p) = i
    · subst e; simp [this, List.find?_cons]
    · simp [e, List.find?_cons]
  · intro hst; simp only [hs] at hst; cases hst

theorem inv_add_newer {b : Buf α} {s : SBuf α} (h : Inv seqOf b s) (p : α) (hp : seqOf p < 65536)
    (hs : s.started = true) (hd0 : sub16 (seqOf p) s.hi ≠ 0) (hd : sub16 (seqOf p) s.hi < 32768) :
    Inv seqOf
      { b with slots := (clearSlots b.size b.slots (add16 s.hi 1) (sub16 (seqOf p) s.hi - 1)).setIfInBounds
                          (ix b.size (seqOf p)) (some p),
               highest := seqOf p }
      { s with hi := seqOf p, m := p :: s.m.filter (fun q => inWin b.size (seqOf p) (seqOf q)) } := by
  have hv := validSize_pos h.valid
  have hhi := h.hi_lt
  refine { valid := h.valid, ssize := by simp [clearSlots_size, h.ssize], size_eq := h.size_eq,
           started_eq := h.started_eq, hi_eq := rfl, hi_lt := hp, inwin := ?_, slots := ?_, fresh := ?_ }
  · intro q hq
    simp only [List.mem_cons, List.mem_filter, inWin, decide_eq_true_eq] at hq
    rcases hq with rfl | ⟨hq, hw⟩
    · refine ⟨hp, ?_⟩
      simp only [h.size_eq]; rw [sub16_self' _ hp]; omega
    · exact ⟨(h.inwin q hq).1, by simp only [h.size_eq]; exact hw⟩
  · intro i hi
    have hi' : i < b.size := hi
    have hixp := ix_lt h.valid (seqOf p)
    simp only [slot_set, clearSlots_size, h.ssize]
    by_cases e : ix b.size (seqOf p) = i
    · subst e; simp [hixp, List.find?_cons]
    · have hne : ¬ (ix b.size (seqOf p) = i ∧ ix b.size (seqOf p) < b.size) := fun c => e c.1
      rw [if_neg hne, List.find?_cons_of_neg (by simpa using e), List.find?_filter]
      have hstart : add16 s.hi 1 < 65536 := add16_lt _ _
      cases hq0 : s.m.find? (fun q => decide (ix b.size (seqOf q) = i)) with
      | none =>
        have hnone : slot b.slots i = none := by rw [h.slots i hi', hq0]
        have hall := List.find?_eq_none.1 hq0
        have hr : s.m.find? (fun a => decide (inWin b.size (seqOf p) (seqOf a) = true ∧ decide (ix b.size (seqOf a) = i) = true)) = none := by
          apply List.find?_eq_none.2
          intro x hx
          have := hall x hx
          simp at this
          simp [this]
        rw [hr]
        by_cases hhit : ∃ j, j < sub16 (seqOf p) s.hi - 1 ∧ ix b.size ((add16 s.hi 1 + j) % 65536) = i
        · exact clearSlots_hit _ _ _ _ _ hhit hstart
        · rw [clearSlots_keep _ _ _ _ _ (fun j hj ej => hhit ⟨j, hj, ej⟩) hstart]; exact hnone
      | some q0 =>
        have hq0m : q0 ∈ s.m := List.mem_of_find?_eq_some hq0
        have hq0i : ix b.size (seqOf q0) = i := by simpa using List.find?_some hq0
        have hq0w := h.inwin q0 hq0m
        rw [h.size_eq] at hq0w
        -- every packet of `m` in slot i has the number of q0
        have hsame : ∀ a ∈ s.m, ix b.size (seqOf a) = i → seqOf a = seqOf q0 := by
          intro a ha ea
          have haw := h.inwin a ha
          rw [h.size_eq] at haw
          exact ix_inj h.valid hhi haw.1 hq0w.1 haw.2 hq0w.2 (by rw [ea, hq0i])
        by_cases hw : sub16 (seqOf p) (seqOf q0) < b.size
        · -- q0 stays inside the window: its slot is not touched, the filter keeps it
          have hr : s.m.find? (fun a => decide (inWin b.size (seqOf p) (seqOf a) = true ∧ decide (ix b.size (seqOf a) = i) = true))
                  = s.m.find? (fun q => decide (ix b.size (seqOf q) = i)) := by
            apply find?_congr'
            intro a ha
            by_cases ea : ix b.size (seqOf a) = i
            · simp [ea, inWin, hsame a ha ea, hw]
            · simp [ea]
          rw [hr, hq0, clearSlots_keep _ _ _ _ _ _ hstart, h.slots i hi', hq0]
          intro j hj ej
          have hy : (add16 s.hi 1 + j) % 65536 < 65536 := Nat.mod_lt _ (by omega)
          have hyw : sub16 (seqOf p) ((add16 s.hi 1 + j) % 65536) < b.size := by
            rw [arith_A1 hhi hp hj]
            have := arith_A0 hhi hp hq0w.1 hv.2 hd hq0w.2
            omega
          have := ix_inj h.valid hp hy hq0w.1 hyw hw (by rw [ej, hq0i])
          exact arith_A2 hhi hp hq0w.1 hv.2 hd hj hq0w.2 this
        · -- q0 falls out of the window: the loop clears its slot, the filter drops it
          have hr : s.m.find? (fun a => decide (inWin b.size (seqOf p) (seqOf a) = true ∧ decide (ix b.size (seqOf a) = i) = true)) = none := by
            apply List.find?_eq_none.2
            intro a ha
            by_cases ea : ix b.size (seqOf a) = i
            · simp [ea, inWin, hsame a ha ea, hw]
            · simp [ea]
          rw [hr]
          apply clearSlots_hit _ _ _ _ _ _ hstart
          obtain ⟨y, hy, hyw, hyi⟩ := ix_surj h.valid hp hi'
          have hyp : y ≠ seqOf p := by intro c; rw [c] at hyi; exact e hyi
          have hyd : sub16 (seqOf p) y < sub16 (seqOf p) s.hi := by
            apply Nat.lt_of_not_le
            intro hc
            have hyold : sub16 s.hi y < b.size := arith_B1 hhi hp hy hd hyw hv.2 hc
            have := ix_inj h.valid hhi hy hq0w.1 hyold hq0w.2 (by rw [hyi, hq0i])
            rw [this] at hyw
            exact hw hyw
          refine ⟨sub16 y (add16 s.hi 1), arith_B2 hhi hp hy hd hyp hyd, ?_⟩
          rw [arith_B3 hhi hy]; exact hyi
  · intro hst; simp only [hs] at hst; cases hst

theorem inv_add {b : Buf α} {s : SBuf α} (h : Inv seqOf b s) (p : α) (hp : seqOf p < 65536) :
    Inv seqOf (add seqOf b p).1 (s.send seqOf p) := by
  have hv := validSize_pos h.valid
  unfold add SBuf.send
  simp only [h.started_eq, h.hi_eq, h.size_eq]
  by_cases hst : s.started = false
  · rw [if_pos hst, if_pos hst]
    have t := inv_add_first h p hp hst
    simpa only [h.size_eq, h.started_eq, h.hi_eq] using t
  · have hs : s.started = true := by simpa using hst
    rw [if_neg hst, if_neg hst]
    by_cases hd0 : sub16 (seqOf p) s.hi = 0
    · rw [if_pos hd0, if_pos hd0]; exact h
    · rw [if_neg hd0, if_neg hd0]
      by_cases hd : sub16 (seqOf p) s.hi < 32768
      · rw [if_pos hd, if_pos hd]
        have t := inv_add_newer h p hp hs hd0 hd
        simpa only [h.size_eq, h.started_eq, h.hi_eq] using t
      · rw [if_neg hd, if_neg hd]
        by_cases hw : sub16 s.hi (seqOf p) ≥ b.size
        · have : inWin b.size s.hi (seqOf p) = false := by simp [inWin]; omega
          rw [if_pos hw, this]
          simpa using h
        · have hw' : sub16 s.hi (seqOf p) < b.size := by omega
          have : inWin b.size s.hi (seqOf p) = true := by simp [inWin]; omega
          rw [if_neg hw, this]
          have t := inv_add_late h p hp hw' hs
          simpa [h.size_eq, h.started_eq, h.hi_eq] using t

/-- the buffer after a whole list of `Add`s. -/
def addAll (seqOf : α → Nat) (b : Buf α) (ps : List α) : Buf α := ps.foldl (fun b p => (add seqOf b p).1) b

theorem inv_addAll {b : Buf α} {s : SBuf α} (h : Inv seqOf b s) (ps : List α) (hps : ∀ p ∈ ps, seqOf p < 65536) :
    Inv seqOf (addAll seqOf b ps) (s.sendAll seqOf ps) := by
  induction ps generalizing b s with
  | nil => exact h
  | cons p ps ih =>
    simp only [addAll, SBuf.sendAll, List.foldl_cons]
    exact ih (inv_add h p (hps p (by simp))) (fun q hq => hps q (by simp [hq]))

/-
C05 helper lemmas for `build_complete`: what `FindNextAtOrAfter`, the loop of
`maybeBuildFeedbackPacket` and the loop of `BuildFeedbackPacket` do, in terms of the list of
received numbers of the arrival map.
-/
import Interceptor.Proofs.TwccMap
import Interceptor.Proofs.TwccDecode
namespace Interceptor.Twcc
open ArrivalMap

/-- the received numbers `a, a+1, …, a+n-1` of the map with their arrival times, ascending. -/
def recvN (m : ArrivalMap) : Int → Nat → List (Int × Int)
  | _, 0 => []
  | a, n + 1 => (if m.get a ≥ 0 then [(a, m.get a)] else []) ++ recvN m (a + 1) n

/-- the received numbers in `[a, b)`. -/
def received (m : ArrivalMap) (a b : Int) : List (Int × Int) := recvN m a (b - a).toNat

theorem received_empty (m : ArrivalMap) (a b : Int) (h : b ≤ a) : received m a b = [] := by
  unfold received
  have : (b - a).toNat = 0 := by omega
  rw [this]; rfl

theorem received_step (m : ArrivalMap) (a b : Int) (h : a < b) :
    received m a b = (if m.get a ≥ 0 then [(a, m.get a)] else []) ++ received m (a + 1) b := by
  unfold received
  have : (b - a).toNat = (b - (a + 1)).toNat + 1 := by omega
  rw [this]; rfl

/-- skipping numbers that were not received. -/
theorem received_skip (m : ArrivalMap) (a x b : Int) (hax : a ≤ x) (hxb : x ≤ b)
    (hnone : ∀ y, a ≤ y → y < x → m.get y < 0) : received m a b = received m x b := by
  have key : ∀ (n : Nat) (a : Int), x - a = n → (∀ y, a ≤ y → y < x → m.get y < 0) →
      received m a b = received m x b := by
    intro n
    induction n with
    | zero => intro a h _; have : a = x := by omega
              rw [this]
    | succ n ih =>
      intro a h hn
      rw [received_step m a b (by omega)]
      have : ¬ m.get a ≥ 0 := by have := hn a (Int.le_refl _) (by omega); omega
      simp only [this, if_false, List.nil_append]
      exact ih (a + 1) (by omega) (fun y h1 h2 => hn y (by omega) h2)
  exact key (x - a).toNat a (by omega) hnone

theorem received_mem (m : ArrivalMap) (a b : Int) :
    ∀ p ∈ received m a b, a ≤ p.1 ∧ p.1 < b ∧ p.2 = m.get p.1 ∧ 0 ≤ p.2 := by
  have key : ∀ (n : Nat) (a : Int), ∀ p ∈ recvN m a n, a ≤ p.1 ∧ p.1 < a + n ∧ p.2 = m.get p.1 ∧ 0 ≤ p.2 := by
    intro n
    induction n with
    | zero => intro a p hp; simp [recvN] at hp
    | succ n ih =>
      intro a p hp
      simp only [recvN, List.mem_append] at hp
      rcases hp with hp | hp
      · by_cases hg : m.get a ≥ 0
        · simp only [hg, if_true, List.mem_singleton] at hp
          rw [hp]; exact ⟨Int.le_refl _, by omega, rfl, hg⟩
        · simp [hg] at hp
      · have := ih (a + 1) p hp
        omega
  intro p hp
  have := key (b - a).toNat a p hp
  omega

theorem findLoop_spec (m : ArrivalMap) (fuel : Nat) (seq : Int) (hfuel : m.endSN - seq ≤ fuel) :
    match findLoop m fuel seq with
    | none => ∀ x, seq ≤ x → x < m.endSN → m.get x < 0
    | some (x, t) => seq ≤ x ∧ x < m.endSN ∧ t = m.get x ∧ 0 ≤ t ∧ ∀ y, seq ≤ y → y < x → m.get y < 0 := by
  induction fuel generalizing seq with
  | zero => simp only [findLoop]; intro x h1 h2; omega
  | succ fuel ih =>
    unfold findLoop
    by_cases hlt : seq < m.endSN
    · simp only [hlt, if_true]
      by_cases hg : m.get seq ≥ 0
      · simp only [hg, if_true]
        exact ⟨Int.le_refl _, hlt, trivial, trivial, fun y h1 h2 => by omega⟩
      · simp only [hg, if_false]
        have := ih (seq + 1) (by omega)
        split at this
        · intro x h1 h2
          by_cases hx : x = seq
          · rw [hx]; omega
          · exact this x (by omega) h2
        · obtain ⟨a1, a2, a3, a4, a5⟩ := this
          refine ⟨by omega, a2, a3, a4, ?_⟩
          intro y h1 h2
          by_cases hy : y = seq
          · rw [hy]; omega
          · exact a5 y (by omega) h2
    · simp only [hlt, if_false]
      intro x h1 h2; omega

/-- `FindNextAtOrAfter` from a position inside the window, in terms of `received`. -/
theorem findNext_received (m : ArrivalMap) (seq e : Int) (h1 : m.beginSN ≤ seq) (h2 : seq ≤ m.endSN)
    (he : e ≤ m.endSN) :
    match m.findNext seq with
    | none => received m seq e = []
    | some (x, t) => seq ≤ x ∧ x < m.endSN ∧ t = m.get x ∧ 0 ≤ t ∧
        (if x ≥ e then received m seq e = [] else received m seq e = (x, t) :: received m (x + 1) e) := by
  unfold findNext
  have hcl : m.clamp seq = seq := by
    unfold clamp
    simp [show ¬ seq < m.beginSN by omega, show ¬ m.endSN < seq by omega]
  rw [hcl]
  have := findLoop_spec m (m.endSN - seq).toNat seq (by omega)
  split at this
  · rename_i heq
    simp only [heq]
    by_cases hse : e ≤ seq
    · exact received_empty m seq e hse
    · rw [received_skip m seq e e (by omega) (Int.le_refl _) (fun y a b => this y a (by omega))]
      exact received_empty m e e (Int.le_refl _)
  · rename_i x t heq
    simp only [heq]
    obtain ⟨a1, a2, a3, a4, a5⟩ := this
    refine ⟨a1, a2, a3, a4, ?_⟩
    by_cases hxe : x ≥ e
    · simp only [hxe, if_true]
      by_cases hse : e ≤ seq
      · exact received_empty m seq e hse
      · rw [received_skip m seq e e (by omega) (Int.le_refl _) (fun y a b => a5 y a (by omega))]
        exact received_empty m e e (Int.le_refl _)
    · simp only [hxe, if_false]
      rw [received_skip m seq x e a1 (by omega) a5, received_step m x e (by omega)]
      simp [a3 ▸ a4, a3]


/-! ### the loop of `maybeBuildFeedbackPacket` over the list of received numbers -/

/-- add the listed arrivals to a feedback until one does not fit: (feedback, consumed, rest). -/
def consume (f : Feedback) : List (Int × Int) → Feedback × List (Int × Int) × List (Int × Int)
  | [] => (f, [], [])
  | (x, t) :: rest =>
    match f.addReceived (x % 65536).toNat t with
    | none => (f, [], (x, t) :: rest)
    | some f' => ((consume f' rest).1, (x, t) :: (consume f' rest).2.1, (consume f' rest).2.2)

/-- the number after the last consumed one (`nextSequenceNumber`). -/
def lastNext (next : Int) (c : List (Int × Int)) : Int :=
  match c.getLast? with
  | none => next
  | some p => p.1 + 1

theorem lastNext_cons (next : Int) (x t : Int) (c : List (Int × Int)) :
    lastNext next ((x, t) :: c) = lastNext (x + 1) c := by
  unfold lastNext
  cases c with
  | nil => simp
  | cons p c =>
    rw [List.getLast?_cons_cons]
    cases h : (p :: c).getLast? with
    | none => simp at h
    | some q => rfl

theorem consume_append (f : Feedback) (l : List (Int × Int)) :
    (consume f l).2.1 ++ (consume f l).2.2 = l := by
  induction l generalizing f with
  | nil => simp [consume]
  | cons p l ih =>
    obtain ⟨x, t⟩ := p
    simp only [consume]
    cases h : f.addReceived (x % 65536).toNat t with
    | none => simp
    | some f' => simp [ih f']

theorem mbLoop_some (r : Recorder) (b e : Int) (he : e ≤ r.map.endSN) (fuel : Nat) (seq : Int)
    (f : Feedback) (next : Int) (cnt : Nat) (h1 : r.map.beginSN ≤ seq) (h2 : seq ≤ r.map.endSN)
    (hfuel : e - seq ≤ fuel) :
    mbLoop r b e fuel seq (some f) next cnt =
      .done (some (consume f (received r.map seq e)).1)
        (lastNext next (consume f (received r.map seq e)).2.1) cnt := by
  induction fuel generalizing seq f next with
  | zero =>
    rw [received_empty r.map seq e (by omega)]
    simp [mbLoop, consume, lastNext]
  | succ fuel ih =>
    unfold mbLoop
    by_cases hlt : seq < e
    · simp only [hlt, if_true]
      have hfr := findNext_received r.map seq e h1 h2 he
      cases hfn : r.map.findNext seq with
      | none =>
        rw [hfn] at hfr
        simp only [] at hfr
        simp [hfr, consume, lastNext]
      | some p =>
        obtain ⟨x, t⟩ := p
        rw [hfn] at hfr
        simp only [] at hfr
        obtain ⟨a1, a2, a3, a4, a5⟩ := hfr
        by_cases hxe : x ≥ e
        · simp only [hxe, if_true] at a5 ⊢
          simp [a5, consume, lastNext]
        · simp only [hxe, if_false] at a5 ⊢
          rw [a5]
          simp only [consume]
          cases hadd : f.addReceived (x % 65536).toNat t with
          | none => simp [lastNext]
          | some f2 =>
            simp only []
            rw [ih (x + 1) f2 (x + 1) (by omega) (by omega) (by omega), lastNext_cons]
    · simp only [hlt, if_false]
      rw [received_empty r.map seq e (by omega)]
      simp [consume, lastNext]

/-- the first packet of a fresh feedback always fits (arrival times of received packets are ≥ 0). -/
theorem first_add_ok (s m c b seq : Nat) (t : Int) (ht : 0 ≤ t) :
    ((newFeedback s m c).setBase b t).addReceived seq t ≠ none := by
  intro h
  rw [addReceived_none_iff] at h
  have hl : ((newFeedback s m c).setBase b t).lastUS = t / 64000 * 64000 := by
    simp only [newFeedback, Feedback.setBase]
    rw [Int.tdiv_eq_ediv_of_nonneg ht]
  have hlen : ((newFeedback s m c).setBase b t).len = 0 := rfl
  rw [hl, hlen] at h
  have hd : 0 ≤ t - t / 64000 * 64000 ∧ t - t / 64000 * 64000 < 64000 := by omega
  have hq : delta250 (t - t / 64000 * 64000) = (t - t / 64000 * 64000 + 125) / 250 := by
    unfold delta250
    simp only [show t - t / 64000 * 64000 ≥ 0 from hd.1, if_true]
    rw [Int.tdiv_eq_ediv_of_nonneg (by omega)]
  rw [hq] at h
  unfold maxDeltaBytes at h
  omega


/-- the feedback `maybeBuildFeedbackPacket` creates for the first received number `x0`. -/
def freshFb (r : Recorder) (b x0 t0 : Int) (cnt : Nat) : Feedback :=
  (newFeedback r.sender r.media cnt).setBase ((max b (x0 - maxMissingSequenceNumbers)) % 65536).toNat t0

/-- the loop started without a feedback, as a function of the received numbers ahead. -/
def mbResult (r : Recorder) (b : Int) (next : Int) (cnt : Nat) : List (Int × Int) → LoopEnd
  | [] => .done none next cnt
  | (x0, t0) :: rest =>
    match (freshFb r b x0 t0 cnt).addReceived (x0 % 65536).toNat t0 with
    | none => .abort x0 ((cnt + 1) % 256)
    | some fb2 => .done (some (consume fb2 rest).1) (lastNext (x0 + 1) (consume fb2 rest).2.1) ((cnt + 1) % 256)

theorem mbLoop_none (r : Recorder) (b e : Int) (he : e ≤ r.map.endSN) (fuel : Nat) (seq : Int)
    (next : Int) (cnt : Nat) (h1 : r.map.beginSN ≤ seq) (h2 : seq ≤ r.map.endSN)
    (hfuel : e - seq ≤ fuel) :
    mbLoop r b e fuel seq none next cnt = mbResult r b next cnt (received r.map seq e) := by
  cases fuel with
  | zero =>
    rw [received_empty r.map seq e (by omega)]
    simp [mbLoop, mbResult]
  | succ fuel =>
    unfold mbLoop
    by_cases hlt : seq < e
    · simp only [hlt, if_true]
      have hfr := findNext_received r.map seq e h1 h2 he
      cases hfn : r.map.findNext seq with
      | none =>
        rw [hfn] at hfr
        simp only [] at hfr
        simp [hfr, mbResult]
      | some p =>
        obtain ⟨x, t⟩ := p
        rw [hfn] at hfr
        simp only [] at hfr
        obtain ⟨a1, a2, a3, a4, a5⟩ := hfr
        by_cases hxe : x ≥ e
        · simp only [hxe, if_true] at a5 ⊢
          simp [a5, mbResult]
        · simp only [hxe, if_false] at a5 ⊢
          rw [a5]
          simp only [mbResult, freshFb]
          cases hadd : ((newFeedback r.sender r.media cnt).setBase
              ((max b (x - maxMissingSequenceNumbers)) % 65536).toNat t).addReceived (x % 65536).toNat t with
          | none => simp
          | some f2 =>
            simp only []
            rw [mbLoop_some r b e he fuel (x + 1) f2 (x + 1) ((cnt + 1) % 256) (by omega) (by omega) (by omega)]
    · simp only [hlt, if_false]
      rw [received_empty r.map seq e (by omega)]
      simp [mbResult]


/-! ### what a feedback covers, in unwrapped numbers -/

/-- an arrival as `addReceived` sees it (16-bit sequence number). -/
def wire (p : Int × Int) : Nat × Int := ((p.1 % 65536).toNat, p.2)

/-- feedback `f` has base `B` (unwrapped), holds one status for every number in `[B, cur)` and the
received ones among them are exactly `log`. -/
structure Cov (f : Feedback) (B cur : Int) (log : List (Int × Int)) : Prop where
  built : BuiltLog f (log.map wire)
  base : f.base = (B % 65536).toNat
  count : (f.count : Int) = cur - B
  le : B ≤ cur
  ref : 0 ≤ f.ref64

theorem cov_add {f f' : Feedback} {B cur : Int} {log : List (Int × Int)} (h : Cov f B cur log)
    {x t : Int} (hx : cur ≤ x) (hB : x - B < 65536)
    (hadd : f.addReceived (x % 65536).toNat t = some f') :
    Cov f' B (x + 1) (log ++ [(x, t)]) ∧ f'.fbCount = f.fbCount ∧ f'.sender = f.sender ∧ f'.media = f.media := by
  obtain ⟨syms, hl⟩ := builtLog_inv h.built
  obtain ⟨sym, q, _, _, _, _, hi', _, _, _, hr, hb, hm1, hm2, hm3⟩ := addReceived_spec hl.inv hadd
  have hlt : (x % 65536).toNat < 65536 := by omega
  refine ⟨⟨?_, by rw [hb]; exact h.base, ?_, by have := h.le; omega, by rw [hr]; exact h.ref⟩, hm3, hm1, hm2⟩
  · rw [List.map_append]
    exact BuiltLog.add _ t h.built hlt hadd
  · rw [hi'.count]
    simp only [List.length_append, List.length_replicate, List.length_cons, List.length_nil]
    have c1 := hl.inv.count
    have c2 := hl.next
    have c3 := h.count
    have c4 := h.base
    have c5 := h.le
    unfold sub16
    omega

/-- ascending list of numbers, all at or above `cur`. -/
def Asc : Int → List (Int × Int) → Prop
  | _, [] => True
  | cur, (x, _) :: l => cur ≤ x ∧ Asc (x + 1) l

theorem received_cons (m : ArrivalMap) (a e x t : Int) (tail : List (Int × Int))
    (h : received m a e = (x, t) :: tail) : a ≤ x ∧ x < e ∧ 0 ≤ t ∧ tail = received m (x + 1) e := by
  have key : ∀ (n : Nat) (a : Int), e - a = n → received m a e = (x, t) :: tail →
      a ≤ x ∧ x < e ∧ 0 ≤ t ∧ tail = received m (x + 1) e := by
    intro n
    induction n with
    | zero => intro a hn h; rw [received_empty m a e (by omega)] at h; simp at h
    | succ n ih =>
      intro a hn h
      rw [received_step m a e (by omega)] at h
      by_cases hg : m.get a ≥ 0
      · simp only [hg, if_true, List.singleton_append, List.cons.injEq, Prod.mk.injEq] at h
        obtain ⟨⟨h1, h2⟩, h3⟩ := h
        subst h1
        exact ⟨Int.le_refl _, by omega, by omega, h3.symm⟩
      · simp only [hg, if_false, List.nil_append] at h
        obtain ⟨i1, i2, i3, i4⟩ := ih (a + 1) (by omega) h
        exact ⟨by omega, i2, i3, i4⟩
  by_cases hae : e ≤ a
  · rw [received_empty m a e hae] at h; simp at h
  · exact key (e - a).toNat a (by omega) h

theorem received_asc (m : ArrivalMap) (a e : Int) : Asc a (received m a e) := by
  have key : ∀ (l : List (Int × Int)) (a : Int), received m a e = l → Asc a l := by
    intro l
    induction l with
    | nil => intro a _; trivial
    | cons p l ih =>
      intro a h
      obtain ⟨x, t⟩ := p
      obtain ⟨h1, _, _, h4⟩ := received_cons m a e x t l h
      exact ⟨h1, ih (x + 1) h4.symm⟩
  exact key _ a rfl

/-- splitting the received list after a prefix. -/
theorem received_split (m : ArrivalMap) (e : Int) (pre post : List (Int × Int)) (a : Int)
    (h : received m a e = pre ++ post) : post = received m (lastNext a pre) e := by
  induction pre generalizing a with
  | nil => simp [lastNext] at h ⊢; exact h.symm
  | cons p pre ih =>
    obtain ⟨x, t⟩ := p
    obtain ⟨_, _, _, h4⟩ := received_cons m a e x t (pre ++ post) h
    rw [lastNext_cons]
    exact ih (x + 1) h4.symm

theorem consume_cov {f : Feedback} {B cur : Int} {log : List (Int × Int)} (h : Cov f B cur log)
    (l : List (Int × Int)) (hasc : Asc cur l) (hB : ∀ p ∈ l, p.1 - B < 65536) :
    Cov (consume f l).1 B (lastNext cur (consume f l).2.1) (log ++ (consume f l).2.1) ∧
    (consume f l).1.fbCount = f.fbCount ∧ (consume f l).1.sender = f.sender ∧
    (consume f l).1.media = f.media := by
  induction l generalizing f cur log with
  | nil => simpa [consume, lastNext] using h
  | cons p l ih =>
    obtain ⟨x, t⟩ := p
    simp only [consume]
    cases hadd : f.addReceived (x % 65536).toNat t with
    | none => simpa [lastNext] using h
    | some f' =>
      simp only []
      obtain ⟨hc, m1, m2, m3⟩ := cov_add h hasc.1 (hB (x, t) (by simp)) hadd
      obtain ⟨i0, i1, i2, i3⟩ := ih hc hasc.2 (fun p hp => hB p (by simp [hp]))
      rw [lastNext_cons]
      refine ⟨by simpa [List.append_assoc] using i0, by rw [i1, m1], by rw [i2, m2], by rw [i3, m3]⟩


/-! ### `BuildFeedbackPacket` -/

/-- the packets of one build as consecutive groups of the received numbers: each group starts at
or after the cursor, its base is `max cursor (first − 0x7FFE)`, it covers every number from its base
to its last received number, and the feedback counter goes up by one per packet. -/
def Covers (sender media : Nat) : Int → Nat → List (Feedback × List (Int × Int)) → Prop
  | _, _, [] => True
  | cur, cnt, (f, l) :: rest =>
    ∃ x0 t0 l', l = (x0, t0) :: l' ∧ cur ≤ x0 ∧
      Cov f (max cur (x0 - 32766)) (lastNext cur l) l ∧
      lastNext cur l - max cur (x0 - 32766) ≤ 32768 ∧
      f.fbCount = cnt ∧ f.sender = sender ∧ f.media = media ∧
      Covers sender media (lastNext cur l) ((cnt + 1) % 256) rest

theorem fresh_cov (r : Recorder) (cur x0 t0 : Int) (cnt : Nat) (hx : cur ≤ x0) (ht : 0 ≤ t0) :
    ∃ fb2, (freshFb r cur x0 t0 cnt).addReceived (x0 % 65536).toNat t0 = some fb2 ∧
      Cov fb2 (max cur (x0 - 32766)) (x0 + 1) [(x0, t0)] ∧
      fb2.fbCount = cnt ∧ fb2.sender = r.sender ∧ fb2.media = r.media := by
  have hne := first_add_ok r.sender r.media cnt ((max cur (x0 - maxMissingSequenceNumbers)) % 65536).toNat
    (x0 % 65536).toNat t0 ht
  cases hadd : (freshFb r cur x0 t0 cnt).addReceived (x0 % 65536).toNat t0 with
  | none => exact absurd hadd hne
  | some fb2 =>
    have h0 : Cov (freshFb r cur x0 t0 cnt) (max cur (x0 - 32766)) (max cur (x0 - 32766)) [] := by
      refine ⟨?_, rfl, ?_, Int.le_refl _, ?_⟩
      · exact BuiltLog.base _ _ _ _ _ (by omega)
      · simp [freshFb, newFeedback, Feedback.setBase]
      · simp only [freshFb, newFeedback, Feedback.setBase]
        rw [Int.tdiv_eq_ediv_of_nonneg ht]; omega
    obtain ⟨hc, m1, m2, m3⟩ := cov_add h0 (x := x0) (t := t0) (by omega) (by omega) hadd
    exact ⟨fb2, rfl, by simpa using hc, by rw [m1]; rfl, by rw [m2]; rfl, by rw [m3]; rfl⟩


theorem maybeBuild_eq (r : Recorder) (s : Int) (h1 : r.map.beginSN ≤ s) (h2 : s ≤ r.map.endSN) :
    r.maybeBuild s r.map.endSN =
      match mbResult r s s r.fbCnt (received r.map s r.map.endSN) with
      | .done fb next cnt => ({ r with start := some next, fbCnt := cnt }, fb)
      | .abort seq cnt => ({ r with start := some seq, fbCnt := cnt }, none) := by
  unfold Recorder.maybeBuild
  have c1 : r.map.clamp s = s := by
    unfold ArrivalMap.clamp
    simp [show ¬ s < r.map.beginSN by omega, show ¬ r.map.endSN < s by omega]
  have c2 : r.map.clamp r.map.endSN = r.map.endSN := by
    unfold ArrivalMap.clamp
    simp [show ¬ r.map.endSN < r.map.beginSN by omega]
  simp only [c1, c2]
  rw [mbLoop_none r s r.map.endSN (Int.le_refl _) _ s s r.fbCnt h1 h2 (by omega)]
  cases mbResult r s s r.fbCnt (received r.map s r.map.endSN) <;> rfl

theorem lastNext_append (cur : Int) (a b : List (Int × Int)) :
    lastNext cur (a ++ b) = lastNext (lastNext cur a) b := by
  induction a generalizing cur with
  | nil => simp [lastNext]
  | cons p a ih => obtain ⟨x, t⟩ := p; simp only [List.cons_append, lastNext_cons, ih]

theorem lastNext_bounds (cur e : Int) (c : List (Int × Int)) (hasc : Asc cur c) (hlt : ∀ p ∈ c, p.1 < e)
    (hce : cur ≤ e) : cur ≤ lastNext cur c ∧ lastNext cur c ≤ e := by
  induction c generalizing cur with
  | nil => simp [lastNext]; exact hce
  | cons p c ih =>
    obtain ⟨x, t⟩ := p
    rw [lastNext_cons]
    have hx := hlt (x, t) (by simp)
    have := ih (x + 1) hasc.2 (fun p hp => hlt p (by simp [hp])) (by simp only [] at hx; omega)
    have := hasc.1
    omega

theorem asc_prefix (cur : Int) (a b : List (Int × Int)) (h : Asc cur (a ++ b)) : Asc cur a := by
  induction a generalizing cur with
  | nil => trivial
  | cons p a ih => obtain ⟨x, t⟩ := p; exact ⟨h.1, ih (x + 1) h.2⟩

/-- the loop of `BuildFeedbackPacket`. -/
theorem buildLoop_spec (fuel : Nat) (r : Recorder) (acc : Array Packet) (hwf : ArrivalMap.WF r.map)
    (hcnt : r.fbCnt < 256)
    (s : Int) (hs : r.start = some s) (h1 : r.map.beginSN ≤ s) (h2 : s ≤ r.map.endSN)
    (hfuel : r.map.endSN - s < fuel) :
    ∃ groups : List (Feedback × List (Int × Int)),
      (buildLoop r.map.endSN fuel r acc).2.toList = acc.toList ++ groups.map (fun g => g.1.getRTCP) ∧
      (groups.map (·.2)).flatten = received r.map s r.map.endSN ∧
      Covers r.sender r.media s r.fbCnt groups ∧
      (buildLoop r.map.endSN fuel r acc).1.fbCnt = (r.fbCnt + groups.length) % 256 ∧
      (buildLoop r.map.endSN fuel r acc).1.map = r.map ∧
      (buildLoop r.map.endSN fuel r acc).1.unw = r.unw ∧
      (buildLoop r.map.endSN fuel r acc).1.sender = r.sender ∧
      (buildLoop r.map.endSN fuel r acc).1.media = r.media ∧
      (buildLoop r.map.endSN fuel r acc).1.held = r.held ∧
      (buildLoop r.map.endSN fuel r acc).1.start = some (lastNext s (received r.map s r.map.endSN)) := by
  induction fuel generalizing r acc s with
  | zero => omega
  | succ fuel ih =>
    unfold buildLoop
    simp only [hs]
    by_cases hlt : s < r.map.endSN
    · simp only [hlt, if_true]
      rw [maybeBuild_eq r s h1 h2]
      cases hL : received r.map s r.map.endSN with
      | nil =>
        simp only [mbResult]
        refine ⟨[], by simp, by simp, trivial, by simp; omega, trivial, trivial, trivial, trivial, trivial, by simp [lastNext]⟩
      | cons p rest =>
        obtain ⟨x0, t0⟩ := p
        obtain ⟨a1, a2, a3, a4⟩ := received_cons r.map s r.map.endSN x0 t0 rest hL
        obtain ⟨fb2, hadd, hcov, m1, m2, m3⟩ := fresh_cov r s x0 t0 r.fbCnt a1 a3
        simp only [mbResult, hadd]
        have hasc : Asc (x0 + 1) rest := by rw [a4]; exact received_asc _ _ _
        have hmem : ∀ p ∈ rest, x0 + 1 ≤ p.1 ∧ p.1 < r.map.endSN := by
          intro p hp; rw [a4] at hp; have := received_mem _ _ _ p hp; omega
        have hw := hwf.window
        obtain ⟨cv, n1, n2, n3⟩ := consume_cov hcov rest hasc (fun p hp => by have := hmem p hp; omega)
        have happ := consume_append fb2 rest
        generalize hcons : consume fb2 rest = cr at cv n1 n2 n3 happ
        obtain ⟨g, c, rest'⟩ := cr
        simp only [] at cv n1 n2 n3 happ ⊢
        have hascc : Asc (x0 + 1) c := asc_prefix _ c rest' (by rw [happ]; exact hasc)
        have hcmem : ∀ p ∈ c, p.1 < r.map.endSN := by
          intro p hp; exact (hmem p (by rw [← happ]; simp [hp])).2
        obtain ⟨b1, b2⟩ := lastNext_bounds (x0 + 1) r.map.endSN c hascc hcmem (by omega)
        have hrest' : rest' = received r.map (lastNext (x0 + 1) c) r.map.endSN := by
          apply received_split r.map r.map.endSN c rest' (x0 + 1)
          rw [← a4, happ]
        obtain ⟨groups, g1, g2, g3, g4, g5, g6, g7, g8, g9, g10⟩ :=
          ih ({ r with start := some (lastNext (x0 + 1) c), fbCnt := (r.fbCnt + 1) % 256 } : Recorder)
            (acc.push g.getRTCP) hwf (by show (r.fbCnt + 1) % 256 < 256; omega)
            (lastNext (x0 + 1) c) rfl (by show r.map.beginSN ≤ _; omega) b2
            (by show r.map.endSN - _ < (fuel : Int); omega)
        simp only [] at g1 g2 g3 g4 g5 g6 g7 g8 g9 g10
        refine ⟨(g, (x0, t0) :: c) :: groups, ?_, ?_, ?_, ?_, g5, g6, g7, g8, g9, ?_⟩
        · rw [g1]; simp
        · simp only [List.map_cons, List.flatten_cons, g2, ← hrest', List.cons_append, happ]
        · refine ⟨x0, t0, c, rfl, a1, ?_, ?_, by rw [n1, m1], by rw [n2, m2], by rw [n3, m3], ?_⟩
          · rw [lastNext_cons]; simpa using cv
          · rw [lastNext_cons]; omega
          · rw [lastNext_cons]; exact g3
        · rw [g4]; simp only [List.length_cons]; omega
        · rw [g10, ← hrest', ← happ, ← List.cons_append, lastNext_append, lastNext_cons]
    · simp only [hlt, if_false]
      have : r.map.endSN ≤ s := by omega
      rw [received_empty r.map s r.map.endSN this]
      exact ⟨[], by simp, by simp, trivial, by simp; omega, trivial, trivial, trivial, trivial, trivial, by simp [lastNext, hs]⟩


/-! ### Recorder invariant -/

/-- reachable recorder states: nothing recorded yet, or an allocated well-formed map with the
cursor inside `[begin, end]`. -/
structure RecInv (r : Recorder) : Prop where
  cnt : r.fbCnt < 256
  st : (r.map.cap = 0 ∧ r.map.beginSN = r.map.endSN ∧ r.start = none) ∨
       (ArrivalMap.WF r.map ∧ ∃ s, r.start = some s ∧ r.map.beginSN ≤ s ∧ s ≤ r.map.endSN)

theorem recInv_new (sender : Nat) : RecInv (newRecorder sender) :=
  ⟨by simp [newRecorder], Or.inl ⟨rfl, rfl, rfl⟩⟩

/-- `BuildFeedbackPacket` on a reachable recorder. -/
theorem build_spec (r : Recorder) (h : RecInv r) :
    (r.start = none → r.build = (r, [])) ∧
    (∀ s, r.start = some s →
      ∃ groups : List (Feedback × List (Int × Int)),
        r.build.2 = groups.map (fun g => g.1.getRTCP) ∧
        (groups.map (·.2)).flatten = received r.map s r.map.endSN ∧
        Covers r.sender r.media s r.fbCnt groups ∧
        r.build.1.fbCnt = (r.fbCnt + groups.length) % 256 ∧
        r.build.1.map = r.map ∧ r.build.1.unw = r.unw ∧ r.build.1.sender = r.sender ∧
        r.build.1.media = r.media ∧
        r.build.1.start = some (lastNext s (received r.map s r.map.endSN)) ∧
        RecInv r.build.1) := by
  constructor
  · intro hn; simp [Recorder.build, hn]
  · intro s hs
    rcases h.st with ⟨_, _, hn⟩ | ⟨hwf, s', hs', b1, b2⟩
    · rw [hn] at hs; cases hs
    · rw [hs] at hs'; cases hs'
      obtain ⟨groups, g1, g2, g3, g4, g5, g6, g7, g8, g9, g10⟩ :=
        buildLoop_spec ((r.map.endSN - s).toNat + 1) r #[] hwf h.cnt s hs b1 b2 (by omega)
      refine ⟨groups, ?_, g2, g3, ?_, ?_, ?_, ?_, ?_, ?_, ?_⟩
      · simp only [Recorder.build, hs]; simpa using g1
      · simp only [Recorder.build, hs]; exact g4
      · simp only [Recorder.build, hs]; exact g5
      · simp only [Recorder.build, hs]; exact g6
      · simp only [Recorder.build, hs]; exact g7
      · simp only [Recorder.build, hs]; exact g8
      · simp only [Recorder.build, hs]; exact g10
      · have hasc := received_asc r.map s r.map.endSN
        have hmem : ∀ p ∈ received r.map s r.map.endSN, p.1 < r.map.endSN :=
          fun p hp => (received_mem _ _ _ p hp).2.1
        obtain ⟨c1, c2⟩ := lastNext_bounds s r.map.endSN _ hasc hmem b2
        constructor
        · simp only [Recorder.build, hs]; rw [g4]; omega
        · right
          simp only [Recorder.build, hs]
          rw [g5]
          exact ⟨hwf, _, g10, by omega, c2⟩


theorem covers_mem {sender media : Nat} {cur : Int} {cnt : Nat} {groups : List (Feedback × List (Int × Int))}
    (h : Covers sender media cur cnt groups) :
    ∀ g ∈ groups, ∃ B c : Int, Cov g.1 B c g.2 ∧ c - B ≤ 32768 ∧ g.2 ≠ [] ∧ g.1.sender = sender ∧ g.1.media = media := by
  induction groups generalizing cur cnt with
  | nil => intro g hg; simp at hg
  | cons g0 groups ih =>
    obtain ⟨f, l⟩ := g0
    obtain ⟨x0, t0, l', hl, _, hc, hb, _, hs, hm, hrest⟩ := h
    intro g hg
    rcases List.mem_cons.mp hg with hg | hg
    · rw [hg]; exact ⟨_, _, hc, hb, by rw [hl]; simp, hs, hm⟩
    · exact ih hrest g hg

end Interceptor.Twcc

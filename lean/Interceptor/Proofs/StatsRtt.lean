/-
C19 helper lemmas, part 6: the round-trip-time figures as functions of the history.
-/
import Interceptor.Proofs.StatsMemory
namespace Interceptor.Stats
open Interceptor.Stats.Spec Interceptor.F64

/-- record the measurements one after the other. -/
def rttApply (v : RttFigures) (hits : List Int) : RttFigures :=
  hits.foldl (fun v x => { rtt := x, total := wrap64 (v.total + x), n := v.n + 1 }) v

theorem rttApply_append (v : RttFigures) (a b : List Int) : rttApply v (a ++ b) = rttApply (rttApply v a) b := by
  unfold rttApply; rw [List.foldl_append]

theorem rttApply_eq (v : RttFigures) (hits : List Int) :
    rttApply v hits = { rtt := hits.getLast?.getD v.rtt, total := hits.foldl (fun a x => wrap64 (a + x)) v.total,
                        n := v.n + hits.length } := by
  unfold rttApply
  induction hits generalizing v with
  | nil => rfl
  | cons x hits ih =>
    rw [List.foldl_cons, ih]
    simp only [RttFigures.mk.injEq, List.foldl_cons, List.length_cons]
    refine ⟨?_, trivial, by omega⟩
    cases hits with
    | nil => rfl
    | cons y ys =>
      rw [List.getLast?_cons_cons]
      cases h : (y :: ys).getLast? with
      | none => simp at h
      | some z => rfl

theorem rttApply_init (hits : List Int) : rttApply ⟨0, 0, 0⟩ hits = rttFiguresOf hits := by
  rw [rttApply_eq]; simp [rttFiguresOf]

theorem hitsAt_append (now : Int) (mem : List Nat) (a b : List Report) :
    hitsAt now mem (a ++ b) = hitsAt now mem a ++ hitsAt now mem b := by
  unfold hitsAt; rw [List.filterMap_append]

/-! ### LSR / DLSR -/

theorem rrStep_lastSRs (s : Nat) (rate : Rat) (now : Int) (st : IStats) (r : Report) :
    (rrStep s rate now st r).lastSRs = st.lastSRs := congrArg Prod.fst (rrStep_mem s rate now st r)

theorem rrStep_rtt (s : Nat) (rate : Rat) (now : Int) (st : IStats) (r : Report) :
    remoteInboundRtt (rrStep s rate now st r)
      = rttApply (remoteInboundRtt st) (hitsAt now st.lastSRs (if r.ssrc == s then [r] else [])) := by
  by_cases hs : r.ssrc = s
  · have hb : (r.ssrc == s) = true := by simp [hs]
    rw [hb]
    by_cases hc : r.dlsr ≠ 0 ∧ r.lsr ≠ 0
    · cases hf : (searchOrder st.lastSRs).find? (midMatches r.lsr) with
      | none =>
        cases hi : st.remFirstInit <;>
          simp [rrStep, hitsAt, rttApply, remoteInboundRtt, hs, hc, hf, hi]
      | some v =>
        cases hi : st.remFirstInit <;>
          simp [rrStep, hitsAt, rttApply, remoteInboundRtt, rttOf, hs, hc, hf, hi]
    · cases hi : st.remFirstInit <;>
        simp [rrStep, hitsAt, rttApply, remoteInboundRtt, hs, hc, hi]
  · have hb : (r.ssrc == s) = false := by simp [hs]
    simp [rrStep, hitsAt, rttApply, hs, hb]

theorem recordIncomingRR_rtt (s : Nat) (rate : Rat) (now : Int) (rs : List Report) (st : IStats) :
    remoteInboundRtt (recordIncomingRR s rate st rs now)
      = rttApply (remoteInboundRtt st) (hitsAt now st.lastSRs (rs.filter (·.ssrc == s))) := by
  unfold recordIncomingRR
  induction rs generalizing st with
  | nil => rfl
  | cons r rs ih =>
    rw [List.foldl_cons, ih, rrStep_rtt, rrStep_lastSRs, ← rttApply_append, ← hitsAt_append, List.filter_cons]
    cases r.ssrc == s <;> rfl

theorem recordIncomingRTP_rtt (s : Nat) (rate : Rat) (now : Int) (st : IStats) (p : Rtp) :
    remoteInboundRtt (recordIncomingRTP s rate st now p) = remoteInboundRtt st := by
  unfold recordIncomingRTP remoteInboundRtt
  simp only []
  repeat' split
  all_goals rfl

theorem recordOutgoingRTP_rtt (s : Nat) (st : IStats) (p : Rtp) :
    remoteInboundRtt (recordOutgoingRTP s st p) = remoteInboundRtt st := by
  unfold recordOutgoingRTP remoteInboundRtt
  simp only []
  repeat' split
  all_goals rfl

theorem dlrrHit_rtt (now : Int) (d l : Nat) (st : IStats) (v : Nat) :
    remoteInboundRtt (dlrrHit now d l st v) = remoteInboundRtt st := by
  unfold dlrrHit remoteInboundRtt
  split <;> rfl

theorem dlrrSubStep_rtt (s : Nat) (now : Int) (st : IStats) (x : DlrrSub) :
    remoteInboundRtt (dlrrSubStep s now st x) = remoteInboundRtt st := by
  unfold dlrrSubStep
  split
  · exact foldl_frame _ remoteInboundRtt (fun a b => dlrrHit_rtt now _ _ a b) _ st
  · rfl

theorem xrInBlock_rtt (s : Nat) (now : Int) (st : IStats) (b : XrBlock) :
    remoteInboundRtt (xrInBlock s now st b) = remoteInboundRtt st := by
  cases b with
  | rrtr _ => rfl
  | dlrr subs => exact foldl_frame _ remoteInboundRtt (dlrrSubStep_rtt s now) subs st

theorem xrOutBlock_rtt (st : IStats) (b : XrBlock) : remoteInboundRtt (xrOutBlock st b) = remoteInboundRtt st := by
  cases b <;> rfl

theorem outStep_rtt (s : Nat) (st : IStats) (p : Rtcp) : remoteInboundRtt (outStep s st p) = remoteInboundRtt st := by
  cases p with
  | nack _ _ => simp only [outStep]; split <;> rfl
  | pli _ _ => simp only [outStep]; split <;> rfl
  | fir _ _ _ => simp only [outStep]; split <;> rfl
  | sr _ _ _ _ _ => simp only [outStep]; split <;> rfl
  | other _ => rfl
  | rr _ _ => rfl
  | xr _ bs => exact foldl_frame _ remoteInboundRtt xrOutBlock_rtt bs st

theorem inStep_rtt (s : Nat) (rate : Rat) (now : Int) (st : IStats) (p : Rtcp) :
    remoteInboundRtt (inStep s rate now st p)
      = rttApply (remoteInboundRtt st) (hitsAt now st.lastSRs ((reportsOfPkt p).filter (·.ssrc == s))) := by
  cases hc : p.dest.contains s
  · rw [inStep_skip _ _ _ _ _ hc, no_reports_of_skip s p hc]; rfl
  · rw [inStep_hit _ _ _ _ _ hc]
    cases p with
    | nack _ _ => simp only [inSwitch, reportsOfPkt]; split <;> rfl
    | pli _ _ => simp only [inSwitch, reportsOfPkt]; split <;> rfl
    | fir _ _ _ => rfl
    | other _ => rfl
    | rr _ rs => exact recordIncomingRR_rtt s rate now rs st
    | sr _ _ _ _ rs =>
      simp only [inSwitch, reportsOfPkt]
      rw [recordIncomingRR_rtt]
      rfl
    | xr _ bs => exact foldl_frame _ remoteInboundRtt (xrInBlock_rtt s now) bs st

theorem inStep_lastSRs (s : Nat) (rate : Rat) (now : Int) (st : IStats) (p : Rtcp) :
    (inStep s rate now st p).lastSRs = st.lastSRs := congrArg Prod.fst (inStep_mem s rate now st p)

theorem inFold_rtt (s : Nat) (rate : Rat) (now : Int) (pkts : List Rtcp) (st : IStats) :
    remoteInboundRtt (pkts.foldl (inStep s rate now) st)
      = rttApply (remoteInboundRtt st)
          (hitsAt now st.lastSRs ((pkts.flatMap reportsOfPkt).filter (·.ssrc == s))) := by
  induction pkts generalizing st with
  | nil => rfl
  | cons p pkts ih =>
    rw [List.foldl_cons, ih, inStep_rtt, inStep_lastSRs, ← rttApply_append, ← hitsAt_append,
      List.flatMap_cons, List.filter_append]

/-- one event, judged against the recorder's memory. -/
theorem recStep_rtt (s : Nat) (rate : Rat) (st : IStats) (pre : List Event) (e : Event)
    (hm : st.lastSRs = lastN 5 (srTimes s pre)) :
    remoteInboundRtt (recStep s rate st e) = rttApply (remoteInboundRtt st) (rttHitsOfEvent s pre e) := by
  cases e with
  | bind _ _ => rfl
  | close => rfl
  | rtcpIn now pkts =>
    simp only [recStep, recordIncomingRTCP, rttHitsOfEvent]
    rw [inFold_rtt, hm]
  | rtcpOut pkts =>
    simp only [recStep, recordOutgoingRTCP, rttHitsOfEvent]
    rw [foldl_frame _ remoteInboundRtt (outStep_rtt s) pkts]
    rfl
  | rtpIn now via p =>
    simp only [recStep, rttHitsOfEvent]
    split
    · rw [recordIncomingRTP_rtt]; rfl
    · rfl
  | rtpOut via p =>
    simp only [recStep, rttHitsOfEvent]
    split
    · rw [recordOutgoingRTP_rtt]; rfl
    · rfl

theorem rtcpOutPkts_append (a b : List Event) : rtcpOutPkts (a ++ b) = rtcpOutPkts a ++ rtcpOutPkts b := by
  unfold rtcpOutPkts; rw [List.flatMap_append]

/-- the memory invariant is kept by one more event. -/
theorem mem_step (s : Nat) (rate : Rat) (st : IStats) (pre : List Event) (e : Event)
    (h : MemIs (memOf st) (srTimes s pre) (rrtrTimes pre)) :
    MemIs (memOf (recStep s rate st e)) (srTimes s (pre ++ [e])) (rrtrTimes (pre ++ [e])) := by
  have := fold_mem s rate [e] st _ _ h
  rw [srTimes_eq, rrtrTimes_eq] at this
  rw [srTimes_eq, rrtrTimes_eq, rtcpOutPkts_append, List.flatMap_append, List.flatMap_append]
  simpa using this

theorem fold_rtt (s : Nat) (rate : Rat) (w : List Event) (st : IStats) (pre : List Event)
    (h : MemIs (memOf st) (srTimes s pre) (rrtrTimes pre)) :
    remoteInboundRtt (w.foldl (recStep s rate) st) = rttApply (remoteInboundRtt st) (rttHitsFrom s pre w) := by
  induction w generalizing st pre with
  | nil => rfl
  | cons e w ih =>
    rw [List.foldl_cons, ih _ _ (mem_step s rate st pre e h), recStep_rtt s rate st pre e h.1,
      ← rttApply_append]
    rfl

theorem fold_rtt_init (s : Nat) (rate : Rat) (w : List Event) :
    remoteInboundRtt (w.foldl (recStep s rate) {}) = rttFiguresOf (rttHits s w) := by
  rw [fold_rtt s rate w {} [] ⟨rfl, rfl⟩]
  exact rttApply_init _

/-! ### DLRR -/

theorem dlrrHitsAt_append (s : Nat) (now : Int) (mem : List Nat) (a b : List DlrrSub) :
    dlrrHitsAt s now mem (a ++ b) = dlrrHitsAt s now mem a ++ dlrrHitsAt s now mem b := by
  unfold dlrrHitsAt; rw [List.flatMap_append]

theorem dlrrHit_ro (now : Int) (d l : Nat) (st : IStats) (v : Nat) :
    remoteOutboundRtt (dlrrHit now d l st v)
      = rttApply (remoteOutboundRtt st) (if midMatches l v then [rttOf now d v] else []) := by
  unfold dlrrHit
  cases midMatches l v <;> simp [rttApply, remoteOutboundRtt, rttOf]

theorem dlrrLoop_ro (now : Int) (d l : Nat) (vs : List Nat) (st : IStats) :
    remoteOutboundRtt (vs.foldl (dlrrHit now d l) st)
      = rttApply (remoteOutboundRtt st) ((vs.filter (midMatches l)).map (rttOf now d)) := by
  induction vs generalizing st with
  | nil => rfl
  | cons v vs ih =>
    rw [List.foldl_cons, ih, dlrrHit_ro, ← rttApply_append, List.filter_cons]
    cases midMatches l v <;> rfl

theorem dlrrSubStep_ro (s : Nat) (now : Int) (st : IStats) (x : DlrrSub) :
    remoteOutboundRtt (dlrrSubStep s now st x)
      = rttApply (remoteOutboundRtt st) (dlrrHitsAt s now st.lastRRTs [x]) := by
  unfold dlrrSubStep dlrrHitsAt
  simp only [List.flatMap_cons, List.flatMap_nil, List.append_nil]
  split
  · exact dlrrLoop_ro now x.dlrr x.lrr _ st
  · rfl

theorem dlrrSubStep_lastRRTs (s : Nat) (now : Int) (st : IStats) (x : DlrrSub) :
    (dlrrSubStep s now st x).lastRRTs = st.lastRRTs := congrArg Prod.snd (dlrrSubStep_mem s now st x)

theorem dlrrSubs_ro (s : Nat) (now : Int) (subs : List DlrrSub) (st : IStats) :
    remoteOutboundRtt (subs.foldl (dlrrSubStep s now) st)
      = rttApply (remoteOutboundRtt st) (dlrrHitsAt s now st.lastRRTs subs) := by
  induction subs generalizing st with
  | nil => rfl
  | cons x subs ih =>
    rw [List.foldl_cons, ih, dlrrSubStep_ro, dlrrSubStep_lastRRTs, ← rttApply_append, ← dlrrHitsAt_append]
    rfl

def subsOfBlock : XrBlock → List DlrrSub
  | .dlrr subs => subs
  | .rrtr _ => []

theorem xrInBlock_ro (s : Nat) (now : Int) (st : IStats) (b : XrBlock) :
    remoteOutboundRtt (xrInBlock s now st b)
      = rttApply (remoteOutboundRtt st) (dlrrHitsAt s now st.lastRRTs (subsOfBlock b)) := by
  cases b with
  | rrtr _ => rfl
  | dlrr subs => exact dlrrSubs_ro s now subs st

theorem xrInBlock_lastRRTs (s : Nat) (now : Int) (st : IStats) (b : XrBlock) :
    (xrInBlock s now st b).lastRRTs = st.lastRRTs := congrArg Prod.snd (xrInBlock_mem s now st b)

theorem recordIncomingXR_ro (s : Nat) (now : Int) (bs : List XrBlock) (st : IStats) :
    remoteOutboundRtt (recordIncomingXR s st bs now)
      = rttApply (remoteOutboundRtt st) (dlrrHitsAt s now st.lastRRTs (bs.flatMap subsOfBlock)) := by
  unfold recordIncomingXR
  induction bs generalizing st with
  | nil => rfl
  | cons b bs ih =>
    rw [List.foldl_cons, ih, xrInBlock_ro, xrInBlock_lastRRTs, ← rttApply_append, ← dlrrHitsAt_append,
      List.flatMap_cons]

theorem dlrrSubsOfPkt_xr (ssrc : Nat) (bs : List XrBlock) :
    dlrrSubsOfPkt (.xr ssrc bs) = bs.flatMap subsOfBlock := by
  unfold dlrrSubsOfPkt
  congr 1 <;> (funext b; cases b <;> rfl)

theorem dlrrHitsAt_none (s : Nat) (now : Int) (mem : List Nat) (subs : List DlrrSub)
    (h : ∀ x ∈ subs, x.ssrc ≠ s) : dlrrHitsAt s now mem subs = [] := by
  induction subs with
  | nil => rfl
  | cons x subs ih =>
    have hx : x.ssrc ≠ s := h x (by simp)
    have := ih (fun y hy => h y (by simp [hy]))
    unfold dlrrHitsAt at this ⊢
    rw [List.flatMap_cons, this]
    simp [hx]

theorem no_dlrr_of_skip (s : Nat) (now : Int) (mem : List Nat) (p : Rtcp) (h : p.dest.contains s = false) :
    dlrrHitsAt s now mem (dlrrSubsOfPkt p) = [] := by
  apply dlrrHitsAt_none
  intro x hx hxs
  have hmem : s ∈ p.dest := by
    cases p with
    | xr ssrc bs =>
      rw [dlrrSubsOfPkt_xr, List.mem_flatMap] at hx
      obtain ⟨b, hb, hxb⟩ := hx
      simp only [Rtcp.dest, List.mem_cons, List.mem_flatten, List.mem_map]
      refine Or.inr ⟨b.dest, ⟨b, hb, rfl⟩, ?_⟩
      cases b with
      | rrtr _ => simp [subsOfBlock] at hxb
      | dlrr subs =>
        simp only [subsOfBlock] at hxb
        simp only [XrBlock.dest, List.mem_map]
        exact ⟨x, hxb, hxs⟩
    | sr _ _ _ _ _ => simp [dlrrSubsOfPkt] at hx
    | rr _ _ => simp [dlrrSubsOfPkt] at hx
    | nack _ _ => simp [dlrrSubsOfPkt] at hx
    | pli _ _ => simp [dlrrSubsOfPkt] at hx
    | fir _ _ _ => simp [dlrrSubsOfPkt] at hx
    | other _ => simp [dlrrSubsOfPkt] at hx
  have : p.dest.contains s = true := by simpa using hmem
  rw [this] at h
  cases h

theorem rrStep_ro (s : Nat) (rate : Rat) (now : Int) (st : IStats) (r : Report) :
    remoteOutboundRtt (rrStep s rate now st r) = remoteOutboundRtt st := by
  unfold rrStep remoteOutboundRtt
  simp only []
  repeat' split
  all_goals rfl

theorem recordIncomingRTP_ro (s : Nat) (rate : Rat) (now : Int) (st : IStats) (p : Rtp) :
    remoteOutboundRtt (recordIncomingRTP s rate st now p) = remoteOutboundRtt st := by
  unfold recordIncomingRTP remoteOutboundRtt
  simp only []
  repeat' split
  all_goals rfl

theorem recordOutgoingRTP_ro (s : Nat) (st : IStats) (p : Rtp) :
    remoteOutboundRtt (recordOutgoingRTP s st p) = remoteOutboundRtt st := by
  unfold recordOutgoingRTP remoteOutboundRtt
  simp only []
  repeat' split
  all_goals rfl

theorem xrOutBlock_ro (st : IStats) (b : XrBlock) : remoteOutboundRtt (xrOutBlock st b) = remoteOutboundRtt st := by
  cases b <;> rfl

theorem outStep_ro (s : Nat) (st : IStats) (p : Rtcp) : remoteOutboundRtt (outStep s st p) = remoteOutboundRtt st := by
  cases p with
  | nack _ _ => simp only [outStep]; split <;> rfl
  | pli _ _ => simp only [outStep]; split <;> rfl
  | fir _ _ _ => simp only [outStep]; split <;> rfl
  | sr _ _ _ _ _ => simp only [outStep]; split <;> rfl
  | other _ => rfl
  | rr _ _ => rfl
  | xr _ bs => exact foldl_frame _ remoteOutboundRtt xrOutBlock_ro bs st

theorem inStep_ro (s : Nat) (rate : Rat) (now : Int) (st : IStats) (p : Rtcp) :
    remoteOutboundRtt (inStep s rate now st p)
      = rttApply (remoteOutboundRtt st) (dlrrHitsAt s now st.lastRRTs (dlrrSubsOfPkt p)) := by
  cases hc : p.dest.contains s
  · rw [inStep_skip _ _ _ _ _ hc, no_dlrr_of_skip s now _ p hc]; rfl
  · rw [inStep_hit _ _ _ _ _ hc]
    cases p with
    | nack _ _ => simp only [inSwitch, dlrrSubsOfPkt]; split <;> rfl
    | pli _ _ => simp only [inSwitch, dlrrSubsOfPkt]; split <;> rfl
    | fir _ _ _ => rfl
    | other _ => rfl
    | rr _ rs => exact foldl_frame _ remoteOutboundRtt (rrStep_ro s rate now) rs st
    | sr _ _ _ _ rs =>
      simp only [inSwitch, recordIncomingRR, dlrrSubsOfPkt]
      rw [foldl_frame _ remoteOutboundRtt (rrStep_ro s rate now) rs]
      rfl
    | xr ssrc bs =>
      rw [dlrrSubsOfPkt_xr]
      exact recordIncomingXR_ro s now bs st

theorem inStep_lastRRTs (s : Nat) (rate : Rat) (now : Int) (st : IStats) (p : Rtcp) :
    (inStep s rate now st p).lastRRTs = st.lastRRTs := congrArg Prod.snd (inStep_mem s rate now st p)

theorem inFold_ro (s : Nat) (rate : Rat) (now : Int) (pkts : List Rtcp) (st : IStats) :
    remoteOutboundRtt (pkts.foldl (inStep s rate now) st)
      = rttApply (remoteOutboundRtt st) (dlrrHitsAt s now st.lastRRTs (pkts.flatMap dlrrSubsOfPkt)) := by
  induction pkts generalizing st with
  | nil => rfl
  | cons p pkts ih =>
    rw [List.foldl_cons, ih, inStep_ro, inStep_lastRRTs, ← rttApply_append, ← dlrrHitsAt_append, List.flatMap_cons]

theorem recStep_ro (s : Nat) (rate : Rat) (st : IStats) (pre : List Event) (e : Event)
    (hm : st.lastRRTs = lastN 5 (rrtrTimes pre)) :
    remoteOutboundRtt (recStep s rate st e) = rttApply (remoteOutboundRtt st) (dlrrHitsOfEvent s pre e) := by
  cases e with
  | bind _ _ => rfl
  | close => rfl
  | rtcpIn now pkts =>
    simp only [recStep, recordIncomingRTCP, dlrrHitsOfEvent]
    rw [inFold_ro, hm]
  | rtcpOut pkts =>
    simp only [recStep, recordOutgoingRTCP, dlrrHitsOfEvent]
    rw [foldl_frame _ remoteOutboundRtt (outStep_ro s) pkts]
    rfl
  | rtpIn now via p =>
    simp only [recStep, dlrrHitsOfEvent]
    split
    · rw [recordIncomingRTP_ro]; rfl
    · rfl
  | rtpOut via p =>
    simp only [recStep, dlrrHitsOfEvent]
    split
    · rw [recordOutgoingRTP_ro]; rfl
    · rfl

theorem fold_ro (s : Nat) (rate : Rat) (w : List Event) (st : IStats) (pre : List Event)
    (h : MemIs (memOf st) (srTimes s pre) (rrtrTimes pre)) :
    remoteOutboundRtt (w.foldl (recStep s rate) st) = rttApply (remoteOutboundRtt st) (dlrrHitsFrom s pre w) := by
  induction w generalizing st pre with
  | nil => rfl
  | cons e w ih =>
    rw [List.foldl_cons, ih _ _ (mem_step s rate st pre e h), recStep_ro s rate st pre e h.2,
      ← rttApply_append]
    rfl

theorem fold_ro_init (s : Nat) (rate : Rat) (w : List Event) :
    remoteOutboundRtt (w.foldl (recStep s rate) {}) = rttFiguresOf (dlrrHits s w) := by
  rw [fold_ro s rate w {} [] ⟨rfl, rfl⟩]
  exact rttApply_init _

end Interceptor.Stats

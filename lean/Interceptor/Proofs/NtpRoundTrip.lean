/-
Helper lemmas for C20 (NTP round trip): error bounds and exactness of binary64 rounding in the
exact model (Base/F64.lean), the exact shape of `ToNTP`'s result (`toNTP_struct`), a two-sided
bound on `ToTime` of an arbitrary 32.32 fixed-point value (`toTime_struct`), and the two round
trips with the sharpest constants this error budget gives (`roundtrip_tight`,
`ntp32_roundtrip_tight`).
-/
import Interceptor.Proofs.NtpMono
set_option linter.unusedVariables false

namespace Interceptor.F64

/-- nearest-even rounding moves a rational by at most 1/2. -/
theorem roundEven_err (m : ℚ) :
    ((roundEven m : Int) : ℚ) ≤ m + 1 / 2 ∧ m - 1 / 2 ≤ ((roundEven m : Int) : ℚ) := by
  have hf1 : (m.floor : ℚ) ≤ m := Rat.floor_le m
  have hlt1 : m < (m.floor : ℚ) + 1 := by
    have := Rat.lt_floor_add_one m; push_cast at this; exact this
  unfold roundEven
  dsimp only
  split
  · rename_i h; constructor <;> linarith
  · split
    · rename_i h1 h2; push_cast; constructor <;> linarith
    · rename_i h1 h2
      have he : m - (m.floor : ℚ) = 1 / 2 := by
        have := not_lt.mp h1; have := not_lt.mp h2; linarith
      split
      · constructor <;> linarith
      · push_cast; constructor <;> linarith

/-- ★ binary64 rounding error: below `2^(J+53)` the result is within half a unit `2^J`. -/
theorem rne_err (q : ℚ) (J : Int) (hq0 : 0 ≤ q) (hq : q < pow2 (J + 53)) (hJ : -1074 ≤ J) :
    rne q ≤ q + pow2 J / 2 ∧ q - pow2 J / 2 ≤ rne q := by
  rcases eq_or_lt_of_le hq0 with h0 | hpos
  · subst h0; rw [rne_zero]; have := pow2_pos J; constructor <;> linarith
  · obtain ⟨j, hj, hu⟩ := ulp_eq q J hpos hq hJ
    have hup : 0 < pow2 j := pow2_pos j
    have hle : pow2 j ≤ pow2 J := pow2_le hj
    obtain ⟨h1, h2⟩ := roundEven_err (q / pow2 j)
    rw [rne_pos_eq q hpos, hu]
    have e : q / pow2 j * pow2 j = q := div_mul_cancel₀ q hup.ne'
    constructor
    · have := mul_le_mul_of_nonneg_right h1 hup.le
      rw [add_mul, e] at this; linarith
    · have := mul_le_mul_of_nonneg_right h2 hup.le
      rw [sub_mul, e] at this; linarith

/-- ★ a multiple of `2^J` below `2^(J+53)` is a binary64 value: rounding fixes it. -/
theorem rne_exact (q : ℚ) (J z : Int) (hq0 : 0 ≤ q) (hq : q < pow2 (J + 53)) (hJ : -1074 ≤ J)
    (hz : q = (z : ℚ) * pow2 J) : rne q = q := by
  obtain ⟨h1, h2⟩ := rne_sandwich q J z hq0 hq hJ
  have a := h1 hz.ge
  have b := h2 hz.le
  rw [← hz] at a b
  exact le_antisymm b a

/-- ★ from `2^(J+52)` upwards every binary64 value is a multiple of `2^J`. -/
theorem rne_multiple (q : ℚ) (J : Int) (hq : pow2 (J + 52) ≤ q) (hJ : -1074 ≤ J) :
    ∃ z : Int, rne q = (z : ℚ) * pow2 J := by
  have hpos : 0 < q := lt_of_lt_of_le (pow2_pos _) hq
  have h1 := lt_pow2_ilog2_succ q hpos
  have h2 : J + 52 < ilog2 q + 1 := by
    by_contra hc
    have := pow2_le (not_lt.mp hc)
    linarith
  have hu : ulp q = pow2 (ilog2 q - 52) := by
    unfold ulp; dsimp only; rw [if_neg (by omega)]
  rw [rne_pos_eq q hpos, hu]
  generalize roundEven (q / pow2 (ilog2 q - 52)) = R
  obtain ⟨k, hk⟩ : ∃ k : Nat, ilog2 q - 52 = (k : Int) + J := ⟨(ilog2 q - 52 - J).toNat, by omega⟩
  refine ⟨R * ((2 ^ k : Nat) : Int), ?_⟩
  rw [hk, pow2_add, pow2_natCast]
  push_cast; ring

theorem pow2_30 : pow2 30 = 1073741824 := by rw [pow2_eq]; norm_num
theorem pow2_m23 : pow2 (-23) = 1 / 8388608 := by rw [pow2_eq]; norm_num

end Interceptor.F64

namespace Interceptor.Ntp
open Interceptor.F64

/-! ### the three roundings of `s` in `ToNTP` -/

/-- `float64(ns)` is within 128 ns. -/
theorem ofInt_err (ns : Int) (h0 : 0 ≤ ns) (h : ns ≤ maxNs) :
    ofInt ns ≤ (ns : ℚ) + 128 ∧ (ns : ℚ) - 128 ≤ ofInt ns := by
  unfold ofInt
  have hq : (ns : ℚ) < pow2 (8 + 53) := by
    have : (8 : Int) + 53 = 61 := rfl
    rw [this, pow2_61]
    have : (ns : ℚ) ≤ (maxNs : ℚ) := by exact_mod_cast h
    have e : (maxNs : ℚ) = 2085978495 * 1000000000 := by unfold maxNs; norm_num
    linarith
  have := rne_err (ns : ℚ) 8 (by exact_mod_cast h0) hq (by norm_num)
  rw [pow2_8] at this
  constructor <;> [have := this.1; have := this.2] <;> linarith

/-- `float64(ns)/1e9` is within 2^-23 s. -/
theorem secs_err (ns : Int) (h0 : 0 ≤ ns) (h : ns ≤ maxNs) :
    div (ofInt ns) 1000000000 ≤ ofInt ns / 1000000000 + 1 / 8388608 ∧
    ofInt ns / 1000000000 - 1 / 8388608 ≤ div (ofInt ns) 1000000000 := by
  unfold div
  have hx := ofInt_le_max ns h0 h
  have hx0 := ofInt_nonneg ns h0
  have e : (maxNs : ℚ) = 2085978495 * 1000000000 := by unfold maxNs; norm_num
  rw [e] at hx
  have hq : ofInt ns / 1000000000 < pow2 (-22 + 53) := by
    have : (-22 : Int) + 53 = 31 := rfl
    rw [this, pow2_31, div_lt_iff₀ (by norm_num)]; linarith
  have := rne_err (ofInt ns / 1000000000) (-22) (by positivity) hq (by norm_num)
  rw [pow2_m22] at this
  constructor <;> [have := this.1; have := this.2] <;> linarith

/-- the final addition is within 2^-22 s. -/
theorem sOf_err (ns : Int) (h0 : 0 ≤ ns) (h : ns ≤ maxNs) :
    sOf ns ≤ div (ofInt ns) 1000000000 + 2208988800 + 1 / 4194304 ∧
    div (ofInt ns) 1000000000 + 2208988800 - 1 / 4194304 ≤ sOf ns := by
  unfold sOf add
  have h1 := secs_nonneg ns h0
  have h2 := secs_le ns h0 h
  have hq : div (ofInt ns) 1000000000 + 2208988800 < pow2 (-21 + 53) := by
    have : (-21 : Int) + 53 = 32 := rfl
    rw [this, pow2_32]; linarith
  have := rne_err (div (ofInt ns) 1000000000 + 2208988800) (-21) (by linarith) hq (by norm_num)
  rw [pow2_m21] at this
  constructor <;> [have := this.1; have := this.2] <;> linarith

/-- ★ `s` (seconds since 1900 as computed by `ToNTP`) is within 486 ns of the instant. -/
theorem sOf_close (ns : Int) (h0 : 0 ≤ ns) (h : ns ≤ maxNs) :
    sOf ns * 1000000000 ≤ (ns : ℚ) + 2208988800 * 1000000000 + 486 ∧
    (ns : ℚ) + 2208988800 * 1000000000 - 486 ≤ sOf ns * 1000000000 := by
  obtain ⟨a1, a2⟩ := ofInt_err ns h0 h
  obtain ⟨b1, b2⟩ := secs_err ns h0 h
  obtain ⟨c1, c2⟩ := sOf_err ns h0 h
  constructor <;> linarith

/-- `s` lies in `[2^31, 2^32)`, hence on the `2^-21` grid. -/
theorem sOf_multiple (ns : Int) (h0 : 0 ≤ ns) : ∃ z : Int, sOf ns = (z : ℚ) * pow2 (-21) := by
  unfold sOf add
  have h1 := secs_nonneg ns h0
  apply rne_multiple _ (-21) _ (by norm_num)
  have : (-21 : Int) + 52 = 31 := rfl
  rw [this, pow2_31]; linarith

/-! ### the exact shape of `ToNTP t` -/

/-- for `ip ≤ s < ip+1` on the `2^-21` grid, the fraction expression is computed exactly. -/
theorem fracOf_exact (s : ℚ) (z : Int) (ip : Nat) (hz : s = (z : ℚ) * pow2 (-21))
    (hip : (ip : ℚ) ≤ s) (hlt : s < (ip : ℚ) + 1) (hipr : ip < 4294967296) :
    fracOf s ip = (s - (ip : ℚ)) * 4294967295 := by
  have hofi : ofInt (ip : Int) = (ip : ℚ) := by
    have := ofInt_exact (ip : Int) (by omega) (by omega)
    simpa using this
  have h32 : pow2 (-21 + 53) = 4294967296 := by
    have : (-21 : Int) + 53 = 32 := rfl
    rw [this, pow2_32]
  have hd0 : 0 ≤ s - (ip : ℚ) := by linarith
  have hd1 : s - (ip : ℚ) < 1 := by linarith
  unfold fracOf mul sub
  rw [hofi]
  have e1 : rne (s - (ip : ℚ)) = s - (ip : ℚ) := by
    apply rne_exact _ (-21) (z - (ip : Int) * 2097152) hd0 (by rw [h32]; linarith) (by norm_num)
    rw [hz, pow2_m21]; push_cast; ring
  rw [e1]
  apply rne_exact _ (-21) ((z - (ip : Int) * 2097152) * 4294967295) (by positivity)
    (by rw [h32]; linarith) (by norm_num)
  rw [hz, pow2_m21]; push_cast; ring

/-- ★ `ToNTP t = ip·2^32 + fp` with `ip = ⌊s⌋` and `fp = ⌊(s − ip)·(2^32 − 1)⌋`, all float
operations after `s` being exact. -/
theorem toNTP_struct (t : Int) (h0 : 0 ≤ t) (h : t ≤ maxNs) :
    ∃ ip fp : Nat, toNTP t = ip * 4294967296 + fp ∧ fp < 4294967296 ∧
      (fp : ℚ) ≤ (sOf t - (ip : ℚ)) * 4294967295 ∧
      (sOf t - (ip : ℚ)) * 4294967295 - 1 < (fp : ℚ) := by
  obtain ⟨hs1, hs2⟩ := sOf_bounds t h0 h
  obtain ⟨z, hz⟩ := sOf_multiple t h0
  have hs0 : 0 ≤ sOf t := by linarith
  have hfa := toUint32_of_range (sOf t) hs0 (by linarith)
  have eip : ((toUint32 (sOf t) : Nat) : ℚ) = ((sOf t).floor : ℚ) := by
    have e : (((toUint32 (sOf t) : Nat) : Int) : ℚ) = ((sOf t).floor : ℚ) := by rw [hfa]
    push_cast at e; exact e
  have hip : ((toUint32 (sOf t) : Nat) : ℚ) ≤ sOf t := by rw [eip]; exact Rat.floor_le _
  have hlt : sOf t < ((toUint32 (sOf t) : Nat) : ℚ) + 1 := by
    rw [eip]; have := Rat.lt_floor_add_one (sOf t); push_cast at this; exact this
  have hfr := fracOf_exact (sOf t) z (toUint32 (sOf t)) hz hip hlt (toUint32_lt _)
  refine ⟨toUint32 (sOf t), toUint32 (fracOf (sOf t) (toUint32 (sOf t))), toNTP_eq t, toUint32_lt _, ?_⟩
  rw [hfr]
  generalize toUint32 (sOf t) = ip at *
  have hd0 : 0 ≤ (sOf t - (ip : ℚ)) * 4294967295 := by
    have : 0 ≤ sOf t - (ip : ℚ) := by linarith
    positivity
  have hff := toUint32_of_range ((sOf t - (ip : ℚ)) * 4294967295) hd0 (by linarith)
  have efp : ((toUint32 ((sOf t - (ip : ℚ)) * 4294967295) : Nat) : ℚ)
      = ((((sOf t - (ip : ℚ)) * 4294967295).floor : Int) : ℚ) := by
    have e : (((toUint32 ((sOf t - (ip : ℚ)) * 4294967295) : Nat) : Int) : ℚ)
        = ((((sOf t - (ip : ℚ)) * 4294967295).floor : Int) : ℚ) := by rw [hff]
    push_cast at e; exact e
  rw [efp]
  constructor
  · exact Rat.floor_le _
  · have := Rat.lt_floor_add_one ((sOf t - (ip : ℚ)) * 4294967295); push_cast at this; linarith

/-! ### `ToTime` of an arbitrary 32.32 fixed-point value -/

/-- `int64(m)` is the floor for small non-negative `m`. -/
theorem toInt64_of_range (m : ℚ) (h0 : 0 ≤ m) (h : m < 4294967296) : toInt64 m = m.floor := by
  have hf0 : 0 ≤ m.floor := Rat.le_floor_iff.mpr (by exact_mod_cast h0)
  have hf1 : m.floor < 4294967296 := by
    have : (m.floor : ℚ) ≤ m := Rat.floor_le m
    have : (m.floor : ℚ) < 4294967296 := lt_of_le_of_lt this h
    exact_mod_cast this
  unfold toInt64 trunc
  rw [if_neg (not_lt.mpr h0)]
  have : ¬ (m.floor < -9223372036854775808 ∨ 9223372036854775807 < m.floor) := by omega
  rw [if_neg this]

/-- the nanosecond part computed by `ToTime` from the 32-bit fraction `fp`:
`⌊fl(fl(fp / (2^32−1)) · 1e9)⌋`, within `(−1.001, +0.001]` of `fp/(2^32−1)·1e9`. -/
theorem nanos_bounds (fp : Nat) (hfp : fp < 4294967296) :
    ∃ w : Int, toInt64 (mul (div (ofInt (fp : Int)) 4294967295) 1000000000) = w ∧
      (w : ℚ) ≤ (fp : ℚ) / 4294967295 * 1000000000 + 1 / 1000 ∧
      (fp : ℚ) / 4294967295 * 1000000000 - 1 - 1 / 1000 < (w : ℚ) := by
  have hofi : ofInt (fp : Int) = (fp : ℚ) := by
    have := ofInt_exact (fp : Int) (by omega) (by omega)
    simpa using this
  rw [hofi]
  have hfq : (fp : ℚ) ≤ 4294967295 := by
    have : fp ≤ 4294967295 := by omega
    exact_mod_cast this
  have hg0 : 0 ≤ (fp : ℚ) / 4294967295 := by positivity
  have hg1 : (fp : ℚ) / 4294967295 ≤ 1 := by rw [div_le_iff₀ (by norm_num)]; linarith
  unfold mul div
  generalize (fp : ℚ) / 4294967295 = g at *
  -- first rounding: the quotient
  have hq1 : g < pow2 (-52 + 53) := by
    have : (-52 : Int) + 53 = 1 := rfl
    rw [this, pow2_1]; linarith
  obtain ⟨a1, a2⟩ := rne_err g (-52) hg0 hq1 (by norm_num)
  rw [pow2_m52] at a1 a2
  have hF0 : 0 ≤ rne g := rne_nonneg g hg0
  generalize rne g = F at *
  -- second rounding: the product
  have hp0 : 0 ≤ F * 1000000000 := by positivity
  have hq2 : F * 1000000000 < pow2 (-23 + 53) := by
    have : (-23 : Int) + 53 = 30 := rfl
    rw [this, pow2_30]; linarith
  obtain ⟨b1, b2⟩ := rne_err (F * 1000000000) (-23) hp0 hq2 (by norm_num)
  rw [pow2_m23] at b1 b2
  have hm0 : 0 ≤ rne (F * 1000000000) := rne_nonneg _ hp0
  generalize rne (F * 1000000000) = m at *
  refine ⟨m.floor, toInt64_of_range m hm0 (by linarith), ?_, ?_⟩
  · have := Rat.floor_le m; linarith
  · have := Rat.lt_floor_add_one m; push_cast at this; linarith

/-- ★ `ToTime (ip·2^32 + fp)` is `ip` seconds plus a nanosecond part within `(−1.001, +0.001]` of
`fp/(2^32−1)·1e9`, minus the 1900→1970 offset. -/
theorem toTime_struct (ip fp : Nat) (hfp : fp < 4294967296) :
    ∃ w : Int, toTime (ip * 4294967296 + fp)
        = (ip : Int) * 1000000000 + w - 2208988800 * 1000000000 ∧
      (w : ℚ) ≤ (fp : ℚ) / 4294967295 * 1000000000 + 1 / 1000 ∧
      (fp : ℚ) / 4294967295 * 1000000000 - 1 - 1 / 1000 < (w : ℚ) := by
  obtain ⟨w, hw, hw1, hw2⟩ := nanos_bounds fp hfp
  refine ⟨w, ?_, hw1, hw2⟩
  have e1 : (ip * 4294967296 + fp) / 4294967296 = ip := by omega
  have e2 : (ip * 4294967296 + fp) % 4294967296 = fp := by omega
  unfold toTime
  dsimp only
  rw [e1, e2, hw]

/-- under the same-window hypothesis, `ToTime32 (ToNTP32 t) r` feeds `ToTime` the 64-bit timestamp
with its low 16 bits cleared. -/
theorem ntp32_word (N R ip fp : Nat) (hN : N = ip * 4294967296 + fp) (hfp : fp < 4294967296)
    (hw : N / 281474976710656 = R / 281474976710656) :
    ((N / 65536) % 4294967296 * 65536) % 281474976710656
        + R / 281474976710656 * 281474976710656
      = ip * 4294967296 + fp / 65536 * 65536 := by
  omega

/-! ### the round trips with the sharpest constants the error budget gives -/

/-- 64-bit round trip: at most 487 ns late, at most 488 ns early. -/
theorem roundtrip_tight (t : Int) (h0 : 0 ≤ t) (h : t ≤ maxNs) :
    toTime (toNTP t) - t ≤ 487 ∧ t - toTime (toNTP t) ≤ 488 := by
  obtain ⟨ip, fp, hN, hfp, f1, f2⟩ := toNTP_struct t h0 h
  obtain ⟨w, hT, w1, w2⟩ := toTime_struct ip fp hfp
  obtain ⟨s1, s2⟩ := sOf_close t h0 h
  rw [hN, hT]
  constructor
  · have : (((ip : Int) * 1000000000 + w - 2208988800 * 1000000000 - t : Int) : ℚ) ≤ 487 := by
      push_cast; linarith
    exact_mod_cast this
  · have : ((t - ((ip : Int) * 1000000000 + w - 2208988800 * 1000000000) : Int) : ℚ) ≤ 488 := by
      push_cast; linarith
    exact_mod_cast this

/-- 32-bit round trip against a reference in the same 2^16-second window: at most 487 ns late, at
most 15746 ns (2^-16 s = 15258.8 ns of dropped bits + 487) early. -/
theorem ntp32_roundtrip_tight (t r : Int) (h0 : 0 ≤ t) (h : t ≤ maxNs)
    (hw : toNTP t / 281474976710656 = toNTP r / 281474976710656) :
    toTime32 (toNTP32 t) r - t ≤ 487 ∧ t - toTime32 (toNTP32 t) r ≤ 15746 := by
  obtain ⟨ip, fp, hN, hfp, f1, f2⟩ := toNTP_struct t h0 h
  have hfp' : fp / 65536 * 65536 < 4294967296 := by omega
  obtain ⟨w, hT, w1, w2⟩ := toTime_struct ip (fp / 65536 * 65536) hfp'
  obtain ⟨s1, s2⟩ := sOf_close t h0 h
  have g1 : ((fp / 65536 * 65536 : Nat) : ℚ) ≤ (fp : ℚ) := by
    have : fp / 65536 * 65536 ≤ fp := by omega
    exact_mod_cast this
  have g2 : (fp : ℚ) ≤ ((fp / 65536 * 65536 : Nat) : ℚ) + 65535 := by
    have : fp ≤ fp / 65536 * 65536 + 65535 := by omega
    exact_mod_cast this
  unfold toTime32 toNTP32
  dsimp only
  rw [ntp32_word (toNTP t) (toNTP r) ip fp hN hfp hw, hT]
  constructor
  · have : (((ip : Int) * 1000000000 + w - 2208988800 * 1000000000 - t : Int) : ℚ) ≤ 487 := by
      push_cast; linarith
    exact_mod_cast this
  · have : ((t - ((ip : Int) * 1000000000 + w - 2208988800 * 1000000000) : Int) : ℚ)
        ≤ 15746 := by
      push_cast; linarith
    exact_mod_cast this

end Interceptor.Ntp

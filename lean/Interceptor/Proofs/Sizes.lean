/- C12 helper lemmas: size invariants of the stateful cores. -/
import Interceptor.Model.Sizes
namespace Interceptor.Sizes
open Interceptor

/-! ### feedback adapter LRU -/

theorem adapter_add_le (h : FeedbackAdapter.Hist) (a : FeedbackAdapter.Ack) (hl : h.length ≤ FeedbackAdapter.lruSize) :
    (FeedbackAdapter.add h a).length ≤ FeedbackAdapter.lruSize := by
  unfold FeedbackAdapter.add
  split
  · rename_i hany
    simp only [List.length_cons, List.length_eraseP, hany, if_true]
    have : 0 < h.length := by
      cases h with
      | nil => simp at hany
      | cons x xs => simp
    omega
  · simp only [List.length_cons]
    split
    · simp only [List.length_dropLast, List.length_cons]; omega
    · simp only [List.length_cons]; omega

/-! ### rtpbuffer ring -/

theorem clearRange_size (size : Nat) (n : Nat) : ∀ (slots : Array Bool) (i : Nat),
    (clearRange size slots i n).size = slots.size := by
  induction n with
  | zero => intro slots i; rfl
  | succ n ih => intro slots i; simp only [clearRange]; rw [ih]; simp

theorem ring_add_slots (r : Ring) (seq : Nat) : (r.add seq).slots.size = r.slots.size ∧ (r.add seq).size = r.size := by
  unfold Ring.add
  split
  · simp
  · simp only
    split
    · exact ⟨rfl, rfl⟩
    · split
      · simp [clearRange_size]
      · split
        · exact ⟨rfl, rfl⟩
        · simp

theorem ring_used_le (r : Ring) : r.used ≤ r.slots.size := by
  unfold Ring.used
  have := List.countP_le_length (p := (· = true)) (l := r.slots.toList)
  simpa using this

/-! ### flexfec batch -/

theorem fec_write_lt (s : FlexFec.Icpt) (p : FlexFec.Bytes) (h : s.buffer.length < s.numMedia) :
    (s.write p).1.buffer.length < (s.write p).1.numMedia ∧ (s.write p).1.numMedia = s.numMedia := by
  unfold FlexFec.Icpt.write
  by_cases ha : (!s.active) = true
  · rw [if_pos ha]; exact ⟨h, rfl⟩
  · rw [if_neg ha]
    by_cases hs : (FlexFec.ssrcOf p != s.mediaSsrc) = true
    · rw [if_pos hs]; exact ⟨h, rfl⟩
    · rw [if_neg hs]
      by_cases he : (s.buffer ++ [p]).length = s.numMedia
      · simp only [he, if_true, List.length_nil]; exact ⟨by omega, trivial⟩
      · simp only [he, if_false]
        simp only [List.length_append, List.length_singleton] at he ⊢
        exact ⟨by omega, trivial⟩

/-- with `numMedia = 0` the test `len(buffer) == numMedia` never succeeds. -/
theorem fec_write_zero (s : FlexFec.Icpt) (p : FlexFec.Bytes) (h0 : s.numMedia = 0) (ha : s.active = true)
    (hs : FlexFec.ssrcOf p = s.mediaSsrc) :
    (s.write p).1.buffer.length = s.buffer.length + 1 ∧ (s.write p).1.numMedia = 0 ∧
    (s.write p).1.active = true ∧ (s.write p).1.mediaSsrc = s.mediaSsrc := by
  unfold FlexFec.Icpt.write
  simp only [ha, Bool.not_true, Bool.false_eq_true, if_false, hs, bne_self_eq_false, List.length_append,
    List.length_singleton, h0]
  rw [if_neg (by omega)]
  simp [h0, ha]

/-! ### pacing interceptor: nothing is lost, nothing is invented -/

theorem releaseLoop_len {α L} (c : Pacing.Cfg α L) (now : Nat) (q : List α) : ∀ (lim : L),
    (Pacing.releaseLoop c now lim q).2.1.length + (Pacing.releaseLoop c now lim q).2.2.length = q.length := by
  induction q with
  | nil => intro lim; simp [Pacing.releaseLoop]
  | cons p l ih =>
    intro lim
    simp only [Pacing.releaseLoop]
    split
    · have := ih (c.lm.allow lim now (8 * c.sz p))
      simp only [List.length_cons]; omega
    · simp

/-- conservation: every accepted packet is in the channel, in the queue of the loop, or delivered. -/
def PConserved {α L} (st : Pacing.St α L) : Prop :=
  st.chan.length + st.loc.length + st.delivered.length = st.accepted.length

theorem pacing_exec_conserved {α L} (c : Pacing.Cfg α L) (st : Pacing.St α L) (e : Pacing.Ev α) (h : PConserved st) :
    PConserved (Pacing.exec c st e) := by
  unfold PConserved at *
  cases e with
  | accept p =>
    simp only [Pacing.exec, Pacing.accept]
    split
    · simp only [Option.getD_some, List.length_append, List.length_singleton]; omega
    · simpa using h
  | drain =>
    simp only [Pacing.exec]
    split
    · exact h
    · rename_i p ch heq
      simp only [heq, List.length_cons] at h
      simp only [List.length_append, List.length_singleton]; omega
  | tick now =>
    simp only [Pacing.exec, List.length_append]
    have := releaseLoop_len c now st.loc st.lim
    omega
  | setRate now r => simpa [Pacing.exec] using h
  | close => simpa [Pacing.exec] using h

/-- the queues do not depend on the ghost histories. -/
theorem forgetP_exec (st : PSt) (e : Pacing.Ev Nat) :
    forgetP (Pacing.exec pcfg (forgetP st) e) = forgetP (Pacing.exec pcfg st e) := by
  cases e with
  | accept p =>
    simp only [Pacing.exec, Pacing.accept, forgetP]
    by_cases hc : st.chan.length < pcfg.cap
    · simp [hc]
    · simp [hc]
  | drain =>
    simp only [Pacing.exec, forgetP]
    cases hch : st.chan with
    | nil => simp [hch]
    | cons p ch => simp
  | tick now => simp [Pacing.exec, forgetP]
  | setRate now r => simp [Pacing.exec, forgetP]
  | close => simp [Pacing.exec, forgetP]

/-! ### maps keyed by SSRC -/

theorem del_not_mem {α} (m : List (Nat × α)) (k : Nat) : ∀ e ∈ del m k, e.1 ≠ k := by
  intro e he
  simp only [del, List.mem_filter, bne_iff_ne, ne_eq] at he
  exact he.2

theorem del_length_le {α} (m : List (Nat × α)) (k : Nat) : (del m k).length ≤ m.length := by
  simp only [del]; exact List.length_filter_le _ _

/-- deleting every key that occurs leaves the empty map. -/
theorem del_all {α} (ks : List Nat) : ∀ (m : List (Nat × α)), (∀ e ∈ m, e.1 ∈ ks) → ks.foldl del m = [] := by
  induction ks with
  | nil =>
    intro m h
    cases m with
    | nil => rfl
    | cons e m => have := h e (by simp); simp at this
  | cons k ks ih =>
    intro m h
    simp only [List.foldl_cons]
    apply ih
    intro e he
    have hne := del_not_mem m k e he
    have hm : e ∈ m := by
      simp only [del, List.mem_filter] at he; exact he.1
    have := h e hm
    simp only [List.mem_cons] at this
    cases this with
    | inl h1 => exact absurd h1 hne
    | inr h2 => exact h2

end Interceptor.Sizes

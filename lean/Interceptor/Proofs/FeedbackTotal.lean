/- totality lemmas (no panic) for the feedback decoders: invariants of the loops -/
import Interceptor.Proofs.FeedbackBasics
import Interceptor.Model.FeedbackAdapter
import Interceptor.Model.Rtpfb
namespace Interceptor
open Feedback

namespace FeedbackAdapter

/-- the symbol loop never panics; on success the delta index stays within the delta list and
one entry is produced per symbol. -/
theorem symLoop_inv (h : Hist) (deltas : List Int) (ss : List Nat) :
    ∀ (i di : Nat) (ref : Int), di ≤ deltas.length →
      (symLoop h deltas ss i di ref).sat
        (fun r => di ≤ r.1 ∧ r.1 ≤ deltas.length ∧ r.2.2.length = ss.length) := by
  induction ss with
  | nil => intro i di ref hd; simp [symLoop, Res.sat, hd]
  | cons s ss ih =>
    intro i di ref hd
    unfold symLoop
    by_cases h0 : s = symNotReceived
    · rw [if_pos h0]
      refine Res.sat_bind (ih ((i + 1) % 65536) di ref hd) ?_
      intro ⟨n, r, acks⟩ hp
      simp only [Res.pure_eq, Res.sat, List.length_cons] at hp ⊢
      omega
    · rw [if_neg h0]
      by_cases hg : (deltas.length : Int) - 1 < (di : Int)
      · rw [if_pos hg]; trivial
      · rw [if_neg hg]
        have hlt : di < deltas.length := by omega
        rw [idx_lt _ _ _ hlt]
        simp only [Res.bind_ok]
        refine Res.sat_bind (ih ((i + 1) % 65536) (di + 1) _ (by omega)) ?_
        intro ⟨n, r, acks⟩ hp
        simp only [Res.pure_eq, Res.sat, List.length_cons] at hp ⊢
        omega

theorem chunkLoop_sat (h : Hist) (cs : List Chunk) :
    ∀ (index : Nat) (ref : Int) (deltas : List Int),
      (chunkLoop h cs index ref deltas).sat (fun _ => True) := by
  induction cs with
  | nil => intro _ _ _; simp [chunkLoop, Res.sat]
  | cons c cs ih =>
    intro index ref deltas
    unfold chunkLoop
    cases c with
    | other => trivial
    | rl sym run =>
      simp only [unpackRunLengthChunk]
      refine Res.sat_bind (symLoop_inv h deltas _ index 0 ref (Nat.zero_le _)) ?_
      intro ⟨n, r', acks⟩ hp
      simp only [sliceFrom, hp.2.1, if_true, Res.bind_ok]
      refine Res.sat_bind (ih _ _ _) ?_
      intro _ _; trivial
    | sv syms =>
      simp only [unpackStatusVectorChunk]
      refine Res.sat_bind (symLoop_inv h deltas _ index 0 ref (Nat.zero_le _)) ?_
      intro ⟨n, r', acks⟩ hp
      simp only [sliceFrom, hp.2.1, if_true, Res.bind_ok]
      refine Res.sat_bind (ih _ _ _) ?_
      intro _ _; trivial

end FeedbackAdapter

namespace Rtpfb

/-- the symbol loop of convertTWCC always returns normally. -/
theorem symLoop_ok (fb : Twcc) (ss : List Nat) :
    ∀ (offset di : Nat) (ts : Int), ∃ o, symLoop fb ss offset di ts = .ok o := by
  induction ss with
  | nil => intro _ _ _; exact ⟨_, rfl⟩
  | cons s ss ih =>
    intro offset di ts
    unfold symLoop
    by_cases hc : offset ≥ fb.count
    · simp [hc]
    · simp only [hc, if_false]
      by_cases h0 : s = symNotReceived
      · simp only [h0, if_true]
        obtain ⟨o, ho⟩ := ih (offset + 1) di ts
        simp [ho]
      · simp only [h0, if_false]
        by_cases h1 : s = symSmall ∨ s = symLarge
        · simp only [h1, if_true]
          by_cases hd : di ≥ fb.deltas.length
          · simp [hd]
          · simp only [hd, if_false]
            rw [idx_lt _ _ _ (by omega)]
            obtain ⟨o, ho⟩ := ih (offset + 1) (di + 1) (ts + fb.deltas[di]'(by omega) * 1000)
            simp [ho]
        · simp only [h1, if_false]
          by_cases h3 : s = symNoDelta
          · simp only [h3, if_true]
            obtain ⟨o, ho⟩ := ih (offset + 1) di ts
            simp [ho]
          · simp only [h3, if_false]
            exact ih _ _ _

theorem chunkLoop_ok (fb : Twcc) (cs : List Chunk) :
    ∀ (offset di : Nat) (ts : Int), ∃ o, chunkLoop fb cs offset di ts = .ok o := by
  induction cs with
  | nil => intro _ _ _; exact ⟨_, rfl⟩
  | cons c cs ih =>
    intro offset di ts
    unfold chunkLoop
    have hinner : ∃ o, chunkStep fb c offset di ts = Res.ok o := by
      cases c with
      | rl sym run => exact symLoop_ok fb _ _ _ _
      | sv syms => exact symLoop_ok fb _ _ _ _
      | other => exact ⟨_, rfl⟩
    obtain ⟨o, ho⟩ := hinner
    rw [ho]
    cases o with
    | cont as o' d' t' =>
      obtain ⟨r, hr⟩ := ih o' d' t'
      simp [hr]
    | ret as => simp
    | retNil => simp

theorem metricLoop_ok (ref : Int) (begin : Nat) (ms : List Metric) :
    ∀ (i : Nat) (latest : Int) (reports : List RAck), reports.length = i + ms.length →
      ∃ r, metricLoop ref begin ms i latest reports = .ok r := by
  induction ms with
  | nil => intro _ _ _ _; exact ⟨_, rfl⟩
  | cons m ms ih =>
    intro i latest reports hl
    unfold metricLoop
    have hi : i < reports.length := by simp at hl; omega
    by_cases hr : m.received
    · simp only [hr, if_true, setIdx, hi, Res.bind_ok]
      exact ih _ _ _ (by simp at hl ⊢; omega)
    · simp only [hr, setIdx, hi, if_true, Res.bind_ok]
      exact ih _ _ _ (by simp at hl ⊢; omega)

theorem blockLoop_ok (ref : Int) (bs : List Block) :
    ∀ (res : List (Nat × List RAck)) (latest : Int) (found : Bool),
      ∃ r, blockLoop ref bs res latest found = .ok r := by
  induction bs with
  | nil => intro _ _ _; exact ⟨_, rfl⟩
  | cons b bs ih =>
    intro res latest found
    unfold blockLoop convertMetricBlock
    obtain ⟨r, hr⟩ := metricLoop_ok ref b.begin b.metrics 0 0
      (List.replicate b.metrics.length ⟨0, false, 0, 0⟩) (by simp)
    rw [hr]
    obtain ⟨la, acks⟩ := r
    simp only [Res.bind_ok]
    split
    · exact ih _ _ _
    · exact ih _ _ _

end Rtpfb
end Interceptor

/- C12: the arrival-time ring of the TWCC recorder never spans more than 2^15 sequence numbers;
   the sliding window of the GCC rate calculator. -/
import Interceptor.Model.SizesCore
namespace Interceptor.Sizes
namespace AMap

@[simp] theorem setAt_be (m : AMap) (sn v : Int) : (m.setAt sn v).begin_ = m.begin_ ∧ (m.setAt sn v).end_ = m.end_ := ⟨rfl, rfl⟩
@[simp] theorem reallocate_be (m : AMap) (c : Nat) : (m.reallocate c).begin_ = m.begin_ ∧ (m.reallocate c).end_ = m.end_ := ⟨rfl, rfl⟩

theorem adjust_be (m : AMap) (n : Nat) : (m.adjustToSize n).begin_ = m.begin_ ∧ (m.adjustToSize n).end_ = m.end_ := by
  unfold adjustToSize
  simp only
  split <;> split <;> simp

theorem setNotReceived_be (n : Nat) : ∀ (m : AMap) (sn : Int),
    (m.setNotReceived sn n).begin_ = m.begin_ ∧ (m.setNotReceived sn n).end_ = m.end_ := by
  induction n with
  | zero => intro m sn; exact ⟨rfl, rfl⟩
  | succ n ih => intro m sn; simp only [setNotReceived]; have := ih (m.setAt sn (-1)) (sn + 1); simpa using this

/-- the window invariant. -/
def SpanOk (m : AMap) : Prop := m.begin_ ≤ m.end_ ∧ m.end_ - m.begin_ ≤ 32768

theorem spanOk_init : SpanOk {} := by simp [SpanOk]

@[simp] theorem adjust_begin (m : AMap) (n : Nat) : (m.adjustToSize n).begin_ = m.begin_ := (adjust_be m n).1
@[simp] theorem adjust_end (m : AMap) (n : Nat) : (m.adjustToSize n).end_ = m.end_ := (adjust_be m n).2
@[simp] theorem snr_begin (m : AMap) (sn : Int) (n : Nat) : (m.setNotReceived sn n).begin_ = m.begin_ := (setNotReceived_be n m sn).1
@[simp] theorem snr_end (m : AMap) (sn : Int) (n : Nat) : (m.setNotReceived sn n).end_ = m.end_ := (setNotReceived_be n m sn).2
@[simp] theorem setAt_begin (m : AMap) (sn v : Int) : (m.setAt sn v).begin_ = m.begin_ := rfl
@[simp] theorem setAt_end (m : AMap) (sn v : Int) : (m.setAt sn v).end_ = m.end_ := rfl
@[simp] theorem realloc_begin (m : AMap) (c : Nat) : (m.reallocate c).begin_ = m.begin_ := rfl
@[simp] theorem realloc_end (m : AMap) (c : Nat) : (m.reallocate c).end_ = m.end_ := rfl

theorem addPacket_spanOk (m : AMap) (sn t : Int) (h : SpanOk m) : SpanOk (m.addPacket sn t) := by
  unfold SpanOk at *
  unfold addPacket
  simp only [maxNumberOfPackets]
  by_cases h0 : m.cap = 0
  · simp only [h0, ↓reduceIte, setAt_begin, setAt_end, realloc_begin, realloc_end]; omega
  · simp only [h0, ↓reduceIte]
    by_cases h1 : sn ≥ m.begin_ ∧ sn < m.end_
    · simp only [h1, and_self, ↓reduceIte, setAt_begin, setAt_end]; exact h
    · simp only [h1, ↓reduceIte]
      by_cases h2 : sn < m.begin_
      · simp only [h2, ↓reduceIte]
        by_cases h3 : (((m.end_ - sn).toNat : Nat) : Int) > 32768
        · simp only [h3, ↓reduceIte]; exact h
        · simp only [h3, ↓reduceIte, adjust_begin, adjust_end, snr_begin, snr_end, setAt_begin, setAt_end]
          omega
      · simp only [h2, ↓reduceIte]
        by_cases h3 : sn + 1 ≥ m.end_ + 32768
        · simp only [h3, ↓reduceIte, setAt_begin, setAt_end]; omega
        · simp only [h3, ↓reduceIte]
          by_cases h4 : m.begin_ < sn + 1 - 32768
          · simp only [h4, ↓reduceIte, adjust_begin, adjust_end, snr_begin, snr_end, setAt_begin, setAt_end]
            omega
          · simp only [h4, ↓reduceIte, adjust_begin, adjust_end, snr_begin, snr_end, setAt_begin, setAt_end]
            omega

theorem skipOld_be (f : Nat) : ∀ (m : AMap) (checkTo limit : Int), checkTo ≤ m.end_ → m.begin_ ≤ m.end_ →
    (m.skipOld checkTo limit f).end_ = m.end_ ∧ m.begin_ ≤ (m.skipOld checkTo limit f).begin_ ∧
    (m.skipOld checkTo limit f).begin_ ≤ m.end_ := by
  induction f with
  | zero => intro m c l _ hb; exact ⟨rfl, Int.le_refl _, hb⟩
  | succ f ih =>
    intro m c l hc hb
    simp only [skipOld]
    split
    · rename_i hcond
      have := ih { m with begin_ := m.begin_ + 1 } c l hc (by show m.begin_ + 1 ≤ m.end_; omega)
      obtain ⟨x, y, z⟩ := this
      exact ⟨x, by simp only at y; omega, z⟩
    · exact ⟨rfl, Int.le_refl _, hb⟩

theorem removeOld_spanOk (m : AMap) (sn limit : Int) (h : SpanOk m) : SpanOk (m.removeOldPackets sn limit) := by
  unfold SpanOk at *
  unfold removeOldPackets
  obtain ⟨x, y, z⟩ := skipOld_be (m.end_ - m.begin_).toNat m (min sn m.end_) limit (Int.min_le_right _ _) h.1
  simp only
  have a := adjust_be (m.skipOld (min sn m.end_) limit (m.end_ - m.begin_).toNat)
    ((m.skipOld (min sn m.end_) limit (m.end_ - m.begin_).toNat).end_ - (m.skipOld (min sn m.end_) limit (m.end_ - m.begin_).toNat).begin_).toNat
  rw [a.1, a.2, x]
  omega

end AMap

theorem cull_spanOk (r : TwccRec) (u t : Int) (h : AMap.SpanOk r.m) : AMap.SpanOk (r.cull u t).m := by
  unfold TwccRec.cull
  split
  · split
    · exact AMap.removeOld_spanOk _ _ _ h
    · exact h
  · exact h

theorem lowerStart_m (r : TwccRec) (u : Int) : (r.lowerStart u).m = r.m := by
  unfold TwccRec.lowerStart
  split
  · split <;> rfl
  · rfl

theorem insert_spanOk (r : TwccRec) (u t : Int) (h : AMap.SpanOk r.m) : AMap.SpanOk (r.insert u t).m := by
  unfold TwccRec.insert
  split
  · exact h
  · simp only
    have h5 := AMap.addPacket_spanOk r.m u t h
    split
    · split <;> exact h5
    · exact h5

theorem record_spanOk (r : TwccRec) (seq : Nat) (t : Int) (h : AMap.SpanOk r.m) : AMap.SpanOk (r.record seq t).m := by
  unfold TwccRec.record
  simp only
  apply insert_spanOk
  rw [lowerStart_m]
  exact cull_spanOk _ _ _ h

theorem build_m (r : TwccRec) : r.build.m = r.m := by
  unfold TwccRec.build
  split
  · split <;> rfl
  · rfl

/-! ### rate calculator -/

theorem dropOld_all (d : Int) (h : List Int) : ∀ a ∈ dropOld d h, a ∈ h := by
  induction h with
  | nil => intro a ha; simp [dropOld] at ha
  | cons x xs ih =>
    intro a ha
    simp only [dropOld] at ha
    split at ha
    · exact List.mem_cons_of_mem _ (ih a ha)
    · exact ha

/-- with non-decreasing arrival times the retained window holds only arrivals within `window` of
the newest one. -/
theorem dropOld_sorted (d : Int) (h : List Int) (hs : h.Pairwise (· ≤ ·)) : ∀ a ∈ dropOld d h, d ≤ a := by
  induction h with
  | nil => intro a ha; simp [dropOld] at ha
  | cons x xs ih =>
    intro a ha
    have hp := List.pairwise_cons.mp hs
    simp only [dropOld] at ha
    split at ha
    · exact ih hp.2 a ha
    · rename_i hx
      rcases List.mem_cons.mp ha with rfl | h1
      · omega
      · have := hp.1 a h1; omega

end Interceptor.Sizes

/-
Helper lemmas for Props/C07 (sender reports).
-/
import Interceptor.Spec.SenderReport
import Mathlib.Data.List.Induction
set_option linter.unusedVariables false
namespace Interceptor.SenderReport
open Interceptor Interceptor.F64 Interceptor.GoTime Interceptor.SenderReport.Spec

/-- counters after any send history the counters are the number of packets and
the sum of the payload lengths, both modulo 2^32 (any start state with in-range counters). -/
theorem counts_run (s : Stream) (ps : List Pkt)
    (h1 : s.packetCount < M32) (h2 : s.octetCount < M32) :
    (run s ps).packetCount = (s.packetCount + ps.length) % M32 ∧
    (run s ps).octetCount = (s.octetCount + (ps.map (·.len)).sum) % M32 := by
  induction ps generalizing s with
  | nil => simp only [run, List.foldl_nil, List.length_nil, List.map_nil, List.sum_nil, M32] at *; omega
  | cons p ps ih =>
    have hp : (processRTP s p).packetCount = (s.packetCount + 1) % M32 := by
      unfold processRTP; split <;> (try split) <;> rfl
    have ho : (processRTP s p).octetCount = (s.octetCount + p.len) % M32 := by
      unfold processRTP; split <;> (try split) <;> rfl
    have := ih (processRTP s p) (by rw [hp]; exact Nat.mod_lt _ (by decide)) (by rw [ho]; exact Nat.mod_lt _ (by decide))
    simp only [run, List.foldl_cons, List.length_cons, List.map_cons, List.sum_cons] at this ⊢
    rw [this.1, this.2, hp, ho]
    simp only [M32]
    constructor <;> omega

theorem processRTP_useLatest (s : Stream) (p : Pkt) : (processRTP s p).useLatest = s.useLatest := by
  unfold processRTP; split <;> (try split) <;> rfl

theorem run_useLatest (s : Stream) (ps : List Pkt) : (run s ps).useLatest = s.useLatest := by
  induction ps generalizing s with
  | nil => rfl
  | cons p ps ih => simp only [run, List.foldl_cons] at ih ⊢; rw [ih, processRTP_useLatest]

/-- the last reference candidate's sequence number, `sn` if there is none. -/
def lastSeq (sn : Nat) (acc : List Pkt) : Nat := (acc.getLast?.map (·.seq)).getD sn

theorem lastSeq_cons (sn : Nat) (q : Pkt) (acc : List Pkt) : lastSeq sn (q :: acc) = lastSeq q.seq acc := by
  unfold lastSeq
  cases acc with
  | nil => simp
  | cons a as => rw [List.getLast?_cons_cons, List.getLast?_eq_some_getLast (l := a :: as) (by simp)]; simp

theorem lastSeq_snoc (sn : Nat) (acc : List Pkt) (p : Pkt) : lastSeq sn (acc ++ [p]) = p.seq := by
  simp [lastSeq]

theorem acceptedFrom_snoc (l : Bool) (sn : Nat) (ps : List Pkt) (p : Pkt) :
    acceptedFrom l sn (ps ++ [p]) = acceptedFrom l sn ps ++
      (if l || isNewer16 p.seq (lastSeq sn (acceptedFrom l sn ps)) then [p] else []) := by
  induction ps generalizing sn with
  | nil => simp [acceptedFrom, lastSeq]
  | cons q qs ih =>
    simp only [List.cons_append, acceptedFrom]
    split
    · rw [ih, lastSeq_cons]; simp
    · rw [ih]

/-- the state invariant behind `first_of_frame`: the reference is the first packet of the
trailing run of candidates sharing one timestamp. -/
def FrameInv (s : Stream) (acc : List Pkt) : Prop :=
  ∃ pre q rest, acc = pre ++ q :: rest ∧ (∀ r ∈ rest, r.ts = q.ts) ∧
    (∀ x, pre.getLast? = some x → x.ts ≠ q.ts) ∧
    s.lastTs = q.ts ∧ s.lastTime = some q.now ∧ s.lastSN = lastSeq 0 acc

theorem frameInv_step (s : Stream) (acc : List Pkt) (p : Pkt) (hc : s.packetCount ≠ 0)
    (hne : acc ≠ []) (h : FrameInv s acc) :
    FrameInv (processRTP s p)
      (acc ++ (if s.useLatest || isNewer16 p.seq (lastSeq 0 acc) then [p] else [])) := by
  obtain ⟨pre, q, rest, hacc, hrest, hpre, hts, htime, hsn⟩ := h
  have hc' : (s.packetCount == 0) = false := by simpa using hc
  have hacc' : accepts s p.seq = (s.useLatest || isNewer16 p.seq (lastSeq 0 acc)) := by
    unfold accepts isNewer16; simp only [hc', hsn, Bool.false_or]; cases s.useLatest <;> simp
  unfold processRTP
  rw [hacc']
  by_cases hA : (s.useLatest || isNewer16 p.seq (lastSeq 0 acc)) = true
  · simp only [hA, if_true]
    by_cases hT : p.ts = s.lastTs
    · -- same frame: the run grows
      have : ¬ (p.ts ≠ s.lastTs ∨ s.packetCount = 0) := by simp [hT, hc]
      simp only [this, if_false]
      refine ⟨pre, q, rest ++ [p], by simp [hacc], ?_, hpre, hts, htime, ?_⟩
      · intro r hr
        rcases List.mem_append.mp hr with h | h
        · exact hrest r h
        · simp at h; rw [h, hT, hts]
      · rw [lastSeq_snoc]
    · -- new frame: the run restarts at p
      have : (p.ts ≠ s.lastTs ∨ s.packetCount = 0) := Or.inl hT
      simp only [this, if_true]
      refine ⟨acc, p, [], by simp, by simp, ?_, rfl, rfl, (lastSeq_snoc 0 acc p).symm⟩
      intro x hx
      have hx' : x.ts = q.ts := by
        rw [hacc, List.getLast?_append, List.getLast?_eq_some_getLast (l := q :: rest) (by simp)] at hx
        simp only [Option.some_or, Option.some.injEq] at hx
        have hm : x ∈ q :: rest := hx ▸ List.getLast_mem _
        rcases List.mem_cons.mp hm with h | h
        · rw [h]
        · exact hrest x h
      rw [hx', ← hts]; exact fun h => hT h.symm
  · simp only [hA]
    simp only [Bool.false_eq_true, if_false, List.append_nil]
    exact ⟨pre, q, rest, hacc, hrest, hpre, hts, htime, hsn⟩

/-- `processRTP` as it was before the F-09 repair (kept only to state what the repair changed). -/
def processRTPUnrepaired (s : Stream) (p : Pkt) : Stream :=
  let s1 :=
    if accepts s p.seq then
      let s' := { s with lastSN := p.seq }
      if p.ts ≠ s.lastTs then { s' with lastTs := p.ts, lastTime := some p.now } else s'
    else s
  { s1 with packetCount := (s.packetCount + 1) % M32, octetCount := (s.octetCount + p.len) % M32 }

end Interceptor.SenderReport
